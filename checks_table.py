"""Per-property configuration shared by ./check and ./mkmanifest.py."""

FLOCQ_AXIOMS = [
    "ClassicalDedekindReals.sig_not_dec", "ClassicalDedekindReals.sig_forall_dec",
    "FunctionalExtensionality.functional_extensionality_dep", "Classical_Prop.classic",
]

TB_COMMON = [
    "Coq 8.16.1 kernel and vm_compute (no native_compute); theorems print 'Closed under the global context' unless axioms are listed here",
    "hand-written Gallina model in /verif/coq/theories: its agreement with /repo is CHECKED on every run by the correspondence (implementation run at exact rationals / f64 / integers, compared by Coq with the model on the same inputs), not proved",
    "ndarray 0.16.1, num-traits and rustc: modelled, not verified (Zip applies closures element-wise in logical order, indexing panics out of bounds, generic code means the same operations at every element type)",
    "harness: XRat/bigint arithmetic (cross-checked against Coq's Q on every case), generators, oracles, the Python driver",
]

CHECKS = {
    "C12": {
        "cmd": "c12",
        "title": "monotonic_prop classification",
        "technique": "Coq proof (induction over the vector, one invariant per automaton state, arbitrary element type) + exact correspondence of the Gallina automaton with the Rust code",
        "strength": "full: classification theorem for every vector of every length over any element type whose consecutive pairs are ordered; never-Rising theorem with no hypothesis at all",
        "text": "Theorems in coq/props/C12.v hold for all vectors of all lengths and all element types (law-free for the NaN clause). The Gallina automaton is tied to src/vector_extensions.rs by running both on every pair-relation sequence up to length 9 (quick; model histogram to length 11, thorough 13), every NaN placement up to length 6 (8) and random long vectors, through f64/f32/i32/i64/exact rationals and strided/reversed views; Coq itself compares the results.",
        "design_ref": "DESIGN.md section 3, C12",
        "trusted_base": TB_COMMON,
        "assumptions": ["element comparisons behave like PartialOrd on f64/f32/i32/i64 (model instance NumXQ / NumZ)"],
    },
}
