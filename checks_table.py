"""Per-property configuration shared by ./check and ./mkmanifest.py."""

FLOCQ_AXIOMS = [
    "ClassicalDedekindReals.sig_not_dec", "ClassicalDedekindReals.sig_forall_dec",
    "FunctionalExtensionality.functional_extensionality_dep", "Classical_Prop.classic",
]

TB_COMMON = [
    "Coq 8.16.1 kernel and vm_compute (no native_compute); theorems print 'Closed under the global context' unless axioms are listed here",
    "hand-written Gallina model in /verif/coq/theories: its agreement with /repo is CHECKED on every run by the correspondence (implementation run at exact rationals / f64 / integers, compared by Coq with the model on the same inputs), not proved",
    "ndarray 0.16.1, num-traits and rustc: modelled, not verified (Zip applies closures element-wise in logical order, indexing panics out of bounds, generic code means the same operations at every element type)",
    "harness: XRat/bigint arithmetic (cross-checked against Coq's Q on every case), generators, oracles, the Python driver",
]

CHECKS = {
    "C12": {
        "cmd": "c12",
        "title": "monotonic_prop classification",
        "technique": "Coq proof (induction over the vector, one invariant per automaton state, arbitrary element type) + exact correspondence of the Gallina automaton with the Rust code",
        "strength": "full: classification theorem for every vector of every length over any element type whose consecutive pairs are ordered; never-Rising theorem with no hypothesis at all",
        "text": "Theorems in coq/props/C12.v hold for all vectors of all lengths and all element types (law-free for the NaN clause). The Gallina automaton is tied to src/vector_extensions.rs by running both on every pair-relation sequence up to length 9 (quick; model histogram to length 11, thorough 13), every NaN placement up to length 6 (8) and random long vectors, through f64/f32/i32/i64/exact rationals and strided/reversed views; Coq itself compares the results.",
        "design_ref": "DESIGN.md section 3, C12",
        "trusted_base": TB_COMMON,
        "assumptions": ["element comparisons behave like PartialOrd on f64/f32/i32/i64 (model instance NumXQ / NumZ)"],
    },
    "C01": {
        "cmd": "c01",
        "technique": "Coq proof over exact rationals (lookup correctness by induction on the search + field/nra for the line) + exact-arithmetic correspondence of the Gallina model with the Rust code",
        "strength": "full over Q (every finite float is rational); float rounding clause validated (8 eps) on f64/f32 runs; one open known finding: intermediate overflow (S1)",
        "text": "coq/props/C01.v: for every strictly increasing rational axis, data and in-range query the model returns, lane by lane, the straight line through the two bracketing points (hence knots reproduced, result inside the hull), and for every element type the result is calc_frac through one bracket for all lanes. The model is tied to the Rust code by running the crate's own generic code at exact rationals on generated scenarios and comparing exactly inside Coq; f64/f32 runs are compared with the exact result within 8 eps of the larger bracketing value.",
        "design_ref": "DESIGN.md section 3, C01",
        "trusted_base": TB_COMMON,
        "assumptions": ["float inputs within 2^-60..2^60 (no intermediate overflow); the overflow regime is the open known finding S1-overflow"],
    },
    "C04": {
        "cmd": "c04",
        "technique": "Coq proof over exact rationals (field identities for the blend, nodes, grid lines, transposition; lookup theorem for the cell) + exact correspondence",
        "strength": "full over Q; float clause validated (16 eps); open known finding S1 (overflow)",
        "text": "coq/props/C04.v: inside the grid the model returns for every lane the bilinear blend of the four values of one cell containing the query; nodes, grid lines and transposition are field identities; for every element type the four corners read are those of the cell the two lookups chose. Tied to the code by exact-rational runs of the crate (dynamic and static dims, and transposed) compared in Coq, f64/f32 within 16 eps.",
        "design_ref": "DESIGN.md section 3, C04",
        "trusted_base": TB_COMMON,
        "assumptions": ["float inputs within 2^-60..2^60; overflow regime is the open known finding S1-overflow"],
    },
    "C11": {
        "cmd": "c11",
        "technique": "Coq proof (invariant of the binary search by induction on fuel, uniqueness of the bracket from order laws, exact bound on the O(1) guess) + index-exact correspondence incl. bounded-exhaustive (n, guess, rank) sweep",
        "strength": "full for exact rationals, extended rationals (+-inf queries) and integers: Ok i, bracket, never the last index, never a panic; for binary floats the result is proved independent of the guess, the no-panic clause (guess within the vector after rounding) is validated adversarially, not proved",
        "text": "coq/props/C11.v: for any element type with order laws on its non-NaN elements, any strictly increasing axis of length >= 2, any non-NaN query and any admissible guess, the lookup returns Ok i with i <= n-2 and the bracket (0 / n-2 when clamped); the bracket is unique, so the result does not depend on the guess or its rounding; the guess hypothesis is discharged for Q, Z and extended Q. Tied to the code by f64/f32/i32/i64/exact-rational runs against a linear scan and against the model evaluated in Coq.",
        "design_ref": "DESIGN.md section 3, C11",
        "trusted_base": TB_COMMON,
        "assumptions": ["for f64/f32 the rounded guess stays within the vector (property's hypotheses: finite span and quotient); validated on every generated axis through the hook, proved only for exact arithmetic"],
    },
    "C20": {
        "cmd": "c20",
        "technique": "law-free Coq proof (result is a term mentioning only the bracketing rows/knots) + order-law proof that the bracket is stable under moves of other knots + bitwise/exact differential runs with NaN/inf poison",
        "strength": "full: holds for any element type and operations, hence for IEEE floats with NaN and infinities bit for bit",
        "text": "coq/props/C20.v: two inputs whose lookups return the same bracket and that agree on the two (four) bracketing points give Leibniz-equal Linear (Bilinear) results for every lane, nothing assumed about the number type; moving non-bracketing knots of a strictly increasing axis keeps the bracket. Tied to the code by pairs of scenarios with every non-bracketing value poisoned (NaN, +-inf) and knots moved, compared bitwise at f64 and exactly at extended rationals, the latter also against the model in Coq.",
        "design_ref": "DESIGN.md section 3, C20",
        "trusted_base": TB_COMMON,
        "assumptions": [],
    },
    "C02": {
        "cmd": "c02",
        "technique": "Coq proof over exact rationals: Thomas algorithm returns the unique solution (induction over rows), pivots positive for every strictly increasing axis (dominance invariant), evaluation = monomial cubic, interior rows <=> C2 (field) + exact correspondence incl. spline coefficients",
        "strength": "full for whole-data-set NotAKnot/Natural/Clamped boundaries and for the per-end algebra (FirstDeriv/SecondDeriv/NotAKnot incl. the 3-point parabola); partial for Individual (dispatch lemma not proved) and Periodic (condensed cyclic solve not proved): those two are carried by the exact correspondence and the implementation-side oracle",
        "text": "coq/props/C02.v: lane by lane, for every strictly increasing rational axis with n >= 3 and every data set, the slopes solve_for_k returns are the unique solution of the tridiagonal system (no pivot vanishes), every answered query is the monomial cubic of one bracketing interval, pieces interpolate and are C1 for any slopes, and the solution of the system is C2 at every interior knot. Tied to the code by exact-rational runs of the crate compared in Coq (values and the coefficient arrays a, b through the cfg hook) for all boundary kinds, an oracle that fits cubics to the implementation's own exact samples, and f64/f32 runs within 2^-30/2^-10.",
        "design_ref": "DESIGN.md section 3, C02",
        "trusted_base": TB_COMMON,
        "assumptions": ["Individual dispatch and the Periodic condensed solve: validated exactly on every generated case, not proved"],
    },
    "C03": {
        "cmd": "c03",
        "technique": "Coq proof over exact rationals: each boundary row (with the neighbouring interior row for NotAKnot) is the selected end condition of the pieces (field), uniqueness from the Thomas correctness theorem + exact correspondence over every ordered pair of end conditions",
        "strength": "full for FirstDeriv/SecondDeriv/Natural/Clamped/NotAKnot on either end incl. n = 3; Periodic: the wrap-around row is proved to be C2 across the period, the cyclic solve is validated only (partial)",
        "text": "coq/props/C03.v: for every lane, the unique solution of the assembled system satisfies S'(x0)=v / S''(x0)=v / continuous third derivative at the first interior knot on the left, the mirror statements on the right (this is where the repaired defect lived: the proof needs dx[-2] on the diagonal), the parabola for 3 points, and it is the only solution. Tied to the code as C02, with every ordered pair of the five single-end conditions at n = 3, 4, 6 and the regression case of the repaired defect first.",
        "design_ref": "DESIGN.md section 3, C03",
        "trusted_base": TB_COMMON,
        "assumptions": ["Periodic condensed cyclic solve validated, not proved"],
    },
}
