#!/usr/bin/env python3
"""Regenerates MANIFEST.json from checks_table.py (keeps the two in sync)."""
import json, subprocess
from checks_table import CHECKS
ids = [json.loads(l)["id"] for l in open("/verif/properties.jsonl")]
try:
    hooks = [l.split()[0] for l in subprocess.run(["git", "-C", "/repo", "log", "--format=%H %s"], capture_output=True, text=True).stdout.splitlines() if " verif-hook:" in l]
except Exception:
    hooks = []
na_reasons = json.load(open("/verif/not_applicable.json")) if __import__("os").path.exists("/verif/not_applicable.json") else {}
m = {
    "version": 1,
    "setup_cmd": "cd /verif && ./setup.sh",
    "hooks": {
        "guard": "ndarray_interp_verif",
        "enable": "RUSTFLAGS=\"--cfg ndarray_interp_verif\" (set by /verif/check when it builds /verif/harness against /repo)",
        "baseline_off_cmd": "cd /repo && cargo test --workspace --no-fail-fast --offline",
        "source_commits": hooks,
        "add_only": True,
    },
    "engines": [{"name": "coq-model-and-correspondence", "path": "/verif/check",
                 "serves_properties": sorted(CHECKS),
                 "kind_free_text": "Coq 8.16 theorems about a Gallina model of the crate + differential correspondence (implementation at exact rationals vs model, compared inside Coq)"}],
    "checks": [],
    "not_applicable": [],
    "notes": "Every check: ./check <ID> [--tier quick|thorough]; VERIF_SEED is honoured; evidence in /verif/evidence/<ID>.json; known findings in /verif/known_findings.json.",
}
for i in ids:
    if i in CHECKS:
        c = CHECKS[i]
        m["checks"].append({
            "property_id": i,
            "quick_cmd": "./check %s --tier quick" % i,
            "thorough_cmd": "./check %s --tier thorough" % i,
            "evidence_file": "/verif/evidence/%s.json" % i,
            "replay_cmd_template": "./check %s --replay {path}" % i,
            "engine": "coq-model-and-correspondence",
            "level_claimed": {"category": "proof", "text": c["text"], "design_ref": c["design_ref"]},
            "level_note": "; ".join(c["trusted_base"][:2]) + ("; " + "; ".join(c.get("assumptions", []))),
            "technique": c["technique"],
        })
    else:
        m["not_applicable"].append({"property_id": i, "reason": na_reasons.get(i, "check not built yet (work in progress; see DESIGN.md section 8)")})
json.dump(m, open("/verif/MANIFEST.json", "w"), indent=1)
print("checks:", [c["property_id"] for c in m["checks"]])
