#!/bin/bash
# usage: confirm_mutant.sh <mutant_dir> -- confirms in a scratch worktree that the mutant (patch.diff, demo.rs)
# compiles, passes the existing suite, and that the demo fails with it and passes without it.
set -u
M=$1
WT=/tmp/wt_confirm
export CARGO_TARGET_DIR=/tmp/wt_confirm_target
if [ ! -d $WT ]; then git -C /repo worktree add -q $WT HEAD || exit 2; fi
cd $WT && git checkout -q --detach $(git -C /repo rev-parse HEAD) && git checkout -- . && git clean -fdq tests/
cp $M/demo.rs tests/zz_demo.rs
clean_demo=$(cargo test --offline --test zz_demo 2>&1 | grep -E "^test result" | head -1)
if ! git apply $M/patch.diff 2>/dev/null; then
  if ! git apply --3way $M/patch.diff 2>/dev/null; then echo "PATCH-DOES-NOT-APPLY"; git checkout -- .; rm -f tests/zz_demo.rs; exit 3; fi
fi
mut_demo=$(cargo test --offline --test zz_demo 2>&1 | grep -E "^test result|error(\[|:)" | head -1)
rm -f tests/zz_demo.rs
suite=$(cargo test --offline 2>&1 | grep -E "^test result" | awk '{p+=$4; f+=$6} END {print p" passed "f" failed"}')
git reset -q --hard
echo "clean-demo: $clean_demo | mutant-demo: $mut_demo | suite-with-mutant: $suite"
