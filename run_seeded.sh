#!/bin/bash
# usage: run_seeded.sh <patch.diff> <prop> [<prop>...] -- applies the patch to /repo, runs the quick checks, reverts.
P=$1; shift
cd /repo && git status --short | grep -q . && { echo "repo dirty"; exit 2; }
if ! git -C /repo apply $P 2>/dev/null; then git -C /repo apply --3way $P 2>/dev/null || { echo "PATCH-DOES-NOT-APPLY"; git -C /repo checkout -- .; exit 3; }; fi
for prop in "$@"; do
  out=$(cd /verif && ./check $prop --tier quick 2>&1 | grep -E "^VIOLATION|^$prop tier" | tr '\n' ' ')
  echo "$prop: $out"
done
git -C /repo reset -q --hard
