#!/bin/bash
# run the quick tier of all checks on the current tree for the given seeds; print only non-clean lines
cd /verif
for seed in "$@"; do
  for id in C01 C02 C03 C04 C05 C06 C07 C08 C09 C10 C11 C12 C13 C14 C15 C16 C17 C18 C19 C20; do
    out=$(VERIF_SEED=$seed ./check $id --tier quick 2>&1); rc=$?
    if [ $rc -ne 0 ] || echo "$out" | grep -q VIOLATION; then
      echo "seed=$seed $id rc=$rc $(echo "$out" | grep -E "VIOLATION" | head -3 | tr '\n' ' ') $(echo "$out" | tail -1)"
      mkdir -p /tmp/sweep_replays; cp /verif/replays/$id-quick-$seed-* /tmp/sweep_replays/ 2>/dev/null
    else
      echo "seed=$seed $id ok"
    fi
  done
done
echo SWEEPDONE
