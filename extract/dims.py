#!/usr/bin/env python3
"""Regenerates coq/gen/DimsGen.v from (a) ndarray 0.16.1's Dimension::Smaller / DimAdd tables in the
vendored source and (b) the type arguments of every cast_unchecked::<A, B> call and the TypeId guard
in /repo/src/interp{1,2}d/mod.rs.  Fails closed (exit 1) on anything it does not recognise."""
import glob, os, re, sys

def die(msg):
    print("dims.py: " + msg)
    sys.exit(1)

def nd_src():
    c = sorted(glob.glob(os.path.expanduser("~/.cargo/registry/src/*/ndarray-0.16.1")))
    if not c:
        die("vendored ndarray-0.16.1 source not found")
    return c[0]

DIMS = ["Ix0", "Ix1", "Ix2", "Ix3", "Ix4", "Ix5", "Ix6", "IxDyn"]

def parse_smaller(src):
    t = open(os.path.join(src, "src/dimension/dimension_trait.rs")).read()
    out = {}
    for m in re.finditer(r"impl Dimension for (Dim<\[Ix; (\d)\]>|IxDyn)\s*\{(.*?)type Larger", t, re.S):
        name = "IxDyn" if m.group(1) == "IxDyn" else "Ix" + m.group(2)
        sm = re.search(r"type Smaller = ([^;]+);", m.group(3))
        if not sm:
            die("no Smaller for " + name)
        v = sm.group(1).strip()
        out[name] = name if v == "Self" else v
    if "type Smaller = Dim<[Ix; $n - 1]>;" not in t:
        die("large_dim! macro changed")
    for m in re.finditer(r"^large_dim!\((\d),", t, re.M):
        n = int(m.group(1))
        out["Ix%d" % n] = "Ix%d" % (n - 1)
    for d in DIMS:
        if d not in out or out[d] not in DIMS:
            die("Smaller table incomplete: %r" % out)
    return out

def parse_dimadd(src):
    t = open(os.path.join(src, "src/dimension/ops.rs")).read()
    tbl = {}
    if not re.search(r"impl<D: Dimension> DimAdd<D> for Ix0\s*\{\s*type Output = D;", t):
        die("DimAdd for Ix0 changed")
    if not re.search(r"impl<D: Dimension> DimAdd<D> for IxDyn\s*\{\s*type Output = IxDyn;", t):
        die("DimAdd for IxDyn changed")
    for d in DIMS:
        tbl[("Ix0", d)] = d
        tbl[("IxDyn", d)] = "IxDyn"
    for m in re.finditer(r"^impl_dimadd_const_out_(const|dyn)!\((\d), (\d|IxDyn)\);", t, re.M):
        kind, l, r = m.group(1), int(m.group(2)), m.group(3)
        rn = "IxDyn" if r == "IxDyn" else "Ix" + r
        if kind == "const":
            tbl[("Ix%d" % l, rn)] = "Ix%d" % (l + int(r))
        else:
            tbl[("Ix%d" % l, rn)] = "IxDyn"
    for a in DIMS:
        for b in DIMS:
            if (a, b) not in tbl or tbl[(a, b)] not in DIMS:
                die("DimAdd table incomplete at %s + %s" % (a, b))
    return tbl

# ---- type expressions of the cast sites ----
def parse_dim(s):
    s = s.strip()
    if s in ("Dq", "D") or s in DIMS:
        return "(DVar V%s)" % s if s in ("Dq", "D") else "(DConst %s)" % s
    if s.endswith("::Smaller") and not s.startswith("<"):
        return "(DSmaller %s)" % parse_dim(s[: -len("::Smaller")])
    m = re.fullmatch(r"<(.+) as Dimension>::Smaller", s)
    if m:
        return "(DSmaller %s)" % parse_dim(m.group(1))
    m = re.fullmatch(r"<(\w+) as DimAdd<(.+)>>::Output", s)
    if m:
        return "(DAdd %s %s)" % (parse_dim(m.group(1)), parse_dim(m.group(2)))
    die("unrecognised dimension expression: %r" % s)

def parse_type(s):
    s = re.sub(r"\s+", " ", s).strip().rstrip(",").strip()
    s = s.replace("< ", "<").replace(", >", ">").replace(",>", ">").replace(" >", ">")
    m = re.fullmatch(r"&ArrayBase<(\w+), (.+)>", s)
    if m:
        return "(TRefArray S%s %s)" % (m.group(1), parse_dim(m.group(2)))
    m = re.fullmatch(r"ArrayViewMut<Sd::Elem, (.+)>", s)
    if m:
        return "(TViewMut %s)" % parse_dim(m.group(1))
    die("unrecognised cast type: %r" % s)

def split_top(s):
    depth = 0
    for i, c in enumerate(s):
        if c == "<":
            depth += 1
        elif c == ">":
            depth -= 1
        elif c == "," and depth == 0:
            return s[:i], s[i + 1:]
    die("cannot split turbofish %r" % s)

def parse_sites(path):
    t = open(path).read()
    t = re.sub(r"//[^\n]*", "", t)
    sites = []
    i = 0
    while True:
        k = t.find("cast_unchecked::<", i)
        if k < 0:
            break
        j = k + len("cast_unchecked::<")
        depth = 1
        e = j
        while depth > 0:
            if t[e] == "<":
                depth += 1
            elif t[e] == ">":
                depth -= 1
            e += 1
        inner = t[j:e - 1]
        a, b = split_top(inner)
        sites.append((parse_type(a), parse_type(b)))
        i = e
    guards = re.findall(r"if TypeId::of::<(\w+)>\(\) == TypeId::of::<(\w+)>\(\)", t)
    if len(guards) != 1 or guards[0][0] != "Dq":
        die("expected exactly one `TypeId::of::<Dq>() == TypeId::of::<..>()` guard in %s, found %r" % (path, guards))
    gpos = t.find("if TypeId::of::<Dq>()")
    first_cast = t.find("cast_unchecked::<")
    if not (0 <= gpos < first_cast):
        die("the TypeId guard does not precede the casts in " + path)
    # every cast must lie inside the guarded block: between the guard and the matching close brace
    brace = t.find("{", gpos)
    depth, e = 1, brace + 1
    while depth > 0:
        if t[e] == "{": depth += 1
        elif t[e] == "}": depth -= 1
        e += 1
    for m in re.finditer(r"cast_unchecked::<", t):
        if not (brace < m.start() < e):
            die("a cast_unchecked call outside the TypeId-guarded block in " + path)
    return sites, guards[0][1]

def main():
    out = sys.argv[1] if len(sys.argv) > 1 else "/verif/coq/gen/DimsGen.v"
    src = nd_src()
    smaller = parse_smaller(src)
    dimadd = parse_dimadd(src)
    s1, g1 = parse_sites("/repo/src/interp1d/mod.rs")
    s2, g2 = parse_sites("/repo/src/interp2d/mod.rs")
    if not s1 or not s2:
        die("no cast sites found")
    lines = ["(* GENERATED by /verif/extract/dims.py on every run -- do not edit. *)",
             "From Coq Require Import List.", "From NI Require Import Dims.", "Import ListNotations.", ""]
    lines.append("Definition smaller_tbl (d : dim) : dim :=\n  match d with")
    for d in DIMS:
        lines.append("  | %s => %s" % (d, smaller[d]))
    lines.append("  end.\n")
    lines.append("Definition dimadd_tbl (a b : dim) : dim :=\n  match a, b with")
    for a in DIMS:
        for b in DIMS:
            lines.append("  | %s, %s => %s" % (a, b, dimadd[(a, b)]))
    lines.append("  end.\n")
    def sites(name, ss):
        lines.append("Definition %s : list (texp * texp) := [" % name)
        lines.append(";\n".join("  (%s, %s)" % p for p in ss))
        lines.append("].\n")
    sites("sites_1d", s1)
    sites("sites_2d", s2)
    lines.append("Definition guard_1d : dim := %s.\nDefinition guard_2d : dim := %s.\n" % (g1, g2))
    os.makedirs(os.path.dirname(out), exist_ok=True)
    new = "\n".join(lines)
    if not os.path.exists(out) or open(out).read() != new:
        open(out, "w").write(new)
    print("dims.py: %d + %d cast sites, guards %s / %s" % (len(s1), len(s2), g1, g2))

main()
