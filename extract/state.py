#!/usr/bin/env python3
"""C17 source audit, re-run on every check: the fields of the interpolator / strategy structs must be
plain immutable data, the crate must not contain interior mutability or global mutable state, and every
query method must take &self.  Fails closed (exit 1) on anything outside the white-list."""
import json, os, re, sys

SRC = "/repo/src"
problems = []

def strip_hooks(t):
    """remove code guarded by #[cfg(ndarray_interp_verif)] (the verification hooks themselves)"""
    out = []
    i = 0
    while True:
        k = t.find("#[cfg(ndarray_interp_verif)]", i)
        if k < 0:
            out.append(t[i:])
            break
        out.append(t[i:k])
        j = k + len("#[cfg(ndarray_interp_verif)]")
        # the guarded item: up to the end of the statement (;) or of the brace block, whichever starts first
        semi = t.find(";", j)
        brace = t.find("{", j)
        if brace >= 0 and (semi < 0 or brace < semi):
            depth, e = 1, brace + 1
            while depth > 0:
                if t[e] == "{": depth += 1
                elif t[e] == "}": depth -= 1
                e += 1
            i = e
        else:
            i = semi + 1
    return "".join(out)

files = {}
for root, _, names in os.walk(SRC):
    for n in names:
        if n.endswith(".rs"):
            p = os.path.join(root, n)
            t = open(p).read()
            t = strip_hooks(t)
            t = re.sub(r"//[^\n]*", "", t)
            files[p] = t

FORBIDDEN = r"\b(Cell|RefCell|OnceCell|Mutex|RwLock|UnsafeCell|Atomic\w+|lazy_static|OnceLock|LazyLock)\b|static\s+mut\b|thread_local!"
for p, t in files.items():
    for m in re.finditer(FORBIDDEN, t):
        problems.append("%s: interior mutability / global mutable state: %s" % (p, m.group(0)))

WHITE = [r"ArrayBase<\s*\w+\s*,\s*[\w:]+\s*>", r"Array<\s*[\w:]+\s*,\s*\w+\s*>", r"bool", r"Extrapolate", r"Strat", r"BoundaryCondition<\s*T\s*,\s*D\s*>"]
structs = {}
def fields_of(name):
    for p, t in files.items():
        m = re.search(r"pub struct %s\b[^{;]*\{(.*?)\n\}" % name, t, re.S)
        if m:
            fs = []
            for line in m.group(1).split("\n"):
                line = re.sub(r"///.*", "", line).strip().rstrip(",")
                if not line:
                    continue
                fm = re.match(r"(?:pub(?:\([^)]*\))?\s+)?(\w+)\s*:\s*(.+)", line)
                if not fm:
                    problems.append("%s: cannot parse field %r of %s" % (p, line, name))
                    continue
                fs.append((fm.group(1), fm.group(2).strip()))
            return fs
    problems.append("struct %s not found" % name)
    return []

for name in ["Interp1D", "Interp2D", "CubicSplineStrategy", "Linear", "Bilinear", "CubicSpline"]:
    fs = fields_of(name)
    structs[name] = fs
    for f, ty in fs:
        if not any(re.fullmatch(w, ty) for w in WHITE):
            problems.append("struct %s: field %s has a type outside the white-list: %s" % (name, f, ty))

# every public query / accessor method takes &self (no &mut self, no interior handles)
for p in ["/repo/src/interp1d/mod.rs", "/repo/src/interp2d/mod.rs"]:
    t = files.get(p, "")
    for m in re.finditer(r"pub fn (interp\w*|index_point|get_index_left_of|is_in_\w*range)\s*(?:<[^>]*>)?\s*\(\s*([^,)]*)", t):
        if m.group(2).strip() != "&self":
            problems.append("%s: query method %s takes %r, not &self" % (p, m.group(1), m.group(2).strip()))
for p, t in files.items():
    if re.search(r"fn interp_into\s*\(\s*&mut self", t):
        problems.append("%s: a strategy's interp_into takes &mut self" % p)

out = {"structs": {k: [list(x) for x in v] for k, v in structs.items()}, "problems": problems}
dst = sys.argv[1] if len(sys.argv) > 1 else "/verif/work/state_audit.json"
os.makedirs(os.path.dirname(dst), exist_ok=True)
json.dump(out, open(dst, "w"), indent=1)
if problems:
    for p in problems:
        print("state.py:", p)
    sys.exit(1)
print("state.py: %d structs audited, no shared mutable state" % len(structs))
