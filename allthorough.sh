#!/bin/bash
cd /verif
ids=${@:-C01 C02 C03 C04 C05 C06 C07 C08 C09 C10 C11 C12 C13 C14 C15 C16 C17 C18 C19 C20}
for id in $ids; do
  out=$(./check $id --tier thorough 2>&1); rc=$?
  echo "$id rc=$rc $(echo "$out" | grep -E "VIOLATION" | head -3 | tr '\n' ' ') $(echo "$out" | tail -1 | cut -c1-220)"
done
echo ALLDONE
