#!/bin/bash
# usage: regress_mutants.sh <logfile> [Cxx-mN ...]   (default: every seeded change)
# Applies each seeded change to /repo, runs the quick tier of its OWNING check, undoes it; no re-confirmation.
cd /verif
log=$1; shift
list=${@:-$(ls -d /verif/seeded/C??-m* | xargs -n1 basename)}
for m in $list; do
  own=${m:0:3}
  r=$(/verif/run_seeded.sh /verif/seeded/$m/patch.diff $own 2>&1 | tr '\n' ' ')
  echo "== $m | CHECKS: $r" >> $log
done
echo ALLDONE >> $log
