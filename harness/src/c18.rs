//! C18: recording / failing user-defined strategies for Interp1D and Interp2D.
use crate::json::{obj, s, J};
use crate::out::Report;
use crate::rng::Rng;
use crate::scen::panic_msg;
use crate::Cfg;
use ndarray::{Array1, ArrayBase, ArrayD, ArrayViewMut, Data, Dimension, Ix1, IxDyn, RemoveAxis};
use ndarray_interp::interp1d::{Interp1D, Interp1DBuilder, Interp1DStrategy, Interp1DStrategyBuilder};
use ndarray_interp::interp2d::{Interp2D, Interp2DBuilder, Interp2DStrategy, Interp2DStrategyBuilder};
use ndarray_interp::{BuilderError, InterpolateError};
use std::cell::RefCell;
use std::panic::{catch_unwind, AssertUnwindSafe};
use std::rc::Rc;

#[derive(Default, Debug, Clone)]
pub struct Log {
    pub build_calls: Vec<(Vec<f64>, Vec<usize>)>, // (x axis as seen by build, data shape)
    pub build_y: Vec<Vec<f64>>,
    pub calls: Vec<(f64, f64, Vec<usize>)>,       // (x, y or NaN, target shape)
    pub accessor_mismatch: Vec<String>,
}
type Shared = Rc<RefCell<Log>>;

pub struct RecBuilder<const MIN: usize> {
    log: Shared,
    fail_build: bool,
    fail_at: Option<usize>,
}
pub struct Rec {
    log: Shared,
    fail_at: Option<usize>,
}

impl<Sd, Sx, D, const MIN: usize> Interp1DStrategyBuilder<Sd, Sx, D> for RecBuilder<MIN>
where
    Sd: Data<Elem = f64>,
    Sx: Data<Elem = f64>,
    D: Dimension + RemoveAxis,
{
    const MINIMUM_DATA_LENGHT: usize = MIN;
    type FinishedStrat = Rec;
    fn build<Sx2>(self, x: &ArrayBase<Sx2, Ix1>, data: &ArrayBase<Sd, D>) -> Result<Rec, BuilderError>
    where
        Sx2: Data<Elem = f64>,
    {
        self.log.borrow_mut().build_calls.push((x.to_vec(), data.shape().to_vec()));
        if self.fail_build {
            return Err(BuilderError::ValueError("injected build failure #4711".into()));
        }
        Ok(Rec { log: self.log, fail_at: self.fail_at })
    }
}

impl<Sd, Sx, D> Interp1DStrategy<Sd, Sx, D> for Rec
where
    Sd: Data<Elem = f64>,
    Sx: Data<Elem = f64>,
    D: Dimension + RemoveAxis,
{
    fn interp_into(&self, interp: &Interp1D<Sd, Sx, D, Self>, mut target: ArrayViewMut<'_, f64, D::Smaller>, x: f64) -> Result<(), InterpolateError> {
        let k = self.log.borrow().calls.len();
        self.log.borrow_mut().calls.push((x, f64::NAN, target.shape().to_vec()));
        // accessors as the strategy sees them
        target.fill(x);
        if Some(k) == self.fail_at {
            return Err(InterpolateError::OutOfBounds(format!("injected failure at call {}", k)));
        }
        let _ = interp;
        Ok(())
    }
}

impl<Sd, Sx, Sy, D, const MIN: usize> Interp2DStrategyBuilder<Sd, Sx, Sy, D> for RecBuilder<MIN>
where
    Sd: Data<Elem = f64>,
    Sx: Data<Elem = f64>,
    Sy: Data<Elem = f64>,
    D: Dimension + RemoveAxis,
    D::Smaller: RemoveAxis,
{
    const MINIMUM_DATA_LENGHT: usize = MIN;
    type FinishedStrat = Rec;
    fn build(self, x: &ArrayBase<Sx, Ix1>, y: &ArrayBase<Sy, Ix1>, data: &ArrayBase<Sd, D>) -> Result<Rec, BuilderError> {
        self.log.borrow_mut().build_calls.push((x.to_vec(), data.shape().to_vec()));
        self.log.borrow_mut().build_y.push(y.to_vec());
        if self.fail_build {
            return Err(BuilderError::ValueError("injected build failure #4711".into()));
        }
        Ok(Rec { log: self.log, fail_at: self.fail_at })
    }
}
impl<Sd, Sx, Sy, D> Interp2DStrategy<Sd, Sx, Sy, D> for Rec
where
    Sd: Data<Elem = f64>,
    Sx: Data<Elem = f64>,
    Sy: Data<Elem = f64>,
    D: Dimension + RemoveAxis,
    D::Smaller: RemoveAxis,
{
    fn interp_into(&self, _interp: &Interp2D<Sd, Sx, Sy, D, Self>, mut target: ArrayViewMut<'_, f64, <D::Smaller as Dimension>::Smaller>, x: f64, y: f64) -> Result<(), InterpolateError> {
        let k = self.log.borrow().calls.len();
        self.log.borrow_mut().calls.push((x, y, target.shape().to_vec()));
        target.fill(x + 1000.0 * y);
        if Some(k) == self.fail_at {
            return Err(InterpolateError::OutOfBounds(format!("injected failure at call {}", k)));
        }
        Ok(())
    }
}

fn strictly_increasing(a: &[f64]) -> bool {
    a.len() >= 2 && a.windows(2).all(|w| w[0] < w[1])
}

/// one builder scenario with declared minimum MIN
fn build_case<const MIN: usize>(rep: &mut Report, rng: &mut Rng) {
    let n = rng.range(0, (MIN + 2) as i64) as usize;
    let trail: Vec<usize> = match rng.below(3) { 0 => vec![], 1 => vec![2], _ => vec![2, 3] };
    let mut shape = vec![n];
    shape.extend_from_slice(&trail);
    let total: usize = shape.iter().product();
    let data = ArrayD::from_shape_vec(IxDyn(&shape), (0..total).map(|i| i as f64).collect()).unwrap();
    let alen = match rng.below(4) { 0 => n.saturating_sub(1), 1 => n + 1, _ => n };
    let mut ax: Vec<f64> = (0..alen).map(|i| i as f64 * 1.5 - 2.0).collect();
    match rng.below(5) {
        0 if alen >= 2 => { let p = rng.below((alen - 1) as u64) as usize; ax[p + 1] = ax[p]; }
        1 if alen >= 2 => { let p = rng.below((alen - 1) as u64) as usize; ax.swap(p, p + 1); }
        2 if alen >= 1 => { let p = rng.below(alen as u64) as usize; ax[p] = f64::NAN; }
        _ => {}
    }
    let fail_build = rng.chance(1, 4);
    let log: Shared = Default::default();
    let b = RecBuilder::<MIN> { log: log.clone(), fail_build, fail_at: None };
    let r = catch_unwind(AssertUnwindSafe(|| Interp1DBuilder::new(data).x(Array1::from(ax.clone())).strategy(b).build().map(|_| ())));
    rep.eval(Some(&format!("b{} {} {:?} {:?} {}", MIN, n, trail, ax, fail_build)));
    rep.count(&format!("1d-build:min{}", MIN));
    let valid = n >= MIN && strictly_increasing(&ax) && ax.len() == n;
    let lg = log.borrow().clone();
    let desc = obj(vec![("declared_minimum", J::I(MIN as i64)), ("data_shape", s(format!("{:?}", shape))), ("axis", s(format!("{:?}", ax))), ("strategy_build_fails", J::B(fail_build))]);
    match r {
        Err(p) => rep.fail(&format!("builder panicked: {}", panic_msg(p)), desc),
        Ok(res) => {
            if valid {
                if lg.build_calls.len() != 1 {
                    rep.fail(&format!("strategy build called {} times on valid input", lg.build_calls.len()), desc.clone());
                } else {
                    let (bx, bshape) = &lg.build_calls[0];
                    if bx.iter().map(|v| v.to_bits()).collect::<Vec<_>>() != ax.iter().map(|v| v.to_bits()).collect::<Vec<_>>() || bshape != &shape {
                        rep.fail("strategy build saw a different axis or data shape than the caller supplied", desc.clone());
                    }
                }
                match (&res, fail_build) {
                    (Ok(()), false) => {}
                    (Err(BuilderError::ValueError(m)), true) if m == "injected build failure #4711" => {}
                    other => rep.fail(&format!("strategy build result not passed through unchanged: {:?}", other.0.as_ref().map_err(|e| e.to_string())), desc.clone()),
                }
            } else {
                if !lg.build_calls.is_empty() {
                    rep.fail("strategy build was invoked with inputs that fail validation", desc.clone());
                }
                if res.is_ok() {
                    rep.fail("invalid input accepted", desc.clone());
                }
            }
        }
    }
}

/// query entry points: trace of (x, target shape), error propagation, failure at every index
fn query_case(rep: &mut Report, rng: &mut Rng, kz: usize) {
    let n = rng.range(2, 5) as usize;
    let trail: Vec<usize> = match rng.below(8) { 0 => vec![], 1 => vec![2], 2 => vec![2, 3], 3 => vec![1], 4 => vec![0], 5 => vec![4, 0], 6 => vec![0, 2], _ => vec![3, 1, 2] };
    let mut shape = vec![n];
    shape.extend_from_slice(&trail);
    let total: usize = shape.iter().product();
    let data = ArrayD::from_shape_vec(IxDyn(&shape), (0..total).map(|i| i as f64).collect()).unwrap();
    let qrank = rng.below(4) as usize;
    let qshape: Vec<usize> = (0..qrank).map(|_| rng.range(0, 3) as usize).collect();
    let qn: usize = qshape.iter().product();
    // queries are distinct integers; arbitrary values (the strategy decides what is "in range")
    let qs: Vec<f64> = (0..qn).map(|i| 100.0 + i as f64).collect();
    let dyn_query = rng.coin();
    for fail_at in std::iter::once(None).chain((0..qn.min(6)).map(Some)) {
        let log: Shared = Default::default();
        let interp = Interp1DBuilder::new(data.clone()).strategy(RecBuilder::<2> { log: log.clone(), fail_build: false, fail_at }).build().unwrap();
        log.borrow_mut().calls.clear();
        let r = catch_unwind(AssertUnwindSafe(|| {
            let qd = ArrayD::from_shape_vec(IxDyn(&qshape), qs.clone()).unwrap();
            macro_rules! stat { ($d:ty) => { interp.interp_array(&qd.clone().into_dimensionality::<$d>().unwrap()).map(|a| (a.shape().to_vec(), a.iter().cloned().collect::<Vec<f64>>())) }; }
            if dyn_query { interp.interp_array(&qd).map(|a| (a.shape().to_vec(), a.iter().cloned().collect::<Vec<f64>>())) }
            else { match qrank { 0 => stat!(ndarray::Ix0), 1 => stat!(Ix1), 2 => stat!(ndarray::Ix2), _ => stat!(ndarray::Ix3) } }
        }));
        rep.eval(Some(&format!("q {:?} {:?} {:?} {} {:?}", shape, qshape, fail_at, dyn_query, trail)));
        rep.count(&format!("1d-query:rank{}{}", qrank, if dyn_query { "-dyn" } else { "" }));
        let lg = log.borrow().clone();
        let desc = obj(vec![("data_shape", s(format!("{:?}", shape))), ("query_shape", s(format!("{:?}", qshape))), ("dynamic_query", J::B(dyn_query)), ("fail_at", s(format!("{:?}", fail_at)))]);
        // expected trace: queries in row-major order up to and including the failing one
        let upto = match fail_at { Some(k) => (k + 1).min(qn), None => qn };
        let want: Vec<(f64, Vec<usize>)> = qs[..upto].iter().map(|&q| (q, trail.clone())).collect();
        let got: Vec<(f64, Vec<usize>)> = lg.calls.iter().map(|c| (c.0, c.2.clone())).collect();
        if got != want {
            rep.fail(&format!("strategy call trace {:?} differs from the query values in row-major order with the data's trailing shape {:?}", got, want), desc.clone());
        }
        match (r, fail_at) {
            (Err(p), _) => rep.fail(&format!("entry point panicked: {}", panic_msg(p)), desc.clone()),
            (Ok(Ok((sh, vals))), None) => {
                let mut ws = qshape.clone();
                ws.extend_from_slice(&trail);
                let lanes: usize = trail.iter().product();
                let wv: Vec<f64> = qs.iter().flat_map(|&q| std::iter::repeat(q).take(lanes)).collect();
                if sh != ws || vals != wv {
                    rep.fail("interp_array did not return what the strategy wrote (query value in every lane)", desc.clone());
                }
            }
            (Ok(Err(InterpolateError::OutOfBounds(m))), Some(k)) if k < qn => {
                if m != format!("injected failure at call {}", k) {
                    rep.fail(&format!("strategy error not passed through unchanged: {:?}", m), desc.clone());
                }
            }
            (Ok(other), fa) => {
                if !(fa.map(|k| k >= qn).unwrap_or(false) && other.is_ok()) {
                    rep.fail(&format!("unexpected result {:?} with failure injected at {:?}", other.map(|x| x.0), fa), desc.clone());
                }
            }
        }
        // the model's trace, evaluated in Coq: (qshape, queries, fail value, expected calls, code)
        let failv = fail_at.filter(|&k| k < qn).map(|k| qs[k] as i64).unwrap_or(-1);
        let term = format!(
            "([{}], [{}], [{}], {}, [{}], {})",
            trail.iter().map(|d| format!("{}%nat", d)).collect::<Vec<_>>().join("; "),
            qshape.iter().map(|d| format!("{}%nat", d)).collect::<Vec<_>>().join("; "),
            qs.iter().map(|q| format!("{}", *q as i64)).collect::<Vec<_>>().join("; "),
            failv,
            got.iter().map(|c| format!("{}", c.0 as i64)).collect::<Vec<_>>().join("; "),
            if failv >= 0 { 1 } else { 0 }
        );
        rep.coq_case(kz, term, desc);
    }
    // single-query entry points and accessors
    let log: Shared = Default::default();
    let interp = Interp1DBuilder::new(data.clone()).strategy(RecBuilder::<2> { log: log.clone(), fail_build: false, fail_at: None }).build().unwrap();
    log.borrow_mut().calls.clear();
    let a = interp.interp(7.25).unwrap();
    let mut buf = ArrayD::from_elem(IxDyn(&trail), 0.0);
    interp.interp_into(-3.5, buf.view_mut()).unwrap();
    let lg = log.borrow().clone();
    rep.evaluations += 2;
    let want = vec![(7.25, trail.clone()), (-3.5, trail.clone())];
    let got: Vec<(f64, Vec<usize>)> = lg.calls.iter().map(|c| (c.0, c.2.clone())).collect();
    if got != want || a.shape() != &trail[..] || a.iter().any(|&v| v != 7.25) || buf.iter().any(|&v| v != -3.5) {
        rep.fail("interp / interp_into: the strategy did not receive the unmodified query and a target of the trailing shape", obj(vec![("data_shape", s(format!("{:?}", shape)))]));
    }
    // accessors: index_point, is_in_range, get_index_left_of on the default axis
    for i in 0..n {
        let (x, row) = interp.index_point(i);
        let wantrow: Vec<f64> = data.index_axis(ndarray::Axis(0), i).iter().cloned().collect();
        if x != i as f64 || row.iter().cloned().collect::<Vec<f64>>() != wantrow {
            rep.fail(&format!("index_point({}) is not (axis[i], data[i])", i), obj(vec![("data_shape", s(format!("{:?}", shape)))]));
        }
    }
    for q in [0.0, (n - 1) as f64, -1e-300, (n - 1) as f64 + 1e-9, f64::NAN, f64::INFINITY, 0.5] {
        let want = q >= 0.0 && q <= (n - 1) as f64;
        if interp.is_in_range(q) != want {
            rep.fail(&format!("is_in_range({:?}) is not the closed-range test", q), J::Null);
        }
    }
    for q in [0.0, 0.5, (n - 1) as f64, 1.0, -5.0, 1e9] {
        let want = if q <= 0.0 { 0 } else if q >= (n - 1) as f64 { n - 2 } else { q.floor() as usize };
        if interp.get_index_left_of(q) != want {
            rep.fail(&format!("get_index_left_of({:?}) = {}, bracketing interval is {}", q, interp.get_index_left_of(q), want), J::Null);
        }
    }
    if trail.is_empty() {
        let d1 = Array1::from((0..n).map(|i| i as f64).collect::<Vec<_>>());
        let log: Shared = Default::default();
        let i1 = Interp1DBuilder::new(d1).strategy(RecBuilder::<2> { log: log.clone(), fail_build: false, fail_at: None }).build().unwrap();
        log.borrow_mut().calls.clear();
        let v = i1.interp_scalar(0.75).unwrap();
        let lg = log.borrow().clone();
        if v != 0.75 || lg.calls.len() != 1 || lg.calls[0].0 != 0.75 || !lg.calls[0].2.is_empty() {
            rep.fail("interp_scalar: the strategy did not receive the query with a 0-d target", J::Null);
        }
    }
}

fn two_d_case(rep: &mut Report, rng: &mut Rng) {
    let nx = rng.range(2, 4) as usize;
    let ny = rng.range(2, 4) as usize;
    let trail: Vec<usize> = match rng.below(4) { 0 => vec![], 1 => vec![2], 2 => vec![0], _ => vec![2, 2] };
    let mut shape = vec![nx, ny];
    shape.extend_from_slice(&trail);
    let total: usize = shape.iter().product();
    let data = ArrayD::from_shape_vec(IxDyn(&shape), (0..total).map(|i| i as f64).collect()).unwrap();
    // builder validation with declared minimum 3
    {
        let log: Shared = Default::default();
        let r = Interp2DBuilder::new(data.clone()).strategy(RecBuilder::<3> { log: log.clone(), fail_build: false, fail_at: None }).build();
        let valid = nx >= 3 && ny >= 3;
        rep.evaluations += 1;
        rep.count("2d-build");
        if valid != r.is_ok() || (valid != (log.borrow().build_calls.len() == 1)) {
            rep.fail(&format!("2-D builder with declared minimum 3 on a {}x{} grid: ok={} strategy build calls={}", nx, ny, r.is_ok(), log.borrow().build_calls.len()), J::Null);
        }
        if valid {
            let lg = log.borrow().clone();
            let wx: Vec<f64> = (0..nx).map(|i| i as f64).collect();
            let wy: Vec<f64> = (0..ny).map(|i| i as f64).collect();
            if lg.build_calls[0].0 != wx || lg.build_y[0] != wy || lg.build_calls[0].1 != shape {
                rep.fail("2-D strategy build saw other axes / data shape than the builder holds", J::Null);
            }
        }
    }
    let qrank = rng.below(3) as usize;
    let qshape: Vec<usize> = (0..qrank).map(|_| rng.range(1, 3) as usize).collect();
    let qn: usize = qshape.iter().product();
    let qx: Vec<f64> = (0..qn).map(|i| 10.0 + i as f64).collect();
    let qy: Vec<f64> = (0..qn).map(|i| 0.5 + i as f64).collect();
    for fail_at in std::iter::once(None).chain((0..qn.min(4)).map(Some)) {
        let log: Shared = Default::default();
        let interp = Interp2DBuilder::new(data.clone()).strategy(RecBuilder::<2> { log: log.clone(), fail_build: false, fail_at }).build().unwrap();
        log.borrow_mut().calls.clear();
        let xs = ArrayD::from_shape_vec(IxDyn(&qshape), qx.clone()).unwrap();
        let ys = ArrayD::from_shape_vec(IxDyn(&qshape), qy.clone()).unwrap();
        let r = catch_unwind(AssertUnwindSafe(|| {
            if qrank == 1 && rng_static(fail_at) {
                interp.interp_array(&xs.clone().into_dimensionality::<Ix1>().unwrap(), &ys.clone().into_dimensionality::<Ix1>().unwrap()).map(|a| a.shape().to_vec())
            } else {
                interp.interp_array(&xs, &ys).map(|a| a.shape().to_vec())
            }
        }));
        rep.eval(Some(&format!("2d {:?} {:?} {:?}", shape, qshape, fail_at)));
        rep.count("2d-query");
        let lg = log.borrow().clone();
        let upto = match fail_at { Some(k) => (k + 1).min(qn), None => qn };
        let want: Vec<(f64, f64, Vec<usize>)> = (0..upto).map(|i| (qx[i], qy[i], trail.clone())).collect();
        if lg.calls != want {
            rep.fail(&format!("2-D strategy call trace {:?} differs from {:?}", lg.calls, want), J::Null);
        }
        match (r, fail_at) {
            (Ok(Ok(sh)), None) => { let mut ws = qshape.clone(); ws.extend_from_slice(&trail); if sh != ws { rep.fail("2-D result shape wrong", J::Null); } }
            (Ok(Err(InterpolateError::OutOfBounds(m))), Some(k)) => if m != format!("injected failure at call {}", k) { rep.fail("2-D strategy error not passed through unchanged", J::Null); },
            (other, fa) => rep.fail(&format!("2-D unexpected result {:?} with failure at {:?}", other.map(|x| x.map_err(|e| e.to_string())).map_err(|_| "panic"), fa), J::Null),
        }
    }
    // the single-point entry points: interp, interp_into (and interp_scalar on rank-2 data) hand the strategy
    // the unmodified pair (x, y), x first, and a target of the trailing shape
    {
        let log: Shared = Default::default();
        let interp = Interp2DBuilder::new(data.clone()).strategy(RecBuilder::<2> { log: log.clone(), fail_build: false, fail_at: None }).build().unwrap();
        log.borrow_mut().calls.clear();
        let a = interp.interp(3.25, -8.5).map(|a| a.shape().to_vec());
        let mut buf = ArrayD::from_elem(IxDyn(&trail), 0.0);
        let b = interp.interp_into(-1.5, 6.75, buf.view_mut()).is_ok();
        rep.evaluations += 2;
        rep.count("2d-single-point");
        let lg = log.borrow().clone();
        let want = vec![(3.25, -8.5, trail.clone()), (-1.5, 6.75, trail.clone())];
        if lg.calls != want || a.ok() != Some(trail.clone()) || !b {
            rep.fail(&format!("2-D interp / interp_into: strategy call trace {:?}, expected {:?} (x first, then y, target of the trailing shape)", lg.calls, want), J::Null);
        }
        if trail.is_empty() {
            let d2 = data.clone().into_dimensionality::<ndarray::Ix2>().unwrap();
            let log2: Shared = Default::default();
            let i2 = Interp2DBuilder::new(d2).strategy(RecBuilder::<2> { log: log2.clone(), fail_build: false, fail_at: None }).build().unwrap();
            log2.borrow_mut().calls.clear();
            let _ = i2.interp_scalar(0.125, 9.5);
            rep.evaluations += 1;
            let c = log2.borrow().calls.clone();
            if c.len() != 1 || c[0].0 != 0.125 || c[0].1 != 9.5 {
                rep.fail(&format!("2-D interp_scalar: strategy saw {:?}, expected the pair (0.125, 9.5)", c), J::Null);
            }
        }
    }
    let _ = strictly_increasing;
}
fn rng_static(f: Option<usize>) -> bool {
    f.map(|k| k % 2 == 0).unwrap_or(true)
}

pub fn run(cfg: &Cfg) {
    let mut rep = Report::new("C18", &cfg.out);
    let kz = rep.kind("c18_ok", "(list nat * list nat * list Z * Z * list Z * Z)");
    rep.shard_size = 0;
    let mut rng = Rng::new(cfg.seed);
    let thorough = cfg.tier == "thorough";
    let nb = if thorough { 3000 } else { 300 };
    for i in 0..nb {
        match i % 5 { 0 => build_case::<0>(&mut rep, &mut rng), 1 => build_case::<1>(&mut rep, &mut rng), 2 => build_case::<2>(&mut rep, &mut rng), 3 => build_case::<3>(&mut rep, &mut rng), _ => build_case::<4>(&mut rep, &mut rng) }
    }
    let nq = if thorough { 1200 } else { 120 };
    for _ in 0..nq { query_case(&mut rep, &mut rng, kz); }
    for _ in 0..(if thorough { 400 } else { 60 }) { two_d_case(&mut rep, &mut rng); }
    rep.sample(obj(vec![("strategy", s("RecBuilder<MIN>: logs build(x, data.shape) and every interp_into(x, target.shape), writes the query into every lane, optionally fails at call k"))]));
    rep.finish("recording / failing strategies: builder with declared minimum 0..4 on random valid and invalid inputs (too short, wrong axis length, tie / swap / NaN in the axis), build failure injected; every entry point (interp_scalar, interp, interp_into, interp_array for query ranks 0-3 static and dynamic) with a failure injected at no / every call index; Interp2D likewise; accessors index_point / is_in_range / get_index_left_of; the recorded trace is compared with the model's trace in Coq");
}
