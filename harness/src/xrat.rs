//! `XRat`: exact extended rationals (finite | +inf | -inf | NaN) implementing every trait bound
//! the crate's generic code asks of its element type, so that the crate's *own source* can be
//! run in exact arithmetic.  Semantics mirror `NumXQ` in coq/theories/Num.v one-to-one
//! (no signed zero: x/0 takes the sign of x only).
//!
//! `Copy` is obtained through a thread-local arena: an `XRat` is a handle.  Call
//! [`arena_reset`] between cases; handles do not survive a reset.

use crate::bigint::BigInt;
use ndarray::ScalarOperand;
use num_traits::{Euclid, Num, NumCast, One, Pow, ToPrimitive, Zero};
use std::cell::RefCell;
use std::cmp::Ordering;
use std::fmt;
use std::ops::{Add, Div, Mul, Neg, Rem, Sub, SubAssign};

#[derive(Clone, Debug, PartialEq, Eq)]
pub enum Val {
    Fin(BigInt, BigInt), // numerator, denominator > 0, coprime
    PInf,
    NInf,
    NaN,
}

impl Val {
    pub fn frac(n: BigInt, d: BigInt) -> Val {
        assert!(!d.is_zero());
        let (n, d) = if d.sign < 0 { (n.neg(), d.neg()) } else { (n, d) };
        if n.is_zero() {
            return Val::Fin(BigInt::zero(), BigInt::one());
        }
        let g = n.gcd(&d);
        if g.is_one() {
            Val::Fin(n, d)
        } else {
            Val::Fin(n.divrem_trunc(&g).0, d.divrem_trunc(&g).0)
        }
    }
    pub fn int(i: i64) -> Val {
        Val::Fin(BigInt::from_i64(i), BigInt::one())
    }
    pub fn ratio(n: i64, d: i64) -> Val {
        Val::frac(BigInt::from_i64(n), BigInt::from_i64(d))
    }
    pub fn from_f64(f: f64) -> Val {
        if f.is_nan() {
            return Val::NaN;
        }
        if f == f64::INFINITY {
            return Val::PInf;
        }
        if f == f64::NEG_INFINITY {
            return Val::NInf;
        }
        if f == 0.0 {
            return Val::int(0);
        }
        let bits = f.to_bits();
        let sign = if bits >> 63 == 1 { -1i64 } else { 1 };
        let exp = ((bits >> 52) & 0x7ff) as i64;
        let frac = bits & 0x000f_ffff_ffff_ffff;
        let (mant, e) = if exp == 0 { (frac, -1074) } else { (frac | (1 << 52), exp - 1075) };
        let m = BigInt::from_i128(sign as i128 * mant as i128);
        if e >= 0 {
            Val::Fin(m.shl(e as usize), BigInt::one())
        } else {
            Val::frac(m, BigInt::one().shl((-e) as usize))
        }
    }
    pub fn from_f32(f: f32) -> Val {
        Val::from_f64(f as f64)
    }
    pub fn is_fin(&self) -> bool {
        matches!(self, Val::Fin(..))
    }
    pub fn sign(&self) -> i8 {
        match self {
            Val::Fin(n, _) => n.sign,
            Val::PInf => 1,
            Val::NInf => -1,
            Val::NaN => 0,
        }
    }
    fn signed_inf(s: i8) -> Val {
        match s {
            1 => Val::PInf,
            -1 => Val::NInf,
            _ => Val::NaN,
        }
    }
    pub fn neg(&self) -> Val {
        match self {
            Val::Fin(n, d) => Val::Fin(n.neg(), d.clone()),
            Val::PInf => Val::NInf,
            Val::NInf => Val::PInf,
            Val::NaN => Val::NaN,
        }
    }
    pub fn add(&self, o: &Val) -> Val {
        use Val::*;
        match (self, o) {
            (NaN, _) | (_, NaN) => NaN,
            (Fin(a, b), Fin(c, d)) => {
                if b == d {
                    Val::frac(a.add(c), b.clone())
                } else {
                    Val::frac(a.mul(d).add(&c.mul(b)), b.mul(d))
                }
            }
            (PInf, NInf) | (NInf, PInf) => NaN,
            (PInf, _) | (_, PInf) => PInf,
            (NInf, _) | (_, NInf) => NInf,
        }
    }
    pub fn sub(&self, o: &Val) -> Val {
        self.add(&o.neg())
    }
    pub fn mul(&self, o: &Val) -> Val {
        use Val::*;
        match (self, o) {
            (NaN, _) | (_, NaN) => NaN,
            (Fin(a, b), Fin(c, d)) => Val::frac(a.mul(c), b.mul(d)),
            _ => Val::signed_inf(self.sign() * o.sign()),
        }
    }
    pub fn div(&self, o: &Val) -> Val {
        use Val::*;
        match (self, o) {
            (NaN, _) | (_, NaN) => NaN,
            (Fin(a, b), Fin(c, d)) => {
                if c.is_zero() {
                    Val::signed_inf(a.sign)
                } else {
                    Val::frac(a.mul(d), b.mul(c))
                }
            }
            (Fin(..), _) => Val::int(0),
            (_, Fin(c, _)) => {
                if c.is_zero() {
                    self.clone()
                } else {
                    Val::signed_inf(self.sign() * c.sign)
                }
            }
            _ => NaN,
        }
    }
    pub fn partial_cmp(&self, o: &Val) -> Option<Ordering> {
        use Val::*;
        match (self, o) {
            (NaN, _) | (_, NaN) => None,
            (Fin(a, b), Fin(c, d)) => Some(a.mul(d).cmp(&c.mul(b))),
            (PInf, PInf) | (NInf, NInf) => Some(Ordering::Equal),
            (NInf, _) | (_, PInf) => Some(Ordering::Less),
            (PInf, _) | (_, NInf) => Some(Ordering::Greater),
        }
    }
    pub fn lt(&self, o: &Val) -> bool {
        self.partial_cmp(o) == Some(Ordering::Less)
    }
    pub fn le(&self, o: &Val) -> bool {
        matches!(self.partial_cmp(o), Some(Ordering::Less) | Some(Ordering::Equal))
    }
    pub fn eqv(&self, o: &Val) -> bool {
        self.partial_cmp(o) == Some(Ordering::Equal)
    }
    pub fn abs(&self) -> Val {
        if self.sign() < 0 {
            self.neg()
        } else {
            self.clone()
        }
    }
    pub fn floor_int(&self) -> Option<BigInt> {
        match self {
            Val::Fin(n, d) => Some(n.div_floor(d)),
            _ => None,
        }
    }
    /// truncation toward zero; None unless -1 < self < 2^64 (mirrors qc_to_idx)
    pub fn trunc_idx(&self) -> Option<u64> {
        match self {
            Val::Fin(n, d) => {
                if self.le(&Val::int(-1)) {
                    return None;
                }
                let (q, _) = n.divrem_trunc(d);
                if q.sign < 0 {
                    return Some(0);
                }
                q.to_u64()
            }
            _ => None,
        }
    }
    pub fn rem_euclid(&self, o: &Val) -> Val {
        match (self, o) {
            (Val::Fin(..), Val::Fin(c, _)) => {
                if c.is_zero() {
                    return Val::NaN;
                }
                let m = o.abs();
                let fl = self.div(&m).floor_int().unwrap();
                self.sub(&m.mul(&Val::Fin(fl, BigInt::one())))
            }
            _ => Val::NaN,
        }
    }
    pub fn pow(&self, e: &Val) -> Val {
        match (self, e) {
            (Val::Fin(..), Val::Fin(n, d)) => {
                if d.is_one() && n.sign >= 0 {
                    let k = n.to_u64().expect("exponent too large");
                    let mut r = Val::int(1);
                    for _ in 0..k {
                        r = r.mul(self);
                    }
                    r
                } else {
                    Val::int(0)
                }
            }
            _ => Val::NaN,
        }
    }
    /// "n/d", "inf", "-inf", "nan"
    pub fn to_text(&self) -> String {
        match self {
            Val::Fin(n, d) => {
                if d.is_one() {
                    n.to_decimal()
                } else {
                    format!("{}/{}", n.to_decimal(), d.to_decimal())
                }
            }
            Val::PInf => "inf".into(),
            Val::NInf => "-inf".into(),
            Val::NaN => "nan".into(),
        }
    }
    /// Coq term of type Qc (finite values only)
    pub fn to_coq_qc(&self) -> String {
        match self {
            Val::Fin(n, d) => format!("(qc ({}) {})", n.to_decimal(), d.to_decimal()),
            _ => "QC_NONFINITE".to_string(),
        }
    }
    /// Coq term of type xq
    pub fn to_coq_xq(&self) -> String {
        match self {
            Val::Fin(n, d) => format!("(XFin (qc ({}) {}))", n.to_decimal(), d.to_decimal()),
            Val::PInf => "XPInf".into(),
            Val::NInf => "XNInf".into(),
            Val::NaN => "XNaN".into(),
        }
    }
    pub fn bits(&self) -> usize {
        match self {
            Val::Fin(n, d) => n.bits().max(d.bits()),
            _ => 0,
        }
    }
    /// nearest-ish f64 (diagnostics / tolerance scales only, never used for a verdict on equality)
    pub fn approx_f64(&self) -> f64 {
        match self {
            Val::Fin(n, d) => {
                let nb = n.bits() as i64;
                let db = d.bits() as i64;
                // scale so that the quotient has ~64 significant bits
                let shift = 64 - (nb - db);
                let (num, den) = if shift >= 0 {
                    (n.shl(shift as usize), d.clone())
                } else {
                    (n.clone(), d.shl((-shift) as usize))
                };
                let (q, _) = num.divrem_trunc(&den);
                let mut f = 0.0f64;
                for &l in q.mag.iter().rev() {
                    f = f * 4294967296.0 + l as f64;
                }
                let f = f * (2.0f64).powi(-(shift as i32).clamp(-2000, 2000));
                if q.sign < 0 {
                    -f
                } else {
                    f
                }
            }
            Val::PInf => f64::INFINITY,
            Val::NInf => f64::NEG_INFINITY,
            Val::NaN => f64::NAN,
        }
    }
}

thread_local! {
    static ARENA: RefCell<Vec<Val>> = RefCell::new(Vec::new());
}

/// Forget every value created so far (handles become invalid).
pub fn arena_reset() {
    ARENA.with(|a| a.borrow_mut().clear());
}
pub fn arena_len() -> usize {
    ARENA.with(|a| a.borrow().len())
}

#[derive(Clone, Copy)]
pub struct XRat(u32);

impl XRat {
    pub fn new(v: Val) -> XRat {
        ARENA.with(|a| {
            let mut a = a.borrow_mut();
            a.push(v);
            XRat((a.len() - 1) as u32)
        })
    }
    pub fn val(self) -> Val {
        ARENA.with(|a| a.borrow()[self.0 as usize].clone())
    }
    fn with2<R>(self, o: XRat, f: impl FnOnce(&Val, &Val) -> R) -> R {
        ARENA.with(|a| {
            let a = a.borrow();
            f(&a[self.0 as usize], &a[o.0 as usize])
        })
    }
    pub fn int(i: i64) -> XRat {
        XRat::new(Val::int(i))
    }
}

impl fmt::Debug for XRat {
    fn fmt(&self, f: &mut fmt::Formatter<'_>) -> fmt::Result {
        write!(f, "{}", self.val().to_text())
    }
}

impl PartialEq for XRat {
    fn eq(&self, o: &XRat) -> bool {
        self.with2(*o, |a, b| a.eqv(b))
    }
}
impl PartialOrd for XRat {
    fn partial_cmp(&self, o: &XRat) -> Option<Ordering> {
        self.with2(*o, |a, b| a.partial_cmp(b))
    }
}

macro_rules! binop {
    ($tr:ident, $m:ident, $f:ident) => {
        impl $tr for XRat {
            type Output = XRat;
            fn $m(self, o: XRat) -> XRat {
                let v = self.with2(o, |a, b| a.$f(b));
                XRat::new(v)
            }
        }
    };
}
binop!(Add, add, add);
binop!(Sub, sub, sub);
binop!(Mul, mul, mul);
binop!(Div, div, div);

impl Rem for XRat {
    type Output = XRat;
    fn rem(self, o: XRat) -> XRat {
        // truncated remainder (required by `Num`; not used by the crate)
        let v = self.with2(o, |a, b| match (a, b) {
            (Val::Fin(..), Val::Fin(c, _)) if !c.is_zero() => {
                let q = a.div(b);
                let t = match &q {
                    Val::Fin(n, d) => Val::Fin(n.divrem_trunc(d).0, BigInt::one()),
                    _ => unreachable!(),
                };
                a.sub(&b.mul(&t))
            }
            _ => Val::NaN,
        });
        XRat::new(v)
    }
}
impl Neg for XRat {
    type Output = XRat;
    fn neg(self) -> XRat {
        XRat::new(self.val().neg())
    }
}
impl SubAssign for XRat {
    fn sub_assign(&mut self, o: XRat) {
        *self = *self - o;
    }
}
impl Zero for XRat {
    fn zero() -> XRat {
        XRat::int(0)
    }
    fn is_zero(&self) -> bool {
        matches!(self.val(), Val::Fin(ref n, _) if n.is_zero())
    }
}
impl One for XRat {
    fn one() -> XRat {
        XRat::int(1)
    }
}
impl Num for XRat {
    type FromStrRadixErr = ();
    fn from_str_radix(_: &str, _: u32) -> Result<Self, ()> {
        Err(())
    }
}
impl ToPrimitive for XRat {
    fn to_i64(&self) -> Option<i64> {
        match self.val() {
            Val::Fin(n, d) => {
                let (q, _) = n.divrem_trunc(&d);
                let m = q.abs().to_u64()?;
                if q.sign < 0 {
                    if m <= i64::MAX as u64 + 1 {
                        Some((m as i128).wrapping_neg() as i64)
                    } else {
                        None
                    }
                } else if m <= i64::MAX as u64 {
                    Some(m as i64)
                } else {
                    None
                }
            }
            _ => None,
        }
    }
    fn to_u64(&self) -> Option<u64> {
        self.val().trunc_idx()
    }
    fn to_usize(&self) -> Option<usize> {
        self.val().trunc_idx().map(|v| v as usize)
    }
    fn to_f64(&self) -> Option<f64> {
        Some(self.val().approx_f64())
    }
}
impl NumCast for XRat {
    fn from<T: ToPrimitive>(n: T) -> Option<XRat> {
        // called with usize (cast(n)) and with f64 literals 0.0 .. 3.0
        let f = n.to_f64()?;
        Some(XRat::new(Val::from_f64(f)))
    }
}
impl Euclid for XRat {
    fn div_euclid(&self, v: &XRat) -> XRat {
        // floor(a/|b|) * sign(b)  (not used by the crate)
        let r = self.with2(*v, |a, b| match (a, b) {
            (Val::Fin(..), Val::Fin(c, _)) if !c.is_zero() => {
                let fl = a.div(&b.abs()).floor_int().unwrap();
                let q = Val::Fin(fl, BigInt::one());
                if c.sign < 0 {
                    q.neg()
                } else {
                    q
                }
            }
            _ => Val::NaN,
        });
        XRat::new(r)
    }
    fn rem_euclid(&self, v: &XRat) -> XRat {
        let r = self.with2(*v, |a, b| a.rem_euclid(b));
        XRat::new(r)
    }
}
impl Pow<XRat> for XRat {
    type Output = XRat;
    fn pow(self, e: XRat) -> XRat {
        let r = self.with2(e, |a, b| a.pow(b));
        XRat::new(r)
    }
}
impl ScalarOperand for XRat {}
