//! Minimal arbitrary-precision signed integers (no bignum crate is available offline).
//! Magnitude: little-endian u32 limbs without trailing zero limbs; sign in {-1,0,1}.
//! Cross-checked against Coq's Z on every correspondence case (any arithmetic error here
//! shows up as a disagreement with the model) and against Python ints by `selftest`.

use std::cmp::Ordering;

#[derive(Clone, Debug, PartialEq, Eq)]
pub struct BigInt {
    pub sign: i8,
    pub mag: Vec<u32>,
}

fn trim(v: &mut Vec<u32>) {
    while let Some(&0) = v.last() {
        v.pop();
    }
}

fn cmp_mag(a: &[u32], b: &[u32]) -> Ordering {
    if a.len() != b.len() {
        return a.len().cmp(&b.len());
    }
    for i in (0..a.len()).rev() {
        if a[i] != b[i] {
            return a[i].cmp(&b[i]);
        }
    }
    Ordering::Equal
}

fn add_mag(a: &[u32], b: &[u32]) -> Vec<u32> {
    let (a, b) = if a.len() >= b.len() { (a, b) } else { (b, a) };
    let mut r = Vec::with_capacity(a.len() + 1);
    let mut carry = 0u64;
    for i in 0..a.len() {
        let s = a[i] as u64 + if i < b.len() { b[i] as u64 } else { 0 } + carry;
        r.push(s as u32);
        carry = s >> 32;
    }
    if carry > 0 {
        r.push(carry as u32);
    }
    r
}

/// a - b, requires a >= b
fn sub_mag(a: &[u32], b: &[u32]) -> Vec<u32> {
    let mut r = Vec::with_capacity(a.len());
    let mut borrow = 0i64;
    for i in 0..a.len() {
        let mut d = a[i] as i64 - borrow - if i < b.len() { b[i] as i64 } else { 0 };
        if d < 0 {
            d += 1 << 32;
            borrow = 1;
        } else {
            borrow = 0;
        }
        r.push(d as u32);
    }
    debug_assert_eq!(borrow, 0);
    trim(&mut r);
    r
}

fn mul_mag(a: &[u32], b: &[u32]) -> Vec<u32> {
    if a.is_empty() || b.is_empty() {
        return vec![];
    }
    let mut r = vec![0u32; a.len() + b.len()];
    for i in 0..a.len() {
        let mut carry = 0u64;
        let ai = a[i] as u64;
        for j in 0..b.len() {
            let t = ai * b[j] as u64 + r[i + j] as u64 + carry;
            r[i + j] = t as u32;
            carry = t >> 32;
        }
        let mut k = i + b.len();
        while carry > 0 {
            let t = r[k] as u64 + carry;
            r[k] = t as u32;
            carry = t >> 32;
            k += 1;
        }
    }
    trim(&mut r);
    r
}

fn divrem_small(a: &[u32], d: u32) -> (Vec<u32>, u32) {
    let mut q = vec![0u32; a.len()];
    let mut rem = 0u64;
    for i in (0..a.len()).rev() {
        let cur = (rem << 32) | a[i] as u64;
        q[i] = (cur / d as u64) as u32;
        rem = cur % d as u64;
    }
    trim(&mut q);
    (q, rem as u32)
}

fn shl_mag(a: &[u32], s: usize) -> Vec<u32> {
    if a.is_empty() {
        return vec![];
    }
    let limbs = s / 32;
    let bits = s % 32;
    let mut r = vec![0u32; limbs];
    if bits == 0 {
        r.extend_from_slice(a);
    } else {
        let mut carry = 0u32;
        for &x in a {
            r.push((x << bits) | carry);
            carry = x >> (32 - bits);
        }
        if carry > 0 {
            r.push(carry);
        }
    }
    r
}

fn shr_mag(a: &[u32], s: usize) -> Vec<u32> {
    let limbs = s / 32;
    let bits = s % 32;
    if limbs >= a.len() {
        return vec![];
    }
    let mut r = Vec::with_capacity(a.len() - limbs);
    for i in limbs..a.len() {
        let lo = a[i] >> bits;
        let hi = if bits > 0 && i + 1 < a.len() {
            a[i + 1] << (32 - bits)
        } else {
            0
        };
        r.push(lo | hi);
    }
    trim(&mut r);
    r
}

/// Knuth algorithm D. Returns (quotient, remainder) of magnitudes, b != 0.
fn divrem_mag(a: &[u32], b: &[u32]) -> (Vec<u32>, Vec<u32>) {
    assert!(!b.is_empty(), "division by zero");
    if cmp_mag(a, b) == Ordering::Less {
        return (vec![], a.to_vec());
    }
    if b.len() == 1 {
        let (q, r) = divrem_small(a, b[0]);
        return (q, if r == 0 { vec![] } else { vec![r] });
    }
    let shift = b[b.len() - 1].leading_zeros() as usize;
    let v = shl_mag(b, shift);
    let mut u = shl_mag(a, shift);
    if u.len() == a.len() {
        u.push(0);
    }
    let n = v.len();
    let m = u.len() - n - 1;
    let mut q = vec![0u32; m + 1];
    let base: u64 = 1 << 32;
    for j in (0..=m).rev() {
        let num = ((u[j + n] as u64) << 32) | u[j + n - 1] as u64;
        let mut qhat = num / v[n - 1] as u64;
        let mut rhat = num % v[n - 1] as u64;
        while qhat >= base || qhat * v[n - 2] as u64 > ((rhat << 32) | u[j + n - 2] as u64) {
            qhat -= 1;
            rhat += v[n - 1] as u64;
            if rhat >= base {
                break;
            }
        }
        // multiply and subtract
        let mut borrow: i64 = 0;
        let mut carry: u64 = 0;
        for i in 0..n {
            let p = qhat * v[i] as u64 + carry;
            carry = p >> 32;
            let t = u[i + j] as i64 - borrow - (p & 0xffff_ffff) as i64;
            if t < 0 {
                u[i + j] = (t + (1i64 << 32)) as u32;
                borrow = 1;
            } else {
                u[i + j] = t as u32;
                borrow = 0;
            }
        }
        let t = u[j + n] as i64 - borrow - carry as i64;
        if t < 0 {
            u[j + n] = (t + (1i64 << 32)) as u32;
            // add back
            qhat -= 1;
            let mut c = 0u64;
            for i in 0..n {
                let s = u[i + j] as u64 + v[i] as u64 + c;
                u[i + j] = s as u32;
                c = s >> 32;
            }
            u[j + n] = (u[j + n] as u64 + c) as u32;
        } else {
            u[j + n] = t as u32;
        }
        q[j] = qhat as u32;
    }
    trim(&mut q);
    u.truncate(n);
    trim(&mut u);
    let r = shr_mag(&u, shift);
    (q, r)
}

impl BigInt {
    pub fn zero() -> Self {
        BigInt { sign: 0, mag: vec![] }
    }
    pub fn one() -> Self {
        BigInt { sign: 1, mag: vec![1] }
    }
    pub fn from_i64(x: i64) -> Self {
        Self::from_i128(x as i128)
    }
    pub fn from_u64(x: u64) -> Self {
        Self::from_i128(x as i128)
    }
    pub fn from_i128(x: i128) -> Self {
        if x == 0 {
            return Self::zero();
        }
        let sign = if x < 0 { -1 } else { 1 };
        let mut m = x.unsigned_abs();
        let mut mag = vec![];
        while m > 0 {
            mag.push(m as u32);
            m >>= 32;
        }
        BigInt { sign, mag }
    }
    fn from_mag(sign: i8, mut mag: Vec<u32>) -> Self {
        trim(&mut mag);
        if mag.is_empty() {
            Self::zero()
        } else {
            BigInt { sign, mag }
        }
    }
    pub fn is_zero(&self) -> bool {
        self.sign == 0
    }
    pub fn is_one(&self) -> bool {
        self.sign == 1 && self.mag.len() == 1 && self.mag[0] == 1
    }
    pub fn neg(&self) -> Self {
        BigInt { sign: -self.sign, mag: self.mag.clone() }
    }
    pub fn abs(&self) -> Self {
        BigInt { sign: self.sign.abs(), mag: self.mag.clone() }
    }
    pub fn add(&self, o: &Self) -> Self {
        if self.sign == 0 {
            return o.clone();
        }
        if o.sign == 0 {
            return self.clone();
        }
        if self.sign == o.sign {
            return Self::from_mag(self.sign, add_mag(&self.mag, &o.mag));
        }
        match cmp_mag(&self.mag, &o.mag) {
            Ordering::Equal => Self::zero(),
            Ordering::Greater => Self::from_mag(self.sign, sub_mag(&self.mag, &o.mag)),
            Ordering::Less => Self::from_mag(o.sign, sub_mag(&o.mag, &self.mag)),
        }
    }
    pub fn sub(&self, o: &Self) -> Self {
        self.add(&o.neg())
    }
    pub fn mul(&self, o: &Self) -> Self {
        if self.sign == 0 || o.sign == 0 {
            return Self::zero();
        }
        Self::from_mag(self.sign * o.sign, mul_mag(&self.mag, &o.mag))
    }
    /// truncating division (quotient toward zero, remainder has the sign of self)
    pub fn divrem_trunc(&self, o: &Self) -> (Self, Self) {
        assert!(o.sign != 0, "division by zero");
        let (q, r) = divrem_mag(&self.mag, &o.mag);
        (Self::from_mag(self.sign * o.sign, q), Self::from_mag(self.sign, r))
    }
    /// floor division
    pub fn div_floor(&self, o: &Self) -> Self {
        let (q, r) = self.divrem_trunc(o);
        if !r.is_zero() && (r.sign != o.sign) {
            q.sub(&Self::one())
        } else {
            q
        }
    }
    pub fn shl(&self, s: usize) -> Self {
        Self::from_mag(self.sign, shl_mag(&self.mag, s))
    }
    pub fn gcd(&self, o: &Self) -> Self {
        let mut a = self.abs();
        let mut b = o.abs();
        while !b.is_zero() {
            let (_, r) = a.divrem_trunc(&b);
            a = b;
            b = r;
        }
        a
    }
    pub fn cmp(&self, o: &Self) -> Ordering {
        if self.sign != o.sign {
            return self.sign.cmp(&o.sign);
        }
        let c = cmp_mag(&self.mag, &o.mag);
        if self.sign >= 0 {
            c
        } else {
            c.reverse()
        }
    }
    pub fn bits(&self) -> usize {
        if self.mag.is_empty() {
            0
        } else {
            32 * (self.mag.len() - 1) + (32 - self.mag[self.mag.len() - 1].leading_zeros() as usize)
        }
    }
    pub fn to_u64(&self) -> Option<u64> {
        if self.sign < 0 || self.mag.len() > 2 {
            return None;
        }
        let mut v = 0u64;
        for (i, &l) in self.mag.iter().enumerate() {
            v |= (l as u64) << (32 * i);
        }
        Some(v)
    }
    pub fn to_decimal(&self) -> String {
        if self.sign == 0 {
            return "0".into();
        }
        let mut parts: Vec<u32> = vec![];
        let mut cur = self.mag.clone();
        while !cur.is_empty() {
            let (q, r) = divrem_small(&cur, 1_000_000_000);
            parts.push(r);
            cur = q;
        }
        let mut s = String::new();
        if self.sign < 0 {
            s.push('-');
        }
        s.push_str(&format!("{}", parts[parts.len() - 1]));
        for p in parts.iter().rev().skip(1) {
            s.push_str(&format!("{:09}", p));
        }
        s
    }
    pub fn from_decimal(s: &str) -> Self {
        let (neg, digits) = match s.strip_prefix('-') {
            Some(r) => (true, r),
            None => (false, s),
        };
        let mut r = Self::zero();
        let ten9 = Self::from_u64(1_000_000_000);
        let bytes = digits.as_bytes();
        let mut i = 0;
        // first chunk may be shorter
        let first = bytes.len() % 9;
        if first > 0 {
            r = Self::from_u64(digits[..first].parse::<u64>().unwrap());
            i = first;
        }
        while i < bytes.len() {
            let chunk: u64 = digits[i..i + 9].parse().unwrap();
            r = r.mul(&ten9).add(&Self::from_u64(chunk));
            i += 9;
        }
        if neg {
            r.neg()
        } else {
            r
        }
    }
}
