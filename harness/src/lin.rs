//! C01 (Linear exact), C04 (Bilinear exact), C06 (extrapolation, linear/bilinear part),
//! C20 (locality): generators, exact oracles, float tolerances, Coq cases.
use crate::gen::*;
use crate::json::{obj, s, J};
use crate::out::Report;
use crate::rng::Rng;
use crate::scen::*;
use crate::xrat::{arena_reset, Val, XRat};
use crate::Cfg;
use ndarray::{Ix1, Ix2, Ix3, Ix4};

pub fn vals(v: &[f64]) -> Vec<Val> {
    v.iter().map(|&x| Val::from_f64(x)).collect()
}
pub fn eps64() -> Val {
    Val::from_f64(f64::EPSILON)
}
pub fn eps32() -> Val {
    Val::from_f64(f32::EPSILON as f64)
}
pub fn vmax(a: &Val, b: &Val) -> Val {
    if a.le(b) { b.clone() } else { a.clone() }
}

/// oracle bracket: the interval the property text demands
pub fn bracket_scan(ax: &[Val], q: &Val) -> usize {
    let n = ax.len();
    if q.le(&ax[0]) {
        return 0;
    }
    if ax[n - 1].le(q) {
        return n - 2;
    }
    let mut i = 0;
    while i + 2 < n && ax[i + 1].le(q) {
        i += 1;
    }
    i
}
/// y1 + (y2-y1)(q-x1)/(x2-x1)
pub fn line(x1: &Val, y1: &Val, x2: &Val, y2: &Val, q: &Val) -> Val {
    y1.add(&y2.sub(y1).mul(&q.sub(x1)).div(&x2.sub(x1)))
}
/// |got - want| <= bound
pub fn within(got: &Val, want: &Val, bound: &Val) -> bool {
    if !got.is_fin() || !want.is_fin() {
        return false;
    }
    got.sub(want).abs().le(bound)
}

fn scen_key(sc: &Scen1) -> String {
    format!("{:?}", sc)
}

pub fn gen_linear_scen(rng: &mut Rng, thorough: bool, ext: bool, outside: bool) -> (Scen1, bool, String) {
    let n = pick_n(rng, thorough);
    let f32safe = rng.coin();
    let default_axis = rng.chance(1, 5);
    let sp = *rng.pick(&SPACINGS);
    let ax = if default_axis { None } else { Some(gen_axis(rng, n, sp, f32safe)) };
    let trail = gen_trail(rng);
    let lanes: usize = trail.iter().product();
    let rows = gen_rows(rng, n, lanes, f32safe);
    let axv = ax.clone().unwrap_or_else(|| (0..n).map(|i| i as f64).collect());
    let mut queries = queries_in_range(rng, &axv, f32safe, if outside { 8 } else { 20 });
    if outside {
        queries.extend(queries_outside(rng, &axv, f32safe, 10));
    }
    let mut class = if default_axis { "default-axis".to_string() } else { format!("{:?}", sp) };
    let mut sc = Scen1 { strat: Strat1::Linear, ext, ax, rows, trail, queries };
    let mut f32safe = f32safe;
    // balanced huge / tiny magnitudes: axis and data scaled by the same power of two (exact), so
    // that slopes stay moderate while products of differences leave the f64 range
    if !default_axis && sp != Spacing::MixedMag && sp != Spacing::Clustered && rng.chance(1, 6) {
        let e = if rng.coin() { 600 } else { -600 };
        let f = (2.0f64).powi(e);
        let scale = |v: &mut f64| *v *= f;
        if let Some(a) = sc.ax.as_mut() { a.iter_mut().for_each(scale); }
        sc.rows.iter_mut().for_each(|r| r.iter_mut().for_each(scale));
        sc.queries.iter_mut().for_each(scale);
        f32safe = false;
        class = format!("{}*2^{}", class, e);
    }
    (sc, f32safe, class)
}

/// exact oracle for one scenario (Linear): expected value per query and lane, plus the bound scale
fn linear_expected(sc: &Scen1) -> Vec<(usize, Vec<Val>, Vec<Val>)> {
    let ax = vals(&sc.axis_vals());
    let mut out = vec![];
    for &q in &sc.queries {
        let qv = Val::from_f64(q);
        let i = bracket_scan(&ax, &qv);
        let mut want = vec![];
        let mut scale = vec![];
        for l in 0..sc.lanes() {
            let y1 = Val::from_f64(sc.rows[i][l]);
            let y2 = Val::from_f64(sc.rows[i + 1][l]);
            want.push(line(&ax[i], &y1, &ax[i + 1], &y2, &qv));
            // max|y| + |dy| * |t|   (|t| <= 1 inside the range)
            let t = qv.sub(&ax[i]).div(&ax[i + 1].sub(&ax[i])).abs();
            let t = vmax(&t, &Val::int(0));
            let extra = if t.le(&Val::int(1)) { Val::int(0) } else { y2.sub(&y1).abs().mul(&t) };
            scale.push(vmax(&y1.abs(), &y2.abs()).add(&extra));
        }
        out.push((i, want, scale));
    }
    out
}

fn check_float_run(
    rep: &mut Report,
    name: &str,
    sc: &Scen1,
    expected: &[(usize, Vec<Val>, Vec<Val>)],
    res: &(BuildOut, Vec<Out>),
    eps: &Val,
    factor: i64,
    in_range_only: bool,
) {
    if res.0 != BuildOut::Built {
        rep.fail(&format!("{}: build did not succeed on valid input: {:?}", name, res.0), sc.to_json());
        return;
    }
    let ax = sc.axis_vals();
    for (qi, o) in res.1.iter().enumerate() {
        let q = sc.queries[qi];
        let inside = q >= ax[0] && q <= ax[ax.len() - 1];
        if in_range_only && !inside {
            continue;
        }
        match o {
            Out::Ok(v) => {
                for (l, got) in v.iter().enumerate() {
                    let bound = eps.mul(&Val::int(factor)).mul(&expected[qi].2[l]);
                    if !within(got, &expected[qi].1[l], &bound) {
                        rep.fail(
                            &format!("{}: value differs from the exact interpolant by more than {} eps * scale", name, factor),
                            obj(vec![("scenario", sc.to_json()), ("query", s(format!("{:?}", q))), ("lane", J::I(l as i64)),
                                     ("got", s(got.to_text())), ("exact", s(expected[qi].1[l].to_text()))]),
                        );
                        return;
                    }
                }
            }
            other => {
                rep.fail(&format!("{}: query {:?} not answered: {:?}", name, q, other), sc.to_json());
                return;
            }
        }
    }
}

/// run at every static dimension type that fits and demand identical exact results
fn check_static_dims(rep: &mut Report, sc: &Scen1, base: &(BuildOut, Vec<Out>)) {
    let r = match sc.trail.len() {
        0 => Some(sc.run_dim::<XRat, Ix1>()),
        1 => Some(sc.run_dim::<XRat, Ix2>()),
        2 => Some(sc.run_dim::<XRat, Ix3>()),
        3 => Some(sc.run_dim::<XRat, Ix4>()),
        _ => None,
    };
    if let Some(r) = r {
        rep.evaluations += 1;
        if &r != base {
            rep.fail("static-dimension run differs from dynamic-dimension run (exact arithmetic)", sc.to_json());
        }
    }
}

// ------------------------------------------------------------------------------------------
pub fn run_c01(cfg: &Cfg) {
    let mut rep = Report::new("C01", &cfg.out);
    let kind = rep.kind("scen1_ok_qc", "(scen1 Qc * (bout * list (rout Qc)))");
    let mut rng = Rng::new(cfg.seed);
    let thorough = cfg.tier == "thorough";
    let ncases = if thorough { 4000 } else { 300 };
    rep.shard_size = 60;
    for ci in 0..ncases {
        let (sc, f32safe, class) = gen_linear_scen(&mut rng, thorough, false, false);
        rep.count(&format!("spacing:{}", class));
        rep.count(&format!("n:{}", match sc.n() { 2 => "2", 3 => "3", 4 => "4", 5..=9 => "5-9", 10..=24 => "10-24", _ => "25+" }));
        rep.count(&format!("trailing_rank:{}", sc.trail.len()));
        rep.count(if f32safe { "f32-exact inputs" } else { "f64-only inputs" });
        arena_reset();
        let rx = sc.run::<XRat>();
        let expected = linear_expected(&sc);
        rep.eval(Some(&scen_key(&sc)));
        rep.count_n("queries", sc.queries.len() as u64);
        // oracle on the exact run: exact equality
        if rx.0 != BuildOut::Built {
            rep.fail(&format!("exact run: build failed on valid input: {:?}", rx.0), sc.to_json());
        } else {
            for (qi, o) in rx.1.iter().enumerate() {
                match o {
                    Out::Ok(v) => {
                        if v.len() != sc.lanes() || v.iter().zip(&expected[qi].1).any(|(a, b)| a != b) {
                            rep.fail("exact run: result is not the straight line through the two bracketing points",
                                     obj(vec![("scenario", sc.to_json()), ("query", s(format!("{:?}", sc.queries[qi]))),
                                              ("got", out_json(o)), ("exact", J::A(expected[qi].1.iter().map(|x| s(x.to_text())).collect()))]));
                            break;
                        }
                    }
                    other => {
                        rep.fail(&format!("exact run: in-range query rejected: {:?}", other),
                                 obj(vec![("scenario", sc.to_json()), ("query", s(format!("{:?}", sc.queries[qi])))]));
                        break;
                    }
                }
            }
        }
        check_static_dims(&mut rep, &sc, &rx);
        let term = format!("({}, {})", sc.to_coq(&qc), outs_coq(&rx.0, &rx.1, &|v| v.to_coq_qc()));
        rep.coq_case(kind, term, sc.to_json());
        // floats
        let rf = sc.run::<f64>();
        rep.evaluations += 1;
        check_float_run(&mut rep, "f64", &sc, &expected, &rf, &eps64(), 8, false);
        // Interp1D::new_unchecked on the same (valid) inputs is the same interpolator
        if ci % 4 == 0 {
            let data = make_data::<f64>(&sc.rows, &sc.trail);
            let x = ndarray::Array1::from(sc.axis_vals());
            let r = std::panic::catch_unwind(std::panic::AssertUnwindSafe(|| {
                let unchecked = ndarray_interp::interp1d::Interp1D::new_unchecked(x.clone(), data.clone(), ndarray_interp::interp1d::Linear::new());
                let built = ndarray_interp::interp1d::Interp1DBuilder::new(data.clone()).x(x.clone()).strategy(ndarray_interp::interp1d::Linear::new()).build().unwrap();
                sc.queries.iter().all(|&q| {
                    let a = unchecked.interp(q).map(|v| v.iter().map(|t| t.to_bits()).collect::<Vec<u64>>()).map_err(|_| ());
                    let b = built.interp(q).map(|v| v.iter().map(|t| t.to_bits()).collect::<Vec<u64>>()).map_err(|_| ());
                    a == b && unchecked.is_in_range(q) == built.is_in_range(q)
                })
            }));
            rep.evaluations += 1;
            rep.count("new_unchecked");
            if r.ok() != Some(true) {
                rep.fail("Interp1D::new_unchecked(x, data, Linear) on valid inputs does not behave like the built interpolator", sc.to_json());
            }
        }
        if f32safe {
            let rf32 = sc.run::<f32>();
            rep.evaluations += 1;
            check_float_run(&mut rep, "f32", &sc, &expected, &rf32, &eps32(), 8, false);
        }
        if ci < 2 {
            rep.sample(obj(vec![("scenario", sc.to_json()), ("exact_first_result", rx.1.first().map(out_json).unwrap_or(J::Null)),
                                ("f64_first_result", rf.1.first().map(out_json).unwrap_or(J::Null))]));
        }
    }
    s1_witnesses_linear(&mut rep);
    rep.finish("random Linear scenarios: axis length 2..64, spacing classes unit/uniform/geometric/clustered-to-ulps/random/mixed-magnitude/default, 0-3 trailing axes, queries = both ends, every knot, both neighbouring floats, midpoints, random; each run at exact rationals (IxDyn and the fitting static dimension), f64 and (when inputs are f32-exact) f32; non-trivial = distinct scenario; float inputs stay within 2^-60..2^60 (no intermediate overflow, see known finding S1)");
}

/// DESIGN.md section 4, S1: intermediate overflow.  Reported under the key "S1-overflow".
fn s1_witnesses_linear(rep: &mut Report) {
    let w = vec![
        Scen1 { strat: Strat1::Linear, ext: false, ax: None, rows: vec![vec![-1.5e308], vec![1.5e308]], trail: vec![], queries: vec![0.5, 0.0] },
        Scen1 { strat: Strat1::Linear, ext: false, ax: Some(vec![-1.5e308, 1.5e308]), rows: vec![vec![1.0], vec![3.0]], trail: vec![], queries: vec![0.0] },
        Scen1 { strat: Strat1::Linear, ext: false, ax: Some(vec![-1.5e308, 0.0, 1.5e308]), rows: vec![vec![1.0], vec![2.0], vec![3.0]], trail: vec![], queries: vec![1e308] },
    ];
    for sc in w {
        arena_reset();
        let expected = linear_expected(&sc);
        let rf = sc.run::<f64>();
        rep.evaluations += 1;
        let mut bad = false;
        for (qi, o) in rf.1.iter().enumerate() {
            match o {
                Out::Ok(v) => {
                    let bound = eps64().mul(&Val::int(8)).mul(&expected[qi].2[0]);
                    if !within(&v[0], &expected[qi].1[0], &bound) {
                        bad = true;
                    }
                }
                _ => bad = true,
            }
        }
        if rf.0 != BuildOut::Built {
            bad = true;
        }
        if bad {
            rep.fail_k("S1-overflow", "finite data/axis whose bracketing difference or span overflows the element type: result is inf/NaN/wrong or the lookup panics", sc.to_json());
        }
    }
}

// ------------------------------------------------------------------------------------------
// C04

pub fn gen_bilinear_scen(rng: &mut Rng, thorough: bool, ext: bool, outside: bool) -> (Scen2, bool, String) {
    let nx = 2 + rng.below(if thorough { 10 } else { 6 }) as usize;
    let ny = 2 + rng.below(if thorough { 10 } else { 6 }) as usize;
    let f32safe = rng.coin();
    let pool = [Spacing::Unit, Spacing::Uniform, Spacing::Geometric, Spacing::Clustered, Spacing::Random, Spacing::IndexLike];
    let spx = *rng.pick(&pool);
    let spy = *rng.pick(&pool);
    let xax = if rng.chance(1, 4) { None } else { Some(gen_axis(rng, nx, spx, f32safe)) };
    let yax = if rng.chance(1, 4) { None } else { Some(gen_axis(rng, ny, spy, f32safe)) };
    let trail = match rng.below(6) { 0 | 1 | 2 => vec![], 3 => vec![2], 4 => vec![1, 3], _ => vec![2, 1, 2] };
    let lanes: usize = trail.iter().product();
    let cells: Vec<Vec<Vec<f64>>> = (0..nx).map(|_| gen_rows(rng, ny, lanes, f32safe)).collect();
    let xv = xax.clone().unwrap_or_else(|| (0..nx).map(|i| i as f64).collect());
    let yv = yax.clone().unwrap_or_else(|| (0..ny).map(|i| i as f64).collect());
    let mut qx = queries_in_range(rng, &xv, f32safe, 12);
    let mut qy = queries_in_range(rng, &yv, f32safe, 12);
    if outside {
        qx.extend(queries_outside(rng, &xv, f32safe, 4));
        qy.extend(queries_outside(rng, &yv, f32safe, 4));
    }
    let mut queries = vec![];
    // nodes, edges, interior: pair up systematically then randomly
    for i in 0..qx.len().max(qy.len()) {
        queries.push((qx[i % qx.len()], qy[(i * 7 + 3) % qy.len()]));
    }
    for _ in 0..8 {
        queries.push((*rng.pick(&qx), *rng.pick(&qy)));
    }
    queries.push((xv[0], yv[0]));
    queries.push((xv[nx - 1], yv[ny - 1]));
    // "diagonal" queries: x numerically equal to a y node (and y on that grid line), y equal to an x node -- a
    // mixed-up coordinate in a node shortcut shows here
    let (xlo, xhi, ylo, yhi) = (xv[0], xv[nx - 1], yv[0], yv[ny - 1]);
    for &v in yv.iter().chain(xv.iter()) {
        if (outside || (v >= xlo && v <= xhi && v >= ylo && v <= yhi)) && queries.len() < 64 {
            queries.push((v, v));
        }
    }
    let class = format!("{:?}/{:?}", if xax.is_none() { "default".to_string() } else { format!("{:?}", spx) },
                        if yax.is_none() { "default".to_string() } else { format!("{:?}", spy) });
    (Scen2 { ext, xax, yax, cells, trail, queries }, f32safe, class)
}

fn bilinear_expected(sc: &Scen2) -> Vec<(Vec<Val>, Vec<Val>)> {
    let xa = vals(&sc.xvals());
    let ya = vals(&sc.yvals());
    let lanes: usize = sc.trail.iter().product();
    let mut out = vec![];
    for &(qx, qy) in &sc.queries {
        let (qx, qy) = (Val::from_f64(qx), Val::from_f64(qy));
        let i = bracket_scan(&xa, &qx);
        let j = bracket_scan(&ya, &qy);
        let u = qx.sub(&xa[i]).div(&xa[i + 1].sub(&xa[i]));
        let v = qy.sub(&ya[j]).div(&ya[j + 1].sub(&ya[j]));
        let one = Val::int(1);
        let mut want = vec![];
        let mut scale = vec![];
        for l in 0..lanes {
            let z = |a: usize, b: usize| Val::from_f64(sc.cells[a][b][l]);
            let (z11, z12, z21, z22) = (z(i, j), z(i, j + 1), z(i + 1, j), z(i + 1, j + 1));
            let w = one.sub(&u).mul(&one.sub(&v)).mul(&z11)
                .add(&one.sub(&u).mul(&v).mul(&z12))
                .add(&u.mul(&one.sub(&v)).mul(&z21))
                .add(&u.mul(&v).mul(&z22));
            want.push(w);
            let m = vmax(&vmax(&z11.abs(), &z12.abs()), &vmax(&z21.abs(), &z22.abs()));
            let au = vmax(&u.abs(), &one);
            let av = vmax(&v.abs(), &one);
            scale.push(m.mul(&au.add(&one)).mul(&av.add(&one)));
        }
        out.push((want, scale));
    }
    out
}

fn transpose(sc: &Scen2) -> Scen2 {
    let nx = sc.nx();
    let ny = sc.ny();
    let cells = (0..ny).map(|j| (0..nx).map(|i| sc.cells[i][j].clone()).collect()).collect();
    Scen2 { ext: sc.ext, xax: sc.yax.clone(), yax: sc.xax.clone(), cells, trail: sc.trail.clone(),
            queries: sc.queries.iter().map(|&(a, b)| (b, a)).collect() }
}

fn check_float_run2(rep: &mut Report, name: &str, sc: &Scen2, expected: &[(Vec<Val>, Vec<Val>)],
                    res: &(BuildOut, Vec<Out>), eps: &Val, factor: i64) {
    if res.0 != BuildOut::Built {
        rep.fail(&format!("{}: build did not succeed on valid input: {:?}", name, res.0), sc.to_json());
        return;
    }
    for (qi, o) in res.1.iter().enumerate() {
        match o {
            Out::Ok(v) => {
                for (l, got) in v.iter().enumerate() {
                    let bound = eps.mul(&Val::int(factor)).mul(&expected[qi].1[l]);
                    if !within(got, &expected[qi].0[l], &bound) {
                        rep.fail(&format!("{}: value differs from the exact bilinear blend by more than {} eps * scale", name, factor),
                                 obj(vec![("scenario", sc.to_json()), ("query", s(format!("{:?}", sc.queries[qi]))),
                                          ("got", s(got.to_text())), ("exact", s(expected[qi].0[l].to_text()))]));
                        return;
                    }
                }
            }
            other => {
                rep.fail(&format!("{}: query {:?} not answered: {:?}", name, sc.queries[qi], other), sc.to_json());
                return;
            }
        }
    }
}

pub fn run_c04(cfg: &Cfg) {
    let mut rep = Report::new("C04", &cfg.out);
    let kind = rep.kind("scen2_ok_qc", "(scen2 Qc * (bout * list (rout Qc)))");
    let mut rng = Rng::new(cfg.seed);
    let thorough = cfg.tier == "thorough";
    let ncases = if thorough { 3000 } else { 250 };
    rep.shard_size = 40;
    for ci in 0..ncases {
        let (sc, f32safe, class) = gen_bilinear_scen(&mut rng, thorough, false, false);
        rep.count(&format!("spacing:{}", class));
        rep.count(&format!("grid:{}x{}", sc.nx().min(6), sc.ny().min(6)));
        rep.count(&format!("trailing_rank:{}", sc.trail.len()));
        arena_reset();
        let rx = sc.run::<XRat>();
        let expected = bilinear_expected(&sc);
        rep.eval(Some(&format!("{:?}", sc)));
        rep.count_n("queries", sc.queries.len() as u64);
        if rx.0 != BuildOut::Built {
            rep.fail(&format!("exact run: build failed on valid input: {:?}", rx.0), sc.to_json());
        } else {
            for (qi, o) in rx.1.iter().enumerate() {
                match o {
                    Out::Ok(v) if v.iter().zip(&expected[qi].0).all(|(a, b)| a == b) && v.len() == expected[qi].0.len() => {}
                    other => {
                        rep.fail("exact run: result is not the bilinear blend of the four surrounding grid values",
                                 obj(vec![("scenario", sc.to_json()), ("query", s(format!("{:?}", sc.queries[qi]))), ("got", out_json(other))]));
                        break;
                    }
                }
            }
        }
        // transposition: same values exactly
        let tr = transpose(&sc);
        let rt = tr.run::<XRat>();
        rep.evaluations += 1;
        if rt != rx {
            rep.fail("transposing the data and swapping axes and coordinates changes the exact result", sc.to_json());
        }
        // static dims
        let rs = match sc.trail.len() {
            0 => Some(sc.run_dim::<XRat, Ix2>()),
            1 => Some(sc.run_dim::<XRat, Ix3>()),
            2 => Some(sc.run_dim::<XRat, Ix4>()),
            3 => Some(sc.run_dim::<XRat, ndarray::Ix5>()),
            _ => None,
        };
        if let Some(r) = rs {
            rep.evaluations += 1;
            if r != rx {
                rep.fail("static-dimension run differs from dynamic-dimension run (exact arithmetic)", sc.to_json());
            }
        }
        let term = format!("({}, {})", sc.to_coq(&qc), outs_coq(&rx.0, &rx.1, &|v| v.to_coq_qc()));
        rep.coq_case(kind, term, sc.to_json());
        let rf = sc.run::<f64>();
        rep.evaluations += 1;
        check_float_run2(&mut rep, "f64", &sc, &expected, &rf, &eps64(), 16);
        if f32safe {
            let r32 = sc.run::<f32>();
            rep.evaluations += 1;
            check_float_run2(&mut rep, "f32", &sc, &expected, &r32, &eps32(), 16);
        }
        if ci < 2 {
            rep.sample(obj(vec![("scenario", sc.to_json()), ("exact_first_result", rx.1.first().map(out_json).unwrap_or(J::Null))]));
        }
    }
    // S1 witness, bilinear flavour
    {
        let sc = Scen2 { ext: false, xax: None, yax: None,
                         cells: vec![vec![vec![-1.5e308], vec![-1.5e308]], vec![vec![1.5e308], vec![1.5e308]]],
                         trail: vec![], queries: vec![(0.5, 0.5), (0.0, 0.0)] };
        arena_reset();
        let expected = bilinear_expected(&sc);
        let rf = sc.run::<f64>();
        let mut bad = rf.0 != BuildOut::Built;
        for (qi, o) in rf.1.iter().enumerate() {
            match o {
                Out::Ok(v) => {
                    let bound = eps64().mul(&Val::int(16)).mul(&expected[qi].1[0]);
                    if !within(&v[0], &expected[qi].0[0], &bound) { bad = true; }
                }
                _ => bad = true,
            }
        }
        if bad {
            rep.fail_k("S1-overflow", "finite grid values whose difference overflows the element type: result is inf/NaN", sc.to_json());
        }
    }
    rep.finish("random Bilinear scenarios: grids 2x2..11x11 incl. non-square, independent spacing classes per axis, default vs explicit axes, 0-3 trailing axes, queries = nodes, grid lines, cell borders, interior; run at exact rationals (dynamic and static dims, and transposed), f64, f32; non-trivial = distinct scenario");
}

// ------------------------------------------------------------------------------------------
// C06 (Linear / Bilinear part is here; the spline part lives in spl.rs)

pub fn c06_linear(rep: &mut Report, rng: &mut Rng, thorough: bool, ncases: usize) {
    let kind = rep.kind("scen1_ok_qc", "(scen1 Qc * (bout * list (rout Qc)))");
    for ci in 0..ncases {
        let (sc, f32safe, class) = gen_linear_scen(rng, thorough, true, true);
        rep.count(&format!("linear:{}", class));
        arena_reset();
        let rx = sc.run::<XRat>();
        let expected = linear_expected(&sc);
        rep.eval(Some(&scen_key(&sc)));
        let ax = sc.axis_vals();
        if rx.0 != BuildOut::Built {
            rep.fail(&format!("exact run: build failed: {:?}", rx.0), sc.to_json());
        }
        for (qi, o) in rx.1.iter().enumerate() {
            let q = sc.queries[qi];
            if q < ax[0] || q > ax[ax.len() - 1] {
                rep.count("linear:queries-outside");
            }
            match o {
                Out::Ok(v) if v.iter().zip(&expected[qi].1).all(|(a, b)| a == b) => {}
                other => {
                    rep.fail("extrapolation: result is not the end line evaluated at the query (exact run)",
                             obj(vec![("scenario", sc.to_json()), ("query", s(format!("{:?}", q))), ("got", out_json(other))]));
                    break;
                }
            }
        }
        let term = format!("({}, {})", sc.to_coq(&qc), outs_coq(&rx.0, &rx.1, &|v| v.to_coq_qc()));
        rep.coq_case(kind, term, sc.to_json());
        // floats: tolerance scaled with the extrapolation distance; bit-identity inside the range
        let rf = sc.run::<f64>();
        rep.evaluations += 1;
        check_float_run(rep, "f64 ext", &sc, &expected, &rf, &eps64(), 8, false);
        let mut off = sc.clone();
        off.ext = false;
        let roff = off.run::<f64>();
        rep.evaluations += 1;
        for (qi, &q) in sc.queries.iter().enumerate() {
            let inside = q >= ax[0] && q <= ax[ax.len() - 1];
            if inside {
                if rf.1.get(qi) != roff.1.get(qi) {
                    rep.fail("result inside the range differs between extrapolate(true) and extrapolate(false)",
                             obj(vec![("scenario", sc.to_json()), ("query", s(format!("{:?}", q)))]));
                    break;
                }
            } else if roff.1.get(qi) != Some(&Out::Oob) {
                rep.fail("query outside the range answered without extrapolation", obj(vec![("scenario", sc.to_json()), ("query", s(format!("{:?}", q)))]));
                break;
            }
        }
        if f32safe {
            let r32 = sc.run::<f32>();
            rep.evaluations += 1;
            check_float_run(rep, "f32 ext", &sc, &expected, &r32, &eps32(), 8, false);
        }
        if ci == 0 {
            rep.sample(obj(vec![("scenario", sc.to_json()), ("exact_results", J::A(rx.1.iter().take(4).map(out_json).collect()))]));
        }
    }
}

pub fn c06_bilinear(rep: &mut Report, rng: &mut Rng, thorough: bool, ncases: usize) {
    let kind = rep.kind("scen2_ok_qc", "(scen2 Qc * (bout * list (rout Qc)))");
    for ci in 0..ncases {
        let (sc, f32safe, class) = gen_bilinear_scen(rng, thorough, true, true);
        rep.count(&format!("bilinear:{}", class));
        arena_reset();
        let rx = sc.run::<XRat>();
        let expected = bilinear_expected(&sc);
        rep.eval(Some(&format!("{:?}", sc)));
        for (qi, o) in rx.1.iter().enumerate() {
            match o {
                Out::Ok(v) if v.iter().zip(&expected[qi].0).all(|(a, b)| a == b) => {}
                other => {
                    rep.fail("extrapolation: result is not the border cell's bilinear form at the query (exact run)",
                             obj(vec![("scenario", sc.to_json()), ("query", s(format!("{:?}", sc.queries[qi]))), ("got", out_json(other))]));
                    break;
                }
            }
        }
        let term = format!("({}, {})", sc.to_coq(&qc), outs_coq(&rx.0, &rx.1, &|v| v.to_coq_qc()));
        rep.coq_case(kind, term, sc.to_json());
        let rf = sc.run::<f64>();
        rep.evaluations += 1;
        check_float_run2(rep, "f64 ext", &sc, &expected, &rf, &eps64(), 16);
        let mut off = sc.clone();
        off.ext = false;
        let roff = off.run::<f64>();
        let (xv, yv) = (sc.xvals(), sc.yvals());
        for (qi, &(qx, qy)) in sc.queries.iter().enumerate() {
            let inside = qx >= xv[0] && qx <= xv[xv.len() - 1] && qy >= yv[0] && qy <= yv[yv.len() - 1];
            if inside {
                if rf.1.get(qi) != roff.1.get(qi) {
                    rep.fail("result inside the grid differs between extrapolate(true) and extrapolate(false)", sc.to_json());
                    break;
                }
            } else {
                rep.count("bilinear:queries-outside");
                if roff.1.get(qi) != Some(&Out::Oob) {
                    rep.fail("query outside the grid answered without extrapolation", sc.to_json());
                    break;
                }
            }
        }
        if f32safe {
            let r32 = sc.run::<f32>();
            rep.evaluations += 1;
            check_float_run2(rep, "f32 ext", &sc, &expected, &r32, &eps32(), 16);
        }
        if ci == 0 {
            rep.sample(obj(vec![("scenario", sc.to_json()), ("exact_results", J::A(rx.1.iter().take(3).map(out_json).collect()))]));
        }
    }
}

// ------------------------------------------------------------------------------------------
// C20

fn poison(rng: &mut Rng) -> f64 {
    match rng.below(5) {
        0 => f64::NAN,
        1 => f64::INFINITY,
        2 => f64::NEG_INFINITY,
        _ => gen_value(rng, true) * 97.0,
    }
}

pub fn run_c20(cfg: &Cfg) {
    let mut rep = Report::new("C20", &cfg.out);
    let k1 = rep.kind("scen1_ok_xq", "(scen1 xq * (bout * list (rout xq)))");
    let k2 = rep.kind("scen2_ok_xq", "(scen2 xq * (bout * list (rout xq)))");
    let mut rng = Rng::new(cfg.seed);
    let thorough = cfg.tier == "thorough";
    rep.shard_size = 50;
    let n1 = if thorough { 6000 } else { 400 };
    for ci in 0..n1 {
        let ext = rng.coin();
        let (mut sc, _f32safe, class) = gen_linear_scen(&mut rng, thorough, ext, ext);
        // one query per pair so that "the bracket" is well defined
        let q = *rng.pick(&sc.queries);
        sc.queries = vec![q];
        let axv = sc.axis_vals();
        let i = bracket_scan(&vals(&axv), &Val::from_f64(q));
        let mut var = sc.clone();
        // poison every non-bracketing row
        for (r, row) in var.rows.iter_mut().enumerate() {
            if r != i && r != i + 1 {
                for v in row.iter_mut() {
                    *v = poison(&mut rng);
                }
            }
        }
        // move non-bracketing knots within their neighbours (keeps the axis strictly increasing)
        let mut moved = 0;
        if sc.ax.is_some() && rng.chance(3, 4) {
            let mut a = axv.clone();
            for k in 0..a.len() {
                if k == i || k == i + 1 {
                    continue;
                }
                let lo = if k == 0 { a[0] - 4.0 } else { a[k - 1] };
                let hi = if k + 1 == a.len() { a[k] + 4.0 } else { a[k + 1] };
                let t = rng.range(1, 7) as f64 / 8.0;
                let cand = lo + (hi - lo) * t;
                if cand > lo && cand < hi {
                    a[k] = cand;
                    moved += 1;
                }
            }
            var.ax = Some(a);
        }
        rep.count(&format!("linear:{}{}", class, if ext { ":ext" } else { "" }));
        rep.count_n("linear:knots-moved", moved);
        rep.eval(Some(&format!("{:?}", var)));
        // bitwise on f64
        let a = sc.run::<f64>();
        let b = var.run::<f64>();
        rep.evaluations += 2;
        let bits = |o: &(BuildOut, Vec<Out>)| -> Vec<String> { o.1.iter().map(|x| format!("{:?}", x)).collect() };
        if a.0 != BuildOut::Built || b.0 != BuildOut::Built || bits(&a) != bits(&b) {
            rep.fail("changing non-bracketing data / knots changed the Linear result (f64, bitwise)",
                     obj(vec![("base", sc.to_json()), ("variant", var.to_json()), ("base_result", J::A(a.1.iter().map(out_json).collect())),
                              ("variant_result", J::A(b.1.iter().map(out_json).collect()))]));
        }
        if let Some(Out::Panic(m)) = a.1.iter().chain(b.1.iter()).find(|o| matches!(o, Out::Panic(_))) {
            rep.fail(&format!("Linear: a finite query on a finite axis panicked or the entry points disagree: {}", m),
                     obj(vec![("base", sc.to_json()), ("variant", var.to_json())]));
        }
        // exact, with NaN/inf poison, against the model at NumXQ
        arena_reset();
        let ax_ = sc.run::<XRat>();
        let bx = var.run::<XRat>();
        if ax_ != bx {
            rep.fail("changing non-bracketing data / knots changed the Linear result (exact run)", obj(vec![("base", sc.to_json()), ("variant", var.to_json())]));
        }
        let term = format!("({}, {})", var.to_coq(&xq), outs_coq(&bx.0, &bx.1, &|v| v.to_coq_xq()));
        rep.coq_case(k1, term, var.to_json());
        if ci == 0 {
            rep.sample(obj(vec![("base", sc.to_json()), ("variant", var.to_json()), ("result", J::A(b.1.iter().map(out_json).collect()))]));
        }
    }
    let n2 = if thorough { 4000 } else { 300 };
    for ci in 0..n2 {
        let ext = rng.coin();
        let (mut sc, _f, class) = gen_bilinear_scen(&mut rng, thorough, ext, ext);
        let q = *rng.pick(&sc.queries);
        sc.queries = vec![q];
        let (xv, yv) = (sc.xvals(), sc.yvals());
        let i = bracket_scan(&vals(&xv), &Val::from_f64(q.0));
        let j = bracket_scan(&vals(&yv), &Val::from_f64(q.1));
        // three more queries inside the same cell, with pairwise different coordinates: the batch forms of the
        // scenario runner (rank-2 queries, x or y in Fortran order) then pair every x with its own y or not
        let (xa, xb) = (xv[i] + (xv[i + 1] - xv[i]) * 0.25, xv[i] + (xv[i + 1] - xv[i]) * 0.75);
        let (ya, yb) = (yv[j] + (yv[j + 1] - yv[j]) * 0.375, yv[j] + (yv[j + 1] - yv[j]) * 0.625);
        // (only when they are strictly inside the cell: on ulp-spaced axes the fractions round onto a knot, which
        // belongs to the neighbouring cell)
        if xv[i] < xa && xa < xb && xb < xv[i + 1] && yv[j] < ya && ya < yb && yb < yv[j + 1] {
            sc.queries.extend([(xa, yb), (xb, ya), (xb, yb)]);
        }
        let mut var = sc.clone();
        for a in 0..sc.nx() {
            for b in 0..sc.ny() {
                let in_cell = (a == i || a == i + 1) && (b == j || b == j + 1);
                if !in_cell {
                    for v in var.cells[a][b].iter_mut() {
                        *v = poison(&mut rng);
                    }
                }
            }
        }
        rep.count(&format!("bilinear:{}{}", class, if ext { ":ext" } else { "" }));
        rep.eval(Some(&format!("{:?}", var)));
        let a = sc.run::<f64>();
        let b = var.run::<f64>();
        rep.evaluations += 2;
        let bits = |o: &(BuildOut, Vec<Out>)| -> Vec<String> { o.1.iter().map(|x| format!("{:?}", x)).collect() };
        if a.0 != BuildOut::Built || b.0 != BuildOut::Built || bits(&a) != bits(&b) {
            rep.fail("changing grid values outside the cell changed the Bilinear result (f64, bitwise)",
                     obj(vec![("base", sc.to_json()), ("variant", var.to_json())]));
        }
        if let Some(Out::Panic(m)) = a.1.iter().chain(b.1.iter()).find(|o| matches!(o, Out::Panic(_))) {
            rep.fail(&format!("Bilinear: a finite query on finite axes panicked or the entry points disagree: {}", m),
                     obj(vec![("base", sc.to_json()), ("variant", var.to_json())]));
        }
        arena_reset();
        let ax_ = sc.run::<XRat>();
        let bx = var.run::<XRat>();
        if ax_ != bx {
            rep.fail("changing grid values outside the cell changed the Bilinear result (exact run)", obj(vec![("base", sc.to_json()), ("variant", var.to_json())]));
        }
        let term = format!("({}, {})", var.to_coq(&xq), outs_coq(&bx.0, &bx.1, &|v| v.to_coq_xq()));
        rep.coq_case(k2, term, var.to_json());
        if ci == 0 {
            rep.sample(obj(vec![("base", sc.to_json()), ("variant", var.to_json())]));
        }
    }
    rep.finish("pairs (base, variant): variant = every non-bracketing row / grid value replaced by NaN, +-inf or random values and (1-D) every non-bracketing knot moved between its neighbours; results compared bitwise at f64 and exactly at extended rationals; in range and extrapolated; all lanes; non-trivial = distinct variant");
}

pub fn run_c06(cfg: &Cfg) {
    let mut rep = Report::new("C06", &cfg.out);
    let mut rng = Rng::new(cfg.seed);
    let thorough = cfg.tier == "thorough";
    rep.shard_size = 40;
    c06_linear(&mut rep, &mut rng, thorough, if thorough { 2500 } else { 200 });
    c06_bilinear(&mut rep, &mut rng, thorough, if thorough { 1500 } else { 120 });
    crate::spl::c06_spline(&mut rep, &mut rng, thorough, if thorough { 1500 } else { 120 });
    rep.finish("scenarios with extrapolation enabled (Linear, Bilinear, CubicSpline with non-periodic boundaries): queries inside, at both ends, the floats adjacent to the ends, and up to 1024 spans outside on either side (2-D: outside in x, y or both); exact run compared with the exact continuation of the end piece and with the model, f64/f32 within scaled tolerance, inside-range results bit-identical to extrapolate(false)");
}
