//! C05: without extrapolation a query is answered iff it lies in the closed axis range.
use crate::gen::*;
use crate::json::{obj, s, J};
use crate::out::Report;
use crate::rng::Rng;
use crate::scen::*;
use crate::spl::{gen_spline_scen, SplineOpts};
use crate::xrat::{arena_reset, XRat};
use crate::Cfg;
use ndarray::{Array1, Array2, ArrayD, IxDyn};
use ndarray_interp::interp1d::{Interp1DBuilder, Linear};
use ndarray_interp::interp2d::Interp2DBuilder;

fn edge_queries(ax: &[f64], f32safe: bool) -> Vec<f64> {
    let lo = ax[0];
    let hi = ax[ax.len() - 1];
    let (ulo, dlo, uhi, dhi) = if f32safe {
        (next_up32(lo as f32) as f64, next_down32(lo as f32) as f64, next_up32(hi as f32) as f64, next_down32(hi as f32) as f64)
    } else {
        (next_up(lo), next_down(lo), next_up(hi), next_down(hi))
    };
    let big = if f32safe { f32::MAX as f64 } else { f64::MAX };
    let span = hi - lo;
    vec![lo, hi, ulo, dlo, uhi, dhi, f64::INFINITY, f64::NEG_INFINITY, f64::NAN, big, -big, lo - span * 3.0, hi + span * 1000.0, lo + span * 0.5]
}
fn kind(o: &Out) -> &'static str {
    match o {
        Out::Ok(_) => "Ok",
        Out::Oob => "OutOfBounds",
        Out::Panic(_) => "panic",
    }
}
fn in_range(ax: &[f64], q: f64) -> bool {
    q >= ax[0] && q <= ax[ax.len() - 1]
}

pub fn run(cfg: &Cfg) {
    let mut rep = Report::new("C05", &cfg.out);
    let k1 = rep.kind("scen1_ok_xq", "(scen1 xq * (bout * list (rout xq)))");
    let k2 = rep.kind("scen2_ok_xq", "(scen2 xq * (bout * list (rout xq)))");
    rep.shard_size = 0;
    let mut rng = Rng::new(cfg.seed);
    let thorough = cfg.tier == "thorough";
    let ncases = if thorough { 4000 } else { 300 };
    for ci in 0..ncases {
        match ci % 3 {
            0 | 1 => {
                let (mut sc, f32safe, label) = if ci % 3 == 0 {
                    let (sc, f, c) = crate::lin::gen_linear_scen(&mut rng, thorough, false, false);
                    (sc, f, format!("linear:{}", c))
                } else {
                    let o = SplineOpts { nmax: if thorough { 12 } else { 7 }, ext: false, allow_periodic: true, force_bc: None, outside: false };
                    let (sc, c) = gen_spline_scen(&mut rng, &o);
                    let l = match &sc.strat { Strat1::Spline(b) => format!("spline:{}:{}", match b { Bc::Periodic => "Periodic", Bc::Individual(..) => "Individual", Bc::NotAKnot => "NotAKnot", Bc::Natural => "Natural", Bc::Clamped => "Clamped" }, c), _ => c };
                    (sc, true, l)
                };
                let ax = sc.axis_vals();
                sc.queries = edge_queries(&ax, f32safe);
                rep.count(&label);
                arena_reset();
                let rx = sc.run::<XRat>();
                rep.eval(Some(&format!("{:?}", sc)));
                if rx.0 != BuildOut::Built { rep.fail(&format!("build failed: {:?}", rx.0), sc.to_json()); continue; }
                let rf = sc.run::<f64>();
                let r32 = if f32safe { Some(sc.run::<f32>()) } else { None };
                rep.evaluations += 2;
                for (qi, &q) in sc.queries.iter().enumerate() {
                    let want = if in_range(&ax, q) { "Ok" } else { "OutOfBounds" };
                    let mut got = vec![("exact", kind(&rx.1[qi])), ("f64", kind(&rf.1[qi]))];
                    if let Some(r) = &r32 { got.push(("f32", kind(&r.1[qi]))); }
                    for (name, g) in got {
                        if g != want {
                            rep.fail(&format!("{}: query {:?} -> {} but the closed-range test says {}", name, q, g, want),
                                     obj(vec![("scenario", sc.to_json()), ("query", s(format!("{:?}", q)))]));
                        }
                    }
                }
                let term = format!("({}, {})", sc.to_coq(&xq), outs_coq(&rx.0, &rx.1, &|v| v.to_coq_xq()));
                rep.coq_case(k1, term, sc.to_json());
                // batches: the error is returned as a whole, wherever the offending element sits
                if matches!(sc.strat, Strat1::Linear) {
                    let data: ArrayD<f64> = make_data::<f64>(&sc.rows, &sc.trail);
                    let x = Array1::from(ax.clone());
                    let interp_main = Interp1DBuilder::new(data).x(x.clone()).strategy(Linear::new()).build().unwrap();
                    // the same axis with data that has a zero-length trailing axis: no lane to write, but the
                    // query must still be refused
                    let zshape: Vec<usize> = if ci % 2 == 0 { vec![ax.len(), 0] } else { vec![ax.len(), 2, 0] };
                    let interp_zero = Interp1DBuilder::new(ArrayD::<f64>::zeros(IxDyn(&zshape))).x(x).strategy(Linear::new()).build().unwrap();
                    let good = ax[0] + (ax[ax.len() - 1] - ax[0]) * 0.5;
                    for interp in [&interp_main, &interp_zero] {
                    for bad in [f64::NAN, next_up(ax[ax.len() - 1]), f64::NEG_INFINITY] {
                        for pos in 0..4 {
                            let mut v = vec![good, ax[0], ax[ax.len() - 1], good];
                            // Some(true) = Ok, Some(false) = Err(OutOfBounds), None = panic
                            let c1 = |v: &Vec<f64>| std::panic::catch_unwind(std::panic::AssertUnwindSafe(|| interp.interp_array(&Array1::from(v.clone())).is_ok())).ok();
                            let c2 = |v: &Vec<f64>| std::panic::catch_unwind(std::panic::AssertUnwindSafe(|| interp.interp_array(&Array2::from_shape_vec((2, 2), v.clone()).unwrap()).is_ok())).ok();
                            let c3 = |v: &Vec<f64>| std::panic::catch_unwind(std::panic::AssertUnwindSafe(|| interp.interp_array(&ArrayD::from_shape_vec(IxDyn(&[4]), v.clone()).unwrap()).is_ok())).ok();
                            let c4 = |v: &Vec<f64>| std::panic::catch_unwind(std::panic::AssertUnwindSafe(|| interp.interp_array(&ArrayD::from_shape_vec(IxDyn(&[2, 1, 2]), v.clone()).unwrap()).is_ok())).ok();
                            let all_ok = c1(&v) == Some(true) && c2(&v) == Some(true) && c3(&v) == Some(true);
                            v[pos] = bad;
                            let e1 = c1(&v) == Some(false);
                            let e2 = c2(&v) == Some(false);
                            let e3 = c3(&v) == Some(false);
                            let e4 = c4(&v) == Some(false);
                            rep.evaluations += 7;
                            rep.count("batch-with-one-bad-element");
                            if !(all_ok && e1 && e2 && e3 && e4) {
                                rep.fail(&format!("batch: all in range ok = {}, with {:?} at position {}: errors 1-d {} 2-d {} dyn {} dyn3 {}", all_ok, bad, pos, e1, e2, e3, e4),
                                         obj(vec![("scenario", sc.to_json())]));
                            }
                        }
                    }
                    }
                }
                if ci < 2 { rep.sample(obj(vec![("scenario", sc.to_json()), ("outcomes", J::A(rf.1.iter().map(|o| s(kind(o))).collect()))])); }
            }
            _ => {
                let (mut sc, f32safe, label) = crate::lin::gen_bilinear_scen(&mut rng, thorough, false, false);
                let (xv, yv) = (sc.xvals(), sc.yvals());
                let qx = edge_queries(&xv, f32safe);
                let qy = edge_queries(&yv, f32safe);
                let midx = xv[0] + (xv[xv.len() - 1] - xv[0]) * 0.5;
                let midy = yv[0] + (yv[yv.len() - 1] - yv[0]) * 0.5;
                sc.queries.clear();
                for &x in &qx { sc.queries.push((x, midy)); }
                for &y in &qy { sc.queries.push((midx, y)); }
                for i in 0..qx.len() { sc.queries.push((qx[i], qy[(i * 3 + 1) % qy.len()])); }
                rep.count(&format!("bilinear:{}", label));
                arena_reset();
                let rx = sc.run::<XRat>();
                rep.eval(Some(&format!("{:?}", sc)));
                if rx.0 != BuildOut::Built { rep.fail(&format!("build failed: {:?}", rx.0), sc.to_json()); continue; }
                let rf = sc.run::<f64>();
                rep.evaluations += 1;
                for (qi, &(x, y)) in sc.queries.iter().enumerate() {
                    let want = if in_range(&xv, x) && in_range(&yv, y) { "Ok" } else { "OutOfBounds" };
                    for (name, g) in [("exact", kind(&rx.1[qi])), ("f64", kind(&rf.1[qi]))] {
                        if g != want {
                            rep.fail(&format!("{}: query {:?} -> {} but the closed-range tests say {}", name, (x, y), g, want),
                                     obj(vec![("scenario", sc.to_json())]));
                        }
                    }
                }
                let term = format!("({}, {})", sc.to_coq(&xq), outs_coq(&rx.0, &rx.1, &|v| v.to_coq_xq()));
                rep.coq_case(k2, term, sc.to_json());
                // 2-D batch
                let data: ArrayD<f64> = sc.make_data::<f64>();
                let interp = Interp2DBuilder::new(data).x(Array1::from(xv.clone())).y(Array1::from(yv.clone())).build().unwrap();
                for pos in 0..3 {
                    let mut vx = vec![midx; 3];
                    let vy = vec![midy; 3];
                    let ok = interp.interp_array(&Array1::from(vx.clone()), &Array1::from(vy.clone())).is_ok();
                    vx[pos] = f64::NAN;
                    let e = std::panic::catch_unwind(std::panic::AssertUnwindSafe(|| interp.interp_array(&Array1::from(vx.clone()), &Array1::from(vy.clone())).is_err())).unwrap_or(false);
                    rep.evaluations += 2;
                    if !(ok && e) { rep.fail("2-D batch with one NaN element not rejected as a whole", sc.to_json()); }
                }
            }
        }
    }
    rep.finish("Linear, CubicSpline (every boundary kind incl. Periodic) and Bilinear without extrapolation; queries: both range ends, the floats adjacent to them on both sides, +-inf, NaN, +-MAX, far outside, one interior point (2-D: each coordinate against its own axis); exact extended-rational run compared with the model in Coq, f64/f32 outcome kinds compared with the closed-range predicate; batches (rank-1 static, rank-2, dynamic) with the offending element at every position");
}
