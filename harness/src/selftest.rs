//! Prints random bigint / rational operations as text; the driver checks them with Python ints.
use crate::bigint::BigInt;
use crate::rng::Rng;
use crate::xrat::Val;
use crate::Cfg;

fn rand_big(rng: &mut Rng) -> BigInt {
    let limbs = rng.below(9) as usize;
    let mut x = BigInt::zero();
    for _ in 0..limbs {
        let l = match rng.below(4) { 0 => 0, 1 => u32::MAX as u64, _ => rng.next() & 0xffff_ffff };
        x = x.shl(32).add(&BigInt::from_u64(l));
    }
    if rng.coin() { x.neg() } else { x }
}

pub fn run(cfg: &Cfg) {
    let mut rng = Rng::new(cfg.seed);
    for _ in 0..3000 {
        let a = rand_big(&mut rng);
        let b = rand_big(&mut rng);
        println!("add {} {} {}", a.to_decimal(), b.to_decimal(), a.add(&b).to_decimal());
        println!("sub {} {} {}", a.to_decimal(), b.to_decimal(), a.sub(&b).to_decimal());
        println!("mul {} {} {}", a.to_decimal(), b.to_decimal(), a.mul(&b).to_decimal());
        if !b.is_zero() {
            let (q, r) = a.divrem_trunc(&b);
            println!("divrem {} {} {} {}", a.to_decimal(), b.to_decimal(), q.to_decimal(), r.to_decimal());
            println!("floor {} {} {}", a.to_decimal(), b.to_decimal(), a.div_floor(&b).to_decimal());
        }
        println!("gcd {} {} {}", a.to_decimal(), b.to_decimal(), a.gcd(&b).to_decimal());
        let back = BigInt::from_decimal(&a.to_decimal());
        println!("rt {} {}", a.to_decimal(), back.to_decimal());
    }
    for _ in 0..500 {
        let f = f64::from_bits(rng.next());
        if f.is_finite() {
            println!("f64 {} {}", f.to_bits(), Val::from_f64(f).to_text());
        }
    }
}
