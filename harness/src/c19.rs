//! C19: every instantiation of the rank-1 fast path, observed through the cfg hook in
//! cast_unchecked (type names, sizes, alignments, cast counter) and compared bitwise with the
//! general per-index path.
use crate::json::{obj, s, J};
use crate::out::Report;
use crate::Cfg;
use ndarray::{arr0, Array, Array1, ArrayD, Ix0, Ix1, Ix2, Ix3, Ix4, Ix5, Ix6, IxDyn};
use ndarray_interp::interp1d::Interp1DBuilder;
use ndarray_interp::interp2d::Interp2DBuilder;
use ndarray_interp::verif;
use std::panic::{catch_unwind, AssertUnwindSafe};

fn bits<T: std::fmt::Debug>(v: impl Iterator<Item = T>) -> Vec<String> {
    v.map(|x| format!("{:?}", x)).collect()
}

fn check_log(rep: &mut Report, label: &str, expect_casts: usize) {
    let n = verif::cast_count();
    let log = verif::cast_log();
    rep.evaluations += 1;
    if n != expect_casts {
        rep.fail(&format!("{}: {} unchecked casts, expected {} (fast path taken exactly for a static rank-1 query)", label, n, expect_casts), J::Null);
    }
    for (a, b) in log {
        if a != b {
            rep.fail(&format!("{}: cast_unchecked between different types {} -> {}", label, a, b), J::Null);
        }
    }
}

macro_rules! inst_1d {
    ($rep:expr, $e:ty, $d:ty, $shape:expr, $ename:expr) => {{
        let shape: Vec<usize> = $shape;
        let n = shape[0];
        let total: usize = shape.iter().product();
        let vals: Vec<$e> = (0..total).map(|i| ((i * 7 + 3) % 23) as $e).collect();
        let owned: Array<$e, $d> = ArrayD::from_shape_vec(IxDyn(&shape), vals).unwrap().into_dimensionality::<$d>().unwrap();
        let qv: Vec<$e> = vec![0 as $e, 1 as $e, (n - 1) as $e];
        for storage in ["owned", "view", "shared"] {
            let label = format!("1d {} data {:?} {}", $ename, shape, storage);
            macro_rules! with_interp {
                ($interp:expr) => {{
                    let interp = $interp;
                    // general-path references
                    verif::reset();
                    let q_dyn1 = ArrayD::from_shape_vec(IxDyn(&[3]), qv.clone()).unwrap();
                    let r_dyn = interp.interp_array(&q_dyn1).unwrap();
                    check_log($rep, &format!("{} query IxDyn(rank 1)", label), 0);
                    verif::reset();
                    let r0 = interp.interp_array(&arr0(qv[1])).unwrap();
                    check_log($rep, &format!("{} query Ix0", label), 0);
                    verif::reset();
                    let q2 = Array::from_shape_vec((1, 3), qv.clone()).unwrap();
                    let r2 = interp.interp_array(&q2).unwrap();
                    check_log($rep, &format!("{} query Ix2", label), 0);
                    verif::reset();
                    let q3 = Array::from_shape_vec((3, 1, 1), qv.clone()).unwrap();
                    let r3 = interp.interp_array(&q3).unwrap();
                    check_log($rep, &format!("{} query Ix3", label), 0);
                    // the fast path
                    verif::reset();
                    let q1 = Array1::from(qv.clone());
                    let r1 = interp.interp_array(&q1).unwrap();
                    check_log($rep, &format!("{} query Ix1", label), 2);
                    $rep.count(&format!("1d:{}:{}:{}", $ename, stringify!($d), storage));
                    let b1 = bits(r1.iter());
                    if b1 != bits(r_dyn.iter()) || b1 != bits(r2.iter()) || b1 != bits(r3.iter()) {
                        $rep.fail(&format!("{}: fast path and general path differ", label), J::Null);
                    }
                    let lanes = b1.len() / 3;
                    if bits(r0.iter()) != b1[lanes..2 * lanes].to_vec() {
                        $rep.fail(&format!("{}: 0-d query differs from the batch element", label), J::Null);
                    }
                    // fast path through a view of the query and into a caller buffer
                    verif::reset();
                    let mut buf = r1.clone();
                    buf.fill(0 as $e);
                    interp.interp_array_into(&q1.view(), buf.view_mut()).unwrap();
                    check_log($rep, &format!("{} interp_array_into Ix1", label), 2);
                    if bits(buf.iter()) != b1 { $rep.fail(&format!("{}: interp_array_into (fast path) differs", label), J::Null); }
                    // the fast path with the query given as a negative-stride view (contiguous in reverse memory order)
                    verif::reset();
                    let q1r = Array1::from(qv.iter().rev().cloned().collect::<Vec<$e>>());
                    let r1v = interp.interp_array(&q1r.slice(ndarray::s![..;-1])).unwrap();
                    check_log($rep, &format!("{} query Ix1 (reversed view)", label), 2);
                    if bits(r1v.iter()) != b1 { $rep.fail(&format!("{}: fast path with a negative-stride query view differs from the general path", label), J::Null); }
                    // both paths into a buffer that is not in standard layout
                    {
                        let mut bg = r_dyn.clone(); bg.fill(0 as $e);
                        if bg.ndim() > 0 { let a = ndarray::Axis(bg.ndim() - 1); bg.invert_axis(a); }
                        let okg = catch_unwind(AssertUnwindSafe(|| interp.interp_array_into(&q_dyn1, bg.view_mut()).is_ok())).unwrap_or(false);
                        let mut bfst = r1.clone(); bfst.fill(0 as $e);
                        if bfst.ndim() > 0 { let a = ndarray::Axis(bfst.ndim() - 1); bfst.invert_axis(a); }
                        let okf = catch_unwind(AssertUnwindSafe(|| interp.interp_array_into(&q1, bfst.view_mut()).is_ok())).unwrap_or(false);
                        $rep.evaluations += 2;
                        if !okg || !okf || bits(bg.iter()) != b1 || bits(bfst.iter()) != b1 {
                            $rep.fail(&format!("{}: buffer with a negative stride: general path ok = {}, fast path ok = {}, or contents differ", label, okg, okf), J::Null);
                        }
                    }
                    // errors: an out-of-range element that is not the last one -- both paths must refuse, and the
                    // fast path must stop writing where the general path stops
                    let qbad: Vec<$e> = vec![0 as $e, (n + 5) as $e, 1 as $e];
                    let mut bf = r1.clone(); bf.fill(77 as $e);
                    let mut bg = r_dyn.clone(); bg.fill(77 as $e);
                    verif::reset();
                    let ef = interp.interp_array_into(&Array1::from(qbad.clone()), bf.view_mut()).is_err();
                    let eg = interp.interp_array_into(&ArrayD::from_shape_vec(IxDyn(&[3]), qbad.clone()).unwrap(), bg.view_mut()).is_err();
                    $rep.evaluations += 2;
                    if !ef || !eg { $rep.fail(&format!("{}: out-of-range element in the middle: fast path error = {}, general path error = {} (both must be errors)", label, ef, eg), J::Null); }
                    if bits(bf.iter()) != bits(bg.iter()) { $rep.fail(&format!("{}: after an out-of-range element the fast path and the general path left different buffers", label), J::Null); }
                }};
            }
            let r = catch_unwind(AssertUnwindSafe(|| match storage {
                "owned" => with_interp!(Interp1DBuilder::new(owned.clone()).build().unwrap()),
                "view" => with_interp!(Interp1DBuilder::new(owned.view()).build().unwrap()),
                _ => with_interp!(Interp1DBuilder::new(owned.clone().into_shared()).build().unwrap()),
            }));
            $rep.eval(Some(&label));
            if let Err(p) = r {
                $rep.fail(&format!("{}: panicked: {}", label, crate::scen::panic_msg(p)), J::Null);
            }
        }
    }};
}

macro_rules! inst_2d {
    ($rep:expr, $e:ty, $d:ty, $shape:expr, $ename:expr) => {{
        let shape: Vec<usize> = $shape;
        let (nx, ny) = (shape[0], shape[1]);
        let total: usize = shape.iter().product();
        let vals: Vec<$e> = (0..total).map(|i| ((i * 5 + 1) % 19) as $e).collect();
        let owned: Array<$e, $d> = ArrayD::from_shape_vec(IxDyn(&shape), vals).unwrap().into_dimensionality::<$d>().unwrap();
        let qx: Vec<$e> = vec![0 as $e, 1 as $e, (nx - 1) as $e];
        let qy: Vec<$e> = vec![(ny - 1) as $e, 0 as $e, 1 as $e];
        for storage in ["owned", "view", "shared"] {
            let label = format!("2d {} data {:?} {}", $ename, shape, storage);
            macro_rules! with_interp {
                ($interp:expr) => {{
                    let interp = $interp;
                    verif::reset();
                    let xd = ArrayD::from_shape_vec(IxDyn(&[3]), qx.clone()).unwrap();
                    let yd = ArrayD::from_shape_vec(IxDyn(&[3]), qy.clone()).unwrap();
                    let r_dyn = interp.interp_array(&xd, &yd).unwrap();
                    check_log($rep, &format!("{} query IxDyn(rank 1)", label), 0);
                    verif::reset();
                    let x2 = Array::from_shape_vec((3, 1), qx.clone()).unwrap();
                    let y2 = Array::from_shape_vec((3, 1), qy.clone()).unwrap();
                    let r2 = interp.interp_array(&x2, &y2).unwrap();
                    check_log($rep, &format!("{} query Ix2", label), 0);
                    verif::reset();
                    let r0 = interp.interp_array(&arr0(qx[1]), &arr0(qy[1])).unwrap();
                    check_log($rep, &format!("{} query Ix0", label), 0);
                    verif::reset();
                    let r1 = interp.interp_array(&Array1::from(qx.clone()), &Array1::from(qy.clone())).unwrap();
                    check_log($rep, &format!("{} query Ix1", label), 3);
                    $rep.count(&format!("2d:{}:{}:{}", $ename, stringify!($d), storage));
                    let b1 = bits(r1.iter());
                    if b1 != bits(r_dyn.iter()) || b1 != bits(r2.iter()) {
                        $rep.fail(&format!("{}: fast path and general path differ", label), J::Null);
                    }
                    let lanes = b1.len() / 3;
                    if bits(r0.iter()) != b1[lanes..2 * lanes].to_vec() {
                        $rep.fail(&format!("{}: 0-d query differs from the batch element", label), J::Null);
                    }
                    // both paths into a buffer that is not in standard layout, and the fast path with negative-stride queries
                    {
                        let mut bg = r_dyn.clone(); bg.fill(0 as $e);
                        if bg.ndim() > 0 { let a = ndarray::Axis(bg.ndim() - 1); bg.invert_axis(a); }
                        let okg = catch_unwind(AssertUnwindSafe(|| interp.interp_array_into(&xd, &yd, bg.view_mut()).is_ok())).unwrap_or(false);
                        let mut bfst = r1.clone(); bfst.fill(0 as $e);
                        if bfst.ndim() > 0 { let a = ndarray::Axis(bfst.ndim() - 1); bfst.invert_axis(a); }
                        let okf = catch_unwind(AssertUnwindSafe(|| interp.interp_array_into(&Array1::from(qx.clone()), &Array1::from(qy.clone()), bfst.view_mut()).is_ok())).unwrap_or(false);
                        $rep.evaluations += 2;
                        if !okg || !okf || bits(bg.iter()) != b1 || bits(bfst.iter()) != b1 {
                            $rep.fail(&format!("{}: buffer with a negative stride: general path ok = {}, fast path ok = {}, or contents differ", label, okg, okf), J::Null);
                        }
                        let xr = Array1::from(qx.iter().rev().cloned().collect::<Vec<$e>>());
                        let yr = Array1::from(qy.iter().rev().cloned().collect::<Vec<$e>>());
                        let rv = interp.interp_array(&xr.slice(ndarray::s![..;-1]), &yr.slice(ndarray::s![..;-1])).unwrap();
                        let rv2 = interp.interp_array(&xr.slice(ndarray::s![..;-1]), &Array1::from(qy.clone())).unwrap();
                        $rep.evaluations += 2;
                        if bits(rv.iter()) != b1 || bits(rv2.iter()) != b1 { $rep.fail(&format!("{}: fast path with negative-stride query views differs from the general path", label), J::Null); }
                    }
                    let xbad: Vec<$e> = vec![0 as $e, (nx + 5) as $e, 1 as $e];
                    let ef = interp.interp_array(&Array1::from(xbad.clone()), &Array1::from(qy.clone())).is_err();
                    let eg = interp.interp_array(&ArrayD::from_shape_vec(IxDyn(&[3]), xbad.clone()).unwrap(), &yd).is_err();
                    $rep.evaluations += 2;
                    if !ef || !eg { $rep.fail(&format!("{}: out-of-range x in the middle: fast path error = {}, general path error = {} (both must be errors)", label, ef, eg), J::Null); }
                }};
            }
            let r = catch_unwind(AssertUnwindSafe(|| match storage {
                "owned" => with_interp!(Interp2DBuilder::new(owned.clone()).build().unwrap()),
                "view" => with_interp!(Interp2DBuilder::new(owned.view()).build().unwrap()),
                _ => with_interp!(Interp2DBuilder::new(owned.clone().into_shared()).build().unwrap()),
            }));
            $rep.eval(Some(&label));
            if let Err(p) = r {
                $rep.fail(&format!("{}: panicked: {}", label, crate::scen::panic_msg(p)), J::Null);
            }
        }
    }};
}

macro_rules! all_dims_1d {
    ($rep:expr, $e:ty, $ename:expr) => {{
        inst_1d!($rep, $e, Ix1, vec![4], $ename);
        inst_1d!($rep, $e, Ix2, vec![4, 2], $ename);
        inst_1d!($rep, $e, Ix3, vec![3, 2, 2], $ename);
        inst_1d!($rep, $e, Ix4, vec![3, 1, 2, 2], $ename);
        inst_1d!($rep, $e, Ix5, vec![3, 2, 1, 1, 2], $ename);
        inst_1d!($rep, $e, Ix6, vec![3, 1, 2, 1, 1, 2], $ename);
        inst_1d!($rep, $e, IxDyn, vec![4, 3], $ename);
        inst_1d!($rep, $e, IxDyn, vec![4], $ename);
        inst_1d!($rep, $e, IxDyn, vec![3, 1, 2, 1, 2], $ename);
        inst_1d!($rep, $e, IxDyn, vec![3, 2, 1, 1, 2, 1], $ename);
        inst_1d!($rep, $e, IxDyn, vec![3, 1, 1, 2, 1, 1, 2], $ename);
    }};
}
macro_rules! all_dims_2d {
    ($rep:expr, $e:ty, $ename:expr) => {{
        inst_2d!($rep, $e, Ix2, vec![3, 4], $ename);
        inst_2d!($rep, $e, Ix3, vec![3, 3, 2], $ename);
        inst_2d!($rep, $e, Ix4, vec![3, 2, 2, 2], $ename);
        inst_2d!($rep, $e, Ix5, vec![3, 3, 1, 2, 1], $ename);
        inst_2d!($rep, $e, Ix6, vec![3, 2, 1, 1, 2, 1], $ename);
        inst_2d!($rep, $e, IxDyn, vec![3, 3, 2], $ename);
        inst_2d!($rep, $e, IxDyn, vec![4, 3], $ename);
        inst_2d!($rep, $e, IxDyn, vec![3, 3, 1, 2, 1, 2], $ename);
        inst_2d!($rep, $e, IxDyn, vec![3, 3, 2, 1, 1, 1, 2], $ename);
    }};
}

pub fn run(cfg: &Cfg) {
    let mut rep = Report::new("C19", &cfg.out);
    let rep_ref = &mut rep;
    all_dims_1d!(rep_ref, f64, "f64");
    all_dims_1d!(rep_ref, f32, "f32");
    all_dims_1d!(rep_ref, i32, "i32");
    all_dims_1d!(rep_ref, i64, "i64");
    all_dims_2d!(rep_ref, f64, "f64");
    all_dims_2d!(rep_ref, f32, "f32");
    all_dims_2d!(rep_ref, i32, "i32");
    all_dims_2d!(rep_ref, i64, "i64");
    let _ = (Ix0::default(), Ix2::default(), Ix3::default(), cfg);
    // the hook itself must fire on a mismatch (sanity of the observation channel): not testable without
    // unsafe code in the harness; instead record what it saw
    rep.sample(obj(vec![("cast_log_example", J::A(verif::cast_log().into_iter().take(3).map(|(a, b)| J::A(vec![s(a), s(b)])).collect()))]));
    rep.extra.push(("x_exhaustive".into(), J::B(true)));
    rep.finish("EXHAUSTIVE enumeration of (data dimension type Ix1..Ix6, IxDyn [2-D: Ix2..Ix6, IxDyn]) x (query dimension type Ix0, Ix1, Ix2, Ix3, IxDyn of runtime rank 1) x (owned, view, shared storage) x (f64, f32, i32, i64) x (Interp1D, Interp2D): the cfg hook in cast_unchecked records type_name of source and destination, asserts equal size and alignment and counts the casts; casts happen exactly for the static Ix1 query (2 per call in 1-D, 3 in 2-D); fast and general path compared bitwise");
}
