//! Structured generators.  Everything is an f64 (an exact dyadic rational); "f32-safe" values
//! are exactly representable in f32 as well, so the same scenario can be run at f32.
use crate::rng::Rng;

pub fn next_up(f: f64) -> f64 {
    if f.is_nan() || f == f64::INFINITY {
        return f;
    }
    if f == 0.0 {
        return f64::from_bits(1);
    }
    let b = f.to_bits();
    f64::from_bits(if f > 0.0 { b + 1 } else { b - 1 })
}
pub fn next_down(f: f64) -> f64 {
    -next_up(-f)
}
pub fn next_up32(f: f32) -> f32 {
    if f.is_nan() || f == f32::INFINITY {
        return f;
    }
    if f == 0.0 {
        return f32::from_bits(1);
    }
    let b = f.to_bits();
    f32::from_bits(if f > 0.0 { b + 1 } else { b - 1 })
}
pub fn next_down32(f: f32) -> f32 {
    -next_up32(-f)
}
pub fn is_f32_exact(f: f64) -> bool {
    (f as f32) as f64 == f
}

#[derive(Clone, Copy, Debug, PartialEq)]
pub enum Spacing {
    Unit,
    Uniform,
    Geometric,
    Clustered,
    Random,
    MixedMag,
    IndexLike,
}
pub const SPACINGS: [Spacing; 7] =
    [Spacing::Unit, Spacing::Uniform, Spacing::Geometric, Spacing::Clustered, Spacing::Random, Spacing::MixedMag, Spacing::IndexLike];

/// strictly increasing axis of n >= 1 points.  `f32safe`: every knot exact in f32.
/// Magnitudes stay within 2^-60 .. 2^60 (MixedMag), far from overflow (DESIGN.md S1).
pub fn gen_axis(rng: &mut Rng, n: usize, sp: Spacing, f32safe: bool) -> Vec<f64> {
    let mut v = Vec::with_capacity(n);
    match sp {
        Spacing::Unit => {
            let s = rng.range(-8, 8) as f64;
            for i in 0..n {
                v.push(s + i as f64);
            }
        }
        Spacing::Uniform => {
            let h = rng.range(1, 12) as f64 * (2.0f64).powi(rng.range(-5, 3) as i32);
            let s = rng.range(-40, 40) as f64 * 0.25;
            for i in 0..n {
                v.push(s + i as f64 * h);
            }
        }
        Spacing::Geometric => {
            // x_i = s * 2^(i/k) rounded to a grid; ratio between neighbours bounded
            let s = rng.range(1, 7) as f64 * 0.125;
            let mut cur = s;
            for _ in 0..n {
                v.push(cur);
                let f = match rng.below(3) {
                    0 => 1.25,
                    1 => 1.5,
                    _ => 2.0,
                };
                let next = cur * f;
                // keep a bounded number of mantissa bits
                let q = (2.0f64).powi(-10) * cur.abs().max(1.0);
                cur = (next / q).round() * q;
                if cur <= *v.last().unwrap() {
                    cur = *v.last().unwrap() + q;
                }
            }
            if rng.coin() {
                let off = -(rng.range(0, 8) as f64);
                for x in v.iter_mut() {
                    *x += off;
                }
            }
        }
        Spacing::Clustered => {
            // knots 1..3 ulps apart (of the target precision), interleaved with normal steps
            // never start at 0: ulp-spaced knots at 0 are subnormal and make slopes overflow (S1)
            let mut cur = rng.range(-16, 16) as f64 * 0.5 + 0.25;
            for _ in 0..n {
                v.push(cur);
                // (a walk in steps of 1/16 can land exactly on 0.0: no ulp-cluster there either)
                if rng.chance(2, 3) && cur.abs() > 1e-6 {
                    let k = rng.range(1, 3);
                    for _ in 0..k {
                        cur = if f32safe { next_up32(cur as f32) as f64 } else { next_up(cur) };
                    }
                } else {
                    cur += rng.range(1, 16) as f64 * 0.0625;
                }
            }
        }
        Spacing::IndexLike => {
            // looks like the default index axis at both ends (0 and len-1) but has arbitrary interior knots
            let last = (n.max(1) - 1) as f64;
            let mut inner: Vec<f64> = vec![];
            let mut tries = 0;
            while inner.len() + 2 < n && tries < 1000 {
                tries += 1;
                let c = rng.range(1, ((n - 1) * 16 - 1).max(1) as i64) as f64 / 16.0;
                if c > 0.0 && c < last && !inner.contains(&c) { inner.push(c); }
            }
            inner.sort_by(|a, b| a.partial_cmp(b).unwrap());
            v.push(0.0);
            if n >= 2 { v.extend(inner); v.push(last); }
            // (if the interior could not be filled the axis is shorter than asked for; fix up)
            while v.len() < n { let l = *v.last().unwrap(); v.push(l + 1.0); }
        }
        Spacing::Random => {
            let mut cur = rng.range(-64, 64) as f64 * 0.125;
            for _ in 0..n {
                v.push(cur);
                cur += rng.range(1, 64) as f64 * 0.015625;
            }
        }
        Spacing::MixedMag => {
            // strictly increasing with wildly different magnitudes: -2^a .. -2^-b, 0?, 2^-c .. 2^d
            let mut neg = vec![];
            let mut pos = vec![];
            let lim = if f32safe { 30 } else { 60 };
            let mut e = lim;
            let nneg = n / 2;
            for _ in 0..nneg {
                neg.push(-(2.0f64).powi(e) * (1.0 + rng.range(0, 3) as f64 * 0.25));
                e -= rng.range(1, (2 * lim as i64 / (nneg as i64 + 1)).max(1)) as i32;
            }
            let npos = n - nneg;
            let mut e = -lim;
            for _ in 0..npos {
                pos.push((2.0f64).powi(e) * (1.0 + rng.range(0, 3) as f64 * 0.25));
                e += rng.range(1, (2 * lim as i64 / (npos as i64 + 1)).max(1)) as i32;
            }
            v.extend(neg);
            v.extend(pos);
            // enforce strictness (collisions are possible at the seams)
            for i in 1..v.len() {
                if v[i] <= v[i - 1] {
                    v[i] = if f32safe { next_up32(v[i - 1] as f32) as f64 } else { next_up(v[i - 1]) };
                }
            }
        }
    }
    if f32safe {
        for x in v.iter_mut() {
            *x = *x as f32 as f64;
        }
        for i in 1..v.len() {
            if v[i] <= v[i - 1] {
                v[i] = next_up32(v[i - 1] as f32) as f64;
            }
        }
    }
    debug_assert!(v.windows(2).all(|w| w[0] < w[1]), "axis not strictly increasing: {:?} {:?}", sp, v);
    if f32safe {
        debug_assert!(v.iter().all(|&x| is_f32_exact(x)), "axis not f32 exact: {:?} {:?}", sp, v);
    }
    v
}

/// axis suitable for the spline: mesh ratio <= 2^6, moderate magnitudes
pub fn gen_spline_axis(rng: &mut Rng, n: usize) -> (Vec<f64>, &'static str) {
    match rng.below(6) {
        5 => (gen_axis(rng, n, Spacing::IndexLike, true), "index-like-ends"),
        0 => (gen_axis(rng, n, Spacing::Unit, true), "unit"),
        1 => (gen_axis(rng, n, Spacing::Uniform, true), "uniform"),
        2 => (gen_axis(rng, n, Spacing::Random, true), "random"),
        3 => {
            // steps drawn from {1,2,4,...,64} * 2^-4
            let mut cur = rng.range(-16, 16) as f64 * 0.5;
            let mut v = vec![];
            for _ in 0..n {
                v.push(cur);
                cur += (1u64 << rng.below(7)) as f64 * 0.0625;
            }
            (v, "mesh-ratio-64")
        }
        _ => (gen_axis(rng, n, Spacing::Geometric, true), "geometric"),
    }
}

/// finite data values: small dyadic grid (f32 safe) or full-mantissa doubles
pub fn gen_value(rng: &mut Rng, f32safe: bool) -> f64 {
    if f32safe || rng.chance(2, 3) {
        match rng.below(8) {
            0 => 0.0,
            1 => rng.range(-4, 4) as f64,
            _ => rng.range(-512, 512) as f64 * 0.0625,
        }
    } else {
        // full 53-bit mantissa, magnitude up to ~2^10
        let m = (rng.next() >> 11) as f64 / (1u64 << 53) as f64; // [0,1)
        let s = if rng.coin() { -1.0 } else { 1.0 };
        s * m * (2.0f64).powi(rng.range(-6, 10) as i32)
    }
}

pub fn gen_rows(rng: &mut Rng, n: usize, lanes: usize, f32safe: bool) -> Vec<Vec<f64>> {
    (0..n).map(|_| (0..lanes).map(|_| gen_value(rng, f32safe)).collect()).collect()
}

pub fn gen_trail(rng: &mut Rng) -> Vec<usize> {
    match rng.below(8) {
        0 | 1 | 2 => vec![],
        3 => vec![1],
        4 => vec![3],
        5 => vec![2, 2],
        6 => vec![2, 1, 3],
        _ => vec![rng.range(1, 4) as usize],
    }
}

/// queries inside [ax[0], ax[n-1]]: knots, their neighbouring floats, ends, midpoints, random
pub fn queries_in_range(rng: &mut Rng, ax: &[f64], f32safe: bool, max: usize) -> Vec<f64> {
    let lo = ax[0];
    let hi = ax[ax.len() - 1];
    let mut q = vec![lo, hi];
    for &k in ax {
        q.push(k);
        let (u, d) = if f32safe {
            (next_up32(k as f32) as f64, next_down32(k as f32) as f64)
        } else {
            (next_up(k), next_down(k))
        };
        if u <= hi {
            q.push(u);
        }
        if d >= lo {
            q.push(d);
        }
    }
    for w in ax.windows(2) {
        let m = w[0] + (w[1] - w[0]) * 0.5;
        let m = if f32safe { m as f32 as f64 } else { m };
        if m >= lo && m <= hi {
            q.push(m);
        }
        let t = rng.range(1, 15) as f64 / 16.0;
        let r = w[0] + (w[1] - w[0]) * t;
        let r = if f32safe { r as f32 as f64 } else { r };
        if r >= lo && r <= hi {
            q.push(r);
        }
    }
    // subsample, always keeping both ends
    while q.len() > max {
        let i = 2 + rng.below((q.len() - 2) as u64) as usize;
        q.swap_remove(i);
    }
    q
}

/// finite queries outside the range, up to many spans away, plus the floats adjacent to the ends
pub fn queries_outside(rng: &mut Rng, ax: &[f64], f32safe: bool, count: usize) -> Vec<f64> {
    let lo = ax[0];
    let hi = ax[ax.len() - 1];
    let span = hi - lo;
    let mut q = vec![];
    let (dlo, uhi) = if f32safe {
        (next_down32(lo as f32) as f64, next_up32(hi as f32) as f64)
    } else {
        (next_down(lo), next_up(hi))
    };
    q.push(dlo);
    q.push(uhi);
    for _ in 0..count {
        let k = match rng.below(4) {
            0 => rng.range(1, 16) as f64 / 16.0,
            1 => rng.range(1, 8) as f64,
            2 => rng.range(8, 1024) as f64,
            _ => rng.range(1, 64) as f64 / 4.0,
        };
        let v = if rng.coin() { lo - span * k } else { hi + span * k };
        let v = if f32safe { v as f32 as f64 } else { v };
        if v < lo || v > hi {
            q.push(v);
        }
    }
    q
}

pub fn pick_n(rng: &mut Rng, thorough: bool) -> usize {
    match rng.below(10) {
        0 => 2,
        1 => 3,
        2 => 4,
        3 | 4 => rng.range(5, 9) as usize,
        5 | 6 | 7 => rng.range(10, 24) as usize,
        _ => rng.range(25, if thorough { 64 } else { 40 }) as usize,
    }
}
