//! Tiny JSON emitter (serde_json is not in /repo's lock file; keep the harness dependency-free).
#[derive(Clone, Debug)]
pub enum J {
    Null,
    B(bool),
    I(i64),
    F(f64),
    S(String),
    A(Vec<J>),
    O(Vec<(String, J)>),
}
pub fn s(x: impl Into<String>) -> J {
    J::S(x.into())
}
pub fn obj(kv: Vec<(&str, J)>) -> J {
    J::O(kv.into_iter().map(|(k, v)| (k.to_string(), v)).collect())
}
impl J {
    pub fn render(&self) -> String {
        let mut o = String::new();
        self.w(&mut o);
        o
    }
    fn w(&self, o: &mut String) {
        match self {
            J::Null => o.push_str("null"),
            J::B(b) => o.push_str(if *b { "true" } else { "false" }),
            J::I(i) => o.push_str(&i.to_string()),
            J::F(f) => {
                if f.is_finite() {
                    o.push_str(&format!("{:e}", f))
                } else {
                    o.push_str(&format!("\"{}\"", f))
                }
            }
            J::S(st) => {
                o.push('"');
                for c in st.chars() {
                    match c {
                        '"' => o.push_str("\\\""),
                        '\\' => o.push_str("\\\\"),
                        '\n' => o.push_str("\\n"),
                        '\t' => o.push_str("\\t"),
                        c if (c as u32) < 0x20 => o.push_str(&format!("\\u{:04x}", c as u32)),
                        c => o.push(c),
                    }
                }
                o.push('"');
            }
            J::A(v) => {
                o.push('[');
                for (i, x) in v.iter().enumerate() {
                    if i > 0 {
                        o.push(',');
                    }
                    x.w(o);
                }
                o.push(']');
            }
            J::O(v) => {
                o.push('{');
                for (i, (k, x)) in v.iter().enumerate() {
                    if i > 0 {
                        o.push(',');
                    }
                    J::S(k.clone()).w(o);
                    o.push(':');
                    x.w(o);
                }
                o.push('}');
            }
        }
    }
}
