//! C10: the whole decision table of Interp1DBuilder::build / Interp2DBuilder::build, enumerated.
use crate::json::{obj, s, J};
use crate::out::Report;
use crate::rng::Rng;
use crate::scen::*;
use crate::xrat::{arena_reset, XRat};
use crate::Cfg;
use ndarray::{ArrayD, IxDyn};
use ndarray_interp::interp1d::cubic_spline::CubicSpline;
use ndarray_interp::interp1d::{Interp1DBuilder, Linear};
use ndarray_interp::interp2d::Interp2DBuilder;
use std::panic::{catch_unwind, AssertUnwindSafe};

/// axis order patterns for a requested length
fn axis_patterns(len: usize) -> Vec<(String, Vec<f64>)> {
    let inc: Vec<f64> = (0..len).map(|i| 1.0 + 1.5 * i as f64).collect();
    let mut v = vec![("increasing".to_string(), inc.clone())];
    if len >= 2 {
        for p in 0..(len - 1) {
            let mut t = inc.clone();
            t[p + 1] = t[p];
            v.push((format!("tie@{}", p), t));
            let mut sw = inc.clone();
            sw.swap(p, p + 1);
            v.push((format!("swap@{}", p), sw));
        }
        let dec: Vec<f64> = inc.iter().rev().cloned().collect();
        v.push(("decreasing".into(), dec));
    }
    for p in 0..len {
        let mut t = inc.clone();
        t[p] = f64::NAN;
        v.push((format!("nan@{}", p), t));
    }
    if len >= 1 {
        let mut t = inc.clone();
        t[len - 1] = f64::INFINITY;
        v.push(("inf-last".into(), t));
    }
    v
}
fn strictly_increasing(a: &[f64]) -> bool {
    a.len() >= 2 && a.windows(2).all(|w| w[0] < w[1])
}

fn check_one(rep: &mut Report, kind: usize, sc: &Scen1, min: usize, label: &str) {
    arena_reset();
    let rx = sc.run::<XRat>();
    let rf = sc.run::<f64>();
    rep.eval(Some(&format!("{:?}", sc)));
    rep.evaluations += 1;
    // declarative validity
    let n = sc.n();
    let ax = sc.axis_vals();
    let mut violated: Vec<&str> = vec![];
    if n < min { violated.push("NotEnoughData"); }
    if !strictly_increasing(&ax) { violated.push("NotMonotonic"); }
    if ax.len() != n { violated.push("ShapeError"); }
    if let Strat1::Spline(bc) = &sc.strat {
        match bc {
            Bc::Individual(_, shape) => {
                let mut want = vec![1];
                want.extend_from_slice(&sc.trail);
                if shape != &want { violated.push("ShapeError"); }
            }
            Bc::Periodic => {
                if n >= 1 && sc.rows[0].iter().zip(sc.rows[n - 1].iter()).any(|(a, b)| !(a == b)) { violated.push("ValueError"); }
            }
            _ => {}
        }
    }
    for (name, res) in [("exact", &rx.0), ("f64", &rf.0)] {
        match res {
            BuildOut::Built => {
                if !violated.is_empty() {
                    rep.fail(&format!("{}: build succeeded although {:?} is violated", name, violated), obj(vec![("scenario", sc.to_json()), ("case", s(label))]));
                }
            }
            BuildOut::Err(k) => {
                if violated.is_empty() {
                    rep.fail(&format!("{}: build rejected valid input with {}", name, k), obj(vec![("scenario", sc.to_json()), ("case", s(label))]));
                } else if !violated.contains(k) {
                    rep.fail(&format!("{}: error kind {} names no violated requirement (violated: {:?})", name, k, violated), obj(vec![("scenario", sc.to_json()), ("case", s(label))]));
                }
            }
            BuildOut::Panic(m) => {
                rep.fail(&format!("{}: build panicked: {}", name, m.chars().take(80).collect::<String>()), obj(vec![("scenario", sc.to_json()), ("case", s(label))]));
            }
        }
    }
    if rx.0 != rf.0 {
        rep.fail(&format!("exact run and f64 run disagree: {:?} vs {:?}", rx.0, rf.0), sc.to_json());
    }
    rep.count(&format!("1d:{}", match &rf.0 { BuildOut::Built => "Ok".to_string(), BuildOut::Err(k) => k.to_string(), BuildOut::Panic(_) => "panic".into() }));
    let term = format!("({}, {})", sc.to_coq(&xq), outs_coq(&rx.0, &rx.1, &|v| v.to_coq_xq()));
    rep.coq_case(kind, term, obj(vec![("scenario", sc.to_json()), ("case", s(label))]));
}

pub fn run(cfg: &Cfg) {
    let mut rep = Report::new("C10", &cfg.out);
    let k1 = rep.kind("scen1_ok_xq", "(scen1 xq * (bout * list (rout xq)))");
    let k2 = rep.kind("scen2_ok_xq", "(scen2 xq * (bout * list (rout xq)))");
    rep.shard_size = 0;
    let mut rng = Rng::new(cfg.seed);
    let thorough = cfg.tier == "thorough";

    // ---------------- 1-D ----------------
    for (sname, min) in [("linear", 2usize), ("spline", 3usize)] {
        for n in 0..=(min + 2) {
            for trail in [vec![], vec![2usize]] {
                let lanes: usize = trail.iter().product();
                let rows: Vec<Vec<f64>> = (0..n).map(|i| (0..lanes).map(|l| (i * 3 + l) as f64 * 0.5 - 1.0).collect()).collect();
                // axis: default, and explicit of length n-1, n, n+1 with every order pattern
                let mut axes: Vec<(String, Option<Vec<f64>>)> = vec![("default".into(), None)];
                for len in [n.saturating_sub(1), n, n + 1] {
                    for (pn, a) in axis_patterns(len) {
                        axes.push((format!("len{}:{}", len, pn), Some(a)));
                    }
                }
                for (an, ax) in axes {
                    let strats: Vec<(String, Strat1)> = if sname == "linear" {
                        vec![("Linear".into(), Strat1::Linear)]
                    } else {
                        let mut v = vec![("NotAKnot".to_string(), Strat1::Spline(Bc::NotAKnot))];
                        // boundary array shapes: ok, wrong leading, wrong trailing, wrong rank
                        let mut ok_shape = vec![1];
                        ok_shape.extend_from_slice(&trail);
                        let mut shapes = vec![("bc-ok".to_string(), ok_shape.clone())];
                        let mut wl = ok_shape.clone();
                        wl[0] = 2;
                        shapes.push(("bc-wrong-leading".into(), wl));
                        if !trail.is_empty() {
                            let mut wt = ok_shape.clone();
                            let last = wt.len() - 1;
                            wt[last] += 1;
                            shapes.push(("bc-wrong-trailing".into(), wt));
                        }
                        // a wrong rank is only expressible with dynamic dimensions (which the runner uses)
                        let mut wr = ok_shape.clone();
                        wr.push(1);
                        shapes.push(("bc-wrong-rank".into(), wr));
                        for (shn, sh) in shapes {
                            let count: usize = sh.iter().product();
                            v.push((format!("Individual:{}", shn), Strat1::Spline(Bc::Individual(vec![RowBc::Natural; count], sh))));
                        }
                        v.push(("Periodic:equal-ends".into(), Strat1::Spline(Bc::Periodic)));
                        v.push(("Periodic:unequal-ends".into(), Strat1::Spline(Bc::Periodic)));
                        v.push(("Periodic:unequal-ends-first-lane".into(), Strat1::Spline(Bc::Periodic)));
                        v
                    };
                    // keep the quick tier's table to the rows where something can differ
                    for (stn, st) in strats {
                        let mut r = rows.clone();
                        if stn == "Periodic:equal-ends" && n >= 1 {
                            r[n - 1] = r[0].clone();
                        }
                        if stn == "Periodic:unequal-ends" && n >= 1 && lanes >= 1 {
                            r[n - 1] = r[0].clone();
                            let ll = lanes - 1;
                            r[n - 1][ll] += 1.0; // differs in one lane only
                        }
                        if stn == "Periodic:unequal-ends-first-lane" {
                            if n >= 1 && lanes >= 2 {
                                r[n - 1] = r[0].clone();
                                r[n - 1][0] += 1.0; // differs in the FIRST lane only
                            } else {
                                continue;
                            }
                        }
                        let wrong_rank = stn.contains("wrong-rank");
                        let sc = Scen1 { strat: st, ext: false, ax: ax.clone(), rows: r, trail: trail.clone(), queries: vec![] };
                        if wrong_rank {
                            // IxDyn data with a boundary array of another rank
                        }
                        if !thorough && an.contains("swap") && stn.starts_with("Individual") { continue; }
                        check_one(&mut rep, k1, &sc, min, &format!("{} n={} axis={} {}", sname, n, an, stn));
                    }
                }
            }
        }
    }

    // dynamic-rank data of too small rank: must be a ShapeError, not a panic
    {
        let d0: ArrayD<f64> = ArrayD::from_elem(IxDyn(&[]), 1.0);
        let r = catch_unwind(AssertUnwindSafe(|| Interp1DBuilder::new(d0.clone()).build().map(|_| ()).map_err(|e| bkind(&e))));
        rep.evaluations += 1;
        rep.count("1d:rank0-dyn");
        if !matches!(r, Ok(Err("ShapeError"))) {
            rep.fail(&format!("1-D builder on rank-0 dynamic data: {:?} (expected Err(ShapeError))", r.as_ref().map_err(|_| "panic")), J::Null);
        }
        let r = catch_unwind(AssertUnwindSafe(|| Interp1DBuilder::new(d0.clone()).strategy(Linear::new().extrapolate(true)).build().map(|_| ()).map_err(|e| bkind(&e))));
        if !matches!(r, Ok(Err("ShapeError"))) { rep.fail("1-D builder (extrapolating Linear) on rank-0 dynamic data did not return ShapeError", J::Null); }
        let r = catch_unwind(AssertUnwindSafe(|| Interp1DBuilder::new(d0.clone()).strategy(CubicSpline::new()).build().map(|_| ()).map_err(|e| bkind(&e))));
        if !matches!(r, Ok(Err("ShapeError"))) { rep.fail("1-D builder (CubicSpline) on rank-0 dynamic data did not return ShapeError", J::Null); }
        for shape in [vec![], vec![3usize]] {
            let d: ArrayD<f64> = ArrayD::from_elem(IxDyn(&shape), 1.0);
            let r = catch_unwind(AssertUnwindSafe(|| Interp2DBuilder::new(d).build().map(|_| ()).map_err(|e| bkind(&e))));
            rep.evaluations += 1;
            rep.count("2d:rank<2-dyn");
            if !matches!(r, Ok(Err("ShapeError"))) {
                rep.fail(&format!("2-D builder on dynamic data of rank {}: {:?} (expected Err(ShapeError))", shape.len(), r.as_ref().map_err(|_| "panic")), J::Null);
            }
        }
    }

    // ---------------- 2-D ----------------
    let lens: Vec<usize> = if thorough { vec![0, 1, 2, 3, 4] } else { vec![0, 1, 2, 3] };
    for &nx in &lens {
        for &ny in &lens {
            let cells: Vec<Vec<Vec<f64>>> = (0..nx).map(|i| (0..ny).map(|j| vec![(i * 2 + j) as f64]).collect()).collect();
            let mut xaxes: Vec<(String, Option<Vec<f64>>)> = vec![("default".into(), None)];
            let mut yaxes: Vec<(String, Option<Vec<f64>>)> = vec![("default".into(), None)];
            for len in [nx.saturating_sub(1), nx, nx + 1] { for (pn, a) in axis_patterns(len) { xaxes.push((format!("len{}:{}", len, pn), Some(a))); } }
            for len in [ny.saturating_sub(1), ny, ny + 1] { for (pn, a) in axis_patterns(len) { yaxes.push((format!("len{}:{}", len, pn), Some(a))); } }
            for (xn, xa) in &xaxes {
                for (yn, ya) in &yaxes {
                    // x and y independently; in the quick tier subsample the cross product
                    if !thorough && xn != "default" && yn != "default" && !rng.chance(1, 6) { continue; }
                    if ny == 0 && nx > 0 {
                        // ndarray cannot tell ny from an empty nested vec: shape handled by make_data
                    }
                    let sc = Scen2 { ext: false, xax: xa.clone(), yax: ya.clone(), cells: cells.clone(), trail: vec![], queries: vec![] };
                    if nx > 0 && ny == 0 { continue; } // Scen2 cannot carry (nx, 0): covered by the rank/length cases above
                    arena_reset();
                    let rx = sc.run::<XRat>();
                    let rf = sc.run::<f64>();
                    rep.eval(Some(&format!("{:?}", sc)));
                    rep.evaluations += 1;
                    let (xv, yv) = (sc.xvals(), sc.yvals());
                    let mut violated = vec![];
                    if nx < 2 || ny < 2 { violated.push("NotEnoughData"); }
                    if xv.len() != nx || yv.len() != sc.ny() { violated.push("ShapeError"); }
                    if !strictly_increasing(&xv) || !strictly_increasing(&yv) { violated.push("NotMonotonic"); }
                    for (name, res) in [("exact", &rx.0), ("f64", &rf.0)] {
                        match res {
                            BuildOut::Built => if !violated.is_empty() { rep.fail(&format!("2-D {}: build succeeded although {:?} is violated", name, violated), sc.to_json()); },
                            BuildOut::Err(k) => {
                                if violated.is_empty() { rep.fail(&format!("2-D {}: valid input rejected with {}", name, k), sc.to_json()); }
                                else if !violated.contains(k) { rep.fail(&format!("2-D {}: error kind {} names no violated requirement ({:?})", name, k, violated), sc.to_json()); }
                            }
                            BuildOut::Panic(m) => rep.fail(&format!("2-D {}: build panicked: {}", name, m.chars().take(80).collect::<String>()), sc.to_json()),
                        }
                    }
                    if rx.0 != rf.0 { rep.fail("2-D: exact and f64 runs disagree on the build outcome", sc.to_json()); }
                    rep.count(&format!("2d:{}", match &rf.0 { BuildOut::Built => "Ok".to_string(), BuildOut::Err(k) => k.to_string(), BuildOut::Panic(_) => "panic".into() }));
                    let term = format!("({}, {})", sc.to_coq(&xq), outs_coq(&rx.0, &rx.1, &|v| v.to_coq_xq()));
                    rep.coq_case(k2, term, sc.to_json());
                }
            }
        }
    }
    rep.sample(obj(vec![("table", s("strategy x data length 0..min+2 x trailing shape x axis {default, length n-1/n/n+1 with increasing / tie / swap / NaN at every position / decreasing / inf} x boundary array shape x periodic ends"))]));
    rep.finish("the decision table is ENUMERATED, not sampled: 1-D strategy {Linear, CubicSpline NotAKnot / Individual with ok, wrong-leading, wrong-trailing, wrong-rank boundary arrays / Periodic with equal or unequal ends} x data length 0..min+2 x trailing shape {(), (2)} x axis {default, explicit of length n-1, n, n+1 with increasing, tie / swap / NaN at every position, decreasing, inf}; dynamic data of rank 0 (1-D) and rank 0, 1 (2-D); 2-D: nx, ny in 0..3 (thorough 0..4) with the same axis patterns for x and y independently (quick: cross product subsampled 1/6); f64 and exact runs against the validity predicate and the model in Coq");
}
