//! Spline properties (C02, C03, C07, C15, C16 and the spline part of C06).
use crate::out::Report;
use crate::rng::Rng;

pub fn c06_spline(_rep: &mut Report, _rng: &mut Rng, _thorough: bool, _ncases: usize) {}
