//! Spline properties: C02 (interpolates, piecewise cubic, C2), C03 (boundary conditions),
//! C16 (polynomial reproduction), C07 (periodicity), C15 (units / linearity), the spline part
//! of C06.  Every oracle works on the implementation's own exact (XRat) outputs.
use crate::gen::*;
use crate::json::{obj, s, J};
use crate::lin::{bracket_scan, eps32, eps64, vals, vmax, within};
use crate::out::Report;
use crate::rng::Rng;
use crate::scen::*;
use crate::xrat::{arena_reset, Val, XRat};
use crate::Cfg;
use ndarray::{Array1, IxDyn};
use ndarray_interp::interp1d::cubic_spline::{BoundaryCondition, CubicSpline, RowBoundary};
use ndarray_interp::interp1d::Interp1DBuilder;
use std::panic::{catch_unwind, AssertUnwindSafe};

// ---------------------------------------------------------------- exact linear algebra
/// solve a small dense system exactly (Gaussian elimination with row swaps)
pub fn solve_linear(mut a: Vec<Vec<Val>>, mut b: Vec<Val>) -> Option<Vec<Val>> {
    let n = b.len();
    for c in 0..n {
        let p = (c..n).find(|&r| a[r][c].sign() != 0)?;
        a.swap(c, p);
        b.swap(c, p);
        for r in (c + 1)..n {
            if a[r][c].sign() == 0 {
                continue;
            }
            let f = a[r][c].div(&a[c][c]);
            for k in c..n {
                let t = a[c][k].mul(&f);
                a[r][k] = a[r][k].sub(&t);
            }
            let t = b[c].mul(&f);
            b[r] = b[r].sub(&t);
        }
    }
    let mut x = vec![Val::int(0); n];
    for r in (0..n).rev() {
        let mut acc = b[r].clone();
        for k in (r + 1)..n {
            acc = acc.sub(&a[r][k].mul(&x[k]));
        }
        x[r] = acc.div(&a[r][r]);
    }
    Some(x)
}

/// coefficients c0..c3 of the cubic in u through four points (u_k, v_k)
pub fn fit_cubic(pts: &[(Val, Val)]) -> Option<Vec<Val>> {
    let a: Vec<Vec<Val>> = pts.iter().map(|(u, _)| vec![Val::int(1), u.clone(), u.mul(u), u.mul(u).mul(u)]).collect();
    let b: Vec<Val> = pts.iter().map(|(_, v)| v.clone()).collect();
    solve_linear(a, b)
}
pub fn poly_eval(c: &[Val], u: &Val) -> Val {
    let mut acc = Val::int(0);
    for k in (0..c.len()).rev() {
        acc = acc.mul(u).add(&c[k]);
    }
    acc
}
pub fn poly_d1(c: &[Val], u: &Val) -> Val {
    // c1 + 2 c2 u + 3 c3 u^2
    c[1].add(&c[2].mul(&Val::int(2)).mul(u)).add(&c[3].mul(&Val::int(3)).mul(u).mul(u))
}
pub fn poly_d2(c: &[Val], u: &Val) -> Val {
    c[2].mul(&Val::int(2)).add(&c[3].mul(&Val::int(6)).mul(u))
}

// ---------------------------------------------------------------- generation

pub fn gen_single(rng: &mut Rng) -> Single {
    match rng.below(5) {
        0 => Single::NotAKnot,
        1 => Single::Natural,
        2 => Single::Clamped,
        3 => Single::FirstDeriv(rng.range(-24, 24) as f64 * 0.25),
        _ => Single::SecondDeriv(rng.range(-24, 24) as f64 * 0.25),
    }
}
pub fn gen_rowbc(rng: &mut Rng) -> RowBc {
    match rng.below(6) {
        0 => RowBc::NotAKnot,
        1 => RowBc::Natural,
        2 => RowBc::Clamped,
        _ => RowBc::Mixed(gen_single(rng), gen_single(rng)),
    }
}
pub fn gen_bc(rng: &mut Rng, trail: &[usize], allow_periodic: bool) -> Bc {
    let lanes: usize = trail.iter().product();
    match rng.below(8) {
        0 => Bc::NotAKnot,
        1 => Bc::Natural,
        2 => Bc::Clamped,
        3 if allow_periodic => Bc::Periodic,
        _ => {
            let mut shape = vec![1];
            shape.extend_from_slice(trail);
            // one time in three every lane is a Mixed row (same variant, different payloads): lanes must still
            // get their OWN conditions
            if rng.chance(1, 3) {
                Bc::Individual((0..lanes).map(|_| RowBc::Mixed(gen_single(rng), gen_single(rng))).collect(), shape)
            } else {
                Bc::Individual((0..lanes).map(|_| gen_rowbc(rng)).collect(), shape)
            }
        }
    }
}

pub struct SplineOpts {
    pub nmax: usize,
    pub ext: bool,
    pub allow_periodic: bool,
    pub force_bc: Option<Bc>,
    pub outside: bool,
}

/// the per-lane (left, right) single conditions a Bc denotes (None = Periodic)
pub fn lane_conditions(bc: &Bc, lane: usize) -> Option<(Single, Single)> {
    let row = |rb: &RowBc| match rb {
        RowBc::NotAKnot => (Single::NotAKnot, Single::NotAKnot),
        RowBc::Natural => (Single::Natural, Single::Natural),
        RowBc::Clamped => (Single::Clamped, Single::Clamped),
        RowBc::Mixed(l, r) => (l.clone(), r.clone()),
    };
    match bc {
        Bc::NotAKnot => Some((Single::NotAKnot, Single::NotAKnot)),
        Bc::Natural => Some((Single::Natural, Single::Natural)),
        Bc::Clamped => Some((Single::Clamped, Single::Clamped)),
        Bc::Periodic => None,
        Bc::Individual(v, _) => Some(row(&v[lane])),
    }
}

pub fn gen_spline_scen(rng: &mut Rng, o: &SplineOpts) -> (Scen1, String) {
    let n = match rng.below(6) {
        0 => 3,
        1 => 4,
        2 => 5,
        _ => rng.range(3, o.nmax as i64) as usize,
    };
    let default_axis = rng.chance(1, 6);
    let (axv, class) = if default_axis { ((0..n).map(|i| i as f64).collect::<Vec<_>>(), "default-axis") } else { gen_spline_axis(rng, n) };
    let trail = gen_trail(rng);
    let lanes: usize = trail.iter().product();
    let mut rows = gen_rows(rng, n, lanes, true);
    let bc = o.force_bc.clone().unwrap_or_else(|| gen_bc(rng, &trail, o.allow_periodic));
    let bc = match bc {
        Bc::Individual(_, _) if o.force_bc.is_some() => bc,
        b => b,
    };
    if bc == Bc::Periodic {
        rows[n - 1] = rows[0].clone();
    }
    // 5 abscissae per interval (the oracle uses whatever abscissae it gets)
    let mut queries = vec![];
    for w in axv.windows(2) {
        let hh = w[1] - w[0];
        for t in [0.0, 0.25, 0.5, 0.75, 1.0] {
            let q = w[0] + hh * t;
            if q >= axv[0] && q <= axv[n - 1] {
                queries.push(q);
            }
        }
    }
    if o.outside {
        let span = axv[n - 1] - axv[0];
        for k in [0.125, 0.5, 1.0, 3.0] {
            queries.push(axv[0] - span * k);
            queries.push(axv[n - 1] + span * k);
        }
        queries.push(next_down(axv[0]));
        queries.push(next_up(axv[n - 1]));
    }
    let sc = Scen1 { strat: Strat1::Spline(bc), ext: o.ext, ax: if default_axis { None } else { Some(axv) }, rows, trail, queries };
    (sc, class.to_string())
}

/// coefficient arrays a, b (rows x lanes) read through the cfg hook
pub fn spline_coeffs<E: Elem>(sc: &Scen1) -> Option<(Vec<Vec<Val>>, Vec<Vec<Val>>)> {
    let bc = match &sc.strat {
        Strat1::Spline(b) => b.clone(),
        _ => return None,
    };
    let r = catch_unwind(AssertUnwindSafe(|| {
        let data = make_data::<E>(&sc.rows, &sc.trail);
        let boundary: BoundaryCondition<E, IxDyn> = match &bc {
            Bc::NotAKnot => BoundaryCondition::NotAKnot,
            Bc::Natural => BoundaryCondition::Natural,
            Bc::Clamped => BoundaryCondition::Clamped,
            Bc::Periodic => BoundaryCondition::Periodic,
            Bc::Individual(rbs, shape) => {
                let one = Scen1 { strat: Strat1::Linear, ext: false, ax: None, rows: vec![], trail: vec![], queries: vec![] };
                let _ = one;
                let v: Vec<RowBoundary<E>> = rbs.iter().map(crate::scen::rowbc_pub::<E>).collect();
                BoundaryCondition::Individual(ndarray::ArrayD::from_shape_vec(IxDyn(shape), v).unwrap())
            }
        };
        let strat = crate::scen::configure_spline(sc.ext, boundary);
        let x = Array1::from(sc.axis_vals().iter().map(|&v| E::of_f64(v)).collect::<Vec<_>>());
        let interp = Interp1DBuilder::new(data).x(x).strategy(strat).build().ok()?;
        let (a, b) = interp.verif_strategy().verif_coefficients();
        let lanes = sc.lanes();
        let conv = |arr: &ndarray::ArrayD<E>| -> Vec<Vec<Val>> {
            let flat: Vec<Val> = arr.iter().map(|v| v.to_val()).collect();
            if lanes == 0 { vec![vec![]; arr.shape()[0]] } else { flat.chunks(lanes).map(|c| c.to_vec()).collect() }
        };
        Some((conv(a), conv(b)))
    }));
    r.ok().flatten()
}

fn rows_coq(rows: &[Vec<Val>]) -> String {
    format!("[{}]", rows.iter().map(|r| format!("[{}]", r.iter().map(|v| v.to_coq_qc()).collect::<Vec<_>>().join("; "))).collect::<Vec<_>>().join("; "))
}

pub fn add_spline_coq(rep: &mut Report, kind: usize, sc: &Scen1, rx: &(BuildOut, Vec<Out>)) {
    // Evaluating the model in Coq over exact rationals costs roughly n^3 * lanes with growing numerators; the
    // thorough tier's large systems are therefore sent to Coq only one in twelve (all of them are still checked
    // exactly by the harness's own oracles), small ones always.
    {
        use std::sync::atomic::{AtomicUsize, Ordering};
        static LARGE: AtomicUsize = AtomicUsize::new(0);
        let weight = sc.n() * sc.n() * sc.lanes().max(1);
        if sc.n() > 14 || weight > 600 {
            let k = LARGE.fetch_add(1, Ordering::Relaxed);
            if k % 12 != 0 || sc.n() > 28 {
                rep.count("model-in-coq:skipped-large-system");
                return;
            }
            rep.count("model-in-coq:large-system");
        }
    }
    let (a, b) = spline_coeffs::<XRat>(sc).unwrap_or((vec![], vec![]));
    let term = format!("({}, {}, ({}, {}))", sc.to_coq(&qc), outs_coq(&rx.0, &rx.1, &|v| v.to_coq_qc()), rows_coq(&a), rows_coq(&b));
    rep.coq_case(kind, term, sc.to_json());
}

pub const SPLINE_KIND: (&str, &str) = ("spline_ok_qc", "(scen1 Qc * (bout * list (rout Qc)) * (list (list Qc) * list (list Qc)))");

// ---------------------------------------------------------------- oracles on exact outputs

/// per lane and interval: the cubic (in u = x - x_i) fitted through the implementation's own
/// exact samples; None if the samples of an interval are not on one cubic
pub struct Pieces {
    pub coef: Vec<Vec<Vec<Val>>>, // [interval][lane] -> c0..c3
}

/// value of the exact output at query index qi, lane l
fn outv(rx: &[Out], qi: usize, l: usize) -> Option<Val> {
    match rx.get(qi) {
        Some(Out::Ok(v)) => v.get(l).cloned(),
        _ => None,
    }
}

pub fn fit_pieces(sc: &Scen1, rx: &[Out]) -> Result<Pieces, String> {
    let ax = vals(&sc.axis_vals());
    let n = ax.len();
    let lanes = sc.lanes();
    let qv: Vec<Val> = sc.queries.iter().map(|&q| Val::from_f64(q)).collect();
    let mut coef = vec![];
    for i in 0..(n - 1) {
        // queries inside [x_i, x_i+1]
        let idxs: Vec<usize> = (0..qv.len()).filter(|&k| ax[i].le(&qv[k]) && qv[k].le(&ax[i + 1])).collect();
        // distinct abscissae
        let mut uniq: Vec<usize> = vec![];
        for &k in &idxs {
            if !uniq.iter().any(|&j| qv[j] == qv[k]) {
                uniq.push(k);
            }
        }
        if uniq.len() < 5 {
            return Err(format!("interval {} has fewer than 5 samples", i));
        }
        let mut per_lane = vec![];
        for l in 0..lanes {
            let pts: Vec<(Val, Val)> = uniq.iter().map(|&k| (qv[k].sub(&ax[i]), outv(rx, k, l).unwrap_or(Val::NaN))).collect();
            if pts.iter().any(|p| !p.1.is_fin()) {
                return Err(format!("interval {} lane {}: a sample is not a finite number", i, l));
            }
            let c = fit_cubic(&[pts[0].clone(), pts[1].clone(), pts[2].clone(), pts[4].clone()]).ok_or("singular fit")?;
            for p in &pts {
                if poly_eval(&c, &p.0) != p.1 {
                    return Err(format!("interval {} lane {}: samples are not on one cubic polynomial", i, l));
                }
            }
            per_lane.push(c);
        }
        coef.push(per_lane);
    }
    Ok(Pieces { coef })
}

/// C02: knot values, C1, C2 at interior knots
pub fn check_c02(sc: &Scen1, p: &Pieces) -> Result<(), String> {
    let ax = vals(&sc.axis_vals());
    let n = ax.len();
    for l in 0..sc.lanes() {
        for i in 0..(n - 1) {
            let hh = ax[i + 1].sub(&ax[i]);
            let c = &p.coef[i][l];
            if poly_eval(c, &Val::int(0)) != Val::from_f64(sc.rows[i][l]) || poly_eval(c, &hh) != Val::from_f64(sc.rows[i + 1][l]) {
                return Err(format!("lane {}: piece {} does not pass through its two data points", l, i));
            }
            if i + 2 < n {
                let c2 = &p.coef[i + 1][l];
                if poly_d1(c, &hh) != poly_d1(c2, &Val::int(0)) {
                    return Err(format!("lane {}: first derivative jumps at knot {}", l, i + 1));
                }
                if poly_d2(c, &hh) != poly_d2(c2, &Val::int(0)) {
                    return Err(format!("lane {}: second derivative jumps at knot {}", l, i + 1));
                }
            }
        }
    }
    Ok(())
}

/// C03: the selected end conditions
pub fn check_c03(sc: &Scen1, p: &Pieces) -> Result<(), String> {
    let bc = match &sc.strat {
        Strat1::Spline(b) => b,
        _ => return Ok(()),
    };
    let ax = vals(&sc.axis_vals());
    let n = ax.len();
    let zero = Val::int(0);
    for l in 0..sc.lanes() {
        let first = &p.coef[0][l];
        let last = &p.coef[n - 2][l];
        let hl = ax[n - 1].sub(&ax[n - 2]);
        match lane_conditions(bc, l) {
            None => {
                if poly_d1(first, &zero) != poly_d1(last, &hl) {
                    return Err(format!("lane {}: Periodic but S' differs at the two ends", l));
                }
                if poly_d2(first, &zero) != poly_d2(last, &hl) {
                    return Err(format!("lane {}: Periodic but S'' differs at the two ends", l));
                }
            }
            Some((left, right)) => {
                let chk = |side: &str, cond: &Single, d1: Val, d2: Val, c3a: &Val, c3b: &Val| -> Result<(), String> {
                    match cond {
                        Single::Natural if d2 != zero => Err(format!("lane {}: {} Natural but S'' = {}", l, side, d2.to_text())),
                        Single::Clamped if d1 != zero => Err(format!("lane {}: {} Clamped but S' = {}", l, side, d1.to_text())),
                        Single::FirstDeriv(v) if d1 != Val::from_f64(*v) => Err(format!("lane {}: {} FirstDeriv({}) but S' = {}", l, side, v, d1.to_text())),
                        Single::SecondDeriv(v) if d2 != Val::from_f64(*v) => Err(format!("lane {}: {} SecondDeriv({}) but S'' = {}", l, side, v, d2.to_text())),
                        Single::NotAKnot if c3a != c3b => Err(format!("lane {}: {} NotAKnot but the third derivative jumps at the neighbouring knot", l, side)),
                        _ => Ok(()),
                    }
                };
                if n == 3 && left == Single::NotAKnot && right == Single::NotAKnot {
                    if first[3] != zero || last[3] != zero {
                        return Err(format!("lane {}: 3 points, NotAKnot on both ends, but the pieces are not one parabola", l));
                    }
                }
                let second = &p.coef[1.min(n - 2)][l];
                let before_last = &p.coef[(n - 2).saturating_sub(1)][l];
                chk("left", &left, poly_d1(first, &zero), poly_d2(first, &zero), &first[3], &second[3])?;
                chk("right", &right, poly_d1(last, &hl), poly_d2(last, &hl), &last[3], &before_last[3])?;
            }
        }
    }
    Ok(())
}

/// scale for float comparisons: max|y| + span * |first-derivative values| + span^2 * |second..|
fn spline_scale(sc: &Scen1) -> Val {
    let mut m = Val::int(1);
    for r in &sc.rows {
        for &v in r {
            m = vmax(&m, &Val::from_f64(v).abs());
        }
    }
    let ax = sc.axis_vals();
    let span = Val::from_f64(ax[ax.len() - 1] - ax[0]);
    if let Strat1::Spline(Bc::Individual(rbs, _)) = &sc.strat {
        for rb in rbs {
            if let RowBc::Mixed(a, b) = rb {
                for sb in [a, b] {
                    match sb {
                        Single::FirstDeriv(v) => m = vmax(&m, &Val::from_f64(*v).abs().mul(&span)),
                        Single::SecondDeriv(v) => m = vmax(&m, &Val::from_f64(*v).abs().mul(&span).mul(&span)),
                        _ => {}
                    }
                }
            }
        }
    }
    m
}

/// f64 / f32 runs follow the exact run (values within a loose relative bound; discrete outcome equal)
pub fn check_float_follows(rep: &mut Report, sc: &Scen1, rx: &(BuildOut, Vec<Out>), what: &str) {
    let scale = spline_scale(sc);
    let ax = sc.axis_vals();
    let span = ax[ax.len() - 1] - ax[0];
    for (name, res, tol) in [("f64", sc.run::<f64>(), Val::from_f64((2.0f64).powi(-30))), ("f32", sc.run::<f32>(), Val::from_f64((2.0f64).powi(-10)))] {
        rep.evaluations += 1;
        if res.0 != rx.0 {
            rep.fail(&format!("{} {}: build outcome {:?} differs from the exact run's {:?}", what, name, res.0, rx.0), sc.to_json());
            continue;
        }
        for (qi, o) in res.1.iter().enumerate() {
            match (o, &rx.1[qi]) {
                (Out::Ok(v), Out::Ok(w)) => {
                    // extrapolated values grow like distance^3
                    let q = sc.queries[qi];
                    // ... measured in widths of the END interval: the end cubic is a polynomial in (q - x_i) / h_i, so
                    // rounding errors of its coefficients are magnified by (distance / h_end)^3, not (distance / span)^3
                    let (h0, hn) = (ax[1] - ax[0], ax[ax.len() - 1] - ax[ax.len() - 2]);
                    let _ = span;
                    let dist = if q < ax[0] { (ax[0] - q) / h0 } else if q > ax[ax.len() - 1] { (q - ax[ax.len() - 1]) / hn } else { 0.0 };
                    let grow = Val::from_f64((1.0 + dist).powi(3).ceil());
                    for l in 0..w.len() {
                        let b = tol.mul(&scale).mul(&grow).add(&tol.mul(&w[l].abs()));
                        if !within(&v[l], &w[l], &b) {
                            rep.fail(&format!("{} {}: value differs from the exact spline by more than the rounding bound", what, name),
                                     obj(vec![("scenario", sc.to_json()), ("query", s(format!("{:?}", q))), ("got", s(v[l].to_text())), ("exact", s(w[l].to_text()))]));
                            return;
                        }
                    }
                }
                (Out::Oob, Out::Oob) => {}
                (a, b) => {
                    rep.fail(&format!("{} {}: outcome {:?} but the exact run gives {:?}", what, name, a, b), sc.to_json());
                    return;
                }
            }
        }
    }
    let _ = (eps32(), eps64());
}

fn bc_label(bc: &Bc) -> String {
    match bc {
        Bc::Individual(v, _) => {
            if v.iter().any(|r| matches!(r, RowBc::Mixed(..))) { "Individual(Mixed)".into() } else { "Individual".into() }
        }
        b => format!("{:?}", b),
    }
}

/// shared by C02 / C03: generated scenarios, all boundary kinds
fn run_c02_c03(cfg: &Cfg, prop: &str) {
    let mut rep = Report::new(prop, &cfg.out);
    let kind = rep.kind(SPLINE_KIND.0, SPLINE_KIND.1);
    rep.shard_size = 0;
    let mut rng = Rng::new(cfg.seed ^ if prop == "C03" { 0x33 } else { 0 });
    let thorough = cfg.tier == "thorough";
    let mut cases: Vec<(Scen1, String)> = vec![];
    // regression corpus first: the non-uniform axis on which the right NotAKnot row was wrong
    {
        let axv = vec![0.0, 1.0, 3.0, 4.0, 8.0];
        let cubic = |x: f64| 1.0 + 2.0 * x - 0.5 * x * x + 0.25 * x * x * x;
        let rows = axv.iter().map(|&x| vec![cubic(x)]).collect();
        let mut queries = vec![];
        for w in axv.windows(2) {
            for t in [0.0, 0.25, 0.5, 0.75, 1.0] {
                queries.push(w[0] + (w[1] - w[0]) * t);
            }
        }
        cases.push((Scen1 { strat: Strat1::Spline(Bc::NotAKnot), ext: false, ax: Some(axv), rows, trail: vec![], queries }, "corpus:F1".into()));
    }
    if prop == "C03" {
        // every ordered pair (left, right) of the five single-end conditions, n = 3, 4, 6
        let singles = |rng: &mut Rng| vec![Single::NotAKnot, Single::Natural, Single::Clamped,
                                           Single::FirstDeriv(rng.range(-8, 8) as f64 * 0.5), Single::SecondDeriv(rng.range(-8, 8) as f64 * 0.5)];
        for &n in &[3usize, 4, 6] {
            let ls = singles(&mut rng);
            for l in &ls {
                let rs = singles(&mut rng);
                for r in &rs {
                    let bc = Bc::Individual(vec![RowBc::Mixed(l.clone(), r.clone())], vec![1]);
                    let o = SplineOpts { nmax: n, ext: false, allow_periodic: false, force_bc: Some(bc.clone()), outside: false };
                    let (mut sc, class) = gen_spline_scen(&mut rng, &o);
                    // force n and a single lane
                    let (axv, _) = gen_spline_axis(&mut rng, n);
                    sc.rows = gen_rows(&mut rng, n, 1, true);
                    sc.trail = vec![];
                    sc.strat = Strat1::Spline(Bc::Individual(vec![RowBc::Mixed(l.clone(), r.clone())], vec![1]));
                    sc.queries.clear();
                    for w in axv.windows(2) {
                        for t in [0.0, 0.25, 0.5, 0.75, 1.0] {
                            sc.queries.push(w[0] + (w[1] - w[0]) * t);
                        }
                    }
                    sc.ax = Some(axv);
                    cases.push((sc, format!("pair:{}", class)));
                }
            }
        }
    }
    let nrand = if thorough { 2000 } else { 260 };
    let o = SplineOpts { nmax: if thorough { 40 } else { 12 }, ext: false, allow_periodic: true, force_bc: None, outside: false };
    for _ in 0..nrand {
        cases.push(gen_spline_scen(&mut rng, &o));
    }
    for (ci, (sc, class)) in cases.iter().enumerate() {
        let bc = match &sc.strat { Strat1::Spline(b) => b.clone(), _ => unreachable!() };
        rep.count(&format!("axis:{}", class));
        rep.count(&format!("bc:{}", bc_label(&bc)));
        rep.count(&format!("n:{}", match sc.n() { 3 => "3", 4 => "4", 5..=8 => "5-8", 9..=16 => "9-16", _ => "17+" }));
        rep.count(&format!("trailing_rank:{}", sc.trail.len()));
        arena_reset();
        let rx = sc.run::<XRat>();
        rep.eval(Some(&format!("{:?}", sc)));
        if rx.0 != BuildOut::Built {
            rep.fail(&format!("build failed on valid spline input: {:?}", rx.0), sc.to_json());
            continue;
        }
        match fit_pieces(sc, &rx.1) {
            Err(e) => rep.fail(&format!("exact run: {}", e), sc.to_json()),
            Ok(p) => {
                if let Err(e) = check_c02(sc, &p) {
                    if prop == "C02" { rep.fail(&format!("exact run: {}", e), sc.to_json()); }
                }
                if let Err(e) = check_c03(sc, &p) {
                    if prop == "C03" { rep.fail(&format!("exact run: {}", e), sc.to_json()); }
                }
            }
        }
        add_spline_coq(&mut rep, kind, sc, &rx);
        check_float_follows(&mut rep, sc, &rx, prop);
        if ci == 1 || ci == 40 {
            rep.sample(obj(vec![("scenario", sc.to_json()), ("exact_results_first3", J::A(rx.1.iter().take(3).map(out_json).collect()))]));
        }
    }
    periodic_partial_mismatch(&mut rep, &mut rng, thorough);
    rep.finish("cubic-spline scenarios: n = 3, 4, 5 and up to the tier's bound, axes unit / uniform / random / mesh ratio up to 64 / geometric / default, all boundary selections (NotAKnot, Natural, Clamped, Periodic, Individual with random Mixed pairs and derivative values; for C03 additionally every ordered pair of the five single-end conditions at n = 3, 4, 6), 0-3 trailing axes, 5 abscissae per interval; exact run: coefficients a,b and values compared with the model in Coq, oracle = cubic fitted through the implementation's own exact samples (on one cubic, knot values, S' and S'' continuous, end conditions); f64/f32 within 2^-30 / 2^-10 of the exact values; non-trivial = distinct scenario");
}

pub fn run_c02(cfg: &Cfg) {
    run_c02_c03(cfg, "C02");
}
pub fn run_c03(cfg: &Cfg) {
    run_c02_c03(cfg, "C03");
}

// ---------------------------------------------------------------- C06 spline part
pub fn c06_spline(rep: &mut Report, rng: &mut Rng, thorough: bool, ncases: usize) {
    let kind = rep.kind(SPLINE_KIND.0, SPLINE_KIND.1);
    let o = SplineOpts { nmax: if thorough { 16 } else { 8 }, ext: true, allow_periodic: false, force_bc: None, outside: true };
    for ci in 0..ncases {
        let (sc, class) = gen_spline_scen(rng, &o);
        rep.count(&format!("spline:{}", class));
        arena_reset();
        let rx = sc.run::<XRat>();
        rep.eval(Some(&format!("{:?}", sc)));
        if rx.0 != BuildOut::Built {
            rep.fail(&format!("build failed on valid spline input: {:?}", rx.0), sc.to_json());
            continue;
        }
        // the end cubics fitted from in-range samples, evaluated outside
        match fit_pieces(&sc, &rx.1) {
            Err(e) => rep.fail(&format!("exact run: {}", e), sc.to_json()),
            Ok(p) => {
                let ax = vals(&sc.axis_vals());
                let n = ax.len();
                for (qi, &q) in sc.queries.iter().enumerate() {
                    let qv = Val::from_f64(q);
                    let piece = if qv.lt(&ax[0]) { 0 } else if ax[n - 1].lt(&qv) { n - 2 } else { continue };
                    rep.count("spline:queries-outside");
                    for l in 0..sc.lanes() {
                        let want = poly_eval(&p.coef[piece][l], &qv.sub(&ax[piece]));
                        match &rx.1[qi] {
                            Out::Ok(v) if v[l] == want => {}
                            other => {
                                rep.fail("extrapolated value is not the end cubic evaluated at the query (exact run)",
                                         obj(vec![("scenario", sc.to_json()), ("query", s(format!("{:?}", q))), ("got", out_json(other)), ("want", s(want.to_text()))]));
                                break;
                            }
                        }
                    }
                }
            }
        }
        add_spline_coq(rep, kind, &sc, &rx);
        check_float_follows(rep, &sc, &rx, "C06 spline");
        // inside the range: bit-identical with extrapolation off (f64)
        let on = sc.run::<f64>();
        let mut offs = sc.clone();
        offs.ext = false;
        let off = offs.run::<f64>();
        let ax = sc.axis_vals();
        for (qi, &q) in sc.queries.iter().enumerate() {
            let inside = q >= ax[0] && q <= ax[ax.len() - 1];
            if inside && on.1.get(qi) != off.1.get(qi) {
                rep.fail("spline result inside the range differs between extrapolate(true) and extrapolate(false)", sc.to_json());
                break;
            }
            if !inside && off.1.get(qi) != Some(&Out::Oob) {
                rep.fail("spline: query outside the range answered without extrapolation", sc.to_json());
                break;
            }
        }
        if ci == 0 {
            rep.sample(obj(vec![("scenario", sc.to_json())]));
        }
    }
    let _ = bracket_scan;
}

// ---------------------------------------------------------------- C16: polynomial reproduction
fn poly3(c: &[f64; 4], x: f64) -> f64 {
    c[0] + x * (c[1] + x * (c[2] + x * c[3]))
}
fn poly3_val(c: &[f64; 4], x: &Val) -> Val {
    let cv: Vec<Val> = c.iter().map(|&v| Val::from_f64(v)).collect();
    poly_eval(&cv, x)
}
fn small_coef(rng: &mut Rng) -> f64 {
    rng.range(-12, 12) as f64 * 0.25
}
/// axis on a coarse dyadic grid so that cubic values are exact doubles
fn coarse_axis(rng: &mut Rng, n: usize) -> Vec<f64> {
    let mut cur = rng.range(-24, 8) as f64 * 0.25;
    let mut v = vec![];
    for _ in 0..n {
        v.push(cur);
        cur += match rng.below(4) { 0 => 0.25, 1 => 0.5, 2 => 1.0, _ => rng.range(1, 12) as f64 * 0.25 };
    }
    v
}
fn dense_queries(ax: &[f64], outside: bool) -> Vec<f64> {
    let mut q = vec![];
    for w in ax.windows(2) {
        for t in [0.0, 0.25, 0.5, 0.75, 1.0] {
            q.push(w[0] + (w[1] - w[0]) * t);
        }
    }
    if outside {
        let span = ax[ax.len() - 1] - ax[0];
        for k in [0.25, 1.0, 2.5] {
            q.push(ax[0] - span * k);
            q.push(ax[ax.len() - 1] + span * k);
        }
    }
    q
}

pub fn run_c16(cfg: &Cfg) {
    let mut rep = Report::new("C16", &cfg.out);
    let ks = rep.kind(SPLINE_KIND.0, SPLINE_KIND.1);
    let k1 = rep.kind("scen1_ok_qc", "(scen1 Qc * (bout * list (rout Qc)))");
    let k2 = rep.kind("scen2_ok_qc", "(scen2 Qc * (bout * list (rout Qc)))");
    rep.shard_size = 0;
    let mut rng = Rng::new(cfg.seed);
    let thorough = cfg.tier == "thorough";
    let ncases = if thorough { 4000 } else { 320 };
    for ci in 0..ncases {
        let which = ci % 8;
        let ext = rng.coin();
        // 0-2 trailing axes (square and non-square lane blocks: per-lane boundary arrays of rank 3)
        let trail: Vec<usize> = match rng.below(7) { 0 => vec![], 1 => vec![1], 2 => vec![2], 3 => vec![3], 4 => vec![2, 2], 5 => vec![2, 3], _ => vec![3, 2] };
        let lanes: usize = trail.iter().product();
        // per-lane polynomial
        let mut polys: Vec<[f64; 4]> = vec![];
        let (n, label): (usize, &str);
        let bc: Option<Bc>;
        match which {
            0 => { n = rng.range(2, 12) as usize; label = "linear-affine"; bc = None; for _ in 0..lanes { polys.push([small_coef(&mut rng), small_coef(&mut rng), 0.0, 0.0]); } }
            1 | 2 => { n = rng.range(4, if thorough { 24 } else { 12 }) as usize; label = "notaknot-cubic"; bc = Some(Bc::NotAKnot);
                       for _ in 0..lanes { polys.push([small_coef(&mut rng), small_coef(&mut rng), small_coef(&mut rng), small_coef(&mut rng)]); } }
            3 => { n = 3; label = "notaknot3-quadratic"; bc = Some(Bc::NotAKnot);
                   for _ in 0..lanes { polys.push([small_coef(&mut rng), small_coef(&mut rng), small_coef(&mut rng), 0.0]); } }
            4 => { n = rng.range(3, 12) as usize; label = "natural-affine"; bc = Some(Bc::Natural);
                   for _ in 0..lanes { polys.push([small_coef(&mut rng), small_coef(&mut rng), 0.0, 0.0]); } }
            5 | 6 => {
                n = rng.range(3, 12) as usize; label = "deriv-bc-cubic";
                for _ in 0..lanes { polys.push([small_coef(&mut rng), small_coef(&mut rng), small_coef(&mut rng), small_coef(&mut rng)]); }
                bc = Some(Bc::NotAKnot); // replaced below once the axis is known
            }
            _ => { n = 0; label = "bilinear"; bc = None; }
        }
        rep.count(label);
        if which == 7 {
            // bilinear function per lane
            let nx = rng.range(2, 7) as usize;
            let ny = rng.range(2, 7) as usize;
            let xa = coarse_axis(&mut rng, nx);
            let ya = coarse_axis(&mut rng, ny);
            let coefs: Vec<[f64; 4]> = (0..lanes).map(|_| [small_coef(&mut rng), small_coef(&mut rng), small_coef(&mut rng), small_coef(&mut rng)]).collect();
            let f = |c: &[f64; 4], x: f64, y: f64| c[0] + c[1] * x + c[2] * y + c[3] * x * y;
            let cells = xa.iter().map(|&x| ya.iter().map(|&y| coefs.iter().map(|c| f(c, x, y)).collect()).collect()).collect();
            let qx = dense_queries(&xa, ext);
            let qy = dense_queries(&ya, ext);
            let queries: Vec<(f64, f64)> = (0..qx.len().max(qy.len())).map(|i| (qx[i % qx.len()], qy[(i * 5 + 1) % qy.len()])).collect();
            let sc = Scen2 { ext, xax: Some(xa), yax: Some(ya), cells, trail: trail.clone(), queries };
            arena_reset();
            let rx = sc.run::<XRat>();
            rep.eval(Some(&format!("{:?}", sc)));
            for (qi, &(x, y)) in sc.queries.iter().enumerate() {
                let (xv, yv) = (Val::from_f64(x), Val::from_f64(y));
                let want: Vec<Val> = coefs.iter().map(|c| {
                    let cv: Vec<Val> = c.iter().map(|&v| Val::from_f64(v)).collect();
                    cv[0].add(&cv[1].mul(&xv)).add(&cv[2].mul(&yv)).add(&cv[3].mul(&xv).mul(&yv))
                }).collect();
                if rx.1.get(qi) != Some(&Out::Ok(want.clone())) {
                    rep.fail("Bilinear does not reproduce a bilinear function (exact run)",
                             obj(vec![("scenario", sc.to_json()), ("query", s(format!("{:?}", (x, y)))), ("got", rx.1.get(qi).map(out_json).unwrap_or(J::Null))]));
                    break;
                }
            }
            let term = format!("({}, {})", sc.to_coq(&qc), outs_coq(&rx.0, &rx.1, &|v| v.to_coq_qc()));
            rep.coq_case(k2, term, sc.to_json());
            continue;
        }
        let axv = coarse_axis(&mut rng, n);
        let rows: Vec<Vec<f64>> = axv.iter().map(|&x| polys.iter().map(|p| poly3(p, x)).collect()).collect();
        let strat = match (which, bc) {
            (0, _) => Strat1::Linear,
            (5, _) | (6, _) => {
                // boundary values taken from each lane's cubic, any mix with NotAKnot
                let d1 = |p: &[f64; 4], x: f64| p[1] + 2.0 * p[2] * x + 3.0 * p[3] * x * x;
                let d2 = |p: &[f64; 4], x: f64| 2.0 * p[2] + 6.0 * p[3] * x;
                let (x0, xn) = (axv[0], axv[n - 1]);
                let per: Vec<RowBc> = polys.iter().map(|p| {
                    let mut side = |x: f64, rng: &mut Rng| match rng.below(4) {
                        0 => Single::FirstDeriv(d1(p, x)),
                        1 => Single::SecondDeriv(d2(p, x)),
                        _ => Single::NotAKnot,
                    };
                    let mut l = side(x0, &mut rng);
                    let r = side(xn, &mut rng);
                    if n == 3 && l == Single::NotAKnot && r == Single::NotAKnot {
                        l = Single::FirstDeriv(d1(p, x0)); // 3-point NotAKnot pair only reproduces quadratics
                    }
                    // the shorthand RowBoundary::NotAKnot must mean Mixed { NotAKnot, NotAKnot }
                    if n >= 4 && l == Single::NotAKnot && r == Single::NotAKnot && rng.coin() { RowBc::NotAKnot } else { RowBc::Mixed(l, r) }
                }).collect();
                let mut shape = vec![1];
                shape.extend_from_slice(&trail);
                Strat1::Spline(Bc::Individual(per, shape))
            }
            (_, Some(b)) => Strat1::Spline(b),
            _ => unreachable!(),
        };
        let sc = Scen1 { strat, ext, ax: Some(axv.clone()), rows, trail: trail.clone(), queries: dense_queries(&axv, ext) };
        arena_reset();
        let rx = sc.run::<XRat>();
        rep.eval(Some(&format!("{:?}", sc)));
        if rx.0 != BuildOut::Built {
            rep.fail(&format!("build failed: {:?}", rx.0), sc.to_json());
            continue;
        }
        for (qi, &q) in sc.queries.iter().enumerate() {
            let qv = Val::from_f64(q);
            let want: Vec<Val> = polys.iter().map(|p| poly3_val(p, &qv)).collect();
            if rx.1.get(qi) != Some(&Out::Ok(want.clone())) {
                rep.fail(&format!("{}: the polynomial is not reproduced (exact run)", label),
                         obj(vec![("scenario", sc.to_json()), ("query", s(format!("{:?}", q))), ("got", rx.1.get(qi).map(out_json).unwrap_or(J::Null)),
                                  ("want", J::A(want.iter().map(|v| s(v.to_text())).collect()))]));
                break;
            }
        }
        if which == 0 {
            let term = format!("({}, {})", sc.to_coq(&qc), outs_coq(&rx.0, &rx.1, &|v| v.to_coq_qc()));
            rep.coq_case(k1, term, sc.to_json());
        } else {
            add_spline_coq(&mut rep, ks, &sc, &rx);
            check_float_follows(&mut rep, &sc, &rx, "C16");
        }
        if ci < 3 {
            rep.sample(obj(vec![("kind", s(label)), ("scenario", sc.to_json())]));
        }
    }
    rep.finish("data sampled from polynomials with dyadic coefficients on dyadic axes (values exact): Linear/affine, Bilinear/bilinear, NotAKnot/cubic (n>=4), 3-point NotAKnot/quadratic, Natural/affine, FirstDeriv/SecondDeriv/NotAKnot mixes with boundary values from the cubic; lanes hold different polynomials; dense in-range queries and, with extrapolation, up to 2.5 spans outside; exact run must equal the polynomial exactly");
}

// ---------------------------------------------------------------- C07: periodic spline
pub fn run_c07(cfg: &Cfg) {
    let mut rep = Report::new("C07", &cfg.out);
    let ks = rep.kind(SPLINE_KIND.0, SPLINE_KIND.1);
    rep.shard_size = 0;
    let mut rng = Rng::new(cfg.seed);
    let thorough = cfg.tier == "thorough";
    let ncases = if thorough { 2500 } else { 220 };
    for ci in 0..ncases {
        let n = match rng.below(4) { 0 => 3, 1 => 4, _ => rng.range(3, if thorough { 20 } else { 10 }) as usize };
        let (mut axv, class) = gen_spline_axis(&mut rng, n);
        // one axis in four starts exactly at 0: then x - x0 is exact for every x and the f64 remainder is exact,
        // so even astronomically large finite queries must land on the exactly wrapped position
        let zero_based = rng.chance(1, 4);
        if zero_based { let a0 = axv[0]; for v in axv.iter_mut() { *v -= a0; } }
        let trail = gen_trail(&mut rng);
        let lanes: usize = trail.iter().product();
        let mut rows = gen_rows(&mut rng, n, lanes, true);
        rows[n - 1] = rows[0].clone();
        let p = axv[n - 1] - axv[0];
        // base abscissae in [x0, xn) and their images x + kP; both range ends and their images
        let mut base = vec![axv[0], axv[n - 1]];
        for w in axv.windows(2) {
            base.push(w[0] + (w[1] - w[0]) * 0.5);
            base.push(w[0] + (w[1] - w[0]) * (rng.range(1, 7) as f64 / 8.0));
        }
        base.push(next_up(axv[0]));
        base.push(next_down(axv[n - 1]));
        let mut queries = vec![];
        let mut img_of = vec![]; // (index of base query, k)
        for (bi, &b) in base.iter().enumerate() {
            queries.push(b);
            img_of.push((bi, 0i64));
        }
        let nb = base.len();
        for (bi, &b) in base.iter().enumerate() {
            for _ in 0..2 {
                let k = match rng.below(4) { 0 => rng.range(-3, 3), 1 => rng.range(-100, 100), 2 => rng.range(-1000000, 1000000), _ => if rng.coin() { 1 } else { -1 } };
                if k == 0 { continue; }
                let img = b + k as f64 * p;
                // only exact images (the f64 sum must be the exact sum)
                if Val::from_f64(img) == Val::from_f64(b).add(&Val::int(k).mul(&Val::from_f64(p))) {
                    queries.push(img);
                    img_of.push((bi, k));
                }
            }
        }
        let first_huge = queries.len();
        if zero_based {
            for q in [1.0e17, -1.0e17, 3.0e18, -7.0e19, 1.2345e25, -9.87e40, 1.0e100, -2.5e200, 1.0e300, f64::MAX, f64::MIN] {
                queries.push(q);
                img_of.push((0, 0));
            }
            rep.count("zero-based-axis:huge-queries");
        }
        let sc = Scen1 { strat: Strat1::Spline(Bc::Periodic), ext: true, ax: Some(axv.clone()), rows, trail, queries };
        rep.count(&format!("axis:{}", class));
        rep.count(&format!("n:{}", n.min(8)));
        arena_reset();
        let rx = sc.run::<XRat>();
        rep.eval(Some(&format!("{:?}", sc)));
        if rx.0 != BuildOut::Built {
            rep.fail(&format!("periodic build failed on data with equal end rows: {:?}", rx.0), sc.to_json());
            continue;
        }
        for (qi, &(bi, k)) in img_of.iter().enumerate() {
            if qi < nb || qi >= first_huge { continue; }
            rep.count("images");
            // the image of the right end maps to the left end (equal values)
            let want = if bi == 1 { &rx.1[0] } else { &rx.1[bi] };
            if &rx.1[qi] != want || !matches!(rx.1[qi], Out::Ok(_)) {
                rep.fail(&format!("S(x + k*P) differs from S(x) (exact run), k = {}", k),
                         obj(vec![("scenario", sc.to_json()), ("x", s(format!("{:?}", base[bi]))), ("image", s(format!("{:?}", sc.queries[qi]))),
                                  ("S_x", out_json(want)), ("S_image", out_json(&rx.1[qi]))]));
                break;
            }
        }
        // both ends evaluate to the (equal) first/last data value
        let first: Vec<Val> = sc.rows[0].iter().map(|&v| Val::from_f64(v)).collect();
        if rx.1[0] != Out::Ok(first.clone()) || rx.1[1] != Out::Ok(first) {
            rep.fail("a range end does not evaluate to the first/last data value", sc.to_json());
        }
        add_spline_coq(&mut rep, ks, &sc, &rx);
        // floats: discrete outcome equal, values within L*eps*|x| of the exact periodic value
        let rf = sc.run::<f64>();
        rep.evaluations += 1;
        let scale = {
            let mut m = Val::int(1);
            for r in &sc.rows { for &v in r { m = vmax(&m, &Val::from_f64(v).abs()); } }
            m
        };
        let hmin = axv.windows(2).map(|w| w[1] - w[0]).fold(f64::INFINITY, f64::min);
        for (qi, o) in rf.1.iter().enumerate() {
            match (o, &rx.1[qi]) {
                (Out::Ok(v), Out::Ok(w)) => {
                    // |S'| <= ~ 6 max|y| / hmin (loose); argument error <= eps*|x|
                    let x = sc.queries[qi];
                    let lip = Val::from_f64(64.0 / hmin);
                    // (huge queries on a zero-based axis: the wrapped argument is exact, only P-sized rounding remains)
                    let xmag = if qi >= first_huge { p } else { x.abs().max(p) };
                    let b = Val::from_f64(f64::EPSILON).mul(&Val::from_f64(xmag)).mul(&lip).mul(&scale)
                        .add(&Val::from_f64((2.0f64).powi(-30)).mul(&scale));
                    for l in 0..w.len() {
                        if !within(&v[l], &w[l], &b) {
                            rep.fail("f64: periodic value differs from the exact one by more than the rounding of the wrapped argument allows",
                                     obj(vec![("scenario", sc.to_json()), ("query", s(format!("{:?}", x))), ("got", s(v[l].to_text())), ("exact", s(w[l].to_text()))]));
                            break;
                        }
                    }
                }
                (a, b) => { rep.fail(&format!("f64: outcome {:?} but exact run {:?}", a, b), sc.to_json()); break; }
            }
        }
        if ci == 0 { rep.sample(obj(vec![("scenario", sc.to_json())])); }
    }
    periodic_partial_mismatch(&mut rep, &mut rng, thorough);
    // Periodic without extrapolation behaves like any other boundary; non-periodic + extrapolate does not wrap
    rep.finish("periodic data sets (n >= 3, all spline axis classes, 0-3 trailing axes) with extrapolation; queries: points of [x0,xn), both ends, the floats adjacent to the ends, and their exact images x + k*P for k in +-1, +-3, +-100, +-10^6; exact run: S(x+kP) == S(x) exactly, ends and their images give y0; model compared in Coq (values and coefficients); f64 within the bound given by the rounding of the wrapped argument");
}

/// data whose end rows differ in SOME lanes only is not periodic: it must be refused at build time (otherwise
/// the right end and its periodic images S(xn + kP) = S(x0) disagree in those lanes, and S' / S'' do not match
/// at the ends there)
pub fn periodic_partial_mismatch(rep: &mut Report, rng: &mut Rng, thorough: bool) {
    // data whose end rows differ in SOME lanes only is not periodic: it must be refused (otherwise the right
    // end and its periodic images S(xn + kP) = S(x0) disagree in those lanes)
    for _ in 0..(if thorough { 300 } else { 40 }) {
        let n = rng.range(3, 8) as usize;
        let (axv, _class) = gen_spline_axis(rng, n);
        let trail = match rng.below(4) { 0 => vec![2], 1 => vec![3], 2 => vec![], _ => vec![2, 2] };
        let lanes: usize = trail.iter().product();
        let mut rows = gen_rows(rng, n, lanes, true);
        // the same data in several units: the verdict must not depend on the magnitude of the values
        let unit = match rng.below(4) { 0 => (2.0f64).powi(20), 1 => (2.0f64).powi(-20), _ => 1.0 };
        for r in rows.iter_mut() { for v in r.iter_mut() { *v *= unit; } }
        rows[n - 1] = rows[0].clone();
        let bad = rng.below(lanes as u64) as usize;
        // the mismatch: a whole unit, a relative 1e-6 / 1e-9 / 2^-43, or a single ulp -- unequal is unequal
        let v0 = rows[0][bad];
        rows[n - 1][bad] = match rng.below(6) {
            0 => v0 + unit,
            1 => if v0 != 0.0 { v0 * (1.0 + 1e-6) } else { 1e-6 * unit },
            2 => if v0 != 0.0 { v0 * (1.0 + 1e-9) } else { 1e-9 * unit },
            3 => if v0 != 0.0 { v0 * (1.0 + (2.0f64).powi(-43)) } else { (2.0f64).powi(-43) * unit },
            4 => v0 + 5e-9 * unit,
            _ => next_up(v0),
        };
        if rows[n - 1][bad] == v0 { rows[n - 1][bad] = next_up(v0); }
        let p = axv[n - 1] - axv[0];
        let sc = Scen1 { strat: Strat1::Spline(Bc::Periodic), ext: true, ax: Some(axv.clone()), rows, trail, queries: vec![axv[n - 1], axv[n - 1] + p] };
        arena_reset();
        let rx = sc.run::<XRat>();
        let rf = sc.run::<f64>();
        rep.evaluations += 2;
        rep.count("partially-mismatched-ends");
        if rx.0 == BuildOut::Built || rf.0 == BuildOut::Built {
            rep.fail(&format!("Periodic spline built although the first and last rows differ in lane {} ({:?} vs {:?}): S(xn) and S(xn + P) disagree there", bad, v0, sc.rows[n - 1][bad]),
                     obj(vec![("scenario", sc.to_json()), ("S_xn", out_json(&rx.1.get(0).cloned().unwrap_or(Out::Oob))), ("S_xn_plus_P", out_json(&rx.1.get(1).cloned().unwrap_or(Out::Oob)))]));
        }
    }
}

// ---------------------------------------------------------------- C15: units and linearity
fn scale_bc(bc: &Bc, data_c: f64, axis_c: f64) -> Bc {
    // data * data_c, axis * axis_c: first derivatives scale by data_c/axis_c, second by data_c/axis_c^2
    let sgl = |sb: &Single| match sb {
        Single::FirstDeriv(v) => Single::FirstDeriv(v * data_c / axis_c),
        Single::SecondDeriv(v) => Single::SecondDeriv(v * data_c / (axis_c * axis_c)),
        o => o.clone(),
    };
    match bc {
        Bc::Individual(rbs, sh) => Bc::Individual(rbs.iter().map(|rb| match rb {
            RowBc::Mixed(l, r) => RowBc::Mixed(sgl(l), sgl(r)),
            o => o.clone(),
        }).collect(), sh.clone()),
        o => o.clone(),
    }
}
fn scale_out(o: &Out, c: &Val) -> Out {
    match o {
        Out::Ok(v) => Out::Ok(v.iter().map(|x| x.mul(c)).collect()),
        other => other.clone(),
    }
}
fn exact_mul(x: f64, c: f64) -> bool {
    Val::from_f64(x * c) == Val::from_f64(x).mul(&Val::from_f64(c))
}
fn exact_add(x: f64, c: f64) -> bool {
    Val::from_f64(x + c) == Val::from_f64(x).add(&Val::from_f64(c))
}
fn bc_values(bc: &Option<Bc>) -> Vec<f64> {
    let mut v = vec![];
    if let Some(Bc::Individual(rbs, _)) = bc {
        for rb in rbs {
            if let RowBc::Mixed(l, r) = rb {
                for sb in [l, r] {
                    match sb { Single::FirstDeriv(x) | Single::SecondDeriv(x) => v.push(*x), _ => {} }
                }
            }
        }
    }
    v
}
fn bits_eq(a: &(BuildOut, Vec<Out>), b: &(BuildOut, Vec<Out>)) -> bool {
    format!("{:?}", a) == format!("{:?}", b)
}

pub fn run_c15(cfg: &Cfg) {
    let mut rep = Report::new("C15", &cfg.out);
    let ks = rep.kind(SPLINE_KIND.0, SPLINE_KIND.1);
    let k1 = rep.kind("scen1_ok_qc", "(scen1 Qc * (bout * list (rout Qc)))");
    let k2 = rep.kind("scen2_ok_qc", "(scen2 Qc * (bout * list (rout Qc)))");
    rep.shard_size = 0;
    let mut rng = Rng::new(cfg.seed);
    let thorough = cfg.tier == "thorough";
    let ncases = if thorough { 3000 } else { 240 };
    let pow2 = |rng: &mut Rng| (2.0f64).powi(rng.range(-20, 20) as i32);
    for ci in 0..ncases {
        let ext = rng.coin();
        let two_d = ci % 4 == 3;
        if two_d {
            let (sc, _f, _c) = crate::lin::gen_bilinear_scen(&mut rng, thorough, ext, ext);
            let sc = Scen2 { xax: Some(sc.xvals()), yax: Some(sc.yvals()), ..sc };
            arena_reset();
            let base = sc.run::<XRat>();
            let basef = sc.run::<f64>();
            rep.eval(Some(&format!("{:?}", sc)));
            rep.count("bilinear");
            // data * c
            let c = if rng.coin() { pow2(&mut rng) } else { -1.0 };
            let mut v1 = sc.clone();
            for r in v1.cells.iter_mut() { for cc in r.iter_mut() { for x in cc.iter_mut() { *x *= c; } } }
            let r1 = v1.run::<XRat>();
            let cv = Val::from_f64(c);
            let ok1 = sc.cells.iter().all(|r| r.iter().all(|cc| cc.iter().all(|&x| exact_mul(x, c))));
            if ok1 && r1.1 != base.1.iter().map(|o| scale_out(o, &cv)).collect::<Vec<_>>() {
                rep.fail("Bilinear: multiplying the data by c does not multiply the result by c (exact run)", obj(vec![("base", sc.to_json()), ("c", s(format!("{:?}", c)))]));
            }
            let r1f = v1.run::<f64>();
            let want: Vec<String> = basef.1.iter().map(|o| match o { Out::Ok(v) => format!("{:?}", Out::Ok(v.iter().map(|x| x.mul(&cv)).collect())), o => format!("{:?}", o) }).collect();
            let tiny = sc.queries.iter().any(|&(a, b)| (a != 0.0 && a.abs() < 1e-200) || (b != 0.0 && b.abs() < 1e-200));
            if ok1 && !tiny && r1f.1.iter().map(|o| format!("{:?}", o)).collect::<Vec<_>>() != want {
                rep.fail("Bilinear: scaling the data by a power of two / -1 is not bit-for-bit (f64)", obj(vec![("base", sc.to_json()), ("c", s(format!("{:?}", c)))]));
            }
            // independent power-of-two factors for x and y (axis and queries)
            let (cx, cy) = (pow2(&mut rng), pow2(&mut rng));
            let mut v2 = sc.clone();
            v2.xax = Some(sc.xvals().iter().map(|x| x * cx).collect());
            v2.yax = Some(sc.yvals().iter().map(|y| y * cy).collect());
            v2.queries = sc.queries.iter().map(|&(a, b)| (a * cx, b * cy)).collect();
            let r2 = v2.run::<XRat>();
            let ok2 = sc.xvals().iter().all(|&x| exact_mul(x, cx)) && sc.yvals().iter().all(|&y| exact_mul(y, cy))
                && sc.queries.iter().all(|&(a, b)| exact_mul(a, cx) && exact_mul(b, cy));
            if !ok2 { rep.count("skipped:inexact-transform"); continue; }
            if r2 != base {
                rep.fail("Bilinear: scaling x by cx and y by cy (axes and queries) changes the result (exact run)", obj(vec![("base", sc.to_json()), ("cx", s(format!("{:?}", cx))), ("cy", s(format!("{:?}", cy)))]));
            }
            // bit-for-bit only where no intermediate can be subnormal: gradual underflow rounds to a fixed absolute
            // grid, which a change of units does not preserve (the exact comparison above has no such restriction)
            let tiny2 = tiny || v2.queries.iter().any(|&(a, b)| (a != 0.0 && a.abs() < 1e-200) || (b != 0.0 && b.abs() < 1e-200));
            if !tiny2 && !bits_eq(&v2.run::<f64>(), &basef) {
                rep.fail("Bilinear: scaling the axes by powers of two is not bit-for-bit (f64)", obj(vec![("base", sc.to_json()), ("cx", s(format!("{:?}", cx))), ("cy", s(format!("{:?}", cy)))]));
            }
            rep.evaluations += 4;
            let term = format!("({}, {})", v2.to_coq(&qc), outs_coq(&r2.0, &r2.1, &|v| v.to_coq_qc()));
            rep.coq_case(k2, term, v2.to_json());
            continue;
        }
        let spline = ci % 4 != 0;
        let sc = if spline {
            let o = SplineOpts { nmax: if thorough { 16 } else { 9 }, ext, allow_periodic: true, force_bc: None, outside: ext };
            let (mut sc, _c) = gen_spline_scen(&mut rng, &o);
            sc.ax = Some(sc.axis_vals());
            sc
        } else {
            let (mut sc, _f, _c) = crate::lin::gen_linear_scen(&mut rng, thorough, ext, ext);
            sc.ax = Some(sc.axis_vals());
            sc
        };
        let bc = match &sc.strat { Strat1::Spline(b) => Some(b.clone()), _ => None };
        rep.count(if spline { "spline" } else { "linear" });
        arena_reset();
        let base = sc.run::<XRat>();
        let basef = sc.run::<f64>();
        rep.eval(Some(&format!("{:?}", sc)));
        if base.0 != BuildOut::Built { rep.fail(&format!("build failed: {:?}", base.0), sc.to_json()); continue; }
        // (1) data * c
        let c = match rng.below(3) { 0 => -1.0, 1 => pow2(&mut rng), _ => rng.range(-40, 40) as f64 * 0.125 };
        let cv = Val::from_f64(c);
        let mut v1 = sc.clone();
        for r in v1.rows.iter_mut() { for x in r.iter_mut() { *x *= c; } }
        if let Some(b) = &bc { v1.strat = Strat1::Spline(scale_bc(b, c, 1.0)); }
        let r1 = v1.run::<XRat>();
        rep.evaluations += 1;
        let ok1 = sc.rows.iter().all(|r| r.iter().all(|&x| exact_mul(x, c))) && bc_values(&bc).iter().all(|&x| exact_mul(x, c));
        if !ok1 { rep.count("skipped:inexact-data-scale"); }
        if ok1 && r1.1 != base.1.iter().map(|o| scale_out(o, &cv)).collect::<Vec<_>>() {
            rep.fail("multiplying the data (and boundary values) by c does not multiply the result by c (exact run)", obj(vec![("base", sc.to_json()), ("c", s(format!("{:?}", c)))]));
        }
        let tiny = sc.queries.iter().chain(sc.axis_vals().iter()).any(|&a| a != 0.0 && a.abs() < 1e-200);
        if ok1 && !tiny && (c == -1.0 || (c.abs().log2().fract() == 0.0 && c != 0.0)) {
            let r1f = v1.run::<f64>();
            let want: Vec<String> = basef.1.iter().map(|o| match o { Out::Ok(v) => format!("{:?}", Out::Ok(v.iter().map(|x| x.mul(&cv)).collect())), o => format!("{:?}", o) }).collect();
            rep.count("bitwise:data-scale");
            if r1f.1.iter().map(|o| format!("{:?}", o)).collect::<Vec<_>>() != want {
                rep.fail("scaling the data by a power of two / -1 is not bit-for-bit (f64)", obj(vec![("base", sc.to_json()), ("c", s(format!("{:?}", c)))]));
            }
        }
        // (2) axis and queries * c > 0 (power of two keeps everything exact), derivative values converted
        let ca = pow2(&mut rng);
        let mut v2 = sc.clone();
        v2.ax = Some(sc.axis_vals().iter().map(|x| x * ca).collect());
        v2.queries = sc.queries.iter().map(|q| q * ca).collect();
        if let Some(b) = &bc { v2.strat = Strat1::Spline(scale_bc(b, 1.0, ca)); }
        let r2 = v2.run::<XRat>();
        rep.evaluations += 1;
        let ok2 = sc.axis_vals().iter().chain(sc.queries.iter()).all(|&x| exact_mul(x, ca))
            && bc_values(&bc).iter().all(|&x| exact_mul(x, 1.0 / ca) && exact_mul(x / ca, 1.0 / ca));
        if !ok2 { rep.count("skipped:inexact-axis-scale"); continue; }
        if r2 != base {
            rep.fail("multiplying the axis and the queries by c > 0 (boundary derivatives converted) changes the result (exact run)", obj(vec![("base", sc.to_json()), ("c", s(format!("{:?}", ca)))]));
        }
        rep.count("bitwise:axis-scale");
        let tiny2 = tiny || v2.queries.iter().chain(v2.axis_vals().iter()).any(|&a| a != 0.0 && a.abs() < 1e-200);
        if !tiny2 && !bits_eq(&v2.run::<f64>(), &basef) {
            rep.fail("scaling axis and queries by a power of two is not bit-for-bit (f64)", obj(vec![("base", sc.to_json()), ("c", s(format!("{:?}", ca)))]));
        }
        // (3) shift of axis and queries on the common dyadic grid
        let sh = rng.range(-64, 64) as f64 * 0.25;
        let mut v3 = sc.clone();
        v3.ax = Some(sc.axis_vals().iter().map(|x| x + sh).collect());
        v3.queries = sc.queries.iter().map(|q| q + sh).collect();
        let exact_shift = sc.axis_vals().iter().chain(sc.queries.iter()).all(|&x| Val::from_f64(x + sh) == Val::from_f64(x).add(&Val::from_f64(sh)));
        if exact_shift {
            let r3 = v3.run::<XRat>();
            rep.evaluations += 1;
            rep.count("shift");
            if r3 != base {
                rep.fail("shifting the axis and the queries by the same amount changes the result (exact run)", obj(vec![("base", sc.to_json()), ("shift", s(format!("{:?}", sh)))]));
            }
            // only differences of axis values and queries enter: for an exactly representable shift the f64
            // results are bit-identical (Periodic extrapolation adds x0 back after the wrap and is excluded above)
            rep.count("bitwise:shift");
            let periodic_ext = matches!(bc, Some(Bc::Periodic)) && sc.ext;
            if !tiny && !periodic_ext && !bits_eq(&v3.run::<f64>(), &basef) {
                rep.fail("shifting axis and queries by an exactly representable amount is not bit-for-bit (f64)", obj(vec![("base", sc.to_json()), ("shift", s(format!("{:?}", sh)))]));
            }
        }
        // (4) additivity: results for data1 + data2 = sum of results (boundary values added)
        let mut other = sc.clone();
        other.rows = gen_rows(&mut rng, sc.n(), sc.lanes(), true);
        if matches!(bc, Some(Bc::Periodic)) { let nn = other.rows.len(); other.rows[nn - 1] = other.rows[0].clone(); }
        let mut sum = sc.clone();
        for (i, r) in sum.rows.iter_mut().enumerate() { for (l, x) in r.iter_mut().enumerate() { *x += other.rows[i][l]; } }
        if let Some(Bc::Individual(rbs, sh_)) = &bc {
            // second data set uses the same kinds of conditions with zero derivative values
            let zero = |sb: &Single| match sb { Single::FirstDeriv(_) => Single::FirstDeriv(0.0), Single::SecondDeriv(_) => Single::SecondDeriv(0.0), o => o.clone() };
            other.strat = Strat1::Spline(Bc::Individual(rbs.iter().map(|rb| match rb { RowBc::Mixed(l, r) => RowBc::Mixed(zero(l), zero(r)), o => o.clone() }).collect(), sh_.clone()));
        }
        let ro = other.run::<XRat>();
        let rs = sum.run::<XRat>();
        rep.evaluations += 2;
        let added: Vec<Out> = base.1.iter().zip(ro.1.iter()).map(|(a, b)| match (a, b) {
            (Out::Ok(u), Out::Ok(v)) => Out::Ok(u.iter().zip(v).map(|(x, y)| x.add(y)).collect()),
            (a, _) => a.clone(),
        }).collect();
        let oksum = sc.rows.iter().zip(other.rows.iter()).all(|(a, b)| a.iter().zip(b).all(|(&x, &y)| exact_add(x, y)));
        if oksum && rs.1 != added {
            rep.fail("the result for a sum of data sets is not the sum of the results (exact run)", obj(vec![("base", sc.to_json()), ("other", other.to_json())]));
        }
        if spline { add_spline_coq(&mut rep, ks, &v2, &r2); } else {
            let term = format!("({}, {})", v2.to_coq(&qc), outs_coq(&r2.0, &r2.1, &|v| v.to_coq_qc()));
            rep.coq_case(k1, term, v2.to_json());
        }
        if ci < 2 { rep.sample(obj(vec![("base", sc.to_json()), ("data_factor", s(format!("{:?}", c))), ("axis_factor", s(format!("{:?}", ca))), ("shift", s(format!("{:?}", sh)))])); }
    }
    periodic_partial_mismatch(&mut rep, &mut rng, thorough);
    rep.finish("metamorphic pairs on Linear, Bilinear (independent factors for x and y) and CubicSpline scenarios with every boundary kind: data * c (c = -1, 2^-20..2^20, random dyadic; boundary derivative values converted), axis and queries * 2^k, axis and queries shifted on a common dyadic grid, sum of two data sets; in range and extrapolated; exact run: relation holds exactly; f64: bit-for-bit for powers of two and negation; transformed scenarios also compared with the model in Coq");
}

/// f64 spline interpolator over dynamic-dimensional owned data (for C17's shared-object histories)
pub fn build_spline_f64(sc: &Scen1) -> Option<ndarray_interp::interp1d::Interp1D<ndarray::OwnedRepr<f64>, ndarray::OwnedRepr<f64>, IxDyn, ndarray_interp::interp1d::cubic_spline::CubicSplineStrategy<ndarray::OwnedRepr<f64>, IxDyn>>> {
    let bc = match &sc.strat { Strat1::Spline(b) => b.clone(), _ => return None };
    let data = make_data::<f64>(&sc.rows, &sc.trail);
    let boundary: BoundaryCondition<f64, IxDyn> = match &bc {
        Bc::NotAKnot => BoundaryCondition::NotAKnot,
        Bc::Natural => BoundaryCondition::Natural,
        Bc::Clamped => BoundaryCondition::Clamped,
        Bc::Periodic => BoundaryCondition::Periodic,
        Bc::Individual(rbs, shape) => {
            let v: Vec<RowBoundary<f64>> = rbs.iter().map(crate::scen::rowbc_pub::<f64>).collect();
            BoundaryCondition::Individual(ndarray::ArrayD::from_shape_vec(IxDyn(shape), v).unwrap())
        }
    };
    let strat = crate::scen::configure_spline(sc.ext, boundary);
    Interp1DBuilder::new(data).x(Array1::from(sc.axis_vals())).strategy(strat).build().ok()
}
