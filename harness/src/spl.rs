//! Spline properties: C02 (interpolates, piecewise cubic, C2), C03 (boundary conditions),
//! C16 (polynomial reproduction), C07 (periodicity), C15 (units / linearity), the spline part
//! of C06.  Every oracle works on the implementation's own exact (XRat) outputs.
use crate::gen::*;
use crate::json::{obj, s, J};
use crate::lin::{bracket_scan, eps32, eps64, vals, vmax, within};
use crate::out::Report;
use crate::rng::Rng;
use crate::scen::*;
use crate::xrat::{arena_reset, Val, XRat};
use crate::Cfg;
use ndarray::{Array1, IxDyn};
use ndarray_interp::interp1d::cubic_spline::{BoundaryCondition, CubicSpline, RowBoundary};
use ndarray_interp::interp1d::Interp1DBuilder;
use std::panic::{catch_unwind, AssertUnwindSafe};

// ---------------------------------------------------------------- exact linear algebra
/// solve a small dense system exactly (Gaussian elimination with row swaps)
pub fn solve_linear(mut a: Vec<Vec<Val>>, mut b: Vec<Val>) -> Option<Vec<Val>> {
    let n = b.len();
    for c in 0..n {
        let p = (c..n).find(|&r| a[r][c].sign() != 0)?;
        a.swap(c, p);
        b.swap(c, p);
        for r in (c + 1)..n {
            if a[r][c].sign() == 0 {
                continue;
            }
            let f = a[r][c].div(&a[c][c]);
            for k in c..n {
                let t = a[c][k].mul(&f);
                a[r][k] = a[r][k].sub(&t);
            }
            let t = b[c].mul(&f);
            b[r] = b[r].sub(&t);
        }
    }
    let mut x = vec![Val::int(0); n];
    for r in (0..n).rev() {
        let mut acc = b[r].clone();
        for k in (r + 1)..n {
            acc = acc.sub(&a[r][k].mul(&x[k]));
        }
        x[r] = acc.div(&a[r][r]);
    }
    Some(x)
}

/// coefficients c0..c3 of the cubic in u through four points (u_k, v_k)
pub fn fit_cubic(pts: &[(Val, Val)]) -> Option<Vec<Val>> {
    let a: Vec<Vec<Val>> = pts.iter().map(|(u, _)| vec![Val::int(1), u.clone(), u.mul(u), u.mul(u).mul(u)]).collect();
    let b: Vec<Val> = pts.iter().map(|(_, v)| v.clone()).collect();
    solve_linear(a, b)
}
pub fn poly_eval(c: &[Val], u: &Val) -> Val {
    let mut acc = Val::int(0);
    for k in (0..c.len()).rev() {
        acc = acc.mul(u).add(&c[k]);
    }
    acc
}
pub fn poly_d1(c: &[Val], u: &Val) -> Val {
    // c1 + 2 c2 u + 3 c3 u^2
    c[1].add(&c[2].mul(&Val::int(2)).mul(u)).add(&c[3].mul(&Val::int(3)).mul(u).mul(u))
}
pub fn poly_d2(c: &[Val], u: &Val) -> Val {
    c[2].mul(&Val::int(2)).add(&c[3].mul(&Val::int(6)).mul(u))
}

// ---------------------------------------------------------------- generation

pub fn gen_single(rng: &mut Rng) -> Single {
    match rng.below(5) {
        0 => Single::NotAKnot,
        1 => Single::Natural,
        2 => Single::Clamped,
        3 => Single::FirstDeriv(rng.range(-24, 24) as f64 * 0.25),
        _ => Single::SecondDeriv(rng.range(-24, 24) as f64 * 0.25),
    }
}
pub fn gen_rowbc(rng: &mut Rng) -> RowBc {
    match rng.below(6) {
        0 => RowBc::NotAKnot,
        1 => RowBc::Natural,
        2 => RowBc::Clamped,
        _ => RowBc::Mixed(gen_single(rng), gen_single(rng)),
    }
}
pub fn gen_bc(rng: &mut Rng, trail: &[usize], allow_periodic: bool) -> Bc {
    let lanes: usize = trail.iter().product();
    match rng.below(8) {
        0 => Bc::NotAKnot,
        1 => Bc::Natural,
        2 => Bc::Clamped,
        3 if allow_periodic => Bc::Periodic,
        _ => {
            let mut shape = vec![1];
            shape.extend_from_slice(trail);
            Bc::Individual((0..lanes).map(|_| gen_rowbc(rng)).collect(), shape)
        }
    }
}

pub struct SplineOpts {
    pub nmax: usize,
    pub ext: bool,
    pub allow_periodic: bool,
    pub force_bc: Option<Bc>,
    pub outside: bool,
}

/// the per-lane (left, right) single conditions a Bc denotes (None = Periodic)
pub fn lane_conditions(bc: &Bc, lane: usize) -> Option<(Single, Single)> {
    let row = |rb: &RowBc| match rb {
        RowBc::NotAKnot => (Single::NotAKnot, Single::NotAKnot),
        RowBc::Natural => (Single::Natural, Single::Natural),
        RowBc::Clamped => (Single::Clamped, Single::Clamped),
        RowBc::Mixed(l, r) => (l.clone(), r.clone()),
    };
    match bc {
        Bc::NotAKnot => Some((Single::NotAKnot, Single::NotAKnot)),
        Bc::Natural => Some((Single::Natural, Single::Natural)),
        Bc::Clamped => Some((Single::Clamped, Single::Clamped)),
        Bc::Periodic => None,
        Bc::Individual(v, _) => Some(row(&v[lane])),
    }
}

pub fn gen_spline_scen(rng: &mut Rng, o: &SplineOpts) -> (Scen1, String) {
    let n = match rng.below(6) {
        0 => 3,
        1 => 4,
        2 => 5,
        _ => rng.range(3, o.nmax as i64) as usize,
    };
    let default_axis = rng.chance(1, 6);
    let (axv, class) = if default_axis { ((0..n).map(|i| i as f64).collect::<Vec<_>>(), "default-axis") } else { gen_spline_axis(rng, n) };
    let trail = gen_trail(rng);
    let lanes: usize = trail.iter().product();
    let mut rows = gen_rows(rng, n, lanes, true);
    let bc = o.force_bc.clone().unwrap_or_else(|| gen_bc(rng, &trail, o.allow_periodic));
    let bc = match bc {
        Bc::Individual(_, _) if o.force_bc.is_some() => bc,
        b => b,
    };
    if bc == Bc::Periodic {
        rows[n - 1] = rows[0].clone();
    }
    // 5 abscissae per interval (the oracle uses whatever abscissae it gets)
    let mut queries = vec![];
    for w in axv.windows(2) {
        let hh = w[1] - w[0];
        for t in [0.0, 0.25, 0.5, 0.75, 1.0] {
            let q = w[0] + hh * t;
            if q >= axv[0] && q <= axv[n - 1] {
                queries.push(q);
            }
        }
    }
    if o.outside {
        let span = axv[n - 1] - axv[0];
        for k in [0.125, 0.5, 1.0, 3.0] {
            queries.push(axv[0] - span * k);
            queries.push(axv[n - 1] + span * k);
        }
        queries.push(next_down(axv[0]));
        queries.push(next_up(axv[n - 1]));
    }
    let sc = Scen1 { strat: Strat1::Spline(bc), ext: o.ext, ax: if default_axis { None } else { Some(axv) }, rows, trail, queries };
    (sc, class.to_string())
}

/// coefficient arrays a, b (rows x lanes) read through the cfg hook
pub fn spline_coeffs<E: Elem>(sc: &Scen1) -> Option<(Vec<Vec<Val>>, Vec<Vec<Val>>)> {
    let bc = match &sc.strat {
        Strat1::Spline(b) => b.clone(),
        _ => return None,
    };
    let r = catch_unwind(AssertUnwindSafe(|| {
        let data = make_data::<E>(&sc.rows, &sc.trail);
        let boundary: BoundaryCondition<E, IxDyn> = match &bc {
            Bc::NotAKnot => BoundaryCondition::NotAKnot,
            Bc::Natural => BoundaryCondition::Natural,
            Bc::Clamped => BoundaryCondition::Clamped,
            Bc::Periodic => BoundaryCondition::Periodic,
            Bc::Individual(rbs, shape) => {
                let one = Scen1 { strat: Strat1::Linear, ext: false, ax: None, rows: vec![], trail: vec![], queries: vec![] };
                let _ = one;
                let v: Vec<RowBoundary<E>> = rbs.iter().map(crate::scen::rowbc_pub::<E>).collect();
                BoundaryCondition::Individual(ndarray::ArrayD::from_shape_vec(IxDyn(shape), v).unwrap())
            }
        };
        let strat = CubicSpline::new().extrapolate(sc.ext).boundary(boundary);
        let x = Array1::from(sc.axis_vals().iter().map(|&v| E::of_f64(v)).collect::<Vec<_>>());
        let interp = Interp1DBuilder::new(data).x(x).strategy(strat).build().ok()?;
        let (a, b) = interp.verif_strategy().verif_coefficients();
        let lanes = sc.lanes();
        let conv = |arr: &ndarray::ArrayD<E>| -> Vec<Vec<Val>> {
            let flat: Vec<Val> = arr.iter().map(|v| v.to_val()).collect();
            if lanes == 0 { vec![vec![]; arr.shape()[0]] } else { flat.chunks(lanes).map(|c| c.to_vec()).collect() }
        };
        Some((conv(a), conv(b)))
    }));
    r.ok().flatten()
}

fn rows_coq(rows: &[Vec<Val>]) -> String {
    format!("[{}]", rows.iter().map(|r| format!("[{}]", r.iter().map(|v| v.to_coq_qc()).collect::<Vec<_>>().join("; "))).collect::<Vec<_>>().join("; "))
}

pub fn add_spline_coq(rep: &mut Report, kind: usize, sc: &Scen1, rx: &(BuildOut, Vec<Out>)) {
    let (a, b) = spline_coeffs::<XRat>(sc).unwrap_or((vec![], vec![]));
    let term = format!("({}, {}, ({}, {}))", sc.to_coq(&qc), outs_coq(&rx.0, &rx.1, &|v| v.to_coq_qc()), rows_coq(&a), rows_coq(&b));
    rep.coq_case(kind, term, sc.to_json());
}

pub const SPLINE_KIND: (&str, &str) = ("spline_ok_qc", "(scen1 Qc * (bout * list (rout Qc)) * (list (list Qc) * list (list Qc)))");

// ---------------------------------------------------------------- oracles on exact outputs

/// per lane and interval: the cubic (in u = x - x_i) fitted through the implementation's own
/// exact samples; None if the samples of an interval are not on one cubic
pub struct Pieces {
    pub coef: Vec<Vec<Vec<Val>>>, // [interval][lane] -> c0..c3
}

/// value of the exact output at query index qi, lane l
fn outv(rx: &[Out], qi: usize, l: usize) -> Option<Val> {
    match rx.get(qi) {
        Some(Out::Ok(v)) => v.get(l).cloned(),
        _ => None,
    }
}

pub fn fit_pieces(sc: &Scen1, rx: &[Out]) -> Result<Pieces, String> {
    let ax = vals(&sc.axis_vals());
    let n = ax.len();
    let lanes = sc.lanes();
    let qv: Vec<Val> = sc.queries.iter().map(|&q| Val::from_f64(q)).collect();
    let mut coef = vec![];
    for i in 0..(n - 1) {
        // queries inside [x_i, x_i+1]
        let idxs: Vec<usize> = (0..qv.len()).filter(|&k| ax[i].le(&qv[k]) && qv[k].le(&ax[i + 1])).collect();
        // distinct abscissae
        let mut uniq: Vec<usize> = vec![];
        for &k in &idxs {
            if !uniq.iter().any(|&j| qv[j] == qv[k]) {
                uniq.push(k);
            }
        }
        if uniq.len() < 5 {
            return Err(format!("interval {} has fewer than 5 samples", i));
        }
        let mut per_lane = vec![];
        for l in 0..lanes {
            let pts: Vec<(Val, Val)> = uniq.iter().map(|&k| (qv[k].sub(&ax[i]), outv(rx, k, l).unwrap_or(Val::NaN))).collect();
            if pts.iter().any(|p| !p.1.is_fin()) {
                return Err(format!("interval {} lane {}: a sample is not a finite number", i, l));
            }
            let c = fit_cubic(&[pts[0].clone(), pts[1].clone(), pts[2].clone(), pts[4].clone()]).ok_or("singular fit")?;
            for p in &pts {
                if poly_eval(&c, &p.0) != p.1 {
                    return Err(format!("interval {} lane {}: samples are not on one cubic polynomial", i, l));
                }
            }
            per_lane.push(c);
        }
        coef.push(per_lane);
    }
    Ok(Pieces { coef })
}

/// C02: knot values, C1, C2 at interior knots
pub fn check_c02(sc: &Scen1, p: &Pieces) -> Result<(), String> {
    let ax = vals(&sc.axis_vals());
    let n = ax.len();
    for l in 0..sc.lanes() {
        for i in 0..(n - 1) {
            let hh = ax[i + 1].sub(&ax[i]);
            let c = &p.coef[i][l];
            if poly_eval(c, &Val::int(0)) != Val::from_f64(sc.rows[i][l]) || poly_eval(c, &hh) != Val::from_f64(sc.rows[i + 1][l]) {
                return Err(format!("lane {}: piece {} does not pass through its two data points", l, i));
            }
            if i + 2 < n {
                let c2 = &p.coef[i + 1][l];
                if poly_d1(c, &hh) != poly_d1(c2, &Val::int(0)) {
                    return Err(format!("lane {}: first derivative jumps at knot {}", l, i + 1));
                }
                if poly_d2(c, &hh) != poly_d2(c2, &Val::int(0)) {
                    return Err(format!("lane {}: second derivative jumps at knot {}", l, i + 1));
                }
            }
        }
    }
    Ok(())
}

/// C03: the selected end conditions
pub fn check_c03(sc: &Scen1, p: &Pieces) -> Result<(), String> {
    let bc = match &sc.strat {
        Strat1::Spline(b) => b,
        _ => return Ok(()),
    };
    let ax = vals(&sc.axis_vals());
    let n = ax.len();
    let zero = Val::int(0);
    for l in 0..sc.lanes() {
        let first = &p.coef[0][l];
        let last = &p.coef[n - 2][l];
        let hl = ax[n - 1].sub(&ax[n - 2]);
        match lane_conditions(bc, l) {
            None => {
                if poly_d1(first, &zero) != poly_d1(last, &hl) {
                    return Err(format!("lane {}: Periodic but S' differs at the two ends", l));
                }
                if poly_d2(first, &zero) != poly_d2(last, &hl) {
                    return Err(format!("lane {}: Periodic but S'' differs at the two ends", l));
                }
            }
            Some((left, right)) => {
                let chk = |side: &str, cond: &Single, d1: Val, d2: Val, c3a: &Val, c3b: &Val| -> Result<(), String> {
                    match cond {
                        Single::Natural if d2 != zero => Err(format!("lane {}: {} Natural but S'' = {}", l, side, d2.to_text())),
                        Single::Clamped if d1 != zero => Err(format!("lane {}: {} Clamped but S' = {}", l, side, d1.to_text())),
                        Single::FirstDeriv(v) if d1 != Val::from_f64(*v) => Err(format!("lane {}: {} FirstDeriv({}) but S' = {}", l, side, v, d1.to_text())),
                        Single::SecondDeriv(v) if d2 != Val::from_f64(*v) => Err(format!("lane {}: {} SecondDeriv({}) but S'' = {}", l, side, v, d2.to_text())),
                        Single::NotAKnot if c3a != c3b => Err(format!("lane {}: {} NotAKnot but the third derivative jumps at the neighbouring knot", l, side)),
                        _ => Ok(()),
                    }
                };
                if n == 3 && left == Single::NotAKnot && right == Single::NotAKnot {
                    if first[3] != zero || last[3] != zero {
                        return Err(format!("lane {}: 3 points, NotAKnot on both ends, but the pieces are not one parabola", l));
                    }
                }
                let second = &p.coef[1.min(n - 2)][l];
                let before_last = &p.coef[(n - 2).saturating_sub(1)][l];
                chk("left", &left, poly_d1(first, &zero), poly_d2(first, &zero), &first[3], &second[3])?;
                chk("right", &right, poly_d1(last, &hl), poly_d2(last, &hl), &last[3], &before_last[3])?;
            }
        }
    }
    Ok(())
}

/// scale for float comparisons: max|y| + span * |first-derivative values| + span^2 * |second..|
fn spline_scale(sc: &Scen1) -> Val {
    let mut m = Val::int(1);
    for r in &sc.rows {
        for &v in r {
            m = vmax(&m, &Val::from_f64(v).abs());
        }
    }
    let ax = sc.axis_vals();
    let span = Val::from_f64(ax[ax.len() - 1] - ax[0]);
    if let Strat1::Spline(Bc::Individual(rbs, _)) = &sc.strat {
        for rb in rbs {
            if let RowBc::Mixed(a, b) = rb {
                for sb in [a, b] {
                    match sb {
                        Single::FirstDeriv(v) => m = vmax(&m, &Val::from_f64(*v).abs().mul(&span)),
                        Single::SecondDeriv(v) => m = vmax(&m, &Val::from_f64(*v).abs().mul(&span).mul(&span)),
                        _ => {}
                    }
                }
            }
        }
    }
    m
}

/// f64 / f32 runs follow the exact run (values within a loose relative bound; discrete outcome equal)
pub fn check_float_follows(rep: &mut Report, sc: &Scen1, rx: &(BuildOut, Vec<Out>), what: &str) {
    let scale = spline_scale(sc);
    let ax = sc.axis_vals();
    let span = ax[ax.len() - 1] - ax[0];
    for (name, res, tol) in [("f64", sc.run::<f64>(), Val::from_f64((2.0f64).powi(-30))), ("f32", sc.run::<f32>(), Val::from_f64((2.0f64).powi(-10)))] {
        rep.evaluations += 1;
        if res.0 != rx.0 {
            rep.fail(&format!("{} {}: build outcome {:?} differs from the exact run's {:?}", what, name, res.0, rx.0), sc.to_json());
            continue;
        }
        for (qi, o) in res.1.iter().enumerate() {
            match (o, &rx.1[qi]) {
                (Out::Ok(v), Out::Ok(w)) => {
                    // extrapolated values grow like distance^3
                    let q = sc.queries[qi];
                    let dist = if q < ax[0] { (ax[0] - q) / span } else if q > ax[ax.len() - 1] { (q - ax[ax.len() - 1]) / span } else { 0.0 };
                    let grow = Val::from_f64((1.0 + dist).powi(3).ceil());
                    for l in 0..w.len() {
                        let b = tol.mul(&scale).mul(&grow).add(&tol.mul(&w[l].abs()));
                        if !within(&v[l], &w[l], &b) {
                            rep.fail(&format!("{} {}: value differs from the exact spline by more than the rounding bound", what, name),
                                     obj(vec![("scenario", sc.to_json()), ("query", s(format!("{:?}", q))), ("got", s(v[l].to_text())), ("exact", s(w[l].to_text()))]));
                            return;
                        }
                    }
                }
                (Out::Oob, Out::Oob) => {}
                (a, b) => {
                    rep.fail(&format!("{} {}: outcome {:?} but the exact run gives {:?}", what, name, a, b), sc.to_json());
                    return;
                }
            }
        }
    }
    let _ = (eps32(), eps64());
}

fn bc_label(bc: &Bc) -> String {
    match bc {
        Bc::Individual(v, _) => {
            if v.iter().any(|r| matches!(r, RowBc::Mixed(..))) { "Individual(Mixed)".into() } else { "Individual".into() }
        }
        b => format!("{:?}", b),
    }
}

/// shared by C02 / C03: generated scenarios, all boundary kinds
fn run_c02_c03(cfg: &Cfg, prop: &str) {
    let mut rep = Report::new(prop, &cfg.out);
    let kind = rep.kind(SPLINE_KIND.0, SPLINE_KIND.1);
    rep.shard_size = 0;
    let mut rng = Rng::new(cfg.seed ^ if prop == "C03" { 0x33 } else { 0 });
    let thorough = cfg.tier == "thorough";
    let mut cases: Vec<(Scen1, String)> = vec![];
    // regression corpus first: the non-uniform axis on which the right NotAKnot row was wrong
    {
        let axv = vec![0.0, 1.0, 3.0, 4.0, 8.0];
        let cubic = |x: f64| 1.0 + 2.0 * x - 0.5 * x * x + 0.25 * x * x * x;
        let rows = axv.iter().map(|&x| vec![cubic(x)]).collect();
        let mut queries = vec![];
        for w in axv.windows(2) {
            for t in [0.0, 0.25, 0.5, 0.75, 1.0] {
                queries.push(w[0] + (w[1] - w[0]) * t);
            }
        }
        cases.push((Scen1 { strat: Strat1::Spline(Bc::NotAKnot), ext: false, ax: Some(axv), rows, trail: vec![], queries }, "corpus:F1".into()));
    }
    if prop == "C03" {
        // every ordered pair (left, right) of the five single-end conditions, n = 3, 4, 6
        let singles = |rng: &mut Rng| vec![Single::NotAKnot, Single::Natural, Single::Clamped,
                                           Single::FirstDeriv(rng.range(-8, 8) as f64 * 0.5), Single::SecondDeriv(rng.range(-8, 8) as f64 * 0.5)];
        for &n in &[3usize, 4, 6] {
            let ls = singles(&mut rng);
            for l in &ls {
                let rs = singles(&mut rng);
                for r in &rs {
                    let bc = Bc::Individual(vec![RowBc::Mixed(l.clone(), r.clone())], vec![1]);
                    let o = SplineOpts { nmax: n, ext: false, allow_periodic: false, force_bc: Some(bc.clone()), outside: false };
                    let (mut sc, class) = gen_spline_scen(&mut rng, &o);
                    // force n and a single lane
                    let (axv, _) = gen_spline_axis(&mut rng, n);
                    sc.rows = gen_rows(&mut rng, n, 1, true);
                    sc.trail = vec![];
                    sc.strat = Strat1::Spline(Bc::Individual(vec![RowBc::Mixed(l.clone(), r.clone())], vec![1]));
                    sc.queries.clear();
                    for w in axv.windows(2) {
                        for t in [0.0, 0.25, 0.5, 0.75, 1.0] {
                            sc.queries.push(w[0] + (w[1] - w[0]) * t);
                        }
                    }
                    sc.ax = Some(axv);
                    cases.push((sc, format!("pair:{}", class)));
                }
            }
        }
    }
    let nrand = if thorough { 4000 } else { 260 };
    let o = SplineOpts { nmax: if thorough { 40 } else { 12 }, ext: false, allow_periodic: true, force_bc: None, outside: false };
    for _ in 0..nrand {
        cases.push(gen_spline_scen(&mut rng, &o));
    }
    for (ci, (sc, class)) in cases.iter().enumerate() {
        let bc = match &sc.strat { Strat1::Spline(b) => b.clone(), _ => unreachable!() };
        rep.count(&format!("axis:{}", class));
        rep.count(&format!("bc:{}", bc_label(&bc)));
        rep.count(&format!("n:{}", match sc.n() { 3 => "3", 4 => "4", 5..=8 => "5-8", 9..=16 => "9-16", _ => "17+" }));
        rep.count(&format!("trailing_rank:{}", sc.trail.len()));
        arena_reset();
        let rx = sc.run::<XRat>();
        rep.eval(Some(&format!("{:?}", sc)));
        if rx.0 != BuildOut::Built {
            rep.fail(&format!("build failed on valid spline input: {:?}", rx.0), sc.to_json());
            continue;
        }
        match fit_pieces(sc, &rx.1) {
            Err(e) => rep.fail(&format!("exact run: {}", e), sc.to_json()),
            Ok(p) => {
                if let Err(e) = check_c02(sc, &p) {
                    if prop == "C02" { rep.fail(&format!("exact run: {}", e), sc.to_json()); }
                }
                if let Err(e) = check_c03(sc, &p) {
                    if prop == "C03" { rep.fail(&format!("exact run: {}", e), sc.to_json()); }
                }
            }
        }
        add_spline_coq(&mut rep, kind, sc, &rx);
        check_float_follows(&mut rep, sc, &rx, prop);
        if ci == 1 || ci == 40 {
            rep.sample(obj(vec![("scenario", sc.to_json()), ("exact_results_first3", J::A(rx.1.iter().take(3).map(out_json).collect()))]));
        }
    }
    rep.finish("cubic-spline scenarios: n = 3, 4, 5 and up to the tier's bound, axes unit / uniform / random / mesh ratio up to 64 / geometric / default, all boundary selections (NotAKnot, Natural, Clamped, Periodic, Individual with random Mixed pairs and derivative values; for C03 additionally every ordered pair of the five single-end conditions at n = 3, 4, 6), 0-3 trailing axes, 5 abscissae per interval; exact run: coefficients a,b and values compared with the model in Coq, oracle = cubic fitted through the implementation's own exact samples (on one cubic, knot values, S' and S'' continuous, end conditions); f64/f32 within 2^-30 / 2^-10 of the exact values; non-trivial = distinct scenario");
}

pub fn run_c02(cfg: &Cfg) {
    run_c02_c03(cfg, "C02");
}
pub fn run_c03(cfg: &Cfg) {
    run_c02_c03(cfg, "C03");
}

// ---------------------------------------------------------------- C06 spline part
pub fn c06_spline(rep: &mut Report, rng: &mut Rng, thorough: bool, ncases: usize) {
    let kind = rep.kind(SPLINE_KIND.0, SPLINE_KIND.1);
    let o = SplineOpts { nmax: if thorough { 16 } else { 8 }, ext: true, allow_periodic: false, force_bc: None, outside: true };
    for ci in 0..ncases {
        let (sc, class) = gen_spline_scen(rng, &o);
        rep.count(&format!("spline:{}", class));
        arena_reset();
        let rx = sc.run::<XRat>();
        rep.eval(Some(&format!("{:?}", sc)));
        if rx.0 != BuildOut::Built {
            rep.fail(&format!("build failed on valid spline input: {:?}", rx.0), sc.to_json());
            continue;
        }
        // the end cubics fitted from in-range samples, evaluated outside
        match fit_pieces(&sc, &rx.1) {
            Err(e) => rep.fail(&format!("exact run: {}", e), sc.to_json()),
            Ok(p) => {
                let ax = vals(&sc.axis_vals());
                let n = ax.len();
                for (qi, &q) in sc.queries.iter().enumerate() {
                    let qv = Val::from_f64(q);
                    let piece = if qv.lt(&ax[0]) { 0 } else if ax[n - 1].lt(&qv) { n - 2 } else { continue };
                    rep.count("spline:queries-outside");
                    for l in 0..sc.lanes() {
                        let want = poly_eval(&p.coef[piece][l], &qv.sub(&ax[piece]));
                        match &rx.1[qi] {
                            Out::Ok(v) if v[l] == want => {}
                            other => {
                                rep.fail("extrapolated value is not the end cubic evaluated at the query (exact run)",
                                         obj(vec![("scenario", sc.to_json()), ("query", s(format!("{:?}", q))), ("got", out_json(other)), ("want", s(want.to_text()))]));
                                break;
                            }
                        }
                    }
                }
            }
        }
        add_spline_coq(rep, kind, &sc, &rx);
        check_float_follows(rep, &sc, &rx, "C06 spline");
        // inside the range: bit-identical with extrapolation off (f64)
        let on = sc.run::<f64>();
        let mut offs = sc.clone();
        offs.ext = false;
        let off = offs.run::<f64>();
        let ax = sc.axis_vals();
        for (qi, &q) in sc.queries.iter().enumerate() {
            let inside = q >= ax[0] && q <= ax[ax.len() - 1];
            if inside && on.1.get(qi) != off.1.get(qi) {
                rep.fail("spline result inside the range differs between extrapolate(true) and extrapolate(false)", sc.to_json());
                break;
            }
            if !inside && off.1.get(qi) != Some(&Out::Oob) {
                rep.fail("spline: query outside the range answered without extrapolation", sc.to_json());
                break;
            }
        }
        if ci == 0 {
            rep.sample(obj(vec![("scenario", sc.to_json())]));
        }
    }
    let _ = bracket_scan;
}
