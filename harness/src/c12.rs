//! C12: monotonic_prop against (a) the declarative classification and (b) the Coq model.
use crate::json::{obj, s, J};
use crate::out::Report;
use crate::rng::Rng;
use crate::xrat::{arena_reset, Val, XRat};
use crate::Cfg;
use ndarray::{s as sl, Array1, ArrayView1};
use ndarray_interp::vector_extensions::{Monotonic, VectorExtensions};

#[derive(Clone, Copy, PartialEq, Eq, Debug)]
pub enum Cls {
    Rising(bool),
    Falling(bool),
    Not,
}
pub fn cls_of(m: Monotonic) -> Cls {
    match m {
        Monotonic::Rising { strict } => Cls::Rising(strict),
        Monotonic::Falling { strict } => Cls::Falling(strict),
        Monotonic::NotMonotonic => Cls::Not,
    }
}
impl Cls {
    pub fn coq(self) -> &'static str {
        match self {
            Cls::Rising(true) => "(Rising true)",
            Cls::Rising(false) => "(Rising false)",
            Cls::Falling(true) => "(Falling true)",
            Cls::Falling(false) => "(Falling false)",
            Cls::Not => "NotMono",
        }
    }
    pub fn code(self) -> usize {
        match self {
            Cls::Rising(true) => 0,
            Cls::Rising(false) => 1,
            Cls::Falling(true) => 2,
            Cls::Falling(false) => 3,
            Cls::Not => 4,
        }
    }
}

/// declarative classification of the property text, NaN-free vectors
fn oracle(v: &[f64]) -> Cls {
    if v.len() < 2 {
        return Cls::Not;
    }
    let p: Vec<(f64, f64)> = v.windows(2).map(|w| (w[0], w[1])).collect();
    let all = |f: &dyn Fn(f64, f64) -> bool| p.iter().all(|&(a, b)| f(a, b));
    let any = |f: &dyn Fn(f64, f64) -> bool| p.iter().any(|&(a, b)| f(a, b));
    if all(&|a, b| a < b) {
        Cls::Rising(true)
    } else if all(&|a, b| a <= b) && any(&|a, b| a < b) && any(&|a, b| a == b) {
        Cls::Rising(false)
    } else if all(&|a, b| a > b) {
        Cls::Falling(true)
    } else if all(&|a, b| a >= b) && any(&|a, b| a > b) && any(&|a, b| a == b) {
        Cls::Falling(false)
    } else {
        Cls::Not
    }
}

fn run_f64(v: &[f64]) -> Cls {
    cls_of(Array1::from(v.to_vec()).monotonic_prop())
}

/// the same logical vector through many element types and memory layouts
fn run_all_views(v: &[f64], rep: &mut Report, desc: &J) -> Cls {
    let base = run_f64(v);
    let mut others: Vec<(&str, Cls)> = vec![];
    others.push(("f32", cls_of(Array1::from(v.iter().map(|&x| x as f32).collect::<Vec<_>>()).monotonic_prop())));
    if v.iter().all(|x| x.is_finite() && x.fract() == 0.0 && x.abs() < 1e9) {
        others.push(("i32", cls_of(Array1::from(v.iter().map(|&x| x as i32).collect::<Vec<_>>()).monotonic_prop())));
        others.push(("i64", cls_of(Array1::from(v.iter().map(|&x| x as i64).collect::<Vec<_>>()).monotonic_prop())));
    }
    // strided view: every 3rd element of a larger poisoned array
    let mut big = vec![777.0f64; v.len() * 3 + 1];
    for (i, &x) in v.iter().enumerate() {
        big[i * 3 + 1] = x;
    }
    let bigarr = Array1::from(big);
    let view: ArrayView1<f64> = bigarr.slice(sl![1..;3]);
    let view = view.slice(sl![..v.len()]);
    others.push(("strided", cls_of(view.monotonic_prop())));
    // reversed view of the reversed vector
    let rev: Vec<f64> = v.iter().rev().cloned().collect();
    let revarr = Array1::from(rev);
    let rview = revarr.slice(sl![..;-1]);
    others.push(("reversed", cls_of(rview.monotonic_prop())));
    // exact rationals through the same generic code
    arena_reset();
    let xv: Vec<XRat> = v.iter().map(|&x| XRat::new(Val::from_f64(x))).collect();
    others.push(("xrat", cls_of(Array1::from(xv).monotonic_prop())));
    for (name, c) in others {
        rep.evaluations += 1;
        if c != base {
            rep.fail(&format!("monotonic_prop differs between f64 ({:?}) and {} ({:?})", base, name, c), desc.clone());
        }
    }
    base
}

fn vec_from_rels(rels: &[u8]) -> Vec<f64> {
    // 0 '<', 1 '=', 2 '>'
    let mut v = vec![0.0f64];
    for &r in rels {
        let last = *v.last().unwrap();
        v.push(match r {
            0 => last + 1.0,
            1 => last,
            _ => last - 1.0,
        });
    }
    v
}

fn coq_list(v: &[f64]) -> String {
    let items: Vec<String> = v.iter().map(|&x| Val::from_f64(x).to_coq_xq()).collect();
    format!("[{}]", items.join("; "))
}

fn fjson(v: &[f64]) -> J {
    J::A(v.iter().map(|x| s(format!("{:?}", x))).collect())
}

pub fn run(cfg: &Cfg) {
    let mut rep = Report::new("C12", &cfg.out);
    let kind = rep.kind("c12_ok", "(list xq * mono)");
    let mut rng = Rng::new(cfg.seed);
    let thorough = cfg.tier == "thorough";

    // 1. every relation sequence up to `maxlen` pairs, one by one, model compared in Coq
    let maxpairs = if thorough { 9 } else { 8 };
    let mut hist = vec![[0u64; 5]; 16];
    for npairs in 0..=maxpairs {
        let total = 3u64.pow(npairs as u32);
        for code in 0..total {
            let mut rels = vec![];
            let mut c = code;
            for _ in 0..npairs {
                rels.push((c % 3) as u8);
                c /= 3;
            }
            let v = vec_from_rels(&rels);
            let desc = obj(vec![("vector", fjson(&v)), ("gen", s("relation-sequence"))]);
            let got = run_all_views(&v, &mut rep, &desc);
            let want = oracle(&v);
            let key = format!("{:?}", v);
            rep.eval(if npairs >= 1 { Some(&key) } else { None });
            rep.count(&format!("exhaustive_len{}", v.len()));
            hist[v.len()][got.code()] += 1;
            if got != want {
                rep.fail(&format!("classified {:?}, expected {:?}", got, want), desc.clone());
            }
            rep.coq_case(kind, format!("({}, {})", coq_list(&v), got.coq()), desc.clone());
            if code == total / 2 && npairs == 4 {
                rep.sample(obj(vec![("vector", fjson(&v)), ("impl", s(format!("{:?}", got)))]));
            }
        }
    }
    // also the empty vector
    {
        let v: Vec<f64> = vec![];
        let got = run_f64(&v);
        rep.eval(None);
        if got != Cls::Not {
            rep.fail("empty vector not NotMonotonic", J::Null);
        }
        rep.coq_case(kind, format!("({}, {})", coq_list(&v), got.coq()), obj(vec![("vector", fjson(&v))]));
    }

    // 2. histogram-only sweep of longer sequences (impl vs oracle here; model histogram in Coq)
    let histmax = if thorough { 12 } else { 10 };
    for npairs in (maxpairs + 1)..=histmax {
        let total = 3u64.pow(npairs as u32);
        let mut rels = vec![0u8; npairs];
        for code in 0..total {
            let mut c = code;
            for r in rels.iter_mut() {
                *r = (c % 3) as u8;
                c /= 3;
            }
            let v = vec_from_rels(&rels);
            let got = run_f64(&v);
            let want = oracle(&v);
            rep.evaluations += 1;
            hist[v.len()][got.code()] += 1;
            if got != want {
                rep.fail(&format!("classified {:?}, expected {:?}", got, want), obj(vec![("vector", fjson(&v))]));
            }
        }
        rep.count_n(&format!("exhaustive_len{}", npairs + 1), total);
    }
    // histogram case for Coq: model enumerates the same sequences itself
    {
        let hk = rep.kind("c12_hist_ok", "(nat * list Z)");
        for len in 2..=(histmax + 1) {
            let h = hist[len];
            let term = format!("({}%nat, [{}; {}; {}; {}; {}])", len - 1, h[0], h[1], h[2], h[3], h[4]);
            rep.coq_case(hk, term, obj(vec![("histogram_len", J::I(len as i64)), ("counts", J::A(h.iter().map(|&x| J::I(x as i64)).collect()))]));
        }
    }

    // 3. NaN placements: every vector over {relation steps, NaN} up to length `nanlen`
    let nanlen = if thorough { 8 } else { 6 };
    for len in 1..=nanlen {
        // alphabet per position: 0 '<' step, 1 '=' step, 2 '>' step, 3 NaN ; at least one NaN
        let total = 4u64.pow(len as u32);
        for code in 0..total {
            let mut sym = vec![];
            let mut c = code;
            for _ in 0..len {
                sym.push((c % 4) as u8);
                c /= 4;
            }
            if !sym.contains(&3) {
                continue;
            }
            let mut v: Vec<f64> = vec![];
            let mut last = 0.0f64;
            for &sy in &sym {
                match sy {
                    0 => { last += 1.0; v.push(last) }
                    1 => v.push(last),
                    2 => { last -= 1.0; v.push(last) }
                    _ => v.push(f64::NAN),
                }
            }
            let desc = obj(vec![("vector", fjson(&v)), ("gen", s("nan-placement"))]);
            let got = run_all_views(&v, &mut rep, &desc);
            let key = format!("{:?}", v);
            rep.eval(if len >= 2 { Some(&key) } else { None });
            rep.count(&format!("nan_len{}", len));
            if len >= 2 {
                if let Cls::Rising(_) = got {
                    rep.fail("vector containing NaN classified Rising", desc.clone());
                }
            }
            // keep the Coq side to a manageable subset: all up to length 5, sampled beyond
            if len <= 5 || rng.chance(1, 16) {
                rep.coq_case(kind, format!("({}, {})", coq_list(&v), got.coq()), desc.clone());
            }
            if len == 4 && code == 200 {
                rep.sample(obj(vec![("vector", fjson(&v)), ("impl", s(format!("{:?}", got)))]));
            }
        }
    }

    // 3b. every vector over {-inf, -1, 0, 1, +inf} up to length 5 (ties between equal infinities,
    //     steps across infinities) -- f64, f32 and exact runs against the oracle and the model
    {
        let alpha = [f64::NEG_INFINITY, -1.0, 0.0, 1.0, f64::INFINITY];
        let maxl = if thorough { 6 } else { 5 };
        for len in 2..=maxl {
            let total = 5u64.pow(len as u32);
            for code in 0..total {
                let mut c = code;
                let mut v = vec![];
                for _ in 0..len { v.push(alpha[(c % 5) as usize]); c /= 5; }
                let desc = obj(vec![("vector", fjson(&v)), ("gen", s("inf-alphabet"))]);
                let got = run_all_views(&v, &mut rep, &desc);
                rep.eval(Some(&format!("{:?}", v)));
                rep.count(&format!("inf_alphabet_len{}", len));
                if got != oracle(&v) {
                    rep.fail(&format!("classified {:?}, expected {:?}", got, oracle(&v)), desc.clone());
                }
                if len <= 4 || rng.chance(1, 4) {
                    rep.coq_case(kind, format!("({}, {})", coq_list(&v), got.coq()), desc.clone());
                }
            }
        }
    }
    // 3c. integer vectors over the extremes of i32 / i64 (differences overflow; comparisons do not)
    {
        let kz = rep.kind("c12_ok_z", "(list Z * mono)");
        let maxl = if thorough { 5 } else { 4 };
        for (bits, lo, hi) in [(32, i32::MIN as i64, i32::MAX as i64), (64, i64::MIN, i64::MAX)] {
            let alpha = [lo, lo + 1, -1, 0, 1, hi - 1, hi];
            for len in 2..=maxl {
                let total = 7u64.pow(len as u32);
                for code in 0..total {
                    let mut c = code;
                    let mut v = vec![];
                    for _ in 0..len { v.push(alpha[(c % 7) as usize]); c /= 7; }
                    let desc = obj(vec![("vector", J::A(v.iter().map(|&x| J::I(x)).collect())), ("gen", s(format!("i{}-extremes", bits)))]);
                    let r = std::panic::catch_unwind(|| {
                        if bits == 32 { cls_of(Array1::from(v.iter().map(|&x| x as i32).collect::<Vec<_>>()).monotonic_prop()) }
                        else { cls_of(Array1::from(v.clone()).monotonic_prop()) }
                    });
                    rep.eval(Some(&format!("{}:{:?}", bits, v)));
                    rep.count(&format!("int_extremes_i{}", bits));
                    let vf: Vec<f64> = v.iter().map(|&x| x as f64).collect();
                    // the oracle compares exactly (i64 order), not through f64
                    let want = {
                        let p: Vec<(i64, i64)> = v.windows(2).map(|w| (w[0], w[1])).collect();
                        if p.iter().all(|&(a, b)| a < b) { Cls::Rising(true) }
                        else if p.iter().all(|&(a, b)| a <= b) && p.iter().any(|&(a, b)| a < b) && p.iter().any(|&(a, b)| a == b) { Cls::Rising(false) }
                        else if p.iter().all(|&(a, b)| a > b) { Cls::Falling(true) }
                        else if p.iter().all(|&(a, b)| a >= b) && p.iter().any(|&(a, b)| a > b) && p.iter().any(|&(a, b)| a == b) { Cls::Falling(false) }
                        else { Cls::Not }
                    };
                    let _ = vf;
                    match r {
                        Ok(got) => {
                            if got != want { rep.fail(&format!("i{}: classified {:?}, expected {:?}", bits, got, want), desc.clone()); }
                            if len <= 3 || rng.chance(1, 8) {
                                rep.coq_case(kz, format!("([{}], {})", v.iter().map(|x| format!("({})", x)).collect::<Vec<_>>().join("; "), got.coq()), desc.clone());
                            }
                        }
                        Err(_) => rep.fail(&format!("i{}: monotonic_prop panicked", bits), desc.clone()),
                    }
                }
            }
        }
    }

    // 4. random long vectors (mostly monotone with a few disturbances), incl. +-inf
    let nrand = if thorough { 4000 } else { 400 };
    for i in 0..nrand {
        let len = rng.range(2, if thorough { 400 } else { 80 }) as usize;
        let mode = rng.below(5);
        let mut v = vec![];
        let mut cur = rng.range(-50, 50) as f64 * 0.25;
        for _ in 0..len {
            v.push(cur);
            let step = match mode {
                0 => rng.range(1, 8) as f64 * 0.125,
                1 => rng.range(0, 3) as f64 * 0.5,
                2 => -(rng.range(1, 8) as f64) * 0.125,
                3 => -(rng.range(0, 3) as f64) * 0.5,
                _ => rng.range(-2, 6) as f64 * 0.25,
            };
            cur += step;
        }
        let nd = rng.below(3);
        for _ in 0..nd {
            let p = rng.below(len as u64) as usize;
            v[p] = match rng.below(6) {
                0 => f64::NAN,
                1 => f64::INFINITY,
                2 => f64::NEG_INFINITY,
                _ => v[p] + rng.range(-3, 3) as f64,
            };
        }
        let desc = obj(vec![("vector", fjson(&v)), ("gen", s("random-long"))]);
        let got = run_all_views(&v, &mut rep, &desc);
        let key = format!("{:?}", v);
        rep.eval(Some(&key));
        rep.count("random_long");
        let has_nan = v.iter().any(|x| x.is_nan());
        if has_nan {
            if let Cls::Rising(_) = got {
                rep.fail("vector containing NaN classified Rising", desc.clone());
            }
        } else if got != oracle(&v) {
            rep.fail(&format!("classified {:?}, expected {:?}", got, oracle(&v)), desc.clone());
        }
        rep.coq_case(kind, format!("({}, {})", coq_list(&v), got.coq()), desc.clone());
        if i == 0 {
            rep.sample(obj(vec![("vector", fjson(&v)), ("impl", s(format!("{:?}", got)))]));
        }
    }

    rep.finish("every sequence of pair relations {<,=,>} (vectors realising it) up to the stated length, every placement of NaN among relation steps, random long vectors with NaN/inf disturbances; each through f64, f32, i32, i64, exact rationals, strided and reversed views; non-trivial = distinct vector of length >= 2");
}
