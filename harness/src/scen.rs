//! 1-D and 2-D scenarios: one description of (strategy, axis, data, queries) that is run through
//! the crate's real API at several element types (exact rationals, f64, f32) and printed as a
//! Coq literal for the model.  All inputs are f64 values (hence exact dyadic rationals), so the
//! same scenario means the same mathematical input at every element type.
use crate::json::{obj, s, J};
use crate::xrat::{Val, XRat};
use ndarray::{Array, Array1, ArrayD, Dimension, IxDyn, RemoveAxis};
use ndarray_interp::interp1d::cubic_spline::{BoundaryCondition, CubicSpline, RowBoundary, SingleBoundary, SplineNum};
use ndarray_interp::interp1d::{Interp1DBuilder, Linear};
use ndarray_interp::interp2d::{Bilinear, Interp2DBuilder};
use ndarray_interp::{BuilderError, InterpolateError};
use std::panic::{catch_unwind, AssertUnwindSafe};

/// element types the scenarios are run at
pub trait Elem: SplineNum + 'static {
    fn of_f64(f: f64) -> Self;
    fn to_val(self) -> Val;
    const NAME: &'static str;
}
impl Elem for f64 {
    fn of_f64(f: f64) -> f64 {
        f
    }
    fn to_val(self) -> Val {
        Val::from_f64(self)
    }
    const NAME: &'static str = "f64";
}
impl Elem for f32 {
    fn of_f64(f: f64) -> f32 {
        f as f32
    }
    fn to_val(self) -> Val {
        Val::from_f32(self)
    }
    const NAME: &'static str = "f32";
}
impl Elem for XRat {
    fn of_f64(f: f64) -> XRat {
        XRat::new(Val::from_f64(f))
    }
    fn to_val(self) -> Val {
        self.val()
    }
    const NAME: &'static str = "xrat";
}

#[derive(Clone, Debug, PartialEq)]
pub enum Single {
    NotAKnot,
    Natural,
    Clamped,
    FirstDeriv(f64),
    SecondDeriv(f64),
}
#[derive(Clone, Debug, PartialEq)]
pub enum RowBc {
    NotAKnot,
    Natural,
    Clamped,
    Mixed(Single, Single),
}
#[derive(Clone, Debug, PartialEq)]
pub enum Bc {
    NotAKnot,
    Natural,
    Clamped,
    Periodic,
    /// per-lane conditions (row-major over the trailing axes) and the shape of the boundary
    /// array handed to the crate (normally [1, trail...])
    Individual(Vec<RowBc>, Vec<usize>),
}
#[derive(Clone, Debug, PartialEq)]
pub enum Strat1 {
    Linear,
    Spline(Bc),
}

#[derive(Clone, Debug)]
pub struct Scen1 {
    pub strat: Strat1,
    pub ext: bool,
    pub ax: Option<Vec<f64>>,
    pub rows: Vec<Vec<f64>>, // n rows, each with L = product(trail) lanes
    pub trail: Vec<usize>,
    pub queries: Vec<f64>,
}

#[derive(Clone, Debug, PartialEq)]
pub enum Out {
    Ok(Vec<Val>),
    Oob,
    Panic(String),
}
#[derive(Clone, Debug, PartialEq)]
pub enum BuildOut {
    Built,
    Err(&'static str), // NotEnoughData | Monotonic | ShapeError | ValueError
    Panic(String),
}

pub fn bkind(e: &BuilderError) -> &'static str {
    match e {
        BuilderError::NotEnoughData(_) => "NotEnoughData",
        BuilderError::Monotonic(_) => "NotMonotonic",
        BuilderError::ShapeError(_) => "ShapeError",
        BuilderError::ValueError(_) => "ValueError",
    }
}

pub fn panic_msg(e: Box<dyn std::any::Any + Send>) -> String {
    if let Some(s) = e.downcast_ref::<&str>() {
        s.to_string()
    } else if let Some(s) = e.downcast_ref::<String>() {
        s.clone()
    } else {
        "panic".into()
    }
}

fn single<E: Elem>(sb: &Single) -> SingleBoundary<E> {
    match sb {
        Single::NotAKnot => SingleBoundary::NotAKnot,
        Single::Natural => SingleBoundary::Natural,
        Single::Clamped => SingleBoundary::Clamped,
        Single::FirstDeriv(v) => SingleBoundary::FirstDeriv(E::of_f64(*v)),
        Single::SecondDeriv(v) => SingleBoundary::SecondDeriv(E::of_f64(*v)),
    }
}
pub fn rowbc_pub<E: Elem>(rb: &RowBc) -> RowBoundary<E> {
    rowbc(rb)
}
fn rowbc<E: Elem>(rb: &RowBc) -> RowBoundary<E> {
    match rb {
        RowBc::NotAKnot => RowBoundary::NotAKnot,
        RowBc::Natural => RowBoundary::Natural,
        RowBc::Clamped => RowBoundary::Clamped,
        RowBc::Mixed(l, r) => RowBoundary::Mixed { left: single(l), right: single(r) },
    }
}

pub fn data_shape(n: usize, trail: &[usize]) -> Vec<usize> {
    let mut sh = vec![n];
    sh.extend_from_slice(trail);
    sh
}

pub fn make_data<E: Elem>(rows: &[Vec<f64>], trail: &[usize]) -> ArrayD<E> {
    let flat: Vec<E> = rows.iter().flat_map(|r| r.iter().map(|&v| E::of_f64(v))).collect();
    ArrayD::from_shape_vec(IxDyn(&data_shape(rows.len(), trail)), flat).unwrap()
}

impl Scen1 {
    pub fn lanes(&self) -> usize {
        self.trail.iter().product()
    }
    pub fn n(&self) -> usize {
        self.rows.len()
    }
    pub fn axis_vals(&self) -> Vec<f64> {
        match &self.ax {
            Some(a) => a.clone(),
            None => (0..self.n()).map(|i| i as f64).collect(),
        }
    }

    /// run through the crate with data of dimension type D (D::NDIM must match 1 + trail.len(),
    /// or be dynamic)
    pub fn run_dim<E: Elem, D: Dimension + RemoveAxis>(&self) -> (BuildOut, Vec<Out>) {
        let r = catch_unwind(AssertUnwindSafe(|| {
            let lv = next_layout_variant();
            let data: Array<E, D> = relayout(make_data::<E>(&self.rows, &self.trail).into_dimensionality::<D>().unwrap(), if lv >= 1 { 1 } else { 0 });
            let qs: Vec<E> = self.queries.iter().map(|&q| E::of_f64(q)).collect();
            let tshape = data.raw_dim().remove_axis(ndarray::Axis(0));
            macro_rules! go {
                ($builder:expr) => {{
                    match $builder.build() {
                        Err(e) => (BuildOut::Err(bkind(&e)), vec![]),
                        Ok(interp) => {
                            let mut outs = vec![];
                            for (qi, &q) in qs.iter().enumerate() {
                                // every third query goes through interp_into with a target that is NOT zeroed:
                                // the strategies must overwrite, not accumulate
                                let o = catch_unwind(AssertUnwindSafe(|| {
                                    if qi % 3 == 2 {
                                        let mut buf = Array::<E, D::Smaller>::from_elem(tshape.clone(), E::of_f64(7.5));
                                        interp.interp_into(q, buf.view_mut()).map(|_| buf)
                                    } else {
                                        interp.interp(q)
                                    }
                                }));
                                outs.push(match o {
                                    Ok(Ok(arr)) => Out::Ok(arr.iter().map(|v| v.to_val()).collect()),
                                    Ok(Err(InterpolateError::OutOfBounds(_))) => Out::Oob,
                                    Err(p) => Out::Panic(panic_msg(p)),
                                });
                            }
                            (BuildOut::Built, outs)
                        }
                    }
                }};
            }
            match (&self.strat, &self.ax) {
                (Strat1::Linear, None) => {
                    go!(Interp1DBuilder::new(data).strategy(configure_linear(self.ext)))
                }
                (Strat1::Linear, Some(ax)) => {
                    let x = relayout(Array1::from(ax.iter().map(|&v| E::of_f64(v)).collect::<Vec<_>>()), if lv == 2 { 1 } else { 0 });
                    go!(Interp1DBuilder::new(data).x(x).strategy(configure_linear(self.ext)))
                }
                (Strat1::Spline(bc), axo) => {
                    let boundary: BoundaryCondition<E, D> = match bc {
                        Bc::NotAKnot => BoundaryCondition::NotAKnot,
                        Bc::Natural => BoundaryCondition::Natural,
                        Bc::Clamped => BoundaryCondition::Clamped,
                        Bc::Periodic => BoundaryCondition::Periodic,
                        Bc::Individual(rbs, shape) => {
                            let v: Vec<RowBoundary<E>> = rbs.iter().map(rowbc::<E>).collect();
                            let arr = ArrayD::from_shape_vec(IxDyn(shape), v).unwrap();
                            BoundaryCondition::Individual(arr.into_dimensionality::<D>().unwrap())
                        }
                    };
                    let strat = configure_spline(self.ext, boundary);
                    match axo {
                        None => go!(Interp1DBuilder::new(data).strategy(strat)),
                        Some(ax) => {
                            let x = relayout(Array1::from(ax.iter().map(|&v| E::of_f64(v)).collect::<Vec<_>>()), if lv == 2 { 1 } else { 0 });
                            go!(Interp1DBuilder::new(data).x(x).strategy(strat))
                        }
                    }
                }
            }
        }));
        match r {
            Ok(x) => x,
            Err(p) => (BuildOut::Panic(panic_msg(p)), vec![]),
        }
    }

    pub fn run<E: Elem>(&self) -> (BuildOut, Vec<Out>) {
        let mut r = self.run_dim::<E, IxDyn>();
        if r.0 == BuildOut::Built && !r.1.is_empty() {
            if let Some(msg) = self.batch_mismatch::<E>(&r.1) {
                r.1[0] = Out::Panic(msg);
            }
        }
        r
    }

    /// The same queries once more as ONE batch through interp_array -- as a static rank-1 array (fast
    /// path), a dynamic rank-1 array and a rank-2 array (general path): the batch must be Ok with exactly
    /// the per-query values when every query is answered, and OutOfBounds as a whole when one is refused.
    /// Returns a description of the first disagreement.
    fn batch_mismatch<E: Elem>(&self, outs: &[Out]) -> Option<String> {
        if outs.iter().any(|o| matches!(o, Out::Panic(_))) {
            return None;
        }
        let any_oob = outs.iter().any(|o| matches!(o, Out::Oob));
        let mut flat: Vec<Val> = vec![];
        for o in outs { if let Out::Ok(v) = o { flat.extend(v.iter().cloned()); } }
        let qs: Vec<E> = self.queries.iter().map(|&q| E::of_f64(q)).collect();
        let k = qs.len();
        let r = catch_unwind(AssertUnwindSafe(|| -> Option<String> {
            let data: ArrayD<E> = make_data::<E>(&self.rows, &self.trail);
            macro_rules! go {
                ($builder:expr) => {{
                    let interp = match $builder.build() { Ok(i) => i, Err(_) => return Some("second build of the same scenario failed".into()) };
                    let mut res: Vec<(&'static str, Result<Vec<Val>, ()>)> = vec![];
                    let q1 = Array1::from(qs.clone());
                    res.push(("static rank-1 query", interp.interp_array(&q1).map(|a| a.iter().map(|v| v.to_val()).collect()).map_err(|_| ())));
                    let qd = ArrayD::from_shape_vec(IxDyn(&[k]), qs.clone()).unwrap();
                    res.push(("dynamic rank-1 query", interp.interp_array(&qd).map(|a| a.iter().map(|v| v.to_val()).collect()).map_err(|_| ())));
                    let q2 = ArrayD::from_shape_vec(IxDyn(&[k, 1]), qs.clone()).unwrap();
                    res.push(("rank-2 query", interp.interp_array(&q2).map(|a| a.iter().map(|v| v.to_val()).collect()).map_err(|_| ())));
                    for (name, r) in res {
                        match (r, any_oob) {
                            (Ok(v), false) => if v != flat { return Some(format!("interp_array ({}) returns other values than interp for the same queries", name)); },
                            (Ok(_), true) => return Some(format!("interp_array ({}) returned Ok although interp refuses one of the queries (OutOfBounds)", name)),
                            (Err(()), false) => return Some(format!("interp_array ({}) returned an error although interp answers every query", name)),
                            (Err(()), true) => {}
                        }
                    }
                    None
                }};
            }
            match (&self.strat, &self.ax) {
                (Strat1::Linear, None) => go!(Interp1DBuilder::new(data).strategy(configure_linear(self.ext))),
                (Strat1::Linear, Some(ax)) => {
                    let x = Array1::from(ax.iter().map(|&v| E::of_f64(v)).collect::<Vec<_>>());
                    go!(Interp1DBuilder::new(data).x(x).strategy(configure_linear(self.ext)))
                }
                (Strat1::Spline(bc), axo) => {
                    let boundary: BoundaryCondition<E, IxDyn> = match bc {
                        Bc::NotAKnot => BoundaryCondition::NotAKnot,
                        Bc::Natural => BoundaryCondition::Natural,
                        Bc::Clamped => BoundaryCondition::Clamped,
                        Bc::Periodic => BoundaryCondition::Periodic,
                        Bc::Individual(rbs, shape) => {
                            let v: Vec<RowBoundary<E>> = rbs.iter().map(rowbc::<E>).collect();
                            BoundaryCondition::Individual(ArrayD::from_shape_vec(IxDyn(shape), v).unwrap())
                        }
                    };
                    let strat = configure_spline(self.ext, boundary);
                    match axo {
                        None => go!(Interp1DBuilder::new(data).strategy(strat)),
                        Some(ax) => {
                            let x = Array1::from(ax.iter().map(|&v| E::of_f64(v)).collect::<Vec<_>>());
                            go!(Interp1DBuilder::new(data).x(x).strategy(strat))
                        }
                    }
                }
            }
        }));
        match r {
            Ok(x) => x,
            Err(p) => Some(format!("interp_array panicked on queries that interp handles: {}", panic_msg(p))),
        }
    }

    // ---------------- Coq / JSON rendering ----------------
    pub fn to_coq(&self, num: &dyn Fn(f64) -> String) -> String {
        let list = |v: &[f64]| format!("[{}]", v.iter().map(|&x| num(x)).collect::<Vec<_>>().join("; "));
        let ax = match &self.ax {
            Some(a) => format!("(Some {})", list(a)),
            None => "None".to_string(),
        };
        let rows = format!("[{}]", self.rows.iter().map(|r| list(r)).collect::<Vec<_>>().join("; "));
        format!(
            "(mkScen1 {} {} {} {} [{}] {})",
            strat_coq(&self.strat, num, self.lanes()),
            if self.ext { "true" } else { "false" },
            ax,
            rows,
            self.trail.iter().map(|d| format!("{}%nat", d)).collect::<Vec<_>>().join("; "),
            list(&self.queries)
        )
    }
    pub fn to_json(&self) -> J {
        let fl = |v: &[f64]| J::A(v.iter().map(|x| s(format!("{:?}", x))).collect());
        obj(vec![
            ("strategy", s(format!("{:?}", self.strat))),
            ("extrapolate", J::B(self.ext)),
            ("axis", match &self.ax { Some(a) => fl(a), None => s("default") }),
            ("rows", J::A(self.rows.iter().map(|r| fl(r)).collect())),
            ("trailing_shape", J::A(self.trail.iter().map(|&t| J::I(t as i64)).collect())),
            ("queries", fl(&self.queries)),
        ])
    }
}

fn single_coq(sb: &Single, num: &dyn Fn(f64) -> String) -> String {
    match sb {
        Single::NotAKnot => "SNotAKnot".into(),
        Single::Natural => "SNatural".into(),
        Single::Clamped => "SClamped".into(),
        Single::FirstDeriv(v) => format!("(SFirstDeriv {})", num(*v)),
        Single::SecondDeriv(v) => format!("(SSecondDeriv {})", num(*v)),
    }
}
fn rowbc_coq(rb: &RowBc, num: &dyn Fn(f64) -> String) -> String {
    match rb {
        RowBc::NotAKnot => "RNotAKnot".into(),
        RowBc::Natural => "RNatural".into(),
        RowBc::Clamped => "RClamped".into(),
        RowBc::Mixed(l, r) => format!("(RMixed {} {})", single_coq(l, num), single_coq(r, num)),
    }
}
pub fn strat_coq(st: &Strat1, num: &dyn Fn(f64) -> String, lanes: usize) -> String {
    match st {
        Strat1::Linear => "SLinear".into(),
        Strat1::Spline(bc) => match bc {
            Bc::NotAKnot => "(SSpline BNotAKnot)".into(),
            Bc::Natural => "(SSpline BNatural)".into(),
            Bc::Clamped => "(SSpline BClamped)".into(),
            Bc::Periodic => "(SSpline BPeriodic)".into(),
            Bc::Individual(rbs, shape) => {
                // the model receives the per-lane list and whether the array shape is the
                // required one (1, trailing dims)
                let _ = lanes;
                format!(
                    "(SSpline (BIndividual [{}] [{}]))",
                    rbs.iter().map(|r| rowbc_coq(r, num)).collect::<Vec<_>>().join("; "),
                    shape.iter().map(|d| format!("{}%nat", d)).collect::<Vec<_>>().join("; ")
                )
            }
        },
    }
}

pub fn qc(f: f64) -> String {
    Val::from_f64(f).to_coq_qc()
}
pub fn xq(f: f64) -> String {
    Val::from_f64(f).to_coq_xq()
}

pub fn out_coq(o: &Out, num: &dyn Fn(&Val) -> String) -> String {
    match o {
        Out::Ok(v) => format!("(ROk [{}])", v.iter().map(|x| num(x)).collect::<Vec<_>>().join("; ")),
        Out::Oob => "ROob".into(),
        Out::Panic(_) => "RPanic".into(),
    }
}
pub fn build_coq(b: &BuildOut) -> String {
    match b {
        BuildOut::Built => "BBuilt".into(),
        BuildOut::Err(k) => format!("(BErr {})", k),
        BuildOut::Panic(_) => "BPanic".into(),
    }
}
pub fn outs_coq(b: &BuildOut, outs: &[Out], num: &dyn Fn(&Val) -> String) -> String {
    format!("({}, [{}])", build_coq(b), outs.iter().map(|o| out_coq(o, num)).collect::<Vec<_>>().join("; "))
}
pub fn out_json(o: &Out) -> J {
    match o {
        Out::Ok(v) => J::A(v.iter().map(|x| s(x.to_text())).collect()),
        Out::Oob => s("OutOfBounds"),
        Out::Panic(m) => s(format!("panic: {}", m.chars().take(80).collect::<String>())),
    }
}

// ---------------------------------------------------------------------------------------
// 2-D

#[derive(Clone, Debug)]
pub struct Scen2 {
    pub ext: bool,
    pub xax: Option<Vec<f64>>,
    pub yax: Option<Vec<f64>>,
    pub cells: Vec<Vec<Vec<f64>>>, // [ix][iy][lane]
    pub trail: Vec<usize>,
    pub queries: Vec<(f64, f64)>,
}

impl Scen2 {
    pub fn nx(&self) -> usize {
        self.cells.len()
    }
    pub fn ny(&self) -> usize {
        self.cells.first().map(|r| r.len()).unwrap_or(0)
    }
    pub fn xvals(&self) -> Vec<f64> {
        self.xax.clone().unwrap_or_else(|| (0..self.nx()).map(|i| i as f64).collect())
    }
    pub fn yvals(&self) -> Vec<f64> {
        self.yax.clone().unwrap_or_else(|| (0..self.ny()).map(|i| i as f64).collect())
    }
    pub fn make_data<E: Elem>(&self) -> ArrayD<E> {
        let mut sh = vec![self.nx(), self.ny()];
        sh.extend_from_slice(&self.trail);
        let flat: Vec<E> = self
            .cells
            .iter()
            .flat_map(|r| r.iter().flat_map(|c| c.iter().map(|&v| E::of_f64(v))))
            .collect();
        ArrayD::from_shape_vec(IxDyn(&sh), flat).unwrap()
    }
    pub fn run_dim<E: Elem, D>(&self) -> (BuildOut, Vec<Out>)
    where
        D: Dimension + RemoveAxis,
        D::Smaller: RemoveAxis,
    {
        let r = catch_unwind(AssertUnwindSafe(|| {
            let lv = next_layout_variant();
            let data: Array<E, D> = relayout(self.make_data::<E>().into_dimensionality::<D>().unwrap(), if lv >= 1 { 1 } else { 0 });
            macro_rules! go {
                ($builder:expr) => {{
                    match $builder.build() {
                        Err(e) => (BuildOut::Err(bkind(&e)), vec![]),
                        Ok(interp) => {
                            let mut outs = vec![];
                            for &(qx, qy) in &self.queries {
                                let (qx, qy) = (E::of_f64(qx), E::of_f64(qy));
                                let o = catch_unwind(AssertUnwindSafe(|| interp.interp(qx, qy)));
                                outs.push(match o {
                                    Ok(Ok(arr)) => Out::Ok(arr.iter().map(|v| v.to_val()).collect()),
                                    Ok(Err(InterpolateError::OutOfBounds(_))) => Out::Oob,
                                    Err(p) => Out::Panic(panic_msg(p)),
                                });
                            }
                            (BuildOut::Built, outs)
                        }
                    }
                }};
            }
            let st = configure_bilinear(self.ext);
            let ar = |v: &Vec<f64>| relayout(Array1::from(v.iter().map(|&x| E::of_f64(x)).collect::<Vec<_>>()), if lv == 2 { 1 } else { 0 });
            match (&self.xax, &self.yax) {
                (None, None) => go!(Interp2DBuilder::new(data).strategy(st)),
                (Some(x), None) => go!(Interp2DBuilder::new(data).x(ar(x)).strategy(st)),
                (None, Some(y)) => go!(Interp2DBuilder::new(data).y(ar(y)).strategy(st)),
                (Some(x), Some(y)) => go!(Interp2DBuilder::new(data).x(ar(x)).y(ar(y)).strategy(st)),
            }
        }));
        match r {
            Ok(x) => x,
            Err(p) => (BuildOut::Panic(panic_msg(p)), vec![]),
        }
    }
    pub fn run<E: Elem>(&self) -> (BuildOut, Vec<Out>) {
        let mut r = self.run_dim::<E, IxDyn>();
        if r.0 == BuildOut::Built && !r.1.is_empty() {
            if let Some(msg) = self.batch_mismatch::<E>(&r.1) {
                r.1[0] = Out::Panic(msg);
            }
        }
        r
    }
    /// 2-D analogue of Scen1::batch_mismatch
    fn batch_mismatch<E: Elem>(&self, outs: &[Out]) -> Option<String> {
        if outs.iter().any(|o| matches!(o, Out::Panic(_))) {
            return None;
        }
        let any_oob = outs.iter().any(|o| matches!(o, Out::Oob));
        let mut flat: Vec<Val> = vec![];
        for o in outs { if let Out::Ok(v) = o { flat.extend(v.iter().cloned()); } }
        let qx: Vec<E> = self.queries.iter().map(|&(x, _)| E::of_f64(x)).collect();
        let qy: Vec<E> = self.queries.iter().map(|&(_, y)| E::of_f64(y)).collect();
        let k = qx.len();
        let r = catch_unwind(AssertUnwindSafe(|| -> Option<String> {
            let data: ArrayD<E> = self.make_data::<E>();
            macro_rules! go {
                ($builder:expr) => {{
                    let interp = match $builder.build() { Ok(i) => i, Err(_) => return Some("second build of the same scenario failed".into()) };
                    let mut res: Vec<(&'static str, Result<Vec<Val>, ()>)> = vec![];
                    res.push(("static rank-1 queries", interp.interp_array(&Array1::from(qx.clone()), &Array1::from(qy.clone())).map(|a| a.iter().map(|v| v.to_val()).collect()).map_err(|_| ())));
                    let xd = ArrayD::from_shape_vec(IxDyn(&[k]), qx.clone()).unwrap();
                    let yd = ArrayD::from_shape_vec(IxDyn(&[k]), qy.clone()).unwrap();
                    res.push(("dynamic rank-1 queries", interp.interp_array(&xd, &yd).map(|a| a.iter().map(|v| v.to_val()).collect()).map_err(|_| ())));
                    let x2 = ArrayD::from_shape_vec(IxDyn(&[1, k]), qx.clone()).unwrap();
                    let y2 = ArrayD::from_shape_vec(IxDyn(&[1, k]), qy.clone()).unwrap();
                    res.push(("rank-2 queries", interp.interp_array(&x2, &y2).map(|a| a.iter().map(|v| v.to_val()).collect()).map_err(|_| ())));
                    if k >= 4 && k % 2 == 0 {
                        // (2, k/2) query arrays, x row-major and y column-major: logical order is what counts
                        use ndarray::ShapeBuilder;
                        let xc = ArrayD::from_shape_vec(IxDyn(&[2, k / 2]), qx.clone()).unwrap();
                        let yc = ArrayD::from_shape_vec(IxDyn(&[2, k / 2]), qy.clone()).unwrap();
                        let mut yf = ArrayD::from_elem(IxDyn(&[2, k / 2]).f(), qy[0]);
                        yf.assign(&yc);
                        res.push(("rank-2 queries, y in Fortran order", interp.interp_array(&xc, &yf).map(|a| a.iter().map(|v| v.to_val()).collect()).map_err(|_| ())));
                        let mut xf = ArrayD::from_elem(IxDyn(&[2, k / 2]).f(), qx[0]);
                        xf.assign(&xc);
                        res.push(("rank-2 queries, x in Fortran order", interp.interp_array(&xf, &yc).map(|a| a.iter().map(|v| v.to_val()).collect()).map_err(|_| ())));
                    }
                    for (name, r) in res {
                        match (r, any_oob) {
                            (Ok(v), false) => if v != flat { return Some(format!("2-D interp_array ({}) returns other values than interp for the same queries", name)); },
                            (Ok(_), true) => return Some(format!("2-D interp_array ({}) returned Ok although interp refuses one of the queries (OutOfBounds)", name)),
                            (Err(()), false) => return Some(format!("2-D interp_array ({}) returned an error although interp answers every query", name)),
                            (Err(()), true) => {}
                        }
                    }
                    None
                }};
            }
            let st = configure_bilinear(self.ext);
            let ar = |v: &Vec<f64>| Array1::from(v.iter().map(|&x| E::of_f64(x)).collect::<Vec<_>>());
            match (&self.xax, &self.yax) {
                (None, None) => go!(Interp2DBuilder::new(data).strategy(st)),
                (Some(x), None) => go!(Interp2DBuilder::new(data).x(ar(x)).strategy(st)),
                (None, Some(y)) => go!(Interp2DBuilder::new(data).y(ar(y)).strategy(st)),
                (Some(x), Some(y)) => go!(Interp2DBuilder::new(data).x(ar(x)).y(ar(y)).strategy(st)),
            }
        }));
        match r {
            Ok(x) => x,
            Err(p) => Some(format!("2-D interp_array panicked on queries that interp handles: {}", panic_msg(p))),
        }
    }
    pub fn to_coq(&self, num: &dyn Fn(f64) -> String) -> String {
        let list = |v: &[f64]| format!("[{}]", v.iter().map(|&x| num(x)).collect::<Vec<_>>().join("; "));
        let axs = |a: &Option<Vec<f64>>| match a {
            Some(a) => format!("(Some {})", list(a)),
            None => "None".to_string(),
        };
        let cells = format!(
            "[{}]",
            self.cells
                .iter()
                .map(|r| format!("[{}]", r.iter().map(|c| list(c)).collect::<Vec<_>>().join("; ")))
                .collect::<Vec<_>>()
                .join("; ")
        );
        let qs = format!(
            "[{}]",
            self.queries.iter().map(|&(a, b)| format!("({}, {})", num(a), num(b))).collect::<Vec<_>>().join("; ")
        );
        format!(
            "(mkScen2 {} {} {} {} {})",
            if self.ext { "true" } else { "false" },
            axs(&self.xax),
            axs(&self.yax),
            cells,
            qs
        )
    }
    pub fn to_json(&self) -> J {
        let fl = |v: &[f64]| J::A(v.iter().map(|x| s(format!("{:?}", x))).collect());
        obj(vec![
            ("strategy", s("Bilinear")),
            ("extrapolate", J::B(self.ext)),
            ("x", match &self.xax { Some(a) => fl(a), None => s("default") }),
            ("y", match &self.yax { Some(a) => fl(a), None => s("default") }),
            ("data", J::A(self.cells.iter().map(|r| J::A(r.iter().map(|c| fl(c)).collect())).collect())),
            ("trailing_shape", J::A(self.trail.iter().map(|&t| J::I(t as i64)).collect())),
            ("queries", J::A(self.queries.iter().map(|&(a, b)| J::A(vec![s(format!("{:?}", a)), s(format!("{:?}", b))])).collect())),
        ])
    }
}

/// Configure a CubicSpline through one of four equivalent setter sequences (chosen round-robin):
/// the configuration must not depend on the order of the builder calls.
pub fn configure_spline<T, D>(ext: bool, boundary: BoundaryCondition<T, D>) -> CubicSpline<T, D>
where
    T: ndarray_interp::interp1d::cubic_spline::SplineNum,
    D: ndarray::Dimension + ndarray::RemoveAxis,
{
    use std::sync::atomic::{AtomicUsize, Ordering};
    static ORDER: AtomicUsize = AtomicUsize::new(0);
    match ORDER.fetch_add(1, Ordering::Relaxed) % 4 {
        0 => CubicSpline::new().extrapolate(ext).boundary(boundary),
        1 => CubicSpline::new().boundary(boundary).extrapolate(ext),
        2 => CubicSpline::new().extrapolate(!ext).boundary(boundary).extrapolate(ext),
        _ => CubicSpline::new().boundary(BoundaryCondition::Natural).extrapolate(ext).boundary(boundary),
    }
}

/// Linear / Bilinear configured through equivalent setter sequences (round-robin): the last call decides.
pub fn configure_linear(ext: bool) -> Linear {
    use std::sync::atomic::{AtomicUsize, Ordering};
    static ORDER: AtomicUsize = AtomicUsize::new(0);
    match ORDER.fetch_add(1, Ordering::Relaxed) % 3 {
        0 => Linear::new().extrapolate(ext),
        1 => Linear::new().extrapolate(!ext).extrapolate(ext),
        _ => Linear::new().extrapolate(ext).extrapolate(!ext).extrapolate(ext),
    }
}
pub fn configure_bilinear(ext: bool) -> Bilinear {
    use std::sync::atomic::{AtomicUsize, Ordering};
    static ORDER: AtomicUsize = AtomicUsize::new(0);
    match ORDER.fetch_add(1, Ordering::Relaxed) % 3 {
        0 => Bilinear::new().extrapolate(ext),
        1 => Bilinear::new().extrapolate(!ext).extrapolate(ext),
        _ => Bilinear::new().extrapolate(ext).extrapolate(!ext).extrapolate(ext),
    }
}

/// Storage variants of one logical array (round-robin per call site): 0 = standard layout, 1 / 2 = the same
/// logical contents stored with a NEGATIVE stride along the last axis (a contiguous block in reverse memory
/// order).  Results must not depend on it (C13); used for the data and the axes of every scenario.
pub fn relayout<E: Clone, D: Dimension>(a: Array<E, D>, variant: usize) -> Array<E, D> {
    if variant == 0 || a.ndim() == 0 {
        return a;
    }
    let last = ndarray::Axis(a.ndim() - 1);
    let mut rev = a;
    rev.invert_axis(last);
    let mut stored = rev.as_standard_layout().to_owned();
    stored.invert_axis(last);
    stored
}
pub fn next_layout_variant() -> usize {
    use std::sync::atomic::{AtomicUsize, Ordering};
    static V: AtomicUsize = AtomicUsize::new(0);
    V.fetch_add(1, Ordering::Relaxed) % 3
}
