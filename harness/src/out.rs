//! Collects what a run covered and writes (a) Coq case files that embed the inputs *and the
//! implementation's outputs* (Coq evaluates the model and does the comparison itself),
//! (b) cases.jsonl (id -> description, for replays), (c) result.json for the driver.
use crate::json::{obj, s, J};
use std::collections::{BTreeMap, BTreeSet};
use std::fs;
use std::io::Write;
use std::path::PathBuf;

pub struct Kind {
    pub check_fn: String,
    pub coq_type: String,
    pub cases: Vec<(u64, String)>,
}

pub struct Report {
    pub prop: String,
    pub out: PathBuf,
    pub evaluations: u64,
    pub nontrivial: BTreeSet<u64>,
    pub samples: Vec<J>,
    pub failures: Vec<J>,
    pub known: Vec<J>,
    pub dist: BTreeMap<String, u64>,
    pub kinds: Vec<Kind>,
    pub next_id: u64,
    pub index: Vec<String>,
    pub shard_size: usize,
    pub extra: Vec<(String, J)>,
    pub max_samples: usize,
}

pub fn hash_str(st: &str) -> u64 {
    // FNV-1a
    let mut h: u64 = 0xcbf29ce484222325;
    for b in st.bytes() {
        h ^= b as u64;
        h = h.wrapping_mul(0x100000001b3);
    }
    h
}

impl Report {
    pub fn new(prop: &str, out: &str) -> Report {
        fs::create_dir_all(out).unwrap();
        Report {
            prop: prop.into(),
            out: PathBuf::from(out),
            evaluations: 0,
            nontrivial: BTreeSet::new(),
            samples: vec![],
            failures: vec![],
            known: vec![],
            dist: BTreeMap::new(),
            kinds: vec![],
            next_id: 1,
            index: vec![],
            shard_size: 400,
            extra: vec![],
            max_samples: 6,
        }
    }
    pub fn count(&mut self, key: &str) {
        *self.dist.entry(key.to_string()).or_insert(0) += 1;
    }
    pub fn count_n(&mut self, key: &str, n: u64) {
        *self.dist.entry(key.to_string()).or_insert(0) += n;
    }
    /// one evaluation; `nontrivial_key` = Some(canonical text) if it reaches the interesting branch
    pub fn eval(&mut self, nontrivial_key: Option<&str>) {
        self.evaluations += 1;
        if let Some(k) = nontrivial_key {
            self.nontrivial.insert(hash_str(k));
        }
    }
    pub fn sample(&mut self, j: J) {
        if self.samples.len() < self.max_samples {
            self.samples.push(j);
        }
    }
    pub fn kind(&mut self, check_fn: &str, coq_type: &str) -> usize {
        if let Some(i) = self.kinds.iter().position(|k| k.check_fn == check_fn) {
            return i;
        }
        self.kinds.push(Kind { check_fn: check_fn.into(), coq_type: coq_type.into(), cases: vec![] });
        self.kinds.len() - 1
    }
    /// register a case for the Coq-side comparison; returns its id
    pub fn coq_case(&mut self, kind: usize, term: String, desc: J) -> u64 {
        if term.contains("QC_NONFINITE") {
            // an exact run over finite rationals produced inf / NaN (a division by zero in the
            // implementation): a failing input in its own right, not a Coq case
            self.fail("exact run on finite rational inputs produced a non-finite value (division by zero)", desc);
            return 0;
        }
        let id = self.next_id;
        self.next_id += 1;
        self.kinds[kind].cases.push((id, term));
        let line = obj(vec![("id", J::I(id as i64)), ("kind", s(self.kinds[kind].check_fn.clone())), ("case", desc)]);
        self.index.push(line.render());
        id
    }
    pub fn fail(&mut self, what: &str, desc: J) {
        if self.failures.len() < 50 {
            self.failures.push(obj(vec![("what", s(what)), ("case", desc)]));
        } else {
            self.failures.push(obj(vec![("what", s(what))]));
        }
    }
    /// failure that falls into a witness class which /verif/known_findings.json may list
    pub fn fail_k(&mut self, key: &str, what: &str, desc: J) {
        self.failures.push(obj(vec![("key", s(key)), ("what", s(what)), ("case", desc)]));
    }
    pub fn known_finding(&mut self, key: &str, what: &str) {
        if !self.known.iter().any(|k| matches!(k, J::O(v) if matches!(&v[0].1, J::S(x) if x == key))) {
            self.known.push(obj(vec![("key", s(key)), ("what", s(what))]));
        }
    }
    pub fn finish(mut self, rule: &str) {
        // Coq files
        let mut files = vec![];
        let imports = "From Coq Require Import List ZArith QArith Qcanon.\nFrom NI Require Import Num Base Corr.\nImport ListNotations.\nOpen Scope Z_scope.\n";
        let mut fileno = 0;
        for k in &self.kinds {
            let total: usize = self.kinds.iter().map(|k| k.cases.len()).sum();
            let shard = if self.shard_size == 0 { ((total + 47) / 48).max(8) } else { self.shard_size };
            for chunk in k.cases.chunks(shard) {
                fileno += 1;
                let name = format!("{}_{}.v", self.prop, fileno);
                let path = self.out.join(&name);
                let mut f = std::io::BufWriter::new(fs::File::create(&path).unwrap());
                writeln!(f, "{}", imports).unwrap();
                writeln!(f, "Definition cases : list (Z * {}) := [", k.coq_type).unwrap();
                for (i, (id, term)) in chunk.iter().enumerate() {
                    let sep = if i + 1 == chunk.len() { "" } else { ";" };
                    writeln!(f, " ({}, {}){}", id, term, sep).unwrap();
                }
                writeln!(f, "].").unwrap();
                writeln!(f, "Eval vm_compute in (failing {} cases).", k.check_fn).unwrap();
                files.push(s(name));
            }
        }
        let mut idx = std::io::BufWriter::new(fs::File::create(self.out.join("cases.jsonl")).unwrap());
        for l in &self.index {
            writeln!(idx, "{}", l).unwrap();
        }
        let dist = J::O(self.dist.iter().map(|(k, v)| (k.clone(), J::I(*v as i64))).collect());
        let mut top = vec![
            ("property".to_string(), s(self.prop.clone())),
            ("evaluations".to_string(), J::I(self.evaluations as i64)),
            ("distinct_nontrivial".to_string(), J::I(self.nontrivial.len() as i64)),
            ("rule".to_string(), s(rule)),
            ("samples".to_string(), J::A(self.samples.clone())),
            ("failures".to_string(), J::A(self.failures.clone())),
            ("known".to_string(), J::A(self.known.clone())),
            ("distribution".to_string(), dist),
            ("coq_files".to_string(), J::A(files)),
            ("coq_cases".to_string(), J::I((self.next_id - 1) as i64)),
        ];
        top.append(&mut self.extra);
        fs::write(self.out.join("result.json"), J::O(top).render()).unwrap();
    }
}
