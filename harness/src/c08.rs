//! C08: the n-d interpolator against interpolators built lane by lane; other lanes perturbed.
use crate::gen::*;
use crate::json::{obj, s, J};
use crate::out::Report;
use crate::rng::Rng;
use crate::scen::*;
use crate::spl::{gen_spline_scen, SplineOpts};
use crate::xrat::{arena_reset, XRat};
use crate::Cfg;
use ndarray::{Ix1, Ix2, Ix3, Ix4, Ix5, Ix6};

fn lane_scen(sc: &Scen1, j: usize) -> Scen1 {
    let strat = match &sc.strat {
        Strat1::Spline(Bc::Individual(rbs, _)) => Strat1::Spline(Bc::Individual(vec![rbs[j].clone()], vec![1])),
        o => o.clone(),
    };
    Scen1 { strat, ext: sc.ext, ax: sc.ax.clone(), rows: sc.rows.iter().map(|r| vec![r[j]]).collect(), trail: vec![], queries: sc.queries.clone() }
}
fn lane_of(res: &(BuildOut, Vec<Out>), j: usize) -> (BuildOut, Vec<Out>) {
    (res.0.clone(), res.1.iter().map(|o| match o { Out::Ok(v) => Out::Ok(vec![v[j].clone()]), o => o.clone() }).collect())
}
fn bitstr(r: &(BuildOut, Vec<Out>)) -> String {
    format!("{:?}", r)
}

pub fn run(cfg: &Cfg) {
    let mut rep = Report::new("C08", &cfg.out);
    let ks = rep.kind(crate::spl::SPLINE_KIND.0, crate::spl::SPLINE_KIND.1);
    let k1 = rep.kind("scen1_ok_qc", "(scen1 Qc * (bout * list (rout Qc)))");
    let k2 = rep.kind("scen2_ok_qc", "(scen2 Qc * (bout * list (rout Qc)))");
    rep.shard_size = 0;
    let mut rng = Rng::new(cfg.seed);
    let thorough = cfg.tier == "thorough";
    let ncases = if thorough { 3000 } else { 240 };
    let trails: Vec<Vec<usize>> = vec![vec![1], vec![3], vec![2, 2], vec![2, 1, 3], vec![1, 1], vec![3, 2], vec![2, 0], vec![2, 1, 2, 1], vec![1, 2, 1, 1, 2], vec![4]];
    for ci in 0..ncases {
        let trail = rng.pick(&trails).clone();
        let lanes: usize = trail.iter().product();
        if ci % 4 == 3 {
            // ---- Bilinear ----
            let (mut sc, _f, _c) = { let e = rng.coin(); crate::lin::gen_bilinear_scen(&mut rng, false, e, false) };
            sc.trail = trail.clone();
            for r in sc.cells.iter_mut() { for c in r.iter_mut() { *c = (0..lanes).map(|_| gen_value(&mut rng, true)).collect(); } }
            arena_reset();
            let full = sc.run::<XRat>();
            let fullf = sc.run::<f64>();
            rep.eval(Some(&format!("{:?}", sc)));
            rep.count(&format!("bilinear:trail-rank{}", trail.len()));
            for j in 0..lanes {
                let one = Scen2 { cells: sc.cells.iter().map(|r| r.iter().map(|c| vec![c[j]]).collect()).collect(), trail: vec![], ..sc.clone() };
                let r1 = one.run::<XRat>();
                let r1f = one.run::<f64>();
                rep.evaluations += 2;
                if r1 != lane_of(&full, j) || bitstr(&r1f) != bitstr(&lane_of(&fullf, j)) {
                    rep.fail(&format!("Bilinear: lane {} of the n-d result differs from the interpolator built from that lane alone", j), sc.to_json());
                    break;
                }
            }
            if lanes >= 2 {
                let j = rng.below(lanes as u64) as usize;
                let mut var = sc.clone();
                for r in var.cells.iter_mut() { for c in r.iter_mut() { for (l, v) in c.iter_mut().enumerate() { if l != j { *v = if rng.chance(1, 3) { f64::NAN } else { gen_value(&mut rng, true) * 3.0 }; } } } }
                let vf = var.run::<f64>();
                if bitstr(&lane_of(&vf, j)) != bitstr(&lane_of(&fullf, j)) {
                    rep.fail(&format!("Bilinear: changing other lanes changed lane {}", j), sc.to_json());
                }
            }
            let term = format!("({}, {})", sc.to_coq(&qc), outs_coq(&full.0, &full.1, &|v| v.to_coq_qc()));
            rep.coq_case(k2, term, sc.to_json());
            continue;
        }
        let spline = ci % 4 != 0;
        let mut sc = if spline {
            let o = SplineOpts { nmax: if thorough { 12 } else { 7 }, ext: rng.coin(), allow_periodic: true, force_bc: None, outside: false };
            gen_spline_scen(&mut rng, &o).0
        } else {
            { let e = rng.coin(); crate::lin::gen_linear_scen(&mut rng, false, e, false).0 }
        };
        // impose the trailing shape of this case
        let n = sc.n();
        sc.trail = trail.clone();
        sc.rows = gen_rows(&mut rng, n, lanes, true);
        sc.queries.truncate(10);
        if let Strat1::Spline(bc) = &sc.strat {
            let nb = match bc {
                Bc::Individual(_, _) | Bc::NotAKnot if rng.coin() => {
                    let mut shape = vec![1];
                    shape.extend_from_slice(&trail);
                    Bc::Individual((0..lanes).map(|_| crate::spl::gen_rowbc(&mut rng)).collect(), shape)
                }
                Bc::Individual(_, _) => Bc::Natural,
                o => o.clone(),
            };
            if nb == Bc::Periodic && n >= 1 { let first = sc.rows[0].clone(); sc.rows[n - 1] = first; }
            sc.strat = Strat1::Spline(nb);
        }
        rep.count(&format!("{}:trail-rank{}{}", if spline { "spline" } else { "linear" }, trail.len(), if lanes == 0 { ":zero-lanes" } else { "" }));
        arena_reset();
        let full = sc.run::<XRat>();
        let fullf = sc.run::<f64>();
        rep.eval(Some(&format!("{:?}", sc)));
        if full.0 != BuildOut::Built { rep.fail(&format!("build failed: {:?}", full.0), sc.to_json()); continue; }
        // static dimension type of the same data
        let stat = match trail.len() { 0 => Some(sc.run_dim::<f64, Ix1>()), 1 => Some(sc.run_dim::<f64, Ix2>()), 2 => Some(sc.run_dim::<f64, Ix3>()), 3 => Some(sc.run_dim::<f64, Ix4>()), 4 => Some(sc.run_dim::<f64, Ix5>()), 5 => Some(sc.run_dim::<f64, Ix6>()), _ => None };
        if let Some(st) = stat {
            rep.evaluations += 1;
            if bitstr(&st) != bitstr(&fullf) { rep.fail("static and dynamic data dimension types give different results (f64, bitwise)", sc.to_json()); }
        }
        for j in 0..lanes {
            let one = lane_scen(&sc, j);
            let r1 = one.run::<XRat>();
            let r1f = one.run::<f64>();
            rep.evaluations += 2;
            if r1 != lane_of(&full, j) {
                rep.fail(&format!("lane {} of the n-d result differs from the interpolator built from that lane alone (exact run)", j), sc.to_json());
                break;
            }
            if bitstr(&r1f) != bitstr(&lane_of(&fullf, j)) {
                rep.fail(&format!("lane {} of the n-d result is not bit-identical to the interpolator built from that lane alone (f64)", j), sc.to_json());
                break;
            }
        }
        // perturb the values and boundary conditions of every other lane
        if lanes >= 2 {
            let j = rng.below(lanes as u64) as usize;
            let mut var = sc.clone();
            let periodic = matches!(sc.strat, Strat1::Spline(Bc::Periodic));
            for (ri, r) in var.rows.iter_mut().enumerate() {
                for (l, v) in r.iter_mut().enumerate() {
                    if l != j && !(periodic && ri == n - 1) {
                        *v = if !periodic && rng.chance(1, 4) { f64::NAN } else { gen_value(&mut rng, true) * 5.0 };
                    }
                }
            }
            if periodic { let first = var.rows[0].clone(); for (l, v) in var.rows[n - 1].iter_mut().enumerate() { if l != j { *v = first[l]; } } }
            if let Strat1::Spline(Bc::Individual(rbs, sh)) = &sc.strat {
                let mut nb = rbs.clone();
                for (l, b) in nb.iter_mut().enumerate() { if l != j { *b = crate::spl::gen_rowbc(&mut rng); } }
                var.strat = Strat1::Spline(Bc::Individual(nb, sh.clone()));
            }
            let vf = var.run::<f64>();
            rep.evaluations += 1;
            rep.count("other-lanes-perturbed");
            if bitstr(&lane_of(&vf, j)) != bitstr(&lane_of(&fullf, j)) {
                rep.fail(&format!("changing the values / boundary conditions of other lanes changed lane {} (f64, bitwise)", j),
                         obj(vec![("base", sc.to_json()), ("variant", var.to_json())]));
            }
        }
        if spline { crate::spl::add_spline_coq(&mut rep, ks, &sc, &full); } else {
            let term = format!("({}, {})", sc.to_coq(&qc), outs_coq(&full.0, &full.1, &|v| v.to_coq_qc()));
            rep.coq_case(k1, term, sc.to_json());
        }
        if ci < 2 { rep.sample(obj(vec![("scenario", sc.to_json())])); }
    }
    let _ = s("");
    let _ = J::Null;
    crate::spl::periodic_partial_mismatch(&mut rep, &mut rng, thorough);
    rep.finish("n-d data sets with trailing shapes (1), (3), (2,2), (2,1,3), (1,1), (3,2), (2,0), (2,1,2,1), (1,2,1,1,2), (4) -- i.e. data of 2..6 static and dynamic dimensions incl. length-1 and length-0 axes -- for Linear, CubicSpline (whole-data-set boundaries, Periodic, Individual arrays with a different condition per lane) and Bilinear: every lane compared with an interpolator built from that lane alone (exact at rationals, bitwise at f64), static vs dynamic dimension types, and one lane kept while every other lane's values (incl. NaN) and boundary conditions are changed");
}
