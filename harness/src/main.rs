#![allow(dead_code)]
mod bigint;
mod c05;
mod c08;
mod c10;
mod c11;
mod c12;
mod c17;
mod c18;
mod c19;
mod entry;
mod gen;
mod json;
mod lin;
mod out;
mod rng;
mod scen;
mod selftest;
mod spl;
mod xrat;

pub struct Cfg {
    pub seed: u64,
    pub tier: String,
    pub out: String,
    pub args: Vec<String>,
}

fn main() {
    let args: Vec<String> = std::env::args().collect();
    if args.len() < 2 {
        eprintln!("usage: verif-harness <cmd> [--seed N] [--tier quick|thorough] [--out DIR]");
        std::process::exit(2);
    }
    let mut cfg = Cfg { seed: 1, tier: "quick".into(), out: "/verif/work/out".into(), args: vec![] };
    let mut i = 2;
    while i < args.len() {
        match args[i].as_str() {
            "--seed" => { cfg.seed = args[i + 1].parse().unwrap(); i += 2 }
            "--tier" => { cfg.tier = args[i + 1].clone(); i += 2 }
            "--out" => { cfg.out = args[i + 1].clone(); i += 2 }
            other => { cfg.args.push(other.to_string()); i += 1 }
        }
    }
    // panics inside the crate are caught and classified; keep stderr quiet
    if std::env::var("VERIF_DEBUG").is_err() {
        std::panic::set_hook(Box::new(|_| {}));
    }
    match args[1].as_str() {
        "selftest" => selftest::run(&cfg),
        "c12" => c12::run(&cfg),
        "c11" => c11::run(&cfg),
        "c08" => c08::run(&cfg),
        "c17" => c17::run(&cfg),
        "c18" => c18::run(&cfg),
        "c19" => c19::run(&cfg),
        "c09" => entry::run(&cfg, "C09"),
        "c13" => entry::run(&cfg, "C13"),
        "c14" => entry::run(&cfg, "C14"),
        "c10" => c10::run(&cfg),
        "c05" => c05::run(&cfg),
        "c02" => spl::run_c02(&cfg),
        "c03" => spl::run_c03(&cfg),
        "c16" => spl::run_c16(&cfg),
        "c07" => spl::run_c07(&cfg),
        "c15" => spl::run_c15(&cfg),
        "c01" => lin::run_c01(&cfg),
        "c04" => lin::run_c04(&cfg),
        "c06" => lin::run_c06(&cfg),
        "c20" => lin::run_c20(&cfg),
        other => {
            eprintln!("unknown command {other}");
            std::process::exit(2);
        }
    }
}
