#![allow(dead_code)]
mod bigint;
mod c12;
mod json;
mod out;
mod rng;
mod selftest;
mod xrat;

pub struct Cfg {
    pub seed: u64,
    pub tier: String,
    pub out: String,
    pub args: Vec<String>,
}

fn main() {
    let args: Vec<String> = std::env::args().collect();
    if args.len() < 2 {
        eprintln!("usage: verif-harness <cmd> [--seed N] [--tier quick|thorough] [--out DIR]");
        std::process::exit(2);
    }
    let mut cfg = Cfg { seed: 1, tier: "quick".into(), out: "/verif/work/out".into(), args: vec![] };
    let mut i = 2;
    while i < args.len() {
        match args[i].as_str() {
            "--seed" => { cfg.seed = args[i + 1].parse().unwrap(); i += 2 }
            "--tier" => { cfg.tier = args[i + 1].clone(); i += 2 }
            "--out" => { cfg.out = args[i + 1].clone(); i += 2 }
            other => { cfg.args.push(other.to_string()); i += 1 }
        }
    }
    // panics inside the crate are caught and classified; keep stderr quiet
    std::panic::set_hook(Box::new(|_| {}));
    match args[1].as_str() {
        "selftest" => selftest::run(&cfg),
        "c12" => c12::run(&cfg),
        other => {
            eprintln!("unknown command {other}");
            std::process::exit(2);
        }
    }
}
