//! C09 (entry points agree, result shape), C13 (memory layout), C14 (*_into fills exactly the
//! buffer or rejects it).  Buffers are views (offset, strides incl. negative and permuted) into a
//! larger poisoned allocation; after every call the whole allocation is dumped and compared
//! with the model's memory image in Coq (exact run) and between layouts / entry points (f64).
use crate::gen::*;
use crate::json::{obj, s, J};
use crate::out::Report;
use crate::rng::Rng;
use crate::scen::*;
use crate::xrat::{arena_reset, Val, XRat};
use crate::Cfg;
use ndarray::{
    Array, Array1, ArrayD, ArrayViewMut, Axis, Dimension, Ix0, Ix1, Ix2, Ix3, Ix4, Ix5, IxDyn, ShapeBuilder, Slice,
};
use ndarray_interp::interp1d::cubic_spline::{BoundaryCondition, CubicSpline};
use ndarray_interp::interp1d::{Interp1DBuilder, Linear};
use ndarray_interp::interp2d::{Bilinear, Interp2DBuilder};
use ndarray_interp::InterpolateError;
use std::panic::{catch_unwind, AssertUnwindSafe};

#[derive(Clone, Debug)]
pub struct BufSpec {
    pub shape: Vec<usize>,  // logical shape of the view handed to the crate
    pub base: Vec<usize>,   // shape of the C-ordered base array (in base axis order)
    pub perm: Vec<usize>,   // view axis k is base axis perm[k]
    pub start: Vec<usize>,  // per base axis
    pub step: Vec<isize>,   // per base axis (may be negative)
    pub lead: usize,        // cells before the base array in the allocation
    pub tail: usize,
    pub label: String,
}

impl BufSpec {
    pub fn alloc_len(&self) -> usize {
        self.lead + self.base.iter().product::<usize>() + self.tail
    }
}

/// build a layout for a view of logical shape `shape`
pub fn gen_layout(rng: &mut Rng, shape: &[usize], kind: u64) -> BufSpec {
    let r = shape.len();
    let mut perm: Vec<usize> = (0..r).collect();
    let label;
    let mut step = vec![1isize; r];
    let mut pad_lo = vec![0usize; r];
    let mut pad_hi = vec![0usize; r];
    match kind {
        0 => label = "owned-C".to_string(),
        1 => {
            perm.reverse();
            label = "F-order".into();
        }
        2 => {
            for k in 0..r {
                step[k] = rng.range(1, 3) as isize;
                pad_lo[k] = rng.below(2) as usize;
                pad_hi[k] = rng.below(2) as usize;
            }
            label = "strided-window".into();
        }
        3 => {
            for k in 0..r {
                step[k] = if rng.coin() { -1 } else { 1 };
            }
            label = "reversed-axes".into();
        }
        4 => {
            // random permutation
            for k in (1..r).rev() {
                let j = rng.below((k + 1) as u64) as usize;
                perm.swap(k, j);
            }
            label = "permuted".into();
        }
        _ => {
            for k in (1..r).rev() {
                let j = rng.below((k + 1) as u64) as usize;
                perm.swap(k, j);
            }
            for k in 0..r {
                step[k] = match rng.below(4) { 0 => -2, 1 => -1, 2 => 2, _ => 1 };
                pad_lo[k] = rng.below(2) as usize;
                pad_hi[k] = rng.below(2) as usize;
            }
            label = "permuted+strided+reversed".into();
        }
    }
    // base axis b holds view axis k where perm[k] = b
    let mut base = vec![0usize; r];
    let mut start = vec![0usize; r];
    let mut bstep = vec![1isize; r];
    for k in 0..r {
        let b = perm[k];
        let st = step[k];
        let need = if shape[k] == 0 { 0 } else { (shape[k] - 1) * st.unsigned_abs() + 1 };
        base[b] = pad_lo[k] + need + pad_hi[k];
        start[b] = pad_lo[k];
        bstep[b] = st;
    }
    BufSpec { shape: shape.to_vec(), base, perm, start, step: bstep, lead: rng.below(3) as usize, tail: rng.below(3) as usize, label }
}

/// carve the view out of the allocation; returns it with its (offset, strides) in cells
pub fn make_view<'a, E>(spec: &BufSpec, alloc: &'a mut [E]) -> (ArrayViewMut<'a, E, IxDyn>, isize, Vec<isize>) {
    let base_ptr = alloc.as_ptr();
    let n: usize = spec.base.iter().product();
    let slice = &mut alloc[spec.lead..spec.lead + n];
    let mut v = ArrayViewMut::from_shape(IxDyn(&spec.base), slice).unwrap();
    for b in 0..spec.base.len() {
        // which view axis lives on base axis b
        let k = spec.perm.iter().position(|&p| p == b).unwrap();
        let len = spec.shape[k];
        let st = spec.step[b];
        let need = if len == 0 { 0 } else { (len - 1) * st.unsigned_abs() + 1 };
        let sl = Slice::new(spec.start[b] as isize, Some((spec.start[b] + need) as isize), st);
        v.slice_axis_inplace(Axis(b), sl);
    }
    let v = v.permuted_axes(IxDyn(&spec.perm));
    debug_assert_eq!(v.shape(), &spec.shape[..]);
    let off = (v.as_ptr() as isize - base_ptr as isize) / std::mem::size_of::<E>() as isize;
    let strides: Vec<isize> = v.strides().to_vec();
    (v, off, strides)
}

#[derive(Clone, Debug, PartialEq)]
pub enum CallOut {
    Ok,
    Oob,
    Panic(String),
}
impl CallOut {
    fn code(&self) -> i64 {
        match self { CallOut::Ok => 0, CallOut::Oob => 1, CallOut::Panic(_) => 2 }
    }
}

fn poison_val(a: usize) -> f64 {
    -(1000.0 + a as f64)
}

/// interp_array_into on IxDyn data with a query of the given dimension type
fn call_into<E: Elem>(sc: &Scen1, qshape: &[usize], dyn_query: bool, spec: &BufSpec) -> (CallOut, Vec<Val>, isize, Vec<isize>) {
    let mut alloc: Vec<E> = (0..spec.alloc_len()).map(|a| E::of_f64(poison_val(a))).collect();
    let data = make_data::<E>(&sc.rows, &sc.trail);
    let x = Array1::from(sc.axis_vals().iter().map(|&v| E::of_f64(v)).collect::<Vec<_>>());
    let interp = Interp1DBuilder::new(data).x(x).strategy(crate::scen::configure_linear(sc.ext)).build().unwrap();
    let qflat: Vec<E> = sc.queries.iter().map(|&q| E::of_f64(q)).collect();
    let (off, strides, res);
    {
        let (view, o, st) = make_view(spec, &mut alloc);
        off = o;
        strides = st;
        let r = catch_unwind(AssertUnwindSafe(|| {
            let qd = ArrayD::from_shape_vec(IxDyn(qshape), qflat.clone()).unwrap();
            macro_rules! stat {
                ($d:ty) => {{
                    let q = qd.clone().into_dimensionality::<$d>().unwrap();
                    interp.interp_array_into(&q, view)
                }};
            }
            if dyn_query {
                interp.interp_array_into(&qd, view)
            } else {
                match qshape.len() {
                    0 => stat!(Ix0),
                    1 => stat!(Ix1),
                    2 => stat!(Ix2),
                    _ => stat!(Ix3),
                }
            }
        }));
        res = match r {
            Ok(Ok(())) => CallOut::Ok,
            Ok(Err(InterpolateError::OutOfBounds(_))) => CallOut::Oob,
            Err(p) => CallOut::Panic(panic_msg(p)),
        };
    }
    let dump: Vec<Val> = alloc.iter().map(|v| v.to_val()).collect();
    (res, dump, off, strides)
}

fn gen_entry_scen(rng: &mut Rng) -> (Scen1, Vec<usize>) {
    let n = rng.range(2, 6) as usize;
    let trail: Vec<usize> = match rng.below(7) { 0 | 1 => vec![], 2 => vec![1], 3 => vec![3], 4 => vec![2, 2], 5 => vec![2, 0], _ => vec![1, 3] };
    let lanes: usize = trail.iter().product();
    let ax = gen_axis(rng, n, Spacing::Random, true);
    let rows = gen_rows(rng, n, lanes, true);
    let qrank = rng.below(4) as usize;
    let qshape: Vec<usize> = (0..qrank).map(|_| match rng.below(6) { 0 => 0, 1 => 1, 2 | 3 => 2, _ => 3 }).collect();
    let qn: usize = qshape.iter().product();
    let lo = ax[0];
    let hi = ax[n - 1];
    let mut queries: Vec<f64> = (0..qn).map(|_| lo + (hi - lo) * (rng.range(0, 16) as f64 / 16.0)).collect();
    let ext = rng.chance(1, 4);
    if ext && qn > 0 {
        // with extrapolation, elements outside the range (both sides) are ordinary queries
        for _ in 0..2 {
            let p = rng.below(qn as u64) as usize;
            queries[p] = if rng.coin() { hi + (hi - lo) * 0.5 } else { lo - (hi - lo) * 0.25 };
        }
    }
    if !ext && qn > 0 && rng.chance(1, 6) {
        let p = rng.below(qn as u64) as usize;
        queries[p] = hi + 1.0; // one out-of-range element somewhere in the batch
    }
    (Scen1 { strat: Strat1::Linear, ext, ax: Some(ax), rows, trail, queries }, qshape)
}

fn list_usize(v: &[usize]) -> String {
    format!("[{}]", v.iter().map(|d| format!("{}%nat", d)).collect::<Vec<_>>().join("; "))
}

/// wrong buffer shapes for C14
fn wrong_shapes(rng: &mut Rng, good: &[usize], qrank: usize) -> Vec<(String, Vec<usize>)> {
    let mut v = vec![];
    for k in 0..good.len() {
        let mut a = good.to_vec();
        a[k] += 1;
        v.push((format!("axis{}+1", k), a));
        if good[k] > 0 {
            let mut b = good.to_vec();
            b[k] -= 1;
            v.push((format!("axis{}-1", k), b));
        }
    }
    // permutation of the trailing axes / of the leading axes with the same element count
    if good.len() - qrank >= 2 {
        let mut a = good.to_vec();
        a.swap(qrank, qrank + 1);
        if a != good { v.push(("trailing-permuted".into(), a)); }
    }
    if qrank >= 2 {
        let mut a = good.to_vec();
        a.swap(0, 1);
        if a != good { v.push(("leading-permuted".into(), a)); }
    }
    if qrank >= 1 && good.len() > qrank {
        let mut a = good.to_vec();
        a.swap(qrank - 1, qrank);
        if a != good { v.push(("query/trailing-swapped".into(), a)); }
    }
    // wrong rank (dynamic dimensions)
    let mut a = good.to_vec();
    a.push(1);
    v.push(("rank+1".into(), a));
    if good.len() >= 1 {
        let mut b = good.to_vec();
        let last = b.pop().unwrap();
        if let Some(x) = b.last_mut() { *x *= last.max(1); }
        v.push(("rank-1(merged)".into(), b));
    }
    let _ = rng;
    v
}

pub fn run(cfg: &Cfg, prop: &str) {
    let mut rep = Report::new(prop, &cfg.out);
    let kind = rep.kind("entry1_ok", "(scen1 xq * list nat * (Z * list nat * list Z) * nat * (Z * list xq))");
    rep.shard_size = 0;
    let mut rng = Rng::new(cfg.seed ^ match prop { "C13" => 0x13, "C14" => 0x14, _ => 0x9 });
    let thorough = cfg.tier == "thorough";
    let ncases = if thorough { 2500 } else { 220 };
    for ci in 0..ncases {
        let (sc, qshape) = gen_entry_scen(&mut rng);
        let mut good: Vec<usize> = qshape.clone();
        good.extend_from_slice(&sc.trail);
        let dyn_query = rng.chance(1, 3);
        rep.count(&format!("query-rank:{}{}", qshape.len(), if dyn_query { "-dyn" } else { "" }));
        rep.count(&format!("data-rank:{}", sc.trail.len() + 1));
        if qshape.iter().product::<usize>() == 0 { rep.count("empty-query"); }
        if sc.lanes() == 0 { rep.count("zero-length-trailing-axis"); }

        // ---- reference: allocating variant and owned C-ordered buffer (f64) ----
        let refspec = gen_layout(&mut rng, &good, 0);
        let (rref, dref, _, _) = call_into::<f64>(&sc, &qshape, dyn_query, &refspec);
        rep.eval(Some(&format!("{:?}{:?}", sc, qshape)));
        let expect_oob = !sc.ext && sc.queries.iter().any(|&q| q > sc.axis_vals()[sc.n() - 1]);
        if (rref == CallOut::Oob) != expect_oob || matches!(rref, CallOut::Panic(_)) {
            rep.fail(&format!("interp_array_into on a correctly shaped C-ordered buffer: {:?} (out-of-range element present: {})", rref, expect_oob),
                     obj(vec![("scenario", sc.to_json()), ("query_shape", s(format!("{:?}", qshape)))]));
        }
        let logical_ref: Vec<Val> = dref[refspec.lead..refspec.lead + good.iter().product::<usize>()].to_vec();
        // C09: pointwise agreement with interp() and result shape of interp_array
        if rref == CallOut::Ok {
            let data = make_data::<f64>(&sc.rows, &sc.trail);
            let x = Array1::from(sc.axis_vals());
            let interp = Interp1DBuilder::new(data).x(x).strategy(crate::scen::configure_linear(sc.ext)).build().unwrap();
            let qd = ArrayD::from_shape_vec(IxDyn(&qshape), sc.queries.clone()).unwrap();
            let arr = interp.interp_array(&qd).unwrap();
            rep.evaluations += 1;
            if arr.shape() != &good[..] {
                rep.fail(&format!("interp_array result shape {:?}, expected query shape ++ trailing dims {:?}", arr.shape(), good), sc.to_json());
            }
            let flat: Vec<Val> = arr.iter().map(|v| Val::from_f64(*v)).collect();
            if flat != logical_ref {
                rep.fail("interp_array and interp_array_into (C-ordered buffer) differ bitwise", sc.to_json());
            }
            let lanes = sc.lanes();
            for (qi, &q) in sc.queries.iter().enumerate() {
                let single = interp.interp(q).unwrap();
                let sv: Vec<Val> = single.iter().map(|v| Val::from_f64(*v)).collect();
                rep.evaluations += 1;
                if sv[..] != flat[qi * lanes..(qi + 1) * lanes] {
                    rep.fail("interp_array(q)[i...] differs bitwise from interp(q[i...])", obj(vec![("scenario", sc.to_json()), ("element", J::I(qi as i64))]));
                    break;
                }
                // interp_into writes what interp returns
                let mut buf = ArrayD::from_elem(IxDyn(&sc.trail), -7.0f64);
                let r = interp.interp_into(q, buf.view_mut());
                if r.is_err() || buf != single {
                    rep.fail("interp_into does not write what interp returns", sc.to_json());
                    break;
                }
            }
            if sc.trail.is_empty() {
                // interp_scalar on 1-D data
                let d1 = Array1::from(sc.rows.iter().map(|r| r[0]).collect::<Vec<_>>());
                let i1 = Interp1DBuilder::new(d1).x(Array1::from(sc.axis_vals())).strategy(crate::scen::configure_linear(sc.ext)).build().unwrap();
                for (qi, &q) in sc.queries.iter().enumerate() {
                    let a = i1.interp_scalar(q).unwrap();
                    rep.evaluations += 1;
                    if Val::from_f64(a) != flat[qi] {
                        rep.fail("interp_scalar differs bitwise from interp_array", sc.to_json());
                        break;
                    }
                }
            }
        }

        // ---- C13 / C14: every layout of a correctly shaped buffer ----
        for lk in 1..6u64 {
            let spec = gen_layout(&mut rng, &good, lk);
            rep.count(&format!("layout:{}", spec.label));
            let (r, dump, off, strides) = call_into::<f64>(&sc, &qshape, dyn_query, &spec);
            rep.evaluations += 1;
            if r != rref && !(matches!(r, CallOut::Oob) && matches!(rref, CallOut::Oob)) {
                rep.fail(&format!("correctly shaped buffer with layout {} -> {:?}, but the C-ordered buffer -> {:?}", spec.label, r, rref),
                         obj(vec![("scenario", sc.to_json()), ("query_shape", s(format!("{:?}", qshape))), ("offset", J::I(off as i64)), ("strides", s(format!("{:?}", strides)))]));
                continue;
            }
            if r == CallOut::Ok {
                // logical content equal to the reference; everything else still poison
                let mut touched = vec![false; dump.len()];
                let mut ok = true;
                let total: usize = good.iter().product();
                let mut idx = vec![0usize; good.len()];
                for li in 0..total {
                    let mut a = off;
                    for k in 0..good.len() { a += idx[k] as isize * strides[k]; }
                    let a = a as usize;
                    touched[a] = true;
                    if dump[a] != logical_ref[li] { ok = false; }
                    for k in (0..good.len()).rev() { idx[k] += 1; if idx[k] < good[k] { break; } idx[k] = 0; }
                }
                if !ok {
                    rep.fail(&format!("buffer layout {}: logical contents differ from the C-ordered run (bitwise)", spec.label),
                             obj(vec![("scenario", sc.to_json()), ("strides", s(format!("{:?}", strides)))]));
                }
                for (a, v) in dump.iter().enumerate() {
                    if !touched[a] && *v != Val::from_f64(poison_val(a)) {
                        rep.fail(&format!("buffer layout {}: memory outside the buffer view was overwritten (cell {})", spec.label, a),
                                 obj(vec![("scenario", sc.to_json()), ("strides", s(format!("{:?}", strides)))]));
                        break;
                    }
                }
            }
            // exact run of the same call, compared with the model's memory image in Coq
            if lk == 1 + (ci as u64 % 5) {
                arena_reset();
                let (rx, dx, offx, stx) = call_into::<XRat>(&sc, &qshape, dyn_query, &spec);
                rep.evaluations += 1;
                if rx.code() != r.code() { rep.fail("exact run and f64 run disagree on the outcome of interp_array_into", sc.to_json()); }
                let mem = if rx == CallOut::Ok { format!("[{}]", dx.iter().map(|v| v.to_coq_xq()).collect::<Vec<_>>().join("; ")) } else { "[]".into() };
                let term = format!("({}, {}, ({}, {}, [{}]), {}%nat, ({}, {}))", sc.to_coq(&xq), list_usize(&qshape), offx, list_usize(&good),
                                   stx.iter().map(|x| format!("({})", x)).collect::<Vec<_>>().join("; "), spec.alloc_len(), rx.code(), mem);
                rep.coq_case(kind, term, obj(vec![("scenario", sc.to_json()), ("query_shape", s(format!("{:?}", qshape))), ("layout", s(spec.label.clone())),
                                                   ("offset", J::I(offx as i64)), ("strides", s(format!("{:?}", stx))), ("outcome", s(format!("{:?}", rx)))]));
            }
        }

        // ---- C14: wrongly shaped buffers are never accepted ----
        if dyn_query || true {
            for (wl, ws) in wrong_shapes(&mut rng, &good, qshape.len()) {
                // static query dims fix the buffer rank only when data is static; data is dynamic here, so any rank can be passed
                let lk = rng.below(3);
                let spec = gen_layout(&mut rng, &ws, lk);
                let (r, dump, off, strides) = call_into::<f64>(&sc, &qshape, dyn_query, &spec);
                rep.evaluations += 1;
                rep.count(&format!("wrong-shape:{}", wl.split(|c: char| c.is_ascii_digit()).next().unwrap_or("")));
                if r == CallOut::Ok {
                    rep.fail(&format!("buffer of shape {:?} accepted where {:?} is required ({})", ws, good, wl),
                             obj(vec![("scenario", sc.to_json()), ("query_shape", s(format!("{:?}", qshape))), ("buffer_shape", s(format!("{:?}", ws))), ("layout", s(spec.label.clone()))]));
                }
                if ci % 4 == 0 && wl.starts_with("axis0") {
                    arena_reset();
                    let (rx, _dx, offx, stx) = call_into::<XRat>(&sc, &qshape, dyn_query, &spec);
                    let term = format!("({}, {}, ({}, {}, [{}]), {}%nat, ({}, []))", sc.to_coq(&xq), list_usize(&qshape), offx, list_usize(&ws),
                                       stx.iter().map(|x| format!("({})", x)).collect::<Vec<_>>().join("; "), spec.alloc_len(), rx.code());
                    rep.coq_case(kind, term, obj(vec![("scenario", sc.to_json()), ("buffer_shape", s(format!("{:?}", ws))), ("outcome", s(format!("{:?}", rx)))]));
                }
                let _ = (dump, off, strides);
            }
            // interp_into with a wrong single-query buffer
            if !sc.trail.is_empty() {
                let data = make_data::<f64>(&sc.rows, &sc.trail);
                let interp = Interp1DBuilder::new(data).x(Array1::from(sc.axis_vals())).strategy(Linear::new().extrapolate(true)).build().unwrap();
                let mut wrong = sc.trail.clone();
                wrong[0] += 1;
                let r = catch_unwind(AssertUnwindSafe(|| {
                    let mut b = ArrayD::from_elem(IxDyn(&wrong), 0.0f64);
                    interp.interp_into(sc.axis_vals()[0], b.view_mut()).is_ok()
                }));
                rep.evaluations += 1;
                if let Ok(true) = r { rep.fail("interp_into accepted a buffer with a wrong trailing axis", sc.to_json()); }
            }
        }
        if ci == 0 {
            rep.sample(obj(vec![("scenario", sc.to_json()), ("query_shape", s(format!("{:?}", qshape))), ("required_buffer_shape", s(format!("{:?}", good)))]));
        }
    }
    // rank-1 batches (static: the fast path; dynamic: the general path) with ONE out-of-range element at every
    // position: the call must return OutOfBounds, never Ok
    for _ in 0..(if thorough { 60 } else { 12 }) {
        let (mut sc, _) = gen_entry_scen(&mut rng);
        sc.ext = false;
        let (lo, hi) = (sc.axis_vals()[0], sc.axis_vals()[sc.n() - 1]);
        let k = 4usize;
        let mut good: Vec<usize> = vec![k];
        good.extend_from_slice(&sc.trail);
        for pos in 0..k {
            for dyn_query in [false, true] {
                sc.queries = (0..k).map(|i| (lo + (hi - lo) * (i as f64) / 4.0).min(hi)).collect();
                sc.queries[pos] = hi + 1.0;
                let spec = gen_layout(&mut rng, &good, 0);
                let (r, _d, _o, _s) = call_into::<f64>(&sc, &[k], dyn_query, &spec);
                rep.evaluations += 1;
                rep.count("rank1-batch-one-oob");
                if r != CallOut::Oob {
                    rep.fail(&format!("interp_array_into with a rank-1 query ({}) whose element {} of {} is out of range returned {:?} instead of OutOfBounds",
                                      if dyn_query { "dynamic" } else { "static" }, pos, k, r), sc.to_json());
                }
            }
        }
    }
    static_dim_matrix(&mut rep, &mut rng);
    two_d(&mut rep, &mut rng, if thorough { 600 } else { 60 });
    input_layouts(&mut rep, &mut rng, if thorough { 600 } else { 80 });
    query_layouts(&mut rep, &mut rng, if thorough { 400 } else { 60 });
    strategy_layouts(&mut rep, &mut rng, if thorough { 300 } else { 40 });
    rep.finish("random 1-D interpolators (data rank 1-3 incl. zero-length trailing axes) x query arrays of rank 0-3 (static Ix0..Ix3 and dynamic, incl. zero-length axes, optionally one out-of-range element) x buffers that are views into a larger poisoned allocation: owned C, F-order, strided windows, reversed axes, permuted axes and combinations; wrong shapes: every axis +-1, trailing / leading permutations, rank +-1; whole allocation dumped after each call; exact run compared with the model's memory image in Coq; all static (data dim, query dim) pairs incl. rank > 6 for the allocating variants; 2-D interpolator; layouts of data / axes / queries");
}

/// every static (data dimension, query dimension) pair for the allocating entry points
fn static_dim_matrix(rep: &mut Report, rng: &mut Rng) {
    macro_rules! case {
        ($dd:ty, $dq:ty, $dshape:expr, $qshape:expr) => {{
            let dshape: Vec<usize> = $dshape;
            let qshape: Vec<usize> = $qshape;
            let n = dshape[0];
            let total: usize = dshape.iter().product();
            let vals: Vec<f64> = (0..total).map(|_| gen_value(rng, true)).collect();
            let data_dyn = ArrayD::from_shape_vec(IxDyn(&dshape), vals).unwrap();
            let qn: usize = qshape.iter().product();
            let qv: Vec<f64> = (0..qn).map(|_| rng.range(0, (n as i64 - 1) * 8) as f64 / 8.0).collect();
            let q_dyn = ArrayD::from_shape_vec(IxDyn(&qshape), qv).unwrap();
            let stat = Interp1DBuilder::new(data_dyn.clone().into_dimensionality::<$dd>().unwrap()).build().unwrap();
            let dynm = Interp1DBuilder::new(data_dyn.clone()).build().unwrap();
            let a = stat.interp_array(&q_dyn.clone().into_dimensionality::<$dq>().unwrap()).unwrap();
            let b = dynm.interp_array(&q_dyn).unwrap();
            rep.evaluations += 2;
            rep.count(&format!("static-dims:{}x{}", dshape.len(), qshape.len()));
            let mut want = qshape.clone();
            want.extend_from_slice(&dshape[1..]);
            if a.shape() != &want[..] || b.shape() != &want[..] {
                rep.fail(&format!("result shape {:?} / {:?}, expected {:?} (data {:?}, query {:?})", a.shape(), b.shape(), want, dshape, qshape), J::Null);
            }
            let av: Vec<u64> = a.iter().map(|v| v.to_bits()).collect();
            let bv: Vec<u64> = b.iter().map(|v| v.to_bits()).collect();
            if av != bv {
                rep.fail(&format!("static and dynamic dimension types give different results (data {:?}, query {:?})", dshape, qshape), J::Null);
            }
        }};
    }
    for _ in 0..3 {
        case!(Ix1, Ix0, vec![4], vec![]);
        case!(Ix1, Ix1, vec![4], vec![3]);
        case!(Ix1, Ix2, vec![3], vec![2, 2]);
        case!(Ix2, Ix1, vec![3, 2], vec![4]);
        case!(Ix2, Ix2, vec![3, 2], vec![2, 3]);
        case!(Ix2, Ix3, vec![3, 2], vec![2, 1, 2]);
        case!(Ix3, Ix1, vec![3, 2, 2], vec![3]);
        case!(Ix3, Ix2, vec![3, 2, 2], vec![2, 2]);
        case!(Ix3, Ix3, vec![3, 1, 2], vec![2, 2, 1]);
        case!(Ix4, Ix3, vec![3, 1, 2, 2], vec![2, 1, 2]);
        case!(Ix4, Ix4, vec![3, 1, 2, 2], vec![1, 2, 1, 2]);   // rank 7 -> dynamic
        case!(Ix5, Ix3, vec![3, 1, 2, 1, 2], vec![2, 1, 2]);   // rank 7 -> dynamic
        case!(Ix5, Ix2, vec![3, 1, 2, 1, 2], vec![2, 2]);      // rank 6
        case!(Ix3, Ix0, vec![3, 2, 2], vec![]);
        case!(Ix2, Ix1, vec![3, 0], vec![2]);                  // zero-length trailing axis
        case!(Ix2, Ix2, vec![3, 2], vec![0, 2]);               // zero-length query axis
    }
}

/// Interp2D: entry points agree, buffers, x/y shape mismatch
fn two_d(rep: &mut Report, rng: &mut Rng, ncases: usize) {
    for _ in 0..ncases {
        let (sc, _f, _c) = crate::lin::gen_bilinear_scen(rng, false, false, false);
        let data = sc.make_data::<f64>();
        let (xv, yv) = (sc.xvals(), sc.yvals());
        let interp = Interp2DBuilder::new(data).x(Array1::from(xv.clone())).y(Array1::from(yv.clone())).strategy(Bilinear::new()).build().unwrap();
        let qrank = rng.below(3) as usize;
        let qshape: Vec<usize> = (0..qrank).map(|_| rng.range(0, 3) as usize).collect();
        let qn: usize = qshape.iter().product();
        let qx: Vec<f64> = (0..qn).map(|_| (xv[0] + (xv[xv.len() - 1] - xv[0]) * rng.range(0, 8) as f64 / 8.0).min(xv[xv.len() - 1])).collect();
        let qy: Vec<f64> = (0..qn).map(|_| (yv[0] + (yv[yv.len() - 1] - yv[0]) * rng.range(0, 8) as f64 / 8.0).min(yv[yv.len() - 1])).collect();
        let xs = ArrayD::from_shape_vec(IxDyn(&qshape), qx.clone()).unwrap();
        let ys = ArrayD::from_shape_vec(IxDyn(&qshape), qy.clone()).unwrap();
        let arr = interp.interp_array(&xs, &ys).unwrap();
        rep.evaluations += 1;
        rep.count("2d:cases");
        let mut good = qshape.clone();
        good.extend_from_slice(&sc.trail);
        if arr.shape() != &good[..] { rep.fail(&format!("2-D interp_array result shape {:?}, expected {:?}", arr.shape(), good), sc.to_json()); }
        let lanes: usize = sc.trail.iter().product();
        let flat: Vec<u64> = arr.iter().map(|v| v.to_bits()).collect();
        for i in 0..qn {
            let single = interp.interp(qx[i], qy[i]).unwrap();
            let sv: Vec<u64> = single.iter().map(|v| v.to_bits()).collect();
            if sv[..] != flat[i * lanes..(i + 1) * lanes] { rep.fail("2-D: interp_array(q)[i] differs bitwise from interp(q[i])", sc.to_json()); break; }
            if sc.trail.is_empty() {
                let d2 = sc.make_data::<f64>().into_dimensionality::<Ix2>().unwrap();
                let i2 = Interp2DBuilder::new(d2).x(Array1::from(xv.clone())).y(Array1::from(yv.clone())).build().unwrap();
                if i2.interp_scalar(qx[i], qy[i]).unwrap().to_bits() != flat[i] { rep.fail("2-D: interp_scalar differs from interp_array", sc.to_json()); break; }
            }
        }
        // buffers with every layout, and wrong shapes
        for lk in 0..6u64 {
            let spec = gen_layout(rng, &good, lk);
            let mut alloc: Vec<f64> = (0..spec.alloc_len()).map(poison_val).collect();
            let (off, strides, ok);
            {
                let (view, o, st) = make_view(&spec, &mut alloc);
                off = o; strides = st;
                ok = catch_unwind(AssertUnwindSafe(|| interp.interp_array_into(&xs, &ys, view).is_ok())).unwrap_or(false);
            }
            rep.evaluations += 1;
            if !ok { rep.fail(&format!("2-D: correctly shaped buffer with layout {} not accepted", spec.label), sc.to_json()); continue; }
            let total: usize = good.iter().product();
            let mut idx = vec![0usize; good.len()];
            let mut touched = vec![false; alloc.len()];
            for li in 0..total {
                let mut a = off;
                for k in 0..good.len() { a += idx[k] as isize * strides[k]; }
                touched[a as usize] = true;
                if alloc[a as usize].to_bits() != flat[li] { rep.fail(&format!("2-D: buffer layout {} holds different values than interp_array", spec.label), sc.to_json()); break; }
                for k in (0..good.len()).rev() { idx[k] += 1; if idx[k] < good[k] { break; } idx[k] = 0; }
            }
            for (a, v) in alloc.iter().enumerate() {
                if !touched[a] && *v != poison_val(a) { rep.fail("2-D: memory outside the buffer view overwritten", sc.to_json()); break; }
            }
        }
        for (wl, ws) in wrong_shapes(rng, &good, qshape.len()) {
            let spec = gen_layout(rng, &ws, 0);
            let mut alloc: Vec<f64> = (0..spec.alloc_len()).map(poison_val).collect();
            let (view, _o, _st) = make_view(&spec, &mut alloc);
            let r = catch_unwind(AssertUnwindSafe(|| interp.interp_array_into(&xs, &ys, view).is_ok()));
            rep.evaluations += 1;
            if let Ok(true) = r { rep.fail(&format!("2-D: buffer of shape {:?} accepted where {:?} is required ({})", ws, good, wl), sc.to_json()); }
        }
        // xs / ys of different shapes must panic
        if qrank >= 1 {
            let mut other = qshape.clone();
            other[0] += 1;
            let on: usize = other.iter().product();
            let ys2 = ArrayD::from_shape_vec(IxDyn(&other), vec![yv[0]; on]).unwrap();
            let r = catch_unwind(AssertUnwindSafe(|| interp.interp_array(&xs, &ys2).is_ok()));
            rep.evaluations += 1;
            rep.count("2d:xy-shape-mismatch");
            if r.is_ok() { rep.fail("2-D: xs and ys of different shapes did not panic", sc.to_json()); }
            // the *_into variant called directly, with ys larger / smaller than xs on one or every axis,
            // static and dynamic query dimension: never Ok
            let mut variants: Vec<(String, Vec<usize>)> = vec![("ys longer on axis 0".into(), other.clone())];
            let mut all_longer = qshape.clone();
            for d in all_longer.iter_mut() { *d += 1; }
            variants.push(("ys longer on every axis".into(), all_longer));
            let mut last_longer = qshape.clone();
            *last_longer.last_mut().unwrap() += 1;
            variants.push(("ys longer on the last axis".into(), last_longer));
            if qshape[0] >= 1 { let mut sh = qshape.clone(); sh[0] -= 1; variants.push(("ys shorter on axis 0".into(), sh)); }
            for (label, ysh) in variants {
                let yn: usize = ysh.iter().product();
                let ysv = ArrayD::from_shape_vec(IxDyn(&ysh), (0..yn).map(|i| yv[i % yv.len()]).collect()).unwrap();
                let spec = gen_layout(rng, &good, 0);
                let mut alloc: Vec<f64> = (0..spec.alloc_len()).map(poison_val).collect();
                let (view, _o, _st) = make_view(&spec, &mut alloc);
                let r = catch_unwind(AssertUnwindSafe(|| interp.interp_array_into(&xs, &ysv, view).is_ok()));
                rep.evaluations += 1;
                rep.count("2d:xy-shape-mismatch-into");
                if let Ok(true) = r {
                    rep.fail(&format!("2-D: interp_array_into returned Ok for xs of shape {:?} and ys of shape {:?} ({})", qshape, ysh, label), sc.to_json());
                }
                if qshape.len() == 2 {
                    let xs2 = xs.clone().into_dimensionality::<Ix2>().unwrap();
                    let ys2s = ysv.clone().into_dimensionality::<Ix2>().unwrap();
                    let mut buf = ArrayD::from_elem(IxDyn(&good), 0.0f64);
                    let r = catch_unwind(AssertUnwindSafe(|| interp.interp_array_into(&xs2, &ys2s, buf.view_mut()).is_ok()));
                    rep.evaluations += 1;
                    if let Ok(true) = r { rep.fail(&format!("2-D: interp_array_into (rank-2 query) returned Ok for xs {:?} / ys {:?}", qshape, ysh), sc.to_json()); }
                }
            }
        }
    }
}

/// C13 input side: data / axis / query arrays as owned C, owned F, strided or reversed views
fn input_layouts(rep: &mut Report, rng: &mut Rng, ncases: usize) {
    for _ in 0..ncases {
        let n = rng.range(2, 6) as usize;
        let trail: Vec<usize> = match rng.below(4) { 0 => vec![], 1 => vec![3], 2 => vec![2, 2], _ => vec![2, 3] };
        let mut dshape = vec![n];
        dshape.extend_from_slice(&trail);
        let total: usize = dshape.iter().product();
        let vals: Vec<f64> = (0..total).map(|_| gen_value(rng, false)).collect();
        let ax = gen_axis(rng, n, Spacing::Random, false);
        let qshape: Vec<usize> = (0..rng.below(3)).map(|_| rng.range(1, 3) as usize).collect();
        let qn: usize = qshape.iter().product();
        let qv: Vec<f64> = (0..qn).map(|_| (ax[0] + (ax[n - 1] - ax[0]) * rng.range(0, 32) as f64 / 32.0).min(ax[n - 1])).collect();
        let data_c = ArrayD::from_shape_vec(IxDyn(&dshape), vals.clone()).unwrap();
        let x_c = Array1::from(ax.clone());
        let q_c = ArrayD::from_shape_vec(IxDyn(&qshape), qv.clone()).unwrap();
        let reference = Interp1DBuilder::new(data_c.clone()).x(x_c.clone()).build().unwrap().interp_array(&q_c).unwrap();
        let refbits: Vec<u64> = reference.iter().map(|v| v.to_bits()).collect();
        // data through every layout of gen_layout (as a read-only view of a poisoned allocation)
        for lk in 1..6u64 {
            let spec = gen_layout(rng, &dshape, lk);
            let mut alloc: Vec<f64> = (0..spec.alloc_len()).map(poison_val).collect();
            {
                let (mut view, _, _) = make_view(&spec, &mut alloc);
                view.assign(&data_c);
            }
            let (view, _, _) = make_view(&spec, &mut alloc);
            let dview = view.view();
            // axis as a reversed view of the reversed vector / every-2nd element; query as F-order
            let mut xrev: Vec<f64> = ax.iter().rev().cloned().collect();
            xrev.insert(0, 1234.5);
            let xarr = Array1::from(xrev);
            let xview = xarr.slice(ndarray::s![1..;-1]);
            let mut q_f = Array::from_elem(IxDyn(&qshape).f(), 0.0f64);
            q_f.assign(&q_c);
            let r = catch_unwind(AssertUnwindSafe(|| {
                Interp1DBuilder::new(dview).x(xview).build().map(|i| i.interp_array(&q_f).map(|a| a.iter().map(|v| v.to_bits()).collect::<Vec<u64>>()))
            }));
            rep.evaluations += 1;
            rep.count(&format!("input-layout:{}", spec.label));
            match r {
                Ok(Ok(Ok(bits))) => if bits != refbits { rep.fail(&format!("data layout {} / reversed axis view / F-order query: results differ bitwise from owned C-order inputs", spec.label), J::Null); },
                other => rep.fail(&format!("data layout {}: call failed: {:?}", spec.label, other.map(|x| x.map(|y| y.is_ok()).is_ok())), J::Null),
            }
        }
        let _ = (Ix4::default(), Ix5::default());
    }
}

/// query arrays of rank 2-3 in every layout (x and y independently in 2-D): interp_array(q)[i..] must be
/// interp(q[i..]) whatever the strides of the query arrays
fn query_layouts(rep: &mut Report, rng: &mut Rng, ncases: usize) {
    for _ in 0..ncases {
        let qrank = rng.range(1, 3) as usize;
        let qshape: Vec<usize> = (0..qrank).map(|_| rng.range(2, 4) as usize).collect();
        let qn: usize = qshape.iter().product();
        // ---- 2-D ----
        let (sc, _f, _c) = crate::lin::gen_bilinear_scen(rng, false, false, false);
        let (xv, yv) = (sc.xvals(), sc.yvals());
        let interp = Interp2DBuilder::new(sc.make_data::<f64>()).x(Array1::from(xv.clone())).y(Array1::from(yv.clone())).strategy(Bilinear::new()).build().unwrap();
        let qx: Vec<f64> = (0..qn).map(|_| (xv[0] + (xv[xv.len() - 1] - xv[0]) * rng.range(0, 16) as f64 / 16.0).min(xv[xv.len() - 1])).collect();
        let qy: Vec<f64> = (0..qn).map(|_| (yv[0] + (yv[yv.len() - 1] - yv[0]) * rng.range(0, 16) as f64 / 16.0).min(yv[yv.len() - 1])).collect();
        let mut reference: Vec<u64> = Vec::new();
        for i in 0..qn { reference.extend(interp.interp(qx[i], qy[i]).unwrap().iter().map(|v| v.to_bits())); }
        let xs_c = ArrayD::from_shape_vec(IxDyn(&qshape), qx.clone()).unwrap();
        let ys_c = ArrayD::from_shape_vec(IxDyn(&qshape), qy.clone()).unwrap();
        for _ in 0..4 {
            let (lx, ly) = (rng.below(6), rng.below(6));
            let (sx, sy) = (gen_layout(rng, &qshape, lx), gen_layout(rng, &qshape, ly));
            let mut ax_alloc: Vec<f64> = (0..sx.alloc_len()).map(poison_val).collect();
            let mut ay_alloc: Vec<f64> = (0..sy.alloc_len()).map(poison_val).collect();
            { let (mut v, _, _) = make_view(&sx, &mut ax_alloc); v.assign(&xs_c); }
            { let (mut v, _, _) = make_view(&sy, &mut ay_alloc); v.assign(&ys_c); }
            let (vx, _, _) = make_view(&sx, &mut ax_alloc);
            let (vy, _, _) = make_view(&sy, &mut ay_alloc);
            let r = catch_unwind(AssertUnwindSafe(|| interp.interp_array(&vx.view(), &vy.view()).map(|a| a.iter().map(|v| v.to_bits()).collect::<Vec<u64>>())));
            rep.evaluations += 1;
            rep.count(&format!("2d-query-layout:{}/{}", sx.label, sy.label));
            match r {
                Ok(Ok(bits)) => if bits != reference {
                    rep.fail(&format!("2-D: interp_array(xs, ys)[i..] differs from interp(xs[i..], ys[i..]) for query layouts x={} y={} (query shape {:?})", sx.label, sy.label, qshape),
                             obj(vec![("scenario", sc.to_json()), ("qx", J::A(qx.iter().map(|v| J::F(*v)).collect())), ("qy", J::A(qy.iter().map(|v| J::F(*v)).collect()))]));
                },
                other => rep.fail(&format!("2-D: interp_array with query layouts x={} y={} failed: {:?}", sx.label, sy.label, other.map(|x| x.is_ok())), sc.to_json()),
            }
        }
        // static rank-1 queries (the Ix1 fast path) as reversed and strided views
        {
            let k = rng.range(2, 5) as usize;
            let qx1: Vec<f64> = (0..k).map(|_| (xv[0] + (xv[xv.len() - 1] - xv[0]) * rng.range(0, 16) as f64 / 16.0).min(xv[xv.len() - 1])).collect();
            let qy1: Vec<f64> = (0..k).map(|_| (yv[0] + (yv[yv.len() - 1] - yv[0]) * rng.range(0, 16) as f64 / 16.0).min(yv[yv.len() - 1])).collect();
            let mut ref1: Vec<u64> = Vec::new();
            for i in 0..k { ref1.extend(interp.interp(qx1[i], qy1[i]).unwrap().iter().map(|v| v.to_bits())); }
            let rev = |v: &Vec<f64>| Array1::from(v.iter().rev().cloned().collect::<Vec<f64>>());
            let strided = |v: &Vec<f64>| Array1::from(v.iter().flat_map(|&x| [x, -777.0]).collect::<Vec<f64>>());
            let (xr, yr, xst, yst) = (rev(&qx1), rev(&qy1), strided(&qx1), strided(&qy1));
            let xc = Array1::from(qx1.clone());
            let yc = Array1::from(qy1.clone());
            let variants: Vec<(&str, ndarray::ArrayView1<f64>, ndarray::ArrayView1<f64>)> = vec![
                ("x reversed view, y owned", xr.slice(ndarray::s![..;-1]), yc.view()),
                ("x owned, y reversed view", xc.view(), yr.slice(ndarray::s![..;-1])),
                ("both reversed views", xr.slice(ndarray::s![..;-1]), yr.slice(ndarray::s![..;-1])),
                ("both every-2nd-element views", xst.slice(ndarray::s![..;2]), yst.slice(ndarray::s![..;2])),
            ];
            for (label, vx, vy) in variants {
                let r = catch_unwind(AssertUnwindSafe(|| interp.interp_array(&vx, &vy).map(|a| a.iter().map(|v| v.to_bits()).collect::<Vec<u64>>())));
                rep.evaluations += 1;
                rep.count("2d-static-rank1-query-layout");
                match r {
                    Ok(Ok(bits)) => if bits != ref1 { rep.fail(&format!("2-D: interp_array with static rank-1 queries ({}) differs from interp element by element", label), sc.to_json()); },
                    other => rep.fail(&format!("2-D: interp_array with static rank-1 queries ({}) failed: {:?}", label, other.map(|x| x.is_ok())), sc.to_json()),
                }
            }
        }
        // ---- 1-D ----
        let n = rng.range(2, 6) as usize;
        let trail: Vec<usize> = match rng.below(3) { 0 => vec![], 1 => vec![2], _ => vec![2, 2] };
        let mut dshape = vec![n];
        dshape.extend_from_slice(&trail);
        let total: usize = dshape.iter().product();
        let vals: Vec<f64> = (0..total).map(|_| gen_value(rng, false)).collect();
        let ax = gen_axis(rng, n, Spacing::Random, false);
        let i1 = Interp1DBuilder::new(ArrayD::from_shape_vec(IxDyn(&dshape), vals).unwrap()).x(Array1::from(ax.clone())).build().unwrap();
        let qv: Vec<f64> = (0..qn).map(|_| (ax[0] + (ax[n - 1] - ax[0]) * rng.range(0, 32) as f64 / 32.0).min(ax[n - 1])).collect();
        let mut ref1: Vec<u64> = Vec::new();
        for q in &qv { ref1.extend(i1.interp(*q).unwrap().iter().map(|v| v.to_bits())); }
        let q_c = ArrayD::from_shape_vec(IxDyn(&qshape), qv.clone()).unwrap();
        for lk in 1..6u64 {
            let sq = gen_layout(rng, &qshape, lk);
            let mut alloc: Vec<f64> = (0..sq.alloc_len()).map(poison_val).collect();
            { let (mut v, _, _) = make_view(&sq, &mut alloc); v.assign(&q_c); }
            let (vq, _, _) = make_view(&sq, &mut alloc);
            let r = catch_unwind(AssertUnwindSafe(|| i1.interp_array(&vq.view()).map(|a| a.iter().map(|v| v.to_bits()).collect::<Vec<u64>>())));
            rep.evaluations += 1;
            rep.count(&format!("1d-query-layout:{}", sq.label));
            match r {
                Ok(Ok(bits)) => if bits != ref1 { rep.fail(&format!("1-D: interp_array(q)[i..] differs from interp(q[i..]) for query layout {} (query shape {:?})", sq.label, qshape), J::Null); },
                other => rep.fail(&format!("1-D: interp_array with query layout {} failed: {:?}", sq.label, other.map(|x| x.is_ok())), J::Null),
            }
        }
        // static rank-1 queries (Ix1 fast path) as reversed / strided views, also into a caller buffer
        {
            let flatq: Vec<f64> = qv.clone();
            let k = flatq.len();
            let qrev = Array1::from(flatq.iter().rev().cloned().collect::<Vec<f64>>());
            let qst = Array1::from(flatq.iter().flat_map(|&x| [x, -777.0, 555.0]).collect::<Vec<f64>>());
            for (label, vq) in [("reversed view", qrev.slice(ndarray::s![..;-1])), ("every-3rd-element view", qst.slice(ndarray::s![..;3]))] {
                let r = catch_unwind(AssertUnwindSafe(|| i1.interp_array(&vq).map(|a| a.iter().map(|v| v.to_bits()).collect::<Vec<u64>>())));
                rep.evaluations += 1;
                rep.count("1d-static-rank1-query-layout");
                match r {
                    Ok(Ok(bits)) => if bits != ref1 { rep.fail(&format!("1-D: interp_array with a static rank-1 query given as a {} differs from interp element by element", label), J::Null); },
                    other => rep.fail(&format!("1-D: interp_array with a static rank-1 query ({}) failed: {:?}", label, other.map(|x| x.is_ok())), J::Null),
                }
                let mut bshape = vec![k];
                bshape.extend_from_slice(&trail);
                let mut buf = ArrayD::from_elem(IxDyn(&bshape), -1.0f64);
                let ok = catch_unwind(AssertUnwindSafe(|| i1.interp_array_into(&vq, buf.view_mut()).is_ok())).unwrap_or(false);
                rep.evaluations += 1;
                if !ok || buf.iter().map(|v| v.to_bits()).collect::<Vec<u64>>() != ref1 {
                    rep.fail(&format!("1-D: interp_array_into with a static rank-1 query given as a {} differs from interp element by element", label), J::Null);
                }
            }
        }
    }
}

/// the strategies' own lane loops under every layout: CubicSpline (1-D) with data / target buffers in every
/// layout, Bilinear (2-D) with data in every layout; everything bitwise against the owned C-order call
fn strategy_layouts(rep: &mut Report, rng: &mut Rng, ncases: usize) {
    for _ in 0..ncases {
        // ---- CubicSpline ----
        let n = rng.range(3, 7) as usize;
        let trail: Vec<usize> = match rng.below(4) { 0 => vec![2], 1 => vec![2, 3], 2 => vec![3, 2], _ => vec![2, 2, 2] };
        let mut dshape = vec![n];
        dshape.extend_from_slice(&trail);
        let total: usize = dshape.iter().product();
        let vals: Vec<f64> = (0..total).map(|_| gen_value(rng, false)).collect();
        let ax = gen_axis(rng, n, Spacing::Random, false);
        let data_c = ArrayD::from_shape_vec(IxDyn(&dshape), vals).unwrap();
        let x_c = Array1::from(ax.clone());
        let bc = match rng.below(3) { 0 => BoundaryCondition::Natural, 1 => BoundaryCondition::NotAKnot, _ => BoundaryCondition::Clamped };
        let qshape: Vec<usize> = match rng.below(3) { 0 => vec![3], 1 => vec![2, 2], _ => vec![] };
        let qn: usize = qshape.iter().product();
        let qv: Vec<f64> = (0..qn).map(|_| (ax[0] + (ax[n - 1] - ax[0]) * rng.range(0, 32) as f64 / 32.0).min(ax[n - 1])).collect();
        let q_c = ArrayD::from_shape_vec(IxDyn(&qshape), qv.clone()).unwrap();
        let mk = |b: &BoundaryCondition<f64, IxDyn>| match b { BoundaryCondition::Natural => BoundaryCondition::Natural, BoundaryCondition::NotAKnot => BoundaryCondition::NotAKnot, _ => BoundaryCondition::Clamped };
        let interp_c = Interp1DBuilder::new(data_c.clone()).x(x_c.clone()).strategy(CubicSpline::new().boundary(mk(&bc))).build().unwrap();
        let reference: Vec<u64> = interp_c.interp_array(&q_c).unwrap().iter().map(|v| v.to_bits()).collect();
        let mut good = qshape.clone();
        good.extend_from_slice(&trail);
        for lk in 1..6u64 {
            // data in layout lk
            let spec = gen_layout(rng, &dshape, lk);
            let mut alloc: Vec<f64> = (0..spec.alloc_len()).map(poison_val).collect();
            { let (mut view, _, _) = make_view(&spec, &mut alloc); view.assign(&data_c); }
            let (view, _, _) = make_view(&spec, &mut alloc);
            let r = catch_unwind(AssertUnwindSafe(|| {
                Interp1DBuilder::new(view.view()).x(x_c.view()).strategy(CubicSpline::new().boundary(mk(&bc))).build()
                    .map(|i| i.interp_array(&q_c).map(|a| a.iter().map(|v| v.to_bits()).collect::<Vec<u64>>()))
            }));
            rep.evaluations += 1;
            rep.count(&format!("spline-data-layout:{}", spec.label));
            match r {
                Ok(Ok(Ok(bits))) => if bits != reference { rep.fail(&format!("CubicSpline: data layout {} gives results that differ bitwise from owned C-order data (data shape {:?})", spec.label, dshape), J::Null); },
                other => rep.fail(&format!("CubicSpline: data layout {}: call failed: {:?}", spec.label, other.map(|x| x.map(|y| y.is_ok()).is_ok())), J::Null),
            }
            // target buffer in layout lk
            let bspec = gen_layout(rng, &good, lk);
            let mut balloc: Vec<f64> = (0..bspec.alloc_len()).map(poison_val).collect();
            let ok;
            { let (bview, _, _) = make_view(&bspec, &mut balloc);
              ok = catch_unwind(AssertUnwindSafe(|| interp_c.interp_array_into(&q_c, bview).is_ok())).unwrap_or(false); }
            rep.evaluations += 1;
            rep.count(&format!("spline-buffer-layout:{}", bspec.label));
            if !ok { rep.fail(&format!("CubicSpline: correctly shaped buffer with layout {} not accepted", bspec.label), J::Null); }
            else {
                let (bview, _, _) = make_view(&bspec, &mut balloc);
                let got: Vec<u64> = bview.iter().map(|v| v.to_bits()).collect();
                if got != reference { rep.fail(&format!("CubicSpline: interp_array_into with buffer layout {} differs from interp_array (shape {:?})", bspec.label, good), J::Null); }
            }
            // interp_into(x, target) with the target in layout lk
            if !trail.is_empty() {
                let tspec = gen_layout(rng, &trail, lk);
                let mut talloc: Vec<f64> = (0..tspec.alloc_len()).map(poison_val).collect();
                let xq = ax[0] + (ax[n - 1] - ax[0]) * 0.375;
                let want: Vec<u64> = interp_c.interp(xq).unwrap().iter().map(|v| v.to_bits()).collect();
                let ok;
                { let (tview, _, _) = make_view(&tspec, &mut talloc);
                  ok = catch_unwind(AssertUnwindSafe(|| interp_c.interp_into(xq, tview).is_ok())).unwrap_or(false); }
                rep.evaluations += 1;
                if !ok { rep.fail(&format!("CubicSpline: interp_into refused a correctly shaped target with layout {}", tspec.label), J::Null); }
                else {
                    let (tview, _, _) = make_view(&tspec, &mut talloc);
                    let got: Vec<u64> = tview.iter().map(|v| v.to_bits()).collect();
                    if got != want { rep.fail(&format!("CubicSpline: interp_into with target layout {} differs from interp (trailing shape {:?})", tspec.label, trail), J::Null); }
                }
            }
        }
        // ---- Bilinear: data (nx, ny, trailing..) in every layout ----
        let (nx, ny) = (rng.range(2, 5) as usize, rng.range(2, 5) as usize);
        let trail2: Vec<usize> = match rng.below(3) { 0 => vec![], 1 => vec![3], _ => vec![2, 3] };
        let mut d2 = vec![nx, ny];
        d2.extend_from_slice(&trail2);
        let t2: usize = d2.iter().product();
        let v2: Vec<f64> = (0..t2).map(|_| gen_value(rng, false)).collect();
        let data2 = ArrayD::from_shape_vec(IxDyn(&d2), v2).unwrap();
        let xa = gen_axis(rng, nx, Spacing::Random, false);
        let ya = gen_axis(rng, ny, Spacing::Random, false);
        let qs2: Vec<usize> = match rng.below(2) { 0 => vec![3], _ => vec![2, 2] };
        let qn2: usize = qs2.iter().product();
        let qx: Vec<f64> = (0..qn2).map(|_| (xa[0] + (xa[nx - 1] - xa[0]) * rng.range(0, 32) as f64 / 32.0).min(xa[nx - 1])).collect();
        let qy: Vec<f64> = (0..qn2).map(|_| (ya[0] + (ya[ny - 1] - ya[0]) * rng.range(0, 32) as f64 / 32.0).min(ya[ny - 1])).collect();
        let xs = ArrayD::from_shape_vec(IxDyn(&qs2), qx).unwrap();
        let ys = ArrayD::from_shape_vec(IxDyn(&qs2), qy).unwrap();
        let ref2: Vec<u64> = Interp2DBuilder::new(data2.clone()).x(Array1::from(xa.clone())).y(Array1::from(ya.clone())).build().unwrap()
            .interp_array(&xs, &ys).unwrap().iter().map(|v| v.to_bits()).collect();
        for lk in 1..6u64 {
            let spec = gen_layout(rng, &d2, lk);
            let mut alloc: Vec<f64> = (0..spec.alloc_len()).map(poison_val).collect();
            { let (mut view, _, _) = make_view(&spec, &mut alloc); view.assign(&data2); }
            let (view, _, _) = make_view(&spec, &mut alloc);
            let xarr = Array1::from(xa.clone());
            let yarr = Array1::from(ya.iter().rev().cloned().collect::<Vec<f64>>());
            let yview = yarr.slice(ndarray::s![..;-1]);
            let r = catch_unwind(AssertUnwindSafe(|| {
                Interp2DBuilder::new(view.view()).x(xarr.view()).y(yview).build()
                    .map(|i| i.interp_array(&xs, &ys).map(|a| a.iter().map(|v| v.to_bits()).collect::<Vec<u64>>()))
            }));
            rep.evaluations += 1;
            rep.count(&format!("bilinear-data-layout:{}", spec.label));
            match r {
                Ok(Ok(Ok(bits))) => if bits != ref2 { rep.fail(&format!("Bilinear: data layout {} (y axis as a reversed view) gives results that differ bitwise from owned C-order data (data shape {:?})", spec.label, d2), J::Null); },
                other => rep.fail(&format!("Bilinear: data layout {}: call failed: {:?}", spec.label, other.map(|x| x.map(|y| y.is_ok()).is_ok())), J::Null),
            }
        }
    }
}
