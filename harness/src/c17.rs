//! C17: histories on one shared interpolator: sequential, permuted, and split over threads.
use crate::gen::*;
use crate::json::{obj, s, J};
use crate::out::Report;
use crate::rng::Rng;
use crate::scen::*;
use crate::spl::{gen_spline_scen, SplineOpts};
use crate::xrat::{arena_reset, XRat};
use crate::Cfg;
use ndarray::{Array1, ArrayD, IxDyn, OwnedArcRepr, OwnedRepr, ViewRepr};
use ndarray_interp::interp1d::cubic_spline::{CubicSpline, CubicSplineStrategy};
use ndarray_interp::interp1d::{Interp1D, Interp1DBuilder, Linear};
use ndarray_interp::interp2d::{Bilinear, Interp2D, Interp2DBuilder};
use std::panic::{catch_unwind, AssertUnwindSafe};

fn assert_send_sync<T: Send + Sync>() {}
#[allow(dead_code)]
fn static_assertions() {
    assert_send_sync::<Interp1D<OwnedRepr<f64>, OwnedRepr<f64>, IxDyn, Linear>>();
    assert_send_sync::<Interp1D<OwnedArcRepr<f64>, OwnedArcRepr<f64>, IxDyn, Linear>>();
    assert_send_sync::<Interp1D<ViewRepr<&'static f64>, ViewRepr<&'static f64>, IxDyn, Linear>>();
    assert_send_sync::<Interp1D<OwnedRepr<f32>, OwnedRepr<f32>, ndarray::Ix2, CubicSplineStrategy<OwnedRepr<f32>, ndarray::Ix2>>>();
    assert_send_sync::<Interp1D<OwnedArcRepr<f64>, OwnedRepr<f64>, IxDyn, CubicSplineStrategy<OwnedArcRepr<f64>, IxDyn>>>();
    assert_send_sync::<Interp2D<OwnedRepr<f64>, OwnedRepr<f64>, OwnedRepr<f64>, IxDyn, Bilinear>>();
    assert_send_sync::<Interp2D<ViewRepr<&'static f64>, OwnedArcRepr<f64>, OwnedRepr<f64>, ndarray::Ix3, Bilinear>>();
}

#[derive(Clone, Debug)]
enum Op {
    Single(f64),
    Batch(Vec<usize>, Vec<f64>),
    Into(f64),
    IntoBad(f64),
    BatchIntoBad(Vec<f64>),
}

/// canonical answer: bit patterns, or the error / panic kind
fn answer1<S>(interp: &Interp1D<OwnedRepr<f64>, OwnedRepr<f64>, IxDyn, S>, trail: &[usize], op: &Op) -> String
where
    S: ndarray_interp::interp1d::Interp1DStrategy<OwnedRepr<f64>, OwnedRepr<f64>, IxDyn>,
{
    let r = catch_unwind(AssertUnwindSafe(|| match op {
        Op::Single(q) => interp.interp(*q).map(|a| a.iter().map(|v| v.to_bits()).collect::<Vec<u64>>()).map_err(|_| ()),
        Op::Batch(sh, qs) => interp.interp_array(&ArrayD::from_shape_vec(IxDyn(sh), qs.clone()).unwrap()).map(|a| a.iter().map(|v| v.to_bits()).collect::<Vec<u64>>()).map_err(|_| ()),
        Op::Into(q) => {
            let mut b = ArrayD::from_elem(IxDyn(trail), -1.0);
            interp.interp_into(*q, b.view_mut()).map(|_| b.iter().map(|v| v.to_bits()).collect::<Vec<u64>>()).map_err(|_| ())
        }
        Op::IntoBad(q) => {
            let mut sh = trail.to_vec();
            sh.push(2);
            let mut b = ArrayD::from_elem(IxDyn(&sh), -1.0);
            interp.interp_into(*q, b.view_mut()).map(|_| vec![]).map_err(|_| ())
        }
        Op::BatchIntoBad(qs) => {
            let mut sh = vec![qs.len() + 1];
            sh.extend_from_slice(trail);
            let mut b = ArrayD::from_elem(IxDyn(&sh), -1.0);
            interp.interp_array_into(&Array1::from(qs.clone()), b.view_mut()).map(|_| vec![]).map_err(|_| ())
        }
    }));
    match r {
        Ok(Ok(v)) => format!("{:?}", v),
        Ok(Err(())) => "OutOfBounds".into(),
        Err(_) => "panic".into(),
    }
}

fn gen_ops(rng: &mut Rng, ax: &[f64], nops: usize) -> Vec<Op> {
    let lo = ax[0];
    let hi = ax[ax.len() - 1];
    let q = |rng: &mut Rng| -> f64 {
        match rng.below(8) {
            0 => hi + (hi - lo) * rng.range(1, 4) as f64 * 0.5,
            1 => lo - 0.25,
            _ => lo + (hi - lo) * rng.range(0, 64) as f64 / 64.0,
        }
    };
    (0..nops)
        .map(|_| match rng.below(10) {
            0 | 1 | 2 | 3 => Op::Single(q(rng)),
            4 | 5 => {
                let sh: Vec<usize> = (0..rng.below(3)).map(|_| rng.range(0, 3) as usize).collect();
                let n: usize = sh.iter().product();
                Op::Batch(sh, (0..n).map(|_| q(rng)).collect())
            }
            6 | 7 => Op::Into(q(rng)),
            8 => Op::IntoBad(q(rng)),
            _ => Op::BatchIntoBad((0..rng.range(1, 3)).map(|_| q(rng)).collect()),
        })
        .collect()
}

fn run_history<S>(rep: &mut Report, rng: &mut Rng, interp: &Interp1D<OwnedRepr<f64>, OwnedRepr<f64>, IxDyn, S>, trail: &[usize], ops: &[Op], label: &str, threads: usize)
where
    S: ndarray_interp::interp1d::Interp1DStrategy<OwnedRepr<f64>, OwnedRepr<f64>, IxDyn> + Sync,
{
    let seq: Vec<String> = ops.iter().map(|o| answer1(interp, trail, o)).collect();
    rep.evaluations += ops.len() as u64;
    for a in &seq {
        rep.count(&format!("answer:{}", if a == "panic" { "panic(rejected buffer)" } else if a == "OutOfBounds" { "OutOfBounds" } else { "Ok" }));
    }
    // permuted order
    let mut perm: Vec<usize> = (0..ops.len()).collect();
    for k in (1..perm.len()).rev() {
        let j = rng.below((k + 1) as u64) as usize;
        perm.swap(k, j);
    }
    for &i in &perm {
        let a = answer1(interp, trail, &ops[i]);
        rep.evaluations += 1;
        if a != seq[i] {
            rep.fail(&format!("{}: answer to {:?} depends on the order of earlier queries", label, ops[i]), J::Null);
            return;
        }
    }
    // concurrently, `threads` threads sharing the interpolator
    let results: Vec<Vec<(usize, String)>> = std::thread::scope(|sc| {
        let hs: Vec<_> = (0..threads)
            .map(|t| {
                let ops = ops;
                sc.spawn(move || {
                    let mut out = vec![];
                    // every thread also re-asks a few of the others' queries
                    for i in (0..ops.len()).filter(|i| i % threads == t || (i + 1) % (threads + 3) == 0) {
                        out.push((i, answer1(interp, trail, &ops[i])));
                    }
                    out
                })
            })
            .collect();
        hs.into_iter().map(|h| h.join().unwrap()).collect()
    });
    for r in results {
        for (i, a) in r {
            rep.evaluations += 1;
            if a != seq[i] {
                rep.fail(&format!("{}: answer to {:?} differs when asked concurrently from {} threads", label, ops[i], threads), J::Null);
                return;
            }
        }
    }
    // and once more sequentially after everything
    for (i, o) in ops.iter().enumerate().take(8) {
        if answer1(interp, trail, o) != seq[i] {
            rep.fail(&format!("{}: answer changed after the history", label), J::Null);
            return;
        }
    }
}

pub fn run(cfg: &Cfg) {
    static_assertions();
    let mut rep = Report::new("C17", &cfg.out);
    let ks = rep.kind(crate::spl::SPLINE_KIND.0, crate::spl::SPLINE_KIND.1);
    let k1 = rep.kind("scen1_ok_qc", "(scen1 Qc * (bout * list (rout Qc)))");
    rep.shard_size = 0;
    let mut rng = Rng::new(cfg.seed);
    let thorough = cfg.tier == "thorough";
    let nhist = if thorough { 400 } else { 40 };
    for hi in 0..nhist {
        let spline = hi % 2 == 1;
        let sc = if spline {
            let o = SplineOpts { nmax: 8, ext: rng.coin(), allow_periodic: true, force_bc: None, outside: false };
            gen_spline_scen(&mut rng, &o).0
        } else {
            { let e = rng.coin(); crate::lin::gen_linear_scen(&mut rng, false, e, false).0 }
        };
        let sc = Scen1 { ax: Some(sc.axis_vals()), ..sc };
        let ax = sc.axis_vals();
        let nops = rng.range(50, if thorough { 2000 } else { 200 }) as usize;
        let ops = gen_ops(&mut rng, &ax, nops);
        let threads = rng.range(2, if thorough { 16 } else { 8 }) as usize;
        rep.eval(Some(&format!("{:?}{}", sc, nops)));
        rep.count(if spline { "history:spline" } else { "history:linear" });
        rep.count_n("ops", nops as u64);
        rep.count(&format!("threads:{}", threads));
        let data = make_data::<f64>(&sc.rows, &sc.trail);
        let x = Array1::from(ax.clone());
        let label = format!("history {} ({} ops)", hi, nops);
        match &sc.strat {
            Strat1::Linear => {
                let interp = Interp1DBuilder::new(data).x(x).strategy(crate::scen::configure_linear(sc.ext)).build().unwrap();
                run_history(&mut rep, &mut rng, &interp, &sc.trail, &ops, &label, threads);
            }
            Strat1::Spline(_) => {
                // build through the scenario runner's path: reuse Scen1 to construct the boundary
                let built = crate::spl::build_spline_f64(&sc);
                match built {
                    Some(interp) => run_history(&mut rep, &mut rng, &interp, &sc.trail, &ops, &label, threads),
                    None => rep.fail("spline build failed on valid input", sc.to_json()),
                }
            }
        }
        // exact sequential history on one interpolator, with repeats, against the model
        let mut qs: Vec<f64> = ops.iter().filter_map(|o| match o { Op::Single(q) | Op::Into(q) => Some(*q), _ => None }).take(24).collect();
        let rep_q = qs.clone();
        qs.extend(rep_q.iter().rev());
        let hs = Scen1 { queries: qs, ..sc.clone() };
        arena_reset();
        let rx = hs.run::<XRat>();
        // an answer must not depend on the position in the history
        let half = rx.1.len() / 2;
        for i in 0..half {
            if rx.1[i] != rx.1[rx.1.len() - 1 - i] {
                rep.fail("exact run: the same query answered differently later in the history", hs.to_json());
                break;
            }
        }
        if spline { crate::spl::add_spline_coq(&mut rep, ks, &hs, &rx); } else {
            let term = format!("({}, {})", hs.to_coq(&qc), outs_coq(&rx.0, &rx.1, &|v| v.to_coq_qc()));
            rep.coq_case(k1, term, hs.to_json());
        }
        if hi == 0 {
            rep.sample(obj(vec![("interpolator", sc.to_json()), ("first_ops", J::A(ops.iter().take(6).map(|o| s(format!("{:?}", o))).collect())), ("threads", J::I(threads as i64))]));
        }
    }
    // 2-D
    for _ in 0..(if thorough { 100 } else { 12 }) {
        let (sc, _f, _c) = crate::lin::gen_bilinear_scen(&mut rng, false, false, false);
        let interp = Interp2DBuilder::new(sc.make_data::<f64>()).x(Array1::from(sc.xvals())).y(Array1::from(sc.yvals())).strategy(Bilinear::new()).build().unwrap();
        let qs: Vec<(f64, f64)> = (0..60).map(|_| *rng.pick(&sc.queries)).collect();
        let ans = |q: &(f64, f64)| format!("{:?}", interp.interp(q.0, q.1).map(|a| a.iter().map(|v| v.to_bits()).collect::<Vec<_>>()).map_err(|_| ()));
        let seq: Vec<String> = qs.iter().map(ans).collect();
        let res: Vec<Vec<String>> = std::thread::scope(|scp| {
            let hs: Vec<_> = (0..4).map(|_| scp.spawn(|| qs.iter().rev().map(ans).collect::<Vec<_>>())).collect();
            hs.into_iter().map(|h| h.join().unwrap()).collect()
        });
        rep.evaluations += 300;
        rep.count("history:bilinear");
        for r in res {
            if r.iter().rev().cloned().collect::<Vec<_>>() != seq {
                rep.fail("2-D: answers differ between threads / orders", sc.to_json());
                break;
            }
        }
    }
    let _ = CubicSpline::<f64, IxDyn>::new();
    rep.finish("random histories (50..200 ops, thorough ..2000) on ONE shared interpolator mixing interp, interp_array (ranks 0-2 incl. empty), interp_into, calls with rejected buffers (panic caught) and out-of-range queries; replayed in permuted order and split over 2..8 (16) threads via std::thread::scope; every answer compared bitwise with the sequential run; Linear, CubicSpline (all boundaries) and Bilinear; exact sequential history with repeated queries compared with the model; Send + Sync of owned / Arc / view storage asserted at compile time; struct fields and absence of interior mutability audited from the source by extract/state.py");
}
