//! C11: get_lower_index against a linear-scan oracle and the Coq model (extended rationals and
//! integers), incl. the bounded-exhaustive (length, guess interval, rank) sweep.
use crate::gen::*;
use crate::json::{obj, s, J};
use crate::out::Report;
use crate::rng::Rng;
use crate::scen::panic_msg;
use crate::xrat::{arena_reset, Val, XRat};
use crate::Cfg;
use ndarray::Array1;
use ndarray_interp::vector_extensions::VectorExtensions;
use std::panic::{catch_unwind, AssertUnwindSafe};

fn oracle_f64(ax: &[f64], q: f64) -> usize {
    let n = ax.len();
    if q <= ax[0] {
        return 0;
    }
    if q >= ax[n - 1] {
        return n - 2;
    }
    let mut i = 0;
    while i + 2 < n && ax[i + 1] <= q {
        i += 1;
    }
    i
}

#[derive(Clone, Debug, PartialEq)]
enum Res {
    Idx(usize),
    Panic(String),
}
impl Res {
    fn coq(&self) -> String {
        match self {
            Res::Idx(i) => format!("{}", i),
            Res::Panic(_) => "(-1)".into(),
        }
    }
}

fn lookup<T>(ax: &Array1<T>, q: T) -> (Res, Option<usize>)
where
    T: std::fmt::Debug + PartialOrd + num_traits::Num + num_traits::NumCast + Copy,
{
    // the same knots stored in reverse memory order (negative stride) and as every-2nd element of a larger
    // array must give the same answer
    let rev = crate::scen::relayout(ax.clone(), 1);
    let wide = Array1::from(ax.iter().flat_map(|&v| [v, v]).collect::<Vec<T>>());
    let strided = wide.slice(ndarray::s![..;2]);
    let r_rev = catch_unwind(AssertUnwindSafe(|| rev.get_lower_index(q)));
    let r_str = catch_unwind(AssertUnwindSafe(|| strided.get_lower_index(q)));
    ndarray_interp::verif::reset();
    let r = catch_unwind(AssertUnwindSafe(|| ax.get_lower_index(q)));
    let g = ndarray_interp::verif::last_guess();
    match r {
        Ok(i) => {
            if r_rev.as_ref().ok() != Some(&i) || r_str.as_ref().ok() != Some(&i) {
                return (Res::Panic(format!("get_lower_index depends on the storage of the axis: owned {} / negative-stride {:?} / strided view {:?}", i, r_rev.ok(), r_str.ok())), g);
            }
            (Res::Idx(i), g)
        }
        Err(p) => (Res::Panic(panic_msg(p)), g),
    }
}

struct Ctx<'a> {
    rep: &'a mut Report,
    kx: usize,
    kz: usize,
    pairs: std::collections::BTreeSet<(usize, usize, usize)>,
}

/// one float axis with its queries: f64 (+f32) against the oracle, exact run against the model
fn float_case(cx: &mut Ctx, ax: &[f64], queries: &[f64], f32safe: bool, to_coq: bool, class: &str, want_guess: Option<usize>) {
    let a64 = Array1::from(ax.to_vec());
    let desc = || {
        obj(vec![("axis", J::A(ax.iter().map(|x| s(format!("{:?}", x))).collect())),
                 ("queries", J::A(queries.iter().map(|x| s(format!("{:?}", x))).collect())), ("class", s(class))])
    };
    let mut res64 = vec![];
    for &q in queries {
        let (r, g) = lookup(&a64, q);
        cx.rep.evaluations += 1;
        let want = oracle_f64(ax, q);
        if r != Res::Idx(want) {
            cx.rep.fail(&format!("f64: get_lower_index({:?}) = {:?}, bracketing interval is {}", q, r, want), desc());
        }
        if let (Some(g), Some(_)) = (g, want_guess) {
            cx.pairs.insert((ax.len(), g.min(ax.len()), want));
        }
        res64.push(r);
    }
    if f32safe {
        let a32 = Array1::from(ax.iter().map(|&x| x as f32).collect::<Vec<_>>());
        for (k, &q) in queries.iter().enumerate() {
            if !(is_f32_exact(q) || q.is_infinite()) {
                continue;
            }
            let (r, _) = lookup(&a32, q as f32);
            cx.rep.evaluations += 1;
            if r != res64[k] {
                cx.rep.fail(&format!("f32 and f64 disagree on get_lower_index({:?}): {:?} vs {:?}", q, r, res64[k]), desc());
            }
        }
    }
    // exact run of the same generic code
    arena_reset();
    let ax_x = Array1::from(ax.iter().map(|&x| XRat::new(Val::from_f64(x))).collect::<Vec<_>>());
    let mut resx = vec![];
    for (k, &q) in queries.iter().enumerate() {
        let (r, _) = lookup(&ax_x, XRat::new(Val::from_f64(q)));
        cx.rep.evaluations += 1;
        if r != res64[k] {
            cx.rep.fail(&format!("exact run and f64 run disagree on get_lower_index({:?}): {:?} vs {:?}", q, r, res64[k]), desc());
        }
        resx.push(r);
    }
    if to_coq {
        let term = format!(
            "([{}], [{}], [{}])",
            ax.iter().map(|&x| Val::from_f64(x).to_coq_xq()).collect::<Vec<_>>().join("; "),
            queries.iter().map(|&x| Val::from_f64(x).to_coq_xq()).collect::<Vec<_>>().join("; "),
            resx.iter().map(|r| r.coq()).collect::<Vec<_>>().join("; ")
        );
        cx.rep.coq_case(cx.kx, term, desc());
    }
}

fn oracle_i64(ax: &[i64], q: i64) -> usize {
    let n = ax.len();
    if q <= ax[0] { return 0; }
    if q >= ax[n - 1] { return n - 2; }
    let mut i = 0;
    while i + 2 < n && ax[i + 1] <= q { i += 1; }
    i
}

fn int_case(cx: &mut Ctx, ax: &[i64], queries: &[i64], small: bool) {
    let desc = obj(vec![("axis", J::A(ax.iter().map(|&x| J::I(x)).collect())), ("queries", J::A(queries.iter().map(|&x| J::I(x)).collect())), ("class", s("integer"))]);
    let a = Array1::from(ax.to_vec());
    let axf: Vec<f64> = ax.iter().map(|&x| x as f64).collect();
    let mut res = vec![];
    for &q in queries {
        let (r, _) = lookup(&a, q);
        cx.rep.evaluations += 1;
        let want = oracle_i64(ax, q);
        let _ = &axf;
        if r != Res::Idx(want) {
            cx.rep.fail(&format!("i64: get_lower_index({}) = {:?}, bracketing interval is {}", q, r, want), desc.clone());
        }
        res.push(r);
    }
    if small {
        let a32 = Array1::from(ax.iter().map(|&x| x as i32).collect::<Vec<_>>());
        for (k, &q) in queries.iter().enumerate() {
            let (r, _) = lookup(&a32, q as i32);
            cx.rep.evaluations += 1;
            if r != res[k] {
                cx.rep.fail(&format!("i32 and i64 disagree on get_lower_index({})", q), desc.clone());
            }
        }
    }
    let term = format!(
        "([{}], [{}], [{}])",
        ax.iter().map(|x| format!("({})", x)).collect::<Vec<_>>().join("; "),
        queries.iter().map(|x| format!("({})", x)).collect::<Vec<_>>().join("; "),
        res.iter().map(|r| r.coq()).collect::<Vec<_>>().join("; ")
    );
    cx.rep.coq_case(cx.kz, term, desc);
}

fn float_queries(rng: &mut Rng, ax: &[f64], f32safe: bool, max: usize) -> Vec<f64> {
    let mut q = queries_in_range(rng, ax, f32safe, max);
    q.extend(queries_outside(rng, ax, f32safe, 3));
    q.extend([f64::INFINITY, f64::NEG_INFINITY, 0.0, -0.0]);
    if f32safe {
        q.extend([f32::MAX as f64, f32::MIN as f64]);
    } else {
        q.extend([f64::MAX, f64::MIN]);
    }
    q
}

pub fn run(cfg: &Cfg) {
    let mut rep = Report::new("C11", &cfg.out);
    let kx = rep.kind("c11_ok_xq", "(list xq * list xq * list Z)");
    let kz = rep.kind("c11_ok_z", "(list Z * list Z * list Z)");
    rep.shard_size = 0;
    let mut rng = Rng::new(cfg.seed);
    let thorough = cfg.tier == "thorough";
    let mut cx = Ctx { rep: &mut rep, kx, kz, pairs: Default::default() };

    // 1. bounded-exhaustive: every (n, guess interval g, rank r)
    let nmax = if thorough { 32 } else { 13 };
    let mut wanted = 0u64;
    for n in 2..=nmax {
        for g in 0..(n - 1) {
            for r in 0..(n - 1) {
                wanted += 1;
                let q = g as f64 + 0.5; // with a0 = 0 and al = n-1 the exact estimate is q itself
                let mut ax = vec![0.0f64; n];
                ax[n - 1] = (n - 1) as f64;
                for j in 1..=r.min(n - 2) {
                    ax[j] = q * j as f64 / r as f64; // (0, q]
                }
                let rest = n - 2 - r.min(n - 2);
                for j in 1..=rest {
                    ax[r + j] = q + ((n - 1) as f64 - q) * j as f64 / (rest + 1) as f64;
                }
                // enforce strictness after rounding
                for j in 1..n {
                    if ax[j] <= ax[j - 1] {
                        ax[j] = next_up(ax[j - 1]);
                    }
                }
                if !(ax[n - 2] < ax[n - 1]) {
                    continue;
                }
                let queries = vec![q, ax[r], next_down(ax[(r + 1).min(n - 1)])];
                float_case(&mut cx, &ax, &queries, false, true, "guess-rank-sweep", Some(g));
                cx.rep.eval(Some(&format!("sweep {} {} {}", n, g, r)));
            }
        }
    }
    cx.rep.count_n("sweep:(n,g,r) triples requested", wanted);

    // 2. random axes of every spacing class
    let nrand = if thorough { 2000 } else { 250 };
    for i in 0..nrand {
        let n = pick_n(&mut rng, thorough);
        let sp = *rng.pick(&SPACINGS);
        let f32safe = rng.coin();
        let ax = gen_axis(&mut rng, n, sp, f32safe);
        let queries = float_queries(&mut rng, &ax, f32safe, 24);
        cx.rep.count(&format!("random:{:?}", sp));
        cx.rep.eval(Some(&format!("{:?}{:?}", ax, queries)));
        float_case(&mut cx, &ax, &queries, f32safe, true, &format!("{:?}", sp), None);
        if i == 0 {
            cx.rep.sample(obj(vec![("axis", J::A(ax.iter().map(|x| s(format!("{:?}", x))).collect())), ("first_queries", J::A(queries.iter().take(6).map(|x| s(format!("{:?}", x))).collect()))]));
        }
    }

    // 3. long axes (oracle only; too long for Coq literals), magnitudes 1e-300..1e300, logarithmic
    let nlong = if thorough { 400 } else { 40 };
    for _ in 0..nlong {
        let n = rng.range(200, if thorough { 10000 } else { 3000 }) as usize;
        let kind = rng.below(4);
        let mut ax = Vec::with_capacity(n);
        match kind {
            0 => {
                let h = rng.range(1, 9) as f64 * 0.125;
                for i in 0..n { ax.push(-17.0 + i as f64 * h); }
            }
            1 => {
                // logarithmic: 1e-300 .. 1e300
                for i in 0..n { ax.push((10.0f64).powf(-300.0 + 600.0 * i as f64 / (n - 1) as f64)); }
            }
            2 => {
                let mut c = 1.0;
                for _ in 0..n { ax.push(c); c = next_up(next_up(c)); if rng.chance(1, 50) { c *= 1.5; } }
            }
            _ => {
                let mut c = -1e3;
                for _ in 0..n { ax.push(c); c += rng.range(1, 1000) as f64 * 1e-3; }
            }
        }
        for j in 1..n {
            if ax[j] <= ax[j - 1] { ax[j] = next_up(ax[j - 1]); }
        }
        let span = ax[n - 1] - ax[0];
        if !span.is_finite() || !((n - 1) as f64 / span).is_finite() {
            continue; // outside C11's hypotheses
        }
        let mut queries = vec![f64::INFINITY, f64::NEG_INFINITY, f64::MAX, f64::MIN, 0.0];
        for _ in 0..60 {
            let k = rng.below(n as u64) as usize;
            queries.push(ax[k]);
            queries.push(next_up(ax[k]));
            queries.push(next_down(ax[k]));
            if k + 1 < n { queries.push(ax[k] / 2.0 + ax[k + 1] / 2.0); }
        }
        cx.rep.count(&format!("long:{}", ["uniform", "logarithmic-1e-300..1e300", "2-ulp-clusters", "random-steps"][kind as usize]));
        cx.rep.eval(Some(&format!("long{:?}{}", &ax[..4], n)));
        float_case(&mut cx, &ax, &queries, false, false, "long", None);
    }

    // 3b. axes of huge magnitude: knots c_i * 2^1019 with 0 <= c_i <= 30, so that the span and
    //     (len-1)/span are finite (C11's hypotheses) while (len-1)*(q-x0) would not be
    let nhuge = if thorough { 400 } else { 60 };
    for _ in 0..nhuge {
        let n = rng.range(2, 9) as usize;
        let mut cs: Vec<i64> = vec![];
        let mut c = rng.range(0, 4);
        for _ in 0..n { cs.push(c); c += rng.range(1, 4); }
        if *cs.last().unwrap() > 30 { continue; }
        let unit = (2.0f64).powi(1019);
        let sign = if rng.coin() { 1.0 } else { -1.0 };
        let mut ax: Vec<f64> = cs.iter().map(|&k| sign * k as f64 * unit).collect();
        if sign < 0.0 { ax.reverse(); }
        let mut queries = vec![f64::INFINITY, f64::NEG_INFINITY, f64::MAX, f64::MIN, 0.0];
        for w in ax.windows(2) {
            queries.push(w[0]);
            queries.push(w[0] / 2.0 + w[1] / 2.0);
            queries.push(next_down(w[1]));
            queries.push(next_up(w[0]));
        }
        cx.rep.count("huge-magnitude(2^1019)");
        cx.rep.eval(Some(&format!("huge{:?}", ax)));
        float_case(&mut cx, &ax, &queries, false, true, "huge-magnitude", None);
    }

    // 4. integer axes
    let nint = if thorough { 1500 } else { 150 };
    for _ in 0..nint {
        let n = rng.range(2, 40) as usize;
        let small = rng.coin();
        let mut ax = vec![];
        let mut c = if small { rng.range(-1000, 1000) } else { rng.range(-(1i64 << 40), 1i64 << 40) };
        for _ in 0..n {
            ax.push(c);
            c += if small { rng.range(1, 50) } else { rng.range(1, 1i64 << 30) };
        }
        let mut queries = vec![ax[0] - 1, ax[n - 1] + 1, ax[0], ax[n - 1]];
        for _ in 0..12 {
            let k = rng.below(n as u64) as usize;
            queries.extend([ax[k], ax[k] + 1, ax[k] - 1]);
        }
        cx.rep.count(if small { "integer:i32+i64" } else { "integer:i64" });
        cx.rep.eval(Some(&format!("{:?}", ax)));
        int_case(&mut cx, &ax, &queries, small);
    }
    // 4b. i32 axes with a large span and many knots: (len-1)*(q-x0) exceeds i32 although the span does not
    for _ in 0..(if thorough { 6 } else { 3 }) {
        let n = rng.range(1500, 2500) as usize;
        let step = rng.range(500, 900);
        let start = rng.range(-100000, 100000);
        let ax: Vec<i64> = (0..n).map(|i| start + i as i64 * step).collect();
        let mut queries = vec![ax[0], ax[n - 1], ax[0] - 5, ax[n - 1] + 5];
        for _ in 0..40 {
            let k = rng.below((n - 1) as u64) as usize;
            queries.extend([ax[k], ax[k] + 1, ax[k] + step / 2, ax[k + 1] - 1]);
        }
        cx.rep.count("integer:i32-large-span");
        cx.rep.eval(Some(&format!("i32span{}{}", n, step)));
        int_case(&mut cx, &ax, &queries, true);
    }
    // 4c. i64 axes far above 2^53 with small steps (not representable in f64), queries inside the range
    for _ in 0..(if thorough { 200 } else { 30 }) {
        let n = rng.range(2, 30) as usize;
        let base: i64 = (1i64 << 62) - rng.range(0, 1i64 << 20);
        let sign = if rng.coin() { 1i64 } else { -1i64 };
        let mut ax = vec![];
        let mut c = 0i64;
        for _ in 0..n { ax.push(c); c += rng.range(1, 4); }
        let ax: Vec<i64> = if sign > 0 { ax.iter().map(|d| base - c + d).collect() } else { ax.iter().map(|d| -base + d).collect() };
        let mut queries = vec![ax[0], ax[n - 1], ax[0] - 1, ax[n - 1] + 1];
        for _ in 0..10 {
            let k = rng.below(n as u64) as usize;
            queries.extend([ax[k], ax[k] + 1, ax[k] - 1]);
        }
        cx.rep.count("integer:i64-above-2^53");
        cx.rep.eval(Some(&format!("{:?}", ax)));
        int_case(&mut cx, &ax, &queries, false);
    }
    // 4d. small integer axes, queries at the extremes of the integer type (both clamps; q - x0 overflows)
    for _ in 0..(if thorough { 200 } else { 30 }) {
        let n = rng.range(2, 12) as usize;
        let mut ax = vec![];
        let mut c = rng.range(-50, 50);
        for _ in 0..n { ax.push(c); c += rng.range(1, 9); }
        let q64 = vec![i64::MAX, i64::MIN, i64::MAX - 1, i64::MIN + 1, i32::MAX as i64, i32::MIN as i64];
        cx.rep.count("integer:extreme-queries");
        cx.rep.eval(Some(&format!("ext{:?}", ax)));
        int_case(&mut cx, &ax, &q64, false);
        // the same axis at i32 with i32 extremes
        let a32 = Array1::from(ax.iter().map(|&x| x as i32).collect::<Vec<_>>());
        for &q in &[i32::MAX, i32::MIN, i32::MAX - 1, i32::MIN + 1] {
            let (r, _) = lookup(&a32, q);
            cx.rep.evaluations += 1;
            let want = oracle_i64(&ax, q as i64);
            if r != Res::Idx(want) {
                cx.rep.fail(&format!("i32: get_lower_index({}) = {:?}, expected {} (clamped)", q, r, want),
                            obj(vec![("axis", J::A(ax.iter().map(|&x| J::I(x)).collect())), ("query", J::I(q as i64))]));
            }
        }
    }
    let covered = cx.pairs.len() as i64;
    drop(cx);
    rep.extra.push(("x_guess_rank_pairs_observed".into(), J::I(covered)));
    rep.finish("(a) every (length n, interval g hit by the O(1) guess, interval r containing the query) with n up to the tier's bound, the guess actually taken read back through the cfg hook; (b) random axes of all spacing classes with queries at every knot, both neighbouring floats, midpoints, +-inf, +-MAX, +-0; (c) axes of 200..10^4 knots incl. 1e-300..1e300 logarithmic and 2-ulp clusters (oracle only); (d) i32/i64 axes; f64, f32, exact rationals and integers all against a linear scan, exact/integer runs against the Coq model");
}
