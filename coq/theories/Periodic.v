(* Periodic.v -- C07 over exact rationals: rem_euclid, the argument wrap, periodicity. *)

From Coq Require Import List Bool Arith ZArith QArith Qcanon Qround Lia Lqa Psatz.
From NI Require Import Num Base Lookup Linear Interp Spline LookupProofs LinearProofs LinearExact SplineStruct.
Import ListNotations.

Lemma q_floor_is_Qfloor q : q_floor q = Qfloor q.
Proof. destruct q. reflexivity. Qed.

Lemma Qfloor_unique (x : Q) (z : Z) :
  (inject_Z z <= x)%Q -> (x < inject_Z (z + 1))%Q -> Qfloor x = z.
Proof.
  intros H1 H2. pose proof (Qfloor_le x) as F1. pose proof (Qlt_floor x) as F2.
  assert (A : (inject_Z z < inject_Z (Qfloor x + 1))%Q) by (eapply Qle_lt_trans; eauto).
  assert (B : (inject_Z (Qfloor x) < inject_Z (z + 1))%Q) by (eapply Qle_lt_trans; eauto).
  rewrite <- Zlt_Qlt in A, B. lia.
Qed.

Lemma Qfloor_add_Z (x : Q) (k : Z) : Qfloor (x + inject_Z k) = (Qfloor x + k)%Z.
Proof.
  apply Qfloor_unique.
  - rewrite inject_Z_plus. pose proof (Qfloor_le x). lra.
  - replace (Qfloor x + k + 1)%Z with ((Qfloor x + 1) + k)%Z by lia.
    rewrite inject_Z_plus. pose proof (Qlt_floor x). lra.
Qed.

Local Open Scope Qc_scope.

Definition zq (k : Z) : Qc := Q2Qc (inject_Z k).

(* for a positive period: r = a - P * floor(a / P) *)
Lemma qc_rem_euclid_pos a P : 0 < P ->
  qc_rem_euclid a P = a - P * zq (Qfloor (this a / this P)%Q).
Proof.
  intros HP. unfold qc_rem_euclid.
  assert (Hp : (0 < this P)%Q) by exact HP.
  destruct (Qeq_bool (this P) 0) eqn:E.
  { apply Qeq_bool_iff in E. lra. }
  assert (Eabs : qc_abs P = P).
  { unfold qc_abs. destruct (Qle_bool 0 (this P)) eqn:E2; [reflexivity|].
    exfalso. assert (Qle_bool 0 (this P) = true) by (apply Qle_bool_iff; lra). congruence. }
  rewrite Eabs. f_equal. f_equal. unfold zq. apply Qc_is_canon.
  rewrite q_floor_is_Qfloor. cbn [this Q2Qc]. rewrite !Qred_correct.
  unfold inject_Z. 
  assert (Q : (this (a / P) == this a / this P)%Q).
  { cbn [this Qcdiv Qcmult Qcinv Q2Qc]. rewrite !Qred_correct. reflexivity. }
  rewrite (Qfloor_comp _ _ Q). reflexivity.
Qed.

Theorem rem_euclid_spec a P : 0 < P ->
  0 <= qc_rem_euclid a P /\ qc_rem_euclid a P < P /\
  exists k : Z, a = qc_rem_euclid a P + zq k * P.
Proof.
  intros HP. rewrite (qc_rem_euclid_pos a P HP).
  set (f := Qfloor (this a / this P)%Q).
  assert (Hp : (0 < this P)%Q) by exact HP.
  pose proof (Qfloor_le (this a / this P)%Q) as F1. pose proof (Qlt_floor (this a / this P)%Q) as F2.
  fold f in F1, F2.
  assert (E : (this a == this a / this P * this P)%Q) by (field; lra).
  rewrite inject_Z_plus in F2. change (inject_Z 1) with 1%Q in F2.
  set (q := (this a / this P)%Q) in *.
  assert (G1 : (inject_Z f * this P <= this a)%Q) by (rewrite E; nra).
  assert (G2 : (this a < (inject_Z f + 1) * this P)%Q) by (rewrite E; nra).
  repeat split.
  - unfold Qcle, zq. cbn [this Qcminus Qcplus Qcopp Qcmult Q2Qc]. rewrite !Qred_correct.
    change (this 0) with 0%Q. lra.
  - unfold Qclt, zq. cbn [this Qcminus Qcplus Qcopp Qcmult Q2Qc]. rewrite !Qred_correct.
    lra.
  - exists f. ring.
Qed.

Theorem rem_euclid_shift a P (k : Z) : 0 < P ->
  qc_rem_euclid (a + zq k * P) P = qc_rem_euclid a P.
Proof.
  intros HP. rewrite !(qc_rem_euclid_pos _ P HP).
  assert (Hp : (0 < this P)%Q) by exact HP.
  assert (E : (this (a + zq k * P) / this P == this a / this P + inject_Z k)%Q).
  { unfold zq. cbn [this Qcplus Qcmult Q2Qc]. rewrite !Qred_correct. field. lra. }
  rewrite (Qfloor_comp _ _ E), Qfloor_add_Z.
  assert (Z : zq (Qfloor (this a / this P)%Q + k) = zq (Qfloor (this a / this P)%Q) + zq k).
  { unfold zq. apply Qc_is_canon. cbn [this Qcplus Q2Qc]. rewrite !Qred_correct.
    rewrite inject_Z_plus. reflexivity. }
  rewrite Z. ring.
Qed.

Theorem rem_euclid_small a P : 0 <= a -> a < P -> qc_rem_euclid a P = a.
Proof.
  intros H0 H1. assert (HP : 0 < P) by (eapply Qcle_lt_trans; eauto).
  rewrite (qc_rem_euclid_pos a P HP).
  assert (Hp : (0 < this P)%Q) by exact HP.
  assert (F : Qfloor (this a / this P)%Q = 0%Z).
  { apply Qfloor_unique.
    - change (inject_Z 0) with 0%Q. apply Qle_shift_div_l; [exact Hp|]. unfold Qcle in H0.
      change (this 0) with 0%Q in H0. lra.
    - change (inject_Z (0 + 1)) with 1%Q. apply Qlt_shift_div_r; [exact Hp|]. unfold Qclt in H1. lra. }
  rewrite F. unfold zq. change (Q2Qc (inject_Z 0)) with 0. ring.
Qed.

(* the wrapped argument lies in [x0, xn), and x + k*P wraps to x for x in [x0, xn) *)
Section Wrap.
  Variable xs : list Qc.
  Notation x0 := (nth 0 xs 0).
  Notation xn := (nth (length xs - 1) xs 0).
  Hypothesis Hspan : x0 < xn.

  Lemma wrap_Qc x : wrap NumQc 0 xs x = qc_rem_euclid (x - x0) (xn - x0) + x0.
  Proof. reflexivity. Qed.

  Lemma span_pos : 0 < xn - x0.
  Proof.
    unfold Qclt in *. cbn [this Qcminus Qcplus Qcopp Q2Qc]. rewrite !Qred_correct.
    change (this 0) with 0%Q. lra.
  Qed.

  Theorem wrap_in_range x : x0 <= wrap NumQc 0 xs x /\ wrap NumQc 0 xs x < xn.
  Proof.
    rewrite wrap_Qc. destruct (rem_euclid_spec (x - x0) (xn - x0) span_pos) as (A & B & _).
    unfold Qcle, Qclt in *. cbn [this Qcminus Qcplus Qcopp Q2Qc] in *. rewrite !Qred_correct in *.
    change (this 0) with 0%Q in *. split; lra.
  Qed.

  Theorem wrap_shift x (k : Z) : wrap NumQc 0 xs (x + zq k * (xn - x0)) = wrap NumQc 0 xs x.
  Proof.
    rewrite !wrap_Qc. f_equal.
    replace (x + zq k * (xn - x0) - x0) with ((x - x0) + zq k * (xn - x0)) by ring.
    apply rem_euclid_shift. exact span_pos.
  Qed.

  Theorem wrap_id x : x0 <= x -> x < xn -> wrap NumQc 0 xs x = x.
  Proof.
    intros A B. rewrite wrap_Qc. rewrite rem_euclid_small; [ring| |].
    - unfold Qcle in *. cbn [this Qcminus Qcplus Qcopp Q2Qc]. rewrite !Qred_correct.
      change (this 0) with 0%Q. lra.
    - unfold Qclt in *. cbn [this Qcminus Qcplus Qcopp Q2Qc]. rewrite !Qred_correct. lra.
  Qed.

  (* C07: S(x + k*P) = S(x) for x in [x0, xn) and every integer k, whenever the shifted
     query is outside the range (inside it is x itself: k = 0) *)
  Theorem periodic_eval_shift s data x (k : Z) :
    (1 <= length xs)%nat -> sp_ext s = ExtPeriodic ->
    x0 <= x -> x < xn ->
    in_closed_range NumQc 0 xs (x + zq k * (xn - x0)) = false ->
    spline_interp NumQc s xs data (x + zq k * (xn - x0)) = spline_interp NumQc s xs data x.
  Proof.
    intros Hn He A B Hout.
    rewrite (spline_periodic_wrap NumQc 0 s xs data _ Hn He Hout).
    - rewrite wrap_shift, wrap_id; auto.
    - rewrite wrap_shift, wrap_id; auto. apply in_closed_range_Qc; [exact A|].
      unfold Qcle, Qclt in *. lra.
  Qed.

  (* the images of the right end evaluate like the left end *)
  Theorem periodic_right_end_image s data (k : Z) :
    (1 <= length xs)%nat -> sp_ext s = ExtPeriodic ->
    in_closed_range NumQc 0 xs (xn + zq k * (xn - x0)) = false ->
    spline_interp NumQc s xs data (xn + zq k * (xn - x0)) = spline_interp NumQc s xs data x0.
  Proof.
    intros Hn He Hout.
    replace (xn + zq k * (xn - x0)) with (x0 + zq (k + 1) * (xn - x0)) in *.
    - apply periodic_eval_shift; auto. unfold Qcle. apply Qle_refl.
    - unfold zq. assert (E : Q2Qc (inject_Z (k + 1)) = Q2Qc (inject_Z k) + 1).
      { apply Qc_is_canon. cbn [this Qcplus Q2Qc]. rewrite !Qred_correct, inject_Z_plus. reflexivity. }
      rewrite E. ring.
  Qed.

End Wrap.
