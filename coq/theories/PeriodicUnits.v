(* PeriodicUnits.v -- C15 for the Periodic boundary, at the level of the slopes: by uniqueness of the
   solution of the cyclic system, the slopes of the data times c are c times the slopes, and the slopes
   on an axis in other units (x -> c*x + s, c > 0) are the slopes divided by c.               *)

From Coq Require Import List Bool Arith ZArith QArith Qcanon Lia Lqa.
From NI Require Import Num Base Lookup Linear Interp Spline Tri TriProofs SplineAlgebra LookupProofs LinearProofs LinearExact
  SplineProofs Units UnitsList PeriodicSolve PeriodicLane.
Import ListNotations.
Local Open Scope Qc_scope.

Lemma cyclic_sys_ext n (h h' y y' k : nat -> Qc) : (4 <= n)%nat ->
  (forall i, (i + 1 < n)%nat -> h i = h' i) -> (forall i, (i < n)%nat -> y i = y' i) ->
  cyclic_sys n h y k -> cyclic_sys n h' y' k.
Proof.
  intros Hn Eh Ey (A1 & A2 & A3 & A4). unfold cyclic_sys, rhs0, rhs_last in *.
  rewrite <- !Eh, <- !Ey by lia. repeat split; try assumption.
  intros i H1 H2. rewrite <- !Eh, <- !Ey by lia. apply A2; assumption.
Qed.

Lemma cyclic_sys_scale_data n (h y k : nat -> Qc) c : (4 <= n)%nat ->
  (forall i, (i + 1 < n)%nat -> h i <> 0) ->
  cyclic_sys n h y k -> cyclic_sys n h (fun i => c * y i) (fun i => c * k i).
Proof.
  intros Hn Hh (A1 & A2 & A3 & A4). unfold cyclic_sys, rhs0, rhs_last in *. repeat split.
  - match goal with |- ?L = _ => replace L with (c * (h 0%nat * k (n - 2)%nat + c2 NumQc * (h (n - 2)%nat + h 0%nat) * k 0%nat + h (n - 2)%nat * k 1%nat)) by ring end.
    rewrite A1. field. split; apply Hh; lia.
  - intros i H1 H2.
    match goal with |- ?L = _ => replace L with (c * (h i * k (i - 1)%nat + c2 NumQc * (h i + h (i - 1)%nat) * k i + h (i - 1)%nat * k (i + 1)%nat)) by ring end.
    rewrite (A2 i H1 H2). unfold rhs_interior. rewrite c3_Qc. cbn [NumQc add sub mul div]. field. split; apply Hh; lia.
  - match goal with |- ?L = _ => replace L with (c * (h (n - 2)%nat * k (n - 3)%nat + c2 NumQc * (h (n - 2)%nat + h (n - 3)%nat) * k (n - 2)%nat + h (n - 3)%nat * k (n - 1)%nat)) by ring end.
    rewrite A3. field. split; apply Hh; lia.
  - rewrite A4. reflexivity.
Qed.

Lemma cyclic_sys_scale_axis n (h y k : nat -> Qc) c : (4 <= n)%nat -> c <> 0 ->
  (forall i, (i + 1 < n)%nat -> h i <> 0) ->
  cyclic_sys n h y k -> cyclic_sys n (fun i => c * h i) y (fun i => k i / c).
Proof.
  intros Hn Hc Hh (A1 & A2 & A3 & A4). unfold cyclic_sys, rhs0, rhs_last in *. repeat split.
  - match goal with |- ?L = _ => replace L with (h 0%nat * k (n - 2)%nat + c2 NumQc * (h (n - 2)%nat + h 0%nat) * k 0%nat + h (n - 2)%nat * k 1%nat) by (field; exact Hc) end.
    rewrite A1. field. repeat split; try exact Hc; apply Hh; lia.
  - intros i H1 H2.
    match goal with |- ?L = _ => replace L with (h i * k (i - 1)%nat + c2 NumQc * (h i + h (i - 1)%nat) * k i + h (i - 1)%nat * k (i + 1)%nat) by (field; exact Hc) end.
    rewrite (A2 i H1 H2). unfold rhs_interior. rewrite c3_Qc. cbn [NumQc add sub mul div]. field.
    repeat split; try exact Hc; apply Hh; lia.
  - match goal with |- ?L = _ => replace L with (h (n - 2)%nat * k (n - 3)%nat + c2 NumQc * (h (n - 2)%nat + h (n - 3)%nat) * k (n - 2)%nat + h (n - 3)%nat * k (n - 1)%nat) by (field; exact Hc) end.
    rewrite A3. field. repeat split; try exact Hc; apply Hh; lia.
  - rewrite A4. reflexivity.
Qed.

Section PeriodicUnits.
  Variable xs : list Qc.
  Variable data : list (list Qc).
  Variable L : nat.
  Variable j : nat.
  Hypothesis Hj : (j < L)%nat.
  Hypothesis Hwidth : forall i, (i < length data)%nat -> length (nth i data []) = L.
  Hypothesis HS : StrictIncQc xs.
  Hypothesis Hlen : length xs = length data.
  Hypothesis Hn : (4 <= length data)%nat.
  Notation n := (length data).
  Notation K xs data := (fun i => nth j (nth i (periodic_k NumQc xs data (length data)) []) 0).

  Lemma hpos i : (i + 1 < n)%nat -> 0 < hq xs i.
  Proof. intros Hi. apply (hq_pos xs data L j Hj HS Hlen ltac:(lia) i Hi). Qed.
  Lemma hnz i : (i + 1 < n)%nat -> hq xs i <> 0.
  Proof. intros Hi. apply Qc_pos_neq, hpos. exact Hi. Qed.

  (* data times c: slopes times c *)
  Theorem periodic_slopes_scale_data c i : (i < n)%nat ->
    nth j (nth i (periodic_k NumQc xs (map (map (Qcmult c)) data) n) []) 0 = c * K xs data i.
  Proof.
    intros Hi.
    pose proof (periodic_slopes_system xs data L j Hj Hwidth HS Hlen Hn) as S. cbv zeta in S.
    pose proof (Hwidth' data L c Hwidth) as Hw'. pose proof (n' data c) as En.
    pose proof (periodic_slopes_system xs (map (map (Qcmult c)) data) L j Hj Hw' HS ltac:(rewrite En; exact Hlen) ltac:(rewrite En; exact Hn)) as S'.
    cbv zeta in S'. rewrite En in S'.
    apply (cyclic_sys_unique n (hq xs) (fun i => c * yq data j i) Hn hpos
             (fun i => nth j (nth i (periodic_k NumQc xs (map (map (Qcmult c)) data) n) []) 0)
             (fun i => c * K xs data i)); [| |exact Hi].
    - eapply cyclic_sys_ext; [exact Hn|reflexivity| |exact S']. intros q _. apply yq_scale.
    - apply cyclic_sys_scale_data; [exact Hn|exact hnz|exact S].
  Qed.

  (* axis in other units: slopes divided by c *)
  Theorem periodic_slopes_axis_units c s i : 0 < c -> (i < n)%nat ->
    nth j (nth i (periodic_k NumQc (map (aff c s) xs) data n) []) 0 = K xs data i / c.
  Proof.
    intros Hc Hi.
    pose proof (periodic_slopes_system xs data L j Hj Hwidth HS Hlen Hn) as S. cbv zeta in S.
    pose proof (periodic_slopes_system (map (aff c s) xs) data L j Hj Hwidth (HS' xs c s Hc HS) (Hlen' xs data c s Hlen) Hn) as S'.
    cbv zeta in S'.
    assert (Hh' : forall q, (q + 1 < n)%nat -> 0 < c * hq xs q).
    { intros q Hq. pose proof (hpos q Hq) as P. clear S S'. qo. apply Qmult_lt_0_compat; assumption. }
    apply (cyclic_sys_unique n (fun q => c * hq xs q) (yq data j) Hn Hh'
             (fun i => nth j (nth i (periodic_k NumQc (map (aff c s) xs) data n) []) 0)
             (fun i => K xs data i / c)); [| |exact Hi].
    - eapply cyclic_sys_ext; [exact Hn| |reflexivity|exact S'].
      intros q Hq. apply (hq_aff xs data L c s Hlen ltac:(lia) ltac:(lia) q Hq).
    - apply cyclic_sys_scale_axis; [exact Hn|apply pos_neq; exact Hc|exact hnz|exact S].
  Qed.
End PeriodicUnits.
