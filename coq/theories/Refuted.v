(* Refuted.v -- the defects found on the pinned tree, as machine-checked witnesses against the model of
   the code AS IT WAS (the repaired model is what every other file is about).

   F1 (C03, C16): the right NotAKnot boundary row had dx[-1] = h_(n-2) on the diagonal where
       dx[-2] = h_(n-3) belongs.  With the old row the default spline through samples of the cubic
       1 + 2x - x^2/2 + x^3/4 on the non-uniform axis [0,1,3,4,8] does NOT return the cubic at x = 6.
   F3 (C14): the general path of interp_array_into had no shape check up front; a buffer whose leading
       axis is longer than the query was accepted and cells were left unwritten.                      *)

From Coq Require Import List Bool Arith ZArith QArith Qcanon Lia.
From NI Require Import Num Base Lookup Linear Interp Spline Tri TriProofs SplineAlgebra SplineProofs Entry.
Import ListNotations.
Local Open Scope Qc_scope.

(* ---------------- F1 ---------------- *)
Definition f1_xs : list Qc := [qc 0 1; qc 1 1; qc 3 1; qc 4 1; qc 8 1].
Definition f1_P (x : Qc) : Qc := 1 + (1 + 1) * x - x * x / (1 + 1) + x * x * x / (1 + 1 + 1 + 1).
Definition f1_data : list (list Qc) := map (fun x => [f1_P x]) f1_xs.

(* the right NotAKnot row as the pinned code assembled it: diagonal entry dx_1 instead of dx_2 *)
Definition s_right_old (xs : list Qc) (data : list (list Qc)) (j : nat) : qrow :=
  let n := length data in
  let dx_1 := hq xs (n - 2) in
  let dx_2 := hq xs (n - 3) in
  let d := nth (n - 1) xs 0 - nth (n - 3) xs 0 in
  let tmp1 := (c2 NumQc * d + dx_1) * dx_2 in
  mkS d dx_1 0
      ((pow NumQc dx_1 (c2 NumQc) * (yq data j (n - 2) - yq data j (n - 3)) / dx_2
        + tmp1 * (yq data j (n - 1) - yq data j (n - 2)) / dx_1) / d).

Definition srows_old (xs : list Qc) (data : list (list Qc)) (j : nat) : list qrow :=
  s_left xs data j SNotAKnot :: map (s_interior xs data j) (seq 1 (length data - 2)) ++ [s_right_old xs data j].

Definition eval_with (rows : list qrow) (xs : list Qc) (data : list (list Qc)) (i : nat) (x : Qc) : Qc :=
  let k := thomas1 NumQc rows in
  piece (yq data 0 i) (kk k i) (aq xs data 0 k i) (bq xs data 0 k i) (hq xs i) (x - nth i xs 0).

(* the repaired system reproduces the cubic at x = 6 (interval 3 = [4, 8]) ... *)
Example F1_repaired_reproduces :
  qc_eqb (eval_with (srows f1_xs f1_data 0 SNotAKnot SNotAKnot) f1_xs f1_data 3 (qc 6 1)) (f1_P (qc 6 1)) = true
  /\ qc_eqb (f1_P (qc 6 1)) (qc 49 1) = true.
Proof. split; vm_compute; reflexivity. Qed.

(* ... the old system does not: C16 (and C03's right NotAKnot condition) refuted for the pinned code *)
Theorem F1_old_row_refuted :
  exists x : Qc, qc_eqb (eval_with (srows_old f1_xs f1_data 0) f1_xs f1_data 3 x) (f1_P x) = false.
Proof. exists (qc 6 1). vm_compute. reflexivity. Qed.

(* the value the pinned code returned: 34720/499 = 69.579... *)
Example F1_old_value :
  qc_eqb (eval_with (srows_old f1_xs f1_data 0) f1_xs f1_data 3 (qc 6 1)) (qc 34720 499) = true.
Proof. vm_compute. reflexivity. Qed.

Local Close Scope Qc_scope.
Local Open Scope nat_scope.
(* ---------------- F3 ---------------- *)
(* interp_array_into without the up-front shape assertion (the pinned general path) *)
Definition interp_array_into_old {T} (F : T -> outcome (list T)) (trail qshape : list nat) (qs : list T)
    (buffer : view) (m : @mem T) : outcome (@mem T) :=
  array_loop F trail buffer (combine (indices qshape) qs) m.

(* data lanes [2], query shape [2], buffer shape [3; 2] (leading axis too long): the old path returns Ok
   and never writes row 2 of the buffer; the repaired entry point panics before any write *)
Theorem F3_old_accepts_oversized_buffer :
  let F := fun x : Z => Ok [x; (x + 100)%Z] in
  let buffer := mkView 0%Z [3; 2] [2%Z; 1%Z] in
  (exists m', interp_array_into_old F [2] [2] [7%Z; 9%Z] buffer (fun _ => (-1)%Z) = Ok m' /\
              m' 4%Z = (-1)%Z /\ m' 5%Z = (-1)%Z) /\
  interp_array_into F [2] [2] [7%Z; 9%Z] buffer (fun _ => (-1)%Z) = Panic.
Proof. cbv zeta. split; [eexists; split; [vm_compute; reflexivity|split; vm_compute; reflexivity]|vm_compute; reflexivity]. Qed.
