(* BilinearList.v -- Bilinear at the level of the whole interpolator: the border cell's bilinear form
   outside the grid (C06), and invariance under independent changes of the x and y units / linearity
   in the data (C15), for every lane and every query, errors included.                      *)

From Coq Require Import List Bool Arith ZArith QArith Qcanon Lia Lqa.
From NI Require Import Num Base Lookup Linear Interp LookupProofs LinearProofs LinearExact Units UnitsList.
Import ListNotations.
Local Open Scope Qc_scope.

Lemma map4_ext {A B C D E} (f g : A -> B -> C -> D -> E) l1 l2 l3 l4 :
  (forall a b c d, f a b c d = g a b c d) -> map4 f l1 l2 l3 l4 = map4 g l1 l2 l3 l4.
Proof.
  intros H. revert l2 l3 l4. induction l1 as [|a t IH]; intros [|b t2] [|c t3] [|e t4]; cbn; auto.
  rewrite H, IH. reflexivity.
Qed.

Lemma bilinear_lane_aff cx sx cy sy x1 x2 y1 y2 x y z11 z12 z21 z22 :
  cx <> 0 -> cy <> 0 -> x2 - x1 <> 0 -> y2 - y1 <> 0 ->
  bilinear_lane NumQc (aff cx sx x1) (aff cx sx x2) (aff cy sy y1) (aff cy sy y2) (aff cx sx x) (aff cy sy y) z11 z12 z21 z22
  = bilinear_lane NumQc x1 x2 y1 y2 x y z11 z12 z21 z22.
Proof.
  intros Hcx Hcy Hx Hy. unfold bilinear_lane. cbv zeta.
  rewrite !(calc_frac_aff cx sx) by assumption. apply calc_frac_aff; assumption.
Qed.

Section BilinearList.
  Variables xax yax : list Qc.
  Variable data : list (list (list Qc)).
  Hypothesis HSx : StrictIncQc xax.
  Hypothesis HSy : StrictIncQc yax.
  Hypothesis Hnx : (2 <= length xax)%nat.
  Hypothesis Hny : (2 <= length yax)%nat.
  Hypothesis H64x : (Z.of_nat (length xax) <= two64)%Z.
  Hypothesis H64y : (Z.of_nat (length yax) <= two64)%Z.
  Hypothesis Hlen : length data = length xax.
  Hypothesis Hrows : forall i, (i < length data)%nat -> length (nth i data []) = length yax.

  Lemma xdiff i : (i + 1 < length xax)%nat -> nth (i + 1) xax 0 - nth i xax 0 <> 0.
  Proof. intros Hi. apply Qc_neq_this. apply (StrictIncQc_lt xax i (i + 1) HSx); lia. Qed.
  Lemma ydiff i : (i + 1 < length yax)%nat -> nth (i + 1) yax 0 - nth i yax 0 <> 0.
  Proof. intros Hi. apply Qc_neq_this. apply (StrictIncQc_lt yax i (i + 1) HSy); lia. Qed.

  (* C06 (Bilinear): with extrapolation every query is answered by the bilinear form of the cell the two
     lookups select -- the border cell (index 0 / n-2 per axis) when the coordinate is outside *)
  Theorem bilinear_ext_border_cell x y :
    exists ix iy,
      lower_index NumQc xax x = Ok ix /\ lower_index NumQc yax y = Ok iy /\
      (ix + 2 <= length xax)%nat /\ (iy + 2 <= length yax)%nat /\
      ((this x <= this (nth 0 xax 0%Qc))%Q -> ix = 0%nat) /\
      ((this (nth 0 xax 0%Qc) < this x)%Q -> (this (nth (length xax - 1) xax 0%Qc) <= this x)%Q -> ix = (length xax - 2)%nat) /\
      ((this y <= this (nth 0 yax 0%Qc))%Q -> iy = 0%nat) /\
      ((this (nth 0 yax 0%Qc) < this y)%Q -> (this (nth (length yax - 1) yax 0%Qc) <= this y)%Q -> iy = (length yax - 2)%nat) /\
      bilinear_interp NumQc true xax yax data x y =
      Ok (map4 (fun z11 z12 z21 z22 =>
                  let u := (x - nth ix xax 0) / (nth (ix + 1) xax 0 - nth ix xax 0) in
                  let v := (y - nth iy yax 0) / (nth (iy + 1) yax 0 - nth iy yax 0) in
                  (1 - u) * (1 - v) * z11 + (1 - u) * v * z12 + u * (1 - v) * z21 + u * v * z22)
               (cell data ix iy) (cell data ix (iy + 1)) (cell data (ix + 1) iy) (cell data (ix + 1) (iy + 1))).
  Proof.
    destruct (lower_index_Qc xax x HSx Hnx H64x) as (ix & Lx & Bx & X1 & X2 & _).
    destruct (lower_index_Qc yax y HSy Hny H64y) as (iy & Ly & By' & Y1 & Y2 & _).
    exists ix, iy. repeat (split; [assumption|]).
    rewrite (bilinear_reads_four_corners NumQc 0 true xax yax data x y ix iy eq_refl eq_refl Lx Ly ltac:(lia) ltac:(lia) Hlen Hrows).
    f_equal. apply map4_ext. intros a b c e. apply bilinear_lane_blend; [apply xdiff; lia|apply ydiff; lia].
  Qed.

  (* C15 (Bilinear): independent changes of unit of the two axes, applied to axes and query *)
  Theorem bilinear_axis_units ext cx sx cy sy x y : 0 < cx -> 0 < cy ->
    bilinear_interp NumQc ext (map (aff cx sx) xax) (map (aff cy sy) yax) data (aff cx sx x) (aff cy sy y)
    = bilinear_interp NumQc ext xax yax data x y.
  Proof.
    intros Hcx Hcy.
    pose proof (aff_mono cx sx Hcx) as Gx. pose proof (aff_mono cy sy Hcy) as Gy.
    destruct (lower_index_Qc xax x HSx Hnx H64x) as (ix & Lx & Bx & _).
    destruct (lower_index_Qc yax y HSy Hny H64y) as (iy & Ly & By' & _).
    pose proof (lower_index_mono (aff cx sx) Gx xax x HSx Hnx H64x) as Lx'. rewrite Lx in Lx'.
    pose proof (lower_index_mono (aff cy sy) Gy yax y HSy Hny H64y) as Ly'. rewrite Ly in Ly'.
    pose proof (range_guard_spec NumQc 0 ext xax x ltac:(lia)) as RGx.
    pose proof (range_guard_spec NumQc 0 ext yax y ltac:(lia)) as RGy.
    pose proof (range_guard_spec NumQc 0 ext (map (aff cx sx) xax) (aff cx sx x) ltac:(rewrite map_length; lia)) as RGx'.
    pose proof (range_guard_spec NumQc 0 ext (map (aff cy sy) yax) (aff cy sy y) ltac:(rewrite map_length; lia)) as RGy'.
    rewrite (in_closed_range_mono (aff cx sx) Gx xax x ltac:(lia)) in RGx'.
    rewrite (in_closed_range_mono (aff cy sy) Gy yax y ltac:(lia)) in RGy'.
    destruct (ext || in_closed_range NumQc 0 xax x) eqn:Ex.
    - destruct (ext || in_closed_range NumQc 0 yax y) eqn:Ey.
      + rewrite (bilinear_reads_four_corners NumQc 0 ext xax yax data x y ix iy RGx RGy Lx Ly ltac:(lia) ltac:(lia) Hlen Hrows).
        rewrite (bilinear_reads_four_corners NumQc 0 ext _ _ data _ _ ix iy RGx' RGy' Lx' Ly'
                   ltac:(rewrite map_length; lia) ltac:(rewrite map_length; lia) ltac:(rewrite map_length; exact Hlen)
                   ltac:(intros i Hi; rewrite map_length; apply Hrows; exact Hi)).
        f_equal. rewrite !nth_map_Qc by lia. apply map4_ext. intros a b c e.
        apply bilinear_lane_aff; [apply pos_neq; exact Hcx|apply pos_neq; exact Hcy|apply xdiff; lia|apply ydiff; lia].
      + unfold bilinear_interp. rewrite RGx, RGx', RGy, RGy'. reflexivity.
    - unfold bilinear_interp. rewrite RGx, RGx'. reflexivity.
  Qed.

  (* ... and linearity in the data *)
  Theorem bilinear_scale_data_list ext c x y :
    bilinear_interp NumQc ext xax yax (map (map (map (Qcmult c))) data) x y =
    match bilinear_interp NumQc ext xax yax data x y with Ok v => Ok (map (Qcmult c) v) | e => e end.
  Proof.
    destruct (lower_index_Qc xax x HSx Hnx H64x) as (ix & Lx & Bx & _).
    destruct (lower_index_Qc yax y HSy Hny H64y) as (iy & Ly & By' & _).
    pose proof (range_guard_spec NumQc 0 ext xax x ltac:(lia)) as RGx.
    pose proof (range_guard_spec NumQc 0 ext yax y ltac:(lia)) as RGy.
    destruct (ext || in_closed_range NumQc 0 xax x) eqn:Ex.
    - destruct (ext || in_closed_range NumQc 0 yax y) eqn:Ey.
      + rewrite (bilinear_reads_four_corners NumQc 0 ext xax yax data x y ix iy RGx RGy Lx Ly ltac:(lia) ltac:(lia) Hlen Hrows).
        rewrite (bilinear_reads_four_corners NumQc 0 ext xax yax _ x y ix iy RGx RGy Lx Ly ltac:(lia) ltac:(lia)
                   ltac:(rewrite map_length; exact Hlen)).
        * f_equal.
          assert (C : forall i j, cell (map (map (map (Qcmult c))) data) i j = map (Qcmult c) (cell data i j)).
          { intros i j. unfold cell.
            change (@nil (list Qc)) with (map (map (Qcmult c)) []). rewrite map_nth.
            change (@nil Qc) with (map (Qcmult c) []) at 1. rewrite map_nth. reflexivity. }
          rewrite !C.
          generalize (cell data ix iy) (cell data ix (iy + 1)) (cell data (ix + 1) iy) (cell data (ix + 1) (iy + 1)).
          induction l as [|a t IH]; intros [|b t2] [|c3 t3] [|e t4]; cbn [map map4]; auto.
          rewrite IH. f_equal. apply bilinear_scale_data; [apply xdiff; lia|apply ydiff; lia].
        * intros i Hi. rewrite map_length in Hi.
          change (@nil (list Qc)) with (map (map (Qcmult c)) []). rewrite map_nth, map_length. apply Hrows. exact Hi.
      + unfold bilinear_interp. rewrite RGx, RGy. reflexivity.
    - unfold bilinear_interp. rewrite RGx. reflexivity.
  Qed.
End BilinearList.
