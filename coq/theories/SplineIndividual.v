(* SplineIndividual.v -- C02/C03/C08 for per-lane (Individual) boundary conditions: the n-d
   build solves lane j with the j-th entry of the boundary array (row-major over the trailing
   axes) and glues the lanes back together; every conclusion of spline_whole_correct then holds
   for lane j with that lane's own (left, right) pair.                                    *)

From Coq Require Import List Bool Arith ZArith QArith Qcanon Lia.
From NI Require Import Num Base Lookup Linear Interp Spline Tri TriProofs SplineAlgebra
  LookupProofs LinearProofs LinearExact SplineProofs Lanes.
Import ListNotations.
Local Open Scope nat_scope.

Lemma mapM_nth {A} (f : nat -> outcome A) (d : A) : forall L a cols,
  mapM f (seq a L) = Ok cols ->
  length cols = L /\ forall j, j < L -> f (a + j) = Ok (nth j cols d).
Proof.
  induction L as [|L IH]; intros a cols H.
  - cbn in H. injection H as <-. split; [reflexivity|intros; lia].
  - cbn [seq mapM] in H. destruct (f a) as [b| | | |] eqn:Fa; cbn [bind] in H; try discriminate.
    destruct (mapM f (seq (S a) L)) as [r| | | |] eqn:Er; cbn [bind] in H; try discriminate.
    injection H as <-. destruct (IH (S a) r Er) as [Len Hn]. split; [cbn; lia|].
    intros [|j] Hj; cbn [nth].
    + rewrite Nat.add_0_r. exact Fa.
    + replace (a + S j) with (S a + j) by lia. apply Hn. lia.
Qed.

Lemma flat_map_singletons {A} (cols : list (list (list A))) (i : nat) (d : A) :
  (forall c, In c cols -> length (nth i c []) = 1) ->
  length (flat_map (fun c => nth i c []) cols) = length cols /\
  forall j, j < length cols ->
    nth j (flat_map (fun c => nth i c []) cols) d = nth 0 (nth i (nth j cols []) []) d.
Proof.
  induction cols as [|c t IH]; intros H.
  - split; [reflexivity|intros; cbn in *; lia].
  - assert (Hc : length (nth i c []) = 1) by (apply H; left; reflexivity).
    destruct (IH (fun c' Hc' => H c' (or_intror Hc'))) as [L1 L2].
    destruct (nth i c []) as [|v [|w r]] eqn:E; cbn in Hc; try lia.
    cbn [flat_map]. rewrite E. cbn [app length]. split; [lia|].
    intros [|j] Hj; cbn [nth]; [rewrite E; reflexivity|]. apply L2. cbn in Hj. lia.
Qed.

Section Individual.
  Variable xs : list Qc.
  Variable data : list (list Qc).
  Variable L : nat.
  Hypothesis Hwidth : forall i, i < length data -> length (nth i data []) = L.
  Hypothesis HS : StrictIncQc xs.
  Hypothesis Hlen : length xs = length data.
  Hypothesis Hn : 3 <= length data.
  Hypothesis H64 : (Z.of_nat (length data) <= two64)%Z.
  Hypothesis HL : 0 < L.
  Notation n := (length data).

  Definition lane_lr (rb : rowbc Qc) : single Qc * single Qc :=
    match rb with
    | RNotAKnot => (SNotAKnot, SNotAKnot)
    | RNatural => (SNatural, SNatural)
    | RClamped => (SClamped, SClamped)
    | RMixed l r => (l, r)
    end.

  Lemma ibound_lane_lr rb : ibound_of_row rb = IMixed (fst (lane_lr rb)) (snd (lane_lr rb)).
  Proof. destruct rb; reflexivity. Qed.

  Lemma col_width j : j < L -> forall i, i < length (col j data) -> length (nth i (col j data) []) = 1.
  Proof.
    intros Hj i Hi. rewrite col_length in Hi. rewrite (col_nth 0%Qc data j i L Hi (Hwidth i Hi) Hj). reflexivity.
  Qed.

  Lemma sys_rows_col j l r : j < L -> sys_rows xs (col j data) 0 l r = sys_rows xs data j l r.
  Proof.
    intros Hj. unfold sys_rows. rewrite col_length.
    assert (Y : forall i, i < n -> yq (col j data) 0 i = yq data j i).
    { intros i Hi. apply (yq_col data j i L Hi (Hwidth i Hi) Hj). }
    destruct ((n =? 3) && is_nak l && is_nak r) eqn:Ep.
    - apply andb_prop in Ep as [Ep _]. apply andb_prop in Ep as [En _]. apply Nat.eqb_eq in En.
      unfold srows_parabola. rewrite !Y by lia. reflexivity.
    - unfold srows. rewrite col_length. f_equal; [|f_equal].
      + unfold s_left. destruct (specialize_single NumQc l); rewrite ?Y by lia; reflexivity.
      + apply map_ext_in. intros i Hi. apply in_seq in Hi. unfold s_interior.
        rewrite !Y by lia. reflexivity.
      + unfold s_right. rewrite col_length. destruct (specialize_single NumQc r); rewrite ?Y by lia; reflexivity.
  Qed.

  (* Main theorem for Individual boundaries *)
  Theorem spline_individual_correct per_lane shape ext trail sp j rb :
    j < L -> nth_error per_lane j = Some rb ->
    spline_build NumQc (BIndividual per_lane shape) ext xs data trail = Ok sp ->
    let l := fst (lane_lr rb) in let r := snd (lane_lr rb) in
    exists kq : list Qc,
      (forall k, sat 0%Qc (sys_rows xs data j l r) k <-> k = kq) /\
      forall x, (ext = false -> in_closed_range NumQc 0%Qc xs x = true) ->
        exists i v, lower_index NumQc xs x = Ok i /\ i + 1 < n /\
          spline_interp NumQc sp xs data x = Ok v /\ length v = L /\
          nth j v 0%Qc =
            piece (yq data j i) (kk kq i) (aq xs data j kq i) (bq xs data j kq i) (hq xs i)
                  (x - nth i xs 0)%Qc.
  Proof.
    intros Hj Hrb Hsp. cbv zeta. unfold spline_build in Hsp.
    destruct (negb (list_eqb Nat.eqb shape (1 :: trail))); [discriminate|].
    unfold mapM_lanes in Hsp.
    assert (HLanes : lanes_of data = L) by (unfold lanes_of; apply Hwidth; lia).
    rewrite HLanes in Hsp.
    destruct (mapM _ (seq 0 L)) as [cols| | | |] eqn:Ecols; cbn [bind] in Hsp; try discriminate.
    injection Hsp as <-.
    destruct (mapM_nth _ [] L 0 cols Ecols) as [Lcols Hcols].
    (* every lane's own solve *)
    assert (HK : forall c, c < L -> exists rbc,
              nth_error per_lane c = Some rbc /\
              solve_for_k NumQc xs (col c data) (ibound_of_row rbc) = Ok (nth c cols [])).
    { intros c Hc. specialize (Hcols c Hc). cbn [Nat.add] in Hcols.
      destruct (nth_error per_lane c) as [rbc|]; [|discriminate]. exists rbc. split; [reflexivity|exact Hcols]. }
    assert (Hshape : forall c, c < L -> length (nth c cols []) = n /\ Forall (fun v => length v = 1) (nth c cols [])).
    { intros c Hc. destruct (HK c Hc) as (rbc & _ & Hs). rewrite ibound_lane_lr in Hs.
      pose proof (solve_mixed_shape xs (col c data) 1 (col_width c Hc) ltac:(rewrite col_length; exact Hlen)
                    ltac:(rewrite col_length; exact Hn) ltac:(lia) _ _ _ Hs) as [A B].
      rewrite col_length in A. split; assumption. }
    set (K := zip_cols cols n).
    assert (Krow : forall i, i < n ->
              length (nth i K []) = L /\ forall c, c < L -> nth c (nth i K []) 0%Qc = nth 0 (nth i (nth c cols []) []) 0%Qc).
    { intros i Hi. unfold K, zip_cols.
      rewrite (nth_indep _ [] ((fun i0 => flat_map (fun c => nth i0 c []) cols) 0)) by (rewrite map_length, seq_length; exact Hi).
      rewrite (map_nth (fun i0 => flat_map (fun c => nth i0 c []) cols)). rewrite seq_nth by exact Hi. cbn [Nat.add].
      destruct (flat_map_singletons cols i 0%Qc) as [F1 F2].
      { intros c Hc. apply In_nth with (d := []) in Hc as (ci & Hci & <-). rewrite Lcols in Hci.
        destruct (Hshape ci Hci) as [A B]. rewrite Forall_forall in B. apply B. apply nth_In. lia. }
      split; [rewrite F1; exact Lcols|]. intros c Hc. apply F2. lia. }
    assert (KL : length K = n) by (unfold K, zip_cols; rewrite map_length, seq_length; reflexivity).
    assert (KW : Forall (fun v => length v = L) K).
    { apply Forall_forall. intros v Hv. apply In_nth with (d := []) in Hv as (i & Hi & <-).
      rewrite KL in Hi. apply Krow. exact Hi. }
    (* lane j of K is lane 0 of that lane's own solution *)
    destruct (HK j Hj) as (rbj & Hrbj & Hsj). rewrite Hrb in Hrbj. injection Hrbj as <-.
    rewrite ibound_lane_lr in Hsj.
    assert (Elane : lane_vec 0%Qc j K = lane_vec 0%Qc 0 (nth j cols [])).
    { unfold lane_vec. apply nth_ext with (d := 0%Qc) (d' := 0%Qc).
      - rewrite !map_length, KL. symmetry. apply Hshape. exact Hj.
      - intros i Hi. rewrite map_length, KL in Hi.
        rewrite (nth_indep _ 0%Qc ((fun v => nth j v 0%Qc) [])) by (rewrite map_length; lia).
        rewrite (map_nth (fun v => nth j v 0%Qc)).
        rewrite (nth_indep (map _ (nth j cols [])) 0%Qc ((fun v => nth 0 v 0%Qc) []))
          by (rewrite map_length; destruct (Hshape j Hj) as [A _]; lia).
        rewrite (map_nth (fun v => nth 0 v 0%Qc)). apply Krow; assumption. }
    destruct (solve_mixed_lane xs (col j data) 1 0 ltac:(lia) (col_width j Hj) HS
                ltac:(rewrite col_length; exact Hlen) ltac:(rewrite col_length; exact Hn)
                _ _ _ Hsj) as [_ Hiff].
    exists (lane_vec 0%Qc j K). split.
    - intros k. rewrite <- (sys_rows_col j _ _ Hj). rewrite Elane. unfold sys_rows. exact (Hiff k).
    - intros x Hx.
      destruct (lower_index_Qc xs x HS ltac:(lia) ltac:(rewrite Hlen; exact H64)) as (i & Hi & Hb2 & _).
      destruct (spline_eval_at xs data L j Hj Hwidth HS Hlen Hn K KL KW
                  (if negb ext then ExtNo else ExtYes) x i Hi ltac:(lia)) as (v & Ev & Lv & Nv).
      + cbn [sp_of sp_ext]. destruct ext; cbn [negb]; [discriminate|]. intros _. apply Hx. reflexivity.
      + cbn [sp_of sp_ext]. destruct ext; discriminate.
      + exists i, v. split; [exact Hi|]. split; [lia|]. split; [|split; assumption].
        rewrite <- Ev. unfold sp_of. destruct ext; reflexivity.
  Qed.

End Individual.
