(* LinearProofs.v -- C01 (exact line), C04 (bilinear blend), and the law-free structural
   facts used by C05 (range guard), C06 (extrapolation), C20 (locality).               *)

From Coq Require Import List Bool Arith ZArith QArith Qcanon Lia Lqa Psatz.
From NI Require Import Num Base Lookup Linear LookupProofs.
Import ListNotations.
Local Open Scope nat_scope.

(* ------------------------------------------------------------------ *)
(* Law-free structure: arbitrary element type, arbitrary operations    *)

Section Structure.
  Context {T : Type} (N : Num T).
  Variable d : T.

  (* the lookup never produces an OutOfBounds error *)
  Lemma bsearch_not_oob fuel ax x lo hi : bsearch N fuel ax x lo hi <> ErrOOB.
  Proof.
    revert lo hi; induction fuel as [|f IH]; intros lo hi; cbn [bsearch]; [discriminate|].
    destruct (lo + 1 <? hi); [|discriminate].
    unfold idx. destruct (nth_error ax _); cbn [bind]; [|discriminate].
    destruct (leb N t x); apply IH.
  Qed.

  Lemma lower_index_g_not_oob gf ax x : lower_index_g N gf ax x <> ErrOOB.
  Proof.
    unfold lower_index_g, idx, usub.
    destruct (nth_error ax 0); cbn [bind]; [|discriminate].
    destruct (leb N x t); [discriminate|].
    destruct (length ax <? 1); cbn [bind]; [discriminate|].
    destruct (nth_error ax (length ax - 1)); cbn [bind]; [|discriminate].
    destruct (geb N x t0). { destruct (length ax <? 2); discriminate. }
    destruct (gf ax x t t0); [|discriminate].
    destruct (Z.of_nat (length ax) <=? z)%Z; [discriminate|].
    destruct (z <? 0)%Z; [discriminate|].
    destruct (nth_error ax (Z.to_nat z)); cbn [bind]; [|discriminate].
    destruct (leb N t1 x).
    - destruct (nth_error ax (Z.to_nat z + 1)); cbn [bind]; [|discriminate].
      destruct (ltb N x t2); [discriminate|apply bsearch_not_oob].
    - apply bsearch_not_oob.
  Qed.

  (* the closed-range test of the property text *)
  Definition in_closed_range (ax : list T) (x : T) : bool :=
    leb N (nth 0 ax d) x && leb N x (nth (length ax - 1) ax d).

  Lemma is_in_range_spec ax x : 1 <= length ax ->
    is_in_range N ax x = Ok (in_closed_range ax x).
  Proof.
    intros Hn. unfold is_in_range, in_closed_range.
    rewrite (idx_nth ax 0 d) by lia. cbn [bind].
    destruct (leb N (nth 0 ax d) x); [|reflexivity].
    unfold usub. destruct (length ax <? 1) eqn:E; [apply Nat.ltb_lt in E; lia|]. cbn [bind].
    rewrite (idx_nth ax (length ax - 1) d) by lia. reflexivity.
  Qed.

  Lemma range_guard_spec ext ax x : 1 <= length ax ->
    range_guard N ext ax x = if ext || in_closed_range ax x then Ok tt else ErrOOB.
  Proof.
    intros Hn. unfold range_guard. destruct ext; [reflexivity|].
    rewrite is_in_range_spec by exact Hn. cbn. destruct (in_closed_range ax x); reflexivity.
  Qed.

  (* C05 (Linear): without extrapolation the outcome is OutOfBounds iff the query fails
     the closed-range test -- whatever else the inputs are. *)
  Theorem linear_oob_iff ax data x : 1 <= length ax ->
    (linear_interp N false ax data x = ErrOOB <-> in_closed_range ax x = false).
  Proof.
    intros Hn. unfold linear_interp. rewrite range_guard_spec by exact Hn. cbn [orb].
    destruct (in_closed_range ax x); cbn [bind]; split; try discriminate; try reflexivity.
    intros H. exfalso.
    destruct (lower_index N ax x) eqn:E; cbn [bind] in H; try discriminate.
    - unfold idx in H.
      destruct (nth_error data a); cbn [bind] in H; [|discriminate].
      destruct (nth_error ax a); cbn [bind] in H; [|discriminate].
      destruct (nth_error data (a + 1)); cbn [bind] in H; [|discriminate].
      destruct (nth_error ax (a + 1)); cbn [bind] in H; discriminate.
    - exact (lower_index_g_not_oob _ _ _ E).
  Qed.

  (* C06: with extrapolation there is never an OutOfBounds error *)
  Theorem linear_ext_never_oob ax data x : linear_interp N true ax data x <> ErrOOB.
  Proof.
    unfold linear_interp, range_guard. cbn [bind]. intros H.
    destruct (lower_index N ax x) eqn:E; cbn [bind] in H; try discriminate.
    - unfold idx in H.
      destruct (nth_error data a); cbn [bind] in H; [|discriminate].
      destruct (nth_error ax a); cbn [bind] in H; [|discriminate].
      destruct (nth_error data (a + 1)); cbn [bind] in H; [|discriminate].
      destruct (nth_error ax (a + 1)); cbn [bind] in H; discriminate.
    - exact (lower_index_g_not_oob _ _ _ E).
  Qed.

  (* C06: inside the range, the result with extrapolation is the same TERM as without *)
  Theorem linear_ext_same_in_range ax data x : 1 <= length ax ->
    in_closed_range ax x = true ->
    linear_interp N true ax data x = linear_interp N false ax data x.
  Proof.
    intros Hn H. unfold linear_interp. rewrite !range_guard_spec by exact Hn.
    rewrite H. reflexivity.
  Qed.

  (* C01/C20: once the guard passes and the lookup returns i, the result is, for EVERY lane,
     calc_frac through rows i and i+1 -- one bracket for all lanes, nothing else is read *)
  Theorem linear_reads_bracket ext ax data x i :
    range_guard N ext ax x = Ok tt -> lower_index N ax x = Ok i ->
    i + 1 < length ax -> length data = length ax ->
    linear_interp N ext ax data x =
    Ok (map2 (fun v1 v2 => calc_frac N (nth i ax d, v1) (nth (i + 1) ax d, v2) x)
             (nth i data []) (nth (i + 1) data [])).
  Proof.
    intros Hg Hi Hlt Hlen. unfold linear_interp. rewrite Hg, Hi. cbn [bind].
    rewrite (idx_nth data i []) by lia. rewrite (idx_nth ax i d) by lia.
    rewrite (idx_nth data (i + 1) []) by lia. rewrite (idx_nth ax (i + 1) d) by lia.
    reflexivity.
  Qed.

  (* C20: two data sets / axes that agree on the bracket give Leibniz-equal results *)
  Theorem linear_depends_only_on_bracket ext ax ax' data data' x i :
    range_guard N ext ax x = Ok tt -> range_guard N ext ax' x = Ok tt ->
    lower_index N ax x = Ok i -> lower_index N ax' x = Ok i ->
    i + 1 < length ax -> length data = length ax ->
    i + 1 < length ax' -> length data' = length ax' ->
    nth i ax d = nth i ax' d -> nth (i + 1) ax d = nth (i + 1) ax' d ->
    nth i data [] = nth i data' [] -> nth (i + 1) data [] = nth (i + 1) data' [] ->
    linear_interp N ext ax data x = linear_interp N ext ax' data' x.
  Proof.
    intros G G' L L' B1 B2 B1' B2' E1 E2 E3 E4.
    rewrite (linear_reads_bracket ext ax data x i G L B1 B2).
    rewrite (linear_reads_bracket ext ax' data' x i G' L' B1' B2').
    rewrite E1, E2, E3, E4. reflexivity.
  Qed.

  (* ---- bilinear ---- *)

  Lemma idx2_not_oob (data : list (list (list T))) i j : idx2 data i j <> ErrOOB.
  Proof.
    unfold idx2, idx. destruct (nth_error data i); cbn; [|discriminate].
    destruct (nth_error l j); discriminate.
  Qed.

  Theorem bilinear_oob_iff xax yax data x y : 1 <= length xax -> 1 <= length yax ->
    (bilinear_interp N false xax yax data x y = ErrOOB <->
     in_closed_range xax x && in_closed_range yax y = false).
  Proof.
    intros Hx Hy. unfold bilinear_interp. rewrite !range_guard_spec by assumption. cbn [orb].
    destruct (in_closed_range xax x); cbn [bind andb]; [|split; reflexivity].
    destruct (in_closed_range yax y); cbn [bind]; split; try discriminate; try reflexivity.
    intros H. exfalso.
    destruct (lower_index N xax x) eqn:E; cbn [bind] in H; try discriminate;
      [|exact (lower_index_g_not_oob _ _ _ E)].
    destruct (lower_index N yax y) eqn:E2; cbn [bind] in H; try discriminate;
      [|exact (lower_index_g_not_oob _ _ _ E2)].
    unfold idx in H.
    repeat match type of H with
           | context[nth_error ?l ?k] => destruct (nth_error l k); cbn [bind] in H; try discriminate
           | context[idx2 ?dd ?a1 ?a2] =>
               let E := fresh in destruct (idx2 dd a1 a2) eqn:E; cbn [bind] in H; try discriminate;
               try (exact (idx2_not_oob _ _ _ E))
           end.
  Qed.

  Theorem bilinear_ext_never_oob xax yax data x y :
    bilinear_interp N true xax yax data x y <> ErrOOB.
  Proof.
    unfold bilinear_interp, range_guard. cbn [bind]. intros H.
    destruct (lower_index N xax x) eqn:E; cbn [bind] in H; try discriminate;
      [|exact (lower_index_g_not_oob _ _ _ E)].
    destruct (lower_index N yax y) eqn:E2; cbn [bind] in H; try discriminate;
      [|exact (lower_index_g_not_oob _ _ _ E2)].
    unfold idx in H.
    repeat match type of H with
           | context[nth_error ?l ?k] => destruct (nth_error l k); cbn [bind] in H; try discriminate
           | context[idx2 ?dd ?a1 ?a2] =>
               let E := fresh in destruct (idx2 dd a1 a2) eqn:E; cbn [bind] in H; try discriminate;
               try (exact (idx2_not_oob _ _ _ E))
           end.
  Qed.

  Theorem bilinear_ext_same_in_range xax yax data x y :
    1 <= length xax -> 1 <= length yax ->
    in_closed_range xax x = true -> in_closed_range yax y = true ->
    bilinear_interp N true xax yax data x y = bilinear_interp N false xax yax data x y.
  Proof.
    intros Hx Hy H1 H2. unfold bilinear_interp. rewrite !range_guard_spec by assumption.
    rewrite H1, H2. reflexivity.
  Qed.

  Definition cell (data : list (list (list T))) (i j : nat) : list T := nth j (nth i data []) [].

  Lemma idx2_nth (data : list (list (list T))) i j :
    i < length data -> j < length (nth i data []) -> idx2 data i j = Ok (cell data i j).
  Proof.
    intros Hi Hj. unfold idx2, cell. rewrite (idx_nth data i []) by exact Hi. cbn [bind].
    apply idx_nth; exact Hj.
  Qed.

  (* C04/C20: the four corners, x first then y, the same cell for every lane *)
  Theorem bilinear_reads_four_corners ext xax yax data x y ix iy :
    range_guard N ext xax x = Ok tt -> range_guard N ext yax y = Ok tt ->
    lower_index N xax x = Ok ix -> lower_index N yax y = Ok iy ->
    ix + 1 < length xax -> iy + 1 < length yax -> length data = length xax ->
    (forall i, i < length data -> length (nth i data []) = length yax) ->
    bilinear_interp N ext xax yax data x y =
    Ok (map4 (bilinear_lane N (nth ix xax d) (nth (ix + 1) xax d) (nth iy yax d) (nth (iy + 1) yax d) x y)
             (cell data ix iy) (cell data ix (iy + 1)) (cell data (ix + 1) iy)
             (cell data (ix + 1) (iy + 1))).
  Proof.
    intros Gx Gy Lx Ly Bx By Hlen Hrows. unfold bilinear_interp.
    rewrite Gx, Gy, Lx, Ly. cbn [bind].
    rewrite (idx_nth xax ix d) by lia. rewrite (idx_nth yax iy d) by lia. cbn [bind].
    rewrite !idx2_nth by (try rewrite Hrows; lia). cbn [bind].
    rewrite (idx_nth xax (ix + 1) d) by lia. rewrite (idx_nth yax (iy + 1) d) by lia.
    reflexivity.
  Qed.

  Theorem bilinear_depends_only_on_cell ext xax yax data xax' yax' data' x y ix iy :
    range_guard N ext xax x = Ok tt -> range_guard N ext yax y = Ok tt ->
    range_guard N ext xax' x = Ok tt -> range_guard N ext yax' y = Ok tt ->
    lower_index N xax x = Ok ix -> lower_index N yax y = Ok iy ->
    lower_index N xax' x = Ok ix -> lower_index N yax' y = Ok iy ->
    ix + 1 < length xax -> iy + 1 < length yax -> length data = length xax ->
    (forall i, i < length data -> length (nth i data []) = length yax) ->
    ix + 1 < length xax' -> iy + 1 < length yax' -> length data' = length xax' ->
    (forall i, i < length data' -> length (nth i data' []) = length yax') ->
    nth ix xax d = nth ix xax' d -> nth (ix + 1) xax d = nth (ix + 1) xax' d ->
    nth iy yax d = nth iy yax' d -> nth (iy + 1) yax d = nth (iy + 1) yax' d ->
    cell data ix iy = cell data' ix iy -> cell data ix (iy + 1) = cell data' ix (iy + 1) ->
    cell data (ix + 1) iy = cell data' (ix + 1) iy ->
    cell data (ix + 1) (iy + 1) = cell data' (ix + 1) (iy + 1) ->
    bilinear_interp N ext xax yax data x y = bilinear_interp N ext xax' yax' data' x y.
  Proof.
    intros. erewrite (bilinear_reads_four_corners ext xax yax data) by eassumption.
    erewrite (bilinear_reads_four_corners ext xax' yax' data') by eassumption.
    congruence.
  Qed.

End Structure.

Arguments in_closed_range {T} N d ax x.
Arguments cell {T} data i j.
