(* Repro.v -- C16 for the spline, assembled: if every lane's data is sampled from a cubic P and
   the selected end conditions are ones P satisfies, the slopes the solver returns are P' at the
   knots (uniqueness, C03) and every answered query -- inside the range or extrapolated --
   evaluates to P.                                                                        *)

From Coq Require Import List Bool Arith ZArith QArith Qcanon Lia Lqa.
From NI Require Import Num Base Lookup Linear Interp Spline Tri TriProofs SplineAlgebra
  LookupProofs LinearProofs LinearExact SplineProofs Units.
Import ListNotations.
Local Open Scope nat_scope.

(* converse of sat_nth *)
Lemma nth_sat rows : forall kprev k, length k = length rows ->
  (forall i r, nth_error rows i = Some r ->
     (s_low r * (match i with 0 => kprev | S i' => nth i' k 0 end)
      + s_mid r * nth i k 0 + s_up r * nth (S i) k 0 = s_rhs r)%Qc) ->
  sat kprev rows k.
Proof.
  induction rows as [|r t IH]; intros kprev k Hl Hi.
  - destruct k; [exact I|discriminate].
  - destruct k as [|ki kt]; [discriminate|]. cbn [sat]. split.
    + specialize (Hi 0 r eq_refl). cbn [nth] in Hi. destruct kt; exact Hi.
    + apply IH; [cbn in Hl; lia|]. intros i r0 E. specialize (Hi (S i) r0 E). cbn [nth] in Hi.
      destruct i; exact Hi.
Qed.

Section Cubic.
  Variable xs : list Qc.
  Variable data : list (list Qc).
  Variable j : nat.
  Variables p0 p1 p2 p3 : Qc.
  Hypothesis HS : StrictIncQc xs.
  Hypothesis Hlen : length xs = length data.
  Hypothesis Hn : 3 <= length data.
  Notation n := (length data).
  Notation Pp := (P p0 p1 p2 p3).
  Notation dPp := (dP p1 p2 p3).
  Notation d2Pp := (d2P p2 p3).
  Notation xq i := (nth i xs 0%Qc).

  (* lane j holds the cubic's values at the knots *)
  Hypothesis Hdata : forall i, i < n -> yq data j i = Pp (xq i).

  Let HjL : j < S j := Nat.lt_succ_diag_r j.
  Lemma hqn i : i + 1 < n -> hq xs i <> 0%Qc.
  Proof. exact (hq_neq xs data (S j) j HjL HS Hlen Hn i). Qed.
  Lemma hqp i : i + 1 < n -> (0 < hq xs i)%Qc.
  Proof. exact (hq_pos xs data (S j) j HjL HS Hlen Hn i). Qed.
  Lemma hqs i : (nth (i + 2) xs 0 - nth i xs 0 = hq xs i + hq xs (i + 1))%Qc.
  Proof. exact (hq_sum xs data (S j) j HjL Hlen Hn i). Qed.
  Lemma sum_pos_neq a b : (0 < a)%Qc -> (0 < b)%Qc -> (a + b)%Qc <> 0%Qc.
  Proof.
    intros Ha Hb E. apply (f_equal this) in E.
    assert (P : (this (a + b)%Qc == this a + this b)%Q) by (cbn [this Qcplus Q2Qc]; apply Qred_correct).
    rewrite E in P. unfold Qclt in Ha, Hb. cbn in Ha, Hb, P. lra.
  Qed.

  Definition kP : list Qc := map dPp xs.

  Lemma kP_nth i : i < n -> nth i kP 0%Qc = dPp (xq i).
  Proof.
    intros Hi. unfold kP.
    rewrite (nth_indep _ 0%Qc (dPp 0%Qc)) by (rewrite map_length, Hlen; exact Hi). apply map_nth.
  Qed.

  Lemma x_next i : (xq (i + 1) = xq i + hq xs i)%Qc.
  Proof. unfold hq. ring. Qed.
  Lemma x_prev i : 1 <= i -> (xq (i - 1) = xq i - hq xs (i - 1))%Qc.
  Proof. intros H. unfold hq. replace (i - 1 + 1) with i by lia. ring. Qed.

  (* which end conditions the cubic satisfies *)
  Definition left_ok (l : single Qc) : Prop :=
    match specialize_single NumQc l with
    | SFirstDeriv v => v = dPp (xq 0)
    | SSecondDeriv v => v = d2Pp (xq 0)
    | _ => True
    end.
  Definition right_ok (r : single Qc) : Prop :=
    match specialize_single NumQc r with
    | SFirstDeriv v => v = dPp (xq (n - 1))
    | SSecondDeriv v => v = d2Pp (xq (n - 1))
    | _ => True
    end.


  (* the cubic's slopes satisfy the whole (non-parabola) system *)
  Lemma cubic_sat_srows l r : left_ok l -> right_ok r -> sat 0%Qc (srows xs data j l r) kP.
  Proof.
    intros Hl Hr. apply nth_sat.
    { unfold srows, kP. cbn [length]. rewrite app_length, !map_length, seq_length. cbn. lia. }
    intros i row Hrow.
    assert (Hi : i < n).
    { assert (Hnn : nth_error (srows xs data j l r) i <> None) by congruence.
      apply nth_error_Some in Hnn. unfold srows in Hnn. cbn [length] in Hnn.
      rewrite app_length, map_length, seq_length in Hnn. cbn in Hnn. lia. }
    destruct (Nat.eq_dec i 0) as [->|Hi0].
    - (* left boundary row *)
      cbn [nth_error srows] in Hrow. injection Hrow as <-.
      rewrite !kP_nth by lia. unfold s_left, left_ok in *.
      pose proof (hqn 0 ltac:(lia)) as H0.
      pose proof (hqn 1 ltac:(lia)) as H1.
      destruct (specialize_single NumQc l) as [| | |v|v] eqn:El; cbn [s_low s_mid s_up s_rhs].
      1-3: rewrite !Hdata by lia; pose proof (hqs 0) as Hs0; cbn [Nat.add] in Hs0; rewrite Hs0;
           assert (E1 : xq 1 = (xq 0 + hq xs 0)%Qc) by (unfold hq; cbn [Nat.add]; ring);
           assert (E2 : xq 2 = (xq 0 + hq xs 0 + hq xs 1)%Qc) by (unfold hq; cbn [Nat.add]; ring);
           rewrite E2, E1;
           pose proof (cubic_left_nak_row p0 p1 p2 p3 (xq 0) (hq xs 0) (hq xs 1) H0 H1
                         (sum_pos_neq _ _ (hqp 0 ltac:(lia)) (hqp 1 ltac:(lia)))) as R;
           cbv zeta in R; rewrite <- R; ring.
      + rewrite c0_Qc, c1_Qc, Hl. ring.
      + rewrite !Hdata by lia. rewrite Hl.
        replace (xq 1) with (xq 0 + hq xs 0)%Qc by (rewrite <- (x_next 0); reflexivity).
        rewrite <- (cubic_left_second_row p0 p1 p2 p3 (xq 0) (hq xs 0) H0). ring.
    - destruct (Nat.eq_dec i (n - 1)) as [->|Hil].
      + (* right boundary row *)
        rewrite (srows_nth_last xs data (S j) j HjL Hlen Hn) in Hrow. injection Hrow as <-.
        destruct (n - 1) as [|m] eqn:Em; [lia|].
        assert (Hm : n - 2 = m) by lia.
        rewrite (nth_overflow kP) with (n := S (S m)) by (unfold kP; rewrite map_length, Hlen; lia).
        rewrite !kP_nth by lia. unfold s_right, right_ok in *. rewrite Hm, Em in *.
        replace (n - 3) with (m - 1) in * by lia.
        pose proof (hqn m ltac:(lia)) as H1.
        pose proof (hqn (m - 1) ltac:(lia)) as H0.
        assert (Xm : xq m = (xq (S m) - hq xs m)%Qc) by (unfold hq; replace (m + 1) with (S m) by lia; ring).
        assert (Xm1 : xq (m - 1) = (xq (S m) - hq xs m - hq xs (m - 1))%Qc).
        { unfold hq. replace (m + 1) with (S m) by lia. replace (m - 1 + 1) with m by lia. ring. }
        destruct (specialize_single NumQc r) as [| | |v|v] eqn:Er; cbn [s_low s_mid s_up s_rhs].
        1-3: rewrite !Hdata by lia;
             pose proof (hqs (m - 1)) as Hs; replace (m - 1 + 2) with (S m) in Hs by lia;
             replace (m - 1 + 1) with m in Hs by lia; rewrite Hs; rewrite Xm1, Xm;
             pose proof (cubic_right_nak_row p0 p1 p2 p3 (xq (S m)) (hq xs (m - 1)) (hq xs m) H0 H1
                           (sum_pos_neq _ _ (hqp (m - 1) ltac:(lia)) (hqp m ltac:(lia)))) as R;
             cbv zeta in R; rewrite <- R; ring.
        * rewrite c0_Qc, c1_Qc, Hr. ring.
        * rewrite !Hdata by lia. rewrite Hr, Xm.
          rewrite <- (cubic_right_second_row p0 p1 p2 p3 (xq (S m)) (hq xs m) H1). ring.
      + (* interior row *)
        rewrite (srows_nth_interior xs data (S j) j HjL Hlen Hn l r i ltac:(lia) ltac:(lia)) in Hrow. injection Hrow as <-.
        destruct i as [|i']; [lia|]. rewrite !kP_nth by lia.
        unfold s_interior. cbn [s_low s_mid s_up s_rhs]. rewrite !Hdata by lia.
        replace (S i' - 1) with i' by lia.
        replace (xq i') with (xq (S i') - hq xs i')%Qc by (unfold hq; replace (i' + 1) with (S i') by lia; ring).
        replace (xq (S i' + 1)) with (xq (S i') + hq xs (S i'))%Qc by (rewrite <- (x_next (S i')); reflexivity).
        replace (xq (S (S i'))) with (xq (S i') + hq xs (S i'))%Qc
          by (rewrite <- (x_next (S i')); replace (S i' + 1) with (S (S i')) by lia; reflexivity).
        rewrite <- (cubic_interior_row p0 p1 p2 p3 (xq (S i')) (hq xs i') (hq xs (S i'))); [ring| |]; apply hqn; lia.
  Qed.

End Cubic.

(* the quadratic's slopes satisfy the 3-point parabola system *)
Section Quadratic.
  Variable xs : list Qc.
  Variable data : list (list Qc).
  Variable j : nat.
  Variables p0 p1 p2 : Qc.
  Hypothesis HS : StrictIncQc xs.
  Hypothesis Hlen : length xs = length data.
  Hypothesis Hn3 : length data = 3.
  Hypothesis Hdata : forall i, i < 3 -> yq data j i = P p0 p1 p2 0 (nth i xs 0%Qc).

  Lemma quadratic_sat_parabola : sat 0%Qc (srows_parabola xs data j) (kP xs p1 p2 0).
  Proof.
    assert (Hn : 3 <= length data) by lia.
    assert (HjL : j < S j) by lia.
    pose proof (hq_neq xs data (S j) j HjL HS Hlen Hn 0 ltac:(lia)) as H0.
    pose proof (hq_neq xs data (S j) j HjL HS Hlen Hn 1 ltac:(lia)) as H1.
    assert (E1 : nth 1 xs 0%Qc = (nth 0 xs 0 + hq xs 0)%Qc) by (unfold hq; cbn [Nat.add]; ring).
    assert (E2 : nth 2 xs 0%Qc = (nth 0 xs 0 + hq xs 0 + hq xs 1)%Qc) by (unfold hq; cbn [Nat.add]; ring).
    destruct (quadratic_parabola_rows p0 p1 p2 (nth 0 xs 0%Qc) _ _ H0 H1) as (R0 & R1 & R2).
    cbv zeta in R0, R1, R2.
    assert (K : forall i, i < 3 -> nth i (kP xs p1 p2 0) 0%Qc = dP p1 p2 0 (nth i xs 0%Qc)).
    { intros i Hi. apply (kP_nth xs data p1 p2 0 Hlen). lia. }
    unfold srows_parabola.
    remember (c1 NumQc) as C1 eqn:EC1. remember (c2 NumQc) as C2 eqn:EC2. remember (c3 NumQc) as C3 eqn:EC3.
    clear EC1 EC2 EC3.
    apply nth_sat; [unfold kP; rewrite map_length; cbn; lia|].
    intros i row Hrow.
    destruct i as [|[|[|i]]]; cbn [nth_error] in Hrow; try (destruct i; discriminate Hrow);
      injection Hrow as <-; cbn [s_low s_mid s_up s_rhs].
    - rewrite !K by lia. rewrite !Hdata by lia. rewrite E1. rewrite <- R0. ring.
    - rewrite !K by lia. rewrite !Hdata by lia. rewrite E2, E1. rewrite <- R1. ring.
    - rewrite (nth_overflow (kP xs p1 p2 0)) with (n := 3) by (unfold kP; rewrite map_length; lia).
      rewrite !K by lia. rewrite !Hdata by lia. rewrite E2, E1. rewrite <- R2. ring.
  Qed.
End Quadratic.

(* C16, assembled.  Core: from "the slopes are the unique solution and answers are pieces". *)
Lemma reproduce_core (xs : list Qc) (data : list (list Qc)) (L j : nat) (l r : single Qc)
    (sp : spline_strat) (ext : bool) (p0 p1 p2 p3 : Qc) :
  StrictIncQc xs -> length xs = length data -> 3 <= length data ->
  (forall i, i < length data -> yq data j i = P p0 p1 p2 p3 (nth i xs 0%Qc)) ->
  left_ok xs p1 p2 p3 l -> right_ok xs data p1 p2 p3 r ->
  ((length data =? 3) && is_nak l && is_nak r = true -> p3 = 0%Qc) ->
  (exists kq : list Qc,
      (forall k, sat 0%Qc (sys_rows xs data j l r) k <-> k = kq) /\
      forall x, (ext = false -> in_closed_range NumQc 0%Qc xs x = true) ->
        exists i v, lower_index NumQc xs x = Ok i /\ i + 1 < length data /\
          spline_interp NumQc sp xs data x = Ok v /\ length v = L /\
          nth j v 0%Qc =
            piece (yq data j i) (kk kq i) (aq xs data j kq i) (bq xs data j kq i) (hq xs i)
                  (x - nth i xs 0)%Qc) ->
  forall x, (ext = false -> in_closed_range NumQc 0%Qc xs x = true) ->
    exists v, spline_interp NumQc sp xs data x = Ok v /\ length v = L /\
              nth j v 0%Qc = P p0 p1 p2 p3 x.
Proof.
  intros HS Hl Hn Hdata Hlo Hro Hpar (kq & Hiff & Hval) x Hx.
  assert (Ek : kq = kP xs p1 p2 p3).
  { symmetry. apply Hiff. unfold sys_rows.
    destruct ((length data =? 3) && is_nak l && is_nak r) eqn:Ep.
    - specialize (Hpar eq_refl). subst p3.
      apply andb_prop in Ep as [Ep _]. apply andb_prop in Ep as [En _]. apply Nat.eqb_eq in En.
      apply (quadratic_sat_parabola xs data j p0 p1 p2 HS Hl En). intros i Hi. apply Hdata. lia.
    - apply (cubic_sat_srows xs data j p0 p1 p2 p3 HS Hl Hn Hdata l r Hlo Hro). }
  destruct (Hval x Hx) as (i & v & Hi & Hlt & Ev & Lv & Nv).
  exists v. split; [exact Ev|]. split; [exact Lv|]. rewrite Nv, Ek.
  unfold aq, bq, kk. rewrite !(kP_nth xs data p1 p2 p3 Hl) by lia. rewrite !Hdata by lia.
  assert (Ex : nth (i + 1) xs 0%Qc = (nth i xs 0 + hq xs i)%Qc) by (unfold hq; ring).
  rewrite Ex.
  rewrite (cubic_piece_reproduces p0 p1 p2 p3 (nth i xs 0%Qc) (hq xs i)).
  - f_equal. ring.
  - apply (hq_neq xs data (S j) j ltac:(lia) HS Hl Hn). lia.
Qed.

(* whole-data-set boundaries: NotAKnot reproduces every cubic (n >= 4) and every quadratic
   (n = 3); Natural / Clamped reproduce the cubics that satisfy S'' = 0 resp. S' = 0 at both ends
   (in particular Natural reproduces straight lines) *)
Theorem spline_reproduces_cubic (xs : list Qc) (data : list (list Qc)) (L : nat) :
  (forall i, i < length data -> length (nth i data []) = L) ->
  StrictIncQc xs -> length xs = length data -> 3 <= length data ->
  (Z.of_nat (length data) <= two64)%Z -> 0 < L ->
  forall (b : bc Qc) (l r : single Qc) (ext : bool) (trail : list nat) (sp : spline_strat) (j : nat)
         (p0 p1 p2 p3 : Qc),
    whole_lr b = Some (l, r) -> j < L ->
    (forall i, i < length data -> yq data j i = P p0 p1 p2 p3 (nth i xs 0%Qc)) ->
    left_ok xs p1 p2 p3 l -> right_ok xs data p1 p2 p3 r ->
    ((length data =? 3) && is_nak l && is_nak r = true -> p3 = 0%Qc) ->
    spline_build NumQc b ext xs data trail = Ok sp ->
    forall x, (ext = false -> in_closed_range NumQc 0%Qc xs x = true) ->
      exists v, spline_interp NumQc sp xs data x = Ok v /\ length v = L /\
                nth j v 0%Qc = P p0 p1 p2 p3 x.
Proof.
  intros Hw HS Hl Hn H64 HL b l r ext trail sp j p0 p1 p2 p3 Hb Hj Hdata Hlo Hro Hpar Hsp.
  apply (reproduce_core xs data L j l r sp ext p0 p1 p2 p3 HS Hl Hn Hdata Hlo Hro Hpar).
  exact (spline_whole_correct xs data L Hw HS Hl Hn H64 HL b l r ext trail sp j Hb Hj Hsp).
Qed.
