(* PeriodicSolve.v -- the condensed cyclic solve for the Periodic boundary
   (cubic_spline.rs:498-565) on one lane, over exact rationals.

   The n-1 unknowns k_0 .. k_(n-2) (k_(n-1) = k_0) satisfy the cyclic tridiagonal system.  The
   code solves the (n-2)x(n-2) tridiagonal part twice (right-hand side, and minus the column of
   k_(n-2)), and determines t = k_(n-2) from the last equation.                            *)

From Coq Require Import List Bool Arith ZArith QArith Qcanon Lia.
From NI Require Import Num Base Lookup Linear Interp Spline Tri TriProofs SplineAlgebra LookupProofs LinearProofs LinearExact SplineProofs.
Import ListNotations.
Local Open Scope Qc_scope.

(* rows with the same matrix and a combined right-hand side *)
Fixpoint comb_rows (t : Qc) (ra rb : list qrow) : list qrow :=
  match ra, rb with
  | a :: ta, b :: tb => mkS (s_low a) (s_mid a) (s_up a) (s_rhs a + t * s_rhs b) :: comb_rows t ta tb
  | _, _ => []
  end.

Fixpoint same_matrix (ra rb : list qrow) : Prop :=
  match ra, rb with
  | [], [] => True
  | a :: ta, b :: tb => s_low a = s_low b /\ s_mid a = s_mid b /\ s_up a = s_up b /\ same_matrix ta tb
  | _, _ => False
  end.

Fixpoint vcomb (t : Qc) (ka kb : list Qc) : list Qc :=
  match ka, kb with
  | a :: ta, b :: tb => (a + t * b) :: vcomb t ta tb
  | _, _ => []
  end.

Lemma hd0_vcomb t ka kb : length ka = length kb -> hd0 (vcomb t ka kb) = hd0 ka + t * hd0 kb.
Proof. destruct ka, kb; cbn; intros H; try discriminate; ring. Qed.

(* linearity of the system in the right-hand side *)
Lemma sat_linear t : forall ra rb ka kb pa pb,
  same_matrix ra rb -> sat pa ra ka -> sat pb rb kb ->
  sat (pa + t * pb) (comb_rows t ra rb) (vcomb t ka kb).
Proof.
  induction ra as [|a ta IH]; intros [|b tb] ka kb pa pb Hm Ha Hb; cbn in Hm; try contradiction.
  - destruct ka, kb; cbn in *; try contradiction. exact I.
  - destruct ka as [|xa ka]; [contradiction|]. destruct kb as [|xb kb]; [contradiction|].
    destruct Hm as (E1 & E2 & E3 & Hm). destruct Ha as [Ea Ha]. destruct Hb as [Eb Hb].
    cbn [comb_rows vcomb sat s_low s_mid s_up s_rhs]. split.
    + assert (Lk : length ka = length kb).
      { clear -Ha Hb Hm. revert tb ka kb xa xb Ha Hb Hm. induction ta as [|a ta IH]; intros [|b tb] ka kb xa xb Ha Hb Hm;
          cbn in Hm; try contradiction; destruct ka, kb; cbn in *; try contradiction; auto.
        destruct Hm as (_ & _ & _ & Hm). destruct Ha as [_ Ha]. destruct Hb as [_ Hb]. f_equal. eapply IH; eauto. }
      rewrite (hd0_vcomb t ka kb Lk). rewrite <- Ea, <- Eb, E1, E2, E3. ring.
    + apply IH; assumption.
Qed.

Lemma sat_nth' rows : forall kprev k, sat kprev rows k ->
  forall i r, nth_error rows i = Some r ->
    s_low r * (match i with O => kprev | S i' => nth i' k 0 end)
    + s_mid r * nth i k 0 + s_up r * nth (S i) k 0 = s_rhs r.
Proof.
  induction rows as [|r t IH]; intros kprev k H.
  - intros [|i] r0 E; discriminate E.
  - destruct k as [|ki kt]; [contradiction|]. destruct H as [H1 H2].
    intros [|i] r0 E.
    + injection E as <-. cbn [nth]. destruct kt; exact H1.
    + specialize (IH ki kt H2 i r0 E). cbn [nth]. destruct i; exact IH.
Qed.

Lemma sat_length rows : forall p k, sat p rows k -> length k = length rows.
Proof.
  induction rows as [|r t IH]; intros p [|x k] H; cbn in *; try contradiction; auto.
  destruct H as [_ H]. f_equal. eapply IH; eauto.
Qed.

(* ------------------------------------------------------------------ *)
(* The cyclic system on one lane (scalars)                             *)

Section Cyclic.
  (* h : interval widths h_0 .. h_(n-2);  y : lane values;  n >= 4 *)
  Variable n : nat.
  Variable h : nat -> Qc.
  Variable y : nat -> Qc.
  Hypothesis Hn : (4 <= n)%nat.
  Hypothesis Hh : forall i, (i + 1 < n)%nat -> 0 < h i.

  Let dx0 := h 0.
  Let dx_1 := h (n - 2).
  Let dx_2 := h (n - 3).
  Let dx_3 := h (n - 4).

  Definition int_row (i : nat) : qrow :=
    mkS (h i) (c2 NumQc * (h i + h (i - 1))) (h (i - 1))
        (rhs_interior NumQc (h i) (h (i - 1)) (y (i - 1)) (y i) (y (i + 1))).

  Definition rhs0 : Qc :=
    ((y (n - 1) - y (n - 2)) / dx_1 * dx0 + (y 1 - y 0) / dx0 * dx_1) * c3 NumQc.
  Definition rhs_last : Qc :=
    ((y (n - 2) - y (n - 3)) / dx_2 * dx_1 + (y (n - 1) - y (n - 2)) / dx_1 * dx_2) * c3 NumQc.

  (* the condensed systems the code hands to the Thomas algorithm *)
  Definition prow0 : qrow := mkS 0 (c2 NumQc * (dx_1 + dx0)) dx_1 rhs0.
  Definition rows1 : list qrow := prow0 :: map int_row (seq 1 (n - 3)).
  Definition rows2 : list qrow :=
    map (fun ir => let '(i, r) := ir in
                   mkS (s_low r) (s_mid r) (s_up r)
                       (if (i =? 0)%nat then - dx0 else if (i =? n - 3)%nat then - dx_3 else 0))
        (combine (seq 0 (n - 2)) rows1).

  Definition k1 : list Qc := thomas1 NumQc rows1.
  Definition k2 : list Qc := thomas1 NumQc rows2.
  Definition den : Qc := nth 0 k2 0 * dx_2 + nth (n - 3) k2 0 * dx_1 + c2 NumQc * (dx_1 + dx_2).
  Definition tt : Qc := (rhs_last - nth 0 k1 0 * dx_2 - nth (n - 3) k1 0 * dx_1) / den.
  Definition khead : list Qc := vcomb tt k1 k2.
  (* the slopes: k_0 .. k_(n-3), k_(n-2) = tt, k_(n-1) = k_0 *)
  Definition kper : list Qc := khead ++ [tt] ++ [nth 0 khead 0].

  Lemma rows1_length : length rows1 = (n - 2)%nat.
  Proof. unfold rows1. cbn [length]. rewrite map_length, seq_length. lia. Qed.
  Lemma rows2_length : length rows2 = (n - 2)%nat.
  Proof. unfold rows2. rewrite map_length, combine_length, seq_length, rows1_length. lia. Qed.

  Fixpoint set_rhs (f : nat -> Qc) (i0 : nat) (rows : list qrow) : list qrow :=
    match rows with
    | [] => []
    | r :: t => mkS (s_low r) (s_mid r) (s_up r) (f i0) :: set_rhs f (S i0) t
    end.

  Definition rhs2_of (i : nat) : Qc :=
    if (i =? 0)%nat then - dx0 else if (i =? n - 3)%nat then - dx_3 else 0.

  Lemma map_combine_seq (rows : list qrow) : forall i0,
    map (fun ir : nat * qrow => let '(i, r) := ir in mkS (s_low r) (s_mid r) (s_up r) (rhs2_of i))
        (combine (seq i0 (length rows)) rows) = set_rhs rhs2_of i0 rows.
  Proof.
    induction rows as [|r t IH]; intros i0; [reflexivity|].
    cbn [length seq combine map set_rhs]. rewrite IH. reflexivity.
  Qed.

  Lemma rows2_is_set_rhs : rows2 = set_rhs rhs2_of 0 rows1.
  Proof. unfold rows2. rewrite <- rows1_length. apply map_combine_seq. Qed.

  Lemma same_matrix_set_rhs f rows : forall i0, same_matrix rows (set_rhs f i0 rows).
  Proof. induction rows as [|r t IH]; intros i0; cbn; auto. Qed.

  Lemma same_matrix_rows12 : same_matrix rows1 rows2.
  Proof. rewrite rows2_is_set_rhs. apply same_matrix_set_rhs. Qed.


  (* ---- bookkeeping ---- *)
  Lemma nth_vcomb t : forall a b i, length a = length b -> (i < length a)%nat ->
    nth i (vcomb t a b) 0 = nth i a 0 + t * nth i b 0.
  Proof.
    induction a as [|x a IH]; intros [|z b] i Hl Hi; cbn in *; try lia.
    destruct i; [reflexivity|]. apply IH; lia.
  Qed.
  Lemma vcomb_length t : forall a b, length a = length b -> length (vcomb t a b) = length a.
  Proof. induction a as [|x a IH]; intros [|z b] Hl; cbn in *; try lia. f_equal. apply IH. lia. Qed.

  Lemma nth_error_comb t : forall ra rb i a b,
    nth_error ra i = Some a -> nth_error rb i = Some b ->
    nth_error (comb_rows t ra rb) i = Some (mkS (s_low a) (s_mid a) (s_up a) (s_rhs a + t * s_rhs b)).
  Proof.
    induction ra as [|x ra IH]; intros [|z rb] i a b Ha Hb; destruct i; cbn in *; try discriminate.
    - injection Ha as <-. injection Hb as <-. reflexivity.
    - apply IH; assumption.
  Qed.

  Lemma nth_error_set_rhs f : forall rows i0 i r,
    nth_error rows i = Some r ->
    nth_error (set_rhs f i0 rows) i = Some (mkS (s_low r) (s_mid r) (s_up r) (f (i0 + i)%nat)).
  Proof.
    induction rows as [|x rows IH]; intros i0 i r H; destruct i; cbn in *; try discriminate.
    - injection H as <-. rewrite Nat.add_0_r. reflexivity.
    - rewrite (IH (S i0) i r H). replace (S i0 + i)%nat with (i0 + S i)%nat by lia. reflexivity.
  Qed.

  Lemma rows1_nth_int i : (1 <= i)%nat -> (i <= n - 3)%nat -> nth_error rows1 i = Some (int_row i).
  Proof.
    intros H1 H2. unfold rows1. destruct i as [|i]; [lia|]. cbn [nth_error].
    rewrite nth_error_map. rewrite (nth_error_nth' _ 0%nat) by (rewrite seq_length; lia).
    rewrite seq_nth by lia. reflexivity.
  Qed.

  (* ---- the theorem ---- *)
  Hypothesis Hp1 : pivots_ok (forward1 NumQc rows1).
  Hypothesis Hp2 : pivots_ok (forward1 NumQc rows2).
  Hypothesis Hden : den <> 0.

  Definition K (i : nat) : Qc := nth i kper 0.

  Lemma sat1 : sat 0 rows1 k1.
  Proof.
    apply (thomas1_correct rows1 k1); [unfold rows1; discriminate|exact Hp1|reflexivity].
  Qed.
  Lemma sat2 : sat 0 rows2 k2.
  Proof.
    assert (E : rows2 = match rows2 with r :: t => mkS 0 (s_mid r) (s_up r) (s_rhs r) :: t | [] => [] end).
    { rewrite rows2_is_set_rhs. unfold rows1. reflexivity. }
    rewrite E. apply (thomas1_correct rows2 k2); [|exact Hp2|reflexivity].
    rewrite rows2_is_set_rhs. unfold rows1. discriminate.
  Qed.

  Lemma k1_length : length k1 = (n - 2)%nat.
  Proof. rewrite (sat_length _ _ _ sat1). apply rows1_length. Qed.
  Lemma k2_length : length k2 = (n - 2)%nat.
  Proof. rewrite (sat_length _ _ _ sat2). apply rows2_length. Qed.
  Lemma khead_length : length khead = (n - 2)%nat.
  Proof. unfold khead. rewrite vcomb_length; [apply k1_length|rewrite k1_length, k2_length; reflexivity]. Qed.

  Lemma K_head i : (i < n - 2)%nat -> K i = nth i k1 0 + tt * nth i k2 0.
  Proof.
    intros Hi. unfold K, kper. rewrite app_nth1 by (rewrite khead_length; exact Hi).
    unfold khead. apply nth_vcomb; rewrite k1_length; [rewrite k2_length; reflexivity|exact Hi].
  Qed.
  Lemma K_t : K (n - 2) = tt.
  Proof.
    unfold K, kper. rewrite app_nth2 by (rewrite khead_length; lia).
    rewrite khead_length, Nat.sub_diag. reflexivity.
  Qed.
  Lemma K_last : K (n - 1) = K 0.
  Proof.
    unfold K, kper. rewrite app_nth2 by (rewrite khead_length; lia).
    rewrite khead_length. replace (n - 1 - (n - 2))%nat with 1%nat by lia. cbn [nth app].
    rewrite app_nth1 by (rewrite khead_length; lia). reflexivity.
  Qed.

  (* combined condensed system *)
  Lemma sat_comb : sat 0 (comb_rows tt rows1 rows2) khead.
  Proof.
    replace (0 : Qc) with (0 + tt * 0) by ring.
    apply sat_linear; [apply same_matrix_rows12|apply sat1|apply sat2].
  Qed.

  Lemma comb_eq i r1 : nth_error rows1 i = Some r1 ->
    s_low r1 * (match i with O => 0 | S i' => nth i' khead 0 end) + s_mid r1 * nth i khead 0
    + s_up r1 * nth (S i) khead 0 = s_rhs r1 + tt * rhs2_of i.
  Proof.
    intros H1. pose proof (sat_nth' _ _ _ sat_comb) as Hi.
    assert (H2 : nth_error rows2 i = Some (mkS (s_low r1) (s_mid r1) (s_up r1) (rhs2_of i))).
    { rewrite rows2_is_set_rhs. apply (nth_error_set_rhs rhs2_of rows1 0 i r1 H1). }
    specialize (Hi i _ (nth_error_comb tt rows1 rows2 i _ _ H1 H2)).
    cbn [s_low s_mid s_up s_rhs] in Hi. exact Hi.
  Qed.

  (* the wrap-around equation (knot 0 = knot n-1) *)
  Theorem cyc_wrap :
    dx0 * K (n - 2) + c2 NumQc * (dx_1 + dx0) * K 0 + dx_1 * K 1 = rhs0.
  Proof.
    pose proof (comb_eq 0 prow0 eq_refl) as E. cbn [s_low s_mid s_up s_rhs prow0] in E.
    unfold rhs2_of in E. cbn [Nat.eqb] in E.
    rewrite K_t. unfold K, kper. rewrite !app_nth1 by (rewrite khead_length; lia).
    replace rhs0 with (rhs0 + tt * - dx0 + tt * dx0) by ring. rewrite <- E. ring.
  Qed.

  (* interior equations 1 <= i <= n-3, with k_(n-2) = tt *)
  Theorem cyc_interior i : (1 <= i)%nat -> (i <= n - 3)%nat ->
    h i * K (i - 1) + c2 NumQc * (h i + h (i - 1)) * K i + h (i - 1) * K (i + 1) =
    rhs_interior NumQc (h i) (h (i - 1)) (y (i - 1)) (y i) (y (i + 1)).
  Proof.
    intros H1 H2. pose proof (comb_eq i (int_row i) (rows1_nth_int i H1 H2)) as E.
    unfold int_row in E. cbn [s_low s_mid s_up s_rhs] in E.
    destruct i as [|i']; [lia|]. replace (S i' - 1)%nat with i' in * by lia.
    replace (S i' + 1)%nat with (S (S i')) by lia.
    assert (Ek : forall q, (q < n - 2)%nat -> K q = nth q khead 0).
    { intros q Hq. unfold K, kper. rewrite app_nth1 by (rewrite khead_length; exact Hq). reflexivity. }
    rewrite (Ek i') by lia. rewrite (Ek (S i')) by lia.
    unfold rhs2_of in E. replace (S i' =? 0)%nat with false in E by reflexivity.
    destruct (Nat.eq_dec (S i') (n - 3)) as [El|Nl].
    - (* last row of the condensed system: its upper neighbour is k_(n-2) = tt *)
      rewrite El, Nat.eqb_refl in E.
      replace (S (S i')) with (n - 2)%nat by lia. rewrite K_t.
      rewrite (nth_overflow khead) with (n := (S (n - 3))) in E by (rewrite khead_length; lia).
      replace (h i') with dx_3 in * by (unfold dx_3; f_equal; lia).
      rewrite El in *. replace (n - 3 + 1)%nat with (n - 2)%nat in E by lia.
      match type of E with ?L = ?R + ?X =>
        assert (E' : R = L - X) by (rewrite E; ring); rewrite E' end.
      ring.
    - replace (S i' =? n - 3)%nat with false in E by (symmetry; apply Nat.eqb_neq; exact Nl).
      rewrite (Ek (S (S i'))) by lia. replace (S i' + 1)%nat with (S (S i')) in E by lia.
      match type of E with ?L = ?R + ?X =>
        assert (E' : R = L - X) by (rewrite E; ring); rewrite E' end.
      ring.
  Qed.

  (* the last equation (knot n-2), with k_(n-1) = k_0 *)
  Theorem cyc_last :
    dx_1 * K (n - 3) + c2 NumQc * (dx_1 + dx_2) * K (n - 2) + dx_2 * K (n - 1) = rhs_last.
  Proof.
    rewrite K_last, K_t, !K_head by lia.
    assert (Et : tt * den = rhs_last - nth 0 k1 0 * dx_2 - nth (n - 3) k1 0 * dx_1).
    { unfold tt. field. exact Hden. }
    unfold den in Et.
    replace rhs_last with (rhs_last - nth 0 k1 0 * dx_2 - nth (n - 3) k1 0 * dx_1
                           + nth 0 k1 0 * dx_2 + nth (n - 3) k1 0 * dx_1) by ring.
    rewrite <- Et. ring.
  Qed.

End Cyclic.

(* ------------------------------------------------------------------ *)
(* Discharging the hypotheses: pivots and the denominator               *)

Require Import Qcabs Lqa.

Ltac qo := unfold Qcle, Qclt in *; cbn [this Qcplus Qcminus Qcmult Qcopp Q2Qc] in *;
           rewrite ?Qred_correct in *; change (this 0%Qc) with 0%Q in *; change (this 1%Qc) with 1%Q in *.

(* one row of a diagonally dominant system at an index of maximal modulus *)
Lemma dd_row_Q (lo mi up rh kp km kn M aR : Q) :
  (0 <= lo -> 0 <= up -> lo + up < mi ->
  - M <= kp -> kp <= M -> - M <= kn -> kn <= M -> (km == M \/ km == - M) -> 0 <= M ->
  - aR <= rh -> rh <= aR ->
  lo * kp + mi * km + up * kn == rh -> (mi - lo - up) * M <= aR)%Q.
Proof.
  intros H1 H2 H3 P1 P2 N1 N2 HK HM R1 R2 E.
  assert (A1 : (0 <= lo * (M - kp))%Q) by (apply Qmult_le_0_compat; lra).
  assert (A2 : (0 <= lo * (kp + M))%Q) by (apply Qmult_le_0_compat; lra).
  assert (A3 : (0 <= up * (M - kn))%Q) by (apply Qmult_le_0_compat; lra).
  assert (A4 : (0 <= up * (kn + M))%Q) by (apply Qmult_le_0_compat; lra).
  destruct HK as [HK|HK]; rewrite HK in E; lra.
Qed.

Lemma argmax_abs : forall l : list Qc, l <> [] ->
  exists m, (m < length l)%nat /\ forall i, Qcabs (nth i l 0) <= Qcabs (nth m l 0).
Proof.
  induction l as [|x t IH]; intros Hne; [contradiction|].
  destruct t as [|z t'].
  - exists 0%nat. split; [cbn; lia|]. intros [|[|i]]; cbn [nth]; try apply Qcle_refl; apply Qcabs_nonneg.
  - destruct (IH ltac:(discriminate)) as (m & Hm & Hmax).
    destruct (Qclt_le_dec (Qcabs (nth m (z :: t') 0)) (Qcabs x)) as [Lt|Le].
    + exists 0%nat. split; [cbn; lia|]. intros [|i]; cbn [nth]; [apply Qcle_refl|].
      eapply Qcle_trans; [apply (Hmax i)|apply Qclt_le_weak; exact Lt].
    + exists (S m). split; [cbn in *; lia|]. intros [|i].
      * exact Le.
      * apply (Hmax i).
Qed.

Lemma dd_maxnorm (rows : list qrow) (k : list Qc) :
  rows <> [] -> sat 0 rows k -> Forall dom rows ->
  exists m r, nth_error rows m = Some r /\ (forall i, Qcabs (nth i k 0) <= Qcabs (nth m k 0)) /\
              (s_mid r - s_low r - s_up r) * Qcabs (nth m k 0) <= Qcabs (s_rhs r).
Proof.
  intros Hne Hs Hd. pose proof (sat_length _ _ _ Hs) as Hl.
  assert (Hk : k <> []) by (intros ->; destruct rows; [contradiction|discriminate]).
  destruct (argmax_abs k Hk) as (m & Hm & Hmax).
  destruct (nth_error rows m) as [r|] eqn:Er; [|apply nth_error_None in Er; lia].
  exists m, r. split; [exact Er|]. split; [exact Hmax|].
  pose proof (sat_nth' rows 0 k Hs m r Er) as E.
  assert (Dr : dom r). { rewrite Forall_forall in Hd. apply Hd. eapply nth_error_In; exact Er. }
  destruct Dr as (D1 & D2 & D3).
  set (kp := match m with O => 0 | S i' => nth i' k 0 end) in *.
  assert (Hp : Qcabs kp <= Qcabs (nth m k 0)).
  { subst kp. destruct m; [|apply Hmax]. rewrite (Qcabs_pos 0) by apply Qcle_refl. apply Qcabs_nonneg. }
  pose proof (Hmax (S m)) as Hn'.
  apply Qcabs_Qcle_condition in Hp. apply Qcabs_Qcle_condition in Hn'.
  pose proof (Qcabs_nonneg (nth m k 0)) as HM.
  assert (HK : nth m k 0 = Qcabs (nth m k 0) \/ nth m k 0 = - Qcabs (nth m k 0)).
  { apply (Qcabs_case (nth m k 0)); intros; [left; reflexivity|right; ring]. }
  pose proof (Qcle_Qcabs (s_rhs r)) as R2.
  pose proof (Qcle_Qcabs (- s_rhs r)) as R1. rewrite Qcabs_opp in R1.
  generalize dependent (Qcabs (s_rhs r)). intros aR R2 R1.
  generalize dependent (Qcabs (nth m k 0)). intros M _ Hp Hn' HM HK.
  generalize dependent (nth m k 0). intros km E HK.
  generalize dependent (nth (S m) k 0). intros kn Hn' E.
  destruct Hp as [Hp1 Hp2]. destruct Hn' as [Hn1 Hn2].
  assert (HKq : (this km == this M \/ this km == - this M)%Q).
  { destruct HK as [-> | ->]; [left; reflexivity|right]. cbn [this Qcopp Q2Qc]. rewrite Qred_correct. reflexivity. }
  assert (Eq : (this (s_low r) * this kp + this (s_mid r) * this km + this (s_up r) * this kn == this (s_rhs r))%Q).
  { rewrite <- E. cbn [this Qcplus Qcmult Q2Qc]. rewrite !Qred_correct. reflexivity. }
  qo.
  eapply dd_row_Q with (kp := this kp) (kn := this kn) (km := this km) (rh := this (s_rhs r)); try eassumption; lra.
Qed.

Lemma Some_eq {A} (a b : A) : Some a = Some b -> a = b.
Proof. intros H. injection H. auto. Qed.

Section CyclicPositivity.
  Variable n : nat.
  Variable h : nat -> Qc.
  Variable y : nat -> Qc.
  Hypothesis Hn : (4 <= n)%nat.
  Hypothesis Hh : forall i, (i + 1 < n)%nat -> 0 < h i.

  Lemma dom_int_row i : (1 <= i)%nat -> (i + 1 < n)%nat -> dom (int_row h y i).
  Proof.
    intros H1 H2. unfold dom, int_row. cbn [s_low s_mid s_up]. rewrite c2_Qc.
    pose proof (Hh i H2) as P1. pose proof (Hh (i - 1)%nat ltac:(lia)) as P2.
    qo. repeat split; lra.
  Qed.

  Lemma dom_set_rhs f rows : forall i0, Forall dom rows -> Forall dom (set_rhs f i0 rows).
  Proof.
    induction rows as [|r t IH]; intros i0 Hd; [constructor|].
    apply Forall_cons_iff in Hd as [Dr Dt]. cbn [set_rhs]. constructor; [|apply IH; exact Dt].
    exact Dr.
  Qed.

  Lemma dom_ints : Forall dom (map (int_row h y) (seq 1 (n - 3))).
  Proof.
    apply Forall_forall. intros r Hr. apply in_map_iff in Hr as (i & <- & Hi). apply in_seq in Hi.
    apply dom_int_row; lia.
  Qed.

  Lemma dom_prow0 : dom (prow0 n h y).
  Proof.
    unfold dom, prow0. cbn [s_low s_mid s_up]. rewrite c2_Qc.
    pose proof (Hh 0%nat ltac:(lia)) as P0. pose proof (Hh (n - 2)%nat ltac:(lia)) as P1.
    qo. repeat split; lra.
  Qed.

  Lemma dom_rows1 : Forall dom (rows1 n h y).
  Proof. unfold rows1. constructor; [apply dom_prow0|apply dom_ints]. Qed.

  Lemma pivots_dom_list rows : Forall dom rows -> pivots_ok (forward1 NumQc rows).
  Proof.
    intros Hd. destruct rows as [|r t]; [constructor|].
    apply Forall_cons_iff in Hd as [(D1 & D2 & D3) Dt]. cbn [forward1].
    assert (Lt : s_up r < s_mid r) by (qo; lra).
    constructor.
    - apply Qc_pos_neq. qo. lra.
    - apply (fwd1_pivots t (s_mid r) (s_up r) (s_rhs r) D2 Lt Dt).
  Qed.

  Lemma pivots_rows1 : pivots_ok (forward1 NumQc (rows1 n h y)).
  Proof. apply pivots_dom_list, dom_rows1. Qed.
  Lemma pivots_rows2 : pivots_ok (forward1 NumQc (rows2 n h y)).
  Proof. apply pivots_dom_list. rewrite (rows2_is_set_rhs n h y Hn). apply dom_set_rhs, dom_rows1. Qed.

  (* every entry of the second solution has modulus below one *)
  Lemma k2_small i : Qcabs (nth i (k2 n h y) 0) < 1.
  Proof.
    pose proof (sat2 n h y Hn pivots_rows2) as Hs.
    assert (Hd : Forall dom (rows2 n h y)) by (rewrite (rows2_is_set_rhs n h y Hn); apply dom_set_rhs, dom_rows1).
    assert (Hne : rows2 n h y <> []) by (rewrite (rows2_is_set_rhs n h y Hn); unfold rows1; discriminate).
    destruct (dd_maxnorm _ _ Hne Hs Hd) as (m & r & Er & Hmax & Hb).
    eapply Qcle_lt_trans; [apply Hmax|]. clear i Hmax.
    assert (Hm : (m < n - 2)%nat).
    { rewrite <- (rows2_length n h y Hn). apply nth_error_Some. rewrite Er. discriminate. }
    rewrite (rows2_is_set_rhs n h y Hn) in Er.
    pose proof (Qcabs_nonneg (nth m (k2 n h y) 0)) as HM.
    generalize dependent (Qcabs (nth m (k2 n h y) 0)). intros M Hb HM.
    pose proof (Hh 0%nat ltac:(lia)) as P0. pose proof (Hh (n - 2)%nat ltac:(lia)) as P1.
    pose proof (Hh (n - 3)%nat ltac:(lia)) as P2. pose proof (Hh (n - 4)%nat ltac:(lia)) as P3.
    destruct m as [|m'].
    - (* first row *)
      unfold rows1 in Er. cbn [set_rhs nth_error] in Er. apply Some_eq in Er. subst r. unfold prow0 in Hb. cbn [s_low s_mid s_up s_rhs] in Hb.
      unfold rhs2_of in Hb. cbn [Nat.eqb] in Hb. rewrite Qcabs_opp, (Qcabs_pos (h 0%nat)) in Hb by (apply Qclt_le_weak; exact P0).
      rewrite c2_Qc in Hb. qo.
      assert (A : (0 <= this M * this (h (n - 2)%nat))%Q) by (apply Qmult_le_0_compat; lra).
      assert (B : (0 <= this M * this (h 0%nat))%Q) by (apply Qmult_le_0_compat; lra).
      destruct (Qlt_le_dec (this M) 1) as [G|G]; [exact G|exfalso].
      assert (C : (this (h 0%nat) <= this M * this (h 0%nat))%Q).
      { setoid_replace (this (h 0%nat)) with (1 * this (h 0%nat))%Q at 1 by ring.
        apply Qmult_le_compat_r; lra. }
      lra.
    - assert (Ei : nth_error (rows1 n h y) (S m') = Some (int_row h y (S m'))) by (apply (rows1_nth_int n h y Hn); lia).
      rewrite (nth_error_set_rhs n Hn (rhs2_of n h) (rows1 n h y) 0 (S m') _ Ei) in Er. apply Some_eq in Er. subst r.
      unfold int_row in Hb. cbn [s_low s_mid s_up s_rhs] in Hb. replace (S m' - 1)%nat with m' in Hb by lia.
      unfold rhs2_of in Hb. cbn [Nat.add] in Hb. change (S m' =? 0)%nat with false in Hb. cbv iota in Hb.
      pose proof (Hh (S m') ltac:(lia)) as Q1. pose proof (Hh m' ltac:(lia)) as Q2.
      rewrite c2_Qc in Hb.
      destruct (Nat.eqb_spec (S m') (n - 3)) as [El|Nl].
      + rewrite Qcabs_opp, (Qcabs_pos (h (n - 4)%nat)) in Hb by (apply Qclt_le_weak; exact P3).
        replace m' with (n - 4)%nat in * by lia. rewrite El in *.
        qo.
        assert (A : (0 <= this M * this (h (n - 3)%nat))%Q) by (apply Qmult_le_0_compat; lra).
        destruct (Qlt_le_dec (this M) 1) as [G|G]; [exact G|exfalso].
        assert (C : (this (h (n - 4)%nat) <= this M * this (h (n - 4)%nat))%Q).
        { setoid_replace (this (h (n - 4)%nat)) with (1 * this (h (n - 4)%nat))%Q at 1 by ring.
          apply Qmult_le_compat_r; lra. }
        assert (D : (0 < this M * this (h (n - 3)%nat))%Q) by (apply Qmult_lt_0_compat; lra).
        lra.
      + rewrite (Qcabs_pos 0) in Hb by apply Qcle_refl.
        qo.
        destruct (Qlt_le_dec (this M) 1) as [G|G]; [exact G|exfalso].
        assert (D : (0 < (this (h (S m')) + this (h m')) * this M)%Q) by (apply Qmult_lt_0_compat; lra).
        lra.
  Qed.

  Theorem den_pos : 0 < den n h y.
  Proof.
    unfold den. pose proof (k2_small 0%nat) as A. pose proof (k2_small (n - 3)%nat) as B.
    pose proof (Hh (n - 2)%nat ltac:(lia)) as P1. pose proof (Hh (n - 3)%nat ltac:(lia)) as P2.
    assert (A' : Qcabs (nth 0 (k2 n h y) 0) <= 1) by (apply Qclt_le_weak; exact A).
    assert (B' : Qcabs (nth (n - 3) (k2 n h y) 0) <= 1) by (apply Qclt_le_weak; exact B).
    apply Qcabs_Qcle_condition in A'. apply Qcabs_Qcle_condition in B'.
    generalize dependent (nth 0 (k2 n h y) 0). intros a _ [A1 A2].
    generalize dependent (nth (n - 3) (k2 n h y) 0). intros b _ [B1 B2].
    rewrite c2_Qc. qo.
    assert (X : (0 <= (this a + 1) * this (h (n - 3)%nat))%Q) by (apply Qmult_le_0_compat; lra).
    assert (Y : (0 <= (this b + 1) * this (h (n - 2)%nat))%Q) by (apply Qmult_le_0_compat; lra).
    lra.
  Qed.

  Theorem den_neq : den n h y <> 0.
  Proof. apply Qc_pos_neq, den_pos. Qed.

  (* The periodic slopes satisfy the full cyclic system, unconditionally. *)
  Theorem periodic_cyclic_system :
    let K := K n h y in
    (h 0%nat * K (n - 2)%nat + c2 NumQc * (h (n - 2)%nat + h 0%nat) * K 0%nat + h (n - 2)%nat * K 1%nat = rhs0 n h y) /\
    (forall i, (1 <= i)%nat -> (i <= n - 3)%nat ->
       h i * K (i - 1)%nat + c2 NumQc * (h i + h (i - 1)%nat) * K i + h (i - 1)%nat * K (i + 1)%nat =
       rhs_interior NumQc (h i) (h (i - 1)%nat) (y (i - 1)%nat) (y i) (y (i + 1)%nat)) /\
    (h (n - 2)%nat * K (n - 3)%nat + c2 NumQc * (h (n - 2)%nat + h (n - 3)%nat) * K (n - 2)%nat + h (n - 3)%nat * K (n - 1)%nat = rhs_last n h y) /\
    K (n - 1)%nat = K 0%nat.
  Proof.
    cbv zeta. repeat split.
    - apply (cyc_wrap n h y Hn pivots_rows1 pivots_rows2).
    - intros i H1 H2. apply (cyc_interior n h y Hn pivots_rows1 pivots_rows2 i H1 H2).
    - apply (cyc_last n h y Hn pivots_rows1 pivots_rows2 den_neq).
    - apply (K_last n h y Hn pivots_rows1 pivots_rows2).
  Qed.
End CyclicPositivity.

(* ------------------------------------------------------------------ *)
(* Uniqueness: the cyclic system determines the slopes                  *)

Lemma argmax_fun (f : nat -> Qc) : forall N, (0 < N)%nat ->
  exists m, (m < N)%nat /\ forall i, (i < N)%nat -> Qcabs (f i) <= Qcabs (f m).
Proof.
  induction N as [|N IH]; intros HN; [lia|].
  destruct N as [|N'].
  - exists 0%nat. split; [lia|]. intros i Hi. replace i with 0%nat by lia. apply Qcle_refl.
  - destruct (IH ltac:(lia)) as (m & Hm & Hmax).
    destruct (Qclt_le_dec (Qcabs (f m)) (Qcabs (f (S N')))) as [Lt|Le].
    + exists (S N'). split; [lia|]. intros i Hi. destruct (Nat.eq_dec i (S N')) as [->|Ne]; [apply Qcle_refl|].
      eapply Qcle_trans; [apply Hmax; lia|apply Qclt_le_weak; exact Lt].
    + exists m. split; [lia|]. intros i Hi. destruct (Nat.eq_dec i (S N')) as [->|Ne]; [exact Le|apply Hmax; lia].
Qed.

(* a homogeneous strictly dominant row forces the maximal entry to vanish *)
Lemma dd_row_zero (lo mi up kp km kn : Qc) :
  0 <= lo -> 0 <= up -> lo + up < mi ->
  Qcabs kp <= Qcabs km -> Qcabs kn <= Qcabs km ->
  lo * kp + mi * km + up * kn = 0 -> km = 0.
Proof.
  intros H1 H2 H3 Hp Hn' E.
  apply Qcabs_Qcle_condition in Hp. apply Qcabs_Qcle_condition in Hn'.
  pose proof (Qcabs_nonneg km) as HM.
  assert (HK : km = Qcabs km \/ km = - Qcabs km).
  { apply (Qcabs_case km); intros; [left; reflexivity|right; ring]. }
  assert (Z : Qcabs km = 0).
  { generalize dependent (Qcabs km). intros M Hp Hn' HM HK.
    destruct Hp as [Hp1 Hp2]. destruct Hn' as [Hn1 Hn2].
    assert (HKq : (this km == this M \/ this km == - this M)%Q).
    { destruct HK as [-> | ->]; [left; reflexivity|right]. cbn [this Qcopp Q2Qc]. rewrite Qred_correct. reflexivity. }
    assert (Eq : (this lo * this kp + this mi * this km + this up * this kn == 0)%Q).
    { change 0%Q with (this 0). rewrite <- E. cbn [this Qcplus Qcmult Q2Qc]. rewrite !Qred_correct. reflexivity. }
    assert (B : ((this mi - this lo - this up) * this M <= 0)%Q).
    { qo. eapply dd_row_Q with (kp := this kp) (kn := this kn) (km := this km) (rh := 0%Q); try eassumption; lra. }
    apply Qc_is_canon. change (this 0) with 0%Q. qo.
    destruct (Qlt_le_dec 0 (this M)) as [G|G]; [exfalso|lra].
    assert (D : (0 < (this mi - this lo - this up) * this M)%Q) by (apply Qmult_lt_0_compat; lra).
    lra. }
  apply Qcabs_null. exact Z.
Qed.

Section CyclicUnique.
  Variable n : nat.
  Variable h : nat -> Qc.
  Variable y : nat -> Qc.
  Hypothesis Hn : (4 <= n)%nat.
  Hypothesis Hh : forall i, (i + 1 < n)%nat -> 0 < h i.

  Definition cyclic_sys (k : nat -> Qc) : Prop :=
    (h 0%nat * k (n - 2)%nat + c2 NumQc * (h (n - 2)%nat + h 0%nat) * k 0%nat + h (n - 2)%nat * k 1%nat = rhs0 n h y) /\
    (forall i, (1 <= i)%nat -> (i <= n - 3)%nat ->
       h i * k (i - 1)%nat + c2 NumQc * (h i + h (i - 1)%nat) * k i + h (i - 1)%nat * k (i + 1)%nat =
       rhs_interior NumQc (h i) (h (i - 1)%nat) (y (i - 1)%nat) (y i) (y (i + 1)%nat)) /\
    (h (n - 2)%nat * k (n - 3)%nat + c2 NumQc * (h (n - 2)%nat + h (n - 3)%nat) * k (n - 2)%nat + h (n - 3)%nat * k (n - 1)%nat = rhs_last n h y) /\
    k (n - 1)%nat = k 0%nat.

  Theorem cyclic_sys_solved : cyclic_sys (K n h y).
  Proof. apply (periodic_cyclic_system n h y Hn Hh). Qed.

  Theorem cyclic_sys_unique k1' k2' : cyclic_sys k1' -> cyclic_sys k2' ->
    forall i, (i < n)%nat -> k1' i = k2' i.
  Proof.
    intros (A1 & A2 & A3 & A4) (B1 & B2 & B3 & B4).
    set (D := fun i => k1' i - k2' i).
    assert (Z : forall i, (i < n - 1)%nat -> D i = 0).
    { destruct (argmax_fun D (n - 1) ltac:(lia)) as (m & Hm & Hmax).
      assert (Dm : D m = 0).
      { destruct (Nat.eq_dec m 0) as [->|N0].
        - apply (dd_row_zero (h 0%nat) (c2 NumQc * (h (n - 2)%nat + h 0%nat)) (h (n - 2)%nat) (D (n - 2)%nat) (D 0%nat) (D 1%nat)).
          + apply Qclt_le_weak, Hh; lia.
          + apply Qclt_le_weak, Hh; lia.
          + pose proof (Hh 0%nat ltac:(lia)). pose proof (Hh (n - 2)%nat ltac:(lia)). rewrite c2_Qc. qo. lra.
          + apply Hmax; lia.
          + apply Hmax; lia.
          + unfold D. 
            replace (h 0%nat * (k1' (n - 2)%nat - k2' (n - 2)%nat) + c2 NumQc * (h (n - 2)%nat + h 0%nat) * (k1' 0%nat - k2' 0%nat) + h (n - 2)%nat * (k1' 1%nat - k2' 1%nat))
              with ((h 0%nat * k1' (n - 2)%nat + c2 NumQc * (h (n - 2)%nat + h 0%nat) * k1' 0%nat + h (n - 2)%nat * k1' 1%nat)
                    - (h 0%nat * k2' (n - 2)%nat + c2 NumQc * (h (n - 2)%nat + h 0%nat) * k2' 0%nat + h (n - 2)%nat * k2' 1%nat)) by ring.
            rewrite A1, B1. ring.
        - destruct (Nat.eq_dec m (n - 2)) as [->|N2].
          + assert (Dl : D (n - 1)%nat = D 0%nat) by (unfold D; rewrite A4, B4; reflexivity).
            apply (dd_row_zero (h (n - 2)%nat) (c2 NumQc * (h (n - 2)%nat + h (n - 3)%nat)) (h (n - 3)%nat) (D (n - 3)%nat) (D (n - 2)%nat) (D (n - 1)%nat)).
            * apply Qclt_le_weak, Hh; lia.
            * apply Qclt_le_weak, Hh; lia.
            * pose proof (Hh (n - 3)%nat ltac:(lia)). pose proof (Hh (n - 2)%nat ltac:(lia)). rewrite c2_Qc. qo. lra.
            * apply Hmax; lia.
            * rewrite Dl. apply Hmax; lia.
            * unfold D.
              replace (h (n - 2)%nat * (k1' (n - 3)%nat - k2' (n - 3)%nat) + c2 NumQc * (h (n - 2)%nat + h (n - 3)%nat) * (k1' (n - 2)%nat - k2' (n - 2)%nat) + h (n - 3)%nat * (k1' (n - 1)%nat - k2' (n - 1)%nat))
                with ((h (n - 2)%nat * k1' (n - 3)%nat + c2 NumQc * (h (n - 2)%nat + h (n - 3)%nat) * k1' (n - 2)%nat + h (n - 3)%nat * k1' (n - 1)%nat)
                      - (h (n - 2)%nat * k2' (n - 3)%nat + c2 NumQc * (h (n - 2)%nat + h (n - 3)%nat) * k2' (n - 2)%nat + h (n - 3)%nat * k2' (n - 1)%nat)) by ring.
              rewrite A3, B3. ring.
          + apply (dd_row_zero (h m) (c2 NumQc * (h m + h (m - 1)%nat)) (h (m - 1)%nat) (D (m - 1)%nat) (D m) (D (m + 1)%nat)).
            * apply Qclt_le_weak, Hh; lia.
            * apply Qclt_le_weak, Hh; lia.
            * pose proof (Hh m ltac:(lia)). pose proof (Hh (m - 1)%nat ltac:(lia)). rewrite c2_Qc. qo. lra.
            * apply Hmax; lia.
            * apply Hmax; lia.
            * unfold D.
              replace (h m * (k1' (m - 1)%nat - k2' (m - 1)%nat) + c2 NumQc * (h m + h (m - 1)%nat) * (k1' m - k2' m) + h (m - 1)%nat * (k1' (m + 1)%nat - k2' (m + 1)%nat))
                with ((h m * k1' (m - 1)%nat + c2 NumQc * (h m + h (m - 1)%nat) * k1' m + h (m - 1)%nat * k1' (m + 1)%nat)
                      - (h m * k2' (m - 1)%nat + c2 NumQc * (h m + h (m - 1)%nat) * k2' m + h (m - 1)%nat * k2' (m + 1)%nat)) by ring.
              rewrite (A2 m), (B2 m) by lia. ring. }
      intros i Hi. specialize (Hmax i Hi). rewrite Dm in Hmax.
      apply Qcabs_null. apply Qcle_antisym; [exact Hmax|apply Qcabs_nonneg]. }
    intros i Hi. destruct (Nat.eq_dec i (n - 1)) as [->|Ne].
    - rewrite A4, B4. specialize (Z 0%nat ltac:(lia)). unfold D in Z.
      replace (k1' 0%nat) with (k1' 0%nat - k2' 0%nat + k2' 0%nat) by ring. rewrite Z. ring.
    - specialize (Z i ltac:(lia)). unfold D in Z.
      replace (k1' i) with (k1' i - k2' i + k2' i) by ring. rewrite Z. ring.
  Qed.
End CyclicUnique.
