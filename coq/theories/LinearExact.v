(* LinearExact.v -- C01 / C04 over exact rationals (Qc: canonical rationals, Leibniz equality).
   Every finite f64/f32 is a rational, so these theorems quantify over a superset of all the
   inputs the implementation can see.                                                        *)

From Coq Require Import List Bool Arith ZArith QArith Qcanon Lia Lqa Psatz.
From NI Require Import Num Base Lookup Linear LookupProofs LinearProofs.
Import ListNotations.
Local Open Scope nat_scope.

(* transfer of order statements from Qc to Q *)
Ltac qc2q :=
  unfold Qcle, Qclt in *;
  cbn [this Qcplus Qcmult Qcminus Qcopp Qcdiv Qcinv Q2Qc] in *;
  rewrite ?Qred_correct in *.

Lemma Qc_this_eq (a b : Qc) : (this a == this b)%Q -> a = b.
Proof. apply Qc_is_canon. Qed.

Lemma Qc_neq_this (a b : Qc) : (this a < this b)%Q -> (b - a)%Qc <> 0%Qc.
Proof.
  intros H C. apply (f_equal this) in C. 
  assert (E : (this (b - a)%Qc == this b - this a)%Q).
  { cbn [this Qcplus Qcminus Qcopp Q2Qc]. rewrite !Qred_correct. reflexivity. }
  rewrite C in E. cbn in E. lra.
Qed.

Section CalcFrac.
  Local Open Scope Qc_scope.

  Lemma calc_frac_Qc x1 y1 x2 y2 x : x2 - x1 <> 0 ->
    calc_frac NumQc (x1, y1) (x2, y2) x = y1 + (y2 - y1) * (x - x1) / (x2 - x1).
  Proof. intros H. unfold calc_frac. cbn. field. exact H. Qed.

  Lemma calc_frac_left x1 y1 x2 y2 : calc_frac NumQc (x1, y1) (x2, y2) x1 = y1.
  Proof. unfold calc_frac. cbn. unfold Qcdiv. ring. Qed.

  Lemma calc_frac_right x1 y1 x2 y2 : x2 - x1 <> 0 ->
    calc_frac NumQc (x1, y1) (x2, y2) x2 = y2.
  Proof. intros H. unfold calc_frac. cbn. field. exact H. Qed.

  (* affine data is reproduced: y = a*x + b at both points gives a*x + b everywhere *)
  Lemma calc_frac_affine a b x1 x2 x : x2 - x1 <> 0 ->
    calc_frac NumQc (x1, a * x1 + b) (x2, a * x2 + b) x = a * x + b.
  Proof. intros H. unfold calc_frac. cbn. field. exact H. Qed.

  (* the value stays in the interval spanned by the two bracketing values *)
  Lemma calc_frac_hull x1 y1 x2 y2 x :
    x1 < x2 -> x1 <= x -> x <= x2 ->
    (y1 <= y2 -> y1 <= calc_frac NumQc (x1, y1) (x2, y2) x /\ calc_frac NumQc (x1, y1) (x2, y2) x <= y2) /\
    (y2 <= y1 -> y2 <= calc_frac NumQc (x1, y1) (x2, y2) x /\ calc_frac NumQc (x1, y1) (x2, y2) x <= y1).
  Proof.
    intros H12 H1 H2.
    assert (Hne : x2 - x1 <> 0) by (apply Qc_neq_this; exact H12).
    rewrite (calc_frac_Qc _ _ _ _ _ Hne).
    qc2q.
    set (X1 := this x1) in *. set (X2 := this x2) in *. set (X := this x) in *.
    set (Y1 := this y1) in *. set (Y2 := this y2) in *.
    assert (Hs : (0 < X2 - X1)%Q) by lra.
    set (t := ((X - X1) / (X2 - X1))%Q).
    assert (Ht0 : (0 <= t)%Q).
    { unfold t. apply Qle_shift_div_l; [exact Hs|]. lra. }
    assert (Ht1 : (t <= 1)%Q).
    { unfold t. apply Qle_shift_div_r; [exact Hs|]. lra. }
    assert (E : (Y1 + (Y2 - Y1) * (X - X1) * / (X2 - X1) == Y1 + (Y2 - Y1) * t)%Q).
    { unfold t. field. lra. }
    change (X2 + - X1)%Q with (X2 - X1)%Q. change (Y2 + - Y1)%Q with (Y2 - Y1)%Q.
    change (X + - X1)%Q with (X - X1)%Q.
    rewrite E. split; intros Hy; split; nra.
  Qed.

End CalcFrac.

Lemma map2_ext {A B C} (f g : A -> B -> C) l1 l2 :
  (forall a b, f a b = g a b) -> map2 f l1 l2 = map2 g l1 l2.
Proof.
  intros H. revert l2; induction l1 as [|a t IH]; intros [|b t2]; cbn; auto.
  rewrite H, IH. reflexivity.
Qed.

Notation nq ax i := (nth i ax 0%Qc).

(* C01: in range, the lookup picks ONE bracket [x_i, x_i+1] containing the query and every
   lane is calc_frac through the two bracketing points *)
Theorem linear_bracket_Qc (ax : list Qc) (data : list (list Qc)) (x : Qc) :
  StrictIncQc ax -> 2 <= length ax -> (Z.of_nat (length ax) <= two64)%Z ->
  length data = length ax ->
  (nq ax 0 <= x)%Qc -> (x <= nq ax (length ax - 1))%Qc ->
  exists i, i + 1 < length ax /\
    (nq ax i < nq ax (i + 1))%Qc /\ (nq ax i <= x)%Qc /\ (x <= nq ax (i + 1))%Qc /\
    linear_interp NumQc false ax data x =
    Ok (map2 (fun v1 v2 => calc_frac NumQc (nq ax i, v1) (nq ax (i + 1), v2) x)
             (nth i data []) (nth (i + 1) data [])).
Proof.
  intros HS Hn H64 Hlen Hlo Hhi.
  destruct (lower_index_Qc ax x HS Hn H64) as (i & Hi & Hb & H1 & H2 & H3).
  exists i. split; [lia|].
  split; [unfold Qclt; apply StrictIncQc_lt; auto; lia|].
  assert (Hguard : range_guard NumQc false ax x = Ok tt).
  { rewrite (range_guard_spec NumQc 0%Qc) by lia. cbn [orb]. unfold in_closed_range. cbn.
    unfold qc_leb. unfold Qcle in *.
    apply Qle_bool_iff in Hlo, Hhi. rewrite Hlo, Hhi. reflexivity. }
  assert (Hbr : (nq ax i <= x)%Qc /\ (x <= nq ax (i + 1))%Qc).
  { unfold Qcle in *.
    destruct (Qlt_le_dec (this (nq ax 0)) (this x)) as [L|L].
    - destruct (Qlt_le_dec (this x) (this (nq ax (length ax - 1)))) as [R|R].
      + destruct (H3 L R). split; [assumption|apply Qlt_le_weak; assumption].
      + rewrite (H2 L R). replace (length ax - 2 + 1) with (length ax - 1) by lia.
        split; [|exact Hhi].
        apply Qlt_le_weak. eapply Qlt_le_trans; [|exact R].
        apply StrictIncQc_lt; auto; lia.
    - rewrite (H1 L). cbn [Nat.add]. split; [exact Hlo|].
      eapply Qle_trans; [exact L|]. apply Qlt_le_weak. apply StrictIncQc_lt; auto; lia. }
  destruct Hbr as [B1 B2]. split; [exact B1|]. split; [exact B2|].
  apply (linear_reads_bracket NumQc 0%Qc false ax data x i Hguard Hi); lia.
Qed.

(* ... which is the straight line through the two bracketing points *)
Theorem linear_exact_line (ax : list Qc) (data : list (list Qc)) (x : Qc) :
  StrictIncQc ax -> 2 <= length ax -> (Z.of_nat (length ax) <= two64)%Z ->
  length data = length ax ->
  (nq ax 0 <= x)%Qc -> (x <= nq ax (length ax - 1))%Qc ->
  exists i, i + 1 < length ax /\
    (nq ax i <= x)%Qc /\ (x <= nq ax (i + 1))%Qc /\
    linear_interp NumQc false ax data x =
    Ok (map2 (fun v1 v2 => (v1 + (v2 - v1) * (x - nq ax i) / (nq ax (i + 1) - nq ax i))%Qc)
             (nth i data []) (nth (i + 1) data [])).
Proof.
  intros HS Hn H64 Hlen Hlo Hhi.
  destruct (linear_bracket_Qc ax data x HS Hn H64 Hlen Hlo Hhi) as (i & Hi & Hlt & B1 & B2 & E).
  exists i. repeat split; auto. rewrite E. f_equal. apply map2_ext. intros a b.
  apply calc_frac_Qc. apply Qc_neq_this. exact Hlt.
Qed.

(* ... and never leaves the interval spanned by the two bracketing values, lane by lane *)
Theorem linear_within_hull (ax : list Qc) (data : list (list Qc)) (x : Qc) :
  StrictIncQc ax -> 2 <= length ax -> (Z.of_nat (length ax) <= two64)%Z ->
  length data = length ax ->
  (nq ax 0 <= x)%Qc -> (x <= nq ax (length ax - 1))%Qc ->
  exists i r, i + 1 < length ax /\ linear_interp NumQc false ax data x = Ok r /\
    forall k, k < length (nth i data []) -> k < length (nth (i + 1) data []) ->
      let y1 := nth k (nth i data []) 0%Qc in
      let y2 := nth k (nth (i + 1) data []) 0%Qc in
      let v := nth k r 0%Qc in
      ((y1 <= y2)%Qc -> (y1 <= v)%Qc /\ (v <= y2)%Qc) /\
      ((y2 <= y1)%Qc -> (y2 <= v)%Qc /\ (v <= y1)%Qc).
Proof.
  intros HS Hn H64 Hlen Hlo Hhi.
  destruct (linear_bracket_Qc ax data x HS Hn H64 Hlen Hlo Hhi) as (i & Hi & Hlt & B1 & B2 & E).
  eexists i, _. split; [exact Hi|]. split; [exact E|].
  intros k K1 K2. cbv zeta.
  rewrite (nth_map2 _ _ _ k 0%Qc 0%Qc 0%Qc K1 K2).
  apply calc_frac_hull; assumption.
Qed.

Lemma map2_left_end (c e : Qc) r1 r2 : length r1 = length r2 ->
  map2 (fun v1 v2 => (v1 + (v2 - v1) * (c - c) / e)%Qc) r1 r2 = r1.
Proof.
  revert r2; induction r1 as [|a t IH]; intros [|b t2] Hl; cbn in *; try lia; auto.
  rewrite IH by lia. f_equal. unfold Qcdiv. ring.
Qed.

Lemma map2_right_end (e : Qc) r1 r2 : e <> 0%Qc -> length r1 = length r2 ->
  map2 (fun v1 v2 => (v1 + (v2 - v1) * e / e)%Qc) r1 r2 = r2.
Proof.
  intros He. revert r2; induction r1 as [|a t IH]; intros [|b t2] Hl; cbn in *; try lia; auto.
  rewrite IH by lia. f_equal. field. exact He.
Qed.

(* every data point is reproduced at its axis value, whichever adjacent bracket is chosen *)
Theorem linear_hits_knots (ax : list Qc) (data : list (list Qc)) (j : nat) :
  StrictIncQc ax -> 2 <= length ax -> (Z.of_nat (length ax) <= two64)%Z ->
  length data = length ax -> j < length ax ->
  (forall k, k < length data -> length (nth k data []) = length (nth 0 data [])) ->
  linear_interp NumQc false ax data (nq ax j) = Ok (nth j data []).
Proof.
  intros HS Hn H64 Hlen Hj Hrows.
  assert (Hlo : (nq ax 0 <= nq ax j)%Qc).
  { unfold Qcle. destruct (Nat.eq_dec j 0) as [->|]; [apply Qle_refl|].
    apply Qlt_le_weak. apply StrictIncQc_lt; auto; lia. }
  assert (Hhi : (nq ax j <= nq ax (length ax - 1))%Qc).
  { unfold Qcle. destruct (Nat.eq_dec j (length ax - 1)) as [->|]; [apply Qle_refl|].
    apply Qlt_le_weak. apply StrictIncQc_lt; auto; lia. }
  destruct (linear_exact_line ax data (nq ax j) HS Hn H64 Hlen Hlo Hhi) as (i & Hi & B1 & B2 & E).
  rewrite E. f_equal.
  assert (Hij : j = i \/ j = i + 1).
  { unfold Qcle in *.
    destruct (Nat.lt_trichotomy j i) as [L|[L|L]]; [|left; exact L|].
    - exfalso. pose proof (StrictIncQc_lt ax j i HS L ltac:(lia)). lra.
    - destruct (Nat.eq_dec j (i + 1)) as [->|Hne]; [right; reflexivity|].
      exfalso. pose proof (StrictIncQc_lt ax (i + 1) j HS ltac:(lia) Hj). lra. }
  assert (Hne : (nq ax (i + 1) - nq ax i)%Qc <> 0%Qc).
  { apply Qc_neq_this. apply StrictIncQc_lt; auto; lia. }
  assert (Hl : length (nth i data []) = length (nth (i + 1) data [])).
  { rewrite (Hrows i), (Hrows (i + 1)) by lia. reflexivity. }
  destruct Hij as [->| ->].
  - apply map2_left_end. exact Hl.
  - apply map2_right_end; [exact Hne|exact Hl].
Qed.

(* the default axis 0,1,..,n-1 is strictly increasing *)
Lemma default_axis_nth n i : i < n -> nq (default_axis NumQc n) i = Q2Qc (Z.of_nat i # 1).
Proof.
  intros H. unfold default_axis.
  rewrite (nth_indep _ 0%Qc (of_nat NumQc 0)) by (rewrite map_length, seq_length; exact H).
  rewrite map_nth, seq_nth by exact H. reflexivity.
Qed.

Theorem default_axis_strict_inc n : StrictIncQc (default_axis NumQc n).
Proof.
  split; [apply Forall_forall; intros; exact I|].
  unfold default_axis. rewrite map_length, seq_length. intros i Hi.
  fold (default_axis NumQc n). rewrite !default_axis_nth by lia.
  cbn. apply qc_ltb_lt. cbn [this Q2Qc]. rewrite !Qred_correct.
  unfold Qlt. cbn. lia.
Qed.

(* ------------------------------------------------------------------ *)
(* C04: bilinear                                                        *)

Section BilinearLane.
  Local Open Scope Qc_scope.

  Lemma bilinear_lane_blend x1 x2 y1 y2 x y z11 z12 z21 z22 :
    x2 - x1 <> 0 -> y2 - y1 <> 0 ->
    bilinear_lane NumQc x1 x2 y1 y2 x y z11 z12 z21 z22 =
    let u := (x - x1) / (x2 - x1) in
    let v := (y - y1) / (y2 - y1) in
    (1 - u) * (1 - v) * z11 + (1 - u) * v * z12 + u * (1 - v) * z21 + u * v * z22.
  Proof. intros Hx Hy. unfold bilinear_lane, calc_frac. cbn. field. split; assumption. Qed.

  Lemma bilinear_lane_node11 x1 x2 y1 y2 z11 z12 z21 z22 :
    bilinear_lane NumQc x1 x2 y1 y2 x1 y1 z11 z12 z21 z22 = z11.
  Proof. unfold bilinear_lane, calc_frac. cbn. unfold Qcdiv. ring. Qed.
  Lemma bilinear_lane_node12 x1 x2 y1 y2 z11 z12 z21 z22 : x2 - x1 <> 0 -> y2 - y1 <> 0 ->
    bilinear_lane NumQc x1 x2 y1 y2 x1 y2 z11 z12 z21 z22 = z12.
  Proof. intros. unfold bilinear_lane, calc_frac. cbn. field. split; assumption. Qed.
  Lemma bilinear_lane_node21 x1 x2 y1 y2 z11 z12 z21 z22 : x2 - x1 <> 0 -> y2 - y1 <> 0 ->
    bilinear_lane NumQc x1 x2 y1 y2 x2 y1 z11 z12 z21 z22 = z21.
  Proof. intros. unfold bilinear_lane, calc_frac. cbn. field. split; assumption. Qed.
  Lemma bilinear_lane_node22 x1 x2 y1 y2 z11 z12 z21 z22 : x2 - x1 <> 0 -> y2 - y1 <> 0 ->
    bilinear_lane NumQc x1 x2 y1 y2 x2 y2 z11 z12 z21 z22 = z22.
  Proof. intros. unfold bilinear_lane, calc_frac. cbn. field. split; assumption. Qed.

  (* on a grid line the result is the 1-D linear interpolation along that line *)
  Lemma bilinear_lane_gridline_y1 x1 x2 y1 y2 x z11 z12 z21 z22 :
    bilinear_lane NumQc x1 x2 y1 y2 x y1 z11 z12 z21 z22 = calc_frac NumQc (x1, z11) (x2, z21) x.
  Proof. unfold bilinear_lane, calc_frac. cbn. unfold Qcdiv. ring. Qed.
  Lemma bilinear_lane_gridline_x1 x1 x2 y1 y2 y z11 z12 z21 z22 :
    bilinear_lane NumQc x1 x2 y1 y2 x1 y z11 z12 z21 z22 = calc_frac NumQc (y1, z11) (y2, z12) y.
  Proof. unfold bilinear_lane, calc_frac. cbn. unfold Qcdiv. ring. Qed.

  (* transposing the data while swapping axes and coordinates gives the same value *)
  Lemma bilinear_lane_transpose x1 x2 y1 y2 x y z11 z12 z21 z22 :
    x2 - x1 <> 0 -> y2 - y1 <> 0 ->
    bilinear_lane NumQc x1 x2 y1 y2 x y z11 z12 z21 z22 =
    bilinear_lane NumQc y1 y2 x1 x2 y x z11 z21 z12 z22.
  Proof. intros Hx Hy. unfold bilinear_lane, calc_frac. cbn. field. split; assumption. Qed.

  (* bilinear functions are reproduced (C16) *)
  Lemma bilinear_lane_reproduces a b c e x1 x2 y1 y2 x y :
    x2 - x1 <> 0 -> y2 - y1 <> 0 ->
    let f := fun X Y => a + b * X + c * Y + e * X * Y in
    bilinear_lane NumQc x1 x2 y1 y2 x y (f x1 y1) (f x1 y2) (f x2 y1) (f x2 y2) = f x y.
  Proof. intros Hx Hy. cbv zeta. unfold bilinear_lane, calc_frac. cbn. field. split; assumption. Qed.

End BilinearLane.

Lemma in_closed_range_Qc ax x :
  (nq ax 0 <= x)%Qc -> (x <= nq ax (length ax - 1))%Qc -> in_closed_range NumQc 0%Qc ax x = true.
Proof.
  intros A B. unfold in_closed_range. cbn. unfold qc_leb, Qcle in *.
  apply Qle_bool_iff in A, B. rewrite A, B. reflexivity.
Qed.

(* the bracket chosen by the lookup for an in-range query *)
Lemma bracket_Qc ax x :
  StrictIncQc ax -> 2 <= length ax -> (Z.of_nat (length ax) <= two64)%Z ->
  (nq ax 0 <= x)%Qc -> (x <= nq ax (length ax - 1))%Qc ->
  exists i, lower_index NumQc ax x = Ok i /\ i + 1 < length ax /\
    (nq ax i < nq ax (i + 1))%Qc /\ (nq ax i <= x)%Qc /\ (x <= nq ax (i + 1))%Qc.
Proof.
  intros HS Hn H64 Hlo Hhi.
  destruct (lower_index_Qc ax x HS Hn H64) as (i & Hi & Hb & H1 & H2 & H3).
  exists i. split; [exact Hi|]. split; [lia|].
  split; [unfold Qclt; apply StrictIncQc_lt; auto; lia|].
  unfold Qcle in *.
  destruct (Qlt_le_dec (this (nq ax 0)) (this x)) as [L|L].
  - destruct (Qlt_le_dec (this x) (this (nq ax (length ax - 1)))) as [R|R].
    + destruct (H3 L R). split; [assumption|apply Qlt_le_weak; assumption].
    + rewrite (H2 L R). replace (length ax - 2 + 1) with (length ax - 1) by lia.
      split; [|exact Hhi].
      apply Qlt_le_weak. eapply Qlt_le_trans; [|exact R].
      apply StrictIncQc_lt; auto; lia.
  - rewrite (H1 L). cbn [Nat.add]. split; [exact Hlo|].
    eapply Qle_trans; [exact L|]. apply Qlt_le_weak. apply StrictIncQc_lt; auto; lia.
Qed.

(* C04 main theorem: inside the grid the result is, for every lane, the bilinear blend of
   the four values of ONE cell [x_i,x_i+1] x [y_j,y_j+1] that contains the query *)
Theorem bilinear_is_blend (xax yax : list Qc) (data : list (list (list Qc))) (x y : Qc) :
  StrictIncQc xax -> StrictIncQc yax -> 2 <= length xax -> 2 <= length yax ->
  (Z.of_nat (length xax) <= two64)%Z -> (Z.of_nat (length yax) <= two64)%Z ->
  length data = length xax ->
  (forall i, i < length data -> length (nth i data []) = length yax) ->
  (nq xax 0 <= x)%Qc -> (x <= nq xax (length xax - 1))%Qc ->
  (nq yax 0 <= y)%Qc -> (y <= nq yax (length yax - 1))%Qc ->
  exists i j, i + 1 < length xax /\ j + 1 < length yax /\
    (nq xax i <= x)%Qc /\ (x <= nq xax (i + 1))%Qc /\
    (nq yax j <= y)%Qc /\ (y <= nq yax (j + 1))%Qc /\
    bilinear_interp NumQc false xax yax data x y =
    Ok (map4 (fun z11 z12 z21 z22 =>
                let u := ((x - nq xax i) / (nq xax (i + 1) - nq xax i))%Qc in
                let v := ((y - nq yax j) / (nq yax (j + 1) - nq yax j))%Qc in
                ((1 - u) * (1 - v) * z11 + (1 - u) * v * z12 + u * (1 - v) * z21 + u * v * z22)%Qc)
             (cell data i j) (cell data i (j + 1)) (cell data (i + 1) j) (cell data (i + 1) (j + 1))).
Proof.
  intros HSx HSy Hnx Hny H64x H64y Hlen Hrows Hx0 Hx1 Hy0 Hy1.
  destruct (bracket_Qc xax x HSx Hnx H64x Hx0 Hx1) as (i & Li & Bi & Si & Xi1 & Xi2).
  destruct (bracket_Qc yax y HSy Hny H64y Hy0 Hy1) as (j & Lj & Bj & Sj & Yj1 & Yj2).
  exists i, j. repeat (split; [assumption|]).
  assert (Gx : range_guard NumQc false xax x = Ok tt).
  { rewrite (range_guard_spec NumQc 0%Qc) by lia. rewrite in_closed_range_Qc by assumption. reflexivity. }
  assert (Gy : range_guard NumQc false yax y = Ok tt).
  { rewrite (range_guard_spec NumQc 0%Qc) by lia. rewrite in_closed_range_Qc by assumption. reflexivity. }
  rewrite (bilinear_reads_four_corners NumQc 0%Qc false xax yax data x y i j Gx Gy Li Lj Bi Bj Hlen Hrows).
  f_equal.
  assert (Hxne : (nq xax (i + 1) - nq xax i)%Qc <> 0%Qc) by (apply Qc_neq_this; exact Si).
  assert (Hyne : (nq yax (j + 1) - nq yax j)%Qc <> 0%Qc) by (apply Qc_neq_this; exact Sj).
  generalize (cell data i j) (cell data i (j + 1)) (cell data (i + 1) j) (cell data (i + 1) (j + 1)).
  induction l as [|a ta IH]; intros [|b tb] [|c tc] [|e te]; cbn [map4]; auto.
  rewrite IH. f_equal. apply bilinear_lane_blend; assumption.
Qed.
