(* History.v -- C17: query operations are pure functions of (interpolator, operation); the
   state after any history is the initial state.  [answer] stands for any of the entry points
   (including out-of-range queries and calls with a rejected buffer, whose answer is the panic). *)

From Coq Require Import List Bool Arith Permutation.
From NI Require Import Base.
Import ListNotations.

Section History.
  Context {S Op Ans : Type}.
  Variable answer : S -> Op -> Ans.

  (* &self methods: the state is returned unchanged *)
  Definition step (s : S) (o : Op) : S * Ans := (s, answer s o).

  Fixpoint run_history (s : S) (ops : list Op) : S * list Ans :=
    match ops with
    | [] => (s, [])
    | o :: rest =>
        let '(s1, a) := step s o in
        let '(s2, r) := run_history s1 rest in
        (s2, a :: r)
    end.

  Lemma run_history_spec s ops : run_history s ops = (s, map (answer s) ops).
  Proof.
    induction ops as [|o rest IH]; [reflexivity|]. cbn [run_history step map]. rewrite IH. reflexivity.
  Qed.

  Theorem history_state_invariant s ops : fst (run_history s ops) = s.
  Proof. rewrite run_history_spec. reflexivity. Qed.

  Theorem answers_depend_on_query_only s ops i o :
    nth_error ops i = Some o -> nth_error (snd (run_history s ops)) i = Some (answer s o).
  Proof. intros H. rewrite run_history_spec. cbn [snd]. apply map_nth_error. exact H. Qed.

  Theorem permutation_invariant s ops ops' :
    Permutation ops ops' ->
    Permutation (combine ops (snd (run_history s ops))) (combine ops' (snd (run_history s ops'))).
  Proof.
    intros H. rewrite !run_history_spec. cbn [snd].
    assert (E : forall l, combine l (map (answer s) l) = map (fun o => (o, answer s o)) l).
    { induction l as [|a l IH]; [reflexivity|]. cbn. rewrite IH. reflexivity. }
    rewrite !E. apply Permutation_map. exact H.
  Qed.

End History.
