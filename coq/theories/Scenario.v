(* Scenario.v -- "build once, answer a list of queries": the executable entry points the
   correspondence check compares with the crate's Interp1D / Interp2D API.               *)

From Coq Require Import List Bool Arith ZArith QArith Qcanon Lia.
From NI Require Import Num Base Mono Lookup Linear Interp Spline.
Import ListNotations.

Record scen1 (T : Type) : Type := mkScen1 {
  s_strat : strat1 T; s_ext : bool; s_ax : option (list T);
  s_rows : list (list T); s_trail : list nat; s_queries : list T }.
Arguments mkScen1 {T} _ _ _ _ _ _.
Arguments s_strat {T} _. Arguments s_ext {T} _. Arguments s_ax {T} _.
Arguments s_rows {T} _. Arguments s_trail {T} _. Arguments s_queries {T} _.

Record scen2 (T : Type) : Type := mkScen2 {
  t_ext : bool; t_xax : option (list T); t_yax : option (list T);
  t_cells : list (list (list T)); t_queries : list (T * T) }.
Arguments mkScen2 {T} _ _ _ _ _.
Arguments t_ext {T} _. Arguments t_xax {T} _. Arguments t_yax {T} _.
Arguments t_cells {T} _. Arguments t_queries {T} _.

Inductive rout (T : Type) : Type := ROk (v : list T) | ROob | RPanic | RFuel.
Arguments ROk {T} v. Arguments ROob {T}. Arguments RPanic {T}. Arguments RFuel {T}.
Inductive bout : Type := BBuilt | BErr (k : bkind) | BPanic | BFuel.

Definition to_rout {T} (o : outcome (list T)) : rout T :=
  match o with
  | Ok v => ROk v | ErrOOB => ROob | Panic => RPanic | OutOfFuel => RFuel
  | ErrBuild _ => RPanic
  end.
Definition to_bout {A} (o : outcome A) : bout :=
  match o with
  | Ok _ => BBuilt | ErrBuild k => BErr k | Panic => BPanic | OutOfFuel => BFuel
  | ErrOOB => BPanic
  end.

Section Run.
  Context {T : Type} (N : Num T).

  Definition axis_or_default (a : option (list T)) (n : nat) : list T :=
    match a with Some l => l | None => default_axis N n end.

  Definition run1 (s : scen1 T) : bout * list (rout T) :=
    let n := length (s_rows s) in
    let ax := axis_or_default (s_ax s) n in
    match s_strat s with
    | SLinear =>
        match build1d_checks N 2 ax n with
        | Ok _ => (BBuilt, map (fun q => to_rout (linear_interp N (s_ext s) ax (s_rows s) q)) (s_queries s))
        | e => (to_bout e, [])
        end
    | SSpline b =>
        match (_ <- build1d_checks N 3 ax n ;; spline_build N b (s_ext s) ax (s_rows s) (s_trail s)) with
        | Ok sp => (BBuilt, map (fun q => to_rout (spline_interp N sp ax (s_rows s) q)) (s_queries s))
        | e => (to_bout e, [])
        end
    end.

  Definition run2 (s : scen2 T) : bout * list (rout T) :=
    let nx := length (t_cells s) in
    let ny := length (nth 0 (t_cells s) []) in
    let xax := axis_or_default (t_xax s) nx in
    let yax := axis_or_default (t_yax s) ny in
    match build2d_checks N 2 xax yax nx ny with
    | Ok _ => (BBuilt, map (fun q => to_rout (bilinear_interp N (t_ext s) xax yax (t_cells s) (fst q) (snd q)))
                           (t_queries s))
    | e => (to_bout e, [])
    end.

  (* comparison with the implementation's outputs *)
  Variable same : T -> T -> bool.

  Definition rout_eqb (a b : rout T) : bool :=
    match a, b with
    | ROk u, ROk v => list_eqb same u v
    | ROob, ROob | RPanic, RPanic => true
    | _, _ => false
    end.
  Definition bout_eqb (a b : bout) : bool :=
    match a, b with
    | BBuilt, BBuilt | BPanic, BPanic => true
    | BErr j, BErr k => bkind_eqb j k
    | _, _ => false
    end.
  Definition result_eqb (a b : bout * list (rout T)) : bool :=
    bout_eqb (fst a) (fst b) && list_eqb rout_eqb (snd a) (snd b).

  Definition scen1_ok (c : scen1 T * (bout * list (rout T))) : bool :=
    result_eqb (run1 (fst c)) (snd c).
  Definition scen2_ok (c : scen2 T * (bout * list (rout T))) : bool :=
    result_eqb (run2 (fst c)) (snd c).

End Run.

(* representations are canonical, so structural comparison through Qeq_bool is exact *)
Definition xq_same (a b : xq) : bool :=
  match a, b with
  | XFin x, XFin y => qc_eqb x y
  | XPInf, XPInf | XNInf, XNInf | XNaN, XNaN => true
  | _, _ => false
  end.

Definition scen1_ok_qc := scen1_ok NumQc qc_eqb.
Definition scen2_ok_qc := scen2_ok NumQc qc_eqb.
Definition scen1_ok_xq := scen1_ok NumXQ xq_same.
Definition scen2_ok_xq := scen2_ok NumXQ xq_same.

(* build once, return the spline coefficients as well (hook verif_coefficients) *)
Section RunSpline.
  Context {T : Type} (N : Num T).
  Variable same : T -> T -> bool.

  Definition run1_coeffs (s : scen1 T) : bout * list (rout T) * (list (list T) * list (list T)) :=
    let n := length (s_rows s) in
    let ax := axis_or_default N (s_ax s) n in
    match s_strat s with
    | SSpline b =>
        match (_ <- build1d_checks N 3 ax n ;; spline_build N b (s_ext s) ax (s_rows s) (s_trail s)) with
        | Ok sp => (BBuilt, map (fun q => to_rout (spline_interp N sp ax (s_rows s) q)) (s_queries s),
                    (sp_a sp, sp_b sp))
        | e => (to_bout e, [], ([], []))
        end
    | SLinear => (run1 N s, ([], []))
    end.

  Definition spline_ok (c : scen1 T * (bout * list (rout T)) * (list (list T) * list (list T))) : bool :=
    let '(s, expected, (ea, eb)) := c in
    let '(res, (a, b)) := run1_coeffs s in
    result_eqb same res expected &&
    list_eqb (list_eqb same) a ea && list_eqb (list_eqb same) b eb.
End RunSpline.

Definition spline_ok_qc := spline_ok NumQc qc_eqb.
