(* SplineAlgebra.v -- the algebra of one spline piece and of the rows of the system, on
   rational scalars (no lists): the code's symmetric Hermite form IS a cubic in u = x - x_i,
   and each row of the tridiagonal system IS a smoothness / boundary condition.           *)

From Coq Require Import List Bool Arith ZArith QArith Qcanon Lia.
From NI Require Import Num Base Interp Spline.
Import ListNotations.
Local Open Scope Qc_scope.

Lemma c0_Qc : c0 NumQc = 0. Proof. apply Qc_is_canon. reflexivity. Qed.
Lemma c1_Qc : c1 NumQc = 1. Proof. apply Qc_is_canon. reflexivity. Qed.
Lemma c2_Qc : c2 NumQc = 1 + 1. Proof. apply Qc_is_canon. reflexivity. Qed.
Lemma c3_Qc : c3 NumQc = 1 + 1 + 1. Proof. apply Qc_is_canon. reflexivity. Qed.
Lemma pow2_Qc x : pow NumQc x (c2 NumQc) = x * x.
Proof.
  unfold pow, NumQc, qc_pow, c2, of_nat.
  assert (E : this (Q2Qc (Z.of_nat 2 # 1)) = (2 # 1)%Q) by (vm_compute; reflexivity).
  rewrite E. cbn [Qden Qnum Z.leb Z.compare Z.to_nat].
  change (Pos.to_nat 2) with 2%nat. cbn [Qcpower]. ring.
Qed.

(* coefficients of piece i from the slopes (code: a = k h - dy ; b = dy - k_right h) *)
Definition ca (k h dy : Qc) : Qc := k * h - dy.
Definition cb (kr h dy : Qc) : Qc := dy - kr * h.

(* monomial coefficients of the piece in u = x - x_left *)
Definition m2 (a b h : Qc) : Qc := (b - (1+1) * a) / (h * h).
Definition m3 (a b h : Qc) : Qc := (a - b) / (h * h * h).

Definition piece (y k a b h u : Qc) : Qc := y + k * u + m2 a b h * (u * u) + m3 a b h * (u * u * u).
Definition piece_d1 (k a b h u : Qc) : Qc := k + (1+1) * m2 a b h * u + (1+1+1) * m3 a b h * (u * u).
Definition piece_d2 (a b h u : Qc) : Qc := (1+1) * m2 a b h + (1+1+1) * (1+1) * m3 a b h * u.
Definition piece_d3 (a b h : Qc) : Qc := (1+1+1) * (1+1) * m3 a b h.

(* "one cubic polynomial per interval": the evaluation expression of the code equals the
   monomial cubic for EVERY argument (inside or outside the interval) *)
Theorem eval_is_piece (yl yr k kr h u : Qc) : h <> 0 ->
  let dy := yr - yl in
  let a := ca k h dy in
  let b := cb kr h dy in
  spline_eval_lane NumQc (u / h) yl yr a b = piece yl k a b h u.
Proof.
  intros Hh. cbv zeta. unfold spline_eval_lane, piece, m2, m3, ca, cb. rewrite c1_Qc. cbn.
  field. exact Hh.
Qed.

(* interpolation and C1 hold for ANY slopes *)
Lemma piece_at_0 y k a b h : piece y k a b h 0 = y.
Proof. unfold piece. ring. Qed.
Lemma piece_at_h yl yr k kr h : h <> 0 ->
  piece yl k (ca k h (yr - yl)) (cb kr h (yr - yl)) h h = yr.
Proof. intros. unfold piece, m2, m3, ca, cb. field. assumption. Qed.
Lemma piece_d1_at_0 k a b h : piece_d1 k a b h 0 = k.
Proof. unfold piece_d1. ring. Qed.
Lemma piece_d1_at_h yl yr k kr h : h <> 0 ->
  piece_d1 k (ca k h (yr - yl)) (cb kr h (yr - yl)) h h = kr.
Proof. intros. unfold piece_d1, m2, m3, ca, cb. field. assumption. Qed.

(* derivatives are the formal derivatives of the monomial form *)
Lemma piece_d1_is_derivative y k a b h u v :
  piece y k a b h v - piece y k a b h u =
  (v - u) * (piece_d1 k a b h u + (v - u) * (m2 a b h + m3 a b h * ((1+1+1) * u + (v - u)))).
Proof. unfold piece, piece_d1. ring. Qed.

(* C2 at an interior knot <=> the interior row of the system *)
Theorem c2_iff_row (yl ym yr kl km kr hl hr : Qc) : hl <> 0 -> hr <> 0 ->
  let al := ca kl hl (ym - yl) in let bl := cb km hl (ym - yl) in
  let ar := ca km hr (yr - ym) in let br := cb kr hr (yr - ym) in
  (piece_d2 al bl hl hl = piece_d2 ar br hr 0 <->
   hr * kl + c2 NumQc * (hr + hl) * km + hl * kr =
   rhs_interior NumQc hr hl yl ym yr).
Proof.
  intros Hl Hr. cbv zeta. unfold rhs_interior. rewrite c2_Qc, c3_Qc. cbn [NumQc add sub mul div].
  unfold piece_d2, m2, m3, ca, cb.
  split; intros E.
  - assert (G : (hr * kl + (1 + 1) * (hr + hl) * km + hl * kr) -
                (1 + 1 + 1) * (hr * (ym - yl) / hl + hl * (yr - ym) / hr) =
                (hl * hr / (1+1)) *
                (((1 + 1) * ((ym - yl - km * hl - (1 + 1) * (kl * hl - (ym - yl))) / (hl * hl)) +
                  (1 + 1 + 1) * (1 + 1) * ((kl * hl - (ym - yl) - (ym - yl - km * hl)) / (hl * hl * hl)) * hl) -
                 ((1 + 1) * ((yr - ym - kr * hr - (1 + 1) * (km * hr - (yr - ym))) / (hr * hr)) +
                  (1 + 1 + 1) * (1 + 1) * ((km * hr - (yr - ym) - (yr - ym - kr * hr)) / (hr * hr * hr)) * 0))).
    { field. repeat split; auto. intros C. apply (f_equal this) in C. discriminate C. }
    rewrite E in G.
    replace (hr * kl + (1 + 1) * (hr + hl) * km + hl * kr)
      with ((hr * kl + (1 + 1) * (hr + hl) * km + hl * kr) -
            (1 + 1 + 1) * (hr * (ym - yl) / hl + hl * (yr - ym) / hr) +
            (1 + 1 + 1) * (hr * (ym - yl) / hl + hl * (yr - ym) / hr)) by ring.
    rewrite G. ring.
  - assert (G : ((1 + 1) * ((ym - yl - km * hl - (1 + 1) * (kl * hl - (ym - yl))) / (hl * hl)) +
                  (1 + 1 + 1) * (1 + 1) * ((kl * hl - (ym - yl) - (ym - yl - km * hl)) / (hl * hl * hl)) * hl) -
                 ((1 + 1) * ((yr - ym - kr * hr - (1 + 1) * (km * hr - (yr - ym))) / (hr * hr)) +
                  (1 + 1 + 1) * (1 + 1) * ((km * hr - (yr - ym) - (yr - ym - kr * hr)) / (hr * hr * hr)) * 0) =
                 ((1+1) / (hl * hr)) *
                 ((hr * kl + (1 + 1) * (hr + hl) * km + hl * kr) -
                  (1 + 1 + 1) * (hr * (ym - yl) / hl + hl * (yr - ym) / hr))).
    { field. repeat split; auto. }
    rewrite E in G.
    match goal with |- ?L = ?R => replace L with (L - R + R) by ring end.
    rewrite G. ring.
Qed.

Lemma eq_iff_sub_SA (a b c e : Qc) : a - b = c - e -> (a = b <-> c = e).
Proof.
  intros H. split; intros E.
  - assert (c - e = 0) by (rewrite <- H, E; ring).
    replace c with (c - e + e) by ring. rewrite H0. ring.
  - assert (a - b = 0) by (rewrite H, E; ring).
    replace a with (a - b + b) by ring. rewrite H0. ring.
Qed.

(* ---------------- boundary rows ---------------- *)

Lemma two_neq_0 : (1 + 1 : Qc) <> 0.
Proof. intros C. apply (f_equal this) in C. discriminate C. Qed.
Lemma three_neq_0 : (1 + 1 + 1 : Qc) <> 0.
Proof. intros C. apply (f_equal this) in C. discriminate C. Qed.

(* left SecondDeriv(v) row  <=>  S''(x_0) = v *)
Theorem bc_left_second_iff (y0 y1 k0 k1 h0 v : Qc) : h0 <> 0 ->
  (c2 NumQc * h0 * k0 + h0 * k1 = c3 NumQc * (y1 - y0) - v * pow NumQc h0 (c2 NumQc) / c2 NumQc <->
   piece_d2 (ca k0 h0 (y1 - y0)) (cb k1 h0 (y1 - y0)) h0 0 = v).
Proof.
  intros Hh. rewrite pow2_Qc, c2_Qc, c3_Qc. unfold piece_d2, m2, m3, ca, cb.
  pose proof two_neq_0 as H2.
  split; intros E.
  - assert (K : k1 = ((1+1+1) * (y1 - y0) - v * (h0 * h0) / (1+1) - (1+1) * h0 * k0) / h0).
    { rewrite <- E. field. exact Hh. }
    rewrite K. field. split; assumption.
  - assert (K : k1 = ((1+1+1) * (y1 - y0) - v * (h0 * h0) / (1+1) - (1+1) * h0 * k0) / h0).
    { rewrite <- E. field. split; assumption. }
    rewrite K. field. split; assumption.
Qed.

(* right SecondDeriv(v) row  <=>  S''(x_n-1) = v *)
Theorem bc_right_second_iff (yl yr kl kr h v : Qc) : h <> 0 ->
  (h * kl + c2 NumQc * h * kr = c3 NumQc * (yr - yl) + v * pow NumQc h (c2 NumQc) / c2 NumQc <->
   piece_d2 (ca kl h (yr - yl)) (cb kr h (yr - yl)) h h = v).
Proof.
  intros Hh. rewrite pow2_Qc, c2_Qc, c3_Qc. unfold piece_d2, m2, m3, ca, cb.
  pose proof two_neq_0 as H2.
  split; intros E.
  - assert (K : kl = ((1+1+1) * (yr - yl) + v * (h * h) / (1+1) - (1+1) * h * kr) / h).
    { rewrite <- E. field. exact Hh. }
    rewrite K. field. split; assumption.
  - assert (K : kl = ((1+1+1) * (yr - yl) + v * (h * h) / (1+1) - (1+1) * h * kr) / h).
    { rewrite <- E. field. split; assumption. }
    rewrite K. field. split; assumption.
Qed.

(* left NotAKnot row together with the interior row at knot 1  =>  the third derivative is
   continuous at knot 1 (pieces 0 and 1 are the same cubic) *)
Theorem bc_left_nak (y0 y1 y2 k0 k1 k2 h0 h1 : Qc) : h0 <> 0 -> h1 <> 0 -> h0 + h1 <> 0 ->
  let d := h0 + h1 in
  let tmp1 := (h0 + c2 NumQc * d) * h1 in
  h1 * k0 + d * k1 =
    (tmp1 * (y1 - y0) / h0 + pow NumQc h0 (c2 NumQc) * (y2 - y1) / h1) / d ->
  h1 * k0 + c2 NumQc * (h1 + h0) * k1 + h0 * k2 = rhs_interior NumQc h1 h0 y0 y1 y2 ->
  m3 (ca k0 h0 (y1 - y0)) (cb k1 h0 (y1 - y0)) h0 = m3 (ca k1 h1 (y2 - y1)) (cb k2 h1 (y2 - y1)) h1.
Proof.
  intros H0 H1 Hd. cbv zeta. unfold rhs_interior. rewrite pow2_Qc, c2_Qc, c3_Qc.
  cbn [NumQc add sub mul div]. intros E0 E1. unfold m3, ca, cb.
  assert (K0 : k0 = (((h0 + (1 + 1) * (h0 + h1)) * h1 * (y1 - y0) / h0 + h0 * h0 * (y2 - y1) / h1) / (h0 + h1)
                     - (h0 + h1) * k1) / h1).
  { rewrite <- E0. field. exact H1. }
  assert (K2 : k2 = ((1 + 1 + 1) * (h1 * (y1 - y0) / h0 + h0 * (y2 - y1) / h1)
                     - h1 * k0 - (1 + 1) * (h1 + h0) * k1) / h0).
  { rewrite <- E1. field. exact H0. }
  rewrite K2, K0. field. repeat split; assumption.
Qed.

(* right NotAKnot row (matrix entry dx_2 on the diagonal) together with the interior row at
   knot n-2  =>  the third derivative is continuous at knot n-2 *)
Theorem bc_right_nak (y3 y2 y1 k3 k2 k1 hl hr : Qc) : hl <> 0 -> hr <> 0 -> hl + hr <> 0 ->
  (* y3,y2,y1 = y_(n-3), y_(n-2), y_(n-1);  hl = dx_2 = x_(n-2)-x_(n-3), hr = dx_1 *)
  let d := hl + hr in
  let tmp1 := (c2 NumQc * d + hr) * hl in
  d * k2 + hl * k1 =
    (pow NumQc hr (c2 NumQc) * (y2 - y3) / hl + tmp1 * (y1 - y2) / hr) / d ->
  hr * k3 + c2 NumQc * (hr + hl) * k2 + hl * k1 = rhs_interior NumQc hr hl y3 y2 y1 ->
  m3 (ca k3 hl (y2 - y3)) (cb k2 hl (y2 - y3)) hl = m3 (ca k2 hr (y1 - y2)) (cb k1 hr (y1 - y2)) hr.
Proof.
  intros Hl Hr Hd. cbv zeta. unfold rhs_interior. rewrite pow2_Qc, c2_Qc, c3_Qc.
  cbn [NumQc add sub mul div]. intros E0 E1. unfold m3, ca, cb.
  assert (K1 : k1 = ((hr * hr * (y2 - y3) / hl + ((1 + 1) * (hl + hr) + hr) * hl * (y1 - y2) / hr) / (hl + hr)
                     - (hl + hr) * k2) / hl).
  { rewrite <- E0. field. exact Hl. }
  assert (K3 : k3 = ((1 + 1 + 1) * (hr * (y2 - y3) / hl + hl * (y1 - y2) / hr)
                     - (1 + 1) * (hr + hl) * k2 - hl * k1) / hr).
  { rewrite <- E1. field. exact Hr. }
  rewrite K3, K1. field. repeat split; assumption.
Qed.

(* the 3-point NotAKnot/NotAKnot system: both pieces are one parabola *)
Theorem nak3_parabola (y0 y1 y2 k0 k1 k2 h0 h1 : Qc) : h0 <> 0 -> h1 <> 0 -> h0 + h1 <> 0 ->
  let s0 := (y1 - y0) / h0 in
  let s1 := (y2 - y1) / h1 in
  c1 NumQc * k0 + c1 NumQc * k1 = s0 * c2 NumQc ->
  h1 * k0 + c2 NumQc * (h0 + h1) * k1 + h0 * k2 = (s1 * h0 + s0 * h1) * c3 NumQc ->
  c1 NumQc * k1 + c1 NumQc * k2 = s1 * c2 NumQc ->
  m3 (ca k0 h0 (y1 - y0)) (cb k1 h0 (y1 - y0)) h0 = 0 /\
  m3 (ca k1 h1 (y2 - y1)) (cb k2 h1 (y2 - y1)) h1 = 0.
Proof.
  intros H0 H1 Hd. cbv zeta. rewrite c1_Qc, c2_Qc, c3_Qc. intros E0 E1 E2. unfold m3, ca, cb.
  assert (K0 : k0 = (y1 - y0) / h0 * (1 + 1) - k1) by (rewrite <- E0; ring).
  assert (K2 : k2 = (y2 - y1) / h1 * (1 + 1) - k1) by (rewrite <- E2; ring).
  split.
  - rewrite K0. field. exact H0.
  - rewrite K2. field. exact H1.
Qed.

(* Periodic rows: the first (wrap-around) equation is C2 across the period *)
Theorem periodic_wrap_iff (yl y0 yr kl k0 kr hl hr : Qc) : hl <> 0 -> hr <> 0 ->
  (* yl = y_(n-2), y0 = y_0 = y_(n-1), yr = y_1; hl = dx_1 (last interval), hr = dx0 *)
  (piece_d2 (ca kl hl (y0 - yl)) (cb k0 hl (y0 - yl)) hl hl =
   piece_d2 (ca k0 hr (yr - y0)) (cb kr hr (yr - y0)) hr 0 <->
   hr * kl + c2 NumQc * (hl + hr) * k0 + hl * kr =
   ((y0 - yl) / hl * hr + (yr - y0) / hr * hl) * c3 NumQc).
Proof.
  intros Hl Hr. rewrite (c2_iff_row yl y0 yr kl k0 kr hl hr Hl Hr).
  unfold rhs_interior. rewrite c2_Qc, c3_Qc. cbn [NumQc add sub mul div].
  apply eq_iff_sub_SA. field. split; assumption.
Qed.
