(* Spline.v -- transcription of src/interp1d/strategies/cubic_spline.rs:
     calc_coefficients (310-368), solve_for_k_individual (370-403), solve_for_k (409-674),
     thomas (678-721), CubicSplineStrategy::interp_into (791-830).
   Data layout: a list of rows (index along axis 0), each row the list of all lanes.
   Scalar expressions are written once (functions on T) and lifted to rows with map2/map3,
   exactly as the Rust code lifts closures with Zip.                                     *)

From Coq Require Import List Bool Arith ZArith Lia.
From NI Require Import Num Base Lookup Linear Interp.
Import ListNotations.

Fixpoint map3 {A B C D} (f : A -> B -> C -> D) (l1 : list A) (l2 : list B) (l3 : list C) : list D :=
  match l1, l2, l3 with
  | a :: t1, b :: t2, c :: t3 => f a b c :: map3 f t1 t2 t3
  | _, _, _ => []
  end.

Section Spline.
  Context {T : Type} (N : Num T).

  Local Notation "a +! b" := (add N a b) (at level 50, left associativity).
  Local Notation "a -! b" := (sub N a b) (at level 50, left associativity).
  Local Notation "a *! b" := (mul N a b) (at level 40, left associativity).
  Local Notation "a /! b" := (div N a b) (at level 40, left associativity).

  Definition c0 : T := of_nat N 0.      (* cast(0.0) *)
  Definition c1 : T := of_nat N 1.
  Definition c2 : T := of_nat N 2.
  Definition c3 : T := of_nat N 3.

  (* one equation of the tridiagonal system, for all lanes at once *)
  Record trow : Type := mkRow { r_low : T; r_mid : T; r_up : T; r_rhs : list T }.

  (* ---------------- Thomas algorithm, lines 678-721 ---------------- *)

  (* forward sweep from row i >= 1 on: pm / pu / pr are the (already updated) mid, up, rhs
     of the previous row *)
  Fixpoint fwd (pm pu : T) (pr : list T) (rows : list trow) : list trow :=
    match rows with
    | [] => []
    | r :: t =>
        let w := r_low r /! pm in
        let mi := r_mid r -! w *! pu in
        let rh := map2 (fun a b => a -! w *! b) (r_rhs r) pr in
        mkRow (r_low r) mi (r_up r) rh :: fwd mi (r_up r) rh t
    end.

  Definition forward (rows : list trow) : list trow :=
    match rows with
    | [] => []
    | r :: t => r :: fwd (r_mid r) (r_up r) (r_rhs r) t
    end.

  (* back substitution over the swept rows *)
  Fixpoint back (rows : list trow) : list (list T) :=
    match rows with
    | [] => []
    | r :: t =>
        match t with
        | [] => [map (fun v => v /! r_mid r) (r_rhs r)]
        | _ :: _ =>
            match back t with
            | kr :: ks => map2 (fun rv kv => (rv -! r_up r *! kv) /! r_mid r) (r_rhs r) kr :: kr :: ks
            | [] => []
            end
        end
    end.

  Definition thomas (rows : list trow) : list (list T) := back (forward rows).

  (* ---------------- system assembly, lines 420-476 ---------------- *)

  Variable xs : list T.
  Variable data : list (list T).

  Definition xi (i : nat) : T := nth i xs (zero N).
  Definition yi (i : nat) : list T := nth i data [].
  Definition h (i : nat) : T := xi (i + 1) -! xi i.         (* x[i+1] - x[i] *)
  Definition lanes : nat := length (yi 0).
  Definition zeros : list T := repeat (zero N) lanes.

  (* rhs of an interior row, one lane; lines 465-470 *)
  Definition rhs_interior (dxn dxn_1 yl ym yr : T) : T :=
    c3 *! (dxn *! (ym -! yl) /! dxn_1 +! dxn_1 *! (yr -! ym) /! dxn).

  (* rows 440-451 and 456-471, for 1 <= i <= n-2 *)
  Definition interior_row (i : nat) : trow :=
    let dxn := h i in
    let dxn_1 := h (i - 1) in
    mkRow dxn (c2 *! (dxn +! dxn_1)) dxn_1
          (map3 (rhs_interior dxn dxn_1) (yi (i - 1)) (yi i) (yi (i + 1))).

  Definition interior_rows (n : nat) : list trow := map interior_row (seq 1 (n - 2)).

  (* SingleBoundary::specialize, lines 287-296 *)
  Definition specialize_single (b : single T) : single T :=
    match b with
    | SNatural => SSecondDeriv c0
    | SClamped => SFirstDeriv c0
    | _ => b
    end.

  (* left boundary row, lines 598-632 *)
  Definition left_row (b : single T) : trow :=
    let dx0 := h 0 in
    let dx1 := h 1 in
    match specialize_single b with
    | SFirstDeriv v => mkRow (zero N) c1 c0 (map (fun _ => v) (yi 0))
    | SSecondDeriv v =>
        mkRow (zero N) (c2 *! dx0) dx0
              (map2 (fun y0 y1 => c3 *! (y1 -! y0) -! v *! pow N dx0 c2 /! c2) (yi 0) (yi 1))
    | _ (* NotAKnot *) =>
        let d := xi 2 -! xi 0 in
        let tmp1 := (dx0 +! c2 *! d) *! dx1 in
        mkRow (zero N) dx1 d
              (map3 (fun y0 y1 y2 =>
                       (tmp1 *! (y1 -! y0) /! dx0 +! pow N dx0 c2 *! (y2 -! y1) /! dx1) /! d)
                    (yi 0) (yi 1) (yi 2))
    end.

  (* right boundary row, lines 633-669 (with the repaired matrix entry a_mid[len-1] = dx_2) *)
  Definition right_row (n : nat) (b : single T) : trow :=
    let dx_1 := h (n - 2) in
    let dx_2 := h (n - 3) in
    match specialize_single b with
    | SFirstDeriv v => mkRow c0 c1 (zero N) (map (fun _ => v) (yi (n - 1)))
    | SSecondDeriv v =>
        mkRow dx_1 (c2 *! dx_1) (zero N)
              (map2 (fun y_n y_n1 => c3 *! (y_n -! y_n1) +! v *! pow N dx_1 c2 /! c2)
                    (yi (n - 1)) (yi (n - 2)))
    | _ (* NotAKnot *) =>
        let d := xi (n - 1) -! xi (n - 3) in
        let tmp1 := (c2 *! d +! dx_1) *! dx_2 in
        mkRow d dx_2 (zero N)
              (map3 (fun y_1 y_2 y_3 =>
                       (pow N dx_1 c2 *! (y_2 -! y_3) /! dx_2 +! tmp1 *! (y_1 -! y_2) /! dx_1) /! d)
                    (yi (n - 1)) (yi (n - 2)) (yi (n - 3)))
    end.

  (* the 3-point NotAKnot/NotAKnot parabola, lines 569-596 *)
  Definition parabola_rows : list trow :=
    let dx0 := h 0 in
    let dx1 := h 1 in
    let slope0 := map2 (fun y1 y0 => (y1 -! y0) /! dx0) (yi 1) (yi 0) in
    let slope1 := map2 (fun y2 y1 => (y2 -! y1) /! dx1) (yi 2) (yi 1) in
    [ mkRow (zero N) c1 c1 (map (fun s0 => s0 *! c2) slope0);
      mkRow dx1 (c2 *! (dx0 +! dx1)) dx0
            (map2 (fun s1 s0 => (s1 *! dx0 +! s0 *! dx1) *! c3) slope1 slope0);
      mkRow c1 c1 (zero N) (map (fun s1 => s1 *! c2) slope1) ].

  Definition is_nak (b : single T) : bool := match b with SNotAKnot => true | _ => false end.

  (* the system for a Mixed { left, right } boundary *)
  Definition mixed_rows (n : nat) (l r : single T) : list trow :=
    if (n =? 3) && is_nak l && is_nak r then parabola_rows
    else left_row l :: interior_rows n ++ [right_row n r].

  (* rows differ somewhere: `y0 != y_1` on arrays (any lane unequal; NaN is unequal) *)
  Definition rows_differ (r1 r2 : list T) : bool :=
    existsb (fun p => negb (eqb N (fst p) (snd p))) (combine r1 r2).

  (* Periodic with 3 points, lines 480-496: every knot gets the same slope *)
  Definition periodic3_k : list (list T) :=
    let dx0 := h 0 in
    let dx1 := h 1 in
    let slope0 := map2 (fun y1 y0 => (y1 -! y0) /! dx0) (yi 1) (yi 0) in
    let slope1 := map2 (fun y2 y1 => (y2 -! y1) /! dx1) (yi 2) (yi 1) in
    let k := map2 (fun s0 s1 => (s0 /! dx0 +! s1 /! dx1) /! (c1 /! dx0 +! c1 /! dx1)) slope0 slope1 in
    [k; k; k].

  (* Periodic with n >= 4 points, lines 498-565: condensed cyclic system *)
  Definition periodic_k (n : nat) : list (list T) :=
    let dx0 := h 0 in
    let dx_1 := h (n - 2) in
    let dx_2 := h (n - 3) in
    let dx_3 := h (n - 4) in
    let slope0 := map2 (fun y1 y0 => (y1 -! y0) /! dx0) (yi 1) (yi 0) in
    let slope_1 := map2 (fun a b => (a -! b) /! dx_1) (yi (n - 1)) (yi (n - 2)) in
    let slope_2 := map2 (fun a b => (a -! b) /! dx_2) (yi (n - 2)) (yi (n - 3)) in
    let rhs0 := map2 (fun s_1 s0 => (s_1 *! dx0 +! s0 *! dx_1) *! c3) slope_1 slope0 in
    let rhs_last := map2 (fun s_2 s_1 => (s_2 *! dx_1 +! s_1 *! dx_2) *! c3) slope_2 slope_1 in
    (* condensed matrix: rows 0 .. n-3 *)
    let row0 := mkRow (zero N) (c2 *! (dx_1 +! dx0)) dx_1 rhs0 in
    let mid_rows := map interior_row (seq 1 (n - 3)) in
    let rows1 := row0 :: mid_rows in
    let rows2 :=
      map (fun ir =>
             let '(i, r) := ir in
             mkRow (r_low r) (r_mid r) (r_up r)
                   (if i =? 0 then map (fun _ => neg N dx0) zeros
                    else if i =? n - 3 then map (fun _ => neg N dx_3) zeros
                    else zeros))
          (combine (seq 0 (n - 2)) rows1) in
    let k1 := thomas rows1 in
    let k2 := thomas rows2 in
    let k1_0 := nth 0 k1 [] in
    let k1_l := nth (n - 3) k1 [] in
    let k2_0 := nth 0 k2 [] in
    let k2_l := nth (n - 3) k2 [] in
    let num := map3 (fun r a b => r -! a *! dx_2 -! b *! dx_1) rhs_last k1_0 k1_l in
    let den := map2 (fun a b => a *! dx_2 +! b *! dx_1 +! c2 *! (dx_1 +! dx_2)) k2_0 k2_l in
    let k_m1 := map2 (fun a b => a /! b) num den in
    let khead := map2 (fun r1 r2 => map3 (fun a km b => a +! km *! b) r1 k_m1 r2) k1 k2 in
    khead ++ [k_m1] ++ [nth 0 khead []].

  (* InternalBoundary after From<RowBoundary> and specialize, lines 255-285 *)
  Inductive ibound : Type := IPeriodic | IMixed (l r : single T).

  Definition ibound_of_row (b : rowbc T) : ibound :=
    match b with
    | RNotAKnot => IMixed SNotAKnot SNotAKnot
    | RNatural => IMixed SNatural SNatural
    | RClamped => IMixed SClamped SClamped
    | RMixed l r => IMixed l r
    end.

  (* solve_for_k, lines 409-674 *)
  Definition solve_for_k (b : ibound) : outcome (list (list T)) :=
    let n := length data in
    if n <? 3 then Panic else                      (* x[2] / data.index_axis(.., 2) *)
    if negb (length xs =? n) then Panic else
    match b with
    | IPeriodic =>
        if rows_differ (yi 0) (yi (n - 1)) then ErrBuild ValueError
        else if n =? 3 then Ok periodic3_k
        else Ok (periodic_k n)
    | IMixed l r => Ok (thomas (mixed_rows n l r))
    end.

  (* coefficients a, b from the slopes, lines 350-367 *)
  Definition coeff_a (i : nat) (k : list (list T)) : list T :=
    map3 (fun kk y yr => kk *! h i -! (yr -! y)) (nth i k []) (yi i) (yi (i + 1)).
  Definition coeff_b (i : nat) (k : list (list T)) : list T :=
    map3 (fun kr y yr => (yr -! y) -! kr *! h i) (nth (i + 1) k []) (yi i) (yi (i + 1)).

End Spline.

Arguments mkRow {T} r_low r_mid r_up r_rhs.
Arguments r_low {T} t. Arguments r_mid {T} t. Arguments r_up {T} t. Arguments r_rhs {T} t.
Arguments IPeriodic {T}. Arguments IMixed {T} l r.

Section SplineBuild.
  Context {T : Type} (N : Num T).

  Definition col (j : nat) (data : list (list T)) : list (list T) :=
    map (fun r => match nth_error r j with Some v => [v] | None => [] end) data.

  (* glue single-lane solutions back together: row i = concatenation over lanes *)
  Definition zip_cols (cols : list (list (list T))) (n : nat) : list (list T) :=
    map (fun i => flat_map (fun c => nth i c []) cols) (seq 0 n).

  Definition mapM_lanes (f : nat -> outcome (list (list T))) (L : nat)
    : outcome (list (list (list T))) := mapM f (seq 0 L).

  Inductive sext : Type := ExtNo | ExtYes | ExtPeriodic.

  Record spline_strat : Type := mkSpline { sp_a : list (list T); sp_b : list (list T); sp_ext : sext }.

  Definition lanes_of (data : list (list T)) : nat := length (nth 0 data []).

  (* calc_coefficients, lines 310-368, and build, lines 754-771.
     [trail] is the shape of the data without its first axis. *)
  Definition spline_build (b : bc T) (ext : bool) (xs : list T) (data : list (list T))
      (trail : list nat) : outcome spline_strat :=
    let n := length data in
    k <- match b with
         | BPeriodic => solve_for_k N xs data IPeriodic
         | BNatural => solve_for_k N xs data (IMixed SNatural SNatural)
         | BClamped => solve_for_k N xs data (IMixed SClamped SClamped)
         | BNotAKnot => solve_for_k N xs data (IMixed SNotAKnot SNotAKnot)
         | BIndividual per_lane shape =>
             if negb (list_eqb Nat.eqb shape (1 :: trail)) then ErrBuild ShapeError
             else
               cols <- mapM_lanes (fun j =>
                         match nth_error per_lane j with
                         | Some rb => solve_for_k N xs (col j data) (ibound_of_row rb)
                         | None => Panic
                         end) (lanes_of data) ;;
               Ok (zip_cols cols n)
         end ;;
    let a := map (fun i => coeff_a N xs data i k) (seq 0 (n - 1)) in
    let bb := map (fun i => coeff_b N xs data i k) (seq 0 (n - 1)) in
    let e := if negb ext then ExtNo
             else match b with BPeriodic => ExtPeriodic | _ => ExtYes end in
    Ok (mkSpline a bb e).

  Fixpoint map5 {A B C D E F} (f : A -> B -> C -> D -> E -> F)
      (l1 : list A) (l2 : list B) (l3 : list C) (l4 : list D) (l5 : list E) : list F :=
    match l1, l2, l3, l4, l5 with
    | a :: t1, b :: t2, c :: t3, d :: t4, e :: t5 => f a b c d e :: map5 f t1 t2 t3 t4 t5
    | _, _, _, _, _ => []
    end.

  (* one lane of the evaluation, lines 824-828 *)
  Definition spline_eval_lane (t : T) (y_left y_right a_left b_left : T) : T :=
    let one := c1 N in
    add N (add N (mul N (sub N one t) y_left) (mul N t y_right))
          (mul N (mul N t (sub N one t))
                 (add N (mul N a_left (sub N one t)) (mul N b_left t))).

  (* CubicSplineStrategy::interp_into, lines 791-830 *)
  Definition spline_interp (s : spline_strat) (xs : list T) (data : list (list T)) (x : T)
    : outcome (list T) :=
    in_range <- is_in_range N xs x ;;
    match sp_ext s, in_range with
    | ExtNo, false => ErrOOB
    | _, _ =>
        x' <- (match sp_ext s, in_range with
               | ExtPeriodic, false =>
                   x0 <- idx xs 0 ;;
                   n1 <- usub (length xs) 1 ;;
                   xn <- idx xs n1 ;;
                   Ok (add N (rem_euclid N (sub N x x0) (sub N xn x0)) x0)
               | _, _ => Ok x
               end) ;;
        i <- lower_index N xs x' ;;
        data_left <- idx data i ;;
        x_left <- idx xs i ;;
        data_right <- idx data (i + 1) ;;
        x_right <- idx xs (i + 1) ;;
        a_left <- idx (sp_a s) i ;;
        b_left <- idx (sp_b s) i ;;
        let t := div N (sub N x' x_left) (sub N x_right x_left) in
        Ok (map4 (spline_eval_lane t) data_left data_right a_left b_left)
    end.

End SplineBuild.


Arguments mkSpline {T} sp_a sp_b sp_ext.
Arguments sp_a {T} s. Arguments sp_b {T} s. Arguments sp_ext {T} s.
