(* Entry.v -- the query entry points of Interp1D / Interp2D over strided memory
   (src/interp1d/mod.rs:108-343, src/interp2d/mod.rs:107-307), with the strategy abstracted
   as a function from a query to the lane vector it writes (or an error / panic).

   Memory is a function from addresses to cells; a view is (offset, shape, strides) exactly as
   ndarray stores it.  The caller's buffer is a view into memory the caller owns.          *)

From Coq Require Import List Bool Arith ZArith Lia.
From NI Require Import Num Base.
Import ListNotations.

Section Entry.
  Context {T : Type}.

  Definition mem : Type := Z -> T.
  Definition upd (m : mem) (a : Z) (v : T) : mem := fun b => if Z.eqb a b then v else m b.

  Record view : Type := mkView { v_off : Z; v_shape : list nat; v_strides : list Z }.

  (* address of a logical index *)
  Fixpoint addr_of (off : Z) (strides : list Z) (idx : list nat) : Z :=
    match strides, idx with
    | s :: ss, i :: is => addr_of (off + s * Z.of_nat i)%Z ss is
    | _, _ => off
    end.
  Definition addr (v : view) (idx : list nat) : Z := addr_of (v_off v) (v_strides v) idx.

  (* all indices of a shape in logical (row-major) order -- the order of indexed_iter / Zip *)
  Fixpoint indices (shape : list nat) : list (list nat) :=
    match shape with
    | [] => [[]]
    | n :: rest => flat_map (fun i => map (cons i) (indices rest)) (seq 0 n)
    end.

  (* index_axis_move(Axis(0), i), repeated over the leading axes *)
  Fixpoint sub_view_at (off : Z) (shape : list nat) (strides : list Z) (idx : list nat) : view :=
    match idx, shape, strides with
    | i :: is, _ :: sh, s :: ss => sub_view_at (off + s * Z.of_nat i)%Z sh ss is
    | _, _, _ => mkView off shape strides
    end.
  Definition sub_view (v : view) (idx : list nat) : view :=
    sub_view_at (v_off v) (v_shape v) (v_strides v) idx.

  (* a strategy writes its lanes into the target in logical order (Zip) *)
  Definition write_lanes (target : view) (vals : list T) (m : mem) : mem :=
    fold_left (fun m' p => upd m' (addr target (fst p)) (snd p))
              (combine (indices (v_shape target)) vals) m.

  (* the strategy: what it computes for a query, and the shape it insists on (Zip panics) *)
  Variable F : T -> outcome (list T).
  Variable trail : list nat.

  Definition strat_into (target : view) (x : T) (m : mem) : outcome mem :=
    match F x with
    | Ok vals =>
        if list_eqb Nat.eqb (v_shape target) trail then Ok (write_lanes target vals m) else Panic
    | ErrOOB => ErrOOB
    | ErrBuild k => ErrBuild k
    | Panic => Panic
    | OutOfFuel => OutOfFuel
    end.

  (* interp_into(x, buffer) *)
  Definition interp_into (x : T) (buffer : view) (m : mem) : outcome mem := strat_into buffer x m.

  (* the loop shared by the Ix1 fast path (Zip over axis_iter_mut) and the general per-index
     path: for each query index in logical order, the sub-view with the leading axes indexed
     away; stop at the first error *)
  Fixpoint array_loop (buffer : view) (work : list (list nat * T)) (m : mem) : outcome mem :=
    match work with
    | [] => Ok m
    | (idx, x) :: rest =>
        match strat_into (sub_view buffer idx) x m with
        | Ok m' => array_loop buffer rest m'
        | e => e
        end
    end.

  (* interp_array_into(xs, buffer): xs of shape qshape with elements qs in logical order *)
  Definition interp_array_into (qshape : list nat) (qs : list T) (buffer : view) (m : mem)
    : outcome mem :=
    if negb (list_eqb Nat.eqb (qshape ++ trail) (v_shape buffer)) then Panic   (* assert_buffer_shape *)
    else array_loop buffer (combine (indices qshape) qs) m.

  (* C-contiguous strides of a shape *)
  Fixpoint size_of (shape : list nat) : nat :=
    match shape with [] => 1 | n :: r => n * size_of r end.
  Fixpoint c_strides (shape : list nat) : list Z :=
    match shape with [] => [] | _ :: r => Z.of_nat (size_of r) :: c_strides r end.
  Definition fresh_view (shape : list nat) : view := mkView 0%Z shape (c_strides shape).

  Definition read_view (v : view) (m : mem) : list T := map (fun i => m (addr v i)) (indices (v_shape v)).

  (* the allocating variants: Array::zeros + the *_into variant *)
  Variable zero_t : T.
  Definition zeros_mem : mem := fun _ => zero_t.

  Definition interp (x : T) : outcome (list T) :=
    omap (read_view (fresh_view trail)) (interp_into x (fresh_view trail) zeros_mem).

  Definition interp_array (qshape : list nat) (qs : list T) : outcome (list nat * list T) :=
    let shape := qshape ++ trail in     (* get_buffer_shape *)
    omap (fun m => (shape, read_view (fresh_view shape) m))
         (interp_array_into qshape qs (fresh_view shape) zeros_mem).

  (* interp_scalar: a 0-d view of a 1-element buffer; only for rank-1 data (trail = []) *)
  Definition interp_scalar (x : T) : outcome T :=
    match interp_into x (mkView 0%Z [] []) zeros_mem with
    | Ok m => Ok (m 0%Z)
    | ErrOOB => ErrOOB | ErrBuild k => ErrBuild k | Panic => Panic | OutOfFuel => OutOfFuel
    end.

End Entry.

Arguments mkView v_off v_shape v_strides.
