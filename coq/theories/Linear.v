(* Linear.v -- Linear::interp_into (src/interp1d/strategies/linear.rs:73-98) and
   Bilinear::interp_into (src/interp2d/strategies/bilinear.rs:64-99).

   Data layout of the model: a 1-D interpolator's data is a list of rows (index along
   axis 0); every row is the list of all lanes (trailing axes flattened in row-major
   order).  2-D data is a list (x index) of lists (y index) of lane vectors.          *)

From Coq Require Import List Bool Arith ZArith Lia.
From NI Require Import Num Base Lookup.
Import ListNotations.

Section Linear.
  Context {T : Type} (N : Num T).

  (* `if !self.extrapolate && !this.is_in_range(x)` -- lazy: no range test when extrapolating *)
  Definition range_guard (ext : bool) (ax : list T) (x : T) : outcome unit :=
    if ext then Ok tt
    else r <- is_in_range N ax x ;; if r then Ok tt else ErrOOB.

  Definition linear_interp (ext : bool) (ax : list T) (data : list (list T)) (x : T)
    : outcome (list T) :=
    _ <- range_guard ext ax x ;;
    i <- lower_index N ax x ;;
    y1 <- idx data i ;;
    x1 <- idx ax i ;;
    y2 <- idx data (i + 1) ;;
    x2 <- idx ax (i + 1) ;;
    Ok (map2 (fun v1 v2 => calc_frac N (x1, v1) (x2, v2) x) y1 y2).

  Definition bilinear_lane (x1 x2 y1 y2 x y : T) (z11 z12 z21 z22 : T) : T :=
    let z1 := calc_frac N (x1, z11) (x2, z21) x in
    let z2 := calc_frac N (x1, z12) (x2, z22) x in
    calc_frac N (y1, z1) (y2, z2) y.

  Fixpoint map4 {A B C D E} (f : A -> B -> C -> D -> E)
      (l1 : list A) (l2 : list B) (l3 : list C) (l4 : list D) : list E :=
    match l1, l2, l3, l4 with
    | a :: t1, b :: t2, c :: t3, d :: t4 => f a b c d :: map4 f t1 t2 t3 t4
    | _, _, _, _ => []
    end.

  Definition idx2 (data : list (list (list T))) (i j : nat) : outcome (list T) :=
    r <- idx data i ;; idx r j.

  Definition bilinear_interp (ext : bool) (xax yax : list T) (data : list (list (list T)))
      (x y : T) : outcome (list T) :=
    _ <- range_guard ext xax x ;;
    _ <- range_guard ext yax y ;;
    ix <- lower_index N xax x ;;
    iy <- lower_index N yax y ;;
    x1 <- idx xax ix ;; y1 <- idx yax iy ;; z11 <- idx2 data ix iy ;;
    z12 <- idx2 data ix (iy + 1) ;;
    z21 <- idx2 data (ix + 1) iy ;;
    x2 <- idx xax (ix + 1) ;; y2 <- idx yax (iy + 1) ;; z22 <- idx2 data (ix + 1) (iy + 1) ;;
    Ok (map4 (bilinear_lane x1 x2 y1 y2 x y) z11 z12 z21 z22).

  (* default axis of the builders: 0, 1, ..., len-1 *)
  Definition default_axis (n : nat) : list T := map (of_nat N) (seq 0 n).

End Linear.
