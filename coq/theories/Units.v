(* Units.v -- algebraic laws behind C15 (units / linearity) and C16 (polynomial reproduction),
   over exact rationals.  For the spline they are statements about the rows of the system and
   about the pieces; with the uniqueness theorem of C03 they determine the spline.          *)

From Coq Require Import List Bool Arith ZArith QArith Qcanon Lia.
From NI Require Import Num Base Lookup Linear Interp Spline SplineAlgebra LinearExact.
Import ListNotations.
Local Open Scope Qc_scope.

Lemma scaled_diff_neq c a b : c <> 0 -> b - a <> 0 -> c * b - c * a <> 0.
Proof.
  intros Hc H. replace (c * b - c * a) with (c * (b - a)) by ring.
  intros E. apply Qcmult_integral in E. destruct E; contradiction.
Qed.
Lemma scaled_sum_neq c a b : c <> 0 -> a + b <> 0 -> c * a + c * b <> 0.
Proof.
  intros Hc H. replace (c * a + c * b) with (c * (a + b)) by ring.
  intros E. apply Qcmult_integral in E. destruct E; contradiction.
Qed.
Lemma scaled_neq c a : c <> 0 -> a <> 0 -> c * a <> 0.
Proof. intros Hc H E. apply Qcmult_integral in E. destruct E; contradiction. Qed.

Lemma shift_diff_neq s a b : b - a <> 0 -> b + s - (a + s) <> 0.
Proof. intros H. replace (b + s - (a + s)) with (b - a) by ring. exact H. Qed.

Ltac nz := repeat split; try assumption; try (apply shift_diff_neq; assumption); try (apply scaled_diff_neq; assumption);
           try (apply scaled_neq; assumption); try (apply scaled_sum_neq; assumption);
           try exact two_neq_0; try exact three_neq_0.

(* ---------------- C15: Linear / Bilinear ---------------- *)

Theorem calc_frac_scale_data c x1 y1 x2 y2 x : x2 - x1 <> 0 ->
  calc_frac NumQc (x1, c * y1) (x2, c * y2) x = c * calc_frac NumQc (x1, y1) (x2, y2) x.
Proof. intros H. unfold calc_frac. cbn. field. exact H. Qed.

Theorem calc_frac_additive x1 y1 z1 x2 y2 z2 x : x2 - x1 <> 0 ->
  calc_frac NumQc (x1, y1 + z1) (x2, y2 + z2) x =
  calc_frac NumQc (x1, y1) (x2, y2) x + calc_frac NumQc (x1, z1) (x2, z2) x.
Proof. intros H. unfold calc_frac. cbn. field. exact H. Qed.

Theorem calc_frac_scale_axis c x1 y1 x2 y2 x : c <> 0 -> x2 - x1 <> 0 ->
  calc_frac NumQc (c * x1, y1) (c * x2, y2) (c * x) = calc_frac NumQc (x1, y1) (x2, y2) x.
Proof. intros Hc H. unfold calc_frac. cbn. field. nz. Qed.

Theorem calc_frac_shift s x1 y1 x2 y2 x : x2 - x1 <> 0 ->
  calc_frac NumQc (x1 + s, y1) (x2 + s, y2) (x + s) = calc_frac NumQc (x1, y1) (x2, y2) x.
Proof.
  intros H. unfold calc_frac. cbn. field. nz.
Qed.

Theorem bilinear_scale_data c x1 x2 y1 y2 x y z11 z12 z21 z22 : x2 - x1 <> 0 -> y2 - y1 <> 0 ->
  bilinear_lane NumQc x1 x2 y1 y2 x y (c * z11) (c * z12) (c * z21) (c * z22) =
  c * bilinear_lane NumQc x1 x2 y1 y2 x y z11 z12 z21 z22.
Proof. intros Hx Hy. unfold bilinear_lane, calc_frac. cbn. field. split; assumption. Qed.

Theorem bilinear_additive x1 x2 y1 y2 x y z11 z12 z21 z22 w11 w12 w21 w22 :
  x2 - x1 <> 0 -> y2 - y1 <> 0 ->
  bilinear_lane NumQc x1 x2 y1 y2 x y (z11 + w11) (z12 + w12) (z21 + w21) (z22 + w22) =
  bilinear_lane NumQc x1 x2 y1 y2 x y z11 z12 z21 z22 + bilinear_lane NumQc x1 x2 y1 y2 x y w11 w12 w21 w22.
Proof. intros Hx Hy. unfold bilinear_lane, calc_frac. cbn. field. split; assumption. Qed.

(* independent factors for x and y, and independent shifts *)
Theorem bilinear_scale_axes cx cy x1 x2 y1 y2 x y z11 z12 z21 z22 :
  cx <> 0 -> cy <> 0 -> x2 - x1 <> 0 -> y2 - y1 <> 0 ->
  bilinear_lane NumQc (cx * x1) (cx * x2) (cy * y1) (cy * y2) (cx * x) (cy * y) z11 z12 z21 z22 =
  bilinear_lane NumQc x1 x2 y1 y2 x y z11 z12 z21 z22.
Proof. intros. unfold bilinear_lane, calc_frac. cbn. field. nz. Qed.

Theorem bilinear_shift_axes sx sy x1 x2 y1 y2 x y z11 z12 z21 z22 :
  x2 - x1 <> 0 -> y2 - y1 <> 0 ->
  bilinear_lane NumQc (x1 + sx) (x2 + sx) (y1 + sy) (y2 + sy) (x + sx) (y + sy) z11 z12 z21 z22 =
  bilinear_lane NumQc x1 x2 y1 y2 x y z11 z12 z21 z22.
Proof.
  intros Hx Hy. unfold bilinear_lane, calc_frac. cbn. field. nz.
Qed.

(* ---------------- C15: spline rows and pieces ---------------- *)

(* the matrix is homogeneous of degree 1 and the right-hand side of degree 0 in the axis
   differences: if k solves a row, k / c solves the row of the axis scaled by c > 0 *)
Theorem interior_row_scale_axis c hl hr yl ym yr kl km kr : c <> 0 -> hl <> 0 -> hr <> 0 ->
  (hr * kl + c2 NumQc * (hr + hl) * km + hl * kr = rhs_interior NumQc hr hl yl ym yr <->
   (c * hr) * (kl / c) + c2 NumQc * (c * hr + c * hl) * (km / c) + (c * hl) * (kr / c) =
   rhs_interior NumQc (c * hr) (c * hl) yl ym yr).
Proof.
  intros Hc Hl Hr. unfold rhs_interior. rewrite c2_Qc, c3_Qc. cbn [NumQc add sub mul div].
  apply eq_iff_sub_SA. field. nz.
Qed.

Theorem interior_row_scale_data c hl hr yl ym yr kl km kr : c <> 0 -> hl <> 0 -> hr <> 0 ->
  (hr * kl + c2 NumQc * (hr + hl) * km + hl * kr = rhs_interior NumQc hr hl yl ym yr <->
   hr * (c * kl) + c2 NumQc * (hr + hl) * (c * km) + hl * (c * kr) =
   rhs_interior NumQc hr hl (c * yl) (c * ym) (c * yr)).
Proof.
  intros Hc Hl Hr. unfold rhs_interior. rewrite c2_Qc, c3_Qc. cbn [NumQc add sub mul div].
  split; intros E.
  - replace (hr * (c * kl) + (1 + 1) * (hr + hl) * (c * km) + hl * (c * kr))
      with (c * (hr * kl + (1 + 1) * (hr + hl) * km + hl * kr)) by ring.
    rewrite E. field. split; assumption.
  - assert (G : c * (hr * kl + (1 + 1) * (hr + hl) * km + hl * kr) =
                c * ((1 + 1 + 1) * (hr * (ym - yl) / hl + hl * (yr - ym) / hr))).
    { replace (c * (hr * kl + (1 + 1) * (hr + hl) * km + hl * kr))
        with (hr * (c * kl) + (1 + 1) * (hr + hl) * (c * km) + hl * (c * kr)) by ring.
      rewrite E. field. split; assumption. }
    assert (Q : forall a b, c * a = c * b -> a = b).
    { intros a b Hab. replace a with (c * a / c) by (field; exact Hc). rewrite Hab. field. exact Hc. }
    apply Q. exact G.
Qed.

Theorem interior_row_additive hl hr yl ym yr zl zm zr kl km kr jl jm jr : hl <> 0 -> hr <> 0 ->
  hr * kl + c2 NumQc * (hr + hl) * km + hl * kr = rhs_interior NumQc hr hl yl ym yr ->
  hr * jl + c2 NumQc * (hr + hl) * jm + hl * jr = rhs_interior NumQc hr hl zl zm zr ->
  hr * (kl + jl) + c2 NumQc * (hr + hl) * (km + jm) + hl * (kr + jr) =
  rhs_interior NumQc hr hl (yl + zl) (ym + zm) (yr + zr).
Proof.
  intros Hl Hr E1 E2.
  replace (hr * (kl + jl) + c2 NumQc * (hr + hl) * (km + jm) + hl * (kr + jr))
    with ((hr * kl + c2 NumQc * (hr + hl) * km + hl * kr) + (hr * jl + c2 NumQc * (hr + hl) * jm + hl * jr)) by ring.
  rewrite E1, E2. unfold rhs_interior. rewrite c3_Qc. cbn [NumQc add sub mul div]. field. split; assumption.
Qed.

(* the piece is unchanged when axis differences scale by c and the slopes by 1/c *)
Theorem piece_scale_axis c y yr k kr h u : c <> 0 -> h <> 0 ->
  piece y (k / c) (ca (k / c) (c * h) (yr - y)) (cb (kr / c) (c * h) (yr - y)) (c * h) (c * u) =
  piece y k (ca k h (yr - y)) (cb kr h (yr - y)) h u.
Proof. intros Hc Hh. unfold piece, m2, m3, ca, cb. field. nz. Qed.

Theorem piece_scale_data c y yr k kr h u : h <> 0 ->
  piece (c * y) (c * k) (ca (c * k) h (c * yr - c * y)) (cb (c * kr) h (c * yr - c * y)) h u =
  c * piece y k (ca k h (yr - y)) (cb kr h (yr - y)) h u.
Proof. intros Hh. unfold piece, m2, m3, ca, cb. field. exact Hh. Qed.

(* ---------------- C16: a cubic's own slopes satisfy every row ---------------- *)

Section Cubic.
  Variables p0 p1 p2 p3 : Qc.
  Definition P (x : Qc) : Qc := p0 + p1 * x + p2 * (x * x) + p3 * (x * x * x).
  Definition dP (x : Qc) : Qc := p1 + (1 + 1) * p2 * x + (1 + 1 + 1) * p3 * (x * x).
  Definition d2P (x : Qc) : Qc := (1 + 1) * p2 + (1 + 1 + 1) * (1 + 1) * p3 * x.

  Theorem cubic_interior_row x hl hr : hl <> 0 -> hr <> 0 ->
    hr * dP (x - hl) + c2 NumQc * (hr + hl) * dP x + hl * dP (x + hr) =
    rhs_interior NumQc hr hl (P (x - hl)) (P x) (P (x + hr)).
  Proof.
    intros Hl Hr. unfold rhs_interior, P, dP. rewrite c2_Qc, c3_Qc. cbn [NumQc add sub mul div].
    field. split; assumption.
  Qed.

  Theorem cubic_left_second_row x h : h <> 0 ->
    c2 NumQc * h * dP x + h * dP (x + h) =
    c3 NumQc * (P (x + h) - P x) - d2P x * pow NumQc h (c2 NumQc) / c2 NumQc.
  Proof.
    intros Hh. rewrite pow2_Qc, c2_Qc, c3_Qc. unfold P, dP, d2P. field. exact two_neq_0.
  Qed.

  Theorem cubic_right_second_row x h : h <> 0 ->
    h * dP (x - h) + c2 NumQc * h * dP x =
    c3 NumQc * (P x - P (x - h)) + d2P x * pow NumQc h (c2 NumQc) / c2 NumQc.
  Proof.
    intros Hh. rewrite pow2_Qc, c2_Qc, c3_Qc. unfold P, dP, d2P. field. exact two_neq_0.
  Qed.

  Theorem cubic_left_nak_row x h0 h1 : h0 <> 0 -> h1 <> 0 -> h0 + h1 <> 0 ->
    let d := h0 + h1 in
    let tmp1 := (h0 + c2 NumQc * d) * h1 in
    h1 * dP x + d * dP (x + h0) =
    (tmp1 * (P (x + h0) - P x) / h0 + pow NumQc h0 (c2 NumQc) * (P (x + h0 + h1) - P (x + h0)) / h1) / d.
  Proof.
    intros H0 H1 Hd. cbv zeta. rewrite pow2_Qc, c2_Qc. unfold P, dP. field. repeat split; assumption.
  Qed.

  Theorem cubic_right_nak_row x hl hr : hl <> 0 -> hr <> 0 -> hl + hr <> 0 ->
    (* x = x_(n-1); hr = dx_1 (last interval), hl = dx_2 *)
    let d := hl + hr in
    let tmp1 := (c2 NumQc * d + hr) * hl in
    d * dP (x - hr) + hl * dP x =
    (pow NumQc hr (c2 NumQc) * (P (x - hr) - P (x - hr - hl)) / hl + tmp1 * (P x - P (x - hr)) / hr) / d.
  Proof.
    intros H0 H1 Hd. cbv zeta. rewrite pow2_Qc, c2_Qc. unfold P, dP. field. repeat split; assumption.
  Qed.

  (* with the cubic's own values and slopes the piece IS the cubic *)
  Theorem cubic_piece_reproduces x h u : h <> 0 ->
    piece (P x) (dP x) (ca (dP x) h (P (x + h) - P x)) (cb (dP (x + h)) h (P (x + h) - P x)) h u = P (x + u).
  Proof. intros Hh. unfold piece, m2, m3, ca, cb, P, dP. field. exact Hh. Qed.

End Cubic.

(* a quadratic's slopes satisfy the 3-point parabola system *)
Theorem quadratic_parabola_rows (p0 p1 p2 x h0 h1 : Qc) : h0 <> 0 -> h1 <> 0 ->
  let Pq := P p0 p1 p2 0 in let dq := dP p1 p2 0 in
  let s0 := (Pq (x + h0) - Pq x) / h0 in
  let s1 := (Pq (x + h0 + h1) - Pq (x + h0)) / h1 in
  c1 NumQc * dq x + c1 NumQc * dq (x + h0) = s0 * c2 NumQc /\
  h1 * dq x + c2 NumQc * (h0 + h1) * dq (x + h0) + h0 * dq (x + h0 + h1) = (s1 * h0 + s0 * h1) * c3 NumQc /\
  c1 NumQc * dq (x + h0) + c1 NumQc * dq (x + h0 + h1) = s1 * c2 NumQc.
Proof.
  intros H0 H1. cbv zeta. rewrite c1_Qc, c2_Qc, c3_Qc. unfold P, dP.
  repeat split; field; try assumption; split; assumption.
Qed.

(* Natural (S'' = 0) rows hold for affine data: d2P = 0 when p2 = p3 = 0 *)
Theorem affine_natural_rows (p1 x : Qc) :
  d2P 0 0 x = 0 /\ dP p1 0 0 x = p1.
Proof. unfold d2P, dP. split; ring. Qed.
