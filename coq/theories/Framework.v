(* Framework.v -- C18: what a user-defined strategy sees.  The strategy is a section variable:
   [F] is its interp_into (as the function from the query to the lanes it writes, or an error)
   and [sb] the result of its build; the theorems hold for every such strategy.            *)

From Coq Require Import List Bool Arith ZArith Lia.
From NI Require Import Num Base Mono MonoProofs Lookup Linear Interp BuildProofs LinearProofs Entry EntryProofs.
Import ListNotations.

Section Framework.
  Context {T : Type} (N : Num T).
  Variable F : T -> outcome (list T).
  Variable trail : list nat.

  (* does the strategy call on this target succeed? (memory plays no role) *)
  Definition call_ok (target : view) (x : T) : bool :=
    match F x with Ok _ => list_eqb Nat.eqb (v_shape target) trail | _ => false end.

  (* the calls an entry point makes to strategy.interp_into: (query value, target shape) *)
  Fixpoint loop_calls (buffer : view) (work : list (list nat * T)) : list (T * list nat) :=
    match work with
    | [] => []
    | (idx, x) :: rest =>
        (x, v_shape (sub_view buffer idx)) ::
        (if call_ok (sub_view buffer idx) x then loop_calls buffer rest else [])
    end.

  (* queries up to and including the first one the strategy fails on *)
  Fixpoint until_fail (qs : list T) : list T :=
    match qs with
    | [] => []
    | x :: rest => x :: (match F x with Ok _ => until_fail rest | _ => [] end)
    end.

  Lemma sub_view_shape_is_trail buffer qshape idx :
    v_shape buffer = qshape ++ trail -> length (v_shape buffer) = length (v_strides buffer) ->
    length idx = length qshape -> v_shape (sub_view buffer idx) = trail.
  Proof.
    intros Hs Hl Hi. unfold sub_view. rewrite sub_view_shape_gen by exact Hl.
    rewrite Hs, Hi, skipn_app, skipn_all, Nat.sub_diag. reflexivity.
  Qed.

  (* the strategy receives exactly the query values, unmodified, in logical (row-major) order,
     each with a target of the data's trailing shape, and nothing after its first error *)
  Theorem strategy_calls_trace buffer qshape qs :
    v_shape buffer = qshape ++ trail -> length (v_shape buffer) = length (v_strides buffer) ->
    length qs = length (indices qshape) ->
    loop_calls buffer (combine (indices qshape) qs) = map (fun x => (x, trail)) (until_fail qs).
  Proof.
    intros Hs Hl Hq.
    assert (G : forall idxs qs', (forall i, In i idxs -> length i = length qshape) ->
                length qs' = length idxs ->
                loop_calls buffer (combine idxs qs') = map (fun x => (x, trail)) (until_fail qs')).
    { induction idxs as [|i idxs IH]; intros qs' Hi Hlen; destruct qs' as [|x qs']; try discriminate; [reflexivity|].
      cbn [combine loop_calls until_fail map].
      rewrite (sub_view_shape_is_trail buffer qshape i Hs Hl) by (apply Hi; left; reflexivity).
      f_equal. unfold call_ok.
      rewrite (sub_view_shape_is_trail buffer qshape i Hs Hl) by (apply Hi; left; reflexivity).
      destruct (F x); try reflexivity. rewrite list_eqb_nat_refl.
      apply IH; [intros k Hk; apply Hi; right; exact Hk|cbn in Hlen; lia]. }
    apply G; [apply indices_length_elem|exact Hq].
  Qed.

  (* the outcome of the batch is Ok iff every call succeeded, otherwise the first failing
     call's outcome, unchanged *)
  Theorem strategy_error_propagates buffer work (m : @mem T) :
    (forall p, In p work -> v_shape (sub_view buffer (fst p)) = trail) ->
    match array_loop F trail buffer work m with
    | Ok _ => forall p, In p work -> exists vals, F (snd p) = Ok vals
    | e => exists p, In p work /\
             match F (snd p), e with
             | ErrOOB, ErrOOB | Panic, Panic | OutOfFuel, OutOfFuel => True
             | ErrBuild j, ErrBuild k => j = k
             | _, _ => False
             end
    end.
  Proof.
    revert m. induction work as [|[idx x] rest IH]; intros m Hsh.
    - cbn. intros p [].
    - cbn [array_loop]. unfold strat_into.
      assert (Hs : v_shape (sub_view buffer idx) = trail) by (apply (Hsh (idx, x)); left; reflexivity).
      destruct (F x) as [vals| |k| |] eqn:Fx.
      + rewrite Hs, list_eqb_nat_refl.
        specialize (IH (write_lanes (sub_view buffer idx) vals m) (fun p Hp => Hsh p (or_intror Hp))).
        destruct (array_loop F trail buffer rest _) eqn:E.
        * intros p [<-|Hp]; [exists vals; exact Fx|apply IH; exact Hp].
        * destruct IH as (p & Hp & Hm). exists p. split; [right; exact Hp|exact Hm].
        * destruct IH as (p & Hp & Hm). exists p. split; [right; exact Hp|exact Hm].
        * destruct IH as (p & Hp & Hm). exists p. split; [right; exact Hp|exact Hm].
        * destruct IH as (p & Hp & Hm). exists p. split; [right; exact Hp|exact Hm].
      + exists (idx, x). split; [left; reflexivity|]. cbn [snd]. rewrite Fx. exact I.
      + exists (idx, x). split; [left; reflexivity|]. cbn [snd]. rewrite Fx. reflexivity.
      + exists (idx, x). split; [left; reflexivity|]. cbn [snd]. rewrite Fx. exact I.
      + exists (idx, x). split; [left; reflexivity|]. cbn [snd]. rewrite Fx. exact I.
  Qed.

  (* ---- builders: the strategy's build is reached only with validated inputs ---- *)
  Variable S : Type.

  Definition build1d_with (min : nat) (ax : list T) (n : nat) (sb : outcome S) : bool * outcome S :=
    match build1d_checks N min ax n with
    | Ok _ => (true, sb)
    | ErrBuild k => (false, ErrBuild k)
    | ErrOOB => (false, ErrOOB) | Panic => (false, Panic) | OutOfFuel => (false, OutOfFuel)
    end.
  Definition build2d_with (min : nat) (xax yax : list T) (nx ny : nat) (sb : outcome S) : bool * outcome S :=
    match build2d_checks N min xax yax nx ny with
    | Ok _ => (true, sb)
    | ErrBuild k => (false, ErrBuild k)
    | ErrOOB => (false, ErrOOB) | Panic => (false, Panic) | OutOfFuel => (false, OutOfFuel)
    end.

  Theorem strategy_build_only_on_valid_1d min ax n sb :
    fst (build1d_with min ax n sb) = true <->
    (min <= n /\ strictly_rising N ax /\ length ax = n).
  Proof.
    rewrite <- build1d_ok_iff_valid. unfold build1d_with.
    destruct (build1d_checks N min ax n) as [[]| | | |]; cbn; split; intros H; try discriminate; reflexivity.
  Qed.

  Theorem strategy_build_only_on_valid_2d min xax yax nx ny sb :
    fst (build2d_with min xax yax nx ny sb) = true <->
    (min <= nx /\ min <= ny /\ length xax = nx /\ length yax = ny /\
     strictly_rising N xax /\ strictly_rising N yax).
  Proof.
    rewrite <- build2d_ok_iff_valid. unfold build2d_with.
    destruct (build2d_checks N min xax yax nx ny) as [[]| | | |]; cbn; split; intros H; try discriminate; reflexivity.
  Qed.

  (* whatever the strategy's build returns -- Ok or any error -- is the builder's result *)
  Theorem strategy_build_result_unchanged min ax n sb :
    fst (build1d_with min ax n sb) = true -> snd (build1d_with min ax n sb) = sb.
  Proof.
    unfold build1d_with. destruct (build1d_checks N min ax n) as [[]| | | |]; cbn; intros H; try discriminate; reflexivity.
  Qed.

  (* accessors *)
  Variable d : T.
  Theorem accessors_faithful ax x : 1 <= length ax ->
    is_in_range N ax x = Ok (in_closed_range N d ax x).
  Proof. apply is_in_range_spec. Qed.

End Framework.
