(* UnitsList.v -- C15 at the level of whole interpolators (lists, every lane, every query):
   the segment lookup is invariant under strictly increasing maps of axis and query, and the
   spline built from transformed inputs is the transformed spline.                       *)

From Coq Require Import List Bool Arith ZArith QArith Qcanon Lia Lqa.
From NI Require Import Num Base Lookup Linear Interp Spline Tri TriProofs SplineAlgebra LookupProofs LinearProofs LinearExact SplineProofs Units.
Import ListNotations.
Local Open Scope Qc_scope.

Lemma nth_map_Qc (g : Qc -> Qc) (l : list Qc) i : (i < length l)%nat -> nth i (map g l) 0 = g (nth i l 0).
Proof. intros H. rewrite (nth_indep _ 0 (g 0)) by (rewrite map_length; exact H). apply map_nth. Qed.

Section MonoLookup.
  Variable g : Qc -> Qc.
  Hypothesis Hg : forall a b, (this a < this b)%Q <-> (this (g a) < this (g b))%Q.

  Lemma g_le a b : (this a <= this b)%Q <-> (this (g a) <= this (g b))%Q.
  Proof.
    split; intros H.
    - destruct (Qlt_le_dec (this (g b)) (this (g a))) as [C|C]; [|exact C].
      apply (proj2 (Hg _ _)) in C. lra.
    - destruct (Qlt_le_dec (this b) (this a)) as [C|C]; [|exact C].
      apply (proj1 (Hg _ _)) in C. lra.
  Qed.

  Lemma StrictIncQc_map xs : StrictIncQc xs -> StrictIncQc (map g xs).
  Proof.
    intros HS. split; [apply Forall_forall; intros; exact I|].
    intros i Hi. rewrite map_length in Hi. rewrite !nth_map_Qc by lia.
    apply qc_ltb_lt. apply (proj1 (Hg _ _)). apply (StrictIncQc_lt xs i (i + 1) HS); lia.
  Qed.

  Theorem lower_index_mono xs x :
    StrictIncQc xs -> (2 <= length xs)%nat -> (Z.of_nat (length xs) <= two64)%Z ->
    lower_index NumQc (map g xs) (g x) = lower_index NumQc xs x.
  Proof.
    intros HS Hn H64.
    destruct (lower_index_Qc xs x HS Hn H64) as (i & Ei & Bi & I1 & I2 & I3).
    destruct (lower_index_Qc (map g xs) (g x) (StrictIncQc_map xs HS) ltac:(rewrite map_length; exact Hn)
                ltac:(rewrite map_length; exact H64)) as (i' & Ei' & Bi' & J1 & J2 & J3).
    rewrite Ei, Ei'. f_equal. rewrite map_length in *.
    rewrite !nth_map_Qc in * by lia.
    destruct (Qlt_le_dec (this (nth 0 xs 0%Qc)) (this x)) as [A|A].
    - destruct (Qlt_le_dec (this x) (this (nth (length xs - 1) xs 0%Qc))) as [B|B].
      + destruct (I3 A B) as [P1 P2].
        destruct (J3 (proj1 (Hg _ _) A) (proj1 (Hg _ _) B)) as [Q1 Q2].
        apply (proj2 (g_le _ _)) in Q1. apply (proj2 (Hg _ _)) in Q2.
        destruct (Nat.lt_trichotomy i' i) as [Lt|[E|Lt]]; [|exact E|]; exfalso.
        * assert (X : (this (nth (i' + 1) xs 0%Qc) <= this (nth i xs 0%Qc))%Q).
          { destruct (Nat.eq_dec (i' + 1) i) as [->|Ne]; [lra|].
            apply Qlt_le_weak. apply (StrictIncQc_lt xs (i' + 1) i HS); lia. }
          lra.
        * assert (X : (this (nth (i + 1) xs 0%Qc) <= this (nth i' xs 0%Qc))%Q).
          { destruct (Nat.eq_dec (i + 1) i') as [->|Ne]; [lra|].
            apply Qlt_le_weak. apply (StrictIncQc_lt xs (i + 1) i' HS); lia. }
          lra.
      + rewrite (I2 A B). apply J2; [apply (proj1 (Hg _ _)); exact A|apply (proj1 (g_le _ _)); exact B].
    - rewrite (I1 A). apply J1. apply (proj1 (g_le _ _)). exact A.
  Qed.

  Lemma in_closed_range_mono xs x : (1 <= length xs)%nat ->
    in_closed_range NumQc 0 (map g xs) (g x) = in_closed_range NumQc 0 xs x.
  Proof.
    intros Hn. unfold in_closed_range. rewrite map_length, !nth_map_Qc by lia.
    cbn [NumQc leb]. unfold qc_leb.
    assert (E : forall a b, Qle_bool (this (g a)) (this (g b)) = Qle_bool (this a) (this b)).
    { intros a b. destruct (Qle_bool (this a) (this b)) eqn:E1.
      - apply Qle_bool_iff. apply (proj1 (g_le _ _)). apply Qle_bool_iff. exact E1.
      - destruct (Qle_bool (this (g a)) (this (g b))) eqn:E2; [|reflexivity].
        apply Qle_bool_iff in E2. apply (proj2 (g_le _ _)) in E2. apply Qle_bool_iff in E2. congruence. }
    rewrite !E. reflexivity.
  Qed.
End MonoLookup.

(* ---------------- affine changes of the axis unit ---------------- *)

Definition aff (c s : Qc) (a : Qc) : Qc := c * a + s.

Lemma aff_mono c s : 0 < c -> forall a b, (this a < this b)%Q <-> (this (aff c s a) < this (aff c s b))%Q.
Proof.
  intros Hc a b. unfold aff. cbn [this Qcplus Qcmult Q2Qc]. rewrite !Qred_correct.
  assert (C : (0 < this c)%Q) by exact Hc.
  split; intros H.
  - assert (X : (0 < this c * (this b - this a))%Q) by (apply Qmult_lt_0_compat; lra). lra.
  - destruct (Qlt_le_dec (this a) (this b)) as [G|G]; [exact G|exfalso].
    assert (X : (0 <= this c * (this a - this b))%Q) by (apply Qmult_le_0_compat; lra). lra.
Qed.

Lemma calc_frac_aff c s x1 y1 x2 y2 x : c <> 0 -> x2 - x1 <> 0 ->
  calc_frac NumQc (aff c s x1, y1) (aff c s x2, y2) (aff c s x) = calc_frac NumQc (x1, y1) (x2, y2) x.
Proof.
  intros Hc H. unfold aff. rewrite calc_frac_shift; [apply calc_frac_scale_axis; assumption|].
  replace (c * x2 - c * x1) with (c * (x2 - x1)) by ring. apply scaled_neq; assumption.
Qed.

Lemma pos_neq c : 0 < c -> c <> 0.
Proof. apply Qc_pos_neq. Qed.

Section LinearList.
  Variable ax : list Qc.
  Variable data : list (list Qc).
  Hypothesis HS : StrictIncQc ax.
  Hypothesis Hn : (2 <= length ax)%nat.
  Hypothesis H64 : (Z.of_nat (length ax) <= two64)%Z.
  Hypothesis Hlen : length data = length ax.

  Lemma bracket_diff_neq i : (i + 1 < length ax)%nat -> nth (i + 1) ax 0 - nth i ax 0 <> 0.
  Proof. intros Hi. apply Qc_neq_this. apply (StrictIncQc_lt ax i (i + 1) HS); lia. Qed.

  (* C15 (Linear, whole interpolator): a change of the axis unit x -> c*x + s (c > 0), applied to
     the axis and to the query, leaves the outcome unchanged -- every lane, every query, with
     or without extrapolation, errors included *)
  Theorem linear_axis_units ext c s x : 0 < c ->
    linear_interp NumQc ext (map (aff c s) ax) data (aff c s x) = linear_interp NumQc ext ax data x.
  Proof.
    intros Hc. pose proof (aff_mono c s Hc) as Hg.
    destruct (lower_index_Qc ax x HS Hn H64) as (i & Ei & Bi & _).
    pose proof (lower_index_mono (aff c s) Hg ax x HS Hn H64) as Ei'. rewrite Ei in Ei'.
    pose proof (range_guard_spec NumQc 0 ext ax x ltac:(lia)) as G.
    pose proof (range_guard_spec NumQc 0 ext (map (aff c s) ax) (aff c s x) ltac:(rewrite map_length; lia)) as G'.
    rewrite (in_closed_range_mono (aff c s) Hg ax x ltac:(lia)) in G'.
    destruct (ext || in_closed_range NumQc 0 ax x) eqn:Eg.
    - rewrite (linear_reads_bracket NumQc 0 ext ax data x i G Ei ltac:(lia) Hlen).
      rewrite (linear_reads_bracket NumQc 0 ext (map (aff c s) ax) data (aff c s x) i G' Ei'
                 ltac:(rewrite map_length; lia) ltac:(rewrite map_length; exact Hlen)).
      f_equal. rewrite !nth_map_Qc by lia. apply map2_ext. intros a b.
      apply calc_frac_aff; [apply pos_neq; exact Hc|apply bracket_diff_neq; lia].
    - unfold linear_interp. rewrite G, G'. reflexivity.
  Qed.

  (* ... and the interpolator is linear in the data *)
  Theorem linear_scale_data ext c x :
    linear_interp NumQc ext ax (map (map (Qcmult c)) data) x =
    match linear_interp NumQc ext ax data x with Ok v => Ok (map (Qcmult c) v) | e => e end.
  Proof.
    destruct (lower_index_Qc ax x HS Hn H64) as (i & Ei & Bi & _).
    pose proof (range_guard_spec NumQc 0 ext ax x ltac:(lia)) as G.
    destruct (ext || in_closed_range NumQc 0 ax x) eqn:Eg.
    - rewrite (linear_reads_bracket NumQc 0 ext ax data x i G Ei ltac:(lia) Hlen).
      rewrite (linear_reads_bracket NumQc 0 ext ax _ x i G Ei ltac:(lia) ltac:(rewrite map_length; exact Hlen)).
      f_equal.
      change (@nil Qc) with (map (Qcmult c) []) at 1 2. rewrite !map_nth.
      generalize (nth i data []) (nth (i + 1) data []).
      induction l as [|a t IH]; intros [|b t2]; cbn [map map2]; auto.
      rewrite IH. f_equal. apply calc_frac_scale_data. apply bracket_diff_neq; lia.
    - unfold linear_interp. rewrite G. reflexivity.
  Qed.

  Definition add_data (d1 d2 : list (list Qc)) : list (list Qc) := map2 (map2 Qcplus) d1 d2.

  Theorem linear_additive ext (data2 : list (list Qc)) x v1 v2 :
    length data2 = length ax ->
    (forall i, (i < length ax)%nat -> length (nth i data []) = length (nth i data2 [])) ->
    linear_interp NumQc ext ax data x = Ok v1 -> linear_interp NumQc ext ax data2 x = Ok v2 ->
    linear_interp NumQc ext ax (add_data data data2) x = Ok (map2 Qcplus v1 v2).
  Proof.
    intros Hlen2 Hw.
    destruct (lower_index_Qc ax x HS Hn H64) as (i & Ei & Bi & _).
    pose proof (range_guard_spec NumQc 0 ext ax x ltac:(lia)) as G.
    destruct (ext || in_closed_range NumQc 0 ax x) eqn:Eg.
    - rewrite (linear_reads_bracket NumQc 0 ext ax data x i G Ei ltac:(lia) Hlen).
      rewrite (linear_reads_bracket NumQc 0 ext ax data2 x i G Ei ltac:(lia) Hlen2).
      assert (La : length (add_data data data2) = length ax).
      { unfold add_data. rewrite map2_length, Hlen, Hlen2. apply Nat.min_id. }
      rewrite (linear_reads_bracket NumQc 0 ext ax _ x i G Ei ltac:(lia) La).
      intros E1 E2. injection E1 as <-. injection E2 as <-. f_equal.
      unfold add_data.
      rewrite !(nth_map2 _ _ _ _ [] [] []) by lia.
      pose proof (Hw i ltac:(lia)) as W1. pose proof (Hw (i + 1)%nat ltac:(lia)) as W2.
      revert W1 W2.
      generalize (nth i data []) (nth (i + 1) data []) (nth i data2 []) (nth (i + 1) data2 []).
      induction l as [|a t IH]; intros [|b t2] [|a' t'] [|b' t2'] W1 W2; cbn [map2 length] in *; try lia; auto.
      rewrite IH by lia. f_equal. apply calc_frac_additive. apply bracket_diff_neq; lia.
    - unfold linear_interp. rewrite G. discriminate.
  Qed.
End LinearList.

(* ---------------- transporting solutions of tridiagonal systems ---------------- *)

Lemma sat_transport (f : Qc -> Qc) (R : qrow -> qrow -> Prop) :
  f 0 = 0 ->
  (forall r r', R r r' -> forall kp km kn,
     s_low r * kp + s_mid r * km + s_up r * kn = s_rhs r ->
     s_low r' * f kp + s_mid r' * f km + s_up r' * f kn = s_rhs r') ->
  forall rows rows', Forall2 R rows rows' ->
  forall p k, sat p rows k -> sat (f p) rows' (map f k).
Proof.
  intros F0 HR rows rows' H2. induction H2 as [|r r' t t' Hr Ht IH]; intros p k Hs.
  - destruct k; [exact I|contradiction].
  - destruct k as [|ki kt]; [contradiction|]. destruct Hs as [E Hs].
    cbn [map sat]. split; [|apply IH; exact Hs].
    replace (hd0 (map f kt)) with (f (hd0 kt)) by (destruct kt; [exact F0|reflexivity]).
    apply (HR r r' Hr). exact E.
Qed.

Definition conv_single (fv fa : Qc -> Qc) (b : single Qc) : single Qc :=
  match b with
  | SFirstDeriv v => SFirstDeriv (fv v)
  | SSecondDeriv v => SSecondDeriv (fa v)
  | other => other
  end.

Lemma is_nak_conv fv fa b : is_nak (conv_single fv fa b) = is_nak b.
Proof. destruct b; reflexivity. Qed.

Lemma yq_scale c data j i : yq (map (map (Qcmult c)) data) j i = c * yq data j i.
Proof.
  unfold yq. change (@nil Qc) with (map (Qcmult c) []). rewrite map_nth.
  replace 0 with (c * 0) at 1 by ring. rewrite map_nth. reflexivity.
Qed.

Section SplineScaleData.
  Variable xs : list Qc.
  Variable data : list (list Qc).
  Variable L : nat.
  Variable c : Qc.
  Hypothesis Hwidth : forall i, (i < length data)%nat -> length (nth i data []) = L.
  Hypothesis HS : StrictIncQc xs.
  Hypothesis Hlen : length xs = length data.
  Hypothesis Hn : (3 <= length data)%nat.
  Hypothesis H64 : (Z.of_nat (length data) <= two64)%Z.
  Hypothesis HL : (0 < L)%nat.
  Notation n := (length data).
  Notation data' := (map (map (Qcmult c)) data).
  Notation sc := (conv_single (Qcmult c) (Qcmult c)).

  Lemma n' : length data' = n. Proof. apply map_length. Qed.
  Lemma Hwidth' : forall i, (i < length data')%nat -> length (nth i data' []) = L.
  Proof.
    intros i Hi. rewrite n' in Hi. change (@nil Qc) with (map (Qcmult c) []). rewrite map_nth, map_length.
    apply Hwidth. exact Hi.
  Qed.

  Definition Rscale (r r' : qrow) : Prop :=
    s_low r' = s_low r /\ s_mid r' = s_mid r /\ s_up r' = s_up r /\ s_rhs r' = c * s_rhs r.

  Lemma Rscale_ok r r' : Rscale r r' -> forall kp km kn,
     s_low r * kp + s_mid r * km + s_up r * kn = s_rhs r ->
     s_low r' * (c * kp) + s_mid r' * (c * km) + s_up r' * (c * kn) = s_rhs r'.
  Proof. intros (E1 & E2 & E3 & E4) kp km kn E. rewrite E1, E2, E3, E4, <- E. ring. Qed.

  Variable j : nat.
  Hypothesis Hj : (j < L)%nat.

  Lemma hne i : (i + 1 < n)%nat -> hq xs i <> 0.
  Proof. intros Hi. apply (hq_neq xs data L j Hj HS Hlen Hn i Hi). Qed.

  Lemma d02_neq : nth 2 xs 0 - nth 0 xs 0 <> 0.
  Proof. apply Qc_neq_this. apply (StrictIncQc_lt xs 0 2 HS); lia. Qed.
  Lemma dn_neq : nth (n - 1) xs 0 - nth (n - 3) xs 0 <> 0.
  Proof. apply Qc_neq_this. apply (StrictIncQc_lt xs (n - 3) (n - 1) HS); lia. Qed.

  Lemma R_interior i : (1 <= i)%nat -> (i + 1 < n)%nat ->
    Rscale (s_interior xs data j i) (s_interior xs data' j i).
  Proof.
    intros H1 H2. unfold Rscale, s_interior. cbn [s_low s_mid s_up s_rhs]. repeat split.
    rewrite !yq_scale. unfold rhs_interior. rewrite c3_Qc. cbn [NumQc add sub mul div].
    field. split; apply hne; lia.
  Qed.

  Lemma R_left l : Rscale (s_left xs data j l) (s_left xs data' j (sc l)).
  Proof.
    unfold Rscale, s_left.
    destruct l; cbn [conv_single specialize_single s_low s_mid s_up s_rhs]; repeat split;
      rewrite ?yq_scale, ?c0_Qc, ?c2_Qc, ?c3_Qc, ?pow2_Qc; cbn [NumQc add sub mul div]; try ring.
    - field. repeat split; try exact d02_neq; apply hne; lia.
    - field. exact two_neq_0.
    - field. exact two_neq_0.
  Qed.

  Lemma R_right r : Rscale (s_right xs data j r) (s_right xs data' j (sc r)).
  Proof.
    unfold Rscale, s_right. rewrite n'.
    destruct r; cbn [conv_single specialize_single s_low s_mid s_up s_rhs]; repeat split;
      rewrite ?yq_scale, ?c0_Qc, ?c2_Qc, ?c3_Qc, ?pow2_Qc; cbn [NumQc add sub mul div]; try ring.
    - field. repeat split; try exact dn_neq; apply hne; lia.
    - field. exact two_neq_0.
    - field. exact two_neq_0.
  Qed.

  Lemma R_srows l r : Forall2 Rscale (srows xs data j l r) (srows xs data' j (sc l) (sc r)).
  Proof.
    unfold srows. rewrite n'. constructor; [apply R_left|].
    apply Forall2_app; [|constructor; [apply R_right|constructor]].
    assert (G : forall a m, (1 <= a)%nat -> (a + m <= n - 1)%nat ->
              Forall2 Rscale (map (s_interior xs data j) (seq a m)) (map (s_interior xs data' j) (seq a m))).
    { intros a m. revert a. induction m as [|m IH]; intros a H1 H2; [constructor|].
      cbn [seq map]. constructor; [apply R_interior; lia|apply IH; lia]. }
    apply G; lia.
  Qed.

  Lemma R_parabola : n = 3%nat -> Forall2 Rscale (srows_parabola xs data j) (srows_parabola xs data' j).
  Proof.
    intros E3. unfold srows_parabola. cbv zeta.
    repeat constructor; cbn [s_low s_mid s_up s_rhs]; rewrite ?yq_scale, ?c2_Qc, ?c3_Qc;
      field; repeat split; apply hne; lia.
  Qed.

  (* the slopes of the scaled data set are the scaled slopes, lane by lane *)
  Theorem spline_slopes_scale_data l r K K' :
    solve_for_k NumQc xs data (IMixed l r) = Ok K ->
    solve_for_k NumQc xs data' (IMixed (sc l) (sc r)) = Ok K' ->
    lane_vec 0 j K' = map (Qcmult c) (lane_vec 0 j K).
  Proof.
    intros HK HK'.
    destruct (solve_mixed_lane xs data L j Hj Hwidth HS Hlen Hn l r K HK) as [_ Hiff].
    destruct (solve_mixed_lane xs data' L j Hj Hwidth' HS ltac:(rewrite n'; exact Hlen) ltac:(rewrite n'; exact Hn)
                (sc l) (sc r) K' HK') as [_ Hiff'].
    cbv zeta in Hiff, Hiff'. rewrite n', !is_nak_conv in Hiff'.
    symmetry. apply Hiff'.
    pose proof (proj2 (Hiff (lane_vec 0 j K)) eq_refl) as Hs.
    replace 0 with (c * 0) at 1 by ring.
    destruct ((n =? 3)%nat && is_nak l && is_nak r) eqn:Epar.
    - apply andb_prop in Epar as [Epar _]. apply andb_prop in Epar as [En _]. apply Nat.eqb_eq in En.
      apply (sat_transport (Qcmult c) Rscale ltac:(ring) Rscale_ok _ _ (R_parabola En) 0 _ Hs).
    - apply (sat_transport (Qcmult c) Rscale ltac:(ring) Rscale_ok _ _ (R_srows l r) 0 _ Hs).
  Qed.
End SplineScaleData.

Lemma kk_scale c k i : kk (map (Qcmult c) k) i = c * kk k i.
Proof. unfold kk. replace 0 with (c * 0) at 1 by ring. apply map_nth. Qed.

Lemma whole_conv fv fa b l r : whole_lr b = Some (l, r) -> conv_single fv fa l = l /\ conv_single fv fa r = r.
Proof. destruct b; cbn; intros H; try discriminate; injection H as <- <-; split; reflexivity. Qed.

Section SplineScaleDataTop.
  Variable xs : list Qc.
  Variable data : list (list Qc).
  Variable L : nat.
  Variable c : Qc.
  Hypothesis Hwidth : forall i, (i < length data)%nat -> length (nth i data []) = L.
  Hypothesis HS : StrictIncQc xs.
  Hypothesis Hlen : length xs = length data.
  Hypothesis Hn : (3 <= length data)%nat.
  Hypothesis H64 : (Z.of_nat (length data) <= two64)%Z.
  Hypothesis HL : (0 < L)%nat.
  Notation n := (length data).
  Notation data' := (map (map (Qcmult c)) data).

  (* C15 (CubicSpline, whole interpolator, NotAKnot / Natural / Clamped): multiplying the data by c
     multiplies the answer to every query by c, in every lane *)
  Theorem spline_whole_scale_data b l r ext trail sp sp' x v :
    whole_lr b = Some (l, r) ->
    spline_build NumQc b ext xs data trail = Ok sp ->
    spline_build NumQc b ext xs data' trail = Ok sp' ->
    (ext = false -> in_closed_range NumQc 0 xs x = true) ->
    spline_interp NumQc sp xs data x = Ok v ->
    spline_interp NumQc sp' xs data' x = Ok (map (Qcmult c) v).
  Proof.
    intros Hb Hsp Hsp' Hx Hv.
    destruct (spline_build_whole xs data b l r ext trail sp Hb Hsp) as (K & HK & ->).
    destruct (spline_build_whole xs data' b l r ext trail sp' Hb Hsp') as (K' & HK' & ->).
    destruct (solve_mixed_shape xs data L Hwidth Hlen Hn HL l r K HK) as [KL KW].
    pose proof (Hwidth' data L c Hwidth) as Hw'. pose proof (n' data c) as En.
    destruct (solve_mixed_shape xs data' L Hw' ltac:(rewrite En; exact Hlen) ltac:(rewrite En; exact Hn) HL l r K' HK') as [KL' KW'].
    destruct (lower_index_Qc xs x HS ltac:(lia) ltac:(rewrite Hlen; exact H64)) as (i & Hi & Hb2 & _).
    assert (Hext1 : sp_ext (sp_of xs data K (if negb ext then ExtNo else ExtYes)) = ExtNo -> in_closed_range NumQc 0 xs x = true).
    { cbn [sp_of sp_ext]. destruct ext; cbn [negb]; [discriminate|]. intros _. apply Hx. reflexivity. }
    assert (Hext2 : sp_ext (sp_of xs data' K' (if negb ext then ExtNo else ExtYes)) = ExtNo -> in_closed_range NumQc 0 xs x = true).
    { cbn [sp_of sp_ext]. destruct ext; cbn [negb]; [discriminate|]. intros _. apply Hx. reflexivity. }
    assert (Hnp : forall dd KK, sp_ext (sp_of xs dd KK (if negb ext then ExtNo else ExtYes)) <> ExtPeriodic).
    { intros dd KK. cbn [sp_of sp_ext]. destruct ext; discriminate. }
    (* every lane *)
    assert (Lanes : forall j, (j < L)%nat ->
              exists v', spline_interp NumQc (sp_of xs data' K' (if negb ext then ExtNo else ExtYes)) xs data' x = Ok v' /\
                         length v' = L /\ length v = L /\ nth j v' 0 = c * nth j v 0).
    { intros j Hj.
      destruct (spline_eval_at xs data L j Hj Hwidth HS Hlen Hn K KL KW _ x i Hi ltac:(lia) Hext1 (Hnp _ _))
        as (v0 & Ev0 & Lv0 & Nv0).
      rewrite Hv in Ev0. injection Ev0 as <-.
      destruct (spline_eval_at xs data' L j Hj Hw' HS ltac:(rewrite En; exact Hlen) ltac:(rewrite En; exact Hn)
                  K' KL' KW' _ x i Hi ltac:(rewrite En; lia) Hext2 (Hnp _ _))
        as (v' & Ev' & Lv' & Nv').
      exists v'. repeat split; auto. rewrite Nv', Nv0.
      destruct (whole_conv (Qcmult c) (Qcmult c) b l r Hb) as [Cl Cr].
      pose proof (spline_slopes_scale_data xs data L c Hwidth HS Hlen Hn HL j Hj l r K K' HK) as Esl.
      rewrite Cl, Cr in Esl. rewrite (Esl HK').
      unfold aq, bq. rewrite !kk_scale, !yq_scale.
      apply piece_scale_data. apply (hq_neq xs data L j Hj HS Hlen Hn i). lia. }
    destruct (Lanes 0%nat HL) as (v' & Ev' & Lv' & Lv & _). rewrite Ev'. f_equal.
    apply (nth_ext _ _ 0 0).
    - rewrite map_length. lia.
    - intros j Hj. rewrite Lv' in Hj.
      destruct (Lanes j Hj) as (v'' & Ev'' & _ & _ & Nj). rewrite Ev' in Ev''. injection Ev'' as <-.
      rewrite Nj. replace 0 with (c * 0) at 2 by ring. rewrite map_nth. reflexivity.
  Qed.
End SplineScaleDataTop.

(* ---------------- the axis in other units: x -> c*x + s, c > 0 ---------------- *)

Section SplineAxisUnits.
  Variable xs : list Qc.
  Variable data : list (list Qc).
  Variable L : nat.
  Variables c s : Qc.
  Hypothesis Hc : 0 < c.
  Hypothesis Hwidth : forall i, (i < length data)%nat -> length (nth i data []) = L.
  Hypothesis HS : StrictIncQc xs.
  Hypothesis Hlen : length xs = length data.
  Hypothesis Hn : (3 <= length data)%nat.
  Hypothesis H64 : (Z.of_nat (length data) <= two64)%Z.
  Hypothesis HL : (0 < L)%nat.
  Notation n := (length data).
  Notation xs' := (map (aff c s) xs).
  (* derivative values in the new unit: first derivatives divide by c, second by c^2 *)
  Notation cv := (conv_single (fun v => v / c) (fun v => v / (c * c))).

  Lemma cne : c <> 0. Proof. apply pos_neq. exact Hc. Qed.
  Lemma HS' : StrictIncQc xs'. Proof. apply StrictIncQc_map; [apply aff_mono; exact Hc|exact HS]. Qed.
  Lemma Hlen' : length xs' = n. Proof. rewrite map_length. exact Hlen. Qed.

  Lemma hq_aff i : (i + 1 < n)%nat -> hq xs' i = c * hq xs i.
  Proof. intros Hi. unfold hq. rewrite !nth_map_Qc by lia. unfold aff. ring. Qed.
  Lemma diff_aff a b : (a < n)%nat -> (b < n)%nat -> nth b xs' 0 - nth a xs' 0 = c * (nth b xs 0 - nth a xs 0).
  Proof. intros Ha Hb. rewrite !nth_map_Qc by lia. unfold aff. ring. Qed.

  Variable j : nat.
  Hypothesis Hj : (j < L)%nat.

  Definition Raxis (r r' : qrow) : Prop :=
    forall kp km kn, s_low r * kp + s_mid r * km + s_up r * kn = s_rhs r ->
                     s_low r' * (kp / c) + s_mid r' * (km / c) + s_up r' * (kn / c) = s_rhs r'.

  Lemma hne2 i : (i + 1 < n)%nat -> hq xs i <> 0.
  Proof. intros Hi. apply (hq_neq xs data L j Hj HS Hlen Hn i Hi). Qed.

  Lemma Ra_interior i : (1 <= i)%nat -> (i + 1 < n)%nat -> Raxis (s_interior xs data j i) (s_interior xs' data j i).
  Proof.
    intros H1 H2 kp km kn. unfold s_interior. cbn [s_low s_mid s_up s_rhs].
    rewrite !hq_aff by lia. intros E.
    apply (interior_row_scale_axis c (hq xs (i - 1)) (hq xs i)); [exact cne|apply hne2; lia|apply hne2; lia|exact E].
  Qed.

  Ltac fin := field; repeat split; first [exact two_neq_0 | exact three_neq_0 | assumption].

  Lemma Ra_left l : Raxis (s_left xs data j l) (s_left xs' data j (cv l)).
  Proof.
    intros kp km kn. unfold s_left.
    assert (D : nth 2 xs 0 - nth 0 xs 0 <> 0) by (apply Qc_neq_this; apply (StrictIncQc_lt xs 0 2 HS); lia).
    pose proof (hne2 0%nat ltac:(lia)) as N0. pose proof (hne2 1%nat ltac:(lia)) as N1. pose proof cne as Nc.
    destruct l; cbn [conv_single specialize_single s_low s_mid s_up s_rhs];
      rewrite ?diff_aff, ?hq_aff by lia; rewrite ?c0_Qc, ?c1_Qc, ?c2_Qc, ?c3_Qc, ?pow2_Qc; cbn [NumQc add sub mul div]; intros E.
    all: match type of E with ?Le = _ =>
           match goal with |- ?Lh = ?Rh =>
             first [ replace Lh with Le by fin | replace Lh with (Le / c) by fin ] end end.
    all: rewrite E; fin.
  Qed.

  Lemma Ra_right r : Raxis (s_right xs data j r) (s_right xs' data j (cv r)).
  Proof.
    intros kp km kn. unfold s_right.
    assert (D : nth (n - 1) xs 0 - nth (n - 3) xs 0 <> 0) by (apply Qc_neq_this; apply (StrictIncQc_lt xs (n - 3) (n - 1) HS); lia).
    pose proof (hne2 (n - 2)%nat ltac:(lia)) as N0. pose proof (hne2 (n - 3)%nat ltac:(lia)) as N1. pose proof cne as Nc.
    destruct r; cbn [conv_single specialize_single s_low s_mid s_up s_rhs];
      rewrite ?diff_aff, ?hq_aff by lia; rewrite ?c0_Qc, ?c1_Qc, ?c2_Qc, ?c3_Qc, ?pow2_Qc; cbn [NumQc add sub mul div]; intros E.
    all: match type of E with ?Le = _ =>
           match goal with |- ?Lh = ?Rh =>
             first [ replace Lh with Le by fin | replace Lh with (Le / c) by fin ] end end.
    all: rewrite E; fin.
  Qed.

  Lemma Ra_srows l r : Forall2 Raxis (srows xs data j l r) (srows xs' data j (cv l) (cv r)).
  Proof.
    unfold srows. constructor; [apply Ra_left|].
    apply Forall2_app; [|constructor; [apply Ra_right|constructor]].
    assert (G : forall a m, (1 <= a)%nat -> (a + m <= n - 1)%nat ->
              Forall2 Raxis (map (s_interior xs data j) (seq a m)) (map (s_interior xs' data j) (seq a m))).
    { intros a m. revert a. induction m as [|m IH]; intros a H1 H2; [constructor|].
      cbn [seq map]. constructor; [apply Ra_interior; lia|apply IH; lia]. }
    apply G; lia.
  Qed.

  Lemma Ra_parabola : n = 3%nat -> Forall2 Raxis (srows_parabola xs data j) (srows_parabola xs' data j).
  Proof.
    intros E3. unfold srows_parabola. cbv zeta.
    pose proof (hne2 0%nat ltac:(lia)) as N0. pose proof (hne2 1%nat ltac:(lia)) as N1. pose proof cne as Nc.
    repeat constructor; intros kp km kn; cbn [s_low s_mid s_up s_rhs];
      rewrite ?hq_aff by lia; rewrite ?c1_Qc, ?c2_Qc, ?c3_Qc; intros E.
    all: match type of E with ?Le = _ =>
           match goal with |- ?Lh = ?Rh =>
             first [ replace Lh with Le by fin | replace Lh with (Le / c) by fin ] end end.
    all: rewrite E; fin.
  Qed.

  Lemma div0 : 0 / c = 0. Proof. field. exact cne. Qed.

  (* the slopes in the new unit are the slopes divided by c, lane by lane *)
  Theorem spline_slopes_axis_units l r K K' :
    solve_for_k NumQc xs data (IMixed l r) = Ok K ->
    solve_for_k NumQc xs' data (IMixed (cv l) (cv r)) = Ok K' ->
    lane_vec 0 j K' = map (fun k => k / c) (lane_vec 0 j K).
  Proof.
    intros HK HK'.
    destruct (solve_mixed_lane xs data L j Hj Hwidth HS Hlen Hn l r K HK) as [_ Hiff].
    destruct (solve_mixed_lane xs' data L j Hj Hwidth HS' Hlen' Hn (cv l) (cv r) K' HK') as [_ Hiff'].
    cbv zeta in Hiff, Hiff'. rewrite !is_nak_conv in Hiff'.
    symmetry. apply Hiff'.
    pose proof (proj2 (Hiff (lane_vec 0 j K)) eq_refl) as Hs.
    rewrite <- div0 at 1.
    destruct ((n =? 3)%nat && is_nak l && is_nak r) eqn:Epar.
    - apply andb_prop in Epar as [Epar _]. apply andb_prop in Epar as [En _]. apply Nat.eqb_eq in En.
      apply (sat_transport (fun k => k / c) Raxis div0 (fun r r' H => H) _ _ (Ra_parabola En) 0 _ Hs).
    - apply (sat_transport (fun k => k / c) Raxis div0 (fun r r' H => H) _ _ (Ra_srows l r) 0 _ Hs).
  Qed.

  Lemma kk_div k i : kk (map (fun k => k / c) k) i = kk k i / c.
  Proof. unfold kk. rewrite <- div0 at 1. apply (map_nth (fun k => k / c)). Qed.
End SplineAxisUnits.

Section SplineAxisUnitsTop.
  Variable xs : list Qc.
  Variable data : list (list Qc).
  Variable L : nat.
  Variables c s : Qc.
  Hypothesis Hc : 0 < c.
  Hypothesis Hwidth : forall i, (i < length data)%nat -> length (nth i data []) = L.
  Hypothesis HS : StrictIncQc xs.
  Hypothesis Hlen : length xs = length data.
  Hypothesis Hn : (3 <= length data)%nat.
  Hypothesis H64 : (Z.of_nat (length data) <= two64)%Z.
  Hypothesis HL : (0 < L)%nat.
  Notation n := (length data).
  Notation xs' := (map (aff c s) xs).

  (* C15 (CubicSpline, whole interpolator, NotAKnot / Natural / Clamped): expressing the axis and
     the query in another unit (x -> c*x + s, c > 0) does not change the answer, in any lane *)
  Theorem spline_whole_axis_units b l r ext trail sp sp' x v :
    whole_lr b = Some (l, r) ->
    spline_build NumQc b ext xs data trail = Ok sp ->
    spline_build NumQc b ext xs' data trail = Ok sp' ->
    (ext = false -> in_closed_range NumQc 0 xs x = true) ->
    spline_interp NumQc sp xs data x = Ok v ->
    spline_interp NumQc sp' xs' data (aff c s x) = Ok v.
  Proof.
    intros Hb Hsp Hsp' Hx Hv.
    pose proof (HS' xs c s Hc HS) as HSx. pose proof (Hlen' xs data c s Hlen) as Hlx.
    destruct (spline_build_whole xs data b l r ext trail sp Hb Hsp) as (K & HK & ->).
    destruct (spline_build_whole xs' data b l r ext trail sp' Hb Hsp') as (K' & HK' & ->).
    destruct (solve_mixed_shape xs data L Hwidth Hlen Hn HL l r K HK) as [KL KW].
    destruct (solve_mixed_shape xs' data L Hwidth Hlx Hn HL l r K' HK') as [KL' KW'].
    destruct (lower_index_Qc xs x HS ltac:(lia) ltac:(rewrite Hlen; exact H64)) as (i & Hi & Hb2 & _).
    pose proof (lower_index_mono (aff c s) (aff_mono c s Hc) xs x HS ltac:(lia) ltac:(rewrite Hlen; exact H64)) as Hi'.
    rewrite Hi in Hi'.
    assert (Hext1 : sp_ext (sp_of xs data K (if negb ext then ExtNo else ExtYes)) = ExtNo -> in_closed_range NumQc 0 xs x = true).
    { cbn [sp_of sp_ext]. destruct ext; cbn [negb]; [discriminate|]. intros _. apply Hx. reflexivity. }
    assert (Hext2 : sp_ext (sp_of xs' data K' (if negb ext then ExtNo else ExtYes)) = ExtNo -> in_closed_range NumQc 0 xs' (aff c s x) = true).
    { cbn [sp_of sp_ext]. destruct ext; cbn [negb]; [discriminate|]. intros _.
      rewrite (in_closed_range_mono (aff c s) (aff_mono c s Hc) xs x ltac:(lia)). apply Hx. reflexivity. }
    assert (Hnp : forall xx KK, sp_ext (sp_of xx data KK (if negb ext then ExtNo else ExtYes)) <> ExtPeriodic).
    { intros xx KK. cbn [sp_of sp_ext]. destruct ext; discriminate. }
    assert (Lanes : forall j, (j < L)%nat ->
              exists v', spline_interp NumQc (sp_of xs' data K' (if negb ext then ExtNo else ExtYes)) xs' data (aff c s x) = Ok v' /\
                         length v' = L /\ length v = L /\ nth j v' 0 = nth j v 0).
    { intros j Hj.
      destruct (spline_eval_at xs data L j Hj Hwidth HS Hlen Hn K KL KW _ x i Hi ltac:(lia) Hext1 (Hnp _ _))
        as (v0 & Ev0 & Lv0 & Nv0).
      rewrite Hv in Ev0. injection Ev0 as <-.
      destruct (spline_eval_at xs' data L j Hj Hwidth HSx Hlx Hn K' KL' KW' _ (aff c s x) i Hi' ltac:(lia) Hext2 (Hnp _ _))
        as (v' & Ev' & Lv' & Nv').
      exists v'. repeat split; auto. rewrite Nv', Nv0.
      destruct (whole_conv (fun v => v / c) (fun v => v / (c * c)) b l r Hb) as [Cl Cr].
      pose proof (spline_slopes_axis_units xs data L c s Hc Hwidth HS Hlen Hn HL j Hj l r K K' HK) as Esl.
      rewrite Cl, Cr in Esl. rewrite (Esl HK').
      unfold aq, bq. rewrite !(kk_div c Hc), (hq_aff xs data L c s Hlen Hn HL) by lia.
      rewrite nth_map_Qc by lia.
      replace (aff c s x - aff c s (nth i xs 0)) with (c * (x - nth i xs 0)) by (unfold aff; ring).
      apply piece_scale_axis; [apply pos_neq; exact Hc|]. apply (hq_neq xs data L j Hj HS Hlen Hn i). lia. }
    destruct (Lanes 0%nat HL) as (v' & Ev' & Lv' & Lv & _). rewrite Ev'. f_equal.
    apply (nth_ext _ _ 0 0); [lia|].
    intros j Hj. rewrite Lv' in Hj.
    destruct (Lanes j Hj) as (v'' & Ev'' & _ & _ & Nj). rewrite Ev' in Ev''. injection Ev'' as <-. exact Nj.
  Qed.
End SplineAxisUnitsTop.

(* ---------------- additivity in the data ---------------- *)

Fixpoint rows_add (r1 r2 r3 : list qrow) : Prop :=
  match r1, r2, r3 with
  | [], [], [] => True
  | a :: ta, b :: tb, e :: te =>
      (s_low e = s_low a /\ s_low e = s_low b /\ s_mid e = s_mid a /\ s_mid e = s_mid b /\
       s_up e = s_up a /\ s_up e = s_up b /\ s_rhs e = s_rhs a + s_rhs b) /\ rows_add ta tb te
  | _, _, _ => False
  end.

Lemma sat_len rows : forall p k, sat p rows k -> length k = length rows.
Proof.
  induction rows as [|r t IH]; intros p [|x k] H; cbn in *; try contradiction; auto.
  destruct H as [_ H]. f_equal. eapply IH; eauto.
Qed.

Lemma sat_add : forall r1 r2 r3, rows_add r1 r2 r3 ->
  forall p1 p2 k1 k2, sat p1 r1 k1 -> sat p2 r2 k2 -> sat (p1 + p2) r3 (map2 Qcplus k1 k2).
Proof.
  induction r1 as [|a ta IH]; intros [|b tb] [|e te] HR p1 p2 k1 k2 H1 H2; cbn in HR; try contradiction.
  - destruct k1, k2; cbn in *; try contradiction. exact I.
  - destruct k1 as [|x1 k1]; [contradiction|]. destruct k2 as [|x2 k2]; [contradiction|].
    destruct HR as [(L1 & L2 & M1 & M2 & U1 & U2 & Rh) HR]. destruct H1 as [E1 H1]. destruct H2 as [E2 H2].
    cbn [map2 sat]. split; [|apply (IH tb te HR); assumption].
    assert (Hh : hd0 (map2 Qcplus k1 k2) = hd0 k1 + hd0 k2).
    { pose proof (sat_len _ _ _ H1) as A. pose proof (sat_len _ _ _ H2) as B.
      assert (Lt : length ta = length tb).
      { clear -HR. revert tb te HR. induction ta as [|q ta IH]; intros [|q2 tb] [|q3 te] HR; cbn in HR; try contradiction; auto.
        destruct HR as [_ HR]. cbn. f_equal. eapply IH; eauto. }
      destruct k1, k2; cbn in *; try lia; try ring. }
    rewrite Hh, Rh, <- E1, <- E2. rewrite L1 at 1. rewrite M1 at 1. rewrite U1 at 1.
    replace (s_low a * (p1 + p2) + s_mid a * (x1 + x2) + s_up a * (hd0 k1 + hd0 k2))
      with ((s_low a * p1 + s_mid a * x1 + s_up a * hd0 k1) + (s_low a * p2 + s_mid a * x2 + s_up a * hd0 k2)) by ring.
    f_equal. rewrite <- L1, L2, <- M1, M2, <- U1, U2. reflexivity.
Qed.

Definition is_whole (b : single Qc) : Prop :=
  match b with SNotAKnot | SNatural | SClamped => True | _ => False end.

Section SplineAdditive.
  Variable xs : list Qc.
  Variables d1 d2 : list (list Qc).
  Variable L : nat.
  Hypothesis Hw1 : forall i, (i < length d1)%nat -> length (nth i d1 []) = L.
  Hypothesis Hw2 : forall i, (i < length d2)%nat -> length (nth i d2 []) = L.
  Hypothesis HS : StrictIncQc xs.
  Hypothesis Hlen1 : length xs = length d1.
  Hypothesis Hlen2 : length xs = length d2.
  Hypothesis Hn : (3 <= length d1)%nat.
  Hypothesis H64 : (Z.of_nat (length d1) <= two64)%Z.
  Hypothesis HL : (0 < L)%nat.
  Notation n := (length d1).
  Notation d12 := (add_data d1 d2).

  Lemma n12 : length d12 = n.
  Proof. unfold add_data. rewrite map2_length. lia. Qed.
  Lemma Hw12 : forall i, (i < length d12)%nat -> length (nth i d12 []) = L.
  Proof.
    intros i Hi. rewrite n12 in Hi. unfold add_data. rewrite (nth_map2 _ _ _ _ [] [] []) by lia.
    rewrite map2_length, Hw1, Hw2 by lia. apply Nat.min_id.
  Qed.

  Variable j : nat.
  Hypothesis Hj : (j < L)%nat.

  Lemma yq_add i : (i < n)%nat -> yq d12 j i = yq d1 j i + yq d2 j i.
  Proof.
    intros Hi. unfold yq, add_data. rewrite (nth_map2 _ _ _ _ [] [] []) by lia.
    rewrite (nth_map2 _ _ _ _ 0 0 0) by (rewrite ?Hw1, ?Hw2; lia). reflexivity.
  Qed.

  Lemma hne3 i : (i + 1 < n)%nat -> hq xs i <> 0.
  Proof. intros Hi. apply (hq_neq xs d1 L j Hj HS Hlen1 Hn i Hi). Qed.

  Ltac fin3 := field; repeat split; first [exact two_neq_0 | exact three_neq_0 | assumption].

  Lemma A_srows l r : is_whole l -> is_whole r ->
    rows_add (srows xs d1 j l r) (srows xs d2 j l r) (srows xs d12 j l r).
  Proof.
    intros Wl Wr. unfold srows. rewrite n12. replace (length d2) with n by lia.
    assert (D0 : nth 2 xs 0 - nth 0 xs 0 <> 0) by (apply Qc_neq_this; apply (StrictIncQc_lt xs 0 2 HS); lia).
    assert (Dn : nth (n - 1) xs 0 - nth (n - 3) xs 0 <> 0) by (apply Qc_neq_this; apply (StrictIncQc_lt xs (n - 3) (n - 1) HS); lia).
    pose proof (hne3 0%nat ltac:(lia)) as N0. pose proof (hne3 1%nat ltac:(lia)) as N1.
    pose proof (hne3 (n - 2)%nat ltac:(lia)) as N2. pose proof (hne3 (n - 3)%nat ltac:(lia)) as N3.
    cbn [rows_add app]. split.
    - unfold s_left. destruct l; try contradiction; cbn [specialize_single s_low s_mid s_up s_rhs]; repeat split;
        rewrite ?yq_add by lia; rewrite ?c0_Qc, ?c2_Qc, ?c3_Qc, ?pow2_Qc; cbn [NumQc add sub mul div]; fin3.
    - assert (G : forall a m, (1 <= a)%nat -> (a + m <= n - 1)%nat ->
                rows_add (map (s_interior xs d1 j) (seq a m) ++ [s_right xs d1 j r])
                         (map (s_interior xs d2 j) (seq a m) ++ [s_right xs d2 j r])
                         (map (s_interior xs d12 j) (seq a m) ++ [s_right xs d12 j r])).
      { intros a m. revert a. induction m as [|m IH]; intros a H1 H2.
        - cbn [seq map app rows_add]. split; [|exact I].
          unfold s_right. rewrite n12. replace (length d2) with n by lia.
          destruct r; try contradiction; cbn [specialize_single s_low s_mid s_up s_rhs]; repeat split;
            rewrite ?yq_add by lia; rewrite ?c0_Qc, ?c2_Qc, ?c3_Qc, ?pow2_Qc; cbn [NumQc add sub mul div]; fin3.
        - cbn [seq map app rows_add]. split; [|apply IH; lia].
          unfold s_interior. cbn [s_low s_mid s_up s_rhs]. repeat split.
          rewrite !yq_add by lia. unfold rhs_interior. rewrite c3_Qc. cbn [NumQc add sub mul div].
          pose proof (hne3 a ltac:(lia)). pose proof (hne3 (a - 1)%nat ltac:(lia)). fin3. }
      apply G; lia.
  Qed.

  Lemma A_parabola : n = 3%nat ->
    rows_add (srows_parabola xs d1 j) (srows_parabola xs d2 j) (srows_parabola xs d12 j).
  Proof.
    intros E3. unfold srows_parabola. cbv zeta.
    pose proof (hne3 0%nat ltac:(lia)) as N0. pose proof (hne3 1%nat ltac:(lia)) as N1.
    cbn [rows_add s_low s_mid s_up s_rhs]. rewrite !yq_add by lia. rewrite ?c1_Qc, ?c2_Qc, ?c3_Qc.
    repeat split; fin3.
  Qed.

  Theorem spline_slopes_additive l r K1 K2 K12 : is_whole l -> is_whole r ->
    solve_for_k NumQc xs d1 (IMixed l r) = Ok K1 ->
    solve_for_k NumQc xs d2 (IMixed l r) = Ok K2 ->
    solve_for_k NumQc xs d12 (IMixed l r) = Ok K12 ->
    lane_vec 0 j K12 = map2 Qcplus (lane_vec 0 j K1) (lane_vec 0 j K2).
  Proof.
    intros Wl Wr HK1 HK2 HK12.
    destruct (solve_mixed_lane xs d1 L j Hj Hw1 HS Hlen1 Hn l r K1 HK1) as [_ Hiff1].
    destruct (solve_mixed_lane xs d2 L j Hj Hw2 HS Hlen2 ltac:(lia) l r K2 HK2) as [_ Hiff2].
    destruct (solve_mixed_lane xs d12 L j Hj Hw12 HS ltac:(rewrite n12; exact Hlen1) ltac:(rewrite n12; exact Hn) l r K12 HK12) as [_ Hiff12].
    cbv zeta in *. rewrite n12 in Hiff12. replace (length d2) with n in Hiff2 by lia.
    symmetry. apply Hiff12.
    pose proof (proj2 (Hiff1 _) eq_refl) as S1. pose proof (proj2 (Hiff2 _) eq_refl) as S2.
    replace 0 with (0 + 0) at 1 by ring.
    destruct ((n =? 3)%nat && is_nak l && is_nak r) eqn:Epar.
    - apply andb_prop in Epar as [Epar _]. apply andb_prop in Epar as [En _]. apply Nat.eqb_eq in En.
      apply (sat_add _ _ _ (A_parabola En) 0 0 _ _ S1 S2).
    - apply (sat_add _ _ _ (A_srows l r Wl Wr) 0 0 _ _ S1 S2).
  Qed.
End SplineAdditive.

Lemma piece_additive y1 y2 yr1 yr2 k1 k2 kr1 kr2 h u : h <> 0 ->
  piece (y1 + y2) (k1 + k2) (ca (k1 + k2) h ((yr1 + yr2) - (y1 + y2))) (cb (kr1 + kr2) h ((yr1 + yr2) - (y1 + y2))) h u =
  piece y1 k1 (ca k1 h (yr1 - y1)) (cb kr1 h (yr1 - y1)) h u + piece y2 k2 (ca k2 h (yr2 - y2)) (cb kr2 h (yr2 - y2)) h u.
Proof. intros Hh. unfold piece, m2, m3, ca, cb. field. exact Hh. Qed.

Lemma kk_add ka kb i : length ka = length kb -> kk (map2 Qcplus ka kb) i = kk ka i + kk kb i.
Proof.
  unfold kk. revert kb i. induction ka as [|a ka IH]; intros [|b kb] i Hl; cbn in Hl; try discriminate.
  - destruct i; cbn; ring.
  - destruct i; cbn [map2 nth]; [reflexivity|]. apply IH. lia.
Qed.

Section SplineAdditiveTop.
  Variable xs : list Qc.
  Variables d1 d2 : list (list Qc).
  Variable L : nat.
  Hypothesis Hw1 : forall i, (i < length d1)%nat -> length (nth i d1 []) = L.
  Hypothesis Hw2 : forall i, (i < length d2)%nat -> length (nth i d2 []) = L.
  Hypothesis HS : StrictIncQc xs.
  Hypothesis Hlen1 : length xs = length d1.
  Hypothesis Hlen2 : length xs = length d2.
  Hypothesis Hn : (3 <= length d1)%nat.
  Hypothesis H64 : (Z.of_nat (length d1) <= two64)%Z.
  Hypothesis HL : (0 < L)%nat.
  Notation n := (length d1).
  Notation d12 := (add_data d1 d2).

  Lemma whole_is_whole b l r : whole_lr b = Some (l, r) -> is_whole l /\ is_whole r.
  Proof. destruct b; cbn; intros H; try discriminate; injection H as <- <-; split; exact I. Qed.

  (* C15 (CubicSpline, whole interpolator, NotAKnot / Natural / Clamped): the answer for a sum of
     data sets is the sum of the answers, for every query and lane *)
  Theorem spline_whole_additive b l r ext trail sp1 sp2 sp12 x v1 v2 :
    whole_lr b = Some (l, r) ->
    spline_build NumQc b ext xs d1 trail = Ok sp1 ->
    spline_build NumQc b ext xs d2 trail = Ok sp2 ->
    spline_build NumQc b ext xs d12 trail = Ok sp12 ->
    (ext = false -> in_closed_range NumQc 0 xs x = true) ->
    spline_interp NumQc sp1 xs d1 x = Ok v1 ->
    spline_interp NumQc sp2 xs d2 x = Ok v2 ->
    spline_interp NumQc sp12 xs d12 x = Ok (map2 Qcplus v1 v2).
  Proof.
    intros Hb Hs1 Hs2 Hs12 Hx Hv1 Hv2.
    assert (E2 : length d2 = n) by lia.
    pose proof (n12 xs d1 d2 L Hlen1 Hlen2 Hn HL) as E12.
    pose proof (Hw12 xs d1 d2 L Hw1 Hw2 Hlen1 Hlen2 Hn HL) as Hw.
    destruct (spline_build_whole xs d1 b l r ext trail sp1 Hb Hs1) as (K1 & HK1 & ->).
    destruct (spline_build_whole xs d2 b l r ext trail sp2 Hb Hs2) as (K2 & HK2 & ->).
    destruct (spline_build_whole xs d12 b l r ext trail sp12 Hb Hs12) as (K12 & HK12 & ->).
    destruct (solve_mixed_shape xs d1 L Hw1 Hlen1 Hn HL l r K1 HK1) as [KL1 KW1].
    destruct (solve_mixed_shape xs d2 L Hw2 Hlen2 ltac:(lia) HL l r K2 HK2) as [KL2 KW2].
    destruct (solve_mixed_shape xs d12 L Hw ltac:(rewrite E12; exact Hlen1) ltac:(rewrite E12; exact Hn) HL l r K12 HK12) as [KL12 KW12].
    destruct (lower_index_Qc xs x HS ltac:(lia) ltac:(rewrite Hlen1; exact H64)) as (i & Hi & Hb2 & _).
    assert (Hext : forall dd KK, sp_ext (sp_of xs dd KK (if negb ext then ExtNo else ExtYes)) = ExtNo -> in_closed_range NumQc 0 xs x = true).
    { intros dd KK. cbn [sp_of sp_ext]. destruct ext; cbn [negb]; [discriminate|]. intros _. apply Hx. reflexivity. }
    assert (Hnp : forall dd KK, sp_ext (sp_of xs dd KK (if negb ext then ExtNo else ExtYes)) <> ExtPeriodic).
    { intros dd KK. cbn [sp_of sp_ext]. destruct ext; discriminate. }
    destruct (whole_is_whole b l r Hb) as [Wl Wr].
    assert (Lanes : forall j, (j < L)%nat ->
              exists v', spline_interp NumQc (sp_of xs d12 K12 (if negb ext then ExtNo else ExtYes)) xs d12 x = Ok v' /\
                         length v' = L /\ length v1 = L /\ length v2 = L /\ nth j v' 0 = nth j v1 0 + nth j v2 0).
    { intros j Hj.
      destruct (spline_eval_at xs d1 L j Hj Hw1 HS Hlen1 Hn K1 KL1 KW1 _ x i Hi ltac:(lia) (Hext _ _) (Hnp _ _))
        as (w1 & Ew1 & Lw1 & Nw1). rewrite Hv1 in Ew1. injection Ew1 as <-.
      destruct (spline_eval_at xs d2 L j Hj Hw2 HS Hlen2 ltac:(lia) K2 KL2 KW2 _ x i Hi ltac:(lia) (Hext _ _) (Hnp _ _))
        as (w2 & Ew2 & Lw2 & Nw2). rewrite Hv2 in Ew2. injection Ew2 as <-.
      destruct (spline_eval_at xs d12 L j Hj Hw HS ltac:(rewrite E12; exact Hlen1) ltac:(rewrite E12; exact Hn)
                  K12 KL12 KW12 _ x i Hi ltac:(rewrite E12; lia) (Hext _ _) (Hnp _ _))
        as (v' & Ev' & Lv' & Nv').
      exists v'. repeat split; auto. rewrite Nv', Nw1, Nw2.
      rewrite (spline_slopes_additive xs d1 d2 L Hw1 Hw2 HS Hlen1 Hlen2 Hn HL j Hj l r K1 K2 K12 Wl Wr HK1 HK2 HK12).
      unfold aq, bq.
      assert (Lk : length (lane_vec 0 j K1) = length (lane_vec 0 j K2)).
      { unfold lane_vec. rewrite !map_length. lia. }
      rewrite !(kk_add _ _ _ Lk), !(yq_add xs d1 d2 L Hw1 Hw2 Hlen1 Hlen2 Hn HL j Hj) by lia.
      apply piece_additive. apply (hq_neq xs d1 L j Hj HS Hlen1 Hn i). lia. }
    destruct (Lanes 0%nat HL) as (v' & Ev' & Lv' & L1 & L2 & _). rewrite Ev'. f_equal.
    apply (nth_ext _ _ 0 0).
    - rewrite map2_length. lia.
    - intros j Hj. rewrite Lv' in Hj.
      destruct (Lanes j Hj) as (v'' & Ev'' & _ & _ & _ & Nj). rewrite Ev' in Ev''. injection Ev'' as <-.
      rewrite Nj. rewrite (nth_map2 _ _ _ _ 0 0 0) by lia. reflexivity.
  Qed.
End SplineAdditiveTop.
