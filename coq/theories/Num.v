(* Num.v -- the number interface of the model.

   The Rust crate is generic over its element type
     T: Num + PartialOrd + NumCast + Copy (+ Euclid + Pow<T> + Neg ... for the spline).
   The Gallina model is generic over a record of the same operations.  Nothing is
   assumed about the operations in this file; law-free theorems quantify over an
   arbitrary [Num T] and therefore hold verbatim for IEEE floats.

   Instances:
     NumQc  exact rationals in canonical form (Leibniz equality, [field] works)
     NumXQ  rationals extended by +inf, -inf, NaN with IEEE comparison semantics
     NumZ   integers with truncating division (i32 / i64 axes without overflow)   *)

From Coq Require Import List ZArith QArith Qcanon Bool Lia.
Import ListNotations.

Record Num (T : Type) : Type := mkNum {
  zero : T;
  one : T;
  add : T -> T -> T;
  sub : T -> T -> T;
  mul : T -> T -> T;
  div : T -> T -> T;
  neg : T -> T;
  ltb : T -> T -> bool;          (* a < b   (false when unordered)            *)
  leb : T -> T -> bool;          (* a <= b  (false when unordered)            *)
  eqb : T -> T -> bool;          (* a == b  (false when unordered)            *)
  of_nat : nat -> T;             (* NumCast::from(usize) / cast(0.0)..cast(3.0) *)
  to_idx : T -> option Z;        (* cast::<T,usize>: None = the unimplemented!() panic *)
  rem_euclid : T -> T -> T;      (* Euclid::rem_euclid                        *)
  pow : T -> T -> T              (* Pow<T>::pow                               *)
}.

Arguments zero {T} _.
Arguments one {T} _.
Arguments add {T} _ _ _.
Arguments sub {T} _ _ _.
Arguments mul {T} _ _ _.
Arguments div {T} _ _ _.
Arguments neg {T} _ _.
Arguments ltb {T} _ _ _.
Arguments leb {T} _ _ _.
Arguments eqb {T} _ _ _.
Arguments of_nat {T} _ _.
Arguments to_idx {T} _ _.
Arguments rem_euclid {T} _ _ _.
Arguments pow {T} _ _ _.

(* Rust's `a > b` and `a >= b` on PartialOrd are `b < a` and `b <= a`. *)
Definition gtb {T} (N : Num T) (a b : T) : bool := ltb N b a.
Definition geb {T} (N : Num T) (a b : T) : bool := leb N b a.

(* ------------------------------------------------------------------ *)
(* Exact rationals                                                     *)

Definition qc (n : Z) (d : positive) : Qc := Q2Qc (n # d).

Definition qc_leb (a b : Qc) : bool := Qle_bool (this a) (this b).
Definition qc_ltb (a b : Qc) : bool := negb (Qle_bool (this b) (this a)).
Definition qc_eqb (a b : Qc) : bool := Qeq_bool (this a) (this b).

(* truncation toward zero, as `as usize` / num-traits float->usize casts do:
   accepted iff -1 < q < 2^64 *)
Definition two64 : Z := 18446744073709551616%Z.
Definition q_trunc (q : Q) : Z := Z.quot (Qnum q) (Zpos (Qden q)).
Definition qc_to_idx (a : Qc) : option Z :=
  let z := q_trunc (this a) in
  if Qle_bool (this a) (-1 # 1) then None
  else if (two64 <=? z)%Z then None
  else Some z.

Definition q_floor (q : Q) : Z := (Qnum q / Zpos (Qden q))%Z.
(* r = a - |b| * floor(a / |b|), in [0, |b|) ; b = 0 gives 0 (never used: P > 0) *)
Definition qc_abs (b : Qc) : Qc := if Qle_bool 0 (this b) then b else (- b)%Qc.
Definition qc_rem_euclid (a b : Qc) : Qc :=
  if Qeq_bool (this b) 0 then 0%Qc
  else let m := qc_abs b in
       (a - m * Q2Qc (q_floor (this (a / m)%Qc) # 1))%Qc.

Definition qc_pow (x e : Qc) : Qc :=
  match Qden (this e) with
  | 1%positive => if (0 <=? Qnum (this e))%Z then Qcpower x (Z.to_nat (Qnum (this e))) else 0%Qc
  | _ => 0%Qc
  end.

Definition NumQc : Num Qc := {|
  zero := 0%Qc; one := 1%Qc;
  add := Qcplus; sub := Qcminus; mul := Qcmult; div := Qcdiv; neg := Qcopp;
  ltb := qc_ltb; leb := qc_leb; eqb := qc_eqb;
  of_nat := fun n => Q2Qc (Z.of_nat n # 1);
  to_idx := qc_to_idx;
  rem_euclid := qc_rem_euclid;
  pow := qc_pow |}.

(* ------------------------------------------------------------------ *)
(* Extended rationals: finite | +inf | -inf | NaN, IEEE-like.
   Deviation from IEEE that is documented in DESIGN.md: there is no signed zero
   (x / 0 takes the sign of x only).                                           *)

Inductive xq : Type := XFin (q : Qc) | XPInf | XNInf | XNaN.

Definition qc_sgn (a : Qc) : comparison := (Qnum (this a) ?= 0)%Z.

Definition xq_neg (a : xq) : xq :=
  match a with XFin q => XFin (- q)%Qc | XPInf => XNInf | XNInf => XPInf | XNaN => XNaN end.

Definition xq_add (a b : xq) : xq :=
  match a, b with
  | XNaN, _ | _, XNaN => XNaN
  | XFin x, XFin y => XFin (x + y)%Qc
  | XPInf, XNInf | XNInf, XPInf => XNaN
  | XPInf, _ | _, XPInf => XPInf
  | XNInf, _ | _, XNInf => XNInf
  end.

Definition xq_sub (a b : xq) : xq := xq_add a (xq_neg b).

Definition xq_signed_inf (s : comparison) : xq :=
  match s with Gt => XPInf | Lt => XNInf | Eq => XNaN end.
Definition cmp_mul (s t : comparison) : comparison :=
  match s, t with
  | Eq, _ | _, Eq => Eq
  | Gt, Gt | Lt, Lt => Gt
  | _, _ => Lt
  end.
Definition xq_sign (a : xq) : comparison :=
  match a with XFin q => qc_sgn q | XPInf => Gt | XNInf => Lt | XNaN => Eq end.

Definition xq_mul (a b : xq) : xq :=
  match a, b with
  | XNaN, _ | _, XNaN => XNaN
  | XFin x, XFin y => XFin (x * y)%Qc
  | _, _ => xq_signed_inf (cmp_mul (xq_sign a) (xq_sign b))
  end.

Definition xq_div (a b : xq) : xq :=
  match a, b with
  | XNaN, _ | _, XNaN => XNaN
  | XFin x, XFin y =>
      if Qeq_bool (this y) 0 then xq_signed_inf (qc_sgn x) else XFin (x / y)%Qc
  | XFin _, _ => XFin 0%Qc
  | _, XFin y =>
      match qc_sgn y with
      | Eq => a
      | s => xq_signed_inf (cmp_mul (xq_sign a) s)
      end
  | _, _ => XNaN
  end.

Definition xq_leb (a b : xq) : bool :=
  match a, b with
  | XNaN, _ | _, XNaN => false
  | XFin x, XFin y => qc_leb x y
  | XNInf, _ => true
  | _, XPInf => true
  | _, _ => false
  end.
Definition xq_ltb (a b : xq) : bool :=
  match a, b with
  | XNaN, _ | _, XNaN => false
  | XFin x, XFin y => qc_ltb x y
  | XNInf, XNInf => false
  | XPInf, XPInf => false
  | XNInf, _ => true
  | _, XPInf => true
  | _, _ => false
  end.
Definition xq_eqb (a b : xq) : bool :=
  match a, b with
  | XFin x, XFin y => qc_eqb x y
  | XPInf, XPInf => true
  | XNInf, XNInf => true
  | _, _ => false
  end.

Definition NumXQ : Num xq := {|
  zero := XFin 0%Qc; one := XFin 1%Qc;
  add := xq_add; sub := xq_sub; mul := xq_mul; div := xq_div; neg := xq_neg;
  ltb := xq_ltb; leb := xq_leb; eqb := xq_eqb;
  of_nat := fun n => XFin (Q2Qc (Z.of_nat n # 1));
  to_idx := fun a => match a with XFin q => qc_to_idx q | _ => None end;
  rem_euclid := fun a b =>
    match a, b with
    | XFin x, XFin y => if Qeq_bool (this y) 0 then XNaN else XFin (qc_rem_euclid x y)
    | _, _ => XNaN
    end;
  pow := fun a e => match a, e with XFin x, XFin y => XFin (qc_pow x y) | _, _ => XNaN end |}.

(* ------------------------------------------------------------------ *)
(* Integers (i32 / i64 axes; overflow is outside the model and excluded
   by the generators and by C11's hypothesis of a finite span).         *)

Definition NumZ : Num Z := {|
  zero := 0%Z; one := 1%Z;
  add := Z.add; sub := Z.sub; mul := Z.mul; div := Z.quot; neg := Z.opp;
  ltb := Z.ltb; leb := Z.leb; eqb := Z.eqb;
  of_nat := Z.of_nat;
  to_idx := fun z => if (z <? 0)%Z then None else Some z;
  rem_euclid := fun a b => if (b =? 0)%Z then 0%Z else (a mod Z.abs b)%Z;
  pow := fun a e => if (e <? 0)%Z then 0%Z else Z.pow a e |}.
