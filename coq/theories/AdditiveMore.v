(* AdditiveMore.v -- C15, additivity in the data at the remaining places: Bilinear at interpolator level and
   the Periodic spline at the level of the slopes (by uniqueness of the solution of the cyclic system). *)

From Coq Require Import List Bool Arith ZArith QArith Qcanon Lia Lqa.
From NI Require Import Num Base Lookup Linear Interp Spline Tri TriProofs SplineAlgebra LookupProofs LinearProofs LinearExact
  SplineProofs Units UnitsList BilinearList PeriodicSolve PeriodicLane PeriodicUnits.
Import ListNotations.
Local Open Scope Qc_scope.

Definition add_data2 (d1 d2 : list (list (list Qc))) : list (list (list Qc)) := map2 (map2 (map2 Qcplus)) d1 d2.

Section BilinearAdditive.
  Variables xax yax : list Qc.
  Variables d1 d2 : list (list (list Qc)).
  Hypothesis HSx : StrictIncQc xax.
  Hypothesis HSy : StrictIncQc yax.
  Hypothesis Hnx : (2 <= length xax)%nat.
  Hypothesis Hny : (2 <= length yax)%nat.
  Hypothesis H64x : (Z.of_nat (length xax) <= two64)%Z.
  Hypothesis H64y : (Z.of_nat (length yax) <= two64)%Z.
  Hypothesis Hlen1 : length d1 = length xax.
  Hypothesis Hlen2 : length d2 = length xax.
  Hypothesis Hrows1 : forall i, (i < length d1)%nat -> length (nth i d1 []) = length yax.
  Hypothesis Hrows2 : forall i, (i < length d2)%nat -> length (nth i d2 []) = length yax.
  Hypothesis Hlanes : forall i j, (i < length xax)%nat -> (j < length yax)%nat -> length (cell d1 i j) = length (cell d2 i j).

  Lemma cell_add i j : (i < length xax)%nat -> (j < length yax)%nat ->
    cell (add_data2 d1 d2) i j = map2 Qcplus (cell d1 i j) (cell d2 i j).
  Proof.
    intros Hi Hj. unfold cell, add_data2.
    rewrite (nth_map2 _ _ _ _ [] [] []) by lia.
    rewrite (nth_map2 _ _ _ _ [] [] []) by (rewrite ?Hrows1, ?Hrows2; lia). reflexivity.
  Qed.

  Theorem bilinear_additive_list ext x y v1 v2 :
    bilinear_interp NumQc ext xax yax d1 x y = Ok v1 -> bilinear_interp NumQc ext xax yax d2 x y = Ok v2 ->
    bilinear_interp NumQc ext xax yax (add_data2 d1 d2) x y = Ok (map2 Qcplus v1 v2).
  Proof.
    destruct (lower_index_Qc xax x HSx Hnx H64x) as (ix & Lx & Bx & _).
    destruct (lower_index_Qc yax y HSy Hny H64y) as (iy & Ly & By' & _).
    pose proof (range_guard_spec NumQc 0 ext xax x ltac:(lia)) as RGx.
    pose proof (range_guard_spec NumQc 0 ext yax y ltac:(lia)) as RGy.
    destruct (ext || in_closed_range NumQc 0 xax x) eqn:Ex; [|unfold bilinear_interp; rewrite RGx; discriminate].
    destruct (ext || in_closed_range NumQc 0 yax y) eqn:Ey; [|unfold bilinear_interp; rewrite RGx, RGy; discriminate].
    rewrite (bilinear_reads_four_corners NumQc 0 ext xax yax d1 x y ix iy RGx RGy Lx Ly ltac:(lia) ltac:(lia) Hlen1 Hrows1).
    rewrite (bilinear_reads_four_corners NumQc 0 ext xax yax d2 x y ix iy RGx RGy Lx Ly ltac:(lia) ltac:(lia) Hlen2 Hrows2).
    assert (La : length (add_data2 d1 d2) = length xax).
    { unfold add_data2. rewrite map2_length, Hlen1, Hlen2. apply Nat.min_id. }
    assert (Ra : forall i, (i < length (add_data2 d1 d2))%nat -> length (nth i (add_data2 d1 d2) []) = length yax).
    { intros i Hi. rewrite La in Hi. unfold add_data2. rewrite (nth_map2 _ _ _ _ [] [] []) by lia.
      rewrite map2_length, Hrows1, Hrows2 by lia. apply Nat.min_id. }
    rewrite (bilinear_reads_four_corners NumQc 0 ext xax yax _ x y ix iy RGx RGy Lx Ly ltac:(lia) ltac:(lia) La Ra).
    intros E1 E2. injection E1 as <-. injection E2 as <-. f_equal.
    rewrite !cell_add by lia.
    pose proof (Hlanes ix iy ltac:(lia) ltac:(lia)) as W1. pose proof (Hlanes ix (iy + 1)%nat ltac:(lia) ltac:(lia)) as W2.
    pose proof (Hlanes (ix + 1)%nat iy ltac:(lia) ltac:(lia)) as W3. pose proof (Hlanes (ix + 1)%nat (iy + 1)%nat ltac:(lia) ltac:(lia)) as W4.
    assert (Hx : nth (ix + 1) xax 0 - nth ix xax 0 <> 0).
    { apply Qc_neq_this. apply (StrictIncQc_lt xax ix (ix + 1) HSx); lia. }
    assert (Hy : nth (iy + 1) yax 0 - nth iy yax 0 <> 0).
    { apply Qc_neq_this. apply (StrictIncQc_lt yax iy (iy + 1) HSy); lia. }
    revert W1 W2 W3 W4.
    generalize (cell d1 ix iy) (cell d1 ix (iy + 1)) (cell d1 (ix + 1) iy) (cell d1 (ix + 1) (iy + 1))
               (cell d2 ix iy) (cell d2 ix (iy + 1)) (cell d2 (ix + 1) iy) (cell d2 (ix + 1) (iy + 1)).
    induction l as [|a1 t1 IH]; intros [|a2 t2] [|a3 t3] [|a4 t4] [|b1 s1] [|b2 s2] [|b3 s3] [|b4 s4] W1 W2 W3 W4;
      cbn [map2 map4 length] in *; try lia; try reflexivity.
    rewrite IH by lia. f_equal. apply bilinear_additive; assumption.
  Qed.
End BilinearAdditive.

(* Periodic: the slopes of a sum of data sets are the sums of the slopes *)
Lemma cyclic_sys_add n (h y1 y2 k1 k2 : nat -> Qc) : (4 <= n)%nat ->
  (forall i, (i + 1 < n)%nat -> h i <> 0) ->
  cyclic_sys n h y1 k1 -> cyclic_sys n h y2 k2 ->
  cyclic_sys n h (fun i => y1 i + y2 i) (fun i => k1 i + k2 i).
Proof.
  intros Hn Hh (A1 & A2 & A3 & A4) (B1 & B2 & B3 & B4). unfold cyclic_sys, rhs0, rhs_last in *. repeat split.
  - match goal with |- ?L = _ => replace L with ((h 0%nat * k1 (n - 2)%nat + c2 NumQc * (h (n - 2)%nat + h 0%nat) * k1 0%nat + h (n - 2)%nat * k1 1%nat)
        + (h 0%nat * k2 (n - 2)%nat + c2 NumQc * (h (n - 2)%nat + h 0%nat) * k2 0%nat + h (n - 2)%nat * k2 1%nat)) by ring end.
    rewrite A1, B1. field. split; apply Hh; lia.
  - intros i H1 H2.
    match goal with |- ?L = _ => replace L with ((h i * k1 (i - 1)%nat + c2 NumQc * (h i + h (i - 1)%nat) * k1 i + h (i - 1)%nat * k1 (i + 1)%nat)
        + (h i * k2 (i - 1)%nat + c2 NumQc * (h i + h (i - 1)%nat) * k2 i + h (i - 1)%nat * k2 (i + 1)%nat)) by ring end.
    rewrite (A2 i H1 H2), (B2 i H1 H2). unfold rhs_interior. rewrite c3_Qc. cbn [NumQc add sub mul div]. field. split; apply Hh; lia.
  - match goal with |- ?L = _ => replace L with ((h (n - 2)%nat * k1 (n - 3)%nat + c2 NumQc * (h (n - 2)%nat + h (n - 3)%nat) * k1 (n - 2)%nat + h (n - 3)%nat * k1 (n - 1)%nat)
        + (h (n - 2)%nat * k2 (n - 3)%nat + c2 NumQc * (h (n - 2)%nat + h (n - 3)%nat) * k2 (n - 2)%nat + h (n - 3)%nat * k2 (n - 1)%nat)) by ring end.
    rewrite A3, B3. field. split; apply Hh; lia.
  - rewrite A4, B4. reflexivity.
Qed.

Section PeriodicAdditive.
  Variable xs : list Qc.
  Variables d1 d2 : list (list Qc).
  Variable L : nat.
  Variable j : nat.
  Hypothesis Hj : (j < L)%nat.
  Hypothesis Hw1 : forall i, (i < length d1)%nat -> length (nth i d1 []) = L.
  Hypothesis Hw2 : forall i, (i < length d2)%nat -> length (nth i d2 []) = L.
  Hypothesis HS : StrictIncQc xs.
  Hypothesis Hlen1 : length xs = length d1.
  Hypothesis Hlen2 : length xs = length d2.
  Hypothesis Hn : (4 <= length d1)%nat.
  Notation n := (length d1).

  Theorem periodic_slopes_additive i : (i < n)%nat ->
    nth j (nth i (periodic_k NumQc xs (add_data d1 d2) n) []) 0
    = nth j (nth i (periodic_k NumQc xs d1 n) []) 0 + nth j (nth i (periodic_k NumQc xs d2 n) []) 0.
  Proof.
    intros Hi.
    assert (HL : (0 < L)%nat) by lia.
    pose proof (n12 xs d1 d2 L Hlen1 Hlen2 ltac:(lia) HL) as E12.
    pose proof (Hw12 xs d1 d2 L Hw1 Hw2 Hlen1 Hlen2 ltac:(lia) HL) as Hw.
    pose proof (periodic_slopes_system xs d1 L j Hj Hw1 HS Hlen1 Hn) as S1. cbv zeta in S1.
    pose proof (periodic_slopes_system xs d2 L j Hj Hw2 HS Hlen2 ltac:(lia)) as S2. cbv zeta in S2.
    replace (length d2) with n in S2 by lia.
    pose proof (periodic_slopes_system xs (add_data d1 d2) L j Hj Hw HS ltac:(rewrite E12; exact Hlen1) ltac:(rewrite E12; exact Hn)) as S12.
    cbv zeta in S12. rewrite E12 in S12.
    assert (hpos : forall q, (q + 1 < n)%nat -> 0 < hq xs q).
    { intros q Hq. apply (hq_pos xs d1 L j Hj HS Hlen1 ltac:(lia) q Hq). }
    apply (cyclic_sys_unique n (hq xs) (fun q => yq d1 j q + yq d2 j q) Hn hpos
             (fun q => nth j (nth q (periodic_k NumQc xs (add_data d1 d2) n) []) 0)
             (fun q => nth j (nth q (periodic_k NumQc xs d1 n) []) 0 + nth j (nth q (periodic_k NumQc xs d2 n) []) 0)); [| |exact Hi].
    - eapply cyclic_sys_ext; [exact Hn|reflexivity| |exact S12].
      intros q Hq. apply (yq_add xs d1 d2 L Hw1 Hw2 Hlen1 Hlen2 ltac:(lia) HL j Hj q Hq).
    - apply cyclic_sys_add; [exact Hn| |exact S1|exact S2].
      intros q Hq. apply Qc_pos_neq, hpos. exact Hq.
  Qed.
End PeriodicAdditive.
