(* LookupProofs.v -- C11: get_lower_index returns the bracketing interval.

   The search itself is proved correct for an ARBITRARY element type and comparison
   functions (only  a < b -> not (b <= a)  is used): its result is characterised by the two
   tests the code performs, ax[i] <= x and not (ax[i+1] <= x).  Order laws on the non-NaN
   elements are used to restate this as ax[i] <= x < ax[i+1] and to show that the result is
   unique, hence independent of the O(1) guess (and of how that guess was rounded).        *)

From Coq Require Import List Bool Arith ZArith QArith Qcanon Lia Lqa Psatz.
From NI Require Import Num Base Lookup.
Import ListNotations.
Local Open Scope nat_scope.

Record OrderLaws {T} (N : Num T) (valid : T -> Prop) : Prop := {
  ol_trans : forall a b c, valid a -> valid b -> valid c ->
             leb N a b = true -> leb N b c = true -> leb N a c = true;
  ol_total : forall a b, valid a -> valid b -> leb N a b = true \/ leb N b a = true;
  ol_lt : forall a b, valid a -> valid b -> ltb N a b = negb (leb N b a);
  ol_lt_weak : forall a b, ltb N a b = true -> leb N b a = false
}.

Section Generic.
  Context {T : Type} (N : Num T).
  Variable d : T.    (* default for nth; never observed inside bounds *)
  Hypothesis lt_not_le : forall a b, ltb N a b = true -> leb N b a = false.

  Notation nthx ax i := (nth i ax d).

  Lemma idx_nthx (ax : list T) i : i < length ax -> idx ax i = Ok (nthx ax i).
  Proof. apply idx_nth. Qed.

  (* ---- the binary search keeps its invariant; no order law needed ---- *)
  Lemma bsearch_spec ax x : forall fuel lo hi,
    hi - lo < fuel -> lo < hi -> hi < length ax ->
    leb N (nthx ax lo) x = true -> leb N (nthx ax hi) x = false ->
    exists i, bsearch N fuel ax x lo hi = Ok i /\ lo <= i /\ i < hi /\
              leb N (nthx ax i) x = true /\ leb N (nthx ax (i + 1)) x = false.
  Proof.
    induction fuel as [|f IH]; intros lo hi Hf Hlt Hn Hlo Hhi; [lia|].
    cbn [bsearch]. destruct (lo + 1 <? hi) eqn:E.
    - apply Nat.ltb_lt in E.
      set (m := (hi - lo) / 2 + lo).
      assert (Hm : lo < m /\ m < hi).
      { unfold m. pose proof (Nat.div_str_pos (hi - lo) 2 ltac:(lia)).
        pose proof (Nat.div_lt (hi - lo) 2 ltac:(lia) ltac:(lia)). lia. }
      rewrite (idx_nthx ax m) by lia. cbn [bind].
      destruct (leb N (nthx ax m) x) eqn:Em.
      + destruct (IH m hi) as (i & Hi & ? & ? & ? & ?); try lia; auto.
        exists i. repeat split; auto; lia.
      + destruct (IH lo m) as (i & Hi & ? & ? & ? & ?); try lia; auto.
        exists i. repeat split; auto; lia.
    - apply Nat.ltb_ge in E. assert (hi = lo + 1) by lia. subst hi.
      exists lo. repeat split; auto.
  Qed.

  (* the two clamps, as the code tests them *)
  Definition below_first (ax : list T) (x : T) : bool := leb N x (nthx ax 0).
  Definition above_last (ax : list T) (x : T) : bool := geb N x (nthx ax (length ax - 1)).

  (* what the code needs from the guess when the query is strictly inside *)
  Definition guess_ok (gf : list T -> T -> T -> T -> option Z) (ax : list T) (x : T) : Prop :=
    exists gz, gf ax x (nthx ax 0) (nthx ax (length ax - 1)) = Some gz /\
               (0 <= gz < Z.of_nat (length ax))%Z.

  (* the declarative result *)
  Definition bracket (ax : list T) (x : T) (i : nat) : Prop :=
    i + 2 <= length ax /\
    (below_first ax x = true -> i = 0) /\
    (below_first ax x = false -> above_last ax x = true -> i = length ax - 2) /\
    (below_first ax x = false -> above_last ax x = false ->
       leb N (nthx ax i) x = true /\ leb N (nthx ax (i + 1)) x = false).

  Theorem lower_index_bracket gf ax x :
    2 <= length ax ->
    (below_first ax x = false -> above_last ax x = false ->
       guess_ok gf ax x /\ leb N (nthx ax 0) x = true) ->
    exists i, lower_index_g N gf ax x = Ok i /\ bracket ax x i.
  Proof.
    intros Hn Hg. unfold lower_index_g, bracket, below_first, above_last in *.
    set (n := length ax) in *.
    rewrite (idx_nthx ax 0) by lia. cbn [bind].
    destruct (leb N x (nthx ax 0)) eqn:E0.
    { exists 0. split; [reflexivity|]. repeat split; auto; try discriminate; lia. }
    unfold usub. destruct (n <? 1) eqn:E1; [apply Nat.ltb_lt in E1; lia|]. cbn [bind].
    rewrite (idx_nthx ax (n - 1)) by lia. cbn [bind].
    destruct (geb N x (nthx ax (n - 1))) eqn:El.
    { destruct (n <? 2) eqn:E2; [apply Nat.ltb_lt in E2; lia|].
      exists (n - 2). split; [reflexivity|]. repeat split; auto; try discriminate; lia. }
    destruct (Hg eq_refl eq_refl) as [(gz & Hgz & Hr) H0]. fold n in Hgz.
    rewrite Hgz. destruct (Z.of_nat n <=? gz)%Z eqn:Eg; [apply Z.leb_le in Eg; lia|].
    destruct (gz <? 0)%Z eqn:Eg0; [apply Z.ltb_lt in Eg0; lia|].
    set (g := Z.to_nat gz). assert (Hgn : g < n) by (unfold g; lia).
    rewrite (idx_nthx ax g) by lia. cbn [bind].
    unfold geb in El.
    destruct (leb N (nthx ax g) x) eqn:Emx.
    - assert (g <> n - 1) by (intros Hx; rewrite Hx in Emx; congruence).
      rewrite (idx_nthx ax (g + 1)) by lia. cbn [bind].
      destruct (ltb N x (nthx ax (g + 1))) eqn:Enx.
      + exists g. split; [reflexivity|]. split; [lia|]. split; [discriminate|].
        split; [discriminate|]. intros _ _. split; [exact Emx|]. apply lt_not_le; exact Enx.
      + destruct (bsearch_spec ax x (S n) g (n - 1)) as (i & Hi & ? & ? & ? & ?); try lia; auto.
        exists i. split; [exact Hi|]. repeat split; auto; try discriminate; lia.
    - assert (g <> 0) by (intros Hz; rewrite Hz in Emx; congruence).
      destruct (bsearch_spec ax x (S n) 0 g) as (i & Hi & ? & ? & ? & ?); try lia; auto.
      exists i. split; [exact Hi|]. repeat split; auto; try discriminate; lia.
  Qed.

End Generic.

Arguments bracket {T} N d ax x i.
Arguments guess_ok {T} d gf ax x.
Arguments below_first {T} N d ax x.
Arguments above_last {T} N d ax x.

(* ------------------------------------------------------------------ *)
(* With order laws on the valid (non-NaN) elements                      *)

Section Ordered.
  Context {T : Type} (N : Num T) (valid : T -> Prop) (OL : OrderLaws N valid).
  Variable d : T.
  Notation nthx ax i := (nth i ax d).

  Definition StrictInc (ax : list T) : Prop :=
    Forall valid ax /\
    forall i, i + 1 < length ax -> ltb N (nthx ax i) (nthx ax (i + 1)) = true.

  Lemma valid_nth ax i : Forall valid ax -> i < length ax -> valid (nthx ax i).
  Proof. intros H Hi. rewrite Forall_forall in H. apply H. apply nth_In; exact Hi. Qed.

  Lemma ltb_trans a b c : valid a -> valid b -> valid c ->
    ltb N a b = true -> ltb N b c = true -> ltb N a c = true.
  Proof.
    intros Va Vb Vc Hab Hbc.
    rewrite (ol_lt _ _ OL) in * by assumption.
    apply negb_true_iff in Hab, Hbc. apply negb_true_iff.
    destruct (leb N c a) eqn:E; [|reflexivity].
    destruct (ol_total _ _ OL a b Va Vb) as [H|H]; [|congruence].
    pose proof (ol_trans _ _ OL c a b Vc Va Vb E H). congruence.
  Qed.

  Lemma ltb_leb a b : valid a -> valid b -> ltb N a b = true -> leb N a b = true.
  Proof.
    intros Va Vb H. rewrite (ol_lt _ _ OL) in H by assumption. apply negb_true_iff in H.
    destruct (ol_total _ _ OL a b Va Vb); congruence.
  Qed.

  Lemma sorted_lt ax i j : StrictInc ax -> i < j -> j < length ax ->
    ltb N (nthx ax i) (nthx ax j) = true.
  Proof.
    intros [Hv Hs] Hij Hj. induction j as [|j IH]; [lia|].
    destruct (Nat.eq_dec i j) as [->|Hne].
    - replace (S j) with (j + 1) by lia. apply Hs. lia.
    - apply (ltb_trans _ (nthx ax j)); try (apply valid_nth; auto; lia).
      + apply IH; lia.
      + replace (S j) with (j + 1) by lia. apply Hs. lia.
  Qed.

  Lemma sorted_le ax i j : StrictInc ax -> i <= j -> j < length ax ->
    leb N (nthx ax i) (nthx ax j) = true.
  Proof.
    intros H Hij Hj. destruct (Nat.eq_dec i j) as [->|Hne].
    - destruct H as [Hv _]. destruct (ol_total _ _ OL (nthx ax j) (nthx ax j)); auto;
        apply valid_nth; auto.
    - apply ltb_leb; try (apply valid_nth; [apply H|lia]). apply sorted_lt; auto; lia.
  Qed.

  (* the result is unique *)
  Theorem bracket_unique ax x i j :
    StrictInc ax -> valid x -> bracket N d ax x i -> bracket N d ax x j -> i = j.
  Proof.
    intros HS Vx (Hi & Hi1 & Hi2 & Hi3) (Hj & Hj1 & Hj2 & Hj3).
    destruct (below_first N d ax x) eqn:E1; [rewrite Hi1, Hj1; auto|].
    destruct (above_last N d ax x) eqn:E2; [rewrite Hi2, Hj2; auto|].
    destruct (Hi3 eq_refl eq_refl) as [A1 A2]. destruct (Hj3 eq_refl eq_refl) as [B1 B2].
    destruct (Nat.lt_trichotomy i j) as [L|[E|L]]; [|exact E|]; exfalso.
    - (* ax[i+1] <= ax[j] <= x *)
      assert (H := sorted_le ax (i + 1) j HS ltac:(lia) ltac:(lia)).
      pose proof (ol_trans _ _ OL _ _ _ (valid_nth ax (i+1) (proj1 HS) ltac:(lia))
                    (valid_nth ax j (proj1 HS) ltac:(lia)) Vx H B1). congruence.
    - assert (H := sorted_le ax (j + 1) i HS ltac:(lia) ltac:(lia)).
      pose proof (ol_trans _ _ OL _ _ _ (valid_nth ax (j+1) (proj1 HS) ltac:(lia))
                    (valid_nth ax i (proj1 HS) ltac:(lia)) Vx H A1). congruence.
  Qed.

  (* C11 main statement *)
  Theorem lower_index_spec gf ax x :
    StrictInc ax -> 2 <= length ax -> valid x ->
    (below_first N d ax x = false -> above_last N d ax x = false -> guess_ok d gf ax x) ->
    exists i, lower_index_g N gf ax x = Ok i /\ i + 2 <= length ax /\
      (leb N x (nthx ax 0) = true -> i = 0) /\
      (leb N x (nthx ax 0) = false -> leb N (nthx ax (length ax - 1)) x = true ->
         i = length ax - 2) /\
      (leb N x (nthx ax 0) = false -> leb N (nthx ax (length ax - 1)) x = false ->
         leb N (nthx ax i) x = true /\ ltb N x (nthx ax (i + 1)) = true).
  Proof.
    intros HS Hn Vx Hg.
    destruct (lower_index_bracket N d (ol_lt_weak _ _ OL) gf ax x Hn) as (i & Hi & Hb).
    { intros E1 E2. split; [auto|]. unfold below_first in E1.
      destruct (ol_total _ _ OL x (nthx ax 0) Vx (valid_nth ax 0 (proj1 HS) ltac:(lia))); congruence. }
    exists i. split; [exact Hi|]. destruct Hb as (H1 & H2 & H3 & H4).
    unfold below_first, above_last, geb in *.
    repeat split; auto.
    - apply H4; auto.
    - destruct (H4 H H0) as [_ K].
      rewrite (ol_lt _ _ OL); [rewrite K; reflexivity|exact Vx|].
      apply valid_nth; [apply HS|lia].
  Qed.

  (* the result does not depend on the guess: any two admissible guess functions agree *)
  Theorem lower_index_guess_irrelevant g1 g2 ax x :
    StrictInc ax -> 2 <= length ax -> valid x ->
    (below_first N d ax x = false -> above_last N d ax x = false ->
       guess_ok d g1 ax x /\ guess_ok d g2 ax x) ->
    lower_index_g N g1 ax x = lower_index_g N g2 ax x.
  Proof.
    intros HS Hn Vx Hg.
    assert (H0 : below_first N d ax x = false -> leb N (nthx ax 0) x = true).
    { unfold below_first. intros E1.
      destruct (ol_total _ _ OL x (nthx ax 0) Vx (valid_nth ax 0 (proj1 HS) ltac:(lia))); congruence. }
    destruct (lower_index_bracket N d (ol_lt_weak _ _ OL) g1 ax x Hn) as (i & Hi & Hbi).
    { intros E1 E2. split; [apply Hg; auto|auto]. }
    destruct (lower_index_bracket N d (ol_lt_weak _ _ OL) g2 ax x Hn) as (j & Hj & Hbj).
    { intros E1 E2. split; [apply Hg; auto|auto]. }
    rewrite Hi, Hj. f_equal. eapply bracket_unique; eauto.
  Qed.

  (* a < b and b <= x give not (x <= a) *)
  Lemma lt_le_not_le a b x : valid a -> valid b -> valid x ->
    ltb N a b = true -> leb N b x = true -> leb N x a = false.
  Proof.
    intros Va Vb Vx Hab Hbx. destruct (leb N x a) eqn:E; [|reflexivity].
    pose proof (ol_trans _ _ OL b x a Vb Vx Va Hbx E) as H.
    rewrite (ol_lt _ _ OL a b Va Vb) in Hab. rewrite H in Hab. discriminate.
  Qed.
  (* not (b <= x) and b < c give not (c <= x) *)
  Lemma not_le_lt_not_le b c x : valid b -> valid c -> valid x ->
    leb N b x = false -> ltb N b c = true -> leb N c x = false.
  Proof.
    intros Vb Vc Vx Hbx Hbc. destruct (leb N c x) eqn:E; [|reflexivity].
    pose proof (ltb_leb b c Vb Vc Hbc) as H.
    pose proof (ol_trans _ _ OL b c x Vb Vc Vx H E). congruence.
  Qed.

  (* C20: the bracket depends only on the two bracketing knots -- any other knot may move,
     as long as the axis stays strictly increasing *)
  Theorem bracket_stable_under_outside_moves ax ax' x i :
    StrictInc ax -> StrictInc ax' -> length ax' = length ax -> valid x ->
    nthx ax' i = nthx ax i -> nthx ax' (i + 1) = nthx ax (i + 1) ->
    bracket N d ax x i -> bracket N d ax' x i.
  Proof.
    intros HS HS' Hlen Vx E1 E2 (Hi & H1 & H2 & H3).
    assert (Vn : forall k, k < length ax' -> valid (nthx ax' k)) by (intros; apply valid_nth; [apply HS'|assumption]).
    unfold bracket, below_first, above_last, geb in *. rewrite Hlen.
    split; [exact Hi|].
    destruct (leb N x (nthx ax 0)) eqn:B.
    { (* clamped left: i = 0 *)
      specialize (H1 eq_refl). subst i. cbn [Nat.add] in *. rewrite E1. rewrite B.
      repeat split; auto; discriminate. }
    destruct (leb N (nthx ax (length ax - 1)) x) eqn:A.
    { (* clamped right: i = n-2 *)
      specialize (H2 eq_refl eq_refl). subst i.
      replace (length ax - 2 + 1) with (length ax - 1) in * by lia.
      rewrite E2, A.
      assert (B' : leb N x (nthx ax' 0) = false).
      { destruct (Nat.eq_dec (length ax - 2) 0) as [Z|NZ].
        - rewrite Z in E1. rewrite E1. exact B.
        - apply (lt_le_not_le _ (nthx ax' (length ax - 1))); try apply Vn; try lia; auto.
          + apply sorted_lt; auto; lia.
          + rewrite E2. exact A. }
      rewrite B'. repeat split; auto; discriminate. }
    destruct (H3 eq_refl eq_refl) as [C1 C2].
    assert (B' : leb N x (nthx ax' 0) = false).
    { destruct (Nat.eq_dec i 0) as [Z|NZ].
      - subst i. rewrite E1. exact B.
      - apply (lt_le_not_le _ (nthx ax' i)); try apply Vn; try lia; auto.
        + apply sorted_lt; auto; lia.
        + rewrite E1. exact C1. }
    assert (A' : leb N (nthx ax' (length ax - 1)) x = false).
    { destruct (Nat.eq_dec (i + 1) (length ax - 1)) as [Z|NZ].
      - rewrite <- Z, E2. exact C2.
      - apply (not_le_lt_not_le (nthx ax' (i + 1))); try apply Vn; try lia; auto.
        + rewrite E2. exact C2.
        + apply sorted_lt; auto; lia. }
    rewrite B', A'. split; [discriminate|]. split; [discriminate|].
    intros _ _. rewrite E1, E2. split; assumption.
  Qed.

End Ordered.

Arguments StrictInc {T} N valid d ax.

(* ------------------------------------------------------------------ *)
(* Instances                                                            *)

Lemma Qle_bool_false a b : Qle_bool a b = false <-> (b < a)%Q.
Proof.
  split; intros H.
  - apply Qnot_le_lt. intros C. apply Qle_bool_iff in C. congruence.
  - destruct (Qle_bool a b) eqn:E; [|reflexivity]. apply Qle_bool_iff in E.
    exfalso. apply (Qlt_not_le _ _ H E).
Qed.

Lemma OrderLaws_Qc : OrderLaws NumQc (fun _ => True).
Proof.
  split; cbn; unfold qc_leb, qc_ltb.
  - intros a b c _ _ _ H1 H2. apply Qle_bool_iff in H1, H2. apply Qle_bool_iff.
    eapply Qle_trans; eauto.
  - intros a b _ _. destruct (Qlt_le_dec (this b) (this a)) as [H|H].
    + right. apply Qle_bool_iff. apply Qlt_le_weak; exact H.
    + left. apply Qle_bool_iff. exact H.
  - reflexivity.
  - intros a b H. apply negb_true_iff in H. exact H.
Qed.

Definition xq_valid (a : xq) : Prop := a <> XNaN.

Lemma OrderLaws_XQ : OrderLaws NumXQ xq_valid.
Proof.
  pose proof OrderLaws_Qc as Q. split; cbn.
  - intros a b c Va Vb Vc. destruct a, b, c; cbn; try congruence; try discriminate; auto.
    apply (ol_trans _ _ Q); exact I.
  - intros a b Va Vb. destruct a, b; cbn; try congruence; auto.
    apply (ol_total _ _ Q); exact I.
  - intros a b Va Vb. unfold xq_valid in *. destruct a, b; cbn; try congruence; auto.
  - intros a b. destruct a, b; cbn; try discriminate; auto.
    intros H. unfold qc_ltb in H. apply negb_true_iff in H. exact H.
Qed.

Lemma OrderLaws_Z : OrderLaws NumZ (fun _ => True).
Proof.
  split; cbn.
  - intros; lia.
  - intros a b _ _. destruct (a <=? b)%Z eqn:E; [left; reflexivity|right]. lia.
  - intros a b _ _. destruct (a <? b)%Z eqn:E1, (b <=? a)%Z eqn:E2; cbn; try reflexivity; lia.
  - intros; lia.
Qed.

(* ---- the exact guess lands inside the vector: 0 <= trunc(mid) <= n-1 ---- *)

Lemma qc_ltb_lt a b : qc_ltb a b = true <-> (this a < this b)%Q.
Proof. unfold qc_ltb. rewrite negb_true_iff. apply Qle_bool_false. Qed.
Lemma qc_leb_le a b : qc_leb a b = true <-> (this a <= this b)%Q.
Proof. unfold qc_leb. apply Qle_bool_iff. Qed.
Lemma qc_leb_gt a b : qc_leb a b = false <-> (this b < this a)%Q.
Proof. unfold qc_leb. apply Qle_bool_false. Qed.

Lemma q_trunc_bounds (q : Q) (m : Z) :
  (0 <= q)%Q -> (q <= inject_Z m)%Q -> (0 <= q_trunc q <= m)%Z.
Proof.
  destruct q as [qn qd]. unfold Qle, q_trunc, inject_Z. cbn. intros H0 Hm.
  rewrite Z.mul_1_r in *. 
  assert (0 <= qn)%Z by lia.
  rewrite Z.quot_div_nonneg by lia.
  split; [apply Z.div_pos; lia|].
  apply Z.div_le_upper_bound; lia.
Qed.

Theorem guess_in_bounds_Qc (ax : list Qc) (x : Qc) (d : Qc) :
  2 <= length ax -> (Z.of_nat (length ax) <= two64)%Z ->
  (this (nth 0 ax d) < this x)%Q -> (this x < this (nth (length ax - 1) ax d))%Q ->
  guess_ok d (guess NumQc) ax x.
Proof.
  intros Hn H64 H0 Hl. unfold guess_ok, guess, calc_frac.
  remember (nth 0 ax d) as a0 eqn:Ea0. remember (nth (length ax - 1) ax d) as al eqn:Eal.
  remember (length ax) as n eqn:En. clear Ea0 Eal.
  cbn [NumQc of_nat to_idx add mul div sub].
  set (mid := ((Q2Qc (Z.of_nat (n - 1) # 1) - Q2Qc (Z.of_nat 0 # 1)) / (al - a0) * (x - a0)
               + Q2Qc (Z.of_nat 0 # 1))%Qc).
  assert (Hspan : (0 < this al - this a0)%Q) by lra.
  assert (Hmid : (this mid == inject_Z (Z.of_nat (n - 1)) * (this x - this a0) / (this al - this a0))%Q).
  { unfold mid. cbn [this Qcplus Qcmult Qcminus Qcdiv Qcinv Qcopp Q2Qc].
    rewrite !Qred_correct. unfold inject_Z. cbn [Z.of_nat]. field. lra. }
  assert (HM : (0 <= inject_Z (Z.of_nat (n - 1)))%Q) by (unfold inject_Z, Qle; cbn; lia).
  assert (Hpos : (0 <= this mid)%Q).
  { rewrite Hmid. apply Qle_shift_div_l; [exact Hspan|]. rewrite Qmult_0_l.
    apply Qmult_le_0_compat; [exact HM|lra]. }
  assert (Hle : (this mid <= inject_Z (Z.of_nat (n - 1)))%Q).
  { rewrite Hmid. apply Qle_shift_div_r; [exact Hspan|].
    generalize dependent (inject_Z (Z.of_nat (n - 1))). intros M _ HM. nra. }
  pose proof (q_trunc_bounds _ _ Hpos Hle) as [B1 B2].
  unfold qc_to_idx.
  destruct (Qle_bool (this mid) (-1 # 1)) eqn:E1.
  { apply Qle_bool_iff in E1. exfalso. assert ((-1 # 1) < 0)%Q by reflexivity. lra. }
  destruct (two64 <=? q_trunc (this mid))%Z eqn:E2.
  { apply Z.leb_le in E2. exfalso. lia. }
  exists (q_trunc (this mid)). split; [reflexivity|]. lia.
Qed.

(* ---- packaged statements per instance ---- *)

Definition StrictIncQc (ax : list Qc) : Prop := StrictInc NumQc (fun _ => True) 0%Qc ax.

Lemma StrictIncQc_lt ax i j : StrictIncQc ax -> i < j -> j < length ax ->
  (this (nth i ax 0%Qc) < this (nth j ax 0%Qc))%Q.
Proof.
  intros H Hij Hj. apply qc_ltb_lt.
  exact (sorted_lt NumQc (fun _ => True) OrderLaws_Qc 0%Qc ax i j H Hij Hj).
Qed.

(* C11 for exact rationals: every strictly increasing axis, every query *)
Theorem lower_index_Qc (ax : list Qc) (x : Qc) :
  StrictIncQc ax -> 2 <= length ax -> (Z.of_nat (length ax) <= two64)%Z ->
  exists i, lower_index NumQc ax x = Ok i /\ i + 2 <= length ax /\
    ((this x <= this (nth 0 ax 0%Qc))%Q -> i = 0) /\
    ((this (nth 0 ax 0%Qc) < this x)%Q -> (this (nth (length ax - 1) ax 0%Qc) <= this x)%Q ->
       i = length ax - 2) /\
    ((this (nth 0 ax 0%Qc) < this x)%Q -> (this x < this (nth (length ax - 1) ax 0%Qc))%Q ->
       (this (nth i ax 0%Qc) <= this x)%Q /\ (this x < this (nth (i + 1) ax 0%Qc))%Q).
Proof.
  intros HS Hn H64.
  destruct (lower_index_spec NumQc (fun _ => True) OrderLaws_Qc 0%Qc (guess NumQc) ax x HS Hn I)
    as (i & Hi & Hb & H1 & H2 & H3).
  { intros E1 E2. unfold below_first, above_last, geb in *. cbn in E1, E2.
    apply qc_leb_gt in E1, E2. apply guess_in_bounds_Qc; auto. }
  exists i. split; [exact Hi|]. split; [exact Hb|]. cbn in H1, H2, H3.
  repeat split.
  - intros H. apply H1. apply qc_leb_le. exact H.
  - intros Ha Hl. apply H2; [apply qc_leb_gt; exact Ha|apply qc_leb_le; exact Hl].
  - apply qc_leb_le. apply H3; apply qc_leb_gt; assumption.
  - apply qc_ltb_lt. apply H3; apply qc_leb_gt; assumption.
Qed.

(* integer axes (i32 / i64 without overflow): the truncating guess is in bounds *)
Theorem guess_in_bounds_Z (ax : list Z) (x : Z) :
  2 <= length ax ->
  (nth 0 ax 0 < x)%Z -> (x < nth (length ax - 1) ax 0)%Z ->
  guess_ok 0%Z (guess NumZ) ax x.
Proof.
  intros Hn H0 Hl. unfold guess_ok, guess, calc_frac. cbn.
  remember (nth 0 ax 0%Z) as a0. remember (nth (length ax - 1) ax 0%Z) as al.
  remember (length ax) as n. rewrite Z.sub_0_r, Z.add_0_r.
  set (m := Z.quot (Z.of_nat (n - 1)) (al - a0)).
  assert (Hm : (0 <= m)%Z) by (apply Z.quot_pos; lia).
  assert (Hm2 : (m * (al - a0) <= Z.of_nat (n - 1))%Z).
  { unfold m. rewrite Z.mul_comm. apply Z.mul_quot_le; lia. }
  exists (m * (x - a0))%Z. split.
  - destruct (m * (x - a0) <? 0)%Z eqn:E; [apply Z.ltb_lt in E; nia|reflexivity].
  - split; [nia|]. assert (m * (x - a0) <= m * (al - a0))%Z by nia. lia.
Qed.

Theorem lower_index_Z (ax : list Z) (x : Z) :
  StrictInc NumZ (fun _ => True) 0%Z ax -> 2 <= length ax ->
  exists i, lower_index NumZ ax x = Ok i /\ i + 2 <= length ax /\
    ((x <= nth 0 ax 0)%Z -> i = 0) /\
    ((nth 0 ax 0 < x)%Z -> (nth (length ax - 1) ax 0 <= x)%Z -> i = length ax - 2) /\
    ((nth 0 ax 0 < x)%Z -> (x < nth (length ax - 1) ax 0)%Z ->
       (nth i ax 0 <= x)%Z /\ (x < nth (i + 1) ax 0)%Z).
Proof.
  intros HS Hn.
  destruct (lower_index_spec NumZ (fun _ => True) OrderLaws_Z 0%Z (guess NumZ) ax x HS Hn I)
    as (i & Hi & Hb & H1 & H2 & H3).
  { intros E1 E2. unfold below_first, above_last, geb in *. cbn in E1, E2.
    apply guess_in_bounds_Z; auto; lia. }
  exists i. split; [exact Hi|]. split; [exact Hb|]. cbn in H1, H2, H3.
  repeat split.
  - intros H. apply H1. lia.
  - intros Ha Hl. apply H2; lia.
  - specialize (H3 ltac:(lia) ltac:(lia)). lia.
  - specialize (H3 ltac:(lia) ltac:(lia)). lia.
Qed.

(* extended rationals: finite axis, any non-NaN query incl. +-inf *)
Definition xq_fin (a : xq) : Prop := exists q, a = XFin q.

Lemma calc_frac_XQ_fin x1 y1 x2 y2 x :
  Qeq_bool (this (x2 - x1)%Qc) 0 = false ->
  calc_frac NumXQ (XFin x1, XFin y1) (XFin x2, XFin y2) (XFin x) =
  XFin (calc_frac NumQc (x1, y1) (x2, y2) x).
Proof.
  intros H. unfold calc_frac.
  cbn [NumXQ NumQc sub add mul div xq_sub xq_add xq_neg xq_mul xq_div].
  change (x2 + - x1)%Qc with (x2 - x1)%Qc. rewrite H. reflexivity.
Qed.

Theorem lower_index_XQ (ax : list Qc) (x : xq) :
  StrictIncQc ax -> 2 <= length ax -> (Z.of_nat (length ax) <= two64)%Z -> x <> XNaN ->
  exists i, lower_index NumXQ (map XFin ax) x = Ok i /\ i + 2 <= length ax /\
    (leb NumXQ x (XFin (nth 0 ax 0%Qc)) = true -> i = 0) /\
    (leb NumXQ x (XFin (nth 0 ax 0%Qc)) = false ->
     leb NumXQ (XFin (nth (length ax - 1) ax 0%Qc)) x = true -> i = length ax - 2) /\
    (leb NumXQ x (XFin (nth 0 ax 0%Qc)) = false ->
     leb NumXQ (XFin (nth (length ax - 1) ax 0%Qc)) x = false ->
       leb NumXQ (XFin (nth i ax 0%Qc)) x = true /\
       ltb NumXQ x (XFin (nth (i + 1) ax 0%Qc)) = true).
Proof.
  intros HS Hn H64 Vx.
  assert (Hnth : forall i, nth i (map XFin ax) (XFin 0%Qc) = XFin (nth i ax 0%Qc)).
  { intros i. apply (map_nth XFin). }
  assert (HS' : StrictInc NumXQ xq_valid (XFin 0%Qc) (map XFin ax)).
  { split.
    - apply Forall_forall. intros a Ha. apply in_map_iff in Ha as (q & <- & _). discriminate.
    - intros i Hi. rewrite map_length in Hi. rewrite !Hnth. cbn.
      apply (proj2 HS i Hi). }
  destruct (lower_index_spec NumXQ xq_valid OrderLaws_XQ (XFin 0%Qc) (guess NumXQ)
              (map XFin ax) x HS' ltac:(rewrite map_length; exact Hn) Vx)
    as (i & Hi & Hb & H1 & H2 & H3).
  { intros E1 E2. unfold below_first, above_last, geb in *.
    rewrite map_length, !Hnth in *.
    destruct x as [q| | |]; cbn in E1, E2; try discriminate; [|congruence].
    apply qc_leb_gt in E1, E2.
    destruct (guess_in_bounds_Qc ax q 0%Qc Hn H64 E1 E2) as (gz & Hg & Hr).
    exists gz. split; [|rewrite map_length; exact Hr].
    unfold guess in *. rewrite map_length, !Hnth.
    cbn [of_nat NumXQ to_idx]. 
    change (XFin (Q2Qc (Z.of_nat 0 # 1))) with (XFin (of_nat NumQc 0)).
    change (XFin (Q2Qc (Z.of_nat (length ax - 1) # 1))) with (XFin (of_nat NumQc (length ax - 1))).
    rewrite calc_frac_XQ_fin; [exact Hg|].
    cbn [this Qcminus Qcplus Qcopp Q2Qc]. 
    destruct (Qeq_bool _ 0) eqn:E; [|reflexivity].
    apply Qeq_bool_iff in E. rewrite !Qred_correct in E. lra. }
  rewrite map_length, !Hnth in *.
  exists i. repeat split; auto; apply H3; auto.
Qed.
