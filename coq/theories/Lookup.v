(* Lookup.v -- transcription of get_lower_index (src/vector_extensions.rs:55-111),
   Linear::calc_frac (src/interp1d/strategies/linear.rs:29-36) and the range tests
   Interp1D::is_in_range / Interp2D::is_in_{x,y}_range.                             *)

From Coq Require Import List Bool Arith ZArith Lia.
From NI Require Import Num Base.
Import ListNotations.

Section Lookup.
  Context {T : Type} (N : Num T).

  (* linear.rs:29-36:  let b = y1; let m = (y2 - y1) / (x2 - x1); m * (x - x1) + b *)
  Definition calc_frac (p1 p2 : T * T) (x : T) : T :=
    let '(x1, y1) := p1 in
    let '(x2, y2) := p2 in
    let b := y1 in
    let m := div N (sub N y2 y1) (sub N x2 x1) in
    add N (mul N m (sub N x x1)) b.

  (* self.x[0] <= x && x <= self.x[self.x.len() - 1]   (lazy &&) *)
  Definition is_in_range (ax : list T) (x : T) : outcome bool :=
    a0 <- idx ax 0 ;;
    if leb N a0 x then
      n1 <- usub (length ax) 1 ;;
      al <- idx ax n1 ;;
      Ok (leb N x al)
    else Ok false.

  (* the while loop, lines 100-110; fuel bounds the number of iterations *)
  Fixpoint bsearch (fuel : nat) (ax : list T) (x : T) (lo hi : nat) : outcome nat :=
    match fuel with
    | O => OutOfFuel
    | S f =>
        if lo + 1 <? hi then
          let m := (hi - lo) / 2 + lo in
          mx <- idx ax m ;;
          if leb N mx x then bsearch f ax x m hi else bsearch f ax x lo m
        else Ok lo
    end.

  (* the O(1) guess, lines 70-84; returns the index as a Z (not yet bounds checked) *)
  Definition guess (ax : list T) (x : T) (a0 al : T) : option Z :=
    let n := length ax in
    let p1 := (a0, of_nat N 0) in
    let p2 := (al, of_nat N (n - 1)) in
    to_idx N (calc_frac p1 p2 x).

  (* the lookup with the guess abstracted: [gf ax x a0 al] is whatever index the O(1)
     estimate produced (None = the cast failed) *)
  Definition lower_index_g (gf : list T -> T -> T -> T -> option Z)
      (ax : list T) (x : T) : outcome nat :=
    let n := length ax in
    a0 <- idx ax 0 ;;
    if leb N x a0 then Ok 0 else                       (* x <= self[0] *)
    n1 <- usub n 1 ;;
    al <- idx ax n1 ;;
    if geb N x al then usub n 2 else                   (* x >= self[len-1] -> len-2 *)
    match gf ax x a0 al with
    | None => Panic                                    (* unimplemented!("failed to convert") *)
    | Some gz =>
        if (Z.of_nat n <=? gz)%Z then Panic            (* self[mid_idx] out of bounds *)
        else if (gz <? 0)%Z then Panic                 (* cannot happen for a usize *)
        else
          let g := Z.to_nat gz in
          mx <- idx ax g ;;
          if leb N mx x then
            nx <- idx ax (g + 1) ;;                    (* evaluated only when mid_x <= x *)
            if ltb N x nx then Ok g
            else bsearch (S n) ax x g n1
          else bsearch (S n) ax x 0 g
    end.

  Definition lower_index : list T -> T -> outcome nat := lower_index_g guess.

End Lookup.
