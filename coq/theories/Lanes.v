(* Lanes.v -- C08: every lane of n-dimensional data is interpolated independently. *)

From Coq Require Import List Bool Arith ZArith QArith Qcanon Lia.
From NI Require Import Num Base Lookup Linear Interp Spline Tri TriProofs SplineAlgebra
  LookupProofs LinearProofs LinearExact SplineProofs.
Import ListNotations.
Local Open Scope nat_scope.

Section LinearLanes.
  Context {T : Type} (N : Num T).
  Variable d : T.

  Lemma col_nth (data : list (list T)) j i L :
    i < length data -> length (nth i data []) = L -> j < L ->
    nth i (col j data) [] = [nth j (nth i data []) d].
  Proof.
    intros Hi Hw Hj. unfold col.
    rewrite (nth_indep _ [] ((fun r => match nth_error r j with Some v => [v] | None => [] end) []))
      by (rewrite map_length; exact Hi).
    rewrite (map_nth (fun r => match nth_error r j with Some v => [v] | None => [] end)).
    rewrite (nth_error_nth' _ d) by lia. reflexivity.
  Qed.

  Lemma col_length (data : list (list T)) j : length (col j data) = length data.
  Proof. unfold col. apply map_length. Qed.

  (* Linear: the interpolator built from lane j alone returns lane j of the n-d result
     (the same term: bit-identical), for any element type *)
  Theorem linear_lanewise ext ax (data : list (list T)) x j L :
    (forall i, i < length data -> length (nth i data []) = L) -> j < L ->
    length data = length ax ->
    linear_interp N ext ax (col j data) x =
    omap (fun v => [nth j v d]) (linear_interp N ext ax data x).
  Proof.
    intros Hw Hj Hlen. unfold linear_interp, omap.
    destruct (range_guard N ext ax x) as [[]| | | |]; cbn [bind]; try reflexivity.
    destruct (lower_index N ax x) as [i| | | |] eqn:Ei; cbn [bind]; try reflexivity.
    destruct (Nat.lt_ge_cases (i + 1) (length ax)) as [Hi|Hi].
    - rewrite (idx_nth (col j data) i []) by (rewrite col_length; lia).
      rewrite (idx_nth data i []) by lia. cbn [bind].
      rewrite (idx_nth ax i d) by lia. cbn [bind].
      rewrite (idx_nth (col j data) (i + 1) []) by (rewrite col_length; lia).
      rewrite (idx_nth data (i + 1) []) by lia. cbn [bind].
      rewrite (idx_nth ax (i + 1) d) by lia. cbn [bind].
      rewrite (col_nth data j i L) by (try apply Hw; lia).
      rewrite (col_nth data j (i + 1) L) by (try apply Hw; lia).
      cbn [map2]. f_equal. f_equal.
      rewrite (nth_map2 _ _ _ j d d d) by (rewrite Hw; lia). reflexivity.
    - (* the lookup never returns such an index on a valid axis; both sides panic alike *)
      destruct (Nat.lt_ge_cases i (length ax)) as [Hi2|Hi2].
      + rewrite (idx_nth (col j data) i []) by (rewrite col_length; lia).
        rewrite (idx_nth data i []) by lia. cbn [bind].
        rewrite (idx_nth ax i d) by lia. cbn [bind].
        rewrite (idx_ge (col j data) (i + 1)) by (rewrite col_length; lia).
        rewrite (idx_ge data (i + 1)) by lia. reflexivity.
      + rewrite (idx_ge (col j data) i) by (rewrite col_length; lia).
        rewrite (idx_ge data i) by lia. reflexivity.
  Qed.

  (* changing other lanes leaves lane j unchanged (NaN elsewhere included) *)
  Theorem linear_other_lanes_irrelevant ext ax (data data' : list (list T)) x j L :
    (forall i, i < length data -> length (nth i data []) = L) ->
    (forall i, i < length data' -> length (nth i data' []) = L) -> j < L ->
    length data = length ax -> length data' = length ax ->
    col j data = col j data' ->
    omap (fun v => [nth j v d]) (linear_interp N ext ax data x) =
    omap (fun v => [nth j v d]) (linear_interp N ext ax data' x).
  Proof.
    intros H1 H2 Hj L1 L2 E.
    rewrite <- (linear_lanewise ext ax data x j L H1 Hj L1).
    rewrite <- (linear_lanewise ext ax data' x j L H2 Hj L2). rewrite E. reflexivity.
  Qed.

End LinearLanes.

(* Spline (exact rationals): the slopes of lane j of the n-d solve are the slopes of the 1-D
   solve of lane j alone; hence so are the coefficients and every value (C02's formulas mention
   only yq data j and the lane's slopes) *)
Lemma yq_col data j i L :
  i < length data -> length (nth i data []) = L -> j < L ->
  yq (col j data) 0 i = yq data j i.
Proof.
  intros Hi Hw Hj. unfold yq. rewrite (col_nth 0%Qc data j i L Hi Hw Hj). reflexivity.
Qed.

Theorem spline_solve_lanewise (xs : list Qc) (data : list (list Qc)) (L j : nat) l r K K1 :
  j < L -> (forall i, i < length data -> length (nth i data []) = L) ->
  StrictIncQc xs -> length xs = length data -> 3 <= length data ->
  solve_for_k NumQc xs data (IMixed l r) = Ok K ->
  solve_for_k NumQc xs (col j data) (IMixed l r) = Ok K1 ->
  lane_vec 0%Qc j K = lane_vec 0%Qc 0 K1.
Proof.
  intros Hj Hw HS Hl Hn HK HK1.
  assert (Hw1 : forall i, i < length (col j data) -> length (nth i (col j data) []) = 1).
  { intros i Hi. rewrite col_length in Hi. rewrite (col_nth 0%Qc data j i L Hi (Hw i Hi) Hj). reflexivity. }
  pose proof (col_length data j) as CL.
  destruct (solve_mixed_lane xs data L j Hj Hw HS Hl Hn l r K HK) as [E _].
  destruct (solve_mixed_lane xs (col j data) 1 0 ltac:(lia) Hw1 HS ltac:(rewrite CL; exact Hl)
              ltac:(rewrite CL; exact Hn) l r K1 HK1) as [E1 _].
  rewrite E, E1. rewrite CL. f_equal.
  assert (Y : forall i, i < length data -> yq (col j data) 0 i = yq data j i).
  { intros i Hi. apply (yq_col data j i L Hi (Hw i Hi) Hj). }
  destruct ((length data =? 3) && is_nak l && is_nak r) eqn:Ep.
  - apply andb_prop in Ep as [Ep _]. apply andb_prop in Ep as [En _]. apply Nat.eqb_eq in En.
    unfold srows_parabola. rewrite !Y by lia. reflexivity.
  - unfold srows. rewrite CL. f_equal; [|f_equal].
    + unfold s_left. destruct (specialize_single NumQc l); rewrite ?Y by lia; reflexivity.
    + apply map_ext_in. intros i Hi. apply in_seq in Hi. unfold s_interior.
      rewrite !Y by lia. reflexivity.
    + unfold s_right. rewrite CL. destruct (specialize_single NumQc r); rewrite ?Y by lia; reflexivity.
Qed.
