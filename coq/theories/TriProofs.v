(* TriProofs.v -- correctness of the Thomas algorithm over exact rationals:
     pivots_ok (forward1 rows) ->  (sat rows k  <->  k = thomas1 rows).                 *)

From Coq Require Import List Bool Arith ZArith QArith Qcanon Lia.
From NI Require Import Num Base Interp Spline Tri.
Import ListNotations.
Local Open Scope Qc_scope.

Notation qrow := (@srow Qc).

Definition hd0 (k : list Qc) : Qc := match k with [] => 0 | a :: _ => a end.

(* k satisfies every equation  low_i k_(i-1) + mid_i k_i + up_i k_(i+1) = rhs_i
   (k_(-1) := kprev, k_n := 0) *)
Fixpoint sat (kprev : Qc) (rows : list qrow) (k : list Qc) : Prop :=
  match rows, k with
  | [], [] => True
  | r :: t, ki :: kt =>
      s_low r * kprev + s_mid r * ki + s_up r * hd0 kt = s_rhs r /\ sat ki t kt
  | _, _ => False
  end.

(* the swept (upper bidiagonal) system *)
Fixpoint bisat (rows : list qrow) (k : list Qc) : Prop :=
  match rows, k with
  | [], [] => True
  | r :: t, ki :: kt => s_mid r * ki + s_up r * hd0 kt = s_rhs r /\ bisat t kt
  | _, _ => False
  end.

Definition pivots_ok (rows : list qrow) : Prop := Forall (fun r => s_mid r <> 0) rows.

Lemma eq_iff_sub (a b c e : Qc) : a - b = c - e -> (a = b <-> c = e).
Proof.
  intros H. split; intros E.
  - assert (c - e = 0) by (rewrite <- H, E; ring).
    replace c with (c - e + e) by ring. rewrite H0. ring.
  - assert (a - b = 0) by (rewrite H, E; ring).
    replace a with (a - b + b) by ring. rewrite H0. ring.
Qed.

Lemma fwd1_equiv rows : forall pm pu pr kprev k,
  pm <> 0 -> pivots_ok (fwd1 NumQc pm pu pr rows) ->
  pm * kprev + pu * hd0 k = pr ->
  (sat kprev rows k <-> bisat (fwd1 NumQc pm pu pr rows) k).
Proof.
  induction rows as [|r t IH]; intros pm pu pr kprev k Hpm Hpiv Hprev.
  - destruct k; cbn; tauto.
  - destruct k as [|ki kt]; [cbn; tauto|].
    cbn [fwd1 sat bisat NumQc div sub mul s_low s_mid s_up s_rhs] in *.
    set (w := s_low r / pm) in *.
    apply Forall_cons_iff in Hpiv as [Hmi Hpiv]. cbn [s_mid] in Hmi.
    cbn [hd0] in Hprev.
    assert (E : s_low r * kprev = w * (pr - pu * ki)).
    { unfold w. rewrite <- Hprev. field. exact Hpm. }
    assert (A : s_low r * kprev + s_mid r * ki + s_up r * hd0 kt = s_rhs r <->
                (s_mid r - w * pu) * ki + s_up r * hd0 kt = s_rhs r - w * pr).
    { apply eq_iff_sub. rewrite E. ring. }
    split; intros [H1 H2].
    + apply A in H1. split; [exact H1|].
      apply (IH _ _ _ ki kt Hmi Hpiv); [exact H1|exact H2].
    + split; [apply A; exact H1|].
      apply (IH _ _ _ ki kt Hmi Hpiv); [exact H1|exact H2].
Qed.

Lemma back1_length (rows : list qrow) : length (back1 NumQc rows) = length rows.
Proof.
  induction rows as [|r t IH]; [reflexivity|].
  destruct t as [|r2 t2]; [reflexivity|].
  change (back1 NumQc (r :: r2 :: t2)) with
    (match back1 NumQc (r2 :: t2) with
     | kr :: ks => div NumQc (sub NumQc (s_rhs r) (mul NumQc (s_up r) kr)) (s_mid r) :: kr :: ks
     | [] => []
     end).
  destruct (back1 NumQc (r2 :: t2)) as [|kr ks]; cbn [length] in *; lia.
Qed.

Lemma back1_cons r (t : list qrow) :
  back1 NumQc (r :: t) = (s_rhs r - s_up r * hd0 (back1 NumQc t)) / s_mid r :: back1 NumQc t.
Proof.
  destruct t as [|r2 t2].
  - cbn. f_equal. unfold Qcdiv. ring.
  - change (back1 NumQc (r :: r2 :: t2)) with
      (match back1 NumQc (r2 :: t2) with
       | kr :: ks => div NumQc (sub NumQc (s_rhs r) (mul NumQc (s_up r) kr)) (s_mid r) :: kr :: ks
       | [] => []
       end).
    pose proof (back1_length (r2 :: t2)) as L.
    destruct (back1 NumQc (r2 :: t2)) as [|kr ks]; [cbn in L; lia|]. reflexivity.
Qed.

Lemma bisat_back1 rows : forall k, pivots_ok rows -> (bisat rows k <-> k = back1 NumQc rows).
Proof.
  induction rows as [|r t IH]; intros k Hp.
  - destruct k; cbn; split; intros H; auto; try contradiction; discriminate H.
  - apply Forall_cons_iff in Hp as [Hm Hp]. rewrite back1_cons.
    destruct k as [|ki kt]; [cbn; split; [tauto|discriminate]|].
    cbn [bisat]. rewrite (IH kt Hp). split.
    + intros [H1 ->]. f_equal. rewrite <- H1. field. exact Hm.
    + intros H. injection H as -> ->. split; [|reflexivity]. field. exact Hm.
Qed.

(* sat with k_(-1) irrelevant because the first row has no lower neighbour *)
Theorem thomas1_correct (rows : list qrow) (k : list Qc) :
  rows <> [] -> pivots_ok (forward1 NumQc rows) ->
  (sat 0 (match rows with r :: t => mkS 0 (s_mid r) (s_up r) (s_rhs r) :: t | [] => [] end) k
   <-> k = thomas1 NumQc rows).
Proof.
  destruct rows as [|r t]; [congruence|]. intros _ Hp. unfold thomas1.
  cbn [forward1] in *. apply Forall_cons_iff in Hp as [Hm Hp].
  rewrite <- (bisat_back1 _ k) by (constructor; assumption).
  destruct k as [|ki kt]; [cbn; tauto|].
  cbn [sat bisat s_low s_mid s_up s_rhs].
  assert (A : 0 * 0 + s_mid r * ki + s_up r * hd0 kt = s_rhs r <->
              s_mid r * ki + s_up r * hd0 kt = s_rhs r).
  { apply eq_iff_sub. ring. }
  split; intros [H1 H2].
  - apply A in H1. split; [exact H1|].
    apply (fwd1_equiv t _ _ _ ki kt Hm Hp); [exact H1|exact H2].
  - split; [apply A; exact H1|].
    apply (fwd1_equiv t _ _ _ ki kt Hm Hp); [exact H1|exact H2].
Qed.
