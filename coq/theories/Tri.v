(* Tri.v -- the Thomas algorithm on one lane (scalar right-hand sides), its relation to the
   lane-lifted version of Spline.v, and its correctness over exact rationals:
   if every pivot is non-zero, a vector satisfies the tridiagonal system IFF it is the
   vector the algorithm returns (existence and uniqueness in one statement).            *)

From Coq Require Import List Bool Arith ZArith QArith Qcanon Lia.
From NI Require Import Num Base Interp Spline.
Import ListNotations.
Local Open Scope nat_scope.

Section Scalar.
  Context {T : Type} (N : Num T).

  Record srow : Type := mkS { s_low : T; s_mid : T; s_up : T; s_rhs : T }.

  Fixpoint fwd1 (pm pu pr : T) (rows : list srow) : list srow :=
    match rows with
    | [] => []
    | r :: t =>
        let w := div N (s_low r) pm in
        let mi := sub N (s_mid r) (mul N w pu) in
        let rh := sub N (s_rhs r) (mul N w pr) in
        mkS (s_low r) mi (s_up r) rh :: fwd1 mi (s_up r) rh t
    end.

  Definition forward1 (rows : list srow) : list srow :=
    match rows with
    | [] => []
    | r :: t => r :: fwd1 (s_mid r) (s_up r) (s_rhs r) t
    end.

  Fixpoint back1 (rows : list srow) : list T :=
    match rows with
    | [] => []
    | r :: t =>
        match t with
        | [] => [div N (s_rhs r) (s_mid r)]
        | _ :: _ =>
            match back1 t with
            | kr :: ks => div N (sub N (s_rhs r) (mul N (s_up r) kr)) (s_mid r) :: kr :: ks
            | [] => []
            end
        end
    end.

  Definition thomas1 (rows : list srow) : list T := back1 (forward1 rows).

  (* lane j of a lane-lifted row *)
  Variable d : T.
  Definition lane_row (j : nat) (r : @trow T) : srow :=
    mkS (r_low r) (r_mid r) (r_up r) (nth j (r_rhs r) d).
  Definition lane_rows (j : nat) (rows : list (@trow T)) : list srow := map (lane_row j) rows.
  Definition lane_vec (j : nat) (k : list (list T)) : list T := map (fun v => nth j v d) k.

  Definition rows_width (L : nat) (rows : list (@trow T)) : Prop :=
    Forall (fun r => length (r_rhs r) = L) rows.

  Lemma fwd_lane j L pm pu pr rows :
    j < L -> length pr = L -> rows_width L rows ->
    lane_rows j (fwd N pm pu pr rows) = fwd1 pm pu (nth j pr d) (lane_rows j rows) /\
    rows_width L (fwd N pm pu pr rows).
  Proof.
    intros Hj. revert pm pu pr. induction rows as [|r t IH]; intros pm pu pr Hpr Hw.
    - split; [reflexivity|constructor].
    - apply Forall_cons_iff in Hw as [Hr Ht]. cbn [fwd fwd1 lane_rows map].
      set (w := div N (r_low r) pm).
      set (rh := map2 (fun a b => sub N a (mul N w b)) (r_rhs r) pr).
      assert (Hrh : length rh = L) by (unfold rh; rewrite map2_length, Hr, Hpr; apply Nat.min_id).
      destruct (IH (sub N (r_mid r) (mul N w pu)) (r_up r) rh Hrh Ht) as [E W].
      split.
      + unfold lane_row at 1. cbn [r_low r_mid r_up r_rhs s_low s_mid s_up s_rhs].
        fold (lane_rows j (fwd N (sub N (r_mid r) (mul N w pu)) (r_up r) rh t)).
        rewrite E. unfold rh at 1.
        rewrite (nth_map2 _ _ _ j d d d) by lia.
        unfold lane_row at 2. cbn [s_low s_mid s_up s_rhs].
        unfold rh. rewrite (nth_map2 _ _ _ j d d d) by lia. reflexivity.
      + constructor; [exact Hrh|exact W].
  Qed.

  Lemma forward_lane j L rows :
    j < L -> rows_width L rows ->
    lane_rows j (forward N rows) = forward1 (lane_rows j rows) /\ rows_width L (forward N rows).
  Proof.
    intros Hj Hw. destruct rows as [|r t]; [split; [reflexivity|constructor]|].
    apply Forall_cons_iff in Hw as [Hr Ht]. cbn [forward forward1 lane_rows map].
    destruct (fwd_lane j L (r_mid r) (r_up r) (r_rhs r) t Hj Hr Ht) as [E W].
    split.
    - fold (lane_rows j (fwd N (r_mid r) (r_up r) (r_rhs r) t)). rewrite E. reflexivity.
    - constructor; [exact Hr|exact W].
  Qed.

  Lemma back_lane j L rows :
    j < L -> rows_width L rows ->
    lane_vec j (back N rows) = back1 (lane_rows j rows) /\
    Forall (fun v => length v = L) (back N rows) /\ length (back N rows) = length rows.
  Proof.
    intros Hj. induction rows as [|r t IH]; intros Hw.
    - repeat split; constructor.
    - apply Forall_cons_iff in Hw as [Hr Ht]. specialize (IH Ht). destruct IH as (E & W & Len).
      destruct t as [|r2 t2].
      + cbn. repeat split.
        * rewrite (nth_indep _ d (div N d (r_mid r))) by (rewrite map_length; lia).
          rewrite (map_nth (fun v => div N v (r_mid r))). reflexivity.
        * constructor; [rewrite map_length; exact Hr|constructor].
      + change (back N (r :: r2 :: t2)) with
          (match back N (r2 :: t2) with
           | kr :: ks => map2 (fun rv kv => div N (sub N rv (mul N (r_up r) kv)) (r_mid r)) (r_rhs r) kr :: kr :: ks
           | [] => []
           end).
        change (back1 (lane_rows j (r :: r2 :: t2))) with
          (match back1 (lane_rows j (r2 :: t2)) with
           | kr :: ks => div N (sub N (s_rhs (lane_row j r)) (mul N (s_up (lane_row j r)) kr)) (s_mid (lane_row j r)) :: kr :: ks
           | [] => []
           end).
        rewrite <- E.
        destruct (back N (r2 :: t2)) as [|kr ks] eqn:Eb; [cbn in Len; lia|].
        apply Forall_cons_iff in W as [Hkr Hks].
        cbn [lane_vec map]. repeat split.
        * rewrite (nth_map2 _ _ _ j d d d) by lia. reflexivity.
        * constructor; [rewrite map2_length, Hkr, Hr; apply Nat.min_id|constructor; assumption].
        * cbn [length] in *. lia.
  Qed.

  (* C08 (solver part): lane j of the lane-lifted Thomas algorithm is the scalar algorithm
     run on lane j -- for any element type *)
  Theorem thomas_lane j L rows :
    j < L -> rows_width L rows ->
    lane_vec j (thomas N rows) = thomas1 (lane_rows j rows).
  Proof.
    intros Hj Hw. unfold thomas, thomas1.
    destruct (forward_lane j L rows Hj Hw) as [E W].
    destruct (back_lane j L (forward N rows) Hj W) as (E2 & _ & _).
    rewrite E2, E. reflexivity.
  Qed.

  Lemma thomas_shape L rows :
    0 < L -> rows_width L rows ->
    Forall (fun v => length v = L) (thomas N rows) /\ length (thomas N rows) = length rows.
  Proof.
    intros HL Hw. unfold thomas.
    destruct (forward_lane 0 L rows HL Hw) as [E W].
    destruct (back_lane 0 L (forward N rows) HL W) as (_ & A & B).
    split; [exact A|]. rewrite B.
    destruct rows as [|r t]; [reflexivity|]. cbn [forward length]. f_equal.
    clear. generalize (r_mid r) (r_up r) (r_rhs r). induction t as [|a t IH]; intros; cbn; auto.
  Qed.

End Scalar.

Arguments mkS {T} s_low s_mid s_up s_rhs.
Arguments s_low {T} s. Arguments s_mid {T} s. Arguments s_up {T} s. Arguments s_rhs {T} s.
