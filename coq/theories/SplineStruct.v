(* SplineStruct.v -- law-free structural facts about CubicSplineStrategy::interp_into and
   build: range guard (C05), extrapolation (C06), periodic wrap (C07).  Arbitrary element
   type and operations.                                                                  *)

From Coq Require Import List Bool Arith ZArith Lia.
From NI Require Import Num Base Lookup Linear Interp Spline LookupProofs LinearProofs.
Import ListNotations.

Section Struct.
  Context {T : Type} (N : Num T).
  Variable d : T.

  (* the part of interp_into after the argument has been fixed *)
  Definition spline_eval_at_arg (s : @spline_strat T) (xs : list T) (data : list (list T)) (x' : T)
    : outcome (list T) :=
    i <- lower_index N xs x' ;;
    data_left <- idx data i ;;
    x_left <- idx xs i ;;
    data_right <- idx data (i + 1) ;;
    x_right <- idx xs (i + 1) ;;
    a_left <- idx (sp_a s) i ;;
    b_left <- idx (sp_b s) i ;;
    let t := div N (sub N x' x_left) (sub N x_right x_left) in
    Ok (map4 (spline_eval_lane N t) data_left data_right a_left b_left).

  Definition wrap (xs : list T) (x : T) : T :=
    let x0 := nth 0 xs d in
    let xn := nth (length xs - 1) xs d in
    add N (rem_euclid N (sub N x x0) (sub N xn x0)) x0.

  Lemma spline_eval_at_arg_not_oob s xs data x' : spline_eval_at_arg s xs data x' <> ErrOOB.
  Proof.
    unfold spline_eval_at_arg. intros H.
    destruct (lower_index N xs x') eqn:E; cbn [bind] in H; try discriminate;
      [|exact (lower_index_g_not_oob N _ _ _ E)].
    unfold idx in H.
    repeat match type of H with
           | context[nth_error ?l ?k] => destruct (nth_error l k); cbn [bind] in H; try discriminate
           end.
  Qed.

  (* interp_into in terms of the guard, the wrap and the evaluation *)
  Lemma spline_interp_unfold s xs data x : 1 <= length xs ->
    spline_interp N s xs data x =
    match sp_ext s, in_closed_range N d xs x with
    | ExtNo, false => ErrOOB
    | ExtPeriodic, false => spline_eval_at_arg s xs data (wrap xs x)
    | _, _ => spline_eval_at_arg s xs data x
    end.
  Proof.
    intros Hn. unfold spline_interp. rewrite (is_in_range_spec N d) by exact Hn. cbn [bind].
    destruct (sp_ext s), (in_closed_range N d xs x); try reflexivity.
    unfold wrap. rewrite (idx_nth xs 0 d) by lia. cbn [bind].
    unfold usub. destruct (length xs <? 1) eqn:E; [apply Nat.ltb_lt in E; lia|]. cbn [bind].
    rewrite (idx_nth xs (length xs - 1) d) by lia. reflexivity.
  Qed.

  (* C05: without extrapolation, OutOfBounds iff the closed-range test fails *)
  Theorem spline_oob_iff s xs data x : 1 <= length xs -> sp_ext s = ExtNo ->
    (spline_interp N s xs data x = ErrOOB <-> in_closed_range N d xs x = false).
  Proof.
    intros Hn He. rewrite (spline_interp_unfold s xs data x Hn), He.
    destruct (in_closed_range N d xs x); split; try reflexivity; try discriminate.
    intros H. exfalso. exact (spline_eval_at_arg_not_oob _ _ _ _ H).
  Qed.

  (* C06: with extrapolation (plain or periodic) never OutOfBounds *)
  Theorem spline_ext_never_oob s xs data x : 1 <= length xs -> sp_ext s <> ExtNo ->
    spline_interp N s xs data x <> ErrOOB.
  Proof.
    intros Hn He. rewrite (spline_interp_unfold s xs data x Hn).
    destruct (sp_ext s), (in_closed_range N d xs x); try congruence;
      apply spline_eval_at_arg_not_oob.
  Qed.

  (* C06: inside the range the result does not depend on the extrapolation mode (same term) *)
  Theorem spline_ext_same_in_range a b e1 e2 xs data x : 1 <= length xs ->
    in_closed_range N d xs x = true ->
    spline_interp N (mkSpline a b e1) xs data x = spline_interp N (mkSpline a b e2) xs data x.
  Proof.
    intros Hn Hr. rewrite !(spline_interp_unfold _ xs data x Hn). cbn [sp_ext]. rewrite Hr.
    destruct e1, e2; reflexivity.
  Qed.

  (* the extrapolate flag changes nothing but the mode; Periodic mode only for Periodic + true *)
  Theorem spline_build_ext_only b xs data trail s1 s2 :
    spline_build N b false xs data trail = Ok s1 ->
    spline_build N b true xs data trail = Ok s2 ->
    sp_a s1 = sp_a s2 /\ sp_b s1 = sp_b s2 /\ sp_ext s1 = ExtNo /\
    sp_ext s2 = match b with BPeriodic => ExtPeriodic | _ => ExtYes end.
  Proof.
    unfold spline_build.
    destruct (match b with
              | BPeriodic => solve_for_k N xs data IPeriodic
              | BNatural => solve_for_k N xs data (IMixed SNatural SNatural)
              | BClamped => solve_for_k N xs data (IMixed SClamped SClamped)
              | BNotAKnot => solve_for_k N xs data (IMixed SNotAKnot SNotAKnot)
              | BIndividual per_lane shape => _
              end) as [k| |kk| |]; cbn [bind]; try discriminate.
    intros E1 E2. injection E1 as <-. injection E2 as <-. cbn. repeat split.
  Qed.

  (* C07: outside the range, a periodic spline is evaluated at the wrapped argument -- which
     gives exactly what a query AT the wrapped argument gives when that lies in the range *)
  Theorem spline_periodic_wrap s xs data x : 1 <= length xs -> sp_ext s = ExtPeriodic ->
    in_closed_range N d xs x = false ->
    in_closed_range N d xs (wrap xs x) = true ->
    spline_interp N s xs data x = spline_interp N s xs data (wrap xs x).
  Proof.
    intros Hn He H1 H2. rewrite !(spline_interp_unfold _ xs data _ Hn), He, H1, H2. reflexivity.
  Qed.

End Struct.

Arguments wrap {T} N d xs x.
Arguments spline_eval_at_arg {T} N s xs data x'.
