(* ReproIndividual.v -- C16 for per-lane boundary conditions: a lane whose FirstDeriv /
   SecondDeriv values are taken from its cubic (any mix, NotAKnot allowed) reproduces it. *)
From Coq Require Import List Bool Arith ZArith QArith Qcanon Lia.
From NI Require Import Num Base Lookup Linear Interp Spline Tri TriProofs SplineAlgebra
  LookupProofs LinearProofs LinearExact SplineProofs Units Repro SplineIndividual.
Import ListNotations.
Local Open Scope nat_scope.

Theorem spline_reproduces_cubic_individual (xs : list Qc) (data : list (list Qc)) (L : nat) :
  (forall i, i < length data -> length (nth i data []) = L) ->
  StrictIncQc xs -> length xs = length data -> 3 <= length data ->
  (Z.of_nat (length data) <= two64)%Z -> 0 < L ->
  forall (per_lane : list (rowbc Qc)) (shape : list nat) (ext : bool) (trail : list nat)
         (sp : spline_strat) (j : nat) (rb : rowbc Qc) (p0 p1 p2 p3 : Qc),
    j < L -> nth_error per_lane j = Some rb ->
    (forall i, i < length data -> yq data j i = P p0 p1 p2 p3 (nth i xs 0%Qc)) ->
    left_ok xs p1 p2 p3 (fst (lane_lr rb)) -> right_ok xs data p1 p2 p3 (snd (lane_lr rb)) ->
    ((length data =? 3) && is_nak (fst (lane_lr rb)) && is_nak (snd (lane_lr rb)) = true -> p3 = 0%Qc) ->
    spline_build NumQc (BIndividual per_lane shape) ext xs data trail = Ok sp ->
    forall x, (ext = false -> in_closed_range NumQc 0%Qc xs x = true) ->
      exists v, spline_interp NumQc sp xs data x = Ok v /\ length v = L /\
                nth j v 0%Qc = P p0 p1 p2 p3 x.
Proof.
  intros Hw HS Hl Hn H64 HL per_lane shape ext trail sp j rb p0 p1 p2 p3 Hj Hrb Hdata Hlo Hro Hpar Hsp.
  apply (reproduce_core xs data L j _ _ sp ext p0 p1 p2 p3 HS Hl Hn Hdata Hlo Hro Hpar).
  exact (spline_individual_correct xs data L Hw HS Hl Hn H64 HL per_lane shape ext trail sp j rb Hj Hrb Hsp).
Qed.
