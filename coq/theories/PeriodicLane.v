(* PeriodicLane.v -- lane j of the model's Periodic slopes (Spline.periodic_k, the transcription
   of cubic_spline.rs:498-565) IS the scalar condensed cyclic solve of PeriodicSolve.v, hence
   satisfies the full cyclic tridiagonal system; consequences for the pieces: C2 at every
   interior knot and equal first and second derivatives at the two ends.                   *)

From Coq Require Import List Bool Arith ZArith QArith Qcanon Lia.
From NI Require Import Num Base Lookup Linear Interp Spline Tri TriProofs SplineAlgebra LookupProofs LinearProofs LinearExact SplineProofs PeriodicSolve.
Import ListNotations.
Local Open Scope Qc_scope.

Lemma nth_indep_or_map (j i : nat) (k : list (list Qc)) :
  nth i (map (fun v : list Qc => nth j v 0) k) 0 = nth j (nth i k []) 0.
Proof.
  revert i. induction k as [|v k IH]; intros [|i]; cbn [map nth]; try reflexivity.
  - destruct j; reflexivity.
  - destruct j; reflexivity.
  - apply IH.
Qed.

Lemma nth_lane_vec (j i : nat) (k : list (list Qc)) :
  nth j (nth i k []) 0 = nth i (lane_vec 0 j k) 0.
Proof.
  unfold lane_vec. rewrite (nth_indep_or_map j i k). reflexivity.
Qed.

Section PerLane.
  Variable xs : list Qc.
  Variable data : list (list Qc).
  Variable L : nat.
  Variable j : nat.
  Hypothesis Hj : (j < L)%nat.
  Hypothesis Hwidth : forall i, (i < length data)%nat -> length (nth i data []) = L.
  Hypothesis HS : StrictIncQc xs.
  Hypothesis Hlen : length xs = length data.
  Hypothesis Hn : (4 <= length data)%nat.

  Notation n := (length data).
  Notation hh := (hq xs).
  Notation yy := (yq data j).

  Lemma hh_pos i : (i + 1 < n)%nat -> 0 < hh i.
  Proof. intros Hi. apply (hq_pos xs data L j Hj HS Hlen ltac:(lia) i Hi). Qed.

  Lemma yw i : (i < n)%nat -> length (yi data i) = L.
  Proof. apply (yi_width data L Hwidth). Qed.
  Lemma yjl i : (i < n)%nat -> (j < length (yi data i))%nat.
  Proof. intros. rewrite yw; assumption. Qed.
  Lemma y_nth i : nth j (yi data i) 0 = yy i.
  Proof. reflexivity. Qed.

  (* the let-bound pieces of periodic_k *)
  Definition m_slope0 := map2 (fun y1 y0 => (y1 - y0) / hh 0) (yi data 1) (yi data 0).
  Definition m_slope_1 := map2 (fun a b => (a - b) / hh (n - 2)) (yi data (n - 1)) (yi data (n - 2)).
  Definition m_slope_2 := map2 (fun a b => (a - b) / hh (n - 3)) (yi data (n - 2)) (yi data (n - 3)).
  Definition m_rhs0 := map2 (fun s_1 s0 => (s_1 * hh 0 + s0 * hh (n - 2)) * c3 NumQc) m_slope_1 m_slope0.
  Definition m_rhs_last := map2 (fun s_2 s_1 => (s_2 * hh (n - 2) + s_1 * hh (n - 3)) * c3 NumQc) m_slope_2 m_slope_1.
  Definition m_row0 : @trow Qc := mkRow 0 (c2 NumQc * (hh (n - 2) + hh 0)) (hh (n - 2)) m_rhs0.
  Definition m_rows1 : list (@trow Qc) := m_row0 :: map (interior_row NumQc xs data) (seq 1 (n - 3)).
  Definition m_rows2 : list (@trow Qc) :=
    map (fun ir : nat * @trow Qc =>
           let '(i, r) := ir in
           mkRow (r_low r) (r_mid r) (r_up r)
                 (if (i =? 0)%nat then map (fun _ => - hh 0) (zeros NumQc data)
                  else if (i =? n - 3)%nat then map (fun _ => - hh (n - 4)) (zeros NumQc data)
                  else zeros NumQc data))
        (combine (seq 0 (n - 2)) m_rows1).
  Definition m_k1 := thomas NumQc m_rows1.
  Definition m_k2 := thomas NumQc m_rows2.
  Definition m_num := map3 (fun r a b => r - a * hh (n - 3) - b * hh (n - 2)) m_rhs_last (nth 0 m_k1 []) (nth (n - 3) m_k1 []).
  Definition m_den := map2 (fun a b => a * hh (n - 3) + b * hh (n - 2) + c2 NumQc * (hh (n - 2) + hh (n - 3))) (nth 0 m_k2 []) (nth (n - 3) m_k2 []).
  Definition m_km1 := map2 (fun a b => a / b) m_num m_den.
  Definition m_khead := map2 (fun r1 r2 => map3 (fun a km b => a + km * b) r1 m_km1 r2) m_k1 m_k2.

  Lemma periodic_k_unfold :
    periodic_k NumQc xs data n = m_khead ++ [m_km1] ++ [nth 0 m_khead []].
  Proof. reflexivity. Qed.

  Lemma w_slope0 : length m_slope0 = L.
  Proof. apply map2_length_eq; apply yw; lia. Qed.
  Lemma w_slope_1 : length m_slope_1 = L.
  Proof. apply map2_length_eq; apply yw; lia. Qed.
  Lemma w_slope_2 : length m_slope_2 = L.
  Proof. apply map2_length_eq; apply yw; lia. Qed.
  Lemma w_rhs0 : length m_rhs0 = L.
  Proof. apply map2_length_eq; [apply w_slope_1|apply w_slope0]. Qed.
  Lemma w_rhs_last : length m_rhs_last = L.
  Proof. apply map2_length_eq; [apply w_slope_2|apply w_slope_1]. Qed.
  Lemma w_zeros : length (zeros NumQc data) = L.
  Proof. unfold zeros, lanes. rewrite repeat_length. apply yw. lia. Qed.

  Lemma l_slope0 : nth j m_slope0 0 = (yy 1 - yy 0) / hh 0.
  Proof. unfold m_slope0. rewrite nthq_map2 by (apply yjl; lia). reflexivity. Qed.
  Lemma l_slope_1 : nth j m_slope_1 0 = (yy (n - 1) - yy (n - 2)) / hh (n - 2).
  Proof. unfold m_slope_1. rewrite nthq_map2 by (apply yjl; lia). reflexivity. Qed.
  Lemma l_slope_2 : nth j m_slope_2 0 = (yy (n - 2) - yy (n - 3)) / hh (n - 3).
  Proof. unfold m_slope_2. rewrite nthq_map2 by (apply yjl; lia). reflexivity. Qed.
  Lemma l_rhs0 : nth j m_rhs0 0 = rhs0 n hh yy.
  Proof.
    unfold m_rhs0. rewrite nthq_map2 by (rewrite ?w_slope_1, ?w_slope0; exact Hj).
    rewrite l_slope_1, l_slope0. reflexivity.
  Qed.
  Lemma l_rhs_last : nth j m_rhs_last 0 = rhs_last n hh yy.
  Proof.
    unfold m_rhs_last. rewrite nthq_map2 by (rewrite ?w_slope_1, ?w_slope_2; exact Hj).
    rewrite l_slope_1, l_slope_2. reflexivity.
  Qed.

  Lemma s_interior_is i : s_interior xs data j i = int_row hh yy i.
  Proof. reflexivity. Qed.

  Lemma lane_rows1 : lane_rows 0 j m_rows1 = rows1 n hh yy /\ rows_width L m_rows1.
  Proof.
    unfold m_rows1, rows1, lane_rows, rows_width. cbn [map]. split.
    - f_equal.
      + unfold lane_row, m_row0, prow0. cbn [r_low r_mid r_up r_rhs]. rewrite l_rhs0. reflexivity.
      + rewrite map_map. apply map_ext_in. intros i Hi. apply in_seq in Hi.
        rewrite (proj1 (lane_interior xs data L j Hj Hwidth Hlen ltac:(lia) i ltac:(lia) ltac:(lia))).
        apply s_interior_is.
    - constructor; [exact w_rhs0|]. apply Forall_forall. intros r Hr.
      apply in_map_iff in Hr as (i & <- & Hi). apply in_seq in Hi.
      apply (lane_interior xs data L j Hj Hwidth Hlen ltac:(lia) i ltac:(lia) ltac:(lia)).
  Qed.

  Lemma lane_rows2_gen (rows : list (@trow Qc)) : forall i0,
    lane_rows 0 j
      (map (fun ir : nat * @trow Qc =>
           let '(i, r) := ir in
           mkRow (r_low r) (r_mid r) (r_up r)
                 (if (i =? 0)%nat then map (fun _ => - hh 0) (zeros NumQc data)
                  else if (i =? n - 3)%nat then map (fun _ => - hh (n - 4)) (zeros NumQc data)
                  else zeros NumQc data))
        (combine (seq i0 (length rows)) rows))
    = set_rhs (rhs2_of n hh) i0 (lane_rows 0 j rows)
    /\ rows_width L (map (fun ir : nat * @trow Qc =>
           let '(i, r) := ir in
           mkRow (r_low r) (r_mid r) (r_up r)
                 (if (i =? 0)%nat then map (fun _ => - hh 0) (zeros NumQc data)
                  else if (i =? n - 3)%nat then map (fun _ => - hh (n - 4)) (zeros NumQc data)
                  else zeros NumQc data))
        (combine (seq i0 (length rows)) rows)).
  Proof.
    induction rows as [|r t IH]; intros i0; [split; [reflexivity|constructor]|].
    cbn [length seq combine map lane_rows set_rhs]. destruct (IH (S i0)) as [E W]. split.
    - f_equal; [|exact E].
      unfold lane_row at 1. cbn [r_low r_mid r_up r_rhs s_low s_mid s_up]. unfold lane_row. cbn [s_low s_mid s_up].
      f_equal. unfold rhs2_of.
      destruct (i0 =? 0)%nat; [rewrite nthq_map by (rewrite w_zeros; exact Hj); reflexivity|].
      destruct (i0 =? n - 3)%nat; [rewrite nthq_map by (rewrite w_zeros; exact Hj); reflexivity|].
      unfold zeros. apply nth_repeat.
    - constructor; [|exact W]. cbn [r_rhs].
      destruct (i0 =? 0)%nat; [rewrite map_length; apply w_zeros|].
      destruct (i0 =? n - 3)%nat; [rewrite map_length; apply w_zeros|apply w_zeros].
  Qed.

  Lemma m_rows1_length : length m_rows1 = (n - 2)%nat.
  Proof. unfold m_rows1. cbn [length]. rewrite map_length, seq_length. lia. Qed.

  Lemma lane_rows2 : lane_rows 0 j m_rows2 = rows2 n hh yy /\ rows_width L m_rows2.
  Proof.
    unfold m_rows2. rewrite <- m_rows1_length. destruct (lane_rows2_gen m_rows1 0) as [E W].
    split; [|exact W]. rewrite E, (proj1 lane_rows1). symmetry. apply (rows2_is_set_rhs n hh yy Hn).
  Qed.

  Lemma lane_k1 : lane_vec 0 j m_k1 = k1 n hh yy.
  Proof.
    unfold m_k1, k1. destruct lane_rows1 as [E W]. rewrite (thomas_lane NumQc 0 j L _ Hj W), E. reflexivity.
  Qed.
  Lemma lane_k2 : lane_vec 0 j m_k2 = k2 n hh yy.
  Proof.
    unfold m_k2, k2. destruct lane_rows2 as [E W]. rewrite (thomas_lane NumQc 0 j L _ Hj W), E. reflexivity.
  Qed.

  Lemma HL : (0 < L)%nat. Proof. lia. Qed.

  Lemma shape_k1 : Forall (fun v => length v = L) m_k1 /\ length m_k1 = (n - 2)%nat.
  Proof.
    destruct (thomas_shape NumQc 0 L m_rows1 HL (proj2 lane_rows1)) as [A B].
    split; [exact A|]. unfold m_k1. rewrite B. apply m_rows1_length.
  Qed.
  Lemma m_rows2_length : length m_rows2 = (n - 2)%nat.
  Proof. unfold m_rows2. rewrite map_length, combine_length, seq_length, m_rows1_length. lia. Qed.
  Lemma shape_k2 : Forall (fun v => length v = L) m_k2 /\ length m_k2 = (n - 2)%nat.
  Proof.
    destruct (thomas_shape NumQc 0 L m_rows2 HL (proj2 lane_rows2)) as [A B].
    split; [exact A|]. unfold m_k2. rewrite B. apply m_rows2_length.
  Qed.

  Lemma row_w (k : list (list Qc)) i : Forall (fun v => length v = L) k -> (i < length k)%nat ->
    length (nth i k []) = L.
  Proof. intros F Hi. rewrite Forall_forall in F. apply F. apply nth_In. exact Hi. Qed.

  Lemma w_num : length m_num = L.
  Proof.
    unfold m_num. destruct shape_k1 as [F Len].
    apply map3_length; [apply w_rhs_last|apply row_w; [exact F|lia]|apply row_w; [exact F|lia]].
  Qed.
  Lemma w_den : length m_den = L.
  Proof.
    unfold m_den. destruct shape_k2 as [F Len].
    apply map2_length_eq; apply row_w; try exact F; lia.
  Qed.
  Lemma w_km1 : length m_km1 = L.
  Proof. apply map2_length_eq; [apply w_num|apply w_den]. Qed.

  Lemma l_km1 : nth j m_km1 0 = tt n hh yy.
  Proof.
    unfold m_km1. rewrite nthq_map2 by (rewrite ?w_num, ?w_den; exact Hj).
    destruct shape_k1 as [F1 Len1]. destruct shape_k2 as [F2 Len2].
    unfold m_num. rewrite (nth_map3 _ _ _ _ j 0 0 0 0)
      by (rewrite ?w_rhs_last, ?row_w; try exact F1; lia).
    unfold m_den. rewrite nthq_map2 by (rewrite row_w; try exact F2; lia).
    rewrite l_rhs_last, !nth_lane_vec, lane_k1, lane_k2. reflexivity.
  Qed.

  Lemma lane_khead_gen : forall (a b : list (list Qc)),
    Forall (fun v => length v = L) a -> Forall (fun v => length v = L) b ->
    lane_vec 0 j (map2 (fun r1 r2 => map3 (fun x km z => x + km * z) r1 m_km1 r2) a b)
    = vcomb (tt n hh yy) (lane_vec 0 j a) (lane_vec 0 j b)
    /\ Forall (fun v => length v = L) (map2 (fun r1 r2 => map3 (fun x km z => x + km * z) r1 m_km1 r2) a b).
  Proof.
    induction a as [|x a IH]; intros [|z b] Fa Fb; try (split; [reflexivity|constructor]).
    apply Forall_cons_iff in Fa as [Wx Fa]. apply Forall_cons_iff in Fb as [Wz Fb].
    destruct (IH b Fa Fb) as [E W]. cbn [map2 lane_vec map vcomb]. split.
    - f_equal; [|exact E].
      rewrite (nth_map3 _ _ _ _ j 0 0 0 0) by (rewrite ?w_km1, ?Wx, ?Wz; exact Hj).
      rewrite l_km1. reflexivity.
    - constructor; [|exact W]. apply map3_length; [exact Wx|apply w_km1|exact Wz].
  Qed.

  Lemma lane_khead : lane_vec 0 j m_khead = khead n hh yy.
  Proof.
    unfold m_khead, khead. rewrite (proj1 (lane_khead_gen m_k1 m_k2 (proj1 shape_k1) (proj1 shape_k2))).
    rewrite lane_k1, lane_k2. reflexivity.
  Qed.

  (* lane j of the model's periodic slopes is the scalar condensed solve *)
  Theorem lane_periodic_k : lane_vec 0 j (periodic_k NumQc xs data n) = kper n hh yy.
  Proof.
    rewrite periodic_k_unfold. unfold kper, lane_vec. rewrite !map_app. cbn [map].
    fold (lane_vec 0 j m_khead). rewrite lane_khead, l_km1.
    rewrite nth_lane_vec, lane_khead. reflexivity.
  Qed.

  (* hence the slopes of every lane satisfy the full cyclic system *)
  Theorem periodic_slopes_system :
    let K := fun i => nth j (nth i (periodic_k NumQc xs data n) []) 0 in
    (hh 0%nat * K (n - 2)%nat + c2 NumQc * (hh (n - 2)%nat + hh 0%nat) * K 0%nat + hh (n - 2)%nat * K 1%nat = rhs0 n hh yy) /\
    (forall i, (1 <= i)%nat -> (i <= n - 3)%nat ->
       hh i * K (i - 1)%nat + c2 NumQc * (hh i + hh (i - 1)%nat) * K i + hh (i - 1)%nat * K (i + 1)%nat =
       rhs_interior NumQc (hh i) (hh (i - 1)%nat) (yy (i - 1)%nat) (yy i) (yy (i + 1)%nat)) /\
    (hh (n - 2)%nat * K (n - 3)%nat + c2 NumQc * (hh (n - 2)%nat + hh (n - 3)%nat) * K (n - 2)%nat + hh (n - 3)%nat * K (n - 1)%nat = rhs_last n hh yy) /\
    K (n - 1)%nat = K 0%nat.
  Proof.
    cbv beta zeta.
    assert (E : forall i, nth j (nth i (periodic_k NumQc xs data n) []) 0 = PeriodicSolve.K n hh yy i).
    { intros i. rewrite nth_lane_vec, lane_periodic_k. reflexivity. }
    rewrite !E. pose proof (periodic_cyclic_system n hh yy Hn hh_pos) as P. cbv zeta in P.
    destruct P as (P1 & P2 & P3 & P4). repeat split; try assumption.
    intros i H1 H2. rewrite !E. apply P2; assumption.
  Qed.

  (* ---------------- consequences for the pieces ---------------- *)

  Notation KK := (lane_vec 0 j (periodic_k NumQc xs data n)).

  Lemma KK_nth i : nth i KK 0 = PeriodicSolve.K n hh yy i.
  Proof. rewrite lane_periodic_k. reflexivity. Qed.

  Lemma hh_neq i : (i + 1 < n)%nat -> hh i <> 0.
  Proof. intros. apply Qc_pos_neq, hh_pos. assumption. Qed.

  (* C02 for Periodic: the second derivative is continuous at every interior knot *)
  Theorem periodic_C2 i : (1 <= i)%nat -> (i + 2 <= n)%nat ->
    piece_d2 (aq xs data j KK (i - 1)) (bq xs data j KK (i - 1)) (hh (i - 1)) (hh (i - 1))
    = piece_d2 (aq xs data j KK i) (bq xs data j KK i) (hh i) 0.
  Proof.
    intros H1 H2. unfold aq, bq, kk. replace (i - 1 + 1)%nat with i by lia.
    apply (c2_iff_row (yy (i - 1)) (yy i) (yy (i + 1)) (nth (i - 1) KK 0) (nth i KK 0) (nth (i + 1) KK 0));
      try (apply hh_neq; lia).
    rewrite !KK_nth.
    destruct (periodic_cyclic_system n hh yy Hn hh_pos) as (_ & P2 & P3 & _).
    destruct (Nat.eq_dec i (n - 2)) as [E|E].
    - subst i. replace (n - 2 - 1)%nat with (n - 3)%nat by lia. replace (n - 2 + 1)%nat with (n - 1)%nat by lia.
      rewrite P3. unfold rhs_last, rhs_interior. rewrite c3_Qc. cbn [NumQc add sub mul div].
      field. split; apply hh_neq; lia.
    - apply P2; lia.
  Qed.

  (* C03 for Periodic: first and second derivative agree at the two ends (given equal end data) *)
  Theorem periodic_wrap_d1 :
    piece_d1 (kk KK (n - 2)) (aq xs data j KK (n - 2)) (bq xs data j KK (n - 2)) (hh (n - 2)) (hh (n - 2))
    = piece_d1 (kk KK 0) (aq xs data j KK 0) (bq xs data j KK 0) (hh 0) 0.
  Proof.
    rewrite piece_d1_at_0. unfold aq, bq. rewrite piece_d1_at_h by (apply hh_neq; lia).
    unfold kk. replace (n - 2 + 1)%nat with (n - 1)%nat by lia. rewrite !KK_nth.
    apply (periodic_cyclic_system n hh yy Hn hh_pos).
  Qed.

  Theorem periodic_wrap_d2 : yy (n - 1) = yy 0 ->
    piece_d2 (aq xs data j KK (n - 2)) (bq xs data j KK (n - 2)) (hh (n - 2)) (hh (n - 2))
    = piece_d2 (aq xs data j KK 0) (bq xs data j KK 0) (hh 0) 0.
  Proof.
    intros Ey. unfold aq, bq, kk. replace (n - 2 + 1)%nat with (n - 1)%nat by lia. cbn [Nat.add].
    destruct (periodic_cyclic_system n hh yy Hn hh_pos) as (P1 & _ & _ & P4).
    rewrite !KK_nth, P4, Ey.
    apply (periodic_wrap_iff (yy (n - 2)) (yy 0) (yy 1) (PeriodicSolve.K n hh yy (n - 2)) (PeriodicSolve.K n hh yy 0)
             (PeriodicSolve.K n hh yy 1) (hh (n - 2)) (hh 0)); try (apply hh_neq; lia).
    rewrite P1. unfold rhs0. rewrite Ey. reflexivity.
  Qed.

  (* ... and these conditions determine the slopes: the periodic spline is unique *)
  Theorem periodic_slopes_unique (k' : list Qc) :
    yy (n - 1) = yy 0 ->
    (forall i, (1 <= i)%nat -> (i + 2 <= n)%nat ->
       piece_d2 (aq xs data j k' (i - 1)) (bq xs data j k' (i - 1)) (hh (i - 1)) (hh (i - 1))
       = piece_d2 (aq xs data j k' i) (bq xs data j k' i) (hh i) 0) ->
    piece_d1 (kk k' (n - 2)) (aq xs data j k' (n - 2)) (bq xs data j k' (n - 2)) (hh (n - 2)) (hh (n - 2))
      = piece_d1 (kk k' 0) (aq xs data j k' 0) (bq xs data j k' 0) (hh 0) 0 ->
    piece_d2 (aq xs data j k' (n - 2)) (bq xs data j k' (n - 2)) (hh (n - 2)) (hh (n - 2))
      = piece_d2 (aq xs data j k' 0) (bq xs data j k' 0) (hh 0) 0 ->
    forall i, (i < n)%nat -> kk k' i = kk KK i.
  Proof.
    intros Ey HC2 Hd1 Hd2.
    assert (Hlast : kk k' (n - 1) = kk k' 0).
    { rewrite piece_d1_at_0 in Hd1. unfold aq, bq in Hd1. rewrite piece_d1_at_h in Hd1 by (apply hh_neq; lia).
      replace (n - 2 + 1)%nat with (n - 1)%nat in Hd1 by lia. exact Hd1. }
    assert (S1 : cyclic_sys n hh yy (kk k')).
    { unfold cyclic_sys. repeat split.
      - unfold aq, bq in Hd2. replace (n - 2 + 1)%nat with (n - 1)%nat in Hd2 by lia. cbn [Nat.add] in Hd2.
        rewrite Hlast, Ey in Hd2.
        apply (periodic_wrap_iff (yy (n - 2)) (yy 0) (yy 1) (kk k' (n - 2)) (kk k' 0) (kk k' 1) (hh (n - 2)) (hh 0)) in Hd2;
          try (apply hh_neq; lia).
        rewrite Hd2. unfold rhs0. rewrite Ey. reflexivity.
      - intros i H1 H2. specialize (HC2 i H1 ltac:(lia)). unfold aq, bq in HC2.
        replace (i - 1 + 1)%nat with i in HC2 by lia.
        apply (c2_iff_row (yy (i - 1)) (yy i) (yy (i + 1)) (kk k' (i - 1)) (kk k' i) (kk k' (i + 1))) in HC2;
          try (apply hh_neq; lia). exact HC2.
      - specialize (HC2 (n - 2)%nat ltac:(lia) ltac:(lia)). unfold aq, bq in HC2.
        replace (n - 2 - 1)%nat with (n - 3)%nat in HC2 by lia. replace (n - 3 + 1)%nat with (n - 2)%nat in HC2 by lia.
        replace (n - 2 + 1)%nat with (n - 1)%nat in HC2 by lia.
        apply (c2_iff_row (yy (n - 3)) (yy (n - 2)) (yy (n - 1)) (kk k' (n - 3)) (kk k' (n - 2)) (kk k' (n - 1))) in HC2;
          try (apply hh_neq; lia).
        rewrite HC2. unfold rhs_last, rhs_interior. rewrite c3_Qc. cbn [NumQc add sub mul div].
        field. split; apply hh_neq; lia.
      - exact Hlast. }
    intros i Hi. unfold kk at 2. rewrite KK_nth.
    apply (cyclic_sys_unique n hh yy Hn hh_pos (kk k') (PeriodicSolve.K n hh yy) S1
             (cyclic_sys_solved n hh yy Hn hh_pos) i Hi).
  Qed.

  (* shape of the model's slope array *)
  Lemma periodic_k_shape :
    length (periodic_k NumQc xs data n) = n /\ Forall (fun v => length v = L) (periodic_k NumQc xs data n).
  Proof.
    rewrite periodic_k_unfold.
    destruct (lane_khead_gen m_k1 m_k2 (proj1 shape_k1) (proj1 shape_k2)) as [_ W].
    fold m_khead in W.
    assert (Lk : length m_khead = (n - 2)%nat).
    { unfold m_khead. rewrite map2_length, (proj2 shape_k1), (proj2 shape_k2). apply Nat.min_id. }
    split.
    - rewrite !app_length. cbn [length]. lia.
    - apply Forall_app. split; [exact W|]. constructor; [apply w_km1|]. constructor; [|constructor].
      apply row_w; [exact W|lia].
  Qed.

  (* what the solver returns for the Periodic boundary *)
  Lemma rows_differ_false r1 r2 : length r1 = L -> length r2 = L ->
    rows_differ NumQc r1 r2 = false -> nth j r1 0 = nth j r2 0.
  Proof.
    intros W1 W2 H. unfold rows_differ in H.
    assert (G : forall p, In p (combine r1 r2) -> fst p = snd p).
    { intros p Hp. destruct (eqb NumQc (fst p) (snd p)) eqn:E.
      - apply Qc_is_canon. apply Qeq_bool_iff. exact E.
      - exfalso. assert (X : existsb (fun p => negb (eqb NumQc (fst p) (snd p))) (combine r1 r2) = true).
        { apply existsb_exists. exists p. split; [exact Hp|]. rewrite E. reflexivity. }
        rewrite X in H. discriminate H. }
    specialize (G (nth j r1 0, nth j r2 0)). apply G.
    rewrite <- combine_nth by lia. apply nth_In. rewrite combine_length. lia.
  Qed.

  Theorem solve_periodic K :
    solve_for_k NumQc xs data IPeriodic = Ok K ->
    K = periodic_k NumQc xs data n /\ yy (n - 1) = yy 0.
  Proof.
    unfold solve_for_k.
    destruct (n <? 3)%nat eqn:E3; [apply Nat.ltb_lt in E3; lia|].
    rewrite Hlen, Nat.eqb_refl. cbn [negb].
    destruct (rows_differ NumQc (yi data 0) (yi data (n - 1))) eqn:Ed; [discriminate|].
    destruct (n =? 3)%nat eqn:E3'; [apply Nat.eqb_eq in E3'; lia|].
    intros H. injection H as <-. split; [reflexivity|].
    symmetry. apply (rows_differ_false _ _ (yw 0%nat ltac:(lia)) (yw (n - 1)%nat ltac:(lia)) Ed).
  Qed.
End PerLane.

(* ---------------- Periodic with exactly three knots (cubic_spline.rs:480-496) ---------------- *)
Section Per3.
  Variable xs : list Qc.
  Variable data : list (list Qc).
  Variable L : nat.
  Variable j : nat.
  Hypothesis Hj : (j < L)%nat.
  Hypothesis Hwidth : forall i, (i < length data)%nat -> length (nth i data []) = L.
  Hypothesis HS : StrictIncQc xs.
  Hypothesis Hlen : length xs = length data.
  Hypothesis Hn : length data = 3%nat.

  Notation hh := (hq xs).
  Notation yy := (yq data j).
  Notation K3 := (lane_vec 0 j (periodic3_k NumQc xs data)).

  Lemma hh3_neq i : (i < 2)%nat -> hh i <> 0.
  Proof. intros Hi. apply (hq_neq xs data L j Hj HS Hlen ltac:(lia) i ltac:(lia)). Qed.
  Lemma hh3_pos i : (i < 2)%nat -> 0 < hh i.
  Proof. intros Hi. apply (hq_pos xs data L j Hj HS Hlen ltac:(lia) i ltac:(lia)). Qed.

  Definition k3 : Qc :=
    ((yy 1 - yy 0) / hh 0 / hh 0 + (yy 2 - yy 1) / hh 1 / hh 1) / (1 / hh 0 + 1 / hh 1).

  Lemma yw3 i : (i < 3)%nat -> length (yi data i) = L.
  Proof. intros. apply (yi_width data L Hwidth). lia. Qed.

  Lemma lane_periodic3 : K3 = [k3; k3; k3].
  Proof.
    unfold periodic3_k, lane_vec. cbn [map].
    assert (E : nth j (map2 (fun s0 s1 : Qc => div NumQc (add NumQc (div NumQc s0 (h NumQc xs 0)) (div NumQc s1 (h NumQc xs 1)))
                                            (add NumQc (div NumQc (c1 NumQc) (h NumQc xs 0)) (div NumQc (c1 NumQc) (h NumQc xs 1))))
                        (map2 (fun y1 y0 : Qc => div NumQc (sub NumQc y1 y0) (h NumQc xs 0)) (yi data 1) (yi data 0))
                        (map2 (fun y2 y1 : Qc => div NumQc (sub NumQc y2 y1) (h NumQc xs 1)) (yi data 2) (yi data 1))) 0 = k3).
    { rewrite nthq_map2 by (rewrite map2_length_eq with (L := L); try apply yw3; lia).
      rewrite !nthq_map2 by (rewrite yw3; lia). rewrite c1_Qc. reflexivity. }
    rewrite E. reflexivity.
  Qed.

  Lemma inv_sum_neq : 1 / hh 0 + 1 / hh 1 <> 0.
  Proof.
    pose proof (hh3_pos 0%nat ltac:(lia)) as P0. pose proof (hh3_pos 1%nat ltac:(lia)) as P1.
    assert (E : 1 / hh 0 + 1 / hh 1 = (hh 0 + hh 1) / (hh 0 * hh 1)).
    { field. split; apply Qc_pos_neq; assumption. }
    rewrite E. intros C.
    assert (Z : hh 0 + hh 1 = 0).
    { replace (hh 0 + hh 1) with ((hh 0 + hh 1) / (hh 0 * hh 1) * (hh 0 * hh 1))
        by (field; split; apply Qc_pos_neq; assumption). rewrite C. ring. }
    assert (P : 0 < hh 0 + hh 1).
    { clear E C Z. qo. Lqa.lra. }
    rewrite Z in P. apply (Qclt_not_eq 0 0 P). reflexivity.
  Qed.

  (* C2 at the middle knot, equal first and second derivatives at the two ends *)
  Theorem periodic3_C2 :
    piece_d2 (aq xs data j K3 0) (bq xs data j K3 0) (hh 0) (hh 0)
    = piece_d2 (aq xs data j K3 1) (bq xs data j K3 1) (hh 1) 0.
  Proof.
    rewrite lane_periodic3. unfold aq, bq, kk. cbn [nth Nat.add].
    apply (c2_iff_row (yy 0) (yy 1) (yy 2) k3 k3 k3 (hh 0) (hh 1)); try (apply hh3_neq; lia).
    unfold rhs_interior, k3. rewrite c2_Qc, c3_Qc. cbn [NumQc add sub mul div].
    field. repeat split; try (apply hh3_neq; lia).
    pose proof inv_sum_neq as Q. intros C. apply Q.
    replace (1 / hh 0 + 1 / hh 1) with ((hh 1 + hh 0) / (hh 0 * hh 1)) by (field; split; apply hh3_neq; lia).
    rewrite C. field. split; apply hh3_neq; lia.
  Qed.

  Theorem periodic3_wrap_d1 :
    piece_d1 (kk K3 1) (aq xs data j K3 1) (bq xs data j K3 1) (hh 1) (hh 1)
    = piece_d1 (kk K3 0) (aq xs data j K3 0) (bq xs data j K3 0) (hh 0) 0.
  Proof.
    rewrite piece_d1_at_0. unfold aq, bq. rewrite piece_d1_at_h by (apply hh3_neq; lia).
    rewrite lane_periodic3. reflexivity.
  Qed.

  Theorem periodic3_wrap_d2 : yy 2 = yy 0 ->
    piece_d2 (aq xs data j K3 1) (bq xs data j K3 1) (hh 1) (hh 1)
    = piece_d2 (aq xs data j K3 0) (bq xs data j K3 0) (hh 0) 0.
  Proof.
    intros Ey. rewrite lane_periodic3. unfold aq, bq, kk. cbn [nth Nat.add]. rewrite Ey.
    apply (periodic_wrap_iff (yy 1) (yy 0) (yy 1) k3 k3 k3 (hh 1) (hh 0)); try (apply hh3_neq; lia).
    unfold k3. rewrite Ey, c2_Qc, c3_Qc.
    field. repeat split; try (apply hh3_neq; lia).
    pose proof inv_sum_neq as Q. intros C. apply Q.
    replace (1 / hh 0 + 1 / hh 1) with ((hh 1 + hh 0) / (hh 0 * hh 1)) by (field; split; apply hh3_neq; lia).
    rewrite C. field. split; apply hh3_neq; lia.
  Qed.
End Per3.

(* ---------------- Top level: spline_build with the Periodic boundary ---------------- *)
From NI Require Import SplineStruct Periodic.

Section PeriodicMain.
  Variable xs : list Qc.
  Variable data : list (list Qc).
  Variable L : nat.
  Hypothesis Hwidth : forall i, (i < length data)%nat -> length (nth i data []) = L.
  Hypothesis HS : StrictIncQc xs.
  Hypothesis Hlen : length xs = length data.
  Hypothesis Hn : (4 <= length data)%nat.
  Hypothesis H64 : (Z.of_nat (length data) <= two64)%Z.
  Notation n := (length data).

  Lemma spline_build_periodic ext trail sp :
    spline_build NumQc BPeriodic ext xs data trail = Ok sp ->
    exists K, solve_for_k NumQc xs data IPeriodic = Ok K /\
              sp = sp_of xs data K (if negb ext then ExtNo else ExtPeriodic).
  Proof.
    unfold spline_build.
    destruct (solve_for_k NumQc xs data IPeriodic) as [K| |k| |] eqn:EK; cbn [bind]; try discriminate.
    intros E. injection E as <-. exists K. split; [reflexivity|]. unfold sp_of. destruct ext; reflexivity.
  Qed.

  (* Main theorem (Periodic, n >= 4): for every lane j the pieces are C2 at every interior knot,
     first and second derivatives agree at the two ends, every query inside the range is the
     cubic piece of ONE bracketing interval, and (with extrapolation) every query outside the
     range is answered like the wrapped query, which lies in [x_0, x_(n-1)).                *)
  Theorem spline_periodic_correct ext trail sp j :
    (j < L)%nat ->
    spline_build NumQc BPeriodic ext xs data trail = Ok sp ->
    exists kq : list Qc,
      (forall i, (1 <= i)%nat -> (i + 2 <= n)%nat ->
         piece_d2 (aq xs data j kq (i - 1)) (bq xs data j kq (i - 1)) (hq xs (i - 1)) (hq xs (i - 1))
         = piece_d2 (aq xs data j kq i) (bq xs data j kq i) (hq xs i) 0) /\
      piece_d1 (kk kq (n - 2)) (aq xs data j kq (n - 2)) (bq xs data j kq (n - 2)) (hq xs (n - 2)) (hq xs (n - 2))
        = piece_d1 (kk kq 0) (aq xs data j kq 0) (bq xs data j kq 0) (hq xs 0) 0 /\
      piece_d2 (aq xs data j kq (n - 2)) (bq xs data j kq (n - 2)) (hq xs (n - 2)) (hq xs (n - 2))
        = piece_d2 (aq xs data j kq 0) (bq xs data j kq 0) (hq xs 0) 0 /\
      yq data j (n - 1) = yq data j 0 /\
      (forall x, in_closed_range NumQc 0 xs x = true ->
        exists i v, lower_index NumQc xs x = Ok i /\ (i + 1 < n)%nat /\
          spline_interp NumQc sp xs data x = Ok v /\ length v = L /\
          nth j v 0 =
            piece (yq data j i) (kk kq i) (aq xs data j kq i) (bq xs data j kq i) (hq xs i)
                  (x - nth i xs 0)) /\
      (ext = true -> forall x, in_closed_range NumQc 0 xs x = false ->
          in_closed_range NumQc 0 xs (wrap NumQc 0 xs x) = true /\
          spline_interp NumQc sp xs data x = spline_interp NumQc sp xs data (wrap NumQc 0 xs x)).
  Proof.
    intros Hj Hsp.
    destruct (spline_build_periodic ext trail sp Hsp) as (K & HK & ->).
    destruct (solve_periodic xs data L j Hj Hwidth Hlen Hn K HK) as [-> Ey].
    destruct (periodic_k_shape xs data L j Hj Hwidth Hlen Hn) as [KL KW].
    exists (lane_vec 0 j (periodic_k NumQc xs data n)). repeat split.
    - intros i H1 H2. apply (periodic_C2 xs data L j Hj Hwidth HS Hlen Hn i H1 H2).
    - apply (periodic_wrap_d1 xs data L j Hj Hwidth HS Hlen Hn).
    - apply (periodic_wrap_d2 xs data L j Hj Hwidth HS Hlen Hn Ey).
    - exact Ey.
    - intros x Hx.
      destruct (lower_index_Qc xs x HS ltac:(lia) ltac:(rewrite Hlen; exact H64)) as (i & Hi & Hb2 & _).
      destruct (spline_eval_at xs data L j Hj Hwidth HS Hlen ltac:(lia) _ KL KW ExtYes x i Hi ltac:(lia))
        as (v & Ev & Lv & Nv); [intros _; exact Hx|discriminate|].
      exists i, v. repeat split; auto; try lia.
      rewrite <- Ev. apply (spline_ext_same_in_range NumQc 0); [lia|exact Hx].
    - assert (Hspan : nth 0 xs 0 < nth (length xs - 1) xs 0).
      { apply (StrictIncQc_lt xs 0 (length xs - 1) HS); lia. }
      destruct (wrap_in_range xs Hspan x) as [A B].
      apply in_closed_range_Qc; [exact A|]. apply Qclt_le_weak. exact B.
    - subst ext. cbn [negb].
      assert (Hspan : nth 0 xs 0 < nth (length xs - 1) xs 0).
      { apply (StrictIncQc_lt xs 0 (length xs - 1) HS); lia. }
      destruct (wrap_in_range xs Hspan x) as [A B].
      apply (spline_periodic_wrap NumQc 0); [lia|reflexivity|assumption|].
      apply in_closed_range_Qc; [exact A|]. apply Qclt_le_weak. exact B.
  Qed.
End PeriodicMain.
