(* BuildProofs.v -- C10: the builders accept exactly the valid inputs.  Law-free. *)

From Coq Require Import List Bool Arith ZArith Lia.
From NI Require Import Num Base Mono MonoProofs Lookup Linear Interp Spline.
Import ListNotations.

Section Build.
  Context {T : Type} (N : Num T).

  Definition strictly_rising (ax : list T) : Prop := monotonic_prop N ax = Ok (Rising true).

  Lemma mono_eqb_rising m : mono_eqb m (Rising true) = true <-> m = Rising true.
  Proof. destruct m as [[]|[]|]; cbn; split; intros H; try discriminate; auto. Qed.

  (* Interp1DBuilder::build: Ok iff enough data, strictly rising axis, matching length *)
  Theorem build1d_ok_iff_valid min ax n :
    build1d_checks N min ax n = Ok tt <->
    (min <= n /\ strictly_rising ax /\ length ax = n).
  Proof.
    unfold build1d_checks, strictly_rising.
    destruct (n <? min) eqn:E1.
    { apply Nat.ltb_lt in E1. split; [discriminate|]. intros (H & _ & _). lia. }
    apply Nat.ltb_ge in E1.
    destruct (monotonic_prop_total N ax) as [m Hm]. rewrite Hm. cbn [bind].
    destruct (mono_eqb m (Rising true)) eqn:E2; cbn [negb].
    - apply mono_eqb_rising in E2. subst m.
      destruct (length ax =? n) eqn:E3; cbn [negb].
      + apply Nat.eqb_eq in E3. split; auto.
      + apply Nat.eqb_neq in E3. split; [discriminate|]. intros (_ & _ & H). contradiction.
    - split; [discriminate|]. intros (_ & H & _). injection H as ->. cbn in E2. discriminate.
  Qed.

  (* every error kind names a requirement that is indeed violated; never a panic *)
  Theorem build1d_err_kind_sound min ax n :
    match build1d_checks N min ax n with
    | Ok _ => True
    | ErrBuild NotEnoughData => n < min
    | ErrBuild NotMonotonic => ~ strictly_rising ax
    | ErrBuild ShapeError => length ax <> n
    | _ => False
    end.
  Proof.
    unfold build1d_checks, strictly_rising.
    destruct (n <? min) eqn:E1; [apply Nat.ltb_lt in E1; exact E1|].
    destruct (monotonic_prop_total N ax) as [m Hm]. rewrite Hm. cbn [bind].
    destruct (mono_eqb m (Rising true)) eqn:E2; cbn [negb].
    - destruct (length ax =? n) eqn:E3; cbn [negb]; [exact I|]. apply Nat.eqb_neq in E3. exact E3.
    - intros H. injection H as ->. cbn in E2. discriminate.
  Qed.

  Theorem build2d_ok_iff_valid min xax yax nx ny :
    build2d_checks N min xax yax nx ny = Ok tt <->
    (min <= nx /\ min <= ny /\ length xax = nx /\ length yax = ny /\
     strictly_rising xax /\ strictly_rising yax).
  Proof.
    unfold build2d_checks, strictly_rising.
    destruct (nx <? min) eqn:E1.
    { apply Nat.ltb_lt in E1. split; [discriminate|]. intros (H & _). lia. }
    destruct (ny <? min) eqn:E2.
    { apply Nat.ltb_lt in E2. split; [discriminate|]. intros (_ & H & _). lia. }
    apply Nat.ltb_ge in E1, E2.
    destruct (length xax =? nx) eqn:E3; cbn [negb].
    2:{ apply Nat.eqb_neq in E3. split; [discriminate|]. intros (_ & _ & H & _). contradiction. }
    destruct (length yax =? ny) eqn:E4; cbn [negb].
    2:{ apply Nat.eqb_neq in E4. split; [discriminate|]. intros (_ & _ & _ & H & _). contradiction. }
    apply Nat.eqb_eq in E3, E4.
    destruct (monotonic_prop_total N xax) as [mx Hx]. rewrite Hx. cbn [bind].
    destruct (mono_eqb mx (Rising true)) eqn:E5; cbn [negb].
    2:{ split; [discriminate|]. intros (_ & _ & _ & _ & H & _). injection H as ->. cbn in E5. discriminate. }
    apply mono_eqb_rising in E5. subst mx.
    destruct (monotonic_prop_total N yax) as [my Hy]. rewrite Hy. cbn [bind].
    destruct (mono_eqb my (Rising true)) eqn:E6; cbn [negb].
    2:{ split; [discriminate|]. intros (_ & _ & _ & _ & _ & H). injection H as ->. cbn in E6. discriminate. }
    apply mono_eqb_rising in E6. subst my. split; auto. intros _. repeat split; auto.
  Qed.

  Theorem build2d_err_kind_sound min xax yax nx ny :
    match build2d_checks N min xax yax nx ny with
    | Ok _ => True
    | ErrBuild NotEnoughData => nx < min \/ ny < min
    | ErrBuild NotMonotonic => ~ strictly_rising xax \/ ~ strictly_rising yax
    | ErrBuild ShapeError => length xax <> nx \/ length yax <> ny
    | _ => False
    end.
  Proof.
    unfold build2d_checks, strictly_rising.
    destruct (nx <? min) eqn:E1; [apply Nat.ltb_lt in E1; left; exact E1|].
    destruct (ny <? min) eqn:E2; [apply Nat.ltb_lt in E2; right; exact E2|].
    destruct (length xax =? nx) eqn:E3; cbn [negb]; [|apply Nat.eqb_neq in E3; left; exact E3].
    destruct (length yax =? ny) eqn:E4; cbn [negb]; [|apply Nat.eqb_neq in E4; right; exact E4].
    destruct (monotonic_prop_total N xax) as [mx Hx]. rewrite Hx. cbn [bind].
    destruct (mono_eqb mx (Rising true)) eqn:E5; cbn [negb].
    2:{ left. intros H. injection H as ->. cbn in E5. discriminate. }
    destruct (monotonic_prop_total N yax) as [my Hy]. rewrite Hy. cbn [bind].
    destruct (mono_eqb my (Rising true)) eqn:E6; cbn [negb]; [exact I|].
    right. intros H. injection H as ->. cbn in E6. discriminate.
  Qed.

  (* a strictly rising axis in the sense of the builder has >= 2 entries, every consecutive
     pair tested a < b -- hence it is NaN-free (C12) *)
  Theorem strictly_rising_all_lt ax :
    strictly_rising ax -> 2 <= length ax /\ forallb (lt_test N) (pairs ax) = true.
  Proof. apply mono_strict_rising_all_lt. Qed.

  (* the spline's own build: error kinds *)
  Theorem spline_build_err_kinds b ext xs data trail :
    match spline_build N b ext xs data trail with
    | ErrBuild ShapeError =>
        exists pl sh, b = BIndividual pl sh /\ list_eqb Nat.eqb sh (1 :: trail) = false
    | ErrBuild ValueError =>
        b = BPeriodic /\ rows_differ N (nth 0 data []) (nth (length data - 1) data []) = true
    | ErrBuild _ => False
    | ErrOOB => False
    | _ => True
    end.
  Proof.
    unfold spline_build.
    assert (S : forall ib, match solve_for_k N xs data ib with
                           | ErrBuild ValueError => ib = IPeriodic /\ rows_differ N (nth 0 data []) (nth (length data - 1) data []) = true
                           | ErrBuild _ => False | ErrOOB => False | _ => True end).
    { intros ib. unfold solve_for_k. destruct (length data <? 3); [exact I|].
      destruct (negb (length xs =? length data)); [exact I|].
      destruct ib; [|exact I]. unfold yi.
      destruct (rows_differ N (nth 0 data []) (nth (length data - 1) data [])) eqn:E; [auto|].
      destruct (length data =? 3); exact I. }
    destruct b.
    - specialize (S (IMixed SNotAKnot SNotAKnot)).
      destruct (solve_for_k N xs data (IMixed SNotAKnot SNotAKnot)) as [k| |[]| |]; cbn [bind]; try exact I; try contradiction.
      destruct S; discriminate.
    - specialize (S (IMixed SNatural SNatural)).
      destruct (solve_for_k N xs data (IMixed SNatural SNatural)) as [k| |[]| |]; cbn [bind]; try exact I; try contradiction.
      destruct S; discriminate.
    - specialize (S (IMixed SClamped SClamped)).
      destruct (solve_for_k N xs data (IMixed SClamped SClamped)) as [k| |[]| |]; cbn [bind]; try exact I; try contradiction.
      destruct S; discriminate.
    - specialize (S IPeriodic).
      destruct (solve_for_k N xs data IPeriodic) as [k| |[]| |]; cbn [bind]; try exact I; try contradiction.
      destruct S; auto.
    - destruct (list_eqb Nat.eqb shape (1 :: trail)) eqn:E; cbn [negb bind]; [|eauto].
      unfold mapM_lanes.
      assert (M : forall l, match mapM (fun j => match nth_error per_lane j with
                                                | Some rb => solve_for_k N xs (col j data) (ibound_of_row rb)
                                                | None => Panic end) l with
                           | ErrBuild _ => False | ErrOOB => False | _ => True end).
      { induction l as [|a l IH]; cbn [mapM]; [exact I|].
        destruct (nth_error per_lane a) as [rb|]; cbn [bind]; [|exact I].
        assert (S2 : match solve_for_k N xs (col a data) (ibound_of_row rb) with
                     | ErrBuild _ => False | ErrOOB => False | _ => True end).
        { unfold solve_for_k. destruct (length (col a data) <? 3); [exact I|].
          destruct (negb (length xs =? length (col a data))); [exact I|].
          destruct rb; exact I. }
        destruct (solve_for_k N xs (col a data) (ibound_of_row rb)); cbn [bind]; try exact I; try contradiction.
        destruct (mapM _ l); cbn [bind]; try exact I; try contradiction. }
      specialize (M (seq 0 (lanes_of data))).
      destruct (mapM _ (seq 0 (lanes_of data))); cbn [bind]; try exact I; contradiction.
  Qed.

End Build.
