(* InputLayout.v -- C13, input side: the query array (and, in 2-D, both coordinate arrays) is a
   strided view into caller memory, read in logical order (indexed_iter / Zip); the result depends on
   the logical contents only.                                                              *)

From Coq Require Import List Bool Arith ZArith Lia.
From NI Require Import Num Base Entry EntryProofs.
Import ListNotations.

Section InputLayout.
  Context {T : Type}.
  Variable F : T -> outcome (list T).
  Variable trail : list nat.

  (* interp_array_into with the query array given as a view into memory [qm] *)
  Definition interp_array_into_v (q : view) (qm : @mem T) (buffer : view) (m : @mem T) : outcome (@mem T) :=
    interp_array_into F trail (v_shape q) (read_view q qm) buffer m.

  (* two query views of the same shape holding the same logical array -- whatever their offsets,
     strides (C, Fortran, transposed, reversed, windows) or owners -- give the same outcome and
     the same memory *)
  Theorem query_layout_free (q1 q2 : view) (qm1 qm2 : @mem T) (buffer : view) (m : @mem T) :
    v_shape q1 = v_shape q2 ->
    (forall idx, In idx (indices (v_shape q1)) -> qm1 (addr q1 idx) = qm2 (addr q2 idx)) ->
    interp_array_into_v q1 qm1 buffer m = interp_array_into_v q2 qm2 buffer m.
  Proof.
    intros Hs Hc. unfold interp_array_into_v, read_view. rewrite <- Hs. f_equal.
    apply map_ext_in. exact Hc.
  Qed.

  (* reading a freshly allocated C-ordered array back gives the list it was filled from *)
  Lemma read_fresh_length (shape : list nat) (qm : @mem T) :
    length (read_view (fresh_view shape) qm) = length (indices shape).
  Proof. unfold read_view. rewrite map_length. reflexivity. Qed.
End InputLayout.

