(* Base.v -- outcomes (Rust's Result / panic made explicit) and list helpers. *)

From Coq Require Import List ZArith Bool Lia.
Import ListNotations.

(* BuilderError kinds (src/lib.rs:127-141) *)
Inductive bkind : Type := NotEnoughData | NotMonotonic | ShapeError | ValueError.

Definition bkind_eqb (a b : bkind) : bool :=
  match a, b with
  | NotEnoughData, NotEnoughData | NotMonotonic, NotMonotonic
  | ShapeError, ShapeError | ValueError, ValueError => true
  | _, _ => false
  end.

(* Every way a call of the crate can end.  Panics that the properties speak about
   are explicit; running out of fuel is a distinct outcome that theorems exclude. *)
Inductive outcome (A : Type) : Type :=
| Ok (a : A)
| ErrOOB                       (* InterpolateError::OutOfBounds *)
| ErrBuild (k : bkind)         (* BuilderError                  *)
| Panic
| OutOfFuel.

Arguments Ok {A} a.
Arguments ErrOOB {A}.
Arguments ErrBuild {A} k.
Arguments Panic {A}.
Arguments OutOfFuel {A}.

Definition bind {A B} (o : outcome A) (f : A -> outcome B) : outcome B :=
  match o with
  | Ok a => f a
  | ErrOOB => ErrOOB
  | ErrBuild k => ErrBuild k
  | Panic => Panic
  | OutOfFuel => OutOfFuel
  end.

Notation "x <- e ;; f" := (bind e (fun x => f))
  (at level 61, e at next level, right associativity).

Definition omap {A B} (f : A -> B) (o : outcome A) : outcome B :=
  bind o (fun a => Ok (f a)).

(* indexing `v[i]`: out of bounds is a panic *)
Definition idx {A} (l : list A) (i : nat) : outcome A :=
  match nth_error l i with Some v => Ok v | None => Panic end.

(* usize subtraction with overflow checks on *)
Definition usub (a b : nat) : outcome nat :=
  if Nat.ltb a b then Panic else Ok (a - b).

Lemma idx_Ok {A} (l : list A) i v : idx l i = Ok v <-> nth_error l i = Some v.
Proof.
  unfold idx. destruct (nth_error l i); split; intros H; inversion H; subst; reflexivity.
Qed.

Lemma idx_lt {A} (l : list A) i : i < length l -> exists v, idx l i = Ok v.
Proof.
  intros H. unfold idx. destruct (nth_error l i) eqn:E; [eauto|].
  apply nth_error_None in E. lia.
Qed.

Lemma idx_nth {A} (l : list A) i d : i < length l -> idx l i = Ok (nth i l d).
Proof.
  intros H. unfold idx. rewrite (nth_error_nth' l d H). reflexivity.
Qed.

Lemma idx_ge {A} (l : list A) i : length l <= i -> idx l i = Panic.
Proof.
  intros H. unfold idx. apply nth_error_None in H. rewrite H. reflexivity.
Qed.

(* monadic map / all over a list, left to right, stopping at the first non-Ok *)
Fixpoint mapM {A B} (f : A -> outcome B) (l : list A) : outcome (list B) :=
  match l with
  | [] => Ok []
  | a :: t => b <- f a ;; r <- mapM f t ;; Ok (b :: r)
  end.

Fixpoint map2 {A B C} (f : A -> B -> C) (l1 : list A) (l2 : list B) : list C :=
  match l1, l2 with
  | a :: t1, b :: t2 => f a b :: map2 f t1 t2
  | _, _ => []
  end.

Lemma map2_length {A B C} (f : A -> B -> C) l1 l2 :
  length (map2 f l1 l2) = Nat.min (length l1) (length l2).
Proof. revert l2; induction l1 as [|a t IH]; intros [|b t2]; simpl; auto. Qed.

Lemma nth_map2 {A B C} (f : A -> B -> C) l1 l2 j da db dc :
  j < length l1 -> j < length l2 ->
  nth j (map2 f l1 l2) dc = f (nth j l1 da) (nth j l2 db).
Proof.
  revert l2 j; induction l1 as [|a t IH]; intros [|b t2] [|j] H1 H2; simpl in *; try lia; auto.
  apply IH; lia.
Qed.

Definition list_eqb {A} (e : A -> A -> bool) := fix go (l1 l2 : list A) : bool :=
  match l1, l2 with
  | [], [] => true
  | a :: t1, b :: t2 => e a b && go t1 t2
  | _, _ => false
  end.
