(* UnitsIndividual.v -- C15 for per-lane (Individual) boundary conditions at the level of the
   interpolator: data times c with the derivative values of every lane's FirstDeriv / SecondDeriv
   conditions times c gives answers times c; an axis in other units (x -> c*x + s, c > 0) with the
   derivative values converted (v/c, v/c^2) gives the same answers.                       *)

From Coq Require Import List Bool Arith ZArith QArith Qcanon Lia Lqa.
From NI Require Import Num Base Lookup Linear Interp Spline Tri TriProofs SplineAlgebra LookupProofs LinearProofs LinearExact
  SplineProofs SplineStruct SplineIndividual Units UnitsList.
Import ListNotations.
Local Open Scope Qc_scope.

Definition conv_row (fv fa : Qc -> Qc) (rb : rowbc Qc) : rowbc Qc :=
  match rb with
  | RMixed l r => RMixed (conv_single fv fa l) (conv_single fv fa r)
  | other => other
  end.

Lemma lane_lr_conv fv fa rb :
  lane_lr (conv_row fv fa rb) = (conv_single fv fa (fst (lane_lr rb)), conv_single fv fa (snd (lane_lr rb))).
Proof. destruct rb; reflexivity. Qed.

Lemma nth_error_map_some {A B} (f : A -> B) l i a : nth_error l i = Some a -> nth_error (map f l) i = Some (f a).
Proof. intros H. rewrite nth_error_map, H. reflexivity. Qed.

Section UnitsIndividual.
  Variable xs : list Qc.
  Variable data : list (list Qc).
  Variable L : nat.
  Hypothesis Hwidth : forall i, (i < length data)%nat -> length (nth i data []) = L.
  Hypothesis HS : StrictIncQc xs.
  Hypothesis Hlen : length xs = length data.
  Hypothesis Hn : (3 <= length data)%nat.
  Hypothesis H64 : (Z.of_nat (length data) <= two64)%Z.
  Hypothesis HL : (0 < L)%nat.
  Notation n := (length data).

  Theorem spline_individual_scale_data c per_lane shape ext trail sp sp' x v :
    length per_lane = L ->
    spline_build NumQc (BIndividual per_lane shape) ext xs data trail = Ok sp ->
    spline_build NumQc (BIndividual (map (conv_row (Qcmult c) (Qcmult c)) per_lane) shape) ext xs (map (map (Qcmult c)) data) trail = Ok sp' ->
    (ext = false -> in_closed_range NumQc 0 xs x = true) ->
    spline_interp NumQc sp xs data x = Ok v ->
    spline_interp NumQc sp' xs (map (map (Qcmult c)) data) x = Ok (map (Qcmult c) v).
  Proof.
    intros Hpl Hsp Hsp' Hx Hv.
    pose proof (Hwidth' data L c Hwidth) as Hw'. pose proof (n' data c) as En.
    assert (Lanes : forall j, (j < L)%nat ->
              exists v', spline_interp NumQc sp' xs (map (map (Qcmult c)) data) x = Ok v' /\
                         length v' = L /\ length v = L /\ nth j v' 0 = c * nth j v 0).
    { intros j Hj.
      destruct (nth_error per_lane j) as [rb|] eqn:Erb; [|apply nth_error_None in Erb; lia].
      destruct (spline_individual_correct xs data L Hwidth HS Hlen Hn H64 HL per_lane shape ext trail sp j rb Hj Erb Hsp)
        as (kq & Hiff & Hev). cbv zeta in Hiff.
      destruct (spline_individual_correct xs (map (map (Qcmult c)) data) L Hw' HS ltac:(rewrite En; exact Hlen) ltac:(rewrite En; exact Hn)
                  ltac:(rewrite En; exact H64) HL _ shape ext trail sp' j _ Hj (nth_error_map_some _ _ _ _ Erb) Hsp')
        as (kq' & Hiff' & Hev'). cbv zeta in Hiff'.
      rewrite lane_lr_conv in Hiff'. cbn [fst snd] in Hiff'.
      set (l := fst (lane_lr rb)) in *. set (r := snd (lane_lr rb)) in *.
      assert (Ek : kq' = map (Qcmult c) kq).
      { symmetry. apply Hiff'. pose proof (proj2 (Hiff kq) eq_refl) as Hs.
        unfold sys_rows in *. rewrite En, !is_nak_conv.
        replace 0 with (c * 0) at 1 by ring.
        destruct ((n =? 3)%nat && is_nak l && is_nak r) eqn:Epar.
        - apply andb_prop in Epar as [Epar _]. apply andb_prop in Epar as [E3 _]. apply Nat.eqb_eq in E3.
          apply (sat_transport (Qcmult c) (Rscale c) ltac:(ring) (Rscale_ok c) _ _ (R_parabola xs data L c HS Hlen Hn HL j Hj E3) 0 _ Hs).
        - apply (sat_transport (Qcmult c) (Rscale c) ltac:(ring) (Rscale_ok c) _ _ (R_srows xs data L c HS Hlen Hn HL j Hj l r) 0 _ Hs). }
      destruct (Hev x Hx) as (i & v0 & Hi & Hi1 & Ev0 & Lv0 & Nv0).
      rewrite Hv in Ev0. injection Ev0 as <-.
      destruct (Hev' x Hx) as (i' & v' & Hi' & Hi1' & Ev' & Lv' & Nv').
      rewrite Hi in Hi'. injection Hi' as <-.
      exists v'. repeat split; auto. rewrite Nv', Nv0, Ek.
      unfold aq, bq. rewrite !kk_scale, !yq_scale.
      apply piece_scale_data. apply (hq_neq xs data L j Hj HS Hlen Hn i). lia. }
    destruct (Lanes 0%nat HL) as (v' & Ev' & Lv' & Lv & _). rewrite Ev'. f_equal.
    apply (nth_ext _ _ 0 0).
    - rewrite map_length. lia.
    - intros j Hj. rewrite Lv' in Hj.
      destruct (Lanes j Hj) as (v'' & Ev'' & _ & _ & Nj). rewrite Ev' in Ev''. injection Ev'' as <-.
      rewrite Nj. replace 0 with (c * 0) at 2 by ring. rewrite map_nth. reflexivity.
  Qed.

  Theorem spline_individual_axis_units c s per_lane shape ext trail sp sp' x v : 0 < c ->
    length per_lane = L ->
    spline_build NumQc (BIndividual per_lane shape) ext xs data trail = Ok sp ->
    spline_build NumQc (BIndividual (map (conv_row (fun v => v / c) (fun v => v / (c * c))) per_lane) shape) ext
                 (map (aff c s) xs) data trail = Ok sp' ->
    (ext = false -> in_closed_range NumQc 0 xs x = true) ->
    spline_interp NumQc sp xs data x = Ok v ->
    spline_interp NumQc sp' (map (aff c s) xs) data (aff c s x) = Ok v.
  Proof.
    intros Hc Hpl Hsp Hsp' Hx Hv.
    pose proof (HS' xs c s Hc HS) as HSx. pose proof (Hlen' xs data c s Hlen) as Hlx.
    assert (Hx' : ext = false -> in_closed_range NumQc 0 (map (aff c s) xs) (aff c s x) = true).
    { intros E. rewrite (in_closed_range_mono (aff c s) (aff_mono c s Hc) xs x ltac:(lia)). apply Hx. exact E. }
    pose proof (lower_index_mono (aff c s) (aff_mono c s Hc) xs x HS ltac:(lia) ltac:(rewrite Hlen; exact H64)) as Hmono.
    assert (Lanes : forall j, (j < L)%nat ->
              exists v', spline_interp NumQc sp' (map (aff c s) xs) data (aff c s x) = Ok v' /\
                         length v' = L /\ length v = L /\ nth j v' 0 = nth j v 0).
    { intros j Hj.
      destruct (nth_error per_lane j) as [rb|] eqn:Erb; [|apply nth_error_None in Erb; lia].
      destruct (spline_individual_correct xs data L Hwidth HS Hlen Hn H64 HL per_lane shape ext trail sp j rb Hj Erb Hsp)
        as (kq & Hiff & Hev). cbv zeta in Hiff.
      destruct (spline_individual_correct (map (aff c s) xs) data L Hwidth HSx Hlx Hn H64 HL _ shape ext trail sp' j _ Hj
                  (nth_error_map_some _ _ _ _ Erb) Hsp') as (kq' & Hiff' & Hev'). cbv zeta in Hiff'.
      rewrite lane_lr_conv in Hiff'. cbn [fst snd] in Hiff'.
      set (l := fst (lane_lr rb)) in *. set (r := snd (lane_lr rb)) in *.
      assert (Ek : kq' = map (fun k => k / c) kq).
      { symmetry. apply Hiff'. pose proof (proj2 (Hiff kq) eq_refl) as Hs.
        unfold sys_rows in *. rewrite !is_nak_conv.
        rewrite <- (div0 c Hc) at 1.
        destruct ((n =? 3)%nat && is_nak l && is_nak r) eqn:Epar.
        - apply andb_prop in Epar as [Epar _]. apply andb_prop in Epar as [E3 _]. apply Nat.eqb_eq in E3.
          apply (sat_transport (fun k => k / c) (Raxis c) (div0 c Hc) (fun r r' H => H) _ _
                   (Ra_parabola xs data L c s Hc HS Hlen Hn HL j Hj E3) 0 _ Hs).
        - apply (sat_transport (fun k => k / c) (Raxis c) (div0 c Hc) (fun r r' H => H) _ _
                   (Ra_srows xs data L c s Hc HS Hlen Hn HL j Hj l r) 0 _ Hs). }
      destruct (Hev x Hx) as (i & v0 & Hi & Hi1 & Ev0 & Lv0 & Nv0).
      rewrite Hv in Ev0. injection Ev0 as <-.
      destruct (Hev' (aff c s x) Hx') as (i' & v' & Hi' & Hi1' & Ev' & Lv' & Nv').
      rewrite Hmono, Hi in Hi'. injection Hi' as <-.
      exists v'. repeat split; auto. rewrite Nv', Nv0, Ek.
      unfold aq, bq. rewrite !(kk_div c Hc), (hq_aff xs data L c s Hlen Hn HL) by lia.
      rewrite nth_map_Qc by lia.
      replace (aff c s x - aff c s (nth i xs 0)) with (c * (x - nth i xs 0)) by (unfold aff; ring).
      apply piece_scale_axis; [apply pos_neq; exact Hc|]. apply (hq_neq xs data L j Hj HS Hlen Hn i). lia. }
    destruct (Lanes 0%nat HL) as (v' & Ev' & Lv' & Lv & _). rewrite Ev'. f_equal.
    apply (nth_ext _ _ 0 0); [lia|].
    intros j Hj. rewrite Lv' in Hj.
    destruct (Lanes j Hj) as (v'' & Ev'' & _ & _ & Nj). rewrite Ev' in Ev''. injection Ev'' as <-. exact Nj.
  Qed.
End UnitsIndividual.
