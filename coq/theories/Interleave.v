(* Interleave.v -- C17, the sequentially consistent part of "other threads querying the same
   interpolator": in ANY interleaving of the operation sequences of several threads, every thread
   observes exactly the answers it would observe alone (and the interpolator is unchanged).  What a
   Gallina model cannot exhibit -- data races, weak memory, the Send/Sync auto traits -- is discharged by
   the source audit (no interior mutability, every query method takes &self) and by the threaded runs. *)

From Coq Require Import List Bool Arith.
From NI Require Import Base History.
Import ListNotations.

Section Interleave.
  Context {S Op Ans : Type}.
  Variable answer : S -> Op -> Ans.

  (* operations tagged with the thread that issues them; a global schedule is any list of tagged ops *)
  Definition ans_tagged (s : S) (p : nat * Op) : Ans := answer s (snd p).

  Definition thread_view (t : nat) (schedule : list (nat * Op)) (answers : list Ans) : list (Op * Ans) :=
    map (fun pa => (snd (fst pa), snd pa))
        (filter (fun pa => Nat.eqb (fst (fst pa)) t) (combine schedule answers)).

  Definition thread_ops (t : nat) (schedule : list (nat * Op)) : list Op :=
    map snd (filter (fun p => Nat.eqb (fst p) t) schedule).

  Theorem interleaving_invisible (s : S) (schedule : list (nat * Op)) (t : nat) :
    fst (run_history ans_tagged s schedule) = s /\
    thread_view t schedule (snd (run_history ans_tagged s schedule))
    = combine (thread_ops t schedule) (snd (run_history answer s (thread_ops t schedule))).
  Proof.
    rewrite !run_history_spec. cbn [fst snd]. split; [reflexivity|].
    unfold thread_view, thread_ops.
    induction schedule as [|[u o] rest IH]; [reflexivity|].
    cbn [map combine filter fst snd]. destruct (Nat.eqb u t); cbn [map combine fst snd]; rewrite IH; reflexivity.
  Qed.
End Interleave.
