(* MonoProofs.v -- C12: monotonic_prop classifies every vector correctly.

   Proved for an arbitrary element type and arbitrary comparison operations; the only
   hypothesis of the classification theorem is that on every consecutive pair exactly
   one of  a < b,  a == b,  a > b  holds (true of every NaN-free float / integer
   vector).  The "never Rising" theorem has no hypothesis on the elements at all.     *)

From Coq Require Import List Bool Arith Lia.
From NI Require Import Num Base Mono.
Import ListNotations.

(* relation of one consecutive pair, as seen through the three tests the code performs *)
Inductive rel : Type := RLt | REq | RGt | RUn.

Definition isLt r := match r with RLt => true | _ => false end.
Definition isEq r := match r with REq => true | _ => false end.
Definition isGt r := match r with RGt => true | _ => false end.
Definition isLe r := match r with RLt | REq => true | _ => false end.
Definition isGe r := match r with RGt | REq => true | _ => false end.
Definition isUn r := match r with RUn => true | _ => false end.

(* The declarative classification of the property text, on the list of pair relations. *)
Definition classify (rs : list rel) : mono :=
  match rs with
  | [] => NotMono
  | _ =>
    if forallb isLt rs then Rising true
    else if forallb isLe rs && existsb isLt rs && existsb isEq rs then Rising false
    else if forallb isGt rs then Falling true
    else if forallb isGe rs && existsb isGt rs && existsb isEq rs then Falling false
    else NotMono
  end.

(* the automaton on relations (used only inside the proof) *)
Definition update_r (s : mstate) (r : rel) : mstate :=
  match s with
  | MInit => match r with RLt => MLikely (Rising true) | REq => MNotStrict
                        | _ => MLikely (Falling true) end
  | MNotStrict => match r with RLt => MLikely (Rising false) | REq => MNotStrict
                             | _ => MLikely (Falling false) end
  | MLikely (Rising st) => match r with REq => MLikely (Rising false)
                                      | RLt => MLikely (Rising st)
                                      | _ => MLikely NotMono end
  | MLikely (Falling st) => match r with REq => MLikely (Falling false)
                                       | RGt => MLikely (Falling st)
                                       | _ => MLikely NotMono end
  | MLikely NotMono => MLikely NotMono
  end.

Fixpoint fold_r (s : mstate) (rs : list rel) : mono + mstate :=
  match rs with
  | [] => inr s
  | r :: t => match update_r s r with
              | MLikely NotMono => inl NotMono
              | s' => fold_r s' t
              end
  end.

Definition result_r (rs : list rel) : outcome mono :=
  match rs with
  | [] => Ok NotMono
  | _ => match fold_r MInit rs with inl m => Ok m | inr s => finish s end
  end.

(* ---- pure finite-state reasoning on relation lists ---- *)

Lemma fold_r_rising st rs :
  fold_r (MLikely (Rising st)) rs =
  if forallb isLe rs then inr (MLikely (Rising (st && forallb isLt rs))) else inl NotMono.
Proof.
  revert st; induction rs as [|r t IH]; intros st; cbn [fold_r forallb].
  - rewrite andb_true_r; reflexivity.
  - destruct r; cbn [update_r isLe isLt andb]; try reflexivity.
    + rewrite IH. reflexivity.
    + rewrite IH. cbn [andb]. rewrite andb_false_r. reflexivity.
Qed.

Lemma fold_r_falling st rs :
  fold_r (MLikely (Falling st)) rs =
  if forallb isGe rs then inr (MLikely (Falling (st && forallb isGt rs))) else inl NotMono.
Proof.
  revert st; induction rs as [|r t IH]; intros st; cbn [fold_r forallb].
  - rewrite andb_true_r; reflexivity.
  - destruct r; cbn [update_r isGe isGt andb]; try reflexivity.
    + rewrite IH. cbn [andb]. rewrite andb_false_r. reflexivity.
    + rewrite IH. reflexivity.
Qed.

(* classification when no pair is unordered *)
Lemma result_r_classify rs :
  forallb (fun r => negb (isUn r)) rs = true -> result_r rs = Ok (classify rs).
Proof.
  destruct rs as [|r0 t]; [reflexivity|].
  unfold result_r, classify.
  (* strip leading equal pairs *)
  assert (G : forall t' : list rel,
      forallb (fun r => negb (isUn r)) t' = true ->
      match fold_r MNotStrict t' with inl m => Ok m | inr s => finish s end =
      Ok (if forallb isLe t' && existsb isLt t' then Rising false
          else if forallb isGe t' && existsb isGt t' then Falling false
          else NotMono)).
  { induction t' as [|r t' IH]; intros Hu; [reflexivity|].
    cbn [forallb] in Hu. apply andb_prop in Hu as [Hr Hu].
    destruct r; cbn [isUn negb] in Hr; try discriminate;
      cbn [fold_r update_r forallb existsb isLe isGe isLt isGt andb orb].
    - rewrite fold_r_rising. cbn [andb].
      destruct (forallb isLe t'); cbn [finish andb]; reflexivity.
    - rewrite (IH Hu). reflexivity.
    - rewrite fold_r_falling. cbn [andb].
      destruct (forallb isGe t'); cbn [finish andb]; reflexivity. }
  intros Hu. cbn [forallb] in Hu. apply andb_prop in Hu as [Hr Hu].
  destruct r0; cbn [isUn negb] in Hr; try discriminate;
    cbn [fold_r update_r forallb existsb isLe isGe isLt isGt isEq andb orb].
  - (* first pair < *)
    rewrite fold_r_rising. cbn [andb].
    destruct (forallb isLe t) eqn:Ele; cbn [finish].
    + destruct (forallb isLt t) eqn:Elt; [reflexivity|].
      assert (Ex : existsb isEq t = true).
      { clear -Ele Elt. induction t as [|r t IH]; [discriminate|].
        cbn [forallb existsb] in *. destruct r; cbn in *; try discriminate; auto. }
      rewrite Ex. reflexivity.
    + destruct (forallb isLt t) eqn:Elt.
      * exfalso. clear -Ele Elt. induction t as [|r t IH]; [discriminate|].
        cbn [forallb] in *. destruct r; cbn in *; try discriminate; auto.
      * reflexivity.
  - (* first pair = *)
    rewrite (G t Hu). rewrite !andb_true_r. reflexivity.
  - (* first pair > *)
    rewrite fold_r_falling. cbn [andb].
    destruct (forallb isGe t) eqn:Ege; cbn [finish].
    + destruct (forallb isGt t) eqn:Egt; [reflexivity|].
      assert (Ex : existsb isEq t = true).
      { clear -Ege Egt. induction t as [|r t IH]; [discriminate|].
        cbn [forallb existsb] in *. destruct r; cbn in *; try discriminate; auto. }
      rewrite Ex. reflexivity.
    + destruct (forallb isGt t) eqn:Egt.
      * exfalso. clear -Ege Egt. induction t as [|r t IH]; [discriminate|].
        cbn [forallb] in *. destruct r; cbn in *; try discriminate; auto.
      * reflexivity.
Qed.

(* Rising is only ever reported when every pair tested < or = *)
Lemma fold_r_rising_only s rs m :
  match fold_r s rs with inl m' => Ok m' | inr s' => finish s' end = Ok m ->
  (exists st, m = Rising st) ->
  (s = MInit \/ s = MNotStrict \/ exists st, s = MLikely (Rising st)) /\ forallb isLe rs = true.
Proof.
  revert s; induction rs as [|r t IH]; intros s H [st ->].
  - cbn in H. destruct s as [| |[ | |]]; cbn in H; inversion H; subst; eauto 6.
  - cbn [fold_r] in H.
    destruct s as [| |[s0|s0|]]; destruct r; cbn [update_r] in H;
      try (match type of H with Ok NotMono = _ => discriminate end);
      try (apply IH in H; [|eauto]; destruct H as [[H|[H|[st' H]]] Hle]; try discriminate;
           cbn [forallb isLe andb]; split; eauto 6).
Qed.

(* ---- link to the code's automaton on elements ---- *)

Section Link.
  Context {T : Type} (N : Num T).

  Fixpoint pairs (l : list T) : list (T * T) :=
    match l with
    | a :: (b :: _) as t => (a, b) :: pairs t
    | _ => []
    end.

  (* exactly one of the three tests holds on the pair *)
  Definition ordered (p : T * T) : Prop :=
    let '(a, b) := p in
    (ltb N a b = true /\ eqb N a b = false /\ ltb N b a = false) \/
    (ltb N a b = false /\ eqb N a b = true /\ ltb N b a = false) \/
    (ltb N a b = false /\ eqb N a b = false /\ ltb N b a = true).

  Definition rel_of (p : T * T) : rel :=
    let '(a, b) := p in
    if ltb N a b then RLt else if eqb N a b then REq else if ltb N b a then RGt else RUn.

  Lemma update_ordered s a b :
    ordered (a, b) -> update N s a b = update_r s (rel_of (a, b)).
  Proof.
    unfold ordered, rel_of, update, gtb.
    intros [(H1&H2&H3)|[(H1&H2&H3)|(H1&H2&H3)]]; destruct s as [| |[st|st|]];
      rewrite ?H1, ?H2, ?H3; reflexivity.
  Qed.

  Lemma fold_windows_ordered s l :
    Forall ordered (pairs l) ->
    fold_windows N s l = fold_r s (map rel_of (pairs l)).
  Proof.
    revert s; induction l as [|a [|b t] IH]; intros s H; try reflexivity.
    change (pairs (a :: b :: t)) with ((a, b) :: pairs (b :: t)) in *.
    inversion H as [|p ps Hp Hps]; subst.
    cbn [fold_windows map fold_r]. rewrite (update_ordered s a b Hp).
    destruct (update_r s (rel_of (a, b))) as [| |[st|st|]]; try apply IH; auto.
  Qed.

  Lemma pairs_length l : length (pairs l) = length l - 1.
  Proof.
    induction l as [|a [|b t] IH]; try reflexivity.
    change (pairs (a :: b :: t)) with ((a, b) :: pairs (b :: t)).
    cbn [length] in *. lia.
  Qed.

  Theorem monotonic_prop_ordered l :
    Forall ordered (pairs l) ->
    monotonic_prop N l = Ok (classify (map rel_of (pairs l))).
  Proof.
    intros H. unfold monotonic_prop.
    destruct (length l <=? 1) eqn:E.
    - apply Nat.leb_le in E.
      assert (P : pairs l = []).
      { destruct l as [|a [|b t]]; try reflexivity. cbn in E; lia. }
      rewrite P. reflexivity.
    - apply Nat.leb_gt in E.
      rewrite (fold_windows_ordered MInit l H).
      assert (Hne : map rel_of (pairs l) <> []).
      { intros C. apply (f_equal (@length _)) in C. rewrite map_length, pairs_length in C.
        cbn in C. lia. }
      assert (Hu : forallb (fun r => negb (isUn r)) (map rel_of (pairs l)) = true).
      { apply forallb_forall. intros r Hr. apply in_map_iff in Hr as [[a b] [<- Hin]].
        rewrite Forall_forall in H. specialize (H _ Hin).
        unfold ordered, rel_of in *.
        destruct H as [(H1&H2&H3)|[(H1&H2&H3)|(H1&H2&H3)]]; rewrite ?H1, ?H2, ?H3; reflexivity. }
      pose proof (result_r_classify _ Hu) as R. unfold result_r in R.
      destruct (map rel_of (pairs l)) eqn:Em; [congruence|]. exact R.
  Qed.

  (* the general automaton differs from update_r only where a pair is unordered or
     where several tests hold at once; for "never Rising" we need no hypothesis:
     track directly which tests must have succeeded. *)
  Definition le_test (p : T * T) : bool := let '(a, b) := p in ltb N a b || eqb N a b.
  Definition lt_test (p : T * T) : bool := let '(a, b) := p in ltb N a b.

  Lemma fold_windows_rising_only s l m :
    match fold_windows N s l with inl m' => Ok m' | inr s' => finish s' end = Ok m ->
    (exists st, m = Rising st) ->
    (s = MInit \/ s = MNotStrict \/ exists st, s = MLikely (Rising st)) /\
    forallb le_test (pairs l) = true.
  Proof.
    revert s; induction l as [|a [|b t] IH]; intros s H [st ->].
    - cbn in H. destruct s as [| |[ | |]]; cbn in H; inversion H; subst; eauto 6.
    - cbn in H. destruct s as [| |[ | |]]; cbn in H; inversion H; subst; eauto 6.
    - change (pairs (a :: b :: t)) with ((a, b) :: pairs (b :: t)).
      cbn [fold_windows] in H. cbn [forallb le_test].
      destruct s as [| |[s0|s0|]]; cbn [update] in H; unfold gtb in H;
        destruct (ltb N a b) eqn:El; destruct (eqb N a b) eqn:Ee;
        try destruct (ltb N b a) eqn:Eg;
        try (match type of H with Ok NotMono = _ => discriminate end);
        try (apply IH in H; [|eauto]; destruct H as [[H|[H|[st' H]]] Hle]; try discriminate;
             cbn [orb andb]; split; eauto 6).
  Qed.

  (* C12, second clause.  No hypothesis on T, its comparisons or the vector. *)
  Theorem mono_rising_all_le l st :
    monotonic_prop N l = Ok (Rising st) -> forallb le_test (pairs l) = true.
  Proof.
    unfold monotonic_prop. destruct (length l <=? 1); [discriminate|].
    intros H. eapply fold_windows_rising_only in H; [|eauto]. apply H.
  Qed.

  (* strictly rising is reported only if every pair tested a < b *)
  Lemma fold_windows_strict_only s l :
    match fold_windows N s l with inl m' => Ok m' | inr s' => finish s' end = Ok (Rising true) ->
    (s = MInit \/ s = MLikely (Rising true)) /\ forallb lt_test (pairs l) = true.
  Proof.
    revert s; induction l as [|a [|b t] IH]; intros s H.
    - cbn in H. destruct s as [| |[[]|[]|]]; cbn in H; inversion H; subst; eauto.
    - cbn in H. destruct s as [| |[[]|[]|]]; cbn in H; inversion H; subst; eauto.
    - change (pairs (a :: b :: t)) with ((a, b) :: pairs (b :: t)).
      cbn [fold_windows] in H. cbn [forallb lt_test].
      destruct s as [| |[[]|[]|]]; cbn [update] in H; unfold gtb in H;
        destruct (ltb N a b) eqn:El; destruct (eqb N a b) eqn:Ee;
        try destruct (ltb N b a) eqn:Eg;
        try (match type of H with Ok NotMono = _ => discriminate end);
        try (apply IH in H; destruct H as [[H|H] Hle]; try discriminate;
             cbn [andb]; split; eauto).
  Qed.

  Theorem mono_strict_rising_all_lt l :
    monotonic_prop N l = Ok (Rising true) -> 2 <= length l /\ forallb lt_test (pairs l) = true.
  Proof.
    unfold monotonic_prop. destruct (length l <=? 1) eqn:E; [discriminate|].
    apply Nat.leb_gt in E. intros H. apply fold_windows_strict_only in H. split; [lia|apply H].
  Qed.

  Lemma fold_windows_cons s a b t :
    fold_windows N s (a :: b :: t) =
    match update N s a b with
    | MLikely NotMono => inl NotMono
    | s' => fold_windows N s' (b :: t)
    end.
  Proof. reflexivity. Qed.

  Lemma update_not_init s a b : update N s a b <> MInit.
  Proof.
    destruct s as [| |[st|st|]]; cbn;
      repeat match goal with |- context[if ?c then _ else _] => destruct c end; discriminate.
  Qed.

  (* never panics, whatever the input (finish(Init) is unreachable) *)
  Theorem monotonic_prop_total l : exists m, monotonic_prop N l = Ok m.
  Proof.
    unfold monotonic_prop. destruct (length l <=? 1) eqn:E; [eauto|].
    apply Nat.leb_gt in E. destruct l as [|a [|b t]]; cbn in E; try lia.
    assert (G : forall l' s, s <> MInit ->
              exists m, match fold_windows N s l' with inl m' => Ok m' | inr s' => finish s' end = Ok m).
    { induction l' as [|x [|y t'] IH]; intros s Hs.
      - destruct s as [| |m0]; [congruence| |]; cbn; eauto.
      - destruct s as [| |m0]; [congruence| |]; cbn; eauto.
      - rewrite fold_windows_cons.
        pose proof (update_not_init s x y) as Hu.
        destruct (update N s x y) as [| |[st|st|]]; try (apply IH; congruence); eauto; congruence. }
    rewrite fold_windows_cons.
    pose proof (update_not_init MInit a b) as Hu.
    destruct (update N MInit a b) as [| |[st|st|]]; try (apply G; congruence); eauto; congruence.
  Qed.

End Link.

(* `classify` restated as the four iff clauses of the property text *)
Lemma forallb_lt_le rs : forallb isLt rs = true -> forallb isLe rs = true.
Proof. induction rs as [|[] t IH]; cbn; auto; discriminate. Qed.
Lemma forallb_gt_ge rs : forallb isGt rs = true -> forallb isGe rs = true.
Proof. induction rs as [|[] t IH]; cbn; auto; discriminate. Qed.
Lemma forallb_lt_no_eq rs : forallb isLt rs = true -> existsb isEq rs = false.
Proof. induction rs as [|[] t IH]; cbn; auto; discriminate. Qed.
Lemma forallb_gt_no_eq rs : forallb isGt rs = true -> existsb isEq rs = false.
Proof. induction rs as [|[] t IH]; cbn; auto; discriminate. Qed.
Lemma le_gt_excl rs : forallb isLe rs = true -> existsb isGt rs = false.
Proof. induction rs as [|[] t IH]; cbn; auto; discriminate. Qed.
Lemma ge_lt_excl rs : forallb isGe rs = true -> existsb isLt rs = false.
Proof. induction rs as [|[] t IH]; cbn; auto; discriminate. Qed.
Lemma exists_nonempty (f : rel -> bool) rs : existsb f rs = true -> rs <> [].
Proof. destruct rs; [discriminate|congruence]. Qed.
Lemma gt_not_le rs : rs <> [] -> forallb isGt rs = true -> forallb isLe rs = false.
Proof. destruct rs as [|[] t]; cbn; congruence || auto. Qed.
Lemma lt_not_gt rs : rs <> [] -> forallb isLt rs = true -> forallb isGt rs = false.
Proof. destruct rs as [|[] t]; cbn; congruence || auto. Qed.

Lemma classify_ne rs : rs <> [] -> classify rs =
     if forallb isLt rs then Rising true
     else if forallb isLe rs && existsb isLt rs && existsb isEq rs then Rising false
     else if forallb isGt rs then Falling true
     else if forallb isGe rs && existsb isGt rs && existsb isEq rs then Falling false
     else NotMono.
Proof. destruct rs; [congruence|reflexivity]. Qed.

Lemma classify_spec rs :
  (classify rs = Rising true <-> rs <> [] /\ forallb isLt rs = true) /\
  (classify rs = Rising false <->
     forallb isLe rs = true /\ existsb isLt rs = true /\ existsb isEq rs = true) /\
  (classify rs = Falling true <-> rs <> [] /\ forallb isGt rs = true) /\
  (classify rs = Falling false <->
     forallb isGe rs = true /\ existsb isGt rs = true /\ existsb isEq rs = true).
Proof.
  destruct rs as [|r t].
  { cbn. repeat split; try discriminate; try tauto; intros (?&?&?); discriminate. }
  assert (Hne : r :: t <> []) by discriminate.
  rewrite (classify_ne _ Hne). revert Hne. generalize (r :: t). intros rs Hne.
  assert (G1 : forallb isGt rs = true -> forallb isLe rs = false) by (apply gt_not_le; auto).
  assert (G2 : forallb isLt rs = true -> forallb isGt rs = false) by (apply lt_not_gt; auto).
  pose proof (forallb_lt_no_eq rs) as G3. pose proof (forallb_gt_no_eq rs) as G4.
  pose proof (le_gt_excl rs) as G5. pose proof (ge_lt_excl rs) as G6.
  destruct (forallb isLt rs) eqn:Elt; destruct (forallb isLe rs) eqn:Ele;
  destruct (forallb isGt rs) eqn:Egt; destruct (forallb isGe rs) eqn:Ege;
  destruct (existsb isLt rs) eqn:Xlt; destruct (existsb isGt rs) eqn:Xgt;
  destruct (existsb isEq rs) eqn:Xeq; cbn [andb];
  try (specialize (G1 eq_refl)); try (specialize (G2 eq_refl)); try (specialize (G3 eq_refl));
  try (specialize (G4 eq_refl)); try (specialize (G5 eq_refl)); try (specialize (G6 eq_refl));
  try discriminate;
  repeat split; try discriminate; auto;
  try (intros (?&?); discriminate); try (intros (?&?&?); discriminate).
Qed.
