(* SplineProofs.v -- C02 / C03 for the cubic spline over exact rationals, lane by lane:
   the slopes returned by solve_for_k are THE solution of the tridiagonal system (pivots are
   positive for every strictly increasing axis), and each row is a smoothness or boundary
   condition of the pieces the evaluation uses.                                          *)

From Coq Require Import List Bool Arith ZArith QArith Qcanon Lia Lqa Psatz.
From NI Require Import Num Base Lookup Linear Interp Spline Tri TriProofs SplineAlgebra
  LookupProofs LinearProofs LinearExact.
Import ListNotations.
Local Open Scope nat_scope.

Lemma nth_map3 {A B C D} (f : A -> B -> C -> D) l1 l2 l3 j da db dc dd :
  j < length l1 -> j < length l2 -> j < length l3 ->
  nth j (map3 f l1 l2 l3) dd = f (nth j l1 da) (nth j l2 db) (nth j l3 dc).
Proof.
  revert l2 l3 j; induction l1 as [|a t IH]; intros [|b t2] [|c t3] [|j] H1 H2 H3;
    cbn in *; try lia; auto. apply IH; lia.
Qed.
Lemma map3_length {A B C D} (f : A -> B -> C -> D) l1 l2 l3 L :
  length l1 = L -> length l2 = L -> length l3 = L -> length (map3 f l1 l2 l3) = L.
Proof.
  revert l2 l3 L; induction l1 as [|a t IH]; intros [|b t2] [|c t3] L H1 H2 H3; cbn in *; try lia.
  destruct L; [lia|]. f_equal. apply IH; lia.
Qed.
Lemma map2_length_eq {A B C} (f : A -> B -> C) l1 l2 L :
  length l1 = L -> length l2 = L -> length (map2 f l1 l2) = L.
Proof. intros H1 H2. rewrite map2_length, H1, H2. apply Nat.min_id. Qed.

(* positivity helpers on Qc *)
Lemma Qc_pos_neq (a : Qc) : (0 < a)%Qc -> a <> 0%Qc.
Proof. intros H C. rewrite C in H. apply (Qclt_not_eq 0 0 H). reflexivity. Qed.

Section Lane.
  Variable xs : list Qc.
  Variable data : list (list Qc).
  Variable L : nat.
  Variable j : nat.
  Hypothesis Hj : j < L.
  Hypothesis Hwidth : forall i, i < length data -> length (nth i data []) = L.
  Hypothesis HS : StrictIncQc xs.
  Hypothesis Hlen : length xs = length data.
  Hypothesis Hn : 3 <= length data.

  Notation n := (length data).
  Definition yq (i : nat) : Qc := nth j (nth i data []) 0%Qc.
  Definition hq (i : nat) : Qc := (nth (i + 1) xs 0 - nth i xs 0)%Qc.

  Lemma h_is_hq i : h NumQc xs i = hq i.
  Proof. reflexivity. Qed.
  Lemma xi_is i : xi NumQc xs i = nth i xs 0%Qc.
  Proof. reflexivity. Qed.

  Lemma hq_pos i : i + 1 < n -> (0 < hq i)%Qc.
  Proof.
    intros Hi. unfold hq, Qclt. cbn [this Qcminus Qcplus Qcopp Q2Qc]. rewrite !Qred_correct.
    pose proof (StrictIncQc_lt xs i (i + 1) HS ltac:(lia) ltac:(lia)). 
    change (this 0%Qc) with 0%Q. lra.
  Qed.
  Lemma hq_neq i : i + 1 < n -> hq i <> 0%Qc.
  Proof. intros. apply Qc_pos_neq. apply hq_pos. assumption. Qed.

  Lemma yi_width i : i < n -> length (yi data i) = L.
  Proof. intros. unfold yi. apply Hwidth. assumption. Qed.

  (* ---- lane j of every kind of row ---- *)

  Definition s_interior (i : nat) : @srow Qc :=
    mkS (hq i) (c2 NumQc * (hq i + hq (i - 1)))%Qc (hq (i - 1))
        (rhs_interior NumQc (hq i) (hq (i - 1)) (yq (i - 1)) (yq i) (yq (i + 1))).

  Lemma lane_interior i : 1 <= i -> i + 1 < n ->
    lane_row 0%Qc j (interior_row NumQc xs data i) = s_interior i /\
    length (r_rhs (interior_row NumQc xs data i)) = L.
  Proof.
    intros H1 H2. unfold interior_row, lane_row, s_interior. cbn [r_low r_mid r_up r_rhs].
    rewrite !h_is_hq. split.
    - f_equal. rewrite (nth_map3 _ _ _ _ j 0%Qc 0%Qc 0%Qc) by (rewrite yi_width; lia). reflexivity.
    - apply map3_length; apply yi_width; lia.
  Qed.

  Definition s_left (b : single Qc) : @srow Qc :=
    match specialize_single NumQc b with
    | SFirstDeriv v => mkS 0%Qc (c1 NumQc) (c0 NumQc) v
    | SSecondDeriv v =>
        mkS 0%Qc (c2 NumQc * hq 0)%Qc (hq 0)
            (c3 NumQc * (yq 1 - yq 0) - v * pow NumQc (hq 0) (c2 NumQc) / c2 NumQc)%Qc
    | _ =>
        let d := (nth 2 xs 0 - nth 0 xs 0)%Qc in
        let tmp1 := ((hq 0 + c2 NumQc * d) * hq 1)%Qc in
        mkS 0%Qc (hq 1) d
            ((tmp1 * (yq 1 - yq 0) / hq 0 + pow NumQc (hq 0) (c2 NumQc) * (yq 2 - yq 1) / hq 1) / d)%Qc
    end.

  Lemma lane_left b :
    lane_row 0%Qc j (left_row NumQc xs data b) = s_left b /\
    length (r_rhs (left_row NumQc xs data b)) = L.
  Proof.
    unfold left_row, s_left, lane_row.
    destruct (specialize_single NumQc b); cbn [r_low r_mid r_up r_rhs]; rewrite ?h_is_hq, ?xi_is; split;
      try (f_equal);
      try (rewrite (nth_map3 _ _ _ _ j 0%Qc 0%Qc 0%Qc) by (rewrite yi_width; lia); reflexivity);
      try (rewrite (nth_map2 _ _ _ j 0%Qc 0%Qc 0%Qc) by (rewrite yi_width; lia); reflexivity);
      try (apply map3_length; apply yi_width; lia);
      try (apply map2_length_eq; apply yi_width; lia);
      try (rewrite map_length; apply yi_width; lia).
    - rewrite (nth_indep _ 0%Qc ((fun _ : Qc => v) 0%Qc)) by (rewrite map_length, yi_width; lia).
      rewrite (map_nth (fun _ : Qc => v)). reflexivity.
    Unshelve. all: exact 0%Qc.
  Qed.

  Definition s_right (b : single Qc) : @srow Qc :=
    let dx_1 := hq (n - 2) in
    let dx_2 := hq (n - 3) in
    match specialize_single NumQc b with
    | SFirstDeriv v => mkS (c0 NumQc) (c1 NumQc) 0%Qc v
    | SSecondDeriv v =>
        mkS dx_1 (c2 NumQc * dx_1)%Qc 0%Qc
            (c3 NumQc * (yq (n - 1) - yq (n - 2)) + v * pow NumQc dx_1 (c2 NumQc) / c2 NumQc)%Qc
    | _ =>
        let d := (nth (n - 1) xs 0 - nth (n - 3) xs 0)%Qc in
        let tmp1 := ((c2 NumQc * d + dx_1) * dx_2)%Qc in
        mkS d dx_2 0%Qc
            ((pow NumQc dx_1 (c2 NumQc) * (yq (n - 2) - yq (n - 3)) / dx_2
              + tmp1 * (yq (n - 1) - yq (n - 2)) / dx_1) / d)%Qc
    end.

  Lemma lane_right b :
    lane_row 0%Qc j (right_row NumQc xs data n b) = s_right b /\
    length (r_rhs (right_row NumQc xs data n b)) = L.
  Proof.
    unfold right_row, s_right, lane_row.
    destruct (specialize_single NumQc b); cbn [r_low r_mid r_up r_rhs]; rewrite ?h_is_hq, ?xi_is; split;
      try (f_equal);
      try (rewrite (nth_map3 _ _ _ _ j 0%Qc 0%Qc 0%Qc) by (rewrite yi_width; lia); reflexivity);
      try (rewrite (nth_map2 _ _ _ j 0%Qc 0%Qc 0%Qc) by (rewrite yi_width; lia); reflexivity);
      try (apply map3_length; apply yi_width; lia);
      try (apply map2_length_eq; apply yi_width; lia);
      try (rewrite map_length; apply yi_width; lia).
    - rewrite (nth_indep _ 0%Qc ((fun _ : Qc => v) 0%Qc)) by (rewrite map_length, yi_width; lia).
      rewrite (map_nth (fun _ : Qc => v)). reflexivity.
    Unshelve. all: exact 0%Qc.
  Qed.


(* ------------------------------------------------------------------ *)
(* Pivots of the forward sweep are positive                             *)

Lemma Q_frac_le (low pm pu : Q) : (0 <= pu -> pu < pm -> 0 <= low -> low * / pm * pu <= low)%Q.
Proof.
  intros H0 H1 H2. assert (Hpm : (0 < pm)%Q) by lra.
  assert (Hi : (0 < / pm)%Q) by (apply Qinv_lt_0_compat; exact Hpm).
  assert (E : (pm * / pm == 1)%Q) by (field; lra).
  assert (F : (pu * / pm <= 1)%Q) by nra.
  setoid_replace (low * / pm * pu)%Q with (low * (pu * / pm))%Q by ring.
  nra.
Qed.

Lemma Q_frac_lt (low pm pu : Q) : (0 <= pu -> pu < pm -> 0 < low -> low * / pm * pu < low)%Q.
Proof.
  intros H0 H1 H2. assert (Hpm : (0 < pm)%Q) by lra.
  assert (Hi : (0 < / pm)%Q) by (apply Qinv_lt_0_compat; exact Hpm).
  assert (E : (pm * / pm == 1)%Q) by (field; lra).
  assert (F : (pu * / pm < 1)%Q) by nra.
  setoid_replace (low * / pm * pu)%Q with (low * (pu * / pm))%Q by ring.
  nra.
Qed.

Definition dom (r : qrow) : Prop :=
  (0 <= s_low r)%Qc /\ (0 <= s_up r)%Qc /\ (s_low r + s_up r < s_mid r)%Qc.

(* state (mid', up, rhs') of the last swept row *)
Fixpoint fwd_state (pm pu pr : Qc) (rows : list qrow) : Qc * Qc * Qc :=
  match rows with
  | [] => (pm, pu, pr)
  | r :: t =>
      let w := (s_low r / pm)%Qc in
      fwd_state (s_mid r - w * pu)%Qc (s_up r) (s_rhs r - w * pr)%Qc t
  end.

Lemma fwd1_app pm pu pr r1 r2 :
  fwd1 NumQc pm pu pr (r1 ++ r2) =
  fwd1 NumQc pm pu pr r1 ++
  (let '(pm', pu', pr') := fwd_state pm pu pr r1 in fwd1 NumQc pm' pu' pr' r2).
Proof.
  revert pm pu pr. induction r1 as [|r t IH]; intros pm pu pr.
  - reflexivity.
  - cbn [app fwd1 fwd_state NumQc div sub mul]. rewrite IH. reflexivity.
Qed.

Lemma pivots_ok_app a b : pivots_ok (a ++ b) <-> pivots_ok a /\ pivots_ok b.
Proof. unfold pivots_ok. apply Forall_app. Qed.

(* one dominated row keeps the invariant 0 <= up < mid' and mid' >= mid - low *)
Lemma dom_step pm pu (r : qrow) :
  (0 <= pu)%Qc -> (pu < pm)%Qc -> dom r ->
  let mi := (s_mid r - s_low r / pm * pu)%Qc in
  (s_mid r - s_low r <= mi)%Qc /\ (s_up r < mi)%Qc /\ (0 <= s_up r)%Qc.
Proof.
  intros H0 H1 (D1 & D2 & D3). cbv zeta.
  assert (B : (s_low r / pm * pu <= s_low r)%Qc).
  { unfold Qcle, Qclt in *. cbn [this Qcmult Qcdiv Qcinv Q2Qc]. rewrite !Qred_correct.
    apply Q_frac_le; assumption. }
  unfold Qcle, Qclt in *. cbn [this Qcplus Qcminus Qcopp Q2Qc] in *. rewrite !Qred_correct in *.
  repeat split; try lra.
Qed.

Lemma fwd1_pivots rows : forall pm pu pr,
  (0 <= pu)%Qc -> (pu < pm)%Qc -> Forall dom rows ->
  pivots_ok (fwd1 NumQc pm pu pr rows) /\
  (let '(pm', pu', _) := fwd_state pm pu pr rows in (0 <= pu')%Qc /\ (pu' < pm')%Qc).
Proof.
  induction rows as [|r t IH]; intros pm pu pr H0 H1 Hd.
  - split; [constructor|]. cbn. split; assumption.
  - apply Forall_cons_iff in Hd as [Dr Dt].
    destruct (dom_step pm pu r H0 H1 Dr) as (S1 & S2 & S3).
    cbn [fwd1 fwd_state NumQc div sub mul].
    destruct (IH (s_mid r - s_low r / pm * pu)%Qc (s_up r) (s_rhs r - s_low r / pm * pr)%Qc S3 S2 Dt) as [P St].
    split; [|exact St].
    constructor; [|exact P]. cbn [s_mid]. apply Qc_pos_neq.
    unfold Qcle, Qclt in *. lra.
Qed.

  (* ---- the spline systems ---- *)

  Definition is_nak_s (b : single Qc) : bool :=
    match specialize_single NumQc b with SFirstDeriv _ | SSecondDeriv _ => false | _ => true end.

  Lemma hq_sum i : (nth (i + 2) xs 0 - nth i xs 0 = hq i + hq (i + 1))%Qc.
  Proof. unfold hq. replace (i + 1 + 1) with (i + 2) by lia. ring. Qed.

  Lemma dom_interior i : 1 <= i -> i + 1 < n -> dom (s_interior i).
  Proof.
    intros H1 H2. unfold dom, s_interior. cbn [s_low s_mid s_up]. rewrite c2_Qc.
    pose proof (hq_pos i H2) as P1. pose proof (hq_pos (i - 1) ltac:(lia)) as P2.
    unfold Qcle, Qclt in *. cbn [this Qcplus Qcmult Q2Qc] in *. rewrite !Qred_correct in *.
    change (this 0%Qc) with 0%Q in *. change (this 1%Qc) with 1%Q. repeat split; lra.
  Qed.

  Lemma Forall_dom_interiors a m : 1 <= a -> a + m <= n - 1 ->
    Forall dom (map s_interior (seq a m)).
  Proof.
    intros Ha Hm. apply Forall_forall. intros r Hr. apply in_map_iff in Hr as (i & <- & Hi).
    apply in_seq in Hi. apply dom_interior; lia.
  Qed.

  (* sweeping the remaining interior rows and the right boundary row from an invariant state *)
  Lemma tail_pivots a m pm pu pr r :
    a + m = n - 1 -> 1 <= a -> (0 <= pu)%Qc -> (pu < pm)%Qc ->
    (1 <= m \/ is_nak_s r = false) ->
    pivots_ok (fwd1 NumQc pm pu pr (map s_interior (seq a m) ++ [s_right r])).
  Proof.
    intros Ham Ha H0 H1 Hor.
    destruct (is_nak_s r) eqn:Enak.
    - (* NotAKnot on the right: use the bound on the last interior pivot *)
      destruct Hor as [Hm|C]; [|discriminate].
      replace m with ((m - 1) + 1) by lia. rewrite seq_app, map_app. cbn [seq map].
      rewrite <- app_assoc. cbn [app].
      rewrite fwd1_app. apply pivots_ok_app.
      destruct (fwd1_pivots (map s_interior (seq a (m - 1))) pm pu pr H0 H1
                  (Forall_dom_interiors a (m - 1) Ha ltac:(lia))) as [P St].
      split; [exact P|].
      destruct (fwd_state pm pu pr (map s_interior (seq a (m - 1)))) as [[pm1 pu1] pr1].
      destruct St as [S0 S1].
      replace (a + (m - 1)) with (n - 2) by lia.
      pose proof (dom_interior (n - 2) ltac:(lia) ltac:(lia)) as Dl.
      destruct (dom_step pm1 pu1 _ S0 S1 Dl) as (B1 & B2 & B3).
      cbn [fwd1 NumQc div sub mul]. constructor.
      { cbn [s_mid]. apply Qc_pos_neq. unfold Qcle, Qclt in *. lra. }
      constructor; [|constructor].
      cbn [s_mid s_low s_up]. unfold s_right. unfold is_nak_s in Enak.
      destruct (specialize_single NumQc r) eqn:Es; try discriminate;
        cbn [s_mid s_low s_up].
      all: replace (n - 3 + 1) with (n - 2) in * by lia.
      all: pose proof (hq_sum (n - 3)) as Hs; replace (n - 3 + 2) with (n - 1) in Hs by lia;
           replace (n - 3 + 1) with (n - 2) in Hs by lia; rewrite Hs.
      all: pose proof (hq_pos (n - 2) ltac:(lia)) as P1; pose proof (hq_pos (n - 3) ltac:(lia)) as P2.
      all: set (mi := (s_mid (s_interior (n - 2)) - s_low (s_interior (n - 2)) / pm1 * pu1)%Qc) in *.
      all: unfold s_interior in B1; cbn [s_mid s_low s_up] in B1; rewrite c2_Qc in B1.
      all: replace (n - 2 - 1) with (n - 3) in * by lia.
      all: apply Qc_pos_neq.
      all: assert (Dlt : (hq (n - 3) + hq (n - 2) < mi)%Qc)
             by (unfold Qcle, Qclt in *; cbn [this Qcplus Qcminus Qcmult Qcopp Q2Qc] in *;
                 rewrite !Qred_correct in *; change (this 0%Qc) with 0%Q in *;
                 change (this 1%Qc) with 1%Q in *; lra).
      all: assert (F : ((hq (n - 3) + hq (n - 2)) / mi * hq (n - 3) < hq (n - 3))%Qc)
             by (unfold Qcle, Qclt in *; cbn [this Qcplus Qcminus Qcmult Qcdiv Qcinv Qcopp Q2Qc] in *;
                 rewrite !Qred_correct in *; change (this 0%Qc) with 0%Q in *;
                 setoid_replace ((this (hq (n - 3)) + this (hq (n - 2))) * / this mi * this (hq (n - 3)))%Q
                   with (this (hq (n - 3)) * / this mi * (this (hq (n - 3)) + this (hq (n - 2))))%Q by ring;
                 apply Q_frac_lt; lra).
      all: change (s_up (s_interior (n - 2))) with (hq (n - 2 - 1));
           replace (n - 2 - 1) with (n - 3) by lia.
      all: clear - F P2; unfold Qcle, Qclt in *;
           cbn [this Qcplus Qcminus Qcmult Qcdiv Qcinv Qcopp Q2Qc] in *;
           rewrite !Qred_correct in *; change (this 0%Qc) with 0%Q in *; lra.
    - (* a dominated right row *)
      rewrite fwd1_app. apply pivots_ok_app.
      destruct (fwd1_pivots (map s_interior (seq a m)) pm pu pr H0 H1
                  (Forall_dom_interiors a m Ha ltac:(lia))) as [P St].
      split; [exact P|].
      destruct (fwd_state pm pu pr (map s_interior (seq a m))) as [[pm1 pu1] pr1].
      destruct St as [S0 S1].
      assert (Dr : dom (s_right r)).
      { unfold s_right, dom. unfold is_nak_s in Enak.
        pose proof (hq_pos (n - 2) ltac:(lia)) as P1.
        destruct (specialize_single NumQc r); try discriminate; cbn [s_low s_mid s_up];
          rewrite ?c0_Qc, ?c1_Qc, ?c2_Qc;
          unfold Qcle, Qclt in *; cbn [this Qcplus Qcmult Q2Qc] in *; rewrite ?Qred_correct in *;
          change (this 0%Qc) with 0%Q in *; change (this 1%Qc) with 1%Q in *; repeat split; lra. }
      destruct (dom_step pm1 pu1 _ S0 S1 Dr) as (B1 & B2 & B3).
      cbn [fwd1 NumQc div sub mul]. constructor; [|constructor].
      cbn [s_mid]. apply Qc_pos_neq. unfold Qcle, Qclt in *. lra.
  Qed.


  Definition srows (l r : single Qc) : list qrow :=
    s_left l :: map s_interior (seq 1 (n - 2)) ++ [s_right r].

  Lemma is_nak_s_eq b : is_nak_s b = is_nak b.
  Proof. destruct b; reflexivity. Qed.

  Ltac qcord :=
    unfold Qcle, Qclt in *; cbn [this Qcplus Qcminus Qcmult Qcopp Q2Qc] in *;
    rewrite ?Qred_correct in *; change (this 0%Qc) with 0%Q in *; change (this 1%Qc) with 1%Q in *.

  Theorem pivots_srows l r :
    (n = 3 -> is_nak l = true -> is_nak r = true -> False) ->
    pivots_ok (forward1 NumQc (srows l r)).
  Proof.
    intros Hex. unfold srows. cbn [forward1].
    pose proof (hq_pos 0 ltac:(lia)) as P0. pose proof (hq_pos 1 ltac:(lia)) as P1.
    destruct (is_nak_s l) eqn:El.
    - (* NotAKnot on the left: first interior row by hand *)
      assert (Sl : s_left l = mkS 0%Qc (hq 1) (nth 2 xs 0 - nth 0 xs 0)%Qc (s_rhs (s_left l))).
      { unfold s_left, is_nak_s in *. destruct (specialize_single NumQc l); try discriminate; reflexivity. }
      rewrite Sl. cbn [s_mid s_up s_rhs].
      constructor; [cbn [s_mid]; apply Qc_pos_neq; exact P1|].
      replace (n - 2) with (1 + (n - 3)) by lia. rewrite seq_app. cbn [seq map app Nat.add].
      cbn [fwd1 NumQc div sub mul].
      pose proof (hq_sum 0) as Hs. cbn [Nat.add] in Hs. rewrite Hs.
      set (mi := (s_mid (s_interior 1) - s_low (s_interior 1) / hq 1 * (hq 0 + hq 1))%Qc).
      assert (Emi : mi = (hq 0 + hq 1)%Qc).
      { unfold mi, s_interior. cbn [s_mid s_low]. rewrite c2_Qc. cbn [Nat.sub]. field.
        apply Qc_pos_neq; exact P1. }
      constructor; [cbn [s_mid]; rewrite Emi; apply Qc_pos_neq; qcord; lra|].
      apply tail_pivots; try lia.
      + change (s_up (s_interior 1)) with (hq (1 - 1)). cbn [Nat.sub]. qcord; lra.
      + change (s_up (s_interior 1)) with (hq (1 - 1)). cbn [Nat.sub]. rewrite Emi. qcord; lra.
      + destruct (Nat.eq_dec n 3) as [E3|N3]; [|left; lia].
        right. rewrite is_nak_s_eq in *. destruct (is_nak r) eqn:Er; [|reflexivity].
        exfalso. apply Hex; auto.
    - (* FirstDeriv / SecondDeriv on the left *)
      assert (St : (0 <= s_up (s_left l))%Qc /\ (s_up (s_left l) < s_mid (s_left l))%Qc).
      { unfold s_left, is_nak_s in *. destruct (specialize_single NumQc l); try discriminate;
          cbn [s_up s_mid]; rewrite ?c0_Qc, ?c1_Qc, ?c2_Qc; qcord; split; lra. }
      destruct St as [S0 S1].
      constructor; [apply Qc_pos_neq; qcord; lra|].
      apply tail_pivots; try lia; auto.
  Qed.

  (* the 3-point parabola system *)
  Definition srows_parabola : list qrow :=
    let s0 := ((yq 1 - yq 0) / hq 0)%Qc in
    let s1 := ((yq 2 - yq 1) / hq 1)%Qc in
    [ mkS 0%Qc (c1 NumQc) (c1 NumQc) (s0 * c2 NumQc)%Qc;
      mkS (hq 1) (c2 NumQc * (hq 0 + hq 1))%Qc (hq 0) ((s1 * hq 0 + s0 * hq 1) * c3 NumQc)%Qc;
      mkS (c1 NumQc) (c1 NumQc) 0%Qc (s1 * c2 NumQc)%Qc ].

  Lemma pivots_parabola : n = 3 -> pivots_ok (forward1 NumQc srows_parabola).
  Proof.
    intros E3. pose proof (hq_pos 0 ltac:(lia)) as P0. pose proof (hq_pos 1 ltac:(lia)) as P1.
    unfold srows_parabola. cbn [forward1 fwd1 NumQc div sub mul s_low s_mid s_up s_rhs].
    rewrite !c1_Qc, !c2_Qc.
    set (m1 := ((1 + 1) * (hq 0 + hq 1) - hq 1 / 1 * 1)%Qc).
    assert (E1 : m1 = ((1 + 1) * hq 0 + hq 1)%Qc).
    { unfold m1. field. intros C. apply (f_equal this) in C. discriminate C. }
    constructor; [cbn [s_mid]; apply Qc_pos_neq; qcord; lra|].
    constructor; [cbn [s_mid]; rewrite E1; apply Qc_pos_neq; qcord; lra|].
    constructor; [|constructor]. cbn [s_mid]. apply Qc_pos_neq.
    assert (F : (1 / m1 * hq 0 < 1)%Qc).
    { rewrite E1. unfold Qcle, Qclt in *. cbn [this Qcplus Qcminus Qcmult Qcdiv Qcinv Qcopp Q2Qc] in *.
      rewrite !Qred_correct in *. change (this 0%Qc) with 0%Q in *. change (this 1%Qc) with 1%Q in *.
      apply Q_frac_lt; lra. }
    qcord. lra.
  Qed.


  Lemma nthq_map (f : Qc -> Qc) l : j < length l -> nth j (map f l) 0%Qc = f (nth j l 0%Qc).
  Proof.
    intros H. rewrite (nth_indep _ 0%Qc (f 0%Qc)) by (rewrite map_length; exact H). apply map_nth.
  Qed.
  Lemma nthq_map2 (f : Qc -> Qc -> Qc) l1 l2 : j < length l1 -> j < length l2 ->
    nth j (map2 f l1 l2) 0%Qc = f (nth j l1 0%Qc) (nth j l2 0%Qc).
  Proof. intros. apply nth_map2; assumption. Qed.

  (* ---- lane j of the assembled systems ---- *)

  Lemma lane_srows l r :
    lane_rows 0%Qc j (left_row NumQc xs data l :: interior_rows NumQc xs data n ++ [right_row NumQc xs data n r])
      = srows l r /\
    rows_width L (left_row NumQc xs data l :: interior_rows NumQc xs data n ++ [right_row NumQc xs data n r]).
  Proof.
    unfold srows, lane_rows, interior_rows, rows_width. split.
    - cbn [map]. rewrite map_app, map_map. cbn [map].
      rewrite (proj1 (lane_left l)), (proj1 (lane_right r)). f_equal. f_equal.
      apply map_ext_in. intros i Hi. apply in_seq in Hi. apply lane_interior; lia.
    - constructor; [apply lane_left|]. apply Forall_app. split.
      + apply Forall_forall. intros x Hx. apply in_map_iff in Hx as (i & <- & Hi).
        apply in_seq in Hi. apply lane_interior; lia.
      + constructor; [apply lane_right|constructor].
  Qed.

  Lemma lane_parabola :
    lane_rows 0%Qc j (parabola_rows NumQc xs data) = srows_parabola /\
    rows_width L (parabola_rows NumQc xs data).
  Proof.
    unfold parabola_rows, srows_parabola, lane_rows, lane_row, rows_width.
    cbn [map r_low r_mid r_up r_rhs].
    change (h NumQc xs 0) with (hq 0). change (h NumQc xs 1) with (hq 1).
    assert (W0 : length (map2 (fun y1 y0 : Qc => div NumQc (sub NumQc y1 y0) (hq 0)) (yi data 1) (yi data 0)) = L)
      by (apply map2_length_eq; apply yi_width; lia).
    assert (W1 : length (map2 (fun y2 y1 : Qc => div NumQc (sub NumQc y2 y1) (hq 1)) (yi data 2) (yi data 1)) = L)
      by (apply map2_length_eq; apply yi_width; lia).
    assert (Y : forall i, i < n -> j < length (yi data i)) by (intros; rewrite yi_width; lia).
    split.
    - f_equal; [|f_equal; [|f_equal]]; f_equal.
      + rewrite nthq_map by lia. rewrite nthq_map2 by (apply Y; lia). reflexivity.
      + rewrite nthq_map2 by lia. rewrite !nthq_map2 by (apply Y; lia). reflexivity.
      + rewrite nthq_map by lia. rewrite nthq_map2 by (apply Y; lia). reflexivity.
    - repeat constructor; cbn [r_rhs]; try (rewrite map_length; assumption).
      apply map2_length_eq; assumption.
  Qed.

  (* index form of [sat] *)
  Lemma sat_nth rows : forall kprev k, sat kprev rows k ->
    length k = length rows /\
    forall i r, nth_error rows i = Some r ->
      (s_low r * (match i with 0 => kprev | S i' => nth i' k 0 end)
       + s_mid r * nth i k 0 + s_up r * nth (S i) k 0 = s_rhs r)%Qc.
  Proof.
    induction rows as [|r t IH]; intros kprev k H.
    - destruct k; [|contradiction]. split; [reflexivity|]. intros [|i] r0 E; discriminate E.
    - destruct k as [|ki kt]; [contradiction|]. destruct H as [H1 H2].
      destruct (IH ki kt H2) as [Len Hi]. split; [cbn; lia|].
      intros [|i] r0 E.
      + injection E as <-. cbn [nth]. destruct kt; exact H1.
      + specialize (Hi i r0 E). cbn [nth]. destruct i; exact Hi.
  Qed.

  Definition kk (k : list Qc) (i : nat) : Qc := nth i k 0%Qc.
  Definition aq (k : list Qc) (i : nat) : Qc := ca (kk k i) (hq i) (yq (i + 1) - yq i)%Qc.
  Definition bq (k : list Qc) (i : nat) : Qc := cb (kk k (i + 1)) (hq i) (yq (i + 1) - yq i)%Qc.

  (* the slopes are THE solution of the system (existence and uniqueness) *)
  Theorem solve_mixed_lane l r K :
    solve_for_k NumQc xs data (IMixed l r) = Ok K ->
    let rows := if (n =? 3) && is_nak l && is_nak r then srows_parabola else srows l r in
    lane_vec 0%Qc j K = thomas1 NumQc rows /\
    forall k, sat 0%Qc rows k <-> k = lane_vec 0%Qc j K.
  Proof.
    unfold solve_for_k.
    destruct (n <? 3) eqn:E3; [apply Nat.ltb_lt in E3; lia|].
    rewrite Hlen, Nat.eqb_refl. cbn [negb]. intros HK. injection HK as <-.
    unfold mixed_rows. cbv zeta.
    destruct ((n =? 3) && is_nak l && is_nak r) eqn:Epar.
    - apply andb_prop in Epar as [Epar Er]. apply andb_prop in Epar as [En El].
      apply Nat.eqb_eq in En.
      destruct lane_parabola as [Elane W].
      rewrite (thomas_lane NumQc 0%Qc j L _ Hj W), Elane. split; [reflexivity|].
      intros k. rewrite <- (thomas1_correct srows_parabola k); [reflexivity|discriminate|].
      apply pivots_parabola. exact En.
    - destruct (lane_srows l r) as [Elane W].
      rewrite (thomas_lane NumQc 0%Qc j L _ Hj W), Elane. split; [reflexivity|].
      intros k. rewrite <- (thomas1_correct (srows l r) k).
      + unfold srows, s_left. destruct (specialize_single NumQc l); reflexivity.
      + discriminate.
      + apply pivots_srows. intros A B C. rewrite A, B, C in Epar. discriminate Epar.
  Qed.

  (* ---- consequences for the pieces ---- *)

  Lemma srows_nth_interior l r i : 1 <= i -> i + 2 <= n ->
    nth_error (srows l r) i = Some (s_interior i).
  Proof.
    intros H1 H2. unfold srows. destruct i as [|i]; [lia|]. cbn [nth_error].
    rewrite nth_error_app1 by (rewrite map_length, seq_length; lia).
    rewrite nth_error_map. rewrite (nth_error_nth' _ 0) by (rewrite seq_length; lia).
    rewrite seq_nth by lia. reflexivity.
  Qed.

  Lemma srows_nth_last l r : nth_error (srows l r) (n - 1) = Some (s_right r).
  Proof.
    unfold srows. destruct (n - 1) as [|m] eqn:E; [lia|]. cbn [nth_error].
    rewrite nth_error_app2 by (rewrite map_length, seq_length; lia).
    rewrite map_length, seq_length. replace (m - (n - 2)) with 0 by lia. reflexivity.
  Qed.

  (* C02: the second derivative is continuous at every interior knot *)
  Theorem sat_C2 l r k i :
    sat 0%Qc (if (n =? 3) && is_nak l && is_nak r then srows_parabola else srows l r) k ->
    1 <= i -> i + 2 <= n ->
    piece_d2 (aq k (i - 1)) (bq k (i - 1)) (hq (i - 1)) (hq (i - 1)) = piece_d2 (aq k i) (bq k i) (hq i) 0%Qc.
  Proof.
    intros Hs H1 H2. unfold aq, bq, kk.
    replace (i - 1 + 1) with i by lia.
    apply (c2_iff_row (yq (i - 1)) (yq i) (yq (i + 1)) (nth (i - 1) k 0%Qc) (nth i k 0%Qc) (nth (i + 1) k 0%Qc));
      try (apply hq_neq; lia).
    destruct ((n =? 3) && is_nak l && is_nak r) eqn:Epar.
    - apply andb_prop in Epar as [Epar _]. apply andb_prop in Epar as [En _]. apply Nat.eqb_eq in En.
      assert (i = 1) by lia. subst i.
      destruct (sat_nth _ _ _ Hs) as [_ Hi]. specialize (Hi 1 _ eq_refl).
      cbn [s_low s_mid s_up s_rhs Nat.sub Nat.add] in *.
      replace (S 1) with 2 in Hi by reflexivity.
      rewrite <- (Qcplus_comm (hq 0) (hq 1)). rewrite Hi.
      unfold rhs_interior. rewrite c3_Qc. cbn [NumQc add sub mul div]. field.
      split; apply hq_neq; lia.
    - destruct (sat_nth _ _ _ Hs) as [_ Hi].
      specialize (Hi i _ (srows_nth_interior l r i H1 H2)).
      unfold s_interior in Hi. cbn [s_low s_mid s_up s_rhs] in Hi.
      destruct i as [|i']; [lia|]. cbn [Nat.sub] in *. rewrite Nat.sub_0_r in *.
      replace (S i' + 1) with (S (S i')) in * by lia. exact Hi.
  Qed.


  (* C03: the boundary rows are the selected end conditions *)

  Definition not_parabola (l r : single Qc) : Prop := (n =? 3) && is_nak l && is_nak r = false.

  Theorem sat_bc_left_first l r k v : not_parabola l r -> sat 0%Qc (srows l r) k ->
    specialize_single NumQc l = SFirstDeriv v ->
    piece_d1 (kk k 0) (aq k 0) (bq k 0) (hq 0) 0%Qc = v.
  Proof.
    intros _ Hs El. rewrite piece_d1_at_0. destruct (sat_nth _ _ _ Hs) as [_ Hi].
    specialize (Hi 0 _ eq_refl). unfold s_left in Hi. rewrite El in Hi.
    cbn [s_low s_mid s_up s_rhs] in Hi. rewrite c0_Qc, c1_Qc in Hi. unfold kk. rewrite <- Hi. ring.
  Qed.

  Theorem sat_bc_left_second l r k v : not_parabola l r -> sat 0%Qc (srows l r) k ->
    specialize_single NumQc l = SSecondDeriv v ->
    piece_d2 (aq k 0) (bq k 0) (hq 0) 0%Qc = v.
  Proof.
    intros _ Hs El. destruct (sat_nth _ _ _ Hs) as [_ Hi].
    specialize (Hi 0 _ eq_refl). unfold s_left in Hi. rewrite El in Hi.
    cbn [s_low s_mid s_up s_rhs] in Hi.
    apply (bc_left_second_iff (yq 0) (yq 1) (kk k 0) (kk k 1) (hq 0) v); [apply hq_neq; lia|].
    unfold kk. rewrite <- Hi. ring.
  Qed.

  Theorem sat_bc_left_nak l r k : not_parabola l r -> sat 0%Qc (srows l r) k ->
    is_nak l = true ->
    m3 (aq k 0) (bq k 0) (hq 0) = m3 (aq k 1) (bq k 1) (hq 1).
  Proof.
    intros _ Hs El. destruct (sat_nth _ _ _ Hs) as [_ Hi].
    pose proof (Hi 0 _ eq_refl) as R0.
    pose proof (Hi 1 _ (srows_nth_interior l r 1 ltac:(lia) ltac:(lia))) as R1.
    destruct l; try discriminate El. unfold s_left in R0. cbn [specialize_single] in R0.
    cbv zeta in R0. cbn [s_low s_mid s_up s_rhs] in R0.
    unfold s_interior in R1. cbn [s_low s_mid s_up s_rhs Nat.sub Nat.add] in R1.
    pose proof (hq_sum 0) as Hsum. cbn [Nat.add] in Hsum. rewrite Hsum in R0.
    unfold aq, bq, kk. cbn [Nat.add].
    pose proof (hq_pos 0 ltac:(lia)) as P0. pose proof (hq_pos 1 ltac:(lia)) as P1.
    apply (bc_left_nak (yq 0) (yq 1) (yq 2) (nth 0 k 0%Qc) (nth 1 k 0%Qc) (nth 2 k 0%Qc) (hq 0) (hq 1));
      try (apply Qc_pos_neq; assumption).
    - apply Qc_pos_neq. qcord. lra.
    - cbv zeta. rewrite <- R0. ring.
    - rewrite <- R1. ring.
  Qed.

  Theorem sat_bc_right_first l r k v : not_parabola l r -> sat 0%Qc (srows l r) k ->
    specialize_single NumQc r = SFirstDeriv v ->
    piece_d1 (kk k (n - 2)) (aq k (n - 2)) (bq k (n - 2)) (hq (n - 2)) (hq (n - 2)) = v.
  Proof.
    intros _ Hs Er. unfold aq, bq. rewrite piece_d1_at_h by (apply hq_neq; lia).
    destruct (sat_nth _ _ _ Hs) as [_ Hi].
    specialize (Hi (n - 1) _ (srows_nth_last l r)). unfold s_right in Hi. rewrite Er in Hi.
    cbn [s_low s_mid s_up s_rhs] in Hi. rewrite c0_Qc, c1_Qc in Hi. unfold kk.
    replace (n - 2 + 1) with (n - 1) by lia. rewrite <- Hi. ring.
  Qed.

  Theorem sat_bc_right_second l r k v : not_parabola l r -> sat 0%Qc (srows l r) k ->
    specialize_single NumQc r = SSecondDeriv v ->
    piece_d2 (aq k (n - 2)) (bq k (n - 2)) (hq (n - 2)) (hq (n - 2)) = v.
  Proof.
    intros _ Hs Er. destruct (sat_nth _ _ _ Hs) as [_ Hi].
    specialize (Hi (n - 1) _ (srows_nth_last l r)). unfold s_right in Hi. rewrite Er in Hi.
    cbn [s_low s_mid s_up s_rhs] in Hi.
    destruct (n - 1) as [|m] eqn:Em; [lia|].
    assert (Hm : n - 2 = m) by lia. rewrite Hm in *.
    unfold aq, bq, kk. replace (m + 1) with (S m) by lia.
    apply (bc_right_second_iff (yq m) (yq (S m)) (nth m k 0%Qc) (nth (S m) k 0%Qc) (hq m) v);
      [apply hq_neq; lia|].
    rewrite <- Hi. ring.
  Qed.

  Theorem sat_bc_right_nak l r k : not_parabola l r -> sat 0%Qc (srows l r) k ->
    is_nak r = true ->
    m3 (aq k (n - 3)) (bq k (n - 3)) (hq (n - 3)) = m3 (aq k (n - 2)) (bq k (n - 2)) (hq (n - 2)).
  Proof.
    intros _ Hs Er. destruct (sat_nth _ _ _ Hs) as [_ Hi].
    pose proof (Hi (n - 1) _ (srows_nth_last l r)) as R0.
    pose proof (Hi (n - 2) _ (srows_nth_interior l r (n - 2) ltac:(lia) ltac:(lia))) as R1.
    destruct r; try discriminate Er. unfold s_right in R0. cbn [specialize_single] in R0.
    cbv zeta in R0. cbn [s_low s_mid s_up s_rhs] in R0.
    unfold s_interior in R1. cbn [s_low s_mid s_up s_rhs] in R1.
    pose proof (hq_sum (n - 3)) as Hsum.
    replace (n - 3 + 2) with (n - 1) in Hsum by lia. replace (n - 3 + 1) with (n - 2) in Hsum by lia.
    rewrite Hsum in R0.
    destruct (n - 1) as [|m1] eqn:Em1; [lia|].
    destruct (n - 2) as [|m2] eqn:Em2; [lia|].
    assert (A1 : m1 = S m2) by lia. assert (A2 : m2 = n - 3) by lia. subst m1.
    rewrite <- A2 in *.
    unfold aq, bq, kk. replace (m2 + 1) with (S m2) by lia. replace (S m2 + 1) with (S (S m2)) in * by lia.
    replace (S m2 - 1) with m2 in R1 by lia.
    pose proof (hq_pos m2 ltac:(lia)) as P0. pose proof (hq_pos (S m2) ltac:(lia)) as P1.
    apply (bc_right_nak (yq m2) (yq (S m2)) (yq (S (S m2))) (nth m2 k 0%Qc) (nth (S m2) k 0%Qc)
             (nth (S (S m2)) k 0%Qc) (hq m2) (hq (S m2)));
      try (apply Qc_pos_neq; assumption).
    - apply Qc_pos_neq. qcord. lra.
    - cbv zeta. rewrite <- R0. ring.
    - rewrite <- R1. ring.
  Qed.

  Theorem sat_bc_parabola k : n = 3 -> sat 0%Qc srows_parabola k ->
    m3 (aq k 0) (bq k 0) (hq 0) = 0%Qc /\ m3 (aq k 1) (bq k 1) (hq 1) = 0%Qc.
  Proof.
    intros E3 Hs. destruct (sat_nth _ _ _ Hs) as [_ Hi].
    pose proof (Hi 0 _ eq_refl) as R0. pose proof (Hi 1 _ eq_refl) as R1. pose proof (Hi 2 _ eq_refl) as R2.
    cbn [s_low s_mid s_up s_rhs] in R0, R1, R2.
    pose proof (hq_pos 0 ltac:(lia)) as P0. pose proof (hq_pos 1 ltac:(lia)) as P1.
    unfold aq, bq, kk. cbn [Nat.add].
    apply (nak3_parabola (yq 0) (yq 1) (yq 2) (nth 0 k 0%Qc) (nth 1 k 0%Qc) (nth 2 k 0%Qc) (hq 0) (hq 1));
      try (apply Qc_pos_neq; assumption).
    - apply Qc_pos_neq. qcord. lra.
    - cbv zeta. rewrite <- R0. ring.
    - cbv zeta. rewrite <- R1. ring.
    - cbv zeta. rewrite <- R2. ring.
  Qed.


  (* ---- from the slopes to what spline_interp returns ---- *)

  Lemma nth_map4 {A B C D E} (f : A -> B -> C -> D -> E) l1 l2 l3 l4 da db dc dd de :
    j < length l1 -> j < length l2 -> j < length l3 -> j < length l4 ->
    nth j (map4 f l1 l2 l3 l4) de = f (nth j l1 da) (nth j l2 db) (nth j l3 dc) (nth j l4 dd).
  Proof.
    generalize j. clear. intros j. revert l2 l3 l4 j.
    induction l1 as [|a t IH]; intros [|b t2] [|c t3] [|e t4] [|j] H1 H2 H3 H4; cbn in *; try lia; auto.
    apply IH; lia.
  Qed.
  Lemma map4_length {A B C D E} (f : A -> B -> C -> D -> E) l1 l2 l3 l4 W :
    length l1 = W -> length l2 = W -> length l3 = W -> length l4 = W ->
    length (map4 f l1 l2 l3 l4) = W.
  Proof.
    revert l2 l3 l4 W. induction l1 as [|a t IH]; intros [|b t2] [|c t3] [|e t4] W H1 H2 H3 H4;
      cbn in *; try lia. destruct W; [lia|]. f_equal. apply IH; lia.
  Qed.

  (* K : slopes for all lanes, n rows of width L;  kq : lane j *)
  Variable K : list (list Qc).
  Hypothesis HKlen : length K = n.
  Hypothesis HKwidth : Forall (fun v => length v = L) K.
  Notation kq := (lane_vec 0%Qc j K).

  Lemma K_row_width i : i < n -> length (nth i K []) = L.
  Proof.
    intros Hi. rewrite Forall_forall in HKwidth. apply HKwidth. apply nth_In. lia.
  Qed.
  Lemma kq_nth i : i < n -> kk kq i = nth j (nth i K []) 0%Qc.
  Proof.
    intros Hi. unfold kk, lane_vec.
    rewrite (nth_indep _ 0%Qc ((fun v => nth j v 0%Qc) [])) by (rewrite map_length; lia).
    rewrite (map_nth (fun v => nth j v 0%Qc)). reflexivity.
  Qed.

  Lemma coeff_a_lane i : i + 1 < n ->
    nth j (coeff_a NumQc xs data i K) 0%Qc = aq kq i /\ length (coeff_a NumQc xs data i K) = L.
  Proof.
    intros Hi. unfold coeff_a, aq, ca. split.
    - rewrite (nth_map3 _ _ _ _ j 0%Qc 0%Qc 0%Qc) by (rewrite ?K_row_width, ?yi_width; lia).
      rewrite kq_nth by lia. reflexivity.
    - apply map3_length; rewrite ?K_row_width, ?yi_width; lia.
  Qed.
  Lemma coeff_b_lane i : i + 1 < n ->
    nth j (coeff_b NumQc xs data i K) 0%Qc = bq kq i /\ length (coeff_b NumQc xs data i K) = L.
  Proof.
    intros Hi. unfold coeff_b, bq, cb. split.
    - rewrite (nth_map3 _ _ _ _ j 0%Qc 0%Qc 0%Qc) by (rewrite ?K_row_width, ?yi_width; lia).
      rewrite kq_nth by lia. reflexivity.
    - apply map3_length; rewrite ?K_row_width, ?yi_width; lia.
  Qed.

  Definition sp_of (e : sext) : spline_strat :=
    mkSpline (map (fun i => coeff_a NumQc xs data i K) (seq 0 (n - 1)))
             (map (fun i => coeff_b NumQc xs data i K) (seq 0 (n - 1))) e.

  Lemma sp_a_nth e i : i + 1 < n -> nth i (sp_a (sp_of e)) [] = coeff_a NumQc xs data i K.
  Proof.
    intros Hi. cbn [sp_of sp_a].
    rewrite (nth_indep _ [] ((fun i => coeff_a NumQc xs data i K) 0)) by (rewrite map_length, seq_length; lia).
    rewrite (map_nth (fun i => coeff_a NumQc xs data i K)). rewrite seq_nth by lia. reflexivity.
  Qed.
  Lemma sp_b_nth e i : i + 1 < n -> nth i (sp_b (sp_of e)) [] = coeff_b NumQc xs data i K.
  Proof.
    intros Hi. cbn [sp_of sp_b].
    rewrite (nth_indep _ [] ((fun i => coeff_b NumQc xs data i K) 0)) by (rewrite map_length, seq_length; lia).
    rewrite (map_nth (fun i => coeff_b NumQc xs data i K)). rewrite seq_nth by lia. reflexivity.
  Qed.

  Hypothesis H64 : (Z.of_nat n <= two64)%Z.

  (* evaluation once the bracket is known *)
  Lemma spline_eval_at e x i :
    lower_index NumQc xs x = Ok i -> i + 1 < n ->
    (sp_ext (sp_of e) = ExtNo -> in_closed_range NumQc 0%Qc xs x = true) ->
    sp_ext (sp_of e) <> ExtPeriodic ->
    exists v, spline_interp NumQc (sp_of e) xs data x = Ok v /\ length v = L /\
      nth j v 0%Qc = piece (yq i) (kk kq i) (aq kq i) (bq kq i) (hq i) (x - nth i xs 0)%Qc.
  Proof.
    intros Hi Hlt Hr Hp. unfold spline_interp.
    rewrite (is_in_range_spec NumQc 0%Qc) by lia. cbn [bind].
    assert (Hx' : (match sp_ext (sp_of e), in_closed_range NumQc 0%Qc xs x with
                   | ExtPeriodic, false =>
                       x0 <- idx xs 0 ;; n1 <- usub (length xs) 1 ;; xn <- idx xs n1 ;;
                       Ok (add NumQc (rem_euclid NumQc (sub NumQc x x0) (sub NumQc xn x0)) x0)
                   | _, _ => Ok x end) = Ok x).
    { destruct (sp_ext (sp_of e)); try reflexivity. congruence. }
    destruct (sp_ext (sp_of e)) eqn:Ee; destruct (in_closed_range NumQc 0%Qc xs x) eqn:Er;
      try (specialize (Hr eq_refl); discriminate); try congruence.
    all: cbn [bind]; rewrite Hi; cbn [bind].
    all: rewrite (idx_nth data i []) by lia; rewrite (idx_nth xs i 0%Qc) by lia;
         rewrite (idx_nth data (i + 1) []) by lia; rewrite (idx_nth xs (i + 1) 0%Qc) by lia; cbn [bind].
    all: rewrite (idx_nth (sp_a (sp_of e)) i []) by (cbn [sp_of sp_a]; rewrite map_length, seq_length; lia);
         rewrite (idx_nth (sp_b (sp_of e)) i []) by (cbn [sp_of sp_b]; rewrite map_length, seq_length; lia);
         cbn [bind].
    all: rewrite sp_a_nth, sp_b_nth by lia.
    all: eexists; split; [reflexivity|].
    all: destruct (coeff_a_lane i Hlt) as [Ea La]; destruct (coeff_b_lane i Hlt) as [Eb Lb].
    all: split; [apply map4_length; auto; apply Hwidth; lia|].
    all: rewrite (nth_map4 _ _ _ _ _ 0%Qc 0%Qc 0%Qc 0%Qc 0%Qc) by (rewrite ?La, ?Lb, ?Hwidth; lia).
    all: rewrite Ea, Eb.
    all: change (nth j (nth i data []) 0%Qc) with (yq i);
         change (nth j (nth (i + 1) data []) 0%Qc) with (yq (i + 1)).
    all: change (sub NumQc (nth (i + 1) xs 0%Qc) (nth i xs 0%Qc)) with (hq i).
    all: unfold aq, bq; apply (eval_is_piece (yq i) (yq (i + 1)) (kk kq i) (kk kq (i + 1)) (hq i));
         apply hq_neq; lia.
  Qed.

End Lane.

(* ------------------------------------------------------------------ *)
(* Top level: what spline_build / spline_interp return, lane by lane    *)

Section Main.
  Variable xs : list Qc.
  Variable data : list (list Qc).
  Variable L : nat.
  Hypothesis Hwidth : forall i, i < length data -> length (nth i data []) = L.
  Hypothesis HS : StrictIncQc xs.
  Hypothesis Hlen : length xs = length data.
  Hypothesis Hn : 3 <= length data.
  Hypothesis H64 : (Z.of_nat (length data) <= two64)%Z.
  Hypothesis HL : 0 < L.
  Notation n := (length data).

  Definition sys_rows (j : nat) (l r : single Qc) : list qrow :=
    if (n =? 3) && is_nak l && is_nak r then srows_parabola xs data j else srows xs data j l r.

  (* shape of the slopes *)
  Lemma solve_mixed_shape l r K :
    solve_for_k NumQc xs data (IMixed l r) = Ok K ->
    length K = n /\ Forall (fun v => length v = L) K.
  Proof.
    unfold solve_for_k.
    destruct (n <? 3) eqn:E3; [apply Nat.ltb_lt in E3; lia|].
    rewrite Hlen, Nat.eqb_refl. cbn [negb]. intros HK. injection HK as <-.
    unfold mixed_rows.
    destruct ((n =? 3) && is_nak l && is_nak r) eqn:Epar.
    - apply andb_prop in Epar as [Epar _]. apply andb_prop in Epar as [En _]. apply Nat.eqb_eq in En.
      destruct (lane_parabola xs data L 0 HL Hwidth Hlen Hn) as [_ W].
      destruct (thomas_shape NumQc 0%Qc L _ HL W) as [A B]. split; [|exact A].
      rewrite B. cbn. lia.
    - destruct (lane_srows xs data L 0 HL Hwidth Hlen Hn l r) as [_ W].
      destruct (thomas_shape NumQc 0%Qc L _ HL W) as [A B]. split; [|exact A].
      rewrite B. cbn [length]. rewrite app_length. unfold interior_rows.
      rewrite map_length, seq_length. cbn. lia.
  Qed.

  Definition whole_lr (b : bc Qc) : option (single Qc * single Qc) :=
    match b with
    | BNotAKnot => Some (SNotAKnot, SNotAKnot)
    | BNatural => Some (SNatural, SNatural)
    | BClamped => Some (SClamped, SClamped)
    | _ => None
    end.

  Lemma spline_build_whole b l r ext trail sp :
    whole_lr b = Some (l, r) -> spline_build NumQc b ext xs data trail = Ok sp ->
    exists K, solve_for_k NumQc xs data (IMixed l r) = Ok K /\
              sp = sp_of xs data K (if negb ext then ExtNo else ExtYes).
  Proof.
    intros Hb. unfold spline_build.
    destruct b; cbn in Hb; try discriminate; injection Hb as <- <-;
      (destruct (solve_for_k NumQc xs data _) as [K| |k| |] eqn:EK; cbn [bind]; try discriminate;
       intros E; injection E as <-; exists K; split; [reflexivity|];
       unfold sp_of; destruct ext; reflexivity).
  Qed.

  (* Main theorem (whole-data-set NotAKnot / Natural / Clamped): for every lane j the slopes
     are the unique solution of the system and every answered query is the cubic piece of
     ONE bracketing interval evaluated at the query. *)
  Theorem spline_whole_correct b l r ext trail sp j :
    whole_lr b = Some (l, r) -> j < L ->
    spline_build NumQc b ext xs data trail = Ok sp ->
    exists kq : list Qc,
      (forall k, sat 0%Qc (sys_rows j l r) k <-> k = kq) /\
      forall x, (ext = false -> in_closed_range NumQc 0%Qc xs x = true) ->
        exists i v, lower_index NumQc xs x = Ok i /\ i + 1 < n /\
          spline_interp NumQc sp xs data x = Ok v /\ length v = L /\
          nth j v 0%Qc =
            piece (yq data j i) (kk kq i) (aq xs data j kq i) (bq xs data j kq i) (hq xs i)
                  (x - nth i xs 0)%Qc.
  Proof.
    intros Hb Hj Hsp.
    destruct (spline_build_whole b l r ext trail sp Hb Hsp) as (K & HK & ->).
    destruct (solve_mixed_shape l r K HK) as [KL KW].
    destruct (solve_mixed_lane xs data L j Hj Hwidth HS Hlen Hn l r K HK) as [_ Hiff].
    exists (lane_vec 0%Qc j K). split; [exact Hiff|].
    intros x Hx.
    destruct (lower_index_Qc xs x HS ltac:(lia) ltac:(rewrite Hlen; exact H64)) as (i & Hi & Hb2 & _).
    destruct (spline_eval_at xs data L j Hj Hwidth HS Hlen Hn K KL KW
                (if negb ext then ExtNo else ExtYes) x i Hi ltac:(lia)) as (v & Ev & Lv & Nv).
    - cbn [sp_of sp_ext]. destruct ext; cbn [negb]; [discriminate|]. intros _. apply Hx. reflexivity.
    - cbn [sp_of sp_ext]. destruct ext; discriminate.
    - exists i, v. repeat split; auto. lia.
  Qed.

End Main.
