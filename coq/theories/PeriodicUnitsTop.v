(* PeriodicUnitsTop.v -- C15 for the Periodic boundary at the level of the interpolator build() returns:
   inside the range, data times c gives answers times c, and an axis in other units (x -> c*x + s,
   c > 0, queries converted) gives the same answers -- every lane, n >= 4.                   *)

From Coq Require Import List Bool Arith ZArith QArith Qcanon Lia Lqa.
From NI Require Import Num Base Lookup Linear Interp Spline Tri TriProofs SplineAlgebra LookupProofs LinearProofs LinearExact
  SplineProofs SplineStruct Units UnitsList PeriodicSolve PeriodicLane PeriodicUnits.
Import ListNotations.
Local Open Scope Qc_scope.

Section PeriodicEval.
  Variable xs : list Qc.
  Variable data : list (list Qc).
  Variable L : nat.
  Hypothesis Hwidth : forall i, (i < length data)%nat -> length (nth i data []) = L.
  Hypothesis HS : StrictIncQc xs.
  Hypothesis Hlen : length xs = length data.
  Hypothesis Hn : (4 <= length data)%nat.
  Hypothesis H64 : (Z.of_nat (length data) <= two64)%Z.
  Hypothesis HL : (0 < L)%nat.
  Notation n := (length data).

  Lemma kk_lane j K i : kk (lane_vec 0 j K) i = nth j (nth i K []) 0.
  Proof. unfold kk. symmetry. apply nth_lane_vec. Qed.

  (* the pieces of the Periodic interpolator, as spline_periodic_correct describes them, with the slopes
     made explicit *)
  Lemma periodic_eval ext trail sp j x :
    (j < L)%nat -> spline_build NumQc BPeriodic ext xs data trail = Ok sp ->
    in_closed_range NumQc 0 xs x = true ->
    exists i v, lower_index NumQc xs x = Ok i /\ (i + 1 < n)%nat /\
      spline_interp NumQc sp xs data x = Ok v /\ length v = L /\
      nth j v 0 =
        piece (yq data j i) (nth j (nth i (periodic_k NumQc xs data n) []) 0)
              (ca (nth j (nth i (periodic_k NumQc xs data n) []) 0) (hq xs i) (yq data j (i + 1) - yq data j i))
              (cb (nth j (nth (i + 1) (periodic_k NumQc xs data n) []) 0) (hq xs i) (yq data j (i + 1) - yq data j i))
              (hq xs i) (x - nth i xs 0).
  Proof.
    intros Hj Hsp Hx.
    destruct (spline_build_periodic xs data ext trail sp Hsp) as (K & HK & ->).
    destruct (solve_periodic xs data L j Hj Hwidth Hlen Hn K HK) as [-> _].
    destruct (periodic_k_shape xs data L j Hj Hwidth Hlen Hn) as [KL KW].
    destruct (lower_index_Qc xs x HS ltac:(lia) ltac:(rewrite Hlen; exact H64)) as (i & Hi & Hb2 & _).
    destruct (spline_eval_at xs data L j Hj Hwidth HS Hlen ltac:(lia) _ KL KW ExtYes x i Hi ltac:(lia))
      as (v & Ev & Lv & Nv); [intros _; exact Hx|discriminate|].
    exists i, v. repeat split; auto; try lia.
    - rewrite <- Ev. apply (spline_ext_same_in_range NumQc 0); [lia|exact Hx].
    - rewrite Nv. unfold aq, bq. rewrite !kk_lane. reflexivity.
  Qed.

End PeriodicEval.

Section PeriodicUnitsTop.
  Variable xs : list Qc.
  Variable data : list (list Qc).
  Variable L : nat.
  Hypothesis Hwidth : forall i, (i < length data)%nat -> length (nth i data []) = L.
  Hypothesis HS : StrictIncQc xs.
  Hypothesis Hlen : length xs = length data.
  Hypothesis Hn : (4 <= length data)%nat.
  Hypothesis H64 : (Z.of_nat (length data) <= two64)%Z.
  Hypothesis HL : (0 < L)%nat.
  Notation n := (length data).

  Theorem spline_periodic_scale_data c ext trail sp sp' x v :
    spline_build NumQc BPeriodic ext xs data trail = Ok sp ->
    spline_build NumQc BPeriodic ext xs (map (map (Qcmult c)) data) trail = Ok sp' ->
    in_closed_range NumQc 0 xs x = true ->
    spline_interp NumQc sp xs data x = Ok v ->
    spline_interp NumQc sp' xs (map (map (Qcmult c)) data) x = Ok (map (Qcmult c) v).
  Proof.
    intros Hsp Hsp' Hx Hv.
    pose proof (Hwidth' data L c Hwidth) as Hw'. pose proof (n' data c) as En.
    assert (Lanes : forall j, (j < L)%nat ->
              exists v', spline_interp NumQc sp' xs (map (map (Qcmult c)) data) x = Ok v' /\
                         length v' = L /\ length v = L /\ nth j v' 0 = c * nth j v 0).
    { intros j Hj.
      destruct (periodic_eval xs data L Hwidth HS Hlen Hn H64 HL ext trail sp j x Hj Hsp Hx) as (i & v0 & Hi & Hi1 & Ev0 & Lv0 & Nv0).
      rewrite Hv in Ev0. injection Ev0 as <-.
      destruct (periodic_eval xs (map (map (Qcmult c)) data) L Hw' HS ltac:(rewrite En; exact Hlen) ltac:(rewrite En; exact Hn)
                  ltac:(rewrite En; exact H64) HL ext trail sp' j x Hj Hsp' Hx) as (i' & v' & Hi' & Hi1' & Ev' & Lv' & Nv').
      rewrite Hi in Hi'. injection Hi' as <-.
      exists v'. repeat split; auto. rewrite Nv', Nv0.
      rewrite En. rewrite !(periodic_slopes_scale_data xs data L j Hj Hwidth HS Hlen Hn c) by lia.
      rewrite !yq_scale.
      apply piece_scale_data. apply (hq_neq xs data L j Hj HS Hlen ltac:(lia) i). lia. }
    destruct (Lanes 0%nat HL) as (v' & Ev' & Lv' & Lv & _). rewrite Ev'. f_equal.
    apply (nth_ext _ _ 0 0).
    - rewrite map_length. lia.
    - intros j Hj. rewrite Lv' in Hj.
      destruct (Lanes j Hj) as (v'' & Ev'' & _ & _ & Nj). rewrite Ev' in Ev''. injection Ev'' as <-.
      rewrite Nj. replace 0 with (c * 0) at 2 by ring. rewrite map_nth. reflexivity.
  Qed.

  Theorem spline_periodic_axis_units c s ext trail sp sp' x v : 0 < c ->
    spline_build NumQc BPeriodic ext xs data trail = Ok sp ->
    spline_build NumQc BPeriodic ext (map (aff c s) xs) data trail = Ok sp' ->
    in_closed_range NumQc 0 xs x = true ->
    spline_interp NumQc sp xs data x = Ok v ->
    spline_interp NumQc sp' (map (aff c s) xs) data (aff c s x) = Ok v.
  Proof.
    intros Hc Hsp Hsp' Hx Hv.
    pose proof (HS' xs c s Hc HS) as HSx. pose proof (Hlen' xs data c s Hlen) as Hlx.
    assert (Hx' : in_closed_range NumQc 0 (map (aff c s) xs) (aff c s x) = true).
    { rewrite (in_closed_range_mono (aff c s) (aff_mono c s Hc) xs x ltac:(lia)). exact Hx. }
    pose proof (lower_index_mono (aff c s) (aff_mono c s Hc) xs x HS ltac:(lia) ltac:(rewrite Hlen; exact H64)) as Hmono.
    assert (Lanes : forall j, (j < L)%nat ->
              exists v', spline_interp NumQc sp' (map (aff c s) xs) data (aff c s x) = Ok v' /\
                         length v' = L /\ length v = L /\ nth j v' 0 = nth j v 0).
    { intros j Hj.
      destruct (periodic_eval xs data L Hwidth HS Hlen Hn H64 HL ext trail sp j x Hj Hsp Hx) as (i & v0 & Hi & Hi1 & Ev0 & Lv0 & Nv0).
      rewrite Hv in Ev0. injection Ev0 as <-.
      destruct (periodic_eval (map (aff c s) xs) data L Hwidth HSx Hlx Hn H64 HL ext trail sp' j (aff c s x) Hj Hsp' Hx')
        as (i' & v' & Hi' & Hi1' & Ev' & Lv' & Nv').
      rewrite Hmono, Hi in Hi'. injection Hi' as <-.
      exists v'. repeat split; auto. rewrite Nv', Nv0.
      rewrite !(periodic_slopes_axis_units xs data L j Hj Hwidth HS Hlen Hn c s) by (try exact Hc; lia).
      rewrite (hq_aff xs data L c s Hlen ltac:(lia) HL) by lia.
      rewrite nth_map_Qc by lia.
      replace (aff c s x - aff c s (nth i xs 0)) with (c * (x - nth i xs 0)) by (unfold aff; ring).
      apply piece_scale_axis; [apply pos_neq; exact Hc|]. apply (hq_neq xs data L j Hj HS Hlen ltac:(lia) i). lia. }
    destruct (Lanes 0%nat HL) as (v' & Ev' & Lv' & Lv & _). rewrite Ev'. f_equal.
    apply (nth_ext _ _ 0 0); [lia|].
    intros j Hj. rewrite Lv' in Hj.
    destruct (Lanes j Hj) as (v'' & Ev'' & _ & _ & Nj). rewrite Ev' in Ev''. injection Ev'' as <-. exact Nj.
  Qed.
End PeriodicUnitsTop.
