(* Dims.v -- C19: the type algebra behind the unchecked casts of the rank-1 fast path.
   Dimension types of ndarray, type expressions of the cast sites, evaluation under an
   assignment of the type parameters.  The tables (Smaller, DimAdd) and the cast sites
   themselves are in the GENERATED file gen/DimsGen.v.                                   *)

From Coq Require Import List Bool.
Import ListNotations.

Inductive dim : Type := Ix0 | Ix1 | Ix2 | Ix3 | Ix4 | Ix5 | Ix6 | IxDyn.

Definition dim_eqb (a b : dim) : bool :=
  match a, b with
  | Ix0, Ix0 | Ix1, Ix1 | Ix2, Ix2 | Ix3, Ix3 | Ix4, Ix4 | Ix5, Ix5 | Ix6, Ix6 | IxDyn, IxDyn => true
  | _, _ => false
  end.

Lemma dim_eqb_eq a b : dim_eqb a b = true <-> a = b.
Proof. destruct a, b; cbn; split; intros H; try discriminate; reflexivity. Qed.

Inductive dvar : Type := VDq | VD.
Inductive storage : Type := SSq | SSqx | SSqy.   (* the storage type parameter of the query array *)

Inductive dexp : Type :=
| DVar (v : dvar)
| DConst (d : dim)
| DSmaller (e : dexp)
| DAdd (a b : dexp).

Inductive texp : Type :=
| TRefArray (s : storage) (d : dexp)     (* &ArrayBase<S, d>           *)
| TViewMut (d : dexp).                   (* ArrayViewMut<Sd::Elem, d>  *)

Section Eval.
  Variable smaller : dim -> dim.
  Variable dimadd : dim -> dim -> dim.
  Variable Dq D : dim.

  Fixpoint deval (e : dexp) : dim :=
    match e with
    | DVar VDq => Dq
    | DVar VD => D
    | DConst d => d
    | DSmaller e => smaller (deval e)
    | DAdd a b => dimadd (deval a) (deval b)
    end.

  (* two instantiated types are the same type iff same constructor, same storage parameter and
     the same dimension type (element type and lifetime are shared syntactically) *)
  Definition storage_eqb (a b : storage) : bool :=
    match a, b with SSq, SSq | SSqx, SSqx | SSqy, SSqy => true | _, _ => false end.

  Definition same_type (a b : texp) : bool :=
    match a, b with
    | TRefArray s1 d1, TRefArray s2 d2 => storage_eqb s1 s2 && dim_eqb (deval d1) (deval d2)
    | TViewMut d1, TViewMut d2 => dim_eqb (deval d1) (deval d2)
    | _, _ => false
    end.
End Eval.

(* data dimension types each interpolator accepts (RemoveAxis, resp. twice) *)
Definition data_dims_1d : list dim := [Ix1; Ix2; Ix3; Ix4; Ix5; Ix6; IxDyn].
Definition data_dims_2d : list dim := [Ix2; Ix3; Ix4; Ix5; Ix6; IxDyn].
Definition all_dims : list dim := [Ix0; Ix1; Ix2; Ix3; Ix4; Ix5; Ix6; IxDyn].
