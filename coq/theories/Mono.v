(* Mono.v -- transcription of monotonic_prop (src/vector_extensions.rs:40-53, 114-198). *)

From Coq Require Import List Bool Arith Lia.
From NI Require Import Num Base.
Import ListNotations.

Inductive mono : Type := Rising (strict : bool) | Falling (strict : bool) | NotMono.

(* enum MonotonicState { Init, NotStrict, Likely(Monotonic) } *)
Inductive mstate : Type := MInit | MNotStrict | MLikely (m : mono).

Definition mono_eqb (a b : mono) : bool :=
  match a, b with
  | Rising s, Rising t | Falling s, Falling t => Bool.eqb s t
  | NotMono, NotMono => true
  | _, _ => false
  end.

Section Mono.
  Context {T : Type} (N : Num T).

  (* MonotonicState::update, lines 129-173; the order of the tests is the code's *)
  Definition update (s : mstate) (a b : T) : mstate :=
    match s with
    | MInit =>
        if ltb N a b then MLikely (Rising true)
        else if eqb N a b then MNotStrict
        else MLikely (Falling true)
    | MNotStrict =>
        if ltb N a b then MLikely (Rising false)
        else if eqb N a b then MNotStrict
        else MLikely (Falling false)
    | MLikely (Rising strict) =>
        if eqb N a b then MLikely (Rising false)
        else if ltb N a b then MLikely (Rising strict)
        else MLikely NotMono
    | MLikely (Falling strict) =>
        if eqb N a b then MLikely (Falling false)
        else if gtb N a b then MLikely (Falling strict)
        else MLikely NotMono
    | MLikely NotMono => MLikely NotMono
    end.

  (* try_fold over windows(2) with short_circuit (lines 45-51, 180-185):
     inl = Err(mon) (iteration stopped), inr = Ok(state) *)
  Fixpoint fold_windows (s : mstate) (l : list T) : mono + mstate :=
    match l with
    | a :: (b :: _) as t =>
        match update s a b with
        | MLikely NotMono => inl NotMono
        | s' => fold_windows s' t
        end
    | _ => inr s
    end.

  (* finish, lines 191-197 *)
  Definition finish (s : mstate) : outcome mono :=
    match s with
    | MInit => Panic
    | MNotStrict => Ok NotMono
    | MLikely m => Ok m
    end.

  Definition monotonic_prop (l : list T) : outcome mono :=
    if length l <=? 1 then Ok NotMono
    else match fold_windows MInit l with
         | inl m => Ok m
         | inr s => finish s
         end.

  (* what Interp{1,2}DBuilder::build tests *)
  Definition is_strict_rising (l : list T) : outcome bool :=
    m <- monotonic_prop l ;; Ok (mono_eqb m (Rising true)).

End Mono.
