(* FloatLinear.v -- the model instantiated with correctly rounded IEEE operations on the reals
   (Flocq round-to-nearest-even, gradual underflow): for every strictly increasing axis of floats
   (as real numbers) the segment lookup returns the bracketing interval without panicking, and the
   Linear interpolator returns, in every lane, a value within 15 u of the exact line's value times
   the larger bracketing datum -- provided no intermediate result underflows (overflow is outside
   Flocq's FLT format: the statement is about finite intermediate results; see known finding S1). *)

From Coq Require Import Reals Lra Lia ZArith List Bool Psatz.
From Flocq Require Import Core Relative.
From NI Require Import Num Base Lookup Linear LookupProofs LinearProofs FloatRound.
Import ListNotations.
Local Open Scope R_scope.

Section FloatModel.
  Variable prec emin : Z.
  Context {prec_gt_0_ : Prec_gt_0 prec}.
  Hypothesis Hprec : (11 <= prec)%Z.
  Variables (remR powR : R -> R -> R).

  Notation rnd := (round radix2 (FLT_exp emin prec) ZnearestE).
  Notation u := (uu prec).

  Definition ltbR (a b : R) : bool := if Rlt_dec a b then true else false.
  Definition lebR (a b : R) : bool := if Rle_dec a b then true else false.
  Definition eqbR (a b : R) : bool := if Req_EM_T a b then true else false.
  (* cast::<float, usize>: None outside (-1, 2^64), truncation toward zero inside *)
  Definition to_idxR (x : R) : option Z :=
    if Rlt_dec (-1) x then if Rlt_dec x (IZR two64) then Some (Ztrunc x) else None else None.

  Definition NumF : Num R := NumFl prec emin ltbR lebR eqbR INR to_idxR remR powR.

  Lemma ltbR_true a b : ltbR a b = true <-> a < b.
  Proof. unfold ltbR. destruct (Rlt_dec a b); split; auto; discriminate. Qed.
  Lemma lebR_true a b : lebR a b = true <-> a <= b.
  Proof. unfold lebR. destruct (Rle_dec a b); split; auto; discriminate. Qed.
  Lemma lebR_false a b : lebR a b = false <-> b < a.
  Proof. unfold lebR. destruct (Rle_dec a b); split; intros; try discriminate; try lra; auto. Qed.

  Lemma OrderLaws_F : OrderLaws NumF (fun _ => True).
  Proof.
    constructor; cbn [NumF NumFl leb ltb].
    - intros a b c _ _ _ H1 H2. apply lebR_true in H1, H2. apply lebR_true. lra.
    - intros a b _ _. destruct (Rle_dec a b) as [H|H]; [left|right]; apply lebR_true; lra.
    - intros a b _ _. unfold ltbR, lebR. destruct (Rlt_dec a b), (Rle_dec b a); cbn; auto; lra.
    - intros a b H. apply ltbR_true in H. apply lebR_false. exact H.
  Qed.

  Definition StrictIncF (ax : list R) : Prop := StrictInc NumF (fun _ => True) 0 ax.

  Lemma StrictIncF_lt ax i j : StrictIncF ax -> (i < j)%nat -> (j < length ax)%nat -> nth i ax 0 < nth j ax 0.
  Proof.
    intros H Hij Hj. apply ltbR_true.
    exact (sorted_lt NumF (fun _ => True) OrderLaws_F 0 ax i j H Hij Hj).
  Qed.

  (* no underflow in the six operations of one calc_frac *)
  Definition cf_no_underflow (y1 y2 x1 x2 x : R) : Prop :=
    normal_or_zero prec emin (y2 - y1) /\ normal_or_zero prec emin (x2 - x1) /\ normal_or_zero prec emin (x - x1) /\
    normal_or_zero prec emin (rnd (y2 - y1) / rnd (x2 - x1)) /\
    normal_or_zero prec emin (rnd (rnd (y2 - y1) / rnd (x2 - x1)) * rnd (x - x1)) /\
    normal_or_zero prec emin (rnd (rnd (rnd (y2 - y1) / rnd (x2 - x1)) * rnd (x - x1)) + y1).

  (* ---- C11 at floats: the lookup neither panics nor returns a wrong interval ---- *)
  Theorem lower_index_float (ax : list R) (x : R) :
    StrictIncF ax -> (2 <= length ax)%nat ->
    7 * u * INR (length ax - 1) <= 1 -> INR (length ax) <= IZR two64 ->
    (nth 0 ax 0 < x -> x < nth (length ax - 1) ax 0 ->
       cf_no_underflow 0 (INR (length ax - 1)) (nth 0 ax 0) (nth (length ax - 1) ax 0) x) ->
    exists i, lower_index NumF ax x = Ok i /\ (i + 2 <= length ax)%nat /\
      (x <= nth 0 ax 0 -> i = 0%nat) /\
      (nth 0 ax 0 < x -> nth (length ax - 1) ax 0 <= x -> i = (length ax - 2)%nat) /\
      (nth 0 ax 0 < x -> x < nth (length ax - 1) ax 0 -> nth i ax 0 <= x < nth (i + 1) ax 0).
  Proof.
    intros HS Hn Hsmall H64 Hnu.
    destruct (lower_index_spec NumF (fun _ => True) OrderLaws_F 0 (guess NumF) ax x HS Hn I) as (i & Hi & Hb & S1 & S2 & S3).
    { (* the guess is a valid index *)
      intros Hbelow Habove. unfold below_first, above_last, geb in *. cbn [NumF NumFl leb] in *.
      apply lebR_false in Hbelow. apply lebR_false in Habove.
      unfold guess_ok, guess.
      change (calc_frac NumF (nth 0 ax 0, of_nat NumF 0) (nth (length ax - 1) ax 0, of_nat NumF (length ax - 1)) x)
        with (cf_fl prec emin (INR 0) (INR (length ax - 1)) (nth 0 ax 0) (nth (length ax - 1) ax 0) x).
      change (INR 0) with 0.
      destruct (Hnu Hbelow Habove) as (N1 & N2 & N4 & N3 & N5 & N6).
      assert (HN : 1 <= INR (length ax - 1)).
      { change 1 with (INR 1). apply le_INR. lia. }
      pose proof (guess_in_bounds_fl prec emin Hprec (nth 0 ax 0) (nth (length ax - 1) ax 0) x (INR (length ax - 1))
                    Hbelow Habove HN Hsmall N1 N2 N4 N3 N5 N6) as [G0 G1].
      set (g := cf_fl prec emin 0 (INR (length ax - 1)) (nth 0 ax 0) (nth (length ax - 1) ax 0) x) in *.
      assert (EN : INR (length ax - 1) + 1 = INR (length ax)).
      { rewrite <- S_INR. f_equal. lia. }
      cbn [NumF NumFl to_idx]. unfold to_idxR.
      destruct (Rlt_dec (-1) g) as [_|C]; [|lra].
      destruct (Rlt_dec g (IZR two64)) as [_|C]; [|lra].
      exists (Ztrunc g). split; [reflexivity|].
      rewrite Ztrunc_floor by exact G0.
      split.
      - apply Zfloor_lub. simpl. exact G0.
      - apply lt_IZR. rewrite <- INR_IZR_INZ.
        eapply Rle_lt_trans; [apply Zfloor_lb|]. lra. }
    exists i. split; [exact Hi|]. split; [exact Hb|]. cbn [NumF NumFl leb ltb] in S1, S2, S3.
    repeat split.
    - intros H. apply S1. apply lebR_true. exact H.
    - intros H1 H2. apply S2; [apply lebR_false; exact H1|apply lebR_true; exact H2].
    - destruct (S3 ltac:(apply lebR_false; exact H) ltac:(apply lebR_false; exact H0)) as [A _]. apply lebR_true in A. exact A.
    - destruct (S3 ltac:(apply lebR_false; exact H) ltac:(apply lebR_false; exact H0)) as [_ B]. apply ltbR_true in B. exact B.
  Qed.
End FloatModel.

Section FloatLinearInterp.
  Variable prec emin : Z.
  Context {prec_gt_0_ : Prec_gt_0 prec}.
  Hypothesis Hprec : (11 <= prec)%Z.
  Variables (remR powR : R -> R -> R).
  Notation u := (uu prec).
  Notation NF := (NumF prec emin remR powR).

  (* ---- C01 at floats: every lane within 15 u of the exact line (7.5 machine epsilons) ---- *)
  Theorem linear_float_close (ax : list R) (data : list (list R)) (x : R) :
    StrictIncF prec emin remR powR ax -> (2 <= length ax)%nat -> length data = length ax ->
    7 * u * INR (length ax - 1) <= 1 -> INR (length ax) <= IZR two64 ->
    nth 0 ax 0 <= x <= nth (length ax - 1) ax 0 ->
    (nth 0 ax 0 < x -> x < nth (length ax - 1) ax 0 ->
       cf_no_underflow prec emin 0 (INR (length ax - 1)) (nth 0 ax 0) (nth (length ax - 1) ax 0) x) ->
    exists i v,
      (i + 1 < length ax)%nat /\ nth i ax 0 <= x <= nth (i + 1) ax 0 /\
      linear_interp NF false ax data x = Ok v /\
      length v = Nat.min (length (nth i data [])) (length (nth (i + 1) data [])) /\
      forall j M, (j < length v)%nat ->
        Rabs (nth j (nth i data []) 0) <= M -> Rabs (nth j (nth (i + 1) data []) 0) <= M ->
        cf_no_underflow prec emin (nth j (nth i data []) 0) (nth j (nth (i + 1) data []) 0) (nth i ax 0) (nth (i + 1) ax 0) x ->
        Rabs (nth j v 0 - cf_exact (nth j (nth i data []) 0) (nth j (nth (i + 1) data []) 0) (nth i ax 0) (nth (i + 1) ax 0) x)
        <= 15 * u * M.
  Proof.
    intros HS Hn Hlen Hsmall H64 [Hlo Hhi] Hnu.
    destruct (lower_index_float prec emin Hprec remR powR ax x HS Hn Hsmall H64 Hnu) as (i & Hi & Hb & S1 & S2 & S3).
    assert (Hbr : nth i ax 0 <= x <= nth (i + 1) ax 0).
    { destruct (Rle_lt_dec x (nth 0 ax 0)) as [A|A].
      - rewrite (S1 A). cbn [Nat.add]. split; [lra|].
        pose proof (StrictIncF_lt prec emin remR powR ax 0 1 HS ltac:(lia) ltac:(lia)). lra.
      - destruct (Rle_lt_dec (nth (length ax - 1) ax 0) x) as [B|B].
        + rewrite (S2 A B). replace (length ax - 2 + 1)%nat with (length ax - 1)%nat by lia. split; [|lra].
          pose proof (StrictIncF_lt prec emin remR powR ax (length ax - 2) (length ax - 1) HS ltac:(lia) ltac:(lia)). lra.
        + destruct (S3 A B). split; lra. }
    assert (Hlt : nth i ax 0 < nth (i + 1) ax 0) by (apply (StrictIncF_lt prec emin remR powR ax i (i + 1) HS); lia).
    assert (Hg : range_guard NF false ax x = Ok tt).
    { rewrite (range_guard_spec NF 0) by lia. cbn [orb]. unfold in_closed_range. cbn [NumF NumFl leb].
      rewrite (proj2 (lebR_true _ _) Hlo), (proj2 (lebR_true _ _) Hhi). reflexivity. }
    exists i. eexists. split; [lia|]. split; [exact Hbr|].
    split; [apply (linear_reads_bracket NF 0 false ax data x i Hg Hi); lia|].
    split; [apply map2_length|].
    intros j M Hj M1 M2 (N1 & N2 & N4 & N3 & N5 & N6).
    rewrite map2_length in Hj.
    rewrite (nth_map2 _ _ _ j 0 0 0) by lia.
    change (calc_frac NF (nth i ax 0, nth j (nth i data []) 0) (nth (i + 1) ax 0, nth j (nth (i + 1) data []) 0) x)
      with (cf_fl prec emin (nth j (nth i data []) 0) (nth j (nth (i + 1) data []) 0) (nth i ax 0) (nth (i + 1) ax 0) x).
    apply (cf_fl_error_in_bracket prec emin Hprec); assumption.
  Qed.
End FloatLinearInterp.

(* ---------------- Bilinear with correctly rounded operations ---------------- *)
Section FloatBilinear.
  Variable prec emin : Z.
  Context {prec_gt_0_ : Prec_gt_0 prec}.
  Hypothesis Hprec : (11 <= prec)%Z.
  Notation u := (uu prec).

  Lemma cf_fl_as_pert (y1 y2 x1 x2 x : R) :
    cf_no_underflow prec emin y1 y2 x1 x2 x ->
    exists d1 d2 d3 d4 d5 d6,
      Rabs d1 <= u /\ Rabs d2 <= u /\ Rabs d3 <= u /\ Rabs d4 <= u /\ Rabs d5 <= u /\ Rabs d6 <= u /\
      cf_fl prec emin y1 y2 x1 x2 x = cf_pert d1 d2 d3 d4 d5 d6 y1 y2 x1 x2 x.
  Proof.
    intros (N1 & N2 & N4 & N3 & N5 & N6). unfold cf_fl.
    destruct (rnd_std prec emin _ N1) as (d1 & B1 & E1).
    destruct (rnd_std prec emin _ N2) as (d2 & B2 & E2).
    destruct (rnd_std prec emin _ N4) as (d4 & B4 & E4).
    destruct (rnd_std prec emin _ N3) as (d3 & B3 & E3).
    destruct (rnd_std prec emin _ N5) as (d5 & B5 & E5).
    destruct (rnd_std prec emin _ N6) as (d6 & B6 & E6).
    exists d1, d2, d3, d4, d5, d6. repeat (split; [assumption|]).
    rewrite E6, E5, E3, E1, E2, E4. reflexivity.
  Qed.

  (* three rounded calc_frac: within 31 u of the exact blend times the largest corner value, when none of
     the 18 operations underflows *)
  Theorem bilinear_fl_error_in_cell (x1 x2 y1 y2 x y z11 z12 z21 z22 M : R) :
    x1 < x2 -> x1 <= x <= x2 -> y1 < y2 -> y1 <= y <= y2 ->
    Rabs z11 <= M -> Rabs z12 <= M -> Rabs z21 <= M -> Rabs z22 <= M ->
    cf_no_underflow prec emin z11 z21 x1 x2 x -> cf_no_underflow prec emin z12 z22 x1 x2 x ->
    cf_no_underflow prec emin (cf_fl prec emin z11 z21 x1 x2 x) (cf_fl prec emin z12 z22 x1 x2 x) y1 y2 y ->
    Rabs (cf_fl prec emin (cf_fl prec emin z11 z21 x1 x2 x) (cf_fl prec emin z12 z22 x1 x2 x) y1 y2 y
          - bl_exact x1 x2 y1 y2 x y z11 z12 z21 z22) <= 31 * u * M.
  Proof.
    intros Hx Hxin Hy Hyin M11 M12 M21 M22 U1 U2 U3.
    destruct (cf_fl_as_pert _ _ _ _ _ U1) as (a1 & a2 & a3 & a4 & a5 & a6 & A1 & A2 & A3 & A4 & A5 & A6 & EA).
    destruct (cf_fl_as_pert _ _ _ _ _ U2) as (b1 & b2 & b3 & b4 & b5 & b6 & B1 & B2 & B3 & B4 & B5 & B6 & EB).
    destruct (cf_fl_as_pert _ _ _ _ _ U3) as (c1 & c2 & c3 & c4 & c5 & c6 & C1 & C2 & C3 & C4 & C5 & C6 & EC).
    rewrite EC, EA, EB.
    apply (bilinear_error_in_cell u a1 a2 a3 a4 a5 a6 b1 b2 b3 b4 b5 b6 c1 c2 c3 c4 c5 c6); try assumption.
    - apply uu_nonneg.
    - apply uu_small. exact Hprec.
  Qed.
End FloatBilinear.
