(* FloatRound.v -- rounding-error bound for the expression order of Linear::calc_frac
     (y2 - y1) / (x2 - x1) * (x - x1) + y1
   in the standard model of floating-point arithmetic (every operation returns the exact result
   times (1 + d), |d| <= u), and its instantiation by Flocq's round-to-nearest in a format with
   gradual underflow (binary64: prec = 53, emin = -1074; binary32: prec = 24, emin = -149),
   under the hypothesis that no intermediate result underflows (overflow is not representable in
   Flocq's unbounded-exponent FLT format: the statement is about finite results).            *)

From Coq Require Import Reals Lra Lia ZArith Psatz.
From Flocq Require Import Core Relative.
From NI Require Import Num Base Lookup Linear.
Local Open Scope R_scope.

(* ---------------- Higham's accumulation of relative errors ---------------- *)

Definition gam (k u : R) : R := k * u / (1 - k * u).

Lemma gam_nonneg k u : 0 <= k -> 0 <= u -> k * u < 1 -> 0 <= gam k u.
Proof.
  intros Hk Hu H. unfold gam. apply Rmult_le_pos; [apply Rmult_le_pos; assumption|].
  apply Rlt_le, Rinv_0_lt_compat. lra.
Qed.

Lemma gam_mul k u th d : 0 <= k -> 0 <= u -> (k + 1) * u < 1 ->
  Rabs th <= gam k u -> Rabs d <= u ->
  Rabs ((1 + th) * (1 + d) - 1) <= gam (k + 1) u.
Proof.
  intros Hk Hu H Hth Hd.
  assert (Hku : k * u < 1) by nra.
  assert (G := gam_nonneg k u Hk Hu Hku).
  replace ((1 + th) * (1 + d) - 1) with (th + d + th * d) by ring.
  assert (B : Rabs (th + d + th * d) <= gam k u + u + gam k u * u).
  { eapply Rle_trans; [apply Rabs_triang|]. apply Rplus_le_compat.
    - eapply Rle_trans; [apply Rabs_triang|]. lra.
    - rewrite Rabs_mult. apply Rmult_le_compat; try apply Rabs_pos; assumption. }
  eapply Rle_trans; [exact B|]. unfold gam.
  assert (D1 : 0 < 1 - k * u) by lra. assert (D2 : 0 < 1 - (k + 1) * u) by lra.
  replace (k * u / (1 - k * u) + u + k * u / (1 - k * u) * u) with ((k + 1) * u / (1 - k * u)) by (field; lra).
  unfold Rdiv. apply Rmult_le_compat_l; [nra|].
  apply Rinv_le_contravar; lra.
Qed.

Lemma gam_div k u th d : 0 <= k -> 0 <= u -> (k + 1) * u < 1 ->
  Rabs th <= gam k u -> Rabs d <= u ->
  Rabs ((1 + th) / (1 + d) - 1) <= gam (k + 1) u.
Proof.
  intros Hk Hu H Hth Hd.
  assert (Hku : k * u < 1) by nra.
  assert (Hu1 : u < 1) by nra.
  assert (G := gam_nonneg k u Hk Hu Hku).
  assert (Dd : 0 < 1 + d) by (apply Rabs_le_inv in Hd; lra).
  replace ((1 + th) / (1 + d) - 1) with ((th - d) / (1 + d)) by (field; lra).
  unfold Rdiv. rewrite Rabs_mult, (Rabs_pos_eq (/ (1 + d))) by (apply Rlt_le, Rinv_0_lt_compat; exact Dd).
  assert (N : Rabs (th - d) <= gam k u + u).
  { unfold Rminus. eapply Rle_trans; [apply Rabs_triang|]. rewrite Rabs_Ropp. lra. }
  assert (I : / (1 + d) <= / (1 - u)).
  { apply Rinv_le_contravar; [lra|]. apply Rabs_le_inv in Hd. lra. }
  eapply Rle_trans.
  { apply Rmult_le_compat; [apply Rabs_pos|apply Rlt_le, Rinv_0_lt_compat; exact Dd|exact N|exact I]. }
  unfold gam.
  assert (D1 : 0 < 1 - k * u) by lra. assert (D2 : 0 < 1 - (k + 1) * u) by lra. assert (D3 : 0 < 1 - u) by lra.
  replace ((k * u / (1 - k * u) + u) * / (1 - u)) with (u * (k + 1 - k * u) / ((1 - k * u) * (1 - u))) by (field; lra).
  apply (Rmult_le_reg_r ((1 - k * u) * (1 - u) * (1 - (k + 1) * u))).
  { apply Rmult_lt_0_compat; [apply Rmult_lt_0_compat|]; lra. }
  replace (u * (k + 1 - k * u) / ((1 - k * u) * (1 - u)) * ((1 - k * u) * (1 - u) * (1 - (k + 1) * u)))
    with (u * (k + 1 - k * u) * (1 - (k + 1) * u)) by (field; lra).
  replace ((k + 1) * u / (1 - (k + 1) * u) * ((1 - k * u) * (1 - u) * (1 - (k + 1) * u)))
    with ((k + 1) * u * ((1 - k * u) * (1 - u))) by (field; lra).
  nra.
Qed.

Lemma gam1 u d : 0 <= u -> u < 1 -> Rabs d <= u -> Rabs d <= gam 1 u.
Proof.
  intros Hu H1 Hd. eapply Rle_trans; [exact Hd|]. unfold gam. rewrite Rmult_1_l.
  apply (Rmult_le_reg_r (1 - u)); [lra|]. replace (u / (1 - u) * (1 - u)) with u by (field; lra). nra.
Qed.

(* ---------------- calc_frac in the standard model ---------------- *)

Definition cf_exact (y1 y2 x1 x2 x : R) : R := (y2 - y1) / (x2 - x1) * (x - x1) + y1.
Definition cf_term (y1 y2 x1 x2 x : R) : R := (y2 - y1) / (x2 - x1) * (x - x1).

(* the computed value: one relative perturbation per operation, in the code's order
   d1: y2 - y1, d2: x2 - x1, d3: the quotient, d4: x - x1, d5: the product, d6: the sum *)
Definition cf_pert (d1 d2 d3 d4 d5 d6 y1 y2 x1 x2 x : R) : R :=
  (((y2 - y1) * (1 + d1)) / ((x2 - x1) * (1 + d2)) * (1 + d3) * ((x - x1) * (1 + d4)) * (1 + d5) + y1) * (1 + d6).

Theorem calc_frac_std_model (u d1 d2 d3 d4 d5 d6 y1 y2 x1 x2 x : R) :
  0 <= u -> 5 * u < 1 -> x2 - x1 <> 0 ->
  Rabs d1 <= u -> Rabs d2 <= u -> Rabs d3 <= u -> Rabs d4 <= u -> Rabs d5 <= u -> Rabs d6 <= u ->
  Rabs (cf_pert d1 d2 d3 d4 d5 d6 y1 y2 x1 x2 x - cf_exact y1 y2 x1 x2 x)
  <= gam 5 u * (1 + u) * Rabs (cf_term y1 y2 x1 x2 x) + u * (Rabs (cf_term y1 y2 x1 x2 x) + Rabs y1).
Proof.
  intros Hu H5 Hx H1 H2 H3 H4 H5' H6.
  assert (D2 : 0 < 1 + d2) by (apply Rabs_le_inv in H2; lra).
  set (P := (1 + d1) / (1 + d2) * (1 + d3) * (1 + d4) * (1 + d5)).
  assert (T1 : Rabs ((1 + d1) - 1) <= gam 1 u).
  { replace (1 + d1 - 1) with d1 by ring. apply gam1; lra. }
  assert (T2 : Rabs ((1 + d1) / (1 + d2) - 1) <= gam (1 + 1) u).
  { replace (1 + d1) with (1 + (1 + d1 - 1)) by ring. apply gam_div; lra. }
  assert (T3 : Rabs ((1 + d1) / (1 + d2) * (1 + d3) - 1) <= gam (1 + 1 + 1) u).
  { replace ((1 + d1) / (1 + d2)) with (1 + ((1 + d1) / (1 + d2) - 1)) by ring. apply gam_mul; lra. }
  assert (T4 : Rabs ((1 + d1) / (1 + d2) * (1 + d3) * (1 + d4) - 1) <= gam (1 + 1 + 1 + 1) u).
  { replace ((1 + d1) / (1 + d2) * (1 + d3)) with (1 + ((1 + d1) / (1 + d2) * (1 + d3) - 1)) by ring.
    apply gam_mul; lra. }
  assert (T5 : Rabs (P - 1) <= gam 5 u).
  { unfold P. replace 5 with (1 + 1 + 1 + 1 + 1) by ring.
    replace ((1 + d1) / (1 + d2) * (1 + d3) * (1 + d4)) with (1 + ((1 + d1) / (1 + d2) * (1 + d3) * (1 + d4) - 1)) by ring.
    apply gam_mul; lra. }
  set (A := cf_term y1 y2 x1 x2 x).
  assert (E : cf_pert d1 d2 d3 d4 d5 d6 y1 y2 x1 x2 x - cf_exact y1 y2 x1 x2 x
              = A * (P - 1) * (1 + d6) + (A + y1) * d6).
  { unfold cf_pert, cf_exact, A, cf_term, P. field. repeat split; first [exact Hx|lra]. }
  rewrite E.
  eapply Rle_trans; [apply Rabs_triang|]. apply Rplus_le_compat.
  - rewrite !Rabs_mult. rewrite (Rmult_comm (gam 5 u * (1 + u))).
    rewrite Rmult_assoc. apply Rmult_le_compat_l; [apply Rabs_pos|].
    apply Rmult_le_compat; try apply Rabs_pos; [exact T5|].
    eapply Rle_trans; [apply Rabs_triang|]. rewrite Rabs_R1. lra.
  - rewrite Rabs_mult, Rmult_comm. apply Rmult_le_compat; try apply Rabs_pos; [exact H6|].
    apply Rabs_triang.
Qed.

(* a readable constant: for u <= 2^-10 (every binary format of interest) the error is at most
   u * (|y1| + 7 |term|); inside the bracket |term| <= |y2 - y1| <= 2 max(|y1|,|y2|), so the
   error is at most 15 u max(|y1|,|y2|) = 7.5 machine epsilons of the larger bracketing value *)
Lemma gam5_small u : 0 <= u -> u <= / 1024 -> gam 5 u * (1 + u) <= 6 * u.
Proof.
  intros H0 H1. unfold gam.
  assert (D : 0 < 1 - 5 * u) by lra.
  apply (Rmult_le_reg_r (1 - 5 * u)); [exact D|].
  replace (5 * u / (1 - 5 * u) * (1 + u) * (1 - 5 * u)) with (5 * u * (1 + u)) by (field; lra).
  nra.
Qed.

Theorem calc_frac_error_bound (u d1 d2 d3 d4 d5 d6 y1 y2 x1 x2 x : R) :
  0 <= u -> u <= / 1024 -> x2 - x1 <> 0 ->
  Rabs d1 <= u -> Rabs d2 <= u -> Rabs d3 <= u -> Rabs d4 <= u -> Rabs d5 <= u -> Rabs d6 <= u ->
  Rabs (cf_pert d1 d2 d3 d4 d5 d6 y1 y2 x1 x2 x - cf_exact y1 y2 x1 x2 x)
  <= u * (Rabs y1 + 7 * Rabs (cf_term y1 y2 x1 x2 x)).
Proof.
  intros H0 H1 Hx A1 A2 A3 A4 A5 A6.
  eapply Rle_trans; [apply (calc_frac_std_model u d1 d2 d3 d4 d5 d6); try assumption; lra|].
  pose proof (gam5_small u H0 H1) as G. pose proof (Rabs_pos (cf_term y1 y2 x1 x2 x)) as P.
  pose proof (Rabs_pos y1). nra.
Qed.

Theorem calc_frac_error_in_bracket (u d1 d2 d3 d4 d5 d6 y1 y2 x1 x2 x M : R) :
  0 <= u -> u <= / 1024 -> x1 < x2 -> x1 <= x <= x2 -> Rabs y1 <= M -> Rabs y2 <= M ->
  Rabs d1 <= u -> Rabs d2 <= u -> Rabs d3 <= u -> Rabs d4 <= u -> Rabs d5 <= u -> Rabs d6 <= u ->
  Rabs (cf_pert d1 d2 d3 d4 d5 d6 y1 y2 x1 x2 x - cf_exact y1 y2 x1 x2 x) <= 15 * u * M.
Proof.
  intros H0 H1 Hlt Hx M1 M2 A1 A2 A3 A4 A5 A6.
  eapply Rle_trans; [apply (calc_frac_error_bound u d1 d2 d3 d4 d5 d6); try assumption; lra|].
  assert (T : Rabs (cf_term y1 y2 x1 x2 x) <= 2 * M).
  { unfold cf_term. replace ((y2 - y1) / (x2 - x1) * (x - x1)) with ((y2 - y1) * ((x - x1) / (x2 - x1))) by (field; lra).
    rewrite Rabs_mult.
    assert (F : Rabs ((x - x1) / (x2 - x1)) <= 1).
    { rewrite Rabs_pos_eq.
      - apply (Rmult_le_reg_r (x2 - x1)); [lra|]. replace ((x - x1) / (x2 - x1) * (x2 - x1)) with (x - x1) by (field; lra). lra.
      - apply Rmult_le_pos; [lra|]. apply Rlt_le, Rinv_0_lt_compat. lra. }
    assert (Dy : Rabs (y2 - y1) <= 2 * M).
    { unfold Rminus. eapply Rle_trans; [apply Rabs_triang|]. rewrite Rabs_Ropp. lra. }
    pose proof (Rabs_pos (y2 - y1)). pose proof (Rabs_pos ((x - x1) / (x2 - x1))). nra. }
  pose proof (Rabs_pos y1). nra.
Qed.

(* ---------------- Bilinear: three calc_frac in the standard model ---------------- *)

Lemma cf_exact_affine y1 y2 x1 x2 x : x2 - x1 <> 0 ->
  cf_exact y1 y2 x1 x2 x = y1 * (1 - (x - x1) / (x2 - x1)) + y2 * ((x - x1) / (x2 - x1)).
Proof. intros H. unfold cf_exact. field. exact H. Qed.

Lemma cf_exact_hull y1 y2 x1 x2 x M : x1 < x2 -> x1 <= x <= x2 -> Rabs y1 <= M -> Rabs y2 <= M ->
  Rabs (cf_exact y1 y2 x1 x2 x) <= M.
Proof.
  intros Hlt Hx M1 M2. rewrite cf_exact_affine by lra.
  set (t := (x - x1) / (x2 - x1)).
  assert (T : 0 <= t <= 1).
  { unfold t. split.
    - apply Rmult_le_pos; [lra|]. apply Rlt_le, Rinv_0_lt_compat. lra.
    - apply (Rmult_le_reg_r (x2 - x1)); [lra|]. replace ((x - x1) / (x2 - x1) * (x2 - x1)) with (x - x1) by (field; lra). lra. }
  eapply Rle_trans; [apply Rabs_triang|]. rewrite !Rabs_mult.
  rewrite (Rabs_pos_eq (1 - t)), (Rabs_pos_eq t) by lra.
  pose proof (Rabs_pos y1). pose proof (Rabs_pos y2). nra.
Qed.

Lemma cf_exact_lipschitz y1 y2 w1 w2 x1 x2 x e : x1 < x2 -> x1 <= x <= x2 ->
  Rabs (w1 - y1) <= e -> Rabs (w2 - y2) <= e ->
  Rabs (cf_exact w1 w2 x1 x2 x - cf_exact y1 y2 x1 x2 x) <= e.
Proof.
  intros Hlt Hx E1 E2. rewrite !cf_exact_affine by lra.
  set (t := (x - x1) / (x2 - x1)).
  assert (T : 0 <= t <= 1).
  { unfold t. split.
    - apply Rmult_le_pos; [lra|]. apply Rlt_le, Rinv_0_lt_compat. lra.
    - apply (Rmult_le_reg_r (x2 - x1)); [lra|]. replace ((x - x1) / (x2 - x1) * (x2 - x1)) with (x - x1) by (field; lra). lra. }
  replace (w1 * (1 - t) + w2 * t - (y1 * (1 - t) + y2 * t)) with ((w1 - y1) * (1 - t) + (w2 - y2) * t) by ring.
  eapply Rle_trans; [apply Rabs_triang|]. rewrite !Rabs_mult.
  rewrite (Rabs_pos_eq (1 - t)), (Rabs_pos_eq t) by lra.
  pose proof (Rabs_pos (w1 - y1)). pose proof (Rabs_pos (w2 - y2)). nra.
Qed.

(* bilinear_lane: z1 = cf(x; z11, z21), z2 = cf(x; z12, z22), result = cf(y; z1, z2) *)
Definition bl_exact (x1 x2 y1 y2 x y z11 z12 z21 z22 : R) : R :=
  cf_exact (cf_exact z11 z21 x1 x2 x) (cf_exact z12 z22 x1 x2 x) y1 y2 y.

Theorem bilinear_error_in_cell (u : R) (a1 a2 a3 a4 a5 a6 b1 b2 b3 b4 b5 b6 c1 c2 c3 c4 c5 c6 : R)
    (x1 x2 y1 y2 x y z11 z12 z21 z22 M : R) :
  0 <= u -> u <= / 1024 -> x1 < x2 -> x1 <= x <= x2 -> y1 < y2 -> y1 <= y <= y2 ->
  Rabs z11 <= M -> Rabs z12 <= M -> Rabs z21 <= M -> Rabs z22 <= M ->
  Rabs a1 <= u -> Rabs a2 <= u -> Rabs a3 <= u -> Rabs a4 <= u -> Rabs a5 <= u -> Rabs a6 <= u ->
  Rabs b1 <= u -> Rabs b2 <= u -> Rabs b3 <= u -> Rabs b4 <= u -> Rabs b5 <= u -> Rabs b6 <= u ->
  Rabs c1 <= u -> Rabs c2 <= u -> Rabs c3 <= u -> Rabs c4 <= u -> Rabs c5 <= u -> Rabs c6 <= u ->
  let w1 := cf_pert a1 a2 a3 a4 a5 a6 z11 z21 x1 x2 x in
  let w2 := cf_pert b1 b2 b3 b4 b5 b6 z12 z22 x1 x2 x in
  Rabs (cf_pert c1 c2 c3 c4 c5 c6 w1 w2 y1 y2 y - bl_exact x1 x2 y1 y2 x y z11 z12 z21 z22) <= 31 * u * M.
Proof.
  intros H0 H1 Hx Hxin Hy Hyin M11 M12 M21 M22 A1 A2 A3 A4 A5 A6 B1 B2 B3 B4 B5 B6 C1 C2 C3 C4 C5 C6 w1 w2.
  assert (HM : 0 <= M) by (pose proof (Rabs_pos z11); lra).
  set (v1 := cf_exact z11 z21 x1 x2 x). set (v2 := cf_exact z12 z22 x1 x2 x).
  assert (E1 : Rabs (w1 - v1) <= 15 * u * M) by (apply calc_frac_error_in_bracket; assumption).
  assert (E2 : Rabs (w2 - v2) <= 15 * u * M) by (apply calc_frac_error_in_bracket; assumption).
  assert (V1 : Rabs v1 <= M) by (apply cf_exact_hull; assumption).
  assert (V2 : Rabs v2 <= M) by (apply cf_exact_hull; assumption).
  assert (W1 : Rabs w1 <= M + 15 * u * M).
  { replace w1 with (v1 + (w1 - v1)) by ring. eapply Rle_trans; [apply Rabs_triang|]. lra. }
  assert (W2 : Rabs w2 <= M + 15 * u * M).
  { replace w2 with (v2 + (w2 - v2)) by ring. eapply Rle_trans; [apply Rabs_triang|]. lra. }
  unfold bl_exact. fold v1 v2.
  replace (cf_pert c1 c2 c3 c4 c5 c6 w1 w2 y1 y2 y - cf_exact v1 v2 y1 y2 y)
    with ((cf_pert c1 c2 c3 c4 c5 c6 w1 w2 y1 y2 y - cf_exact w1 w2 y1 y2 y) + (cf_exact w1 w2 y1 y2 y - cf_exact v1 v2 y1 y2 y)) by ring.
  eapply Rle_trans; [apply Rabs_triang|].
  assert (P1 : Rabs (cf_pert c1 c2 c3 c4 c5 c6 w1 w2 y1 y2 y - cf_exact w1 w2 y1 y2 y) <= 15 * u * (M + 15 * u * M))
    by (apply calc_frac_error_in_bracket; assumption).
  assert (P2 : Rabs (cf_exact w1 w2 y1 y2 y - cf_exact v1 v2 y1 y2 y) <= 15 * u * M)
    by (apply cf_exact_lipschitz; assumption).
  assert (Q1 : 0 <= u * M) by (apply Rmult_le_pos; assumption).
  assert (Q2 : u * (u * M) <= / 1024 * (u * M)) by (apply Rmult_le_compat_r; assumption).
  lra.
Qed.

(* ---------------- the index guess of get_lower_index ---------------- *)

(* mid = calc_frac((x0, 0), (xn, N), x) with N = len - 1 and x0 < x < xn (the two range clamps have been
   passed): the computed value stays in [0, N + 1), so its truncation is a valid index 0..N -- provided
   7 u N <= 1 (binary64: N <= 2^50; binary32: N <= 2^21) and no intermediate underflow/overflow *)
Theorem guess_in_bounds_std_model (u d1 d2 d3 d4 d5 d6 x0 xn x N : R) :
  0 <= u -> u <= / 1024 -> x0 < x -> x < xn -> 1 <= N -> 7 * u * N <= 1 ->
  Rabs d1 <= u -> Rabs d2 <= u -> Rabs d3 <= u -> Rabs d4 <= u -> Rabs d5 <= u -> Rabs d6 <= u ->
  0 <= cf_pert d1 d2 d3 d4 d5 d6 0 N x0 xn x < N + 1.
Proof.
  intros H0 H1 Hlo Hhi HN Hsmall A1 A2 A3 A4 A5 A6.
  pose proof (calc_frac_error_bound u d1 d2 d3 d4 d5 d6 0 N x0 xn x H0 H1 ltac:(lra) A1 A2 A3 A4 A5 A6) as G.
  rewrite Rabs_R0, Rplus_0_l in G.
  set (t := (x - x0) / (xn - x0)).
  assert (T : 0 < t < 1).
  { unfold t. split.
    - apply Rmult_lt_0_compat; [lra|]. apply Rinv_0_lt_compat. lra.
    - apply (Rmult_lt_reg_r (xn - x0)); [lra|]. replace ((x - x0) / (xn - x0) * (xn - x0)) with (x - x0) by (field; lra). lra. }
  assert (EA : cf_term 0 N x0 xn x = N * t) by (unfold cf_term, t; field; lra).
  assert (EE : cf_exact 0 N x0 xn x = N * t) by (unfold cf_exact, t; field; lra).
  rewrite EA, EE in G. rewrite (Rabs_pos_eq (N * t)) in G by nra.
  apply Rabs_le_inv in G.
  assert (P : 0 <= u * N) by nra.
  assert (Q : u * N * t <= u * N) by nra.
  assert (Q0 : 0 <= u * N * t) by nra.
  split; nra.
Qed.

(* ---------------- instantiation: Flocq round-to-nearest-even with gradual underflow ---------------- *)

Section FlocqInstance.
  Variable prec emin : Z.
  Context {prec_gt_0_ : Prec_gt_0 prec}.
  Hypothesis Hprec : (11 <= prec)%Z.

  Notation rnd := (round radix2 (FLT_exp emin prec) ZnearestE).
  Definition uu : R := / 2 * bpow radix2 (- prec + 1).

  Lemma uu_nonneg : 0 <= uu.
  Proof. unfold uu. apply Rmult_le_pos; [lra|apply bpow_ge_0]. Qed.

  Lemma uu_small : uu <= / 1024.
  Proof.
    unfold uu. assert (B : bpow radix2 (- prec + 1) <= bpow radix2 (-10)) by (apply bpow_le; lia).
    assert (E : bpow radix2 (-10) = / 1024) by (simpl; f_equal; lra).
    rewrite E in B. lra.
  Qed.

  (* no underflow: the exact result of the operation is zero or in the normal range *)
  Definition normal_or_zero (x : R) : Prop := x = 0 \/ bpow radix2 (emin + prec - 1) <= Rabs x.

  Lemma rnd_std x : normal_or_zero x -> exists d, Rabs d <= uu /\ rnd x = x * (1 + d).
  Proof.
    intros [->|H].
    - exists 0. split; [rewrite Rabs_R0; apply uu_nonneg|]. rewrite round_0; [ring|].
      apply valid_rnd_N.
    - destruct (relative_error_N_FLT_ex radix2 emin prec prec_gt_0_ (fun z => negb (Z.even z)) x H) as (eps & He & Er).
      exists eps. split; [exact He|exact Er].
  Qed.

  (* IEEE evaluation of calc_frac in the code's operation order *)
  Definition cf_fl (y1 y2 x1 x2 x : R) : R :=
    rnd (rnd (rnd (rnd (y2 - y1) / rnd (x2 - x1)) * rnd (x - x1)) + y1).

  Theorem cf_fl_error (y1 y2 x1 x2 x : R) :
    x2 - x1 <> 0 ->
    normal_or_zero (y2 - y1) -> normal_or_zero (x2 - x1) -> normal_or_zero (x - x1) ->
    normal_or_zero (rnd (y2 - y1) / rnd (x2 - x1)) ->
    normal_or_zero (rnd (rnd (y2 - y1) / rnd (x2 - x1)) * rnd (x - x1)) ->
    normal_or_zero (rnd (rnd (rnd (y2 - y1) / rnd (x2 - x1)) * rnd (x - x1)) + y1) ->
    Rabs (cf_fl y1 y2 x1 x2 x - cf_exact y1 y2 x1 x2 x)
    <= uu * (Rabs y1 + 7 * Rabs (cf_term y1 y2 x1 x2 x)).
  Proof.
    intros Hx N1 N2 N4 N3 N5 N6. unfold cf_fl.
    destruct (rnd_std _ N1) as (d1 & B1 & E1).
    destruct (rnd_std _ N2) as (d2 & B2 & E2).
    destruct (rnd_std _ N4) as (d4 & B4 & E4).
    destruct (rnd_std _ N3) as (d3 & B3 & E3).
    destruct (rnd_std _ N5) as (d5 & B5 & E5).
    destruct (rnd_std _ N6) as (d6 & B6 & E6).
    rewrite E6, E5, E3, E1, E2, E4.
    pose proof (calc_frac_error_bound uu d1 d2 d3 d4 d5 d6 y1 y2 x1 x2 x uu_nonneg uu_small Hx B1 B2 B3 B4 B5 B6) as G.
    unfold cf_pert in G. exact G.
  Qed.

  (* inside the bracket: at most 15 u = 7.5 machine epsilons of the larger bracketing value *)
  Theorem cf_fl_error_in_bracket (y1 y2 x1 x2 x M : R) :
    x1 < x2 -> x1 <= x <= x2 -> Rabs y1 <= M -> Rabs y2 <= M ->
    normal_or_zero (y2 - y1) -> normal_or_zero (x2 - x1) -> normal_or_zero (x - x1) ->
    normal_or_zero (rnd (y2 - y1) / rnd (x2 - x1)) ->
    normal_or_zero (rnd (rnd (y2 - y1) / rnd (x2 - x1)) * rnd (x - x1)) ->
    normal_or_zero (rnd (rnd (rnd (y2 - y1) / rnd (x2 - x1)) * rnd (x - x1)) + y1) ->
    Rabs (cf_fl y1 y2 x1 x2 x - cf_exact y1 y2 x1 x2 x) <= 15 * uu * M.
  Proof.
    intros Hlt Hin M1 M2 N1 N2 N4 N3 N5 N6. unfold cf_fl.
    destruct (rnd_std _ N1) as (d1 & B1 & E1).
    destruct (rnd_std _ N2) as (d2 & B2 & E2).
    destruct (rnd_std _ N4) as (d4 & B4 & E4).
    destruct (rnd_std _ N3) as (d3 & B3 & E3).
    destruct (rnd_std _ N5) as (d5 & B5 & E5).
    destruct (rnd_std _ N6) as (d6 & B6 & E6).
    rewrite E6, E5, E3, E1, E2, E4.
    pose proof (calc_frac_error_in_bracket uu d1 d2 d3 d4 d5 d6 y1 y2 x1 x2 x M uu_nonneg uu_small Hlt Hin M1 M2 B1 B2 B3 B4 B5 B6) as G.
    unfold cf_pert in G. exact G.
  Qed.
  Theorem guess_in_bounds_fl (x0 xn x N : R) :
    x0 < x -> x < xn -> 1 <= N -> 7 * uu * N <= 1 ->
    normal_or_zero (N - 0) -> normal_or_zero (xn - x0) -> normal_or_zero (x - x0) ->
    normal_or_zero (rnd (N - 0) / rnd (xn - x0)) ->
    normal_or_zero (rnd (rnd (N - 0) / rnd (xn - x0)) * rnd (x - x0)) ->
    normal_or_zero (rnd (rnd (rnd (N - 0) / rnd (xn - x0)) * rnd (x - x0)) + 0) ->
    0 <= cf_fl 0 N x0 xn x < N + 1.
  Proof.
    intros Hlo Hhi HN Hs N1 N2 N4 N3 N5 N6. unfold cf_fl.
    destruct (rnd_std _ N1) as (d1 & B1 & E1).
    destruct (rnd_std _ N2) as (d2 & B2 & E2).
    destruct (rnd_std _ N4) as (d4 & B4 & E4).
    destruct (rnd_std _ N3) as (d3 & B3 & E3).
    destruct (rnd_std _ N5) as (d5 & B5 & E5).
    destruct (rnd_std _ N6) as (d6 & B6 & E6).
    rewrite E6, E5, E3, E1, E2, E4.
    pose proof (guess_in_bounds_std_model uu d1 d2 d3 d4 d5 d6 x0 xn x N uu_nonneg uu_small Hlo Hhi HN Hs B1 B2 B3 B4 B5 B6) as G.
    unfold cf_pert in G. exact G.
  Qed.

  (* ---- the tie to the model: the generic calc_frac / bilinear_lane of Lookup.v / Linear.v,
     instantiated with correctly rounded operations, ARE these expressions.  Only the four
     arithmetic fields matter for them; the other fields are arbitrary. ---- *)
  Variables (ltbR lebR eqbR : R -> R -> bool) (of_natR : nat -> R) (to_idxR : R -> option Z)
            (remR powR : R -> R -> R).
  Definition NumFl : Num R :=
    mkNum R 0 1 (fun a b => rnd (a + b)) (fun a b => rnd (a - b)) (fun a b => rnd (a * b)) (fun a b => rnd (a / b))
          (fun a => - a) ltbR lebR eqbR of_natR to_idxR remR powR.

  Theorem calc_frac_NumFl (x1 y1 x2 y2 x : R) :
    calc_frac NumFl (x1, y1) (x2, y2) x = cf_fl y1 y2 x1 x2 x.
  Proof. reflexivity. Qed.

  Theorem bilinear_lane_NumFl (x1 x2 y1 y2 x y z11 z12 z21 z22 : R) :
    bilinear_lane NumFl x1 x2 y1 y2 x y z11 z12 z21 z22 =
    cf_fl (cf_fl z11 z21 x1 x2 x) (cf_fl z12 z22 x1 x2 x) y1 y2 y.
  Proof. reflexivity. Qed.
End FlocqInstance.

(* binary64 and binary32 *)
Definition u64 : R := uu 53.
Definition u32 : R := uu 24.
Lemma u64_val : u64 = bpow radix2 (-53).
Proof.
  unfold u64, uu. change (- 53 + 1)%Z with (-52)%Z. change (-53)%Z with (-1 + -52)%Z.
  rewrite (bpow_plus radix2 (-1) (-52)). f_equal.
Qed.

Theorem calc_frac_binary64_in_bracket (y1 y2 x1 x2 x M : R) :
  x1 < x2 -> x1 <= x <= x2 -> Rabs y1 <= M -> Rabs y2 <= M ->
  let rnd := round radix2 (FLT_exp (-1074) 53) ZnearestE in
  normal_or_zero 53 (-1074) (y2 - y1) -> normal_or_zero 53 (-1074) (x2 - x1) -> normal_or_zero 53 (-1074) (x - x1) ->
  normal_or_zero 53 (-1074) (rnd (y2 - y1) / rnd (x2 - x1)) ->
  normal_or_zero 53 (-1074) (rnd (rnd (y2 - y1) / rnd (x2 - x1)) * rnd (x - x1)) ->
  normal_or_zero 53 (-1074) (rnd (rnd (rnd (y2 - y1) / rnd (x2 - x1)) * rnd (x - x1)) + y1) ->
  Rabs (cf_fl 53 (-1074) y1 y2 x1 x2 x - cf_exact y1 y2 x1 x2 x) <= 15 * bpow radix2 (-53) * M.
Proof.
  intros Hlt Hin M1 M2 rnd N1 N2 N4 N3 N5 N6. rewrite <- u64_val.
  apply (cf_fl_error_in_bracket 53 (-1074) (prec_gt_0_ := eq_refl) ltac:(lia)); assumption.
Qed.
