(* Interp.v -- boundary-condition types, the builders' validation chains
   (src/interp1d/mod.rs:443-476, src/interp2d/mod.rs:468-518) and scenario runners used by
   the correspondence check: build once, then answer a list of queries.                    *)

From Coq Require Import List Bool Arith ZArith Lia.
From NI Require Import Num Base Mono Lookup Linear.
Import ListNotations.

(* cubic_spline.rs:153-217 *)
Inductive single (T : Type) : Type :=
| SNotAKnot | SNatural | SClamped | SFirstDeriv (v : T) | SSecondDeriv (v : T).
Inductive rowbc (T : Type) : Type :=
| RNotAKnot | RNatural | RClamped | RMixed (l r : single T).
Inductive bc (T : Type) : Type :=
| BNotAKnot | BNatural | BClamped | BPeriodic
| BIndividual (per_lane : list (rowbc T)) (shape : list nat).
Inductive strat1 (T : Type) : Type := SLinear | SSpline (b : bc T).

Arguments SNotAKnot {T}. Arguments SNatural {T}. Arguments SClamped {T}.
Arguments SFirstDeriv {T} v. Arguments SSecondDeriv {T} v.
Arguments RNotAKnot {T}. Arguments RNatural {T}. Arguments RClamped {T}.
Arguments RMixed {T} l r.
Arguments BNotAKnot {T}. Arguments BNatural {T}. Arguments BClamped {T}. Arguments BPeriodic {T}.
Arguments BIndividual {T} per_lane shape.
Arguments SLinear {T}. Arguments SSpline {T} b.

Section Build.
  Context {T : Type} (N : Num T).

  (* Interp1DBuilder::build, for data of rank >= 1 whose first axis has n_data entries.
     [min_len] = Strat::MINIMUM_DATA_LENGHT, [strat_build] = the strategy's own build. *)
  Definition build1d_checks (min_len : nat) (ax : list T) (n_data : nat) : outcome unit :=
    if n_data <? min_len then ErrBuild NotEnoughData else
    m <- monotonic_prop N ax ;;
    if negb (mono_eqb m (Rising true)) then ErrBuild NotMonotonic else
    if negb (length ax =? n_data) then ErrBuild ShapeError else
    Ok tt.

  (* Interp2DBuilder::build *)
  Definition build2d_checks (min_len : nat) (xax yax : list T) (nx ny : nat) : outcome unit :=
    if nx <? min_len then ErrBuild NotEnoughData else
    if ny <? min_len then ErrBuild NotEnoughData else
    if negb (length xax =? nx) then ErrBuild ShapeError else
    if negb (length yax =? ny) then ErrBuild ShapeError else
    mx <- monotonic_prop N xax ;;
    if negb (mono_eqb mx (Rising true)) then ErrBuild NotMonotonic else
    my <- monotonic_prop N yax ;;
    if negb (mono_eqb my (Rising true)) then ErrBuild NotMonotonic else
    Ok tt.

End Build.
