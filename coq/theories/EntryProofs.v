(* EntryProofs.v -- C09 / C13 / C14 on the entry-point model: what a successful *_into call
   leaves in memory, for EVERY offset and stride vector of the caller's buffer.            *)

From Coq Require Import List Bool Arith ZArith Lia.
From NI Require Import Num Base Entry.
Import ListNotations.

Lemma list_eqb_nat_eq l1 : forall l2, list_eqb Nat.eqb l1 l2 = true -> l1 = l2.
Proof.
  induction l1 as [|x t IH]; intros [|y u] E; cbn in E; try discriminate; auto.
  apply andb_prop in E as [E1 E2]. apply Nat.eqb_eq in E1. subst. f_equal. apply IH. exact E2.
Qed.
Lemma nodup_app {A} (a b : list A) :
  NoDup a -> NoDup b -> (forall x, In x a -> In x b -> False) -> NoDup (a ++ b).
Proof.
  induction a as [|h t IH]; intros Ha Hb Hd; [exact Hb|].
  apply NoDup_cons_iff in Ha as [Hh Ht]. cbn [app]. constructor.
  - intros C. apply in_app_or in C as [C|C]; [contradiction|]. apply (Hd h); [left; reflexivity|exact C].
  - apply IH; auto. intros x Hx Hy. apply (Hd x); [right; exact Hx|exact Hy].
Qed.
Lemma map_inj_NoDup {A B} (f : A -> B) (l : list A) :
  (forall x y, f x = f y -> x = y) -> NoDup l -> NoDup (map f l).
Proof.
  intros Hf. induction l as [|a t IH]; intros Hl; [constructor|].
  apply NoDup_cons_iff in Hl as [Ha Ht]. cbn [map]. constructor; [|apply IH; exact Ht].
  intros C. apply in_map_iff in C as (b & E & Hb). apply Hf in E. subst b. contradiction.
Qed.
Lemma list_eqb_nat_refl l : list_eqb Nat.eqb l l = true.
Proof. induction l as [|a t IH]; cbn; auto. rewrite Nat.eqb_refl. exact IH. Qed.

Section EntryProofs.
  Context {T : Type}.
  Variable F : T -> outcome (list T).
  Variable trail : list nat.

  Notation mem := (@mem T).

  (* ---- sequential writes ---- *)
  Definition apply_writes (ws : list (Z * T)) (m : mem) : mem :=
    fold_left (fun m' p => upd m' (fst p) (snd p)) ws m.

  Lemma apply_writes_app w1 w2 m : apply_writes (w1 ++ w2) m = apply_writes w2 (apply_writes w1 m).
  Proof. unfold apply_writes. apply fold_left_app. Qed.

  Lemma apply_writes_frame ws : forall m a, ~ In a (map fst ws) -> apply_writes ws m a = m a.
  Proof.
    induction ws as [|[b v] t IH]; intros m a Hn; [reflexivity|].
    cbn [apply_writes fold_left fst snd]. fold (apply_writes t (upd m b v)).
    rewrite IH by (intros C; apply Hn; right; exact C).
    unfold upd. destruct (Z.eqb b a) eqn:E; [|reflexivity].
    apply Z.eqb_eq in E. exfalso. apply Hn. left. exact E.
  Qed.

  Lemma apply_writes_read ws : forall m a v, NoDup (map fst ws) -> In (a, v) ws ->
    apply_writes ws m a = v.
  Proof.
    induction ws as [|[b w] t IH]; intros m a v Hnd Hin; [contradiction|].
    cbn [map fst] in Hnd. apply NoDup_cons_iff in Hnd as [Hnb Hnd].
    cbn [apply_writes fold_left fst snd]. fold (apply_writes t (upd m b w)).
    destruct Hin as [E|Hin].
    - injection E as -> ->. rewrite apply_writes_frame by exact Hnb.
      unfold upd. rewrite Z.eqb_refl. reflexivity.
    - apply IH; assumption.
  Qed.

  (* ---- what one strategy call writes ---- *)
  Definition lane_writes (target : view) (vals : list T) : list (Z * T) :=
    map (fun p => (addr target (fst p), snd p)) (combine (indices (v_shape target)) vals).

  Lemma write_lanes_is_apply target vals m :
    write_lanes target vals m = apply_writes (lane_writes target vals) m.
  Proof.
    unfold write_lanes, apply_writes, lane_writes.
    generalize (combine (indices (v_shape target)) vals). intros l. revert m.
    induction l as [|p t IH]; intros m; [reflexivity|]. cbn [map fold_left fst snd]. apply IH.
  Qed.

  (* all writes of a successful batch, in order *)
  Fixpoint batch_writes (buffer : view) (work : list (list nat * T)) : list (Z * T) :=
    match work with
    | [] => []
    | (idx, x) :: rest =>
        match F x with
        | Ok vals => lane_writes (sub_view buffer idx) vals ++ batch_writes buffer rest
        | _ => []
        end
    end.

  Lemma array_loop_writes buffer work : forall m m',
    array_loop F trail buffer work m = Ok m' -> m' = apply_writes (batch_writes buffer work) m.
  Proof.
    induction work as [|[idx x] rest IH]; intros m m' H.
    - injection H as <-. reflexivity.
    - cbn [array_loop batch_writes] in *. unfold strat_into in H.
      destruct (F x) as [vals| | | |]; try discriminate.
      destruct (list_eqb Nat.eqb (v_shape (sub_view buffer idx)) trail); [|discriminate].
      rewrite apply_writes_app, <- write_lanes_is_apply. apply IH. exact H.
  Qed.

  (* ---- addresses ---- *)
  Lemma addr_sub_view_at idx : forall off shape strides t,
    length idx <= length shape -> length shape = length strides ->
    addr (sub_view_at off shape strides idx) t = addr_of off strides (idx ++ t).
  Proof.
    induction idx as [|i is IH]; intros off shape strides t H1 H2.
    - destruct shape, strides; reflexivity.
    - destruct shape as [|s sh]; [cbn in H1; lia|]. destruct strides as [|st ss]; [cbn in H2; lia|].
      cbn [sub_view_at app addr_of]. apply IH; cbn in *; lia.
  Qed.

  Lemma addr_sub_view v idx t :
    length idx <= length (v_shape v) -> length (v_shape v) = length (v_strides v) ->
    addr (sub_view v idx) t = addr v (idx ++ t).
  Proof. intros. unfold sub_view, addr at 2. apply addr_sub_view_at; assumption. Qed.

  Lemma sub_view_shape idx : forall off shape strides,
    length idx <= length shape -> length shape = length strides ->
    v_shape (sub_view_at off shape strides idx) = skipn (length idx) shape.
  Proof.
    induction idx as [|i is IH]; intros off shape strides H1 H2; [destruct shape, strides; reflexivity|].
    destruct shape as [|s sh]; [cbn in H1; lia|]. destruct strides as [|st ss]; [cbn in H2; lia|].
    cbn [sub_view_at length skipn]. apply IH; cbn in *; lia.
  Qed.

  Lemma indices_length_elem shape : forall idx, In idx (indices shape) -> length idx = length shape.
  Proof.
    induction shape as [|n r IH]; intros idx H.
    - destruct H as [<-|[]]. reflexivity.
    - cbn [indices] in H. apply in_flat_map in H as (i & _ & H). apply in_map_iff in H as (t & <- & Ht).
      cbn. f_equal. apply IH. exact Ht.
  Qed.

  Lemma indices_app s1 s2 i1 i2 :
    In i1 (indices s1) -> In i2 (indices s2) -> In (i1 ++ i2) (indices (s1 ++ s2)).
  Proof.
    revert i1. induction s1 as [|n r IH]; intros i1 H1 H2.
    - destruct H1 as [<-|[]]. exact H2.
    - cbn [indices app] in *. apply in_flat_map in H1 as (i & Hi & H1).
      apply in_map_iff in H1 as (t & <- & Ht). apply in_flat_map. exists i. split; [exact Hi|].
      cbn [app]. apply in_map. apply IH; assumption.
  Qed.

  Definition in_image (v : view) (a : Z) : Prop :=
    exists idx, In idx (indices (v_shape v)) /\ addr v idx = a.

  (* every address a batch writes lies in the image of the buffer view *)
  Lemma batch_writes_in_image buffer qshape work :
    v_shape buffer = qshape ++ trail -> length (v_shape buffer) = length (v_strides buffer) ->
    (forall p, In p work -> In (fst p) (indices qshape)) ->
    forall a, In a (map fst (batch_writes buffer work)) -> in_image buffer a.
  Proof.
    intros Hs Hl. induction work as [|[idx x] rest IH]; intros Hw a Ha; [contradiction|].
    cbn [batch_writes] in Ha. destruct (F x) as [vals| | | |]; try contradiction.
    rewrite map_app in Ha. apply in_app_or in Ha as [Ha|Ha].
    - unfold lane_writes in Ha. rewrite map_map in Ha. cbn [fst] in Ha.
      apply in_map_iff in Ha as ([t v] & <- & Hp). cbn [fst].
      apply in_combine_l in Hp.
      assert (Hidx : In idx (indices qshape)) by (apply (Hw (idx, x)); left; reflexivity).
      pose proof (indices_length_elem _ _ Hidx) as Li.
      assert (Lle : length idx <= length (v_shape buffer)) by (rewrite Hs, app_length; lia).
      exists (idx ++ t). split.
      + rewrite Hs. apply indices_app; [exact Hidx|].
        unfold sub_view in Hp. rewrite sub_view_shape in Hp by assumption.
        rewrite Hs, Li in Hp. rewrite skipn_app, skipn_all, Nat.sub_diag in Hp. exact Hp.
      + symmetry. apply addr_sub_view; assumption.
    - apply IH; [|exact Ha]. intros p Hp. apply Hw. right. exact Hp.
  Qed.

  (* C14: memory outside the buffer view is untouched -- for ANY offset and strides *)
  Theorem interp_array_into_frame qshape qs buffer m m' :
    length (v_shape buffer) = length (v_strides buffer) ->
    interp_array_into F trail qshape qs buffer m = Ok m' ->
    forall a, ~ in_image buffer a -> m' a = m a.
  Proof.
    intros Hl H a Hout. unfold interp_array_into in H.
    destruct (list_eqb Nat.eqb (qshape ++ trail) (v_shape buffer)) eqn:E; cbn [negb] in H; [|discriminate].
    assert (Hs : v_shape buffer = qshape ++ trail) by (symmetry; apply list_eqb_nat_eq; exact E).
    rewrite (array_loop_writes _ _ _ _ H). apply apply_writes_frame.
    intros C. apply Hout. eapply batch_writes_in_image; eauto.
    intros [pi px] Hp. apply in_combine_l in Hp. exact Hp.
  Qed.

  (* C14: a buffer whose shape is not (query shape ++ trailing dims) is never accepted *)
  Theorem interp_array_into_reject_wrong_shape qshape qs buffer m :
    v_shape buffer <> qshape ++ trail ->
    interp_array_into F trail qshape qs buffer m = Panic.
  Proof.
    intros Hne. unfold interp_array_into.
    destruct (list_eqb Nat.eqb (qshape ++ trail) (v_shape buffer)) eqn:E; [|reflexivity].
    exfalso. apply Hne. symmetry. apply list_eqb_nat_eq. exact E.
  Qed.

  Theorem interp_into_reject_wrong_shape x buffer m vals :
    F x = Ok vals -> v_shape buffer <> trail -> interp_into F trail x buffer m = Panic.
  Proof.
    intros HF Hne. unfold interp_into, strat_into. rewrite HF.
    destruct (list_eqb Nat.eqb (v_shape buffer) trail) eqn:E; [|reflexivity].
    exfalso. apply Hne. apply list_eqb_nat_eq. exact E.
  Qed.

  (* the error of the strategy is the caller's result (first failing element, in order) *)
  Theorem array_loop_error_propagates buffer work m :
    (forall p, In p work -> F (snd p) <> Panic /\ F (snd p) <> OutOfFuel) ->
    (forall idx, v_shape (sub_view buffer idx) = trail) ->
    (exists p, In p work /\ F (snd p) = ErrOOB) ->
    array_loop F trail buffer work m = ErrOOB \/ exists k, array_loop F trail buffer work m = ErrBuild k.
  Proof.
    revert m. induction work as [|[idx x] rest IH]; intros m Hok Hsh [p [Hin He]]; [contradiction|].
    cbn [array_loop]. unfold strat_into.
    destruct (F x) as [vals| |k| |] eqn:Fx.
    - rewrite Hsh, list_eqb_nat_refl. apply IH.
      + intros q Hq. apply Hok. right. exact Hq.
      + exact Hsh.
      + destruct Hin as [<-|Hin]; [cbn in He; congruence|]. exists p. split; assumption.
    - left. reflexivity.
    - right. exists k. reflexivity.
    - exfalso. destruct (Hok (idx, x) (or_introl eq_refl)) as [A _]. apply A. exact Fx.
    - exfalso. destruct (Hok (idx, x) (or_introl eq_refl)) as [_ A]. apply A. exact Fx.
  Qed.


  (* ---- C09 / C13 / C14: every cell of the buffer holds the strategy's value ---- *)

  Definition injective_view (v : view) : Prop :=
    forall i j, In i (indices (v_shape v)) -> In j (indices (v_shape v)) -> addr v i = addr v j -> i = j.

  Lemma indices_NoDup shape : NoDup (indices shape).
  Proof.
    induction shape as [|n r IH]; [repeat constructor; intros []|].
    cbn [indices].
    assert (G : forall l, NoDup l -> NoDup (flat_map (fun i => map (cons i) (indices r)) l)).
    { induction l as [|a l IHl]; intros Hl; [constructor|].
      apply NoDup_cons_iff in Hl as [Ha Hl]. cbn [flat_map].
      apply nodup_app; [| |].
      - apply map_inj_NoDup; [|exact IH]. intros x y E. injection E. auto.
      - apply IHl. exact Hl.
      - intros x Hx Hy. apply in_map_iff in Hx as (t & <- & _).
        apply in_flat_map in Hy as (b & Hb & Hy). apply in_map_iff in Hy as (u & E & _).
        injection E as -> _. contradiction. }
    apply G. apply seq_NoDup.
  Qed.

  (* the (index, value) pairs a successful batch writes, at the level of logical indices *)
  Fixpoint batch_cells (work : list (list nat * T)) : list (list nat * T) :=
    match work with
    | [] => []
    | (idx, x) :: rest =>
        match F x with
        | Ok vals => map (fun p => (idx ++ fst p, snd p)) (combine (indices trail) vals) ++ batch_cells rest
        | _ => []
        end
    end.

  Lemma batch_writes_cells buffer qshape work :
    v_shape buffer = qshape ++ trail -> length (v_shape buffer) = length (v_strides buffer) ->
    (forall p, In p work -> In (fst p) (indices qshape)) ->
    batch_writes buffer work = map (fun c => (addr buffer (fst c), snd c)) (batch_cells work).
  Proof.
    intros Hs Hl. induction work as [|[idx x] rest IH]; intros Hw; [reflexivity|].
    cbn [batch_writes batch_cells]. destruct (F x) as [vals| | | |]; try reflexivity.
    rewrite map_app, IH by (intros p Hp; apply Hw; right; exact Hp). f_equal.
    assert (Hidx : In idx (indices qshape)) by (apply (Hw (idx, x)); left; reflexivity).
    pose proof (indices_length_elem _ _ Hidx) as Li.
    assert (Lle : length idx <= length (v_shape buffer)) by (rewrite Hs, app_length; lia).
    unfold lane_writes. rewrite map_map. cbn [fst snd].
    assert (Sh : v_shape (sub_view buffer idx) = trail).
    { unfold sub_view. rewrite sub_view_shape by assumption.
      rewrite Hs, Li, skipn_app, skipn_all, Nat.sub_diag. reflexivity. }
    rewrite Sh. apply map_ext. intros [t v]. cbn [fst snd]. f_equal.
    apply addr_sub_view; assumption.
  Qed.

  Lemma batch_cells_keys_NoDup qshape work :
    NoDup (map fst work) -> (forall p, In p work -> In (fst p) (indices qshape)) ->
    NoDup (map fst (batch_cells work)) /\
    forall c, In c (batch_cells work) -> exists p t, In p work /\ fst c = fst p ++ t /\ In t (indices trail).
  Proof.
    induction work as [|[idx x] rest IH]; intros Hnd Hw; [split; [constructor|intros c []]|].
    cbn [map fst] in Hnd. apply NoDup_cons_iff in Hnd as [Hni Hnd].
    destruct (IH Hnd (fun p Hp => Hw p (or_intror Hp))) as [N1 N2].
    cbn [batch_cells]. destruct (F x) as [vals| | | |]; try (split; [constructor|intros c []]).
    split.
    - rewrite map_app. apply nodup_app.
      + rewrite map_map. cbn [fst].
        assert (E : map (fun p : list nat * T => idx ++ fst p) (combine (indices trail) vals) =
                    map (app idx) (map fst (combine (indices trail) vals))) by (rewrite map_map; reflexivity).
        rewrite E. apply map_inj_NoDup; [intros a b; apply app_inv_head|].
        clear. generalize (indices_NoDup trail). generalize (indices trail). intros l. revert vals.
        induction l as [|a l IHl]; intros vals Hl; [constructor|].
        destruct vals as [|v vals]; [constructor|]. apply NoDup_cons_iff in Hl as [Ha Hl].
        cbn [combine map fst]. constructor; [|apply IHl; exact Hl].
        intros C. apply Ha. apply in_map_iff in C as ([t w] & <- & Hp). apply in_combine_l in Hp. exact Hp.
      + exact N1.
      + intros k Hk1 Hk2. rewrite map_map in Hk1. cbn [fst] in Hk1.
        apply in_map_iff in Hk1 as ([t v] & <- & Hp). cbn [fst] in *.
        apply in_map_iff in Hk2 as (c & Ec & Hc). destruct (N2 c Hc) as (p & t' & Hp' & Efc & Ht').
        rewrite Efc in Ec.
        assert (L1 : length idx = length qshape) by (apply indices_length_elem; apply (Hw (idx, x)); left; reflexivity).
        assert (L2 : length (fst p) = length qshape) by (apply indices_length_elem; apply Hw; right; exact Hp').
        assert (E1 : fst p = idx).
        { apply (f_equal (firstn (length qshape))) in Ec.
          rewrite <- L2 in Ec at 1. rewrite <- L1 in Ec. rewrite !firstn_app, !firstn_all, !Nat.sub_diag in Ec.
          cbn in Ec. rewrite !app_nil_r in Ec. exact Ec. }
        apply Hni. rewrite <- E1. apply in_map. exact Hp'.
    - intros c Hc. apply in_app_or in Hc as [Hc|Hc].
      + apply in_map_iff in Hc as ([t v] & <- & Hp). exists (idx, x), t. cbn [fst].
        split; [left; reflexivity|]. split; [reflexivity|]. apply in_combine_l in Hp. exact Hp.
      + destruct (N2 c Hc) as (p & t & Hp & E & Ht). exists p, t. split; [right; exact Hp|auto].
  Qed.

  (* C14 (fill) / C09 (pointwise) / C13 (any valid strides): after a successful call, the cell
     of the buffer at logical index (query index ++ lane index) holds exactly what the strategy
     computed for that query element and lane -- whatever the offset and strides, as long as
     the view addresses distinct cells for distinct indices *)
  Theorem interp_array_into_fill qshape qs buffer m m' :
    length (v_shape buffer) = length (v_strides buffer) -> injective_view buffer ->
    length qs = length (indices qshape) ->
    interp_array_into F trail qshape qs buffer m = Ok m' ->
    forall c, In c (batch_cells (combine (indices qshape) qs)) -> m' (addr buffer (fst c)) = snd c.
  Proof.
    intros Hl Hinj Hq H c Hc. unfold interp_array_into in H.
    destruct (list_eqb Nat.eqb (qshape ++ trail) (v_shape buffer)) eqn:E; cbn [negb] in H; [|discriminate].
    assert (Hs : v_shape buffer = qshape ++ trail) by (symmetry; apply list_eqb_nat_eq; exact E).
    set (work := combine (indices qshape) qs) in *.
    assert (Hw : forall p, In p work -> In (fst p) (indices qshape)).
    { intros [pi px] Hp. apply in_combine_l in Hp. exact Hp. }
    assert (Hnd : NoDup (map fst work)).
    { unfold work. clear -Hq. generalize (indices_NoDup qshape). revert Hq.
      generalize (indices qshape). intros l. revert qs. induction l as [|a l IHl]; intros qs Hq Hl; [constructor|].
      destruct qs as [|q qs]; [discriminate|]. apply NoDup_cons_iff in Hl as [Ha Hl].
      cbn [combine map fst]. constructor; [|apply IHl; [cbn in Hq; lia|exact Hl]].
      intros C. apply Ha. apply in_map_iff in C as ([t w] & <- & Hp). apply in_combine_l in Hp. exact Hp. }
    destruct (batch_cells_keys_NoDup qshape work Hnd Hw) as [N1 N2].
    rewrite (array_loop_writes _ _ _ _ H).
    rewrite (batch_writes_cells buffer qshape work Hs Hl Hw).
    apply apply_writes_read.
    - rewrite map_map. cbn [fst].
      assert (Em : map (fun x : list nat * T => addr buffer (fst x)) (batch_cells work) =
                   map (addr buffer) (map fst (batch_cells work))) by (rewrite map_map; reflexivity).
      rewrite Em. clear Em.
      assert (Hin : forall k, In k (map fst (batch_cells work)) -> In k (indices (v_shape buffer))).
      { intros k Hk. apply in_map_iff in Hk as (c0 & <- & Hc0).
        destruct (N2 c0 Hc0) as (p & t & Hp & -> & Ht). rewrite Hs. apply indices_app; auto. }
      revert N1 Hin. generalize (map fst (batch_cells work)). intros l.
      induction l as [|a l IHl]; intros Nl Hin; [constructor|].
      apply NoDup_cons_iff in Nl as [Na Nl]. cbn [map]. constructor.
      + intros C. apply in_map_iff in C as (b & Eb & Hb).
        assert (b = a) by (apply Hinj; [apply Hin; right; exact Hb|apply Hin; left; reflexivity|exact Eb]).
        subst b. contradiction.
      + apply IHl; [exact Nl|]. intros k Hk. apply Hin. right. exact Hk.
    - apply in_map_iff. exists c. split; [reflexivity|exact Hc].
  Qed.

  (* C13 corollary: two valid views of the same shape end with the same logical content *)
  Theorem result_layout_free qshape qs b1 b2 m1 m2 m1' m2' :
    length (v_shape b1) = length (v_strides b1) -> injective_view b1 ->
    length (v_shape b2) = length (v_strides b2) -> injective_view b2 ->
    length qs = length (indices qshape) ->
    interp_array_into F trail qshape qs b1 m1 = Ok m1' ->
    interp_array_into F trail qshape qs b2 m2 = Ok m2' ->
    forall c, In c (batch_cells (combine (indices qshape) qs)) ->
      m1' (addr b1 (fst c)) = m2' (addr b2 (fst c)).
  Proof.
    intros. rewrite (interp_array_into_fill qshape qs b1 m1 m1') by assumption.
    rewrite (interp_array_into_fill qshape qs b2 m2 m2') by assumption. reflexivity.
  Qed.


  (* ---- acceptance depends on the shape only ---- *)

  Lemma sub_view_shape_gen idx : forall off shape strides,
    length shape = length strides ->
    v_shape (sub_view_at off shape strides idx) = skipn (length idx) shape.
  Proof.
    induction idx as [|i is IH]; intros off shape strides H2; [destruct shape, strides; reflexivity|].
    destruct shape as [|s sh]; destruct strides as [|st ss]; try (cbn in H2; lia); [reflexivity|].
    cbn [sub_view_at length skipn]. apply IH. cbn in H2. lia.
  Qed.

  Lemma array_loop_outcome_layout_free b1 b2 work : forall (m1 m2 : mem),
    v_shape b1 = v_shape b2 ->
    length (v_shape b1) = length (v_strides b1) -> length (v_shape b2) = length (v_strides b2) ->
    match array_loop F trail b1 work m1, array_loop F trail b2 work m2 with
    | Ok _, Ok _ | ErrOOB, ErrOOB | Panic, Panic | OutOfFuel, OutOfFuel => True
    | ErrBuild j, ErrBuild k => j = k
    | _, _ => False
    end.
  Proof.
    induction work as [|[idx x] rest IH]; intros m1 m2 Hs H1 H2; [exact I|].
    cbn [array_loop]. unfold strat_into.
    assert (E : v_shape (sub_view b1 idx) = v_shape (sub_view b2 idx)).
    { unfold sub_view. rewrite !sub_view_shape_gen by assumption. rewrite Hs. reflexivity. }
    rewrite E. destruct (F x) as [vals| |k| |]; try exact I; try reflexivity.
    destruct (list_eqb Nat.eqb (v_shape (sub_view b2 idx)) trail); [|exact I].
    apply IH; assumption.
  Qed.

  Theorem outcome_layout_free qshape qs b1 b2 (m1 m2 : mem) :
    v_shape b1 = v_shape b2 ->
    length (v_shape b1) = length (v_strides b1) -> length (v_shape b2) = length (v_strides b2) ->
    match interp_array_into F trail qshape qs b1 m1, interp_array_into F trail qshape qs b2 m2 with
    | Ok _, Ok _ | ErrOOB, ErrOOB | Panic, Panic | OutOfFuel, OutOfFuel => True
    | ErrBuild j, ErrBuild k => j = k
    | _, _ => False
    end.
  Proof.
    intros Hs H1 H2. unfold interp_array_into. rewrite Hs.
    destruct (list_eqb Nat.eqb (qshape ++ trail) (v_shape b2)); cbn [negb]; [|exact I].
    apply array_loop_outcome_layout_free; assumption.
  Qed.

  Theorem interp_array_shape (z : T) qshape qs sh vals :
    interp_array F trail z qshape qs = Ok (sh, vals) -> sh = qshape ++ trail.
  Proof.
    unfold interp_array, omap, bind.
    destruct (interp_array_into F trail qshape qs (fresh_view (qshape ++ trail)) (zeros_mem z)); try discriminate.
    intros H. injection H as <- _. reflexivity.
  Qed.

End EntryProofs.

(* the freshly allocated C-ordered array is a valid (injective) view *)
Lemma c_addr_bounds shape : forall idx, In idx (indices shape) ->
  (0 <= addr_of 0 (c_strides shape) idx < Z.of_nat (size_of shape))%Z.
Proof.
  induction shape as [|n r IH]; intros idx H.
  - destruct H as [<-|[]]. cbn. lia.
  - cbn [indices] in H. apply in_flat_map in H as (i & Hi & H). apply in_map_iff in H as (t & <- & Ht).
    apply in_seq in Hi. cbn [c_strides addr_of size_of]. specialize (IH t Ht).
    assert (G : forall o ss ii, addr_of o ss ii = (o + addr_of 0 ss ii)%Z).
    { clear. intros o ss. revert o. induction ss as [|s ss IHs]; intros o [|i ii]; cbn [addr_of]; try lia.
      rewrite (IHs (o + s * Z.of_nat i)%Z), (IHs (0 + s * Z.of_nat i)%Z). lia. }
    rewrite G. nia.
Qed.

Lemma addr_of_shift o ss ii : addr_of o ss ii = (o + addr_of 0 ss ii)%Z.
Proof.
  revert o ii. induction ss as [|s ss IHs]; intros o [|i ii]; cbn [addr_of]; try lia.
  rewrite (IHs (o + s * Z.of_nat i)%Z), (IHs (0 + s * Z.of_nat i)%Z). lia.
Qed.

Lemma fresh_view_valid shape :
  injective_view (fresh_view shape) /\
  length (v_shape (fresh_view shape)) = length (v_strides (fresh_view shape)).
Proof.
  split.
  - unfold injective_view, fresh_view, addr. cbn [v_off v_shape v_strides].
    induction shape as [|n r IH]; intros i j Hi Hj E.
    + destruct Hi as [<-|[]]. destruct Hj as [<-|[]]. reflexivity.
    + cbn [indices] in Hi, Hj.
      apply in_flat_map in Hi as (a & Ha & Hi). apply in_map_iff in Hi as (ta & <- & Hta).
      apply in_flat_map in Hj as (b & Hb & Hj). apply in_map_iff in Hj as (tb & <- & Htb).
      cbn [c_strides addr_of] in E.
      rewrite (addr_of_shift (0 + _)%Z), (addr_of_shift (0 + Z.of_nat (size_of r) * Z.of_nat b)%Z) in E.
      pose proof (c_addr_bounds r ta Hta) as Ba. pose proof (c_addr_bounds r tb Htb) as Bb.
      assert (a = b) by nia. subst b. f_equal. apply IH; auto. lia.
  - unfold fresh_view. cbn [v_shape v_strides]. induction shape as [|n r IH]; cbn; auto.
Qed.
