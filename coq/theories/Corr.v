(* Corr.v -- executable comparison functions used by the correspondence check.
   The Rust harness writes case files (inputs and the implementation's outputs as
   literals); the functions below run the model on the inputs and compare, so that the
   only thing Coq prints is the list of failing case numbers.                         *)

From Coq Require Import List ZArith QArith Qcanon Bool Lia.
From NI Require Export Num Base Mono Lookup Linear Interp Spline Scenario.
Import ListNotations.

Definition failing {A} (f : A -> bool) (cs : list (Z * A)) : list Z :=
  map fst (filter (fun c => negb (f (snd c))) cs).

(* ---------------- C12 ---------------- *)

Definition c12_ok (c : list xq * mono) : bool :=
  match monotonic_prop NumXQ (fst c) with
  | Ok m => mono_eqb m (snd c)
  | _ => false
  end.

(* all vectors realising a sequence of n pair relations, starting at 0 with steps +1/0/-1 *)
Fixpoint rel_vectors (n : nat) : list (list Z) :=
  match n with
  | O => [[0%Z]]
  | S k =>
      flat_map (fun v => match v with
                         | [] => []
                         | h :: _ => [ (h + 1)%Z :: v ; h :: v ; (h - 1)%Z :: v ]
                         end) (rel_vectors k)
  end.

Definition mono_code (m : mono) : nat :=
  match m with
  | Rising true => 0 | Rising false => 1 | Falling true => 2 | Falling false => 3
  | NotMono => 4
  end.

Definition bump (i : nat) (h : list Z) : list Z :=
  firstn i h ++ match nth_error h i with Some c => [(c + 1)%Z] | None => [] end ++ skipn (S i) h.

(* histogram of the model's classification over every relation sequence of n pairs;
   vectors are built back to front, so reverse them first *)
Definition model_hist (n : nat) : list Z :=
  fold_left (fun h v =>
               match monotonic_prop NumZ (rev v) with
               | Ok m => bump (mono_code m) h
               | _ => h
               end) (rel_vectors n) [0; 0; 0; 0; 0]%Z.

Definition c12_hist_ok (c : nat * list Z) : bool :=
  list_eqb Z.eqb (model_hist (fst c)) (snd c).

(* ---------------- C11 ---------------- *)

Definition res_code (o : outcome nat) : Z :=
  match o with Ok i => Z.of_nat i | _ => (-1)%Z end.

Definition c11_ok_xq (c : list xq * list xq * list Z) : bool :=
  let '(ax, qs, expected) := c in
  list_eqb Z.eqb (map (fun q => res_code (lower_index NumXQ ax q)) qs) expected.

Definition c11_ok_z (c : list Z * list Z * list Z) : bool :=
  let '(ax, qs, expected) := c in
  list_eqb Z.eqb (map (fun q => res_code (lower_index NumZ ax q)) qs) expected.
