(* Corr.v -- executable comparison functions used by the correspondence check.
   The Rust harness writes case files (inputs and the implementation's outputs as
   literals); the functions below run the model on the inputs and compare, so that the
   only thing Coq prints is the list of failing case numbers.                         *)

From Coq Require Import List ZArith QArith Qcanon Bool Lia.
From NI Require Export Num Base Mono Lookup Linear Interp Spline Scenario.
Import ListNotations.

Definition failing {A} (f : A -> bool) (cs : list (Z * A)) : list Z :=
  map fst (filter (fun c => negb (f (snd c))) cs).

(* ---------------- C12 ---------------- *)

Definition c12_ok (c : list xq * mono) : bool :=
  match monotonic_prop NumXQ (fst c) with
  | Ok m => mono_eqb m (snd c)
  | _ => false
  end.

(* all vectors realising a sequence of n pair relations, starting at 0 with steps +1/0/-1 *)
Fixpoint rel_vectors (n : nat) : list (list Z) :=
  match n with
  | O => [[0%Z]]
  | S k =>
      flat_map (fun v => match v with
                         | [] => []
                         | h :: _ => [ (h + 1)%Z :: v ; h :: v ; (h - 1)%Z :: v ]
                         end) (rel_vectors k)
  end.

Definition mono_code (m : mono) : nat :=
  match m with
  | Rising true => 0 | Rising false => 1 | Falling true => 2 | Falling false => 3
  | NotMono => 4
  end.

Definition bump (i : nat) (h : list Z) : list Z :=
  firstn i h ++ match nth_error h i with Some c => [(c + 1)%Z] | None => [] end ++ skipn (S i) h.

(* histogram of the model's classification over every relation sequence of n pairs;
   vectors are built back to front, so reverse them first *)
Definition model_hist (n : nat) : list Z :=
  fold_left (fun h v =>
               match monotonic_prop NumZ (rev v) with
               | Ok m => bump (mono_code m) h
               | _ => h
               end) (rel_vectors n) [0; 0; 0; 0; 0]%Z.

Definition c12_hist_ok (c : nat * list Z) : bool :=
  list_eqb Z.eqb (model_hist (fst c)) (snd c).

(* ---------------- C11 ---------------- *)

Definition res_code (o : outcome nat) : Z :=
  match o with Ok i => Z.of_nat i | _ => (-1)%Z end.

Definition c11_ok_xq (c : list xq * list xq * list Z) : bool :=
  let '(ax, qs, expected) := c in
  list_eqb Z.eqb (map (fun q => res_code (lower_index NumXQ ax q)) qs) expected.

Definition c11_ok_z (c : list Z * list Z * list Z) : bool :=
  let '(ax, qs, expected) := c in
  list_eqb Z.eqb (map (fun q => res_code (lower_index NumZ ax q)) qs) expected.

Definition c12_ok_z (c : list Z * mono) : bool :=
  match monotonic_prop NumZ (fst c) with
  | Ok m => mono_eqb m (snd c)
  | _ => false
  end.

(* ---------------- C09 / C13 / C14: entry points over strided memory ---------------- *)
From NI Require Export Entry.

Definition scen1_fun {T} (N : Num T) (s : scen1 T) : option (T -> outcome (list T)) :=
  let n := length (s_rows s) in
  let ax := axis_or_default N (s_ax s) n in
  match s_strat s with
  | SLinear =>
      match build1d_checks N 2 ax n with
      | Ok _ => Some (fun q => linear_interp N (s_ext s) ax (s_rows s) q)
      | _ => None
      end
  | SSpline b =>
      match (_ <- build1d_checks N 3 ax n ;; spline_build N b (s_ext s) ax (s_rows s) (s_trail s)) with
      | Ok sp => Some (fun q => spline_interp N sp ax (s_rows s) q)
      | _ => None
      end
  end.

(* the allocation is poisoned with -(1000 + address) *)
Definition poison_mem : @mem xq := fun a => XFin (Q2Qc (- (1000 + a) # 1)).

Definition entry1_ok
  (c : scen1 xq * list nat * (Z * list nat * list Z) * nat * (Z * list xq)) : bool :=
  let '(s, qshape, (off, shape, strides), B, (code, memexp)) := c in
  match scen1_fun NumXQ s with
  | None => false
  | Some F =>
      match interp_array_into F (s_trail s) qshape (s_queries s) (mkView off shape strides) poison_mem with
      | Ok m' => Z.eqb code 0 && list_eqb xq_same (map m' (map Z.of_nat (seq 0 B))) memexp
      | ErrOOB => Z.eqb code 1
      | Panic => Z.eqb code 2
      | _ => false
      end
  end.

(* ---------------- C18: trace of strategy calls ---------------- *)
From NI Require Export Framework.

Definition c18_ok (c : list nat * list nat * list Z * Z * list Z * Z) : bool :=
  let '(trail, qshape, qs, failv, calls, code) := c in
  let lanes := size_of trail in
  let F := fun x : Z => if Z.eqb x failv then @ErrOOB (list Z) else Ok (repeat x lanes) in
  let buffer := fresh_view (qshape ++ trail) in
  let work := combine (indices qshape) qs in
  list_eqb Z.eqb (map fst (loop_calls F trail buffer work)) calls &&
  forallb (fun p => list_eqb Nat.eqb (snd p) trail) (loop_calls F trail buffer work) &&
  match array_loop F trail buffer work (fun _ => 0%Z) with
  | Ok _ => Z.eqb code 0
  | ErrOOB => Z.eqb code 1
  | _ => false
  end.
