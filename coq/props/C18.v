(* C18 -- Custom strategies get validated inputs, correct targets, faithful accessors.
   For EVERY strategy: its build result [sb] and its interp_into [F] are arbitrary.       *)
From Coq Require Import List Bool Arith ZArith.
From NI Require Import Num Base Mono MonoProofs Lookup Linear Interp BuildProofs LinearProofs Entry EntryProofs Framework.
Import ListNotations.
Local Open Scope nat_scope.

Theorem C18_strategy_build_only_on_valid_1d :
  forall (T : Type) (N : Num T) (S : Type) (min : nat) (ax : list T) (n : nat) (sb : outcome S),
    fst (build1d_with N S min ax n sb) = true <-> (min <= n /\ strictly_rising N ax /\ length ax = n).
Proof. exact @strategy_build_only_on_valid_1d. Qed.
Print Assumptions C18_strategy_build_only_on_valid_1d.

Theorem C18_strategy_build_only_on_valid_2d :
  forall (T : Type) (N : Num T) (S : Type) (min : nat) (xax yax : list T) (nx ny : nat) (sb : outcome S),
    fst (build2d_with N S min xax yax nx ny sb) = true <->
    (min <= nx /\ min <= ny /\ length xax = nx /\ length yax = ny /\
     strictly_rising N xax /\ strictly_rising N yax).
Proof. exact @strategy_build_only_on_valid_2d. Qed.
Print Assumptions C18_strategy_build_only_on_valid_2d.

Theorem C18_strategy_build_result_unchanged :
  forall (T : Type) (N : Num T) (S : Type) (min : nat) (ax : list T) (n : nat) (sb : outcome S),
    fst (build1d_with N S min ax n sb) = true -> snd (build1d_with N S min ax n sb) = sb.
Proof. exact @strategy_build_result_unchanged. Qed.
Print Assumptions C18_strategy_build_result_unchanged.

(* interp_into receives exactly the query values, unmodified, in row-major order, each with a
   target of shape data-shape-minus-interpolated-axes, and nothing after its first error *)
Theorem C18_strategy_calls_trace :
  forall (T : Type) (F : T -> outcome (list T)) (trail : list nat) (buffer : view) (qshape : list nat) (qs : list T),
    v_shape buffer = qshape ++ trail -> length (v_shape buffer) = length (v_strides buffer) ->
    length qs = length (indices qshape) ->
    loop_calls F trail buffer (combine (indices qshape) qs) = map (fun x => (x, trail)) (until_fail F qs).
Proof. exact @strategy_calls_trace. Qed.
Print Assumptions C18_strategy_calls_trace.

(* the batch is Ok iff every call was, otherwise the first failing call's outcome, unchanged *)
Theorem C18_strategy_error_propagates :
  forall (T : Type) (F : T -> outcome (list T)) (trail : list nat) (buffer : view) work (m : @mem T),
    (forall p, In p work -> v_shape (sub_view buffer (fst p)) = trail) ->
    match array_loop F trail buffer work m with
    | Ok _ => forall p, In p work -> exists vals, F (snd p) = Ok vals
    | e => exists p, In p work /\
             match F (snd p), e with
             | ErrOOB, ErrOOB | Panic, Panic | OutOfFuel, OutOfFuel => True
             | ErrBuild j, ErrBuild k => j = k
             | _, _ => False
             end
    end.
Proof. exact @strategy_error_propagates. Qed.
Print Assumptions C18_strategy_error_propagates.

Theorem C18_accessors_faithful :   (* is_in_range is the closed-range test *)
  forall (T : Type) (N : Num T) (d : T) (ax : list T) (x : T), 1 <= length ax ->
    is_in_range N ax x = Ok (in_closed_range N d ax x).
Proof. exact @accessors_faithful. Qed.
Print Assumptions C18_accessors_faithful.

(* index_point(i) = (axis[i], data[i]) and get_index_left_of = get_lower_index are definitional
   in the model (idx / lower_index) and observed through a recording strategy on every run. *)
