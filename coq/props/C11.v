(* C11 -- Segment lookup returns the bracketing interval for every axis and query. *)
From Coq Require Import List Bool Arith ZArith QArith Qcanon.
From Coq Require Import Reals.
From Flocq Require Import Core.
From NI Require Import Num Base Lookup LookupProofs FloatRound FloatLinear.
Import ListNotations.
Local Open Scope nat_scope.

(* any element type with order laws on its valid (non-NaN) elements; any guess inside the
   vector: the lookup returns Ok i (never panics, never the last index) with the bracket *)
Theorem C11_lower_index_spec :
  forall (T : Type) (N : Num T) (valid : T -> Prop), OrderLaws N valid ->
  forall (d : T) (gf : list T -> T -> T -> T -> option Z) (ax : list T) (x : T),
    StrictInc N valid d ax -> 2 <= length ax -> valid x ->
    (below_first N d ax x = false -> above_last N d ax x = false -> guess_ok d gf ax x) ->
    exists i, lower_index_g N gf ax x = Ok i /\ i + 2 <= length ax /\
      (leb N x (nth 0 ax d) = true -> i = 0) /\
      (leb N x (nth 0 ax d) = false -> leb N (nth (length ax - 1) ax d) x = true ->
         i = length ax - 2) /\
      (leb N x (nth 0 ax d) = false -> leb N (nth (length ax - 1) ax d) x = false ->
         leb N (nth i ax d) x = true /\ ltb N x (nth (i + 1) ax d) = true).
Proof. exact @lower_index_spec. Qed.
Print Assumptions C11_lower_index_spec.

Theorem C11_bracket_unique :
  forall (T : Type) (N : Num T) (valid : T -> Prop), OrderLaws N valid ->
  forall (d : T) (ax : list T) (x : T) (i j : nat),
    StrictInc N valid d ax -> valid x -> bracket N d ax x i -> bracket N d ax x j -> i = j.
Proof. exact @bracket_unique. Qed.
Print Assumptions C11_bracket_unique.

(* the result does not depend on the O(1) guess -- hence not on how it was rounded *)
Theorem C11_lower_index_guess_irrelevant :
  forall (T : Type) (N : Num T) (valid : T -> Prop), OrderLaws N valid ->
  forall (d : T) (g1 g2 : list T -> T -> T -> T -> option Z) (ax : list T) (x : T),
    StrictInc N valid d ax -> 2 <= length ax -> valid x ->
    (below_first N d ax x = false -> above_last N d ax x = false ->
       guess_ok d g1 ax x /\ guess_ok d g2 ax x) ->
    lower_index_g N g1 ax x = lower_index_g N g2 ax x.
Proof. exact @lower_index_guess_irrelevant. Qed.
Print Assumptions C11_lower_index_guess_irrelevant.

(* the guess hypothesis discharged: exact rationals, integers, extended rationals *)
Theorem C11_lower_index_Qc :
  forall (ax : list Qc) (x : Qc),
    StrictIncQc ax -> 2 <= length ax -> (Z.of_nat (length ax) <= two64)%Z ->
    exists i, lower_index NumQc ax x = Ok i /\ i + 2 <= length ax /\
      ((this x <= this (nth 0 ax 0%Qc))%Q -> i = 0) /\
      ((this (nth 0 ax 0%Qc) < this x)%Q -> (this (nth (length ax - 1) ax 0%Qc) <= this x)%Q ->
         i = length ax - 2) /\
      ((this (nth 0 ax 0%Qc) < this x)%Q -> (this x < this (nth (length ax - 1) ax 0%Qc))%Q ->
         (this (nth i ax 0%Qc) <= this x)%Q /\ (this x < this (nth (i + 1) ax 0%Qc))%Q).
Proof. exact lower_index_Qc. Qed.
Print Assumptions C11_lower_index_Qc.

Theorem C11_lower_index_Z :
  forall (ax : list Z) (x : Z),
    StrictInc NumZ (fun _ => True) 0%Z ax -> 2 <= length ax ->
    exists i, lower_index NumZ ax x = Ok i /\ i + 2 <= length ax /\
      ((x <= nth 0 ax 0)%Z -> i = 0) /\
      ((nth 0 ax 0 < x)%Z -> (nth (length ax - 1) ax 0 <= x)%Z -> i = length ax - 2) /\
      ((nth 0 ax 0 < x)%Z -> (x < nth (length ax - 1) ax 0)%Z ->
         (nth i ax 0 <= x)%Z /\ (x < nth (i + 1) ax 0)%Z).
Proof. exact lower_index_Z. Qed.
Print Assumptions C11_lower_index_Z.

(* +-infinity queries on a finite axis *)
Theorem C11_lower_index_XQ :
  forall (ax : list Qc) (x : xq),
    StrictIncQc ax -> 2 <= length ax -> (Z.of_nat (length ax) <= two64)%Z -> x <> XNaN ->
    exists i, lower_index NumXQ (map XFin ax) x = Ok i /\ i + 2 <= length ax /\
      (leb NumXQ x (XFin (nth 0 ax 0%Qc)) = true -> i = 0) /\
      (leb NumXQ x (XFin (nth 0 ax 0%Qc)) = false ->
       leb NumXQ (XFin (nth (length ax - 1) ax 0%Qc)) x = true -> i = length ax - 2) /\
      (leb NumXQ x (XFin (nth 0 ax 0%Qc)) = false ->
       leb NumXQ (XFin (nth (length ax - 1) ax 0%Qc)) x = false ->
         leb NumXQ (XFin (nth i ax 0%Qc)) x = true /\
         ltb NumXQ x (XFin (nth (i + 1) ax 0%Qc)) = true).
Proof. exact lower_index_XQ. Qed.
Print Assumptions C11_lower_index_XQ.

(* binary floats: the O(1) guess, computed with correctly rounded operations, truncates to a valid
   index whenever 7 u (len - 1) <= 1 (binary64: up to 2^50 knots) and no intermediate underflows, so
   the lookup does not panic and returns the bracketing interval *)
Theorem C11_float_lookup :
  forall (prec emin : Z) (prec_gt_0_ : FLX.Prec_gt_0 prec), (11 <= prec)%Z ->
  forall (remR powR : R -> R -> R) (ax : list R) (x : R),
    StrictIncF prec emin remR powR ax -> 2 <= length ax ->
    (7 * uu prec * INR (length ax - 1) <= 1)%R -> (INR (length ax) <= IZR two64)%R ->
    ((nth 0 ax 0 < x)%R -> (x < nth (length ax - 1) ax 0)%R ->
       cf_no_underflow prec emin 0%R (INR (length ax - 1)) (nth 0 ax 0%R) (nth (length ax - 1) ax 0%R) x) ->
    exists i, lower_index (NumF prec emin remR powR) ax x = Ok i /\ i + 2 <= length ax /\
      ((x <= nth 0 ax 0)%R -> i = 0) /\
      ((nth 0 ax 0 < x)%R -> (nth (length ax - 1) ax 0 <= x)%R -> i = length ax - 2) /\
      ((nth 0 ax 0 < x)%R -> (x < nth (length ax - 1) ax 0)%R -> (nth i ax 0 <= x < nth (i + 1) ax 0)%R).
Proof. exact lower_index_float. Qed.
Print Assumptions C11_float_lookup.

Example C11_ex :
  lower_index NumQc [qc 0 1; qc 1 1; qc 10 1; qc 100 1] (qc 50 1) = Ok 2 /\
  lower_index NumXQ [XFin (qc 0 1); XFin (qc 1 1); XFin (qc 10 1)] XPInf = Ok 1 /\
  lower_index NumZ [0; 5; 6; 100]%Z 6%Z = Ok 2.
Proof. repeat split; vm_compute; reflexivity. Qed.
