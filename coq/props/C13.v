(* C13 -- Results do not depend on the memory layout or ownership of any array argument. *)
From Coq Require Import List Bool Arith ZArith.
From NI Require Import Num Base Entry EntryProofs.
Import ListNotations.

(* output buffers: for EVERY offset and stride vector that addresses distinct cells for distinct
   indices, a correctly shaped buffer is accepted and ends with the same logical content *)
Theorem C13_result_layout_free :
  forall (T : Type) (F : T -> outcome (list T)) (trail qshape : list nat) (qs : list T)
         (b1 b2 : view) (m1 m2 m1' m2' : @mem T),
    length (v_shape b1) = length (v_strides b1) -> injective_view b1 ->
    length (v_shape b2) = length (v_strides b2) -> injective_view b2 ->
    length qs = length (indices qshape) ->
    interp_array_into F trail qshape qs b1 m1 = Ok m1' ->
    interp_array_into F trail qshape qs b2 m2 = Ok m2' ->
    forall c, In c (batch_cells F trail (combine (indices qshape) qs)) ->
      m1' (addr b1 (fst c)) = m2' (addr b2 (fst c)).
Proof. exact @result_layout_free. Qed.
Print Assumptions C13_result_layout_free.

(* acceptance depends on the shape only: the outcome of the call is computed from F, the query
   and v_shape buffer -- offset and strides never influence Ok / Err / Panic *)
Theorem C13_outcome_depends_on_shape_only :
  forall (T : Type) (F : T -> outcome (list T)) (trail qshape : list nat) (qs : list T)
         (b1 b2 : view) (m1 m2 : @mem T),
    v_shape b1 = v_shape b2 ->
    length (v_shape b1) = length (v_strides b1) -> length (v_shape b2) = length (v_strides b2) ->
    match interp_array_into F trail qshape qs b1 m1, interp_array_into F trail qshape qs b2 m2 with
    | Ok _, Ok _ | ErrOOB, ErrOOB | Panic, Panic | OutOfFuel, OutOfFuel => True
    | ErrBuild j, ErrBuild k => j = k
    | _, _ => False
    end.
Proof. exact @outcome_layout_free. Qed.
Print Assumptions C13_outcome_depends_on_shape_only.

(* Partial: the inputs (data, axes, query arrays) are logical arrays in the model, so their
   layout independence is a property of ndarray's indexing (index_axis, Zip, indexed_iter),
   carried by the correspondence: every layout of data / axis / query is compared bitwise with
   the owned C-order call on every run. *)

Example C13_ex :  (* C order and Fortran order buffers hold the same logical result *)
  let F := fun x : Z => Ok [x; (x * 2)%Z; (x * 3)%Z] in
  match interp_array_into F [3] [2] [1%Z; 5%Z] (mkView 0%Z [2; 3] [3%Z; 1%Z]) (fun _ => 0%Z),
        interp_array_into F [3] [2] [1%Z; 5%Z] (mkView 0%Z [2; 3] [1%Z; 2%Z]) (fun _ => 0%Z) with
  | Ok m1, Ok m2 => (m1 (addr (mkView 0%Z [2; 3] [3%Z; 1%Z]) [1; 2]), m2 (addr (mkView 0%Z [2; 3] [1%Z; 2%Z]) [1; 2]))
  | _, _ => (0%Z, 1%Z)
  end = (15%Z, 15%Z).
Proof. vm_compute. reflexivity. Qed.
