(* C13 -- Results do not depend on the memory layout or ownership of any array argument. *)
From Coq Require Import List Bool Arith ZArith.
From NI Require Import Num Base Entry EntryProofs InputLayout.
Import ListNotations.

(* output buffers: for EVERY offset and stride vector that addresses distinct cells for distinct
   indices, a correctly shaped buffer is accepted and ends with the same logical content *)
Theorem C13_result_layout_free :
  forall (T : Type) (F : T -> outcome (list T)) (trail qshape : list nat) (qs : list T)
         (b1 b2 : view) (m1 m2 m1' m2' : @mem T),
    length (v_shape b1) = length (v_strides b1) -> injective_view b1 ->
    length (v_shape b2) = length (v_strides b2) -> injective_view b2 ->
    length qs = length (indices qshape) ->
    interp_array_into F trail qshape qs b1 m1 = Ok m1' ->
    interp_array_into F trail qshape qs b2 m2 = Ok m2' ->
    forall c, In c (batch_cells F trail (combine (indices qshape) qs)) ->
      m1' (addr b1 (fst c)) = m2' (addr b2 (fst c)).
Proof. exact @result_layout_free. Qed.
Print Assumptions C13_result_layout_free.

(* acceptance depends on the shape only: the outcome of the call is computed from F, the query
   and v_shape buffer -- offset and strides never influence Ok / Err / Panic *)
Theorem C13_outcome_depends_on_shape_only :
  forall (T : Type) (F : T -> outcome (list T)) (trail qshape : list nat) (qs : list T)
         (b1 b2 : view) (m1 m2 : @mem T),
    v_shape b1 = v_shape b2 ->
    length (v_shape b1) = length (v_strides b1) -> length (v_shape b2) = length (v_strides b2) ->
    match interp_array_into F trail qshape qs b1 m1, interp_array_into F trail qshape qs b2 m2 with
    | Ok _, Ok _ | ErrOOB, ErrOOB | Panic, Panic | OutOfFuel, OutOfFuel => True
    | ErrBuild j, ErrBuild k => j = k
    | _, _ => False
    end.
Proof. exact @outcome_layout_free. Qed.
Print Assumptions C13_outcome_depends_on_shape_only.

(* query arrays: read through their own offset / strides in logical order; two query views of the same
   shape holding the same logical array give the same outcome and the same memory *)
Theorem C13_query_layout_free :
  forall (T : Type) (F : T -> outcome (list T)) (trail : list nat)
         (q1 q2 : view) (qm1 qm2 : @mem T) (buffer : view) (m : @mem T),
    v_shape q1 = v_shape q2 ->
    (forall idx, In idx (indices (v_shape q1)) -> qm1 (addr q1 idx) = qm2 (addr q2 idx)) ->
    interp_array_into_v F trail q1 qm1 buffer m = interp_array_into_v F trail q2 qm2 buffer m.
Proof. exact @query_layout_free. Qed.
Print Assumptions C13_query_layout_free.

(* Partial: that the CODE reads its data, axes and query arrays in logical order (index_axis, Zip,
   indexed_iter, never as_slice_memory_order) is carried by the correspondence: every layout of data /
   axis / query (x and y independently in 2-D) is compared bitwise with the owned C-order call on every
   run. *)

Example C13_ex :  (* C order and Fortran order buffers hold the same logical result *)
  let F := fun x : Z => Ok [x; (x * 2)%Z; (x * 3)%Z] in
  match interp_array_into F [3] [2] [1%Z; 5%Z] (mkView 0%Z [2; 3] [3%Z; 1%Z]) (fun _ => 0%Z),
        interp_array_into F [3] [2] [1%Z; 5%Z] (mkView 0%Z [2; 3] [1%Z; 2%Z]) (fun _ => 0%Z) with
  | Ok m1, Ok m2 => (m1 (addr (mkView 0%Z [2; 3] [3%Z; 1%Z]) [1; 2]), m2 (addr (mkView 0%Z [2; 3] [1%Z; 2%Z]) [1; 2]))
  | _, _ => (0%Z, 1%Z)
  end = (15%Z, 15%Z).
Proof. vm_compute. reflexivity. Qed.
