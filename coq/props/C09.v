(* C09 -- All query entry points agree and results have shape query ++ trailing data dims. *)
From Coq Require Import List Bool Arith ZArith.
From NI Require Import Num Base Entry EntryProofs.
Import ListNotations.

(* interp_array(q)[i... ++ t] = what the strategy computes for q[i...] at lane t: the value
   interp(q[i...]) returns there -- the same term, for every query rank incl. 0-d and empty *)
Theorem C09_interp_array_pointwise :
  forall (T : Type) (F : T -> outcome (list T)) (trail qshape : list nat) (qs : list T)
         (buffer : view) (m m' : @mem T),
    length (v_shape buffer) = length (v_strides buffer) -> injective_view buffer ->
    length qs = length (indices qshape) ->
    interp_array_into F trail qshape qs buffer m = Ok m' ->
    forall c, In c (batch_cells F trail (combine (indices qshape) qs)) -> m' (addr buffer (fst c)) = snd c.
Proof. exact @interp_array_into_fill. Qed.
Print Assumptions C09_interp_array_pointwise.

(* the allocating variant is the *_into variant on a fresh C-ordered buffer of shape
   query shape ++ trailing dims (by definition of the model, checked against the code); that
   buffer is a valid view *)
Theorem C09_fresh_view_injective :
  forall shape : list nat, injective_view (fresh_view shape) /\
    length (v_shape (fresh_view shape)) = length (v_strides (fresh_view shape)).
Proof. exact fresh_view_valid. Qed.
Print Assumptions C09_fresh_view_injective.

Theorem C09_result_shape :
  forall (T : Type) (F : T -> outcome (list T)) (trail : list nat) (z : T) (qshape : list nat) (qs : list T) sh vals,
    interp_array F trail z qshape qs = Ok (sh, vals) -> sh = qshape ++ trail.
Proof. exact @interp_array_shape. Qed.
Print Assumptions C09_result_shape.

(* the Ix1 fast path and the general per-index path are one and the same loop in the model
   (after the repair of the general path); their agreement on the implementation, and the
   type-level side of the fast path, is C19 *)
Theorem C09_error_is_first_failing_element :
  forall (T : Type) (F : T -> outcome (list T)) (trail : list nat) (buffer : view) work (m : @mem T),
    (forall p, In p work -> F (snd p) <> Panic /\ F (snd p) <> OutOfFuel) ->
    (forall idx, v_shape (sub_view buffer idx) = trail) ->
    (exists p, In p work /\ F (snd p) = ErrOOB) ->
    array_loop F trail buffer work m = ErrOOB \/ exists k, array_loop F trail buffer work m = ErrBuild k.
Proof. exact @array_loop_error_propagates. Qed.
Print Assumptions C09_error_is_first_failing_element.

Example C09_ex :
  interp_array (fun x : Z => Ok [x; (x + 100)%Z]) [2] 0%Z [2; 1] [7%Z; 9%Z] = Ok ([2; 1; 2], [7; 107; 9; 109]%Z).
Proof. vm_compute. reflexivity. Qed.
