(* C10 -- build() accepts exactly the valid inputs and reports the rest as BuilderError.
   Any element type; "strictly rising" is the builder's own test (monotonic_prop =
   Rising{strict}), which by C12 means every consecutive pair tested a < b (NaN-free). *)
From Coq Require Import List Bool Arith ZArith.
From NI Require Import Num Base Mono MonoProofs Lookup Linear Interp Spline BuildProofs.
Import ListNotations.
Local Open Scope nat_scope.

Theorem C10_build1d_ok_iff_valid :
  forall (T : Type) (N : Num T) (min : nat) (ax : list T) (n : nat),
    build1d_checks N min ax n = Ok tt <-> (min <= n /\ strictly_rising N ax /\ length ax = n).
Proof. exact @build1d_ok_iff_valid. Qed.
Print Assumptions C10_build1d_ok_iff_valid.

Theorem C10_build1d_err_kind_sound_never_panics :
  forall (T : Type) (N : Num T) (min : nat) (ax : list T) (n : nat),
    match build1d_checks N min ax n with
    | Ok _ => True
    | ErrBuild NotEnoughData => n < min
    | ErrBuild NotMonotonic => ~ strictly_rising N ax
    | ErrBuild ShapeError => length ax <> n
    | _ => False
    end.
Proof. exact @build1d_err_kind_sound. Qed.
Print Assumptions C10_build1d_err_kind_sound_never_panics.

Theorem C10_build2d_ok_iff_valid :
  forall (T : Type) (N : Num T) (min : nat) (xax yax : list T) (nx ny : nat),
    build2d_checks N min xax yax nx ny = Ok tt <->
    (min <= nx /\ min <= ny /\ length xax = nx /\ length yax = ny /\
     strictly_rising N xax /\ strictly_rising N yax).
Proof. exact @build2d_ok_iff_valid. Qed.
Print Assumptions C10_build2d_ok_iff_valid.

Theorem C10_build2d_err_kind_sound_never_panics :
  forall (T : Type) (N : Num T) (min : nat) (xax yax : list T) (nx ny : nat),
    match build2d_checks N min xax yax nx ny with
    | Ok _ => True
    | ErrBuild NotEnoughData => nx < min \/ ny < min
    | ErrBuild NotMonotonic => ~ strictly_rising N xax \/ ~ strictly_rising N yax
    | ErrBuild ShapeError => length xax <> nx \/ length yax <> ny
    | _ => False
    end.
Proof. exact @build2d_err_kind_sound. Qed.
Print Assumptions C10_build2d_err_kind_sound_never_panics.

Theorem C10_strictly_rising_is_nan_free :
  forall (T : Type) (N : Num T) (ax : list T),
    strictly_rising N ax -> 2 <= length ax /\ forallb (lt_test N) (pairs ax) = true.
Proof. exact @strictly_rising_all_lt. Qed.
Print Assumptions C10_strictly_rising_is_nan_free.

(* the spline's own build: ShapeError only for a boundary array of the wrong shape, ValueError
   only for Periodic data with different end rows, no other BuilderError *)
Theorem C10_spline_build_err_kinds :
  forall (T : Type) (N : Num T) (b : bc T) ext xs data trail,
    match spline_build N b ext xs data trail with
    | ErrBuild ShapeError =>
        exists pl sh, b = BIndividual pl sh /\ list_eqb Nat.eqb sh (1 :: trail) = false
    | ErrBuild ValueError =>
        b = BPeriodic /\ rows_differ N (nth 0 data []) (nth (length data - 1) data []) = true
    | ErrBuild _ => False
    | ErrOOB => False
    | _ => True
    end.
Proof. exact @spline_build_err_kinds. Qed.
Print Assumptions C10_spline_build_err_kinds.

(* The data-rank requirement (rank >= 1 resp. >= 2, read before any indexing after the repair
   of the constructors) is outside the list-of-rows model: it is checked on the implementation
   for dynamic-rank data of rank 0 and 1 on every run.  The spline solver's panics (model
   outcome Panic for n < 3 or mismatched axis) are unreachable after build1d_checks with
   min = 3: covered by the enumerated table, not stated as a theorem. *)

Example C10_ex :
  build1d_checks NumXQ 2 [XFin (qc 0 1); XNaN; XFin (qc 2 1)] 3 = ErrBuild NotMonotonic /\
  build1d_checks NumXQ 2 [XFin (qc 0 1); XFin (qc 1 1); XFin (qc 2 1)] 3 = Ok tt.
Proof. split; vm_compute; reflexivity. Qed.
