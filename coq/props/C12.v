(* C12 -- monotonic_prop classifies every vector correctly and never calls NaN data rising.
   This file only pins statements and prints the assumptions of each theorem.           *)
From Coq Require Import List Bool Arith ZArith QArith Qcanon.
From NI Require Import Num Base Mono MonoProofs.
Import ListNotations.

(* Classification of every vector whose consecutive pairs are ordered (exactly one of
   a<b, a==b, a>b holds: every NaN-free float or integer vector), for every element type
   and every length: the result is the declarative class of the property text. *)
Check @monotonic_prop_ordered :
  forall (T : Type) (N : Num T) (l : list T),
    Forall (ordered N) (pairs l) ->
    monotonic_prop N l = Ok (classify (map (rel_of N) (pairs l))).
Theorem C12_mono_class_spec :
  forall (T : Type) (N : Num T) (l : list T),
    Forall (ordered N) (pairs l) ->
    monotonic_prop N l = Ok (classify (map (rel_of N) (pairs l))).
Proof. exact @monotonic_prop_ordered. Qed.
Print Assumptions C12_mono_class_spec.

(* `classify` is the property text: *)
Check classify_spec :
  forall rs : list rel,
    (classify rs = Rising true <-> rs <> [] /\ forallb isLt rs = true) /\
    (classify rs = Rising false <->
       forallb isLe rs = true /\ existsb isLt rs = true /\ existsb isEq rs = true) /\
    (classify rs = Falling true <-> rs <> [] /\ forallb isGt rs = true) /\
    (classify rs = Falling false <->
       forallb isGe rs = true /\ existsb isGt rs = true /\ existsb isEq rs = true).
Theorem C12_classify_is_the_property_text :
  forall rs : list rel,
    (classify rs = Rising true <-> rs <> [] /\ forallb isLt rs = true) /\
    (classify rs = Rising false <->
       forallb isLe rs = true /\ existsb isLt rs = true /\ existsb isEq rs = true) /\
    (classify rs = Falling true <-> rs <> [] /\ forallb isGt rs = true) /\
    (classify rs = Falling false <->
       forallb isGe rs = true /\ existsb isGt rs = true /\ existsb isEq rs = true).
Proof. exact classify_spec. Qed.
Print Assumptions C12_classify_is_the_property_text.

(* No hypothesis at all (NaN, infinities, any comparison semantics): Rising is reported
   only if on every consecutive pair the test a<b or the test a==b succeeded -- a NaN
   anywhere in a vector of length >= 2 fails both on its pair.                          *)
Theorem C12_mono_nan_never_rising :
  forall (T : Type) (N : Num T) (l : list T) (st : bool),
    monotonic_prop N l = Ok (Rising st) -> forallb (le_test N) (pairs l) = true.
Proof. exact @mono_rising_all_le. Qed.
Print Assumptions C12_mono_nan_never_rising.

Theorem C12_strict_rising_all_lt :
  forall (T : Type) (N : Num T) (l : list T),
    monotonic_prop N l = Ok (Rising true) ->
    (2 <= length l)%nat /\ forallb (lt_test N) (pairs l) = true.
Proof. exact @mono_strict_rising_all_lt. Qed.
Print Assumptions C12_strict_rising_all_lt.

Theorem C12_never_panics :
  forall (T : Type) (N : Num T) (l : list T), exists m, monotonic_prop N l = Ok m.
Proof. exact @monotonic_prop_total. Qed.
Print Assumptions C12_never_panics.

(* non-vacuity: concrete vectors meeting the hypotheses, incl. NaN at the NumXQ instance *)
Example C12_ex_ordered :
  Forall (ordered NumZ) (pairs [1; 2; 2; 5]%Z) /\
  monotonic_prop NumZ [1; 2; 2; 5]%Z = Ok (Rising false).
Proof. split; [repeat constructor; vm_compute; tauto|reflexivity]. Qed.
Example C12_ex_nan :
  monotonic_prop NumXQ [XFin (qc 1 1); XNaN] = Ok (Falling true) /\
  monotonic_prop NumXQ [XFin (qc 1 1); XFin (qc 2 1); XNaN; XFin (qc 3 1)] = Ok NotMono.
Proof. split; vm_compute; reflexivity. Qed.
