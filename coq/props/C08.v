(* C08 -- Every lane of n-dimensional data is interpolated independently. *)
From Coq Require Import List Bool Arith ZArith QArith Qcanon.
From NI Require Import Num Base Lookup Linear Interp Spline Tri TriProofs SplineAlgebra LookupProofs LinearProofs SplineProofs Lanes SplineIndividual.
Import ListNotations.
Local Open Scope nat_scope.

(* Linear, any element type: the interpolator built from lane j alone returns lane j of the n-d
   result -- the same term, hence bit-identical *)
Theorem C08_linear_lanewise :
  forall (T : Type) (N : Num T) (d : T) ext ax (data : list (list T)) x j L,
    (forall i, i < length data -> length (nth i data []) = L) -> j < L ->
    length data = length ax ->
    linear_interp N ext ax (col j data) x = omap (fun v => [nth j v d]) (linear_interp N ext ax data x).
Proof. exact @linear_lanewise. Qed.
Print Assumptions C08_linear_lanewise.

Theorem C08_linear_other_lanes_irrelevant :   (* NaN / inf in other lanes included *)
  forall (T : Type) (N : Num T) (d : T) ext ax (data data' : list (list T)) x j L,
    (forall i, i < length data -> length (nth i data []) = L) ->
    (forall i, i < length data' -> length (nth i data' []) = L) -> j < L ->
    length data = length ax -> length data' = length ax ->
    col j data = col j data' ->
    omap (fun v => [nth j v d]) (linear_interp N ext ax data x) =
    omap (fun v => [nth j v d]) (linear_interp N ext ax data' x).
Proof. exact @linear_other_lanes_irrelevant. Qed.
Print Assumptions C08_linear_other_lanes_irrelevant.

(* spline solver, any element type: lane j of the lane-lifted Thomas algorithm is the scalar
   algorithm on lane j (shared pivots, per-lane right-hand sides) *)
Theorem C08_thomas_lanewise :
  forall (T : Type) (N : Num T) (d : T) (j L : nat) (rows : list (@trow T)),
    j < L -> rows_width L rows -> lane_vec d j (thomas N rows) = thomas1 N (lane_rows d j rows).
Proof. exact @thomas_lane. Qed.
Print Assumptions C08_thomas_lanewise.

(* spline build over exact rationals: the slopes of lane j of the n-d build are those of the
   1-D build of lane j alone (hence coefficients and values: C02's formulas mention lane j only) *)
Theorem C08_spline_build_lanewise :
  forall (xs : list Qc) (data : list (list Qc)) (L j : nat) l r K K1,
    j < L -> (forall i, i < length data -> length (nth i data []) = L) ->
    StrictIncQc xs -> length xs = length data -> 3 <= length data ->
    solve_for_k NumQc xs data (IMixed l r) = Ok K ->
    solve_for_k NumQc xs (col j data) (IMixed l r) = Ok K1 ->
    lane_vec 0%Qc j K = lane_vec 0%Qc 0 K1.
Proof. exact spline_solve_lanewise. Qed.
Print Assumptions C08_spline_build_lanewise.

(* Individual boundaries: lane j of the n-d interpolator is determined by lane j's own data, lane j's
   own boundary pair and the axis -- [sys_rows xs data j l r], [yq data j], [aq/bq xs data j] mention no
   other lane; the slopes are the UNIQUE solution of that system *)
Theorem C08_spline_individual_lanewise :
  forall (xs : list Qc) (data : list (list Qc)) (L : nat),
    (forall i, i < length data -> length (nth i data []) = L) ->
    StrictIncQc xs -> length xs = length data -> 3 <= length data ->
    (Z.of_nat (length data) <= two64)%Z -> 0 < L ->
    forall (per_lane : list (rowbc Qc)) (shape : list nat) (ext : bool) (trail : list nat)
           (sp : spline_strat) (j : nat) (rb : rowbc Qc),
      j < L -> nth_error per_lane j = Some rb ->
      spline_build NumQc (BIndividual per_lane shape) ext xs data trail = Ok sp ->
      let l := fst (lane_lr rb) in let r := snd (lane_lr rb) in
      exists kq : list Qc,
        (forall k, sat 0%Qc (sys_rows xs data j l r) k <-> k = kq) /\
        forall x, (ext = false -> in_closed_range NumQc 0%Qc xs x = true) ->
          exists i v, lower_index NumQc xs x = Ok i /\ i + 1 < length data /\
            spline_interp NumQc sp xs data x = Ok v /\ length v = L /\
            nth j v 0%Qc =
              piece (yq data j i) (kk kq i) (aq xs data j kq i) (bq xs data j kq i) (hq xs i)
                    (x - nth i xs 0)%Qc.
Proof. exact spline_individual_correct. Qed.
Print Assumptions C08_spline_individual_lanewise.

(* the system of lane j of the n-d data IS the system of the 1-lane data set made of lane j *)
Theorem C08_lane_system_is_single_lane_system :
  forall (xs : list Qc) (data : list (list Qc)) (L : nat),
    (forall i, i < length data -> length (nth i data []) = L) ->
    length xs = length data -> 3 <= length data -> 0 < L ->
    forall j l r, j < L -> sys_rows xs (col j data) 0 l r = sys_rows xs data j l r.
Proof. exact sys_rows_col. Qed.
Print Assumptions C08_lane_system_is_single_lane_system.

(* Stated exception, part of the property: WHETHER build succeeds depends on all lanes (Periodic
   end equality, boundary array shape) -- C10.  Partial: Bilinear lanes are carried by the
   correspondence (n-d interpolator against interpolators built lane by lane, bitwise at f64,
   exact at rationals; other lanes perturbed incl. NaN). *)
