(* C08 -- Every lane of n-dimensional data is interpolated independently. *)
From Coq Require Import List Bool Arith ZArith QArith Qcanon.
From NI Require Import Num Base Lookup Linear Interp Spline Tri TriProofs LookupProofs SplineProofs Lanes.
Import ListNotations.
Local Open Scope nat_scope.

(* Linear, any element type: the interpolator built from lane j alone returns lane j of the n-d
   result -- the same term, hence bit-identical *)
Theorem C08_linear_lanewise :
  forall (T : Type) (N : Num T) (d : T) ext ax (data : list (list T)) x j L,
    (forall i, i < length data -> length (nth i data []) = L) -> j < L ->
    length data = length ax ->
    linear_interp N ext ax (col j data) x = omap (fun v => [nth j v d]) (linear_interp N ext ax data x).
Proof. exact @linear_lanewise. Qed.
Print Assumptions C08_linear_lanewise.

Theorem C08_linear_other_lanes_irrelevant :   (* NaN / inf in other lanes included *)
  forall (T : Type) (N : Num T) (d : T) ext ax (data data' : list (list T)) x j L,
    (forall i, i < length data -> length (nth i data []) = L) ->
    (forall i, i < length data' -> length (nth i data' []) = L) -> j < L ->
    length data = length ax -> length data' = length ax ->
    col j data = col j data' ->
    omap (fun v => [nth j v d]) (linear_interp N ext ax data x) =
    omap (fun v => [nth j v d]) (linear_interp N ext ax data' x).
Proof. exact @linear_other_lanes_irrelevant. Qed.
Print Assumptions C08_linear_other_lanes_irrelevant.

(* spline solver, any element type: lane j of the lane-lifted Thomas algorithm is the scalar
   algorithm on lane j (shared pivots, per-lane right-hand sides) *)
Theorem C08_thomas_lanewise :
  forall (T : Type) (N : Num T) (d : T) (j L : nat) (rows : list (@trow T)),
    j < L -> rows_width L rows -> lane_vec d j (thomas N rows) = thomas1 N (lane_rows d j rows).
Proof. exact @thomas_lane. Qed.
Print Assumptions C08_thomas_lanewise.

(* spline build over exact rationals: the slopes of lane j of the n-d build are those of the
   1-D build of lane j alone (hence coefficients and values: C02's formulas mention lane j only) *)
Theorem C08_spline_build_lanewise :
  forall (xs : list Qc) (data : list (list Qc)) (L j : nat) l r K K1,
    j < L -> (forall i, i < length data -> length (nth i data []) = L) ->
    StrictIncQc xs -> length xs = length data -> 3 <= length data ->
    solve_for_k NumQc xs data (IMixed l r) = Ok K ->
    solve_for_k NumQc xs (col j data) (IMixed l r) = Ok K1 ->
    lane_vec 0%Qc j K = lane_vec 0%Qc 0 K1.
Proof. exact spline_solve_lanewise. Qed.
Print Assumptions C08_spline_build_lanewise.

(* Stated exception, part of the property: WHETHER build succeeds depends on all lanes (Periodic
   end equality, boundary array shape) -- C10.  Partial: the per-lane dispatch of Individual
   boundaries (lane idx gets bounds[0, idx]) and Bilinear are carried by the correspondence
   (n-d interpolator against interpolators built lane by lane, bitwise at f64, exact at
   rationals; other lanes perturbed incl. NaN). *)
