(* C02 -- Cubic spline passes through the data and is a C2 piecewise cubic.
   Lane by lane, over exact rationals.  [sys_rows j l r] is lane j of the tridiagonal system
   the code assembles (rows s_left / s_interior / s_right, or the 3-point parabola system);
   [piece y k a b h u] is the monomial cubic in u = x - x_i with the coefficients a, b the
   code stores.                                                                          *)
From Coq Require Import List Bool Arith ZArith QArith Qcanon.
From NI Require Import Num Base Lookup Linear Interp Spline Tri TriProofs SplineAlgebra
  LookupProofs LinearProofs SplineProofs SplineStruct SplineIndividual PeriodicSolve PeriodicLane.
Import ListNotations.
Local Open Scope nat_scope.

(* one cubic per interval: the code's evaluation expression IS the monomial cubic, for every
   argument (also outside the interval: reused by C06) *)
Theorem C02_spline_piece_is_cubic :
  forall (yl yr k kr h u : Qc), h <> 0%Qc ->
    let dy := (yr - yl)%Qc in
    spline_eval_lane NumQc (u / h)%Qc yl yr (ca k h dy) (cb kr h dy) = piece yl k (ca k h dy) (cb kr h dy) h u.
Proof. exact eval_is_piece. Qed.
Print Assumptions C02_spline_piece_is_cubic.

(* the Thomas algorithm returns THE solution of the system whenever no pivot vanishes *)
Theorem C02_thomas_correct :
  forall (rows : list (@srow Qc)) (k : list Qc),
    rows <> [] -> pivots_ok (forward1 NumQc rows) ->
    (sat 0%Qc (match rows with r :: t => mkS 0%Qc (s_mid r) (s_up r) (s_rhs r) :: t | [] => [] end) k
     <-> k = thomas1 NumQc rows).
Proof. exact thomas1_correct. Qed.
Print Assumptions C02_thomas_correct.

(* ... and for every strictly increasing axis every pivot of every system the code can
   assemble for NotAKnot / Natural / Clamped / FirstDeriv / SecondDeriv ends is non-zero *)
Theorem C02_pivots_positive :
  forall (xs : list Qc) (data : list (list Qc)) (L j : nat), j < L ->
    StrictIncQc xs -> length xs = length data -> 3 <= length data ->
    forall l r : single Qc,
      (length data = 3 -> is_nak l = true -> is_nak r = true -> False) ->
      pivots_ok (forward1 NumQc (srows xs data j l r)).
Proof. exact pivots_srows. Qed.
Print Assumptions C02_pivots_positive.

(* main statement: for every lane the slopes are the unique solution of the system and every
   answered query is the cubic piece of ONE interval (chosen by the lookup of C11) *)
Theorem C02_spline_whole_correct :
  forall (xs : list Qc) (data : list (list Qc)) (L : nat),
    (forall i, i < length data -> length (nth i data []) = L) ->
    StrictIncQc xs -> length xs = length data -> 3 <= length data ->
    (Z.of_nat (length data) <= two64)%Z -> 0 < L ->
    forall (b : bc Qc) (l r : single Qc) (ext : bool) (trail : list nat) (sp : spline_strat) (j : nat),
      whole_lr b = Some (l, r) -> j < L ->
      spline_build NumQc b ext xs data trail = Ok sp ->
      exists kq : list Qc,
        (forall k, sat 0%Qc (sys_rows xs data j l r) k <-> k = kq) /\
        forall x, (ext = false -> in_closed_range NumQc 0%Qc xs x = true) ->
          exists i v, lower_index NumQc xs x = Ok i /\ i + 1 < length data /\
            spline_interp NumQc sp xs data x = Ok v /\ length v = L /\
            nth j v 0%Qc =
              piece (yq data j i) (kk kq i) (aq xs data j kq i) (bq xs data j kq i) (hq xs i)
                    (x - nth i xs 0)%Qc.
Proof. exact spline_whole_correct. Qed.
Print Assumptions C02_spline_whole_correct.

(* interpolation and C1 hold for the pieces built from ANY slopes *)
Theorem C02_spline_interpolates :
  forall yl yr k kr h : Qc, h <> 0%Qc ->
    piece yl k (ca k h (yr - yl)) (cb kr h (yr - yl)) h 0%Qc = yl /\
    piece yl k (ca k h (yr - yl)) (cb kr h (yr - yl)) h h = yr.
Proof. intros. split; [apply piece_at_0|apply piece_at_h; assumption]. Qed.
Print Assumptions C02_spline_interpolates.

Theorem C02_spline_C1 :
  forall yl yr k kr h : Qc, h <> 0%Qc ->
    piece_d1 k (ca k h (yr - yl)) (cb kr h (yr - yl)) h 0%Qc = k /\
    piece_d1 k (ca k h (yr - yl)) (cb kr h (yr - yl)) h h = kr.
Proof. intros. split; [apply piece_d1_at_0|apply piece_d1_at_h; assumption]. Qed.
Print Assumptions C02_spline_C1.

(* C2: the solution of the system has a continuous second derivative at every interior knot *)
Theorem C02_spline_C2 :
  forall (xs : list Qc) (data : list (list Qc)) (L j : nat), j < L ->
    StrictIncQc xs -> length xs = length data -> 3 <= length data ->
    forall (l r : single Qc) (k : list Qc) (i : nat),
      sat 0%Qc (sys_rows xs data j l r) k -> 1 <= i -> i + 2 <= length data ->
      piece_d2 (aq xs data j k (i - 1)) (bq xs data j k (i - 1)) (hq xs (i - 1)) (hq xs (i - 1)) =
      piece_d2 (aq xs data j k i) (bq xs data j k i) (hq xs i) 0%Qc.
Proof. exact sat_C2. Qed.
Print Assumptions C02_spline_C2.

(* lanes: lane j of the lane-lifted solver is the scalar solver on lane j (any element type) *)
Theorem C02_thomas_lane :
  forall (T : Type) (N : Num T) (d : T) (j L : nat) (rows : list (@trow T)),
    j < L -> rows_width L rows -> lane_vec d j (thomas N rows) = thomas1 N (lane_rows d j rows).
Proof. exact @thomas_lane. Qed.
Print Assumptions C02_thomas_lane.

(* per-lane (Individual) boundaries: the same statement with the lane's own (left, right) pair *)
Theorem C02_spline_individual_correct :
  forall (xs : list Qc) (data : list (list Qc)) (L : nat),
    (forall i, i < length data -> length (nth i data []) = L) ->
    StrictIncQc xs -> length xs = length data -> 3 <= length data ->
    (Z.of_nat (length data) <= two64)%Z -> 0 < L ->
    forall (per_lane : list (rowbc Qc)) (shape : list nat) (ext : bool) (trail : list nat)
           (sp : spline_strat) (j : nat) (rb : rowbc Qc),
      j < L -> nth_error per_lane j = Some rb ->
      spline_build NumQc (BIndividual per_lane shape) ext xs data trail = Ok sp ->
      let l := fst (lane_lr rb) in let r := snd (lane_lr rb) in
      exists kq : list Qc,
        (forall k, sat 0%Qc (sys_rows xs data j l r) k <-> k = kq) /\
        forall x, (ext = false -> in_closed_range NumQc 0%Qc xs x = true) ->
          exists i v, lower_index NumQc xs x = Ok i /\ i + 1 < length data /\
            spline_interp NumQc sp xs data x = Ok v /\ length v = L /\
            nth j v 0%Qc =
              piece (yq data j i) (kk kq i) (aq xs data j kq i) (bq xs data j kq i) (hq xs i)
                    (x - nth i xs 0)%Qc.
Proof. exact spline_individual_correct. Qed.
Print Assumptions C02_spline_individual_correct.

(* Periodic (n >= 4): the condensed cyclic solve of cubic_spline.rs:498-565 -- two Thomas sweeps with
   the same matrix and the elimination of k_(n-2) -- yields slopes for which the pieces are C2 at
   EVERY interior knot, S' and S'' agree at the two ends, every query in the range is the cubic
   piece of one bracketing interval, and with extrapolation a query outside the range is
   answered like the wrapped query.  (Pivots of both sweeps and the denominator of the
   elimination are shown to be positive: strict diagonal dominance.)                      *)
Theorem C02_spline_periodic_correct :
  forall (xs : list Qc) (data : list (list Qc)) (L : nat),
    (forall i, i < length data -> length (nth i data []) = L) ->
    StrictIncQc xs -> length xs = length data -> 4 <= length data ->
    (Z.of_nat (length data) <= two64)%Z ->
    forall (ext : bool) (trail : list nat) (sp : spline_strat) (j : nat),
      j < L ->
      spline_build NumQc BPeriodic ext xs data trail = Ok sp ->
      exists kq : list Qc,
        (forall i, 1 <= i -> i + 2 <= length data ->
           piece_d2 (aq xs data j kq (i - 1)) (bq xs data j kq (i - 1)) (hq xs (i - 1)) (hq xs (i - 1))
           = piece_d2 (aq xs data j kq i) (bq xs data j kq i) (hq xs i) 0%Qc) /\
        piece_d1 (kk kq (length data - 2)) (aq xs data j kq (length data - 2)) (bq xs data j kq (length data - 2))
                 (hq xs (length data - 2)) (hq xs (length data - 2))
          = piece_d1 (kk kq 0) (aq xs data j kq 0) (bq xs data j kq 0) (hq xs 0) 0%Qc /\
        piece_d2 (aq xs data j kq (length data - 2)) (bq xs data j kq (length data - 2))
                 (hq xs (length data - 2)) (hq xs (length data - 2))
          = piece_d2 (aq xs data j kq 0) (bq xs data j kq 0) (hq xs 0) 0%Qc /\
        yq data j (length data - 1) = yq data j 0 /\
        (forall x, in_closed_range NumQc 0%Qc xs x = true ->
          exists i v, lower_index NumQc xs x = Ok i /\ i + 1 < length data /\
            spline_interp NumQc sp xs data x = Ok v /\ length v = L /\
            nth j v 0%Qc =
              piece (yq data j i) (kk kq i) (aq xs data j kq i) (bq xs data j kq i) (hq xs i)
                    (x - nth i xs 0)%Qc) /\
        (ext = true -> forall x, in_closed_range NumQc 0%Qc xs x = false ->
            in_closed_range NumQc 0%Qc xs (wrap NumQc 0%Qc xs x) = true /\
            spline_interp NumQc sp xs data x = spline_interp NumQc sp xs data (wrap NumQc 0%Qc xs x)).
Proof. exact spline_periodic_correct. Qed.
Print Assumptions C02_spline_periodic_correct.

(* Periodic with exactly three knots (cubic_spline.rs:480-496): one common slope; C2 at the middle knot *)
Theorem C02_periodic3_C2 :
  forall (xs : list Qc) (data : list (list Qc)) (L j : nat), j < L ->
    (forall i, i < length data -> length (nth i data []) = L) ->
    StrictIncQc xs -> length xs = length data -> length data = 3 ->
    let K3 := lane_vec 0%Qc j (periodic3_k NumQc xs data) in
    piece_d2 (aq xs data j K3 0) (bq xs data j K3 0) (hq xs 0) (hq xs 0)
    = piece_d2 (aq xs data j K3 1) (bq xs data j K3 1) (hq xs 1) 0%Qc.
Proof. exact periodic3_C2. Qed.
Print Assumptions C02_periodic3_C2.

Example C02_ex :
  match spline_build NumQc BNatural false [qc 0 1; qc 1 1; qc 3 1] [[qc 0 1]; [qc 1 1]; [qc 0 1]] [] with
  | Ok sp =>
      match spline_interp NumQc sp [qc 0 1; qc 1 1; qc 3 1] [[qc 0 1]; [qc 1 1]; [qc 0 1]] (qc 2 1) with
      | Ok [v] => qc_eqb v (qc 7 8)
      | _ => false
      end
  | _ => false
  end = true.
Proof. vm_compute. reflexivity. Qed.
