(* C01 -- Linear 1-D interpolation returns the exact piecewise-linear interpolant. *)
From Coq Require Import List Bool Arith ZArith QArith Qcanon.
From Coq Require Import Reals.
From Flocq Require Import Core.
From NI Require Import Num Base Lookup Linear LookupProofs LinearProofs LinearExact FloatRound FloatLinear.
Import ListNotations.
Local Open Scope nat_scope.

(* every lane is calc_frac through ONE bracket that the lookup chose; any element type *)
Theorem C01_linear_right_bracket_every_lane :
  forall (T : Type) (N : Num T) (d : T) (ext : bool) (ax : list T) (data : list (list T)) (x : T) (i : nat),
    range_guard N ext ax x = Ok tt -> lower_index N ax x = Ok i ->
    i + 1 < length ax -> length data = length ax ->
    linear_interp N ext ax data x =
    Ok (map2 (fun v1 v2 => calc_frac N (nth i ax d, v1) (nth (i + 1) ax d, v2) x)
             (nth i data []) (nth (i + 1) data [])).
Proof. exact @linear_reads_bracket. Qed.
Print Assumptions C01_linear_right_bracket_every_lane.

(* over exact rationals: strictly increasing axis, query in the closed range => the value of
   the straight line through the two bracketing points, for every lane *)
Theorem C01_linear_exact_line :
  forall (ax : list Qc) (data : list (list Qc)) (x : Qc),
    StrictIncQc ax -> 2 <= length ax -> (Z.of_nat (length ax) <= two64)%Z ->
    length data = length ax ->
    (nth 0 ax 0 <= x)%Qc -> (x <= nth (length ax - 1) ax 0)%Qc ->
    exists i, i + 1 < length ax /\
      (nth i ax 0 <= x)%Qc /\ (x <= nth (i + 1) ax 0)%Qc /\
      linear_interp NumQc false ax data x =
      Ok (map2 (fun v1 v2 => (v1 + (v2 - v1) * (x - nth i ax 0) / (nth (i + 1) ax 0 - nth i ax 0))%Qc)
               (nth i data []) (nth (i + 1) data [])).
Proof. exact linear_exact_line. Qed.
Print Assumptions C01_linear_exact_line.

Theorem C01_linear_hits_knots :
  forall (ax : list Qc) (data : list (list Qc)) (j : nat),
    StrictIncQc ax -> 2 <= length ax -> (Z.of_nat (length ax) <= two64)%Z ->
    length data = length ax -> j < length ax ->
    (forall k, k < length data -> length (nth k data []) = length (nth 0 data [])) ->
    linear_interp NumQc false ax data (nth j ax 0%Qc) = Ok (nth j data []).
Proof. exact linear_hits_knots. Qed.
Print Assumptions C01_linear_hits_knots.

Theorem C01_linear_within_hull :
  forall (ax : list Qc) (data : list (list Qc)) (x : Qc),
    StrictIncQc ax -> 2 <= length ax -> (Z.of_nat (length ax) <= two64)%Z ->
    length data = length ax ->
    (nth 0 ax 0 <= x)%Qc -> (x <= nth (length ax - 1) ax 0)%Qc ->
    exists i r, i + 1 < length ax /\ linear_interp NumQc false ax data x = Ok r /\
      forall k, k < length (nth i data []) -> k < length (nth (i + 1) data []) ->
        let y1 := nth k (nth i data []) 0%Qc in
        let y2 := nth k (nth (i + 1) data []) 0%Qc in
        let v := nth k r 0%Qc in
        ((y1 <= y2)%Qc -> (y1 <= v)%Qc /\ (v <= y2)%Qc) /\
        ((y2 <= y1)%Qc -> (y2 <= v)%Qc /\ (v <= y1)%Qc).
Proof. exact linear_within_hull. Qed.
Print Assumptions C01_linear_within_hull.

Theorem C01_default_axis_strict_inc : forall n, StrictIncQc (default_axis NumQc n).
Proof. exact default_axis_strict_inc. Qed.
Print Assumptions C01_default_axis_strict_inc.

(* non-vacuity *)
(* ---------------- "up to floating-point rounding" ----------------
   Standard model of floating-point arithmetic (each operation = exact result * (1 + d), |d| <= u) for
   the code's expression order (y2 - y1) / (x2 - x1) * (x - x1) + y1, any u <= 2^-10: *)
Theorem C01_float_calc_frac_standard_model :
  forall (u d1 d2 d3 d4 d5 d6 y1 y2 x1 x2 x M : R),
    (0 <= u -> u <= / 1024 -> x1 < x2 -> x1 <= x <= x2 -> Rabs y1 <= M -> Rabs y2 <= M ->
    Rabs d1 <= u -> Rabs d2 <= u -> Rabs d3 <= u -> Rabs d4 <= u -> Rabs d5 <= u -> Rabs d6 <= u ->
    Rabs (cf_pert d1 d2 d3 d4 d5 d6 y1 y2 x1 x2 x - cf_exact y1 y2 x1 x2 x) <= 15 * u * M)%R.
Proof. exact calc_frac_error_in_bracket. Qed.
Print Assumptions C01_float_calc_frac_standard_model.

(* The model instantiated with Flocq's correctly rounded operations (round to nearest even, gradual
   underflow; binary64 is prec = 53, emin = -1074; binary32 is prec = 24, emin = -149): for every strictly
   increasing axis and every in-range query the lookup does not panic, picks a bracketing interval, and
   every lane whose six intermediate results do not underflow is within 15 u = 7.5 machine epsilons of the
   exact line times the larger bracketing value.  The harness compares f64/f32 results with 8 machine
   epsilons, so a correct implementation with this expression order cannot trip it. *)
Theorem C01_float_linear_close :
  forall (prec emin : Z) (prec_gt_0_ : FLX.Prec_gt_0 prec), (11 <= prec)%Z ->
  forall (remR powR : R -> R -> R) (ax : list R) (data : list (list R)) (x : R),
    StrictIncF prec emin remR powR ax -> 2 <= length ax -> length data = length ax ->
    (7 * uu prec * INR (length ax - 1) <= 1)%R -> (INR (length ax) <= IZR two64)%R ->
    (nth 0 ax 0 <= x <= nth (length ax - 1) ax 0)%R ->
    ((nth 0 ax 0 < x)%R -> (x < nth (length ax - 1) ax 0)%R ->
       cf_no_underflow prec emin 0%R (INR (length ax - 1)) (nth 0 ax 0%R) (nth (length ax - 1) ax 0%R) x) ->
    exists i v,
      i + 1 < length ax /\ (nth i ax 0 <= x <= nth (i + 1) ax 0)%R /\
      linear_interp (NumF prec emin remR powR) false ax data x = Ok v /\
      length v = Nat.min (length (nth i data [])) (length (nth (i + 1) data [])) /\
      forall j M, j < length v ->
        (Rabs (nth j (nth i data []) 0) <= M)%R -> (Rabs (nth j (nth (i + 1) data []) 0) <= M)%R ->
        cf_no_underflow prec emin (nth j (nth i data []) 0%R) (nth j (nth (i + 1) data []) 0%R) (nth i ax 0%R) (nth (i + 1) ax 0%R) x ->
        (Rabs (nth j v 0 - cf_exact (nth j (nth i data []) 0) (nth j (nth (i + 1) data []) 0) (nth i ax 0) (nth (i + 1) ax 0) x)
         <= 15 * uu prec * M)%R.
Proof. exact linear_float_close. Qed.
Print Assumptions C01_float_linear_close.

(* the rounded model's calc_frac IS the expression analysed (definitional) *)
Theorem C01_float_model_tie :
  forall (prec emin : Z) ltbR lebR eqbR of_natR to_idxR remR powR (x1 y1 x2 y2 x : R),
    calc_frac (NumFl prec emin ltbR lebR eqbR of_natR to_idxR remR powR) (x1, y1) (x2, y2) x = cf_fl prec emin y1 y2 x1 x2 x.
Proof. exact calc_frac_NumFl. Qed.
Print Assumptions C01_float_model_tie.

Example C01_ex :
  linear_interp NumQc false [qc 0 1; qc 1 1; qc 3 1] [[qc 1 1; qc 0 1]; [qc 2 1; qc 4 1]; [qc 5 1; qc 0 1]] (qc 2 1)
  = Ok [qc 7 2; qc 2 1].
Proof. vm_compute. reflexivity. Qed.
