(* C01 -- Linear 1-D interpolation returns the exact piecewise-linear interpolant. *)
From Coq Require Import List Bool Arith ZArith QArith Qcanon.
From NI Require Import Num Base Lookup Linear LookupProofs LinearProofs LinearExact.
Import ListNotations.
Local Open Scope nat_scope.

(* every lane is calc_frac through ONE bracket that the lookup chose; any element type *)
Theorem C01_linear_right_bracket_every_lane :
  forall (T : Type) (N : Num T) (d : T) (ext : bool) (ax : list T) (data : list (list T)) (x : T) (i : nat),
    range_guard N ext ax x = Ok tt -> lower_index N ax x = Ok i ->
    i + 1 < length ax -> length data = length ax ->
    linear_interp N ext ax data x =
    Ok (map2 (fun v1 v2 => calc_frac N (nth i ax d, v1) (nth (i + 1) ax d, v2) x)
             (nth i data []) (nth (i + 1) data [])).
Proof. exact @linear_reads_bracket. Qed.
Print Assumptions C01_linear_right_bracket_every_lane.

(* over exact rationals: strictly increasing axis, query in the closed range => the value of
   the straight line through the two bracketing points, for every lane *)
Theorem C01_linear_exact_line :
  forall (ax : list Qc) (data : list (list Qc)) (x : Qc),
    StrictIncQc ax -> 2 <= length ax -> (Z.of_nat (length ax) <= two64)%Z ->
    length data = length ax ->
    (nth 0 ax 0 <= x)%Qc -> (x <= nth (length ax - 1) ax 0)%Qc ->
    exists i, i + 1 < length ax /\
      (nth i ax 0 <= x)%Qc /\ (x <= nth (i + 1) ax 0)%Qc /\
      linear_interp NumQc false ax data x =
      Ok (map2 (fun v1 v2 => (v1 + (v2 - v1) * (x - nth i ax 0) / (nth (i + 1) ax 0 - nth i ax 0))%Qc)
               (nth i data []) (nth (i + 1) data [])).
Proof. exact linear_exact_line. Qed.
Print Assumptions C01_linear_exact_line.

Theorem C01_linear_hits_knots :
  forall (ax : list Qc) (data : list (list Qc)) (j : nat),
    StrictIncQc ax -> 2 <= length ax -> (Z.of_nat (length ax) <= two64)%Z ->
    length data = length ax -> j < length ax ->
    (forall k, k < length data -> length (nth k data []) = length (nth 0 data [])) ->
    linear_interp NumQc false ax data (nth j ax 0%Qc) = Ok (nth j data []).
Proof. exact linear_hits_knots. Qed.
Print Assumptions C01_linear_hits_knots.

Theorem C01_linear_within_hull :
  forall (ax : list Qc) (data : list (list Qc)) (x : Qc),
    StrictIncQc ax -> 2 <= length ax -> (Z.of_nat (length ax) <= two64)%Z ->
    length data = length ax ->
    (nth 0 ax 0 <= x)%Qc -> (x <= nth (length ax - 1) ax 0)%Qc ->
    exists i r, i + 1 < length ax /\ linear_interp NumQc false ax data x = Ok r /\
      forall k, k < length (nth i data []) -> k < length (nth (i + 1) data []) ->
        let y1 := nth k (nth i data []) 0%Qc in
        let y2 := nth k (nth (i + 1) data []) 0%Qc in
        let v := nth k r 0%Qc in
        ((y1 <= y2)%Qc -> (y1 <= v)%Qc /\ (v <= y2)%Qc) /\
        ((y2 <= y1)%Qc -> (y2 <= v)%Qc /\ (v <= y1)%Qc).
Proof. exact linear_within_hull. Qed.
Print Assumptions C01_linear_within_hull.

Theorem C01_default_axis_strict_inc : forall n, StrictIncQc (default_axis NumQc n).
Proof. exact default_axis_strict_inc. Qed.
Print Assumptions C01_default_axis_strict_inc.

(* non-vacuity *)
Example C01_ex :
  linear_interp NumQc false [qc 0 1; qc 1 1; qc 3 1] [[qc 1 1; qc 0 1]; [qc 2 1; qc 4 1]; [qc 5 1; qc 0 1]] (qc 2 1)
  = Ok [qc 7 2; qc 2 1].
Proof. vm_compute. reflexivity. Qed.
