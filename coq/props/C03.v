(* C03 -- Cubic spline honours the selected boundary conditions (unique spline). *)
From Coq Require Import List Bool Arith ZArith QArith Qcanon.
From NI Require Import Num Base Lookup Linear Interp Spline Tri TriProofs SplineAlgebra
  LookupProofs LinearProofs SplineProofs PeriodicSolve PeriodicLane.
Import ListNotations.
Local Open Scope nat_scope.

(* uniqueness: the slopes are the ONLY solution of the lane's system (with C02: the only C2
   piecewise cubic through the data with these end conditions) *)
Theorem C03_spline_unique :
  forall (xs : list Qc) (data : list (list Qc)) (L j : nat), j < L ->
    (forall i, i < length data -> length (nth i data []) = L) ->
    StrictIncQc xs -> length xs = length data -> 3 <= length data ->
    forall (l r : single Qc) (K : list (list Qc)),
      solve_for_k NumQc xs data (IMixed l r) = Ok K ->
      forall k, sat 0%Qc (sys_rows xs data j l r) k <-> k = lane_vec 0%Qc j K.
Proof. intros xs data L j Hj Hw HS Hl Hn l r K HK. exact (proj2 (solve_mixed_lane xs data L j Hj Hw HS Hl Hn l r K HK)). Qed.
Print Assumptions C03_spline_unique.

(* left end *)
Theorem C03_bc_left_first_deriv :   (* FirstDeriv(v); Clamped is v = 0 *)
  forall (xs : list Qc) (data : list (list Qc)) (L j : nat), j < L ->
    StrictIncQc xs -> length xs = length data -> 3 <= length data ->
    forall (l r : single Qc) (k : list Qc) (v : Qc),
      not_parabola data l r -> sat 0%Qc (srows xs data j l r) k ->
      specialize_single NumQc l = SFirstDeriv v ->
      piece_d1 (kk k 0) (aq xs data j k 0) (bq xs data j k 0) (hq xs 0) 0%Qc = v.
Proof. intros xs data L j Hj HS Hl Hn. exact (sat_bc_left_first xs data L j Hj Hl Hn). Qed.
Print Assumptions C03_bc_left_first_deriv.

Theorem C03_bc_left_second_deriv :  (* SecondDeriv(v); Natural is v = 0 *)
  forall (xs : list Qc) (data : list (list Qc)) (L j : nat), j < L ->
    StrictIncQc xs -> length xs = length data -> 3 <= length data ->
    forall (l r : single Qc) (k : list Qc) (v : Qc),
      not_parabola data l r -> sat 0%Qc (srows xs data j l r) k ->
      specialize_single NumQc l = SSecondDeriv v ->
      piece_d2 (aq xs data j k 0) (bq xs data j k 0) (hq xs 0) 0%Qc = v.
Proof. exact sat_bc_left_second. Qed.
Print Assumptions C03_bc_left_second_deriv.

Theorem C03_bc_left_nak :           (* third derivative continuous at knot 1 *)
  forall (xs : list Qc) (data : list (list Qc)) (L j : nat), j < L ->
    StrictIncQc xs -> length xs = length data -> 3 <= length data ->
    forall (l r : single Qc) (k : list Qc),
      not_parabola data l r -> sat 0%Qc (srows xs data j l r) k -> is_nak l = true ->
      m3 (aq xs data j k 0) (bq xs data j k 0) (hq xs 0) = m3 (aq xs data j k 1) (bq xs data j k 1) (hq xs 1).
Proof. exact sat_bc_left_nak. Qed.
Print Assumptions C03_bc_left_nak.

(* right end *)
Theorem C03_bc_right_first_deriv :
  forall (xs : list Qc) (data : list (list Qc)) (L j : nat), j < L ->
    StrictIncQc xs -> length xs = length data -> 3 <= length data ->
    forall (l r : single Qc) (k : list Qc) (v : Qc),
      not_parabola data l r -> sat 0%Qc (srows xs data j l r) k ->
      specialize_single NumQc r = SFirstDeriv v ->
      piece_d1 (kk k (length data - 2)) (aq xs data j k (length data - 2)) (bq xs data j k (length data - 2))
               (hq xs (length data - 2)) (hq xs (length data - 2)) = v.
Proof. exact sat_bc_right_first. Qed.
Print Assumptions C03_bc_right_first_deriv.

Theorem C03_bc_right_second_deriv :
  forall (xs : list Qc) (data : list (list Qc)) (L j : nat), j < L ->
    StrictIncQc xs -> length xs = length data -> 3 <= length data ->
    forall (l r : single Qc) (k : list Qc) (v : Qc),
      not_parabola data l r -> sat 0%Qc (srows xs data j l r) k ->
      specialize_single NumQc r = SSecondDeriv v ->
      piece_d2 (aq xs data j k (length data - 2)) (bq xs data j k (length data - 2))
               (hq xs (length data - 2)) (hq xs (length data - 2)) = v.
Proof. exact sat_bc_right_second. Qed.
Print Assumptions C03_bc_right_second_deriv.

Theorem C03_bc_right_nak :          (* third derivative continuous at knot n-2 *)
  forall (xs : list Qc) (data : list (list Qc)) (L j : nat), j < L ->
    StrictIncQc xs -> length xs = length data -> 3 <= length data ->
    forall (l r : single Qc) (k : list Qc),
      not_parabola data l r -> sat 0%Qc (srows xs data j l r) k -> is_nak r = true ->
      m3 (aq xs data j k (length data - 3)) (bq xs data j k (length data - 3)) (hq xs (length data - 3)) =
      m3 (aq xs data j k (length data - 2)) (bq xs data j k (length data - 2)) (hq xs (length data - 2)).
Proof. exact sat_bc_right_nak. Qed.
Print Assumptions C03_bc_right_nak.

(* 3 points, NotAKnot on both ends: the parabola through the three points *)
Theorem C03_nak3_parabola :
  forall (xs : list Qc) (data : list (list Qc)) (L j : nat), j < L ->
    StrictIncQc xs -> length xs = length data -> 3 <= length data ->
    forall k : list Qc, length data = 3 -> sat 0%Qc (srows_parabola xs data j) k ->
      m3 (aq xs data j k 0) (bq xs data j k 0) (hq xs 0) = 0%Qc /\
      m3 (aq xs data j k 1) (bq xs data j k 1) (hq xs 1) = 0%Qc.
Proof. exact sat_bc_parabola. Qed.
Print Assumptions C03_nak3_parabola.

(* Periodic: the wrap-around row of the cyclic system is C2 across the period (algebra) *)
Theorem C03_periodic_wrap_row :
  forall (yl y0 yr kl k0 kr hl hr : Qc), hl <> 0%Qc -> hr <> 0%Qc ->
    (piece_d2 (ca kl hl (y0 - yl)) (cb k0 hl (y0 - yl)) hl hl =
     piece_d2 (ca k0 hr (yr - y0)) (cb kr hr (yr - y0)) hr 0%Qc <->
     (hr * kl + c2 NumQc * (hl + hr) * k0 + hl * kr =
      ((y0 - yl) / hl * hr + (yr - y0) / hr * hl) * c3 NumQc)%Qc).
Proof. exact periodic_wrap_iff. Qed.
Print Assumptions C03_periodic_wrap_row.


(* Periodic (n >= 4): the slopes the model computes satisfy the whole cyclic system ... *)
Theorem C03_periodic_slopes_system :
  forall (xs : list Qc) (data : list (list Qc)) (L j : nat), j < L ->
    (forall i, i < length data -> length (nth i data []) = L) ->
    StrictIncQc xs -> length xs = length data -> 4 <= length data ->
    cyclic_sys (length data) (hq xs) (yq data j)
               (fun i => nth j (nth i (periodic_k NumQc xs data (length data)) []) 0%Qc).
Proof. intros xs data L j Hj Hw HS Hl Hn. exact (periodic_slopes_system xs data L j Hj Hw HS Hl Hn). Qed.
Print Assumptions C03_periodic_slopes_system.

(* ... so S' and S'' agree at the two ends (equal end data is what build() checks, C10) ... *)
Theorem C03_periodic_equal_first_derivative :
  forall (xs : list Qc) (data : list (list Qc)) (L j : nat), j < L ->
    (forall i, i < length data -> length (nth i data []) = L) ->
    StrictIncQc xs -> length xs = length data -> 4 <= length data ->
    let n := length data in let KK := lane_vec 0%Qc j (periodic_k NumQc xs data n) in
    piece_d1 (kk KK (n - 2)) (aq xs data j KK (n - 2)) (bq xs data j KK (n - 2)) (hq xs (n - 2)) (hq xs (n - 2))
    = piece_d1 (kk KK 0) (aq xs data j KK 0) (bq xs data j KK 0) (hq xs 0) 0%Qc.
Proof. exact periodic_wrap_d1. Qed.
Print Assumptions C03_periodic_equal_first_derivative.

Theorem C03_periodic_equal_second_derivative :
  forall (xs : list Qc) (data : list (list Qc)) (L j : nat), j < L ->
    (forall i, i < length data -> length (nth i data []) = L) ->
    StrictIncQc xs -> length xs = length data -> 4 <= length data ->
    let n := length data in let KK := lane_vec 0%Qc j (periodic_k NumQc xs data n) in
    yq data j (n - 1) = yq data j 0 ->
    piece_d2 (aq xs data j KK (n - 2)) (bq xs data j KK (n - 2)) (hq xs (n - 2)) (hq xs (n - 2))
    = piece_d2 (aq xs data j KK 0) (bq xs data j KK 0) (hq xs 0) 0%Qc.
Proof. exact periodic_wrap_d2. Qed.
Print Assumptions C03_periodic_equal_second_derivative.

(* ... and these conditions determine the slopes: the periodic spline is unique *)
Theorem C03_periodic_unique :
  forall (xs : list Qc) (data : list (list Qc)) (L j : nat), j < L ->
    (forall i, i < length data -> length (nth i data []) = L) ->
    StrictIncQc xs -> length xs = length data -> 4 <= length data ->
    let n := length data in let KK := lane_vec 0%Qc j (periodic_k NumQc xs data n) in
    forall k' : list Qc,
      yq data j (n - 1) = yq data j 0 ->
      (forall i, 1 <= i -> i + 2 <= n ->
         piece_d2 (aq xs data j k' (i - 1)) (bq xs data j k' (i - 1)) (hq xs (i - 1)) (hq xs (i - 1))
         = piece_d2 (aq xs data j k' i) (bq xs data j k' i) (hq xs i) 0%Qc) ->
      piece_d1 (kk k' (n - 2)) (aq xs data j k' (n - 2)) (bq xs data j k' (n - 2)) (hq xs (n - 2)) (hq xs (n - 2))
        = piece_d1 (kk k' 0) (aq xs data j k' 0) (bq xs data j k' 0) (hq xs 0) 0%Qc ->
      piece_d2 (aq xs data j k' (n - 2)) (bq xs data j k' (n - 2)) (hq xs (n - 2)) (hq xs (n - 2))
        = piece_d2 (aq xs data j k' 0) (bq xs data j k' 0) (hq xs 0) 0%Qc ->
      forall i, i < n -> kk k' i = kk KK i.
Proof. exact periodic_slopes_unique. Qed.
Print Assumptions C03_periodic_unique.

(* what the solver returns for Periodic is this slope array (and the end rows are equal) *)
Theorem C03_solve_periodic :
  forall (xs : list Qc) (data : list (list Qc)) (L j : nat), j < L ->
    (forall i, i < length data -> length (nth i data []) = L) ->
    length xs = length data -> 4 <= length data ->
    forall K, solve_for_k NumQc xs data IPeriodic = Ok K ->
      K = periodic_k NumQc xs data (length data) /\ yq data j (length data - 1) = yq data j 0.
Proof. exact solve_periodic. Qed.
Print Assumptions C03_solve_periodic.

(* three knots: one common slope; S' and S'' agree at the ends *)
Theorem C03_periodic3 :
  forall (xs : list Qc) (data : list (list Qc)) (L j : nat), j < L ->
    (forall i, i < length data -> length (nth i data []) = L) ->
    StrictIncQc xs -> length xs = length data -> length data = 3 ->
    let K3 := lane_vec 0%Qc j (periodic3_k NumQc xs data) in
    piece_d1 (kk K3 1) (aq xs data j K3 1) (bq xs data j K3 1) (hq xs 1) (hq xs 1)
      = piece_d1 (kk K3 0) (aq xs data j K3 0) (bq xs data j K3 0) (hq xs 0) 0%Qc /\
    (yq data j 2 = yq data j 0 ->
     piece_d2 (aq xs data j K3 1) (bq xs data j K3 1) (hq xs 1) (hq xs 1)
       = piece_d2 (aq xs data j K3 0) (bq xs data j K3 0) (hq xs 0) 0%Qc).
Proof.
  intros xs data L j Hj Hw HS Hl Hn. split.
  - exact (periodic3_wrap_d1 xs data L j Hj Hw HS Hl Hn).
  - exact (periodic3_wrap_d2 xs data L j Hj Hw HS Hl Hn).
Qed.
Print Assumptions C03_periodic3.

(* per-lane (Individual) boundaries: every end condition above holds for the lane's own pair,
   because the lane's slopes are the unique solution of the lane's own system
   (C02_spline_individual_correct) *)

Example C03_ex_periodic :
  match solve_for_k NumQc [qc 0 1; qc 1 1; qc 3 1; qc 4 1; qc 6 1] [[qc 0 1]; [qc 1 1]; [qc 0 1]; [qc 2 1]; [qc 0 1]] IPeriodic with
  | Ok K => length K
  | _ => 0
  end = 5.
Proof. vm_compute. reflexivity. Qed.

Example C03_ex : (* a non-trivial system: the solver succeeds on a non-uniform axis *)
  match solve_for_k NumQc [qc 0 1; qc 1 1; qc 3 1; qc 4 1] [[qc 0 1]; [qc 1 1]; [qc 0 1]; [qc 2 1]]
          (IMixed SNotAKnot (SFirstDeriv (qc 1 2))) with
  | Ok K => length K
  | _ => 0
  end = 4.
Proof. vm_compute. reflexivity. Qed.
