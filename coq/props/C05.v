(* C05 -- Without extrapolation a query is answered iff it lies in the closed axis range.
   Law-free: any element type; NaN and infinities are decided by the comparison alone.  *)
From Coq Require Import List Bool Arith ZArith QArith Qcanon.
From NI Require Import Num Base Lookup Linear Interp Spline LookupProofs LinearProofs SplineStruct.
Import ListNotations.
Local Open Scope nat_scope.

Theorem C05_guard_iff_closed_range_linear :
  forall (T : Type) (N : Num T) (d : T) (ax : list T) (data : list (list T)) (x : T),
    1 <= length ax ->
    (linear_interp N false ax data x = ErrOOB <-> in_closed_range N d ax x = false).
Proof. exact @linear_oob_iff. Qed.
Print Assumptions C05_guard_iff_closed_range_linear.

Theorem C05_guard_iff_closed_range_spline :   (* every boundary kind, Periodic included *)
  forall (T : Type) (N : Num T) (d : T) (s : @spline_strat T) (xs : list T) (data : list (list T)) (x : T),
    1 <= length xs -> sp_ext s = ExtNo ->
    (spline_interp N s xs data x = ErrOOB <-> in_closed_range N d xs x = false).
Proof. exact @spline_oob_iff. Qed.
Print Assumptions C05_guard_iff_closed_range_spline.

Theorem C05_guard_iff_closed_range_bilinear : (* each coordinate against its own axis *)
  forall (T : Type) (N : Num T) (d : T) (xax yax : list T) (data : list (list (list T))) (x y : T),
    1 <= length xax -> 1 <= length yax ->
    (bilinear_interp N false xax yax data x y = ErrOOB <->
     in_closed_range N d xax x && in_closed_range N d yax y = false).
Proof. exact @bilinear_oob_iff. Qed.
Print Assumptions C05_guard_iff_closed_range_bilinear.

(* extrapolate(false) always yields the mode ExtNo, for Periodic too *)
Theorem C05_no_ext_mode :
  forall (T : Type) (N : Num T) (b : bc T) xs data trail s1 s2,
    spline_build N b false xs data trail = Ok s1 -> spline_build N b true xs data trail = Ok s2 ->
    sp_a s1 = sp_a s2 /\ sp_b s1 = sp_b s2 /\ sp_ext s1 = ExtNo /\
    sp_ext s2 = match b with BPeriodic => ExtPeriodic | _ => ExtYes end.
Proof. exact @spline_build_ext_only. Qed.
Print Assumptions C05_no_ext_mode.

(* the closed-range test on extended rationals: NaN, +-inf and anything outside fail it *)
Theorem C05_in_range_nan_inf :
  forall (ax : list xq) (a0 al : Qc), 1 <= length ax ->
    nth 0 ax XNaN = XFin a0 -> nth (length ax - 1) ax XNaN = XFin al ->
    in_closed_range NumXQ XNaN ax XNaN = false /\
    in_closed_range NumXQ XNaN ax XPInf = false /\
    in_closed_range NumXQ XNaN ax XNInf = false /\
    (Qle_bool (this a0) (this al) = true ->
     in_closed_range NumXQ XNaN ax (XFin a0) = true /\ in_closed_range NumXQ XNaN ax (XFin al) = true).
Proof.
  intros ax a0 al Hn H0 Hl. unfold in_closed_range. rewrite H0, Hl. cbn.
  repeat split; try reflexivity; unfold qc_leb.
  - rewrite H. assert (Qle_bool (this a0) (this a0) = true) by (apply Qle_bool_iff; apply Qle_refl).
    rewrite H1. reflexivity.
  - rewrite H. assert (Qle_bool (this al) (this al) = true) by (apply Qle_bool_iff; apply Qle_refl).
    rewrite H1. reflexivity.
Qed.
Print Assumptions C05_in_range_nan_inf.

Example C05_ex :
  linear_interp NumXQ false [XFin (qc 0 1); XFin (qc 1 1)] [[XFin (qc 0 1)]; [XFin (qc 1 1)]] XNaN = ErrOOB /\
  in_closed_range NumXQ XNaN [XFin (qc 0 1); XFin (qc 1 1)] (XFin (qc 1 1)) = true.
Proof. split; vm_compute; reflexivity. Qed.
