(* C19 -- The unchecked type cast of the 1-D fast path only ever relabels identical types.
   The Smaller / DimAdd tables of ndarray 0.16.1 and the (source type, destination type) pair of
   every cast_unchecked call, with the TypeId guard, are REGENERATED from the sources on every
   run (gen/DimsGen.v); the theorems below are re-checked against what the code says now.
   The domain is finite and is enumerated: the statement names it.                         *)
From Coq Require Import List Bool.
From NI Require Import Dims.
From NIG Require Import DimsGen.
Import ListNotations.

Definition site_ok (Dq D : dim) (p : texp * texp) : bool :=
  same_type smaller_tbl dimadd_tbl Dq D (fst p) (snd p).

(* for every supported data dimension type and the query dimension type the guard admits,
   source and destination type of every cast are the same type *)
Theorem C19_cast_types_equal_1d :
  forall D, In D data_dims_1d -> forall p, In p sites_1d -> site_ok guard_1d D p = true.
Proof.
  assert (H : forallb (fun D => forallb (site_ok guard_1d D) sites_1d) data_dims_1d = true) by (vm_compute; reflexivity).
  intros D HD p Hp. rewrite forallb_forall in H. specialize (H D HD). rewrite forallb_forall in H. exact (H p Hp).
Qed.
Print Assumptions C19_cast_types_equal_1d.

Theorem C19_cast_types_equal_2d :
  forall D, In D data_dims_2d -> forall p, In p sites_2d -> site_ok guard_2d D p = true.
Proof.
  assert (H : forallb (fun D => forallb (site_ok guard_2d D) sites_2d) data_dims_2d = true) by (vm_compute; reflexivity).
  intros D HD p Hp. rewrite forallb_forall in H. specialize (H D HD). rewrite forallb_forall in H. exact (H p Hp).
Qed.
Print Assumptions C19_cast_types_equal_2d.

Theorem C19_guard_is_ix1 : guard_1d = Ix1 /\ guard_2d = Ix1.
Proof. split; reflexivity. Qed.
Print Assumptions C19_guard_is_ix1.

(* the guard is necessary: for every other query dimension type some cast would change the type
   (so the casts must stay behind it) *)
Theorem C19_guard_necessary :
  forall Dq, In Dq all_dims -> Dq <> Ix1 ->
    (forall D, In D data_dims_1d -> existsb (fun p => negb (site_ok Dq D p)) sites_1d = true) /\
    (forall D, In D data_dims_2d -> existsb (fun p => negb (site_ok Dq D p)) sites_2d = true).
Proof.
  assert (H : forallb (fun Dq => dim_eqb Dq Ix1 ||
              (forallb (fun D => existsb (fun p => negb (site_ok Dq D p)) sites_1d) data_dims_1d &&
               forallb (fun D => existsb (fun p => negb (site_ok Dq D p)) sites_2d) data_dims_2d)) all_dims = true)
    by (vm_compute; reflexivity).
  intros Dq HDq Hne. rewrite forallb_forall in H. specialize (H Dq HDq).
  apply orb_prop in H as [H|H]; [apply dim_eqb_eq in H; contradiction|].
  apply andb_prop in H as [H1 H2]. rewrite forallb_forall in H1, H2. split; assumption.
Qed.
Print Assumptions C19_guard_necessary.

(* the safety comment of the source: with Dq = Ix1 the buffer type's dimension is D again *)
Theorem C19_buffer_dim_is_data_dim :
  forall D, In D data_dims_1d -> dimadd_tbl Ix1 (smaller_tbl D) = D.
Proof.
  assert (H : forallb (fun D => dim_eqb (dimadd_tbl Ix1 (smaller_tbl D)) D) data_dims_1d = true) by (vm_compute; reflexivity).
  intros D HD. rewrite forallb_forall in H. apply dim_eqb_eq. exact (H D HD).
Qed.
Print Assumptions C19_buffer_dim_is_data_dim.

(* Partial: that equal type parameters mean an identical Rust type (TypeId), and what a
   mismatched ptr::read would do, are Rust semantics outside any Gallina model.  The cfg hook in
   cast_unchecked compares type_name / size_of / align_of of the real types on every
   instantiation the harness enumerates, counts the casts (fast path taken iff the query is a
   static Ix1) and the fast path is compared bitwise with the general path. *)
