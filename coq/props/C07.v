(* C07 -- A periodic spline with extrapolation is evaluated as a periodic function. *)
From Coq Require Import List Bool Arith ZArith QArith Qcanon.
From NI Require Import Num Base Lookup Linear Interp Spline Tri TriProofs SplineAlgebra LookupProofs LinearProofs SplineProofs SplineStruct Periodic PeriodicSolve PeriodicLane.
Import ListNotations.
Local Open Scope Qc_scope.

Theorem C07_rem_euclid_spec :
  forall a P : Qc, 0 < P ->
    0 <= qc_rem_euclid a P /\ qc_rem_euclid a P < P /\
    exists k : Z, a = qc_rem_euclid a P + zq k * P.
Proof. exact rem_euclid_spec. Qed.
Print Assumptions C07_rem_euclid_spec.

Theorem C07_wrap_in_range :
  forall (xs : list Qc), nth 0 xs 0 < nth (length xs - 1) xs 0 ->
  forall x, nth 0 xs 0 <= wrap NumQc 0 xs x /\ wrap NumQc 0 xs x < nth (length xs - 1) xs 0.
Proof. exact wrap_in_range. Qed.
Print Assumptions C07_wrap_in_range.

(* S(x + k*P) = S(x) for every x in [x0, xn) and every integer k *)
Theorem C07_periodic_eval_shift :
  forall (xs : list Qc), nth 0 xs 0 < nth (length xs - 1) xs 0 ->
  forall (s : spline_strat) (data : list (list Qc)) (x : Qc) (k : Z),
    (1 <= length xs)%nat -> sp_ext s = ExtPeriodic ->
    nth 0 xs 0 <= x -> x < nth (length xs - 1) xs 0 ->
    in_closed_range NumQc 0 xs (x + zq k * (nth (length xs - 1) xs 0 - nth 0 xs 0)) = false ->
    spline_interp NumQc s xs data (x + zq k * (nth (length xs - 1) xs 0 - nth 0 xs 0)) =
    spline_interp NumQc s xs data x.
Proof. exact periodic_eval_shift. Qed.
Print Assumptions C07_periodic_eval_shift.

(* images of the right end evaluate like the left end (whose value is y_0 = y_(n-1) by C02
   and the builder's check of equal first and last rows) *)
Theorem C07_periodic_end_images :
  forall (xs : list Qc), nth 0 xs 0 < nth (length xs - 1) xs 0 ->
  forall (s : spline_strat) (data : list (list Qc)) (k : Z),
    (1 <= length xs)%nat -> sp_ext s = ExtPeriodic ->
    in_closed_range NumQc 0 xs (nth (length xs - 1) xs 0 + zq k * (nth (length xs - 1) xs 0 - nth 0 xs 0)) = false ->
    spline_interp NumQc s xs data (nth (length xs - 1) xs 0 + zq k * (nth (length xs - 1) xs 0 - nth 0 xs 0)) =
    spline_interp NumQc s xs data (nth 0 xs 0).
Proof. exact periodic_right_end_image. Qed.
Print Assumptions C07_periodic_end_images.

(* the wrap happens only in mode ExtPeriodic, which build selects only for Periodic + extrapolate *)
Theorem C07_periodic_only_when_selected :
  forall (T : Type) (N : Num T) (b : bc T) xs data trail s1 s2,
    spline_build N b false xs data trail = Ok s1 -> spline_build N b true xs data trail = Ok s2 ->
    sp_a s1 = sp_a s2 /\ sp_b s1 = sp_b s2 /\ sp_ext s1 = ExtNo /\
    sp_ext s2 = match b with BPeriodic => ExtPeriodic | _ => ExtYes end.
Proof. exact @spline_build_ext_only. Qed.
Print Assumptions C07_periodic_only_when_selected.

(* Periodic requires equal first and last rows *)
Theorem C07_periodic_requires_equal_ends :
  forall (T : Type) (N : Num T) xs (data : list (list T)) K,
    solve_for_k N xs data IPeriodic = Ok K ->
    rows_differ N (nth 0 data []) (nth (length data - 1) data []) = false.
Proof.
  intros T N xs data K. unfold solve_for_k.
  destruct (length data <? 3); [discriminate|].
  destruct (negb (length xs =? length data)); [discriminate|].
  unfold yi. destruct (rows_differ N (nth 0 data []) (nth (length data - 1) data [])); [discriminate|reflexivity].
Qed.
Print Assumptions C07_periodic_requires_equal_ends.

(* end to end for the interpolator build() returns for Periodic + extrapolate (n >= 4): a query outside
   the range is answered like the wrapped query, which lies in [x_0, x_(n-1)) and is answered by the
   cubic piece of its bracketing interval; both ends carry the same data value *)
Theorem C07_periodic_build_wraps :
  forall (xs : list Qc) (data : list (list Qc)) (L : nat),
    (forall i, (i < length data)%nat -> length (nth i data []) = L) ->
    StrictIncQc xs -> length xs = length data -> (4 <= length data)%nat ->
    (Z.of_nat (length data) <= two64)%Z ->
    forall (trail : list nat) (sp : spline_strat) (j : nat), (j < L)%nat ->
      spline_build NumQc BPeriodic true xs data trail = Ok sp ->
      yq data j (length data - 1) = yq data j 0 /\
      forall x, in_closed_range NumQc 0 xs x = false ->
        in_closed_range NumQc 0 xs (wrap NumQc 0 xs x) = true /\
        spline_interp NumQc sp xs data x = spline_interp NumQc sp xs data (wrap NumQc 0 xs x).
Proof.
  intros xs data L Hw HS Hl Hn H64 trail sp j Hj Hsp.
  destruct (spline_periodic_correct xs data L Hw HS Hl Hn H64 true trail sp j Hj Hsp) as (kq & _ & _ & _ & Ey & _ & W).
  split; [exact Ey|]. intros x Hx. apply (W eq_refl x Hx).
Qed.
Print Assumptions C07_periodic_build_wraps.

Example C07_ex :
  qc_rem_euclid (qc (-7) 2) (qc 3 1) = qc 5 2 /\
  wrap NumQc 0 [qc 1 1; qc 2 1; qc 4 1] (qc 11 1) = qc 2 1.
Proof. split; apply Qc_is_canon; vm_compute; reflexivity. Qed.
