(* C16 -- Polynomials of the strategy's degree are reproduced exactly. *)
From Coq Require Import List Bool Arith ZArith QArith Qcanon.
From NI Require Import Num Base Lookup Linear Interp Spline Tri TriProofs SplineAlgebra LookupProofs LinearProofs LinearExact
  SplineProofs Units SplineIndividual Repro ReproIndividual Refuted.
Import ListNotations.
Local Open Scope Qc_scope.

Theorem C16_linear_reproduces_affine : forall a b x1 x2 x : Qc, x2 - x1 <> 0 ->
  calc_frac NumQc (x1, a * x1 + b) (x2, a * x2 + b) x = a * x + b.
Proof. exact calc_frac_affine. Qed.
Print Assumptions C16_linear_reproduces_affine.

Theorem C16_bilinear_reproduces_bilinear : forall a b c e x1 x2 y1 y2 x y : Qc,
  x2 - x1 <> 0 -> y2 - y1 <> 0 ->
  let f := fun X Y => a + b * X + c * Y + e * X * Y in
  bilinear_lane NumQc x1 x2 y1 y2 x y (f x1 y1) (f x1 y2) (f x2 y1) (f x2 y2) = f x y.
Proof. exact bilinear_lane_reproduces. Qed.
Print Assumptions C16_bilinear_reproduces_bilinear.

(* spline: the cubic's own slopes satisfy every kind of row the code assembles ... *)
Theorem C16_cubic_interior_row : forall p0 p1 p2 p3 x hl hr : Qc, hl <> 0 -> hr <> 0 ->
  hr * dP p1 p2 p3 (x - hl) + c2 NumQc * (hr + hl) * dP p1 p2 p3 x + hl * dP p1 p2 p3 (x + hr) =
  rhs_interior NumQc hr hl (P p0 p1 p2 p3 (x - hl)) (P p0 p1 p2 p3 x) (P p0 p1 p2 p3 (x + hr)).
Proof. exact cubic_interior_row. Qed.
Print Assumptions C16_cubic_interior_row.
Theorem C16_cubic_second_deriv_rows : forall p0 p1 p2 p3 x h : Qc, h <> 0 ->
  (c2 NumQc * h * dP p1 p2 p3 x + h * dP p1 p2 p3 (x + h) =
   c3 NumQc * (P p0 p1 p2 p3 (x + h) - P p0 p1 p2 p3 x) - d2P p2 p3 x * pow NumQc h (c2 NumQc) / c2 NumQc) /\
  (h * dP p1 p2 p3 (x - h) + c2 NumQc * h * dP p1 p2 p3 x =
   c3 NumQc * (P p0 p1 p2 p3 x - P p0 p1 p2 p3 (x - h)) + d2P p2 p3 x * pow NumQc h (c2 NumQc) / c2 NumQc).
Proof. intros. split; [apply cubic_left_second_row|apply cubic_right_second_row]; assumption. Qed.
Print Assumptions C16_cubic_second_deriv_rows.
Theorem C16_cubic_left_nak_row : forall p0 p1 p2 p3 x h0 h1 : Qc, h0 <> 0 -> h1 <> 0 -> h0 + h1 <> 0 ->
  let d := h0 + h1 in
  let tmp1 := (h0 + c2 NumQc * d) * h1 in
  h1 * dP p1 p2 p3 x + d * dP p1 p2 p3 (x + h0) =
  (tmp1 * (P p0 p1 p2 p3 (x + h0) - P p0 p1 p2 p3 x) / h0 +
   pow NumQc h0 (c2 NumQc) * (P p0 p1 p2 p3 (x + h0 + h1) - P p0 p1 p2 p3 (x + h0)) / h1) / d.
Proof. exact cubic_left_nak_row. Qed.
Print Assumptions C16_cubic_left_nak_row.
Theorem C16_cubic_right_nak_row : forall p0 p1 p2 p3 x hl hr : Qc, hl <> 0 -> hr <> 0 -> hl + hr <> 0 ->
  let d := hl + hr in
  let tmp1 := (c2 NumQc * d + hr) * hl in
  d * dP p1 p2 p3 (x - hr) + hl * dP p1 p2 p3 x =
  (pow NumQc hr (c2 NumQc) * (P p0 p1 p2 p3 (x - hr) - P p0 p1 p2 p3 (x - hr - hl)) / hl +
   tmp1 * (P p0 p1 p2 p3 x - P p0 p1 p2 p3 (x - hr)) / hr) / d.
Proof. exact cubic_right_nak_row. Qed.
Print Assumptions C16_cubic_right_nak_row.
Theorem C16_quadratic_parabola_rows : forall p0 p1 p2 x h0 h1 : Qc, h0 <> 0 -> h1 <> 0 ->
  let Pq := P p0 p1 p2 0 in let dq := dP p1 p2 0 in
  let s0 := (Pq (x + h0) - Pq x) / h0 in
  let s1 := (Pq (x + h0 + h1) - Pq (x + h0)) / h1 in
  c1 NumQc * dq x + c1 NumQc * dq (x + h0) = s0 * c2 NumQc /\
  h1 * dq x + c2 NumQc * (h0 + h1) * dq (x + h0) + h0 * dq (x + h0 + h1) = (s1 * h0 + s0 * h1) * c3 NumQc /\
  c1 NumQc * dq (x + h0) + c1 NumQc * dq (x + h0 + h1) = s1 * c2 NumQc.
Proof. exact quadratic_parabola_rows. Qed.
Print Assumptions C16_quadratic_parabola_rows.

(* ... and with these slopes every piece IS the cubic, inside and outside its interval; by the
   uniqueness theorem of C03 these are the slopes the solver returns *)
Theorem C16_cubic_piece_reproduces : forall p0 p1 p2 p3 x h u : Qc, h <> 0 ->
  piece (P p0 p1 p2 p3 x) (dP p1 p2 p3 x)
        (ca (dP p1 p2 p3 x) h (P p0 p1 p2 p3 (x + h) - P p0 p1 p2 p3 x))
        (cb (dP p1 p2 p3 (x + h)) h (P p0 p1 p2 p3 (x + h) - P p0 p1 p2 p3 x)) h u = P p0 p1 p2 p3 (x + u).
Proof. exact cubic_piece_reproduces. Qed.
Print Assumptions C16_cubic_piece_reproduces.

(* End to end, whole-data-set boundaries: if lane j of the data is a cubic sampled at the knots
   and the cubic satisfies the selected end conditions (NotAKnot: always; Natural / Clamped: the
   cubic's own S''=0 / S'=0 at the ends, e.g. Natural and a straight line; 3 knots with NotAKnot on
   both ends: a parabola), then EVERY answered query -- inside the range and, with extrapolation,
   outside it -- returns the cubic's value in lane j *)
Theorem C16_spline_reproduces_cubic :
  forall (xs : list Qc) (data : list (list Qc)) (L : nat),
  (forall i, (i < length data)%nat -> length (nth i data []) = L) ->
  StrictIncQc xs -> length xs = length data -> (3 <= length data)%nat ->
  (Z.of_nat (length data) <= two64)%Z -> (0 < L)%nat ->
  forall (b : bc Qc) (l r : single Qc) (ext : bool) (trail : list nat) (sp : spline_strat) (j : nat)
         (p0 p1 p2 p3 : Qc),
    whole_lr b = Some (l, r) -> (j < L)%nat ->
    (forall i, (i < length data)%nat -> yq data j i = P p0 p1 p2 p3 (nth i xs 0)) ->
    left_ok xs p1 p2 p3 l -> right_ok xs data p1 p2 p3 r ->
    ((length data =? 3)%nat && is_nak l && is_nak r = true -> p3 = 0) ->
    spline_build NumQc b ext xs data trail = Ok sp ->
    forall x, (ext = false -> in_closed_range NumQc 0 xs x = true) ->
      exists v, spline_interp NumQc sp xs data x = Ok v /\ length v = L /\
                nth j v 0 = P p0 p1 p2 p3 x.
Proof. exact spline_reproduces_cubic. Qed.
Print Assumptions C16_spline_reproduces_cubic.

(* the same per lane (Individual): FirstDeriv / SecondDeriv values taken from the lane's cubic, in any
   mix with NotAKnot, reproduce that cubic in that lane *)
Theorem C16_spline_reproduces_cubic_individual :
  forall (xs : list Qc) (data : list (list Qc)) (L : nat),
  (forall i, (i < length data)%nat -> length (nth i data []) = L) ->
  StrictIncQc xs -> length xs = length data -> (3 <= length data)%nat ->
  (Z.of_nat (length data) <= two64)%Z -> (0 < L)%nat ->
  forall (per_lane : list (rowbc Qc)) (shape : list nat) (ext : bool) (trail : list nat)
         (sp : spline_strat) (j : nat) (rb : rowbc Qc) (p0 p1 p2 p3 : Qc),
    (j < L)%nat -> nth_error per_lane j = Some rb ->
    (forall i, (i < length data)%nat -> yq data j i = P p0 p1 p2 p3 (nth i xs 0)) ->
    left_ok xs p1 p2 p3 (fst (lane_lr rb)) -> right_ok xs data p1 p2 p3 (snd (lane_lr rb)) ->
    ((length data =? 3)%nat && is_nak (fst (lane_lr rb)) && is_nak (snd (lane_lr rb)) = true -> p3 = 0) ->
    spline_build NumQc (BIndividual per_lane shape) ext xs data trail = Ok sp ->
    forall x, (ext = false -> in_closed_range NumQc 0 xs x = true) ->
      exists v, spline_interp NumQc sp xs data x = Ok v /\ length v = L /\
                nth j v 0 = P p0 p1 p2 p3 x.
Proof. exact spline_reproduces_cubic_individual. Qed.
Print Assumptions C16_spline_reproduces_cubic_individual.

(* the finding F1, kept as a machine-checked witness: with the right NotAKnot row as the PINNED code
   assembled it (h_(n-2) on the diagonal), the default spline through samples of 1 + 2x - x^2/2 + x^3/4 on
   the axis [0,1,3,4,8] does not return the cubic at x = 6 (it returned 34720/499 = 69.58 instead of 49);
   repaired by the fix: commit d6ff5c0, after which C16_spline_reproduces_cubic holds *)
Theorem C16_pinned_code_refuted :
  exists x : Qc, qc_eqb (eval_with (srows_old f1_xs f1_data 0) f1_xs f1_data 3 x) (f1_P x) = false.
Proof. exact F1_old_row_refuted. Qed.
Print Assumptions C16_pinned_code_refuted.

(* the end conditions a cubic must meet, spelled out (non-vacuity of the hypotheses above) *)
Example C16_left_ok_cases : forall xs p1 p2 p3,
  left_ok xs p1 p2 p3 SNotAKnot /\
  (left_ok xs p1 p2 p3 SNatural <-> c0 NumQc = d2P p2 p3 (nth 0 xs 0)) /\
  (left_ok xs p1 p2 p3 SClamped <-> c0 NumQc = dP p1 p2 p3 (nth 0 xs 0)) /\
  (forall v, left_ok xs p1 p2 p3 (SFirstDeriv v) <-> v = dP p1 p2 p3 (nth 0 xs 0)) /\
  (forall v, left_ok xs p1 p2 p3 (SSecondDeriv v) <-> v = d2P p2 p3 (nth 0 xs 0)).
Proof. intros. unfold left_ok. cbn. repeat split; auto. Qed.

Example C16_ex : (* NotAKnot on 4 knots reproduces x^3 at x = 5/2 (and outside the range at 7) *)
  match spline_build NumQc BNotAKnot true [qc 0 1; qc 1 1; qc 3 1; qc 4 1]
          [[qc 0 1]; [qc 1 1]; [qc 27 1]; [qc 64 1]] [] with
  | Ok sp =>
      match spline_interp NumQc sp [qc 0 1; qc 1 1; qc 3 1; qc 4 1] [[qc 0 1]; [qc 1 1]; [qc 27 1]; [qc 64 1]] (qc 5 2),
            spline_interp NumQc sp [qc 0 1; qc 1 1; qc 3 1; qc 4 1] [[qc 0 1]; [qc 1 1]; [qc 27 1]; [qc 64 1]] (qc 7 1) with
      | Ok [v], Ok [w] => qc_eqb v (qc 125 8) && qc_eqb w (qc 343 1)
      | _, _ => false
      end
  | _ => false
  end = true.
Proof. vm_compute. reflexivity. Qed.
