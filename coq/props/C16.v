(* C16 -- Polynomials of the strategy's degree are reproduced exactly. *)
From Coq Require Import List Bool Arith ZArith QArith Qcanon.
From NI Require Import Num Base Lookup Linear Interp Spline SplineAlgebra LinearExact Units.
Import ListNotations.
Local Open Scope Qc_scope.

Theorem C16_linear_reproduces_affine : forall a b x1 x2 x : Qc, x2 - x1 <> 0 ->
  calc_frac NumQc (x1, a * x1 + b) (x2, a * x2 + b) x = a * x + b.
Proof. exact calc_frac_affine. Qed.
Print Assumptions C16_linear_reproduces_affine.

Theorem C16_bilinear_reproduces_bilinear : forall a b c e x1 x2 y1 y2 x y : Qc,
  x2 - x1 <> 0 -> y2 - y1 <> 0 ->
  let f := fun X Y => a + b * X + c * Y + e * X * Y in
  bilinear_lane NumQc x1 x2 y1 y2 x y (f x1 y1) (f x1 y2) (f x2 y1) (f x2 y2) = f x y.
Proof. exact bilinear_lane_reproduces. Qed.
Print Assumptions C16_bilinear_reproduces_bilinear.

(* spline: the cubic's own slopes satisfy every kind of row the code assembles ... *)
Theorem C16_cubic_interior_row : forall p0 p1 p2 p3 x hl hr : Qc, hl <> 0 -> hr <> 0 ->
  hr * dP p1 p2 p3 (x - hl) + c2 NumQc * (hr + hl) * dP p1 p2 p3 x + hl * dP p1 p2 p3 (x + hr) =
  rhs_interior NumQc hr hl (P p0 p1 p2 p3 (x - hl)) (P p0 p1 p2 p3 x) (P p0 p1 p2 p3 (x + hr)).
Proof. exact cubic_interior_row. Qed.
Print Assumptions C16_cubic_interior_row.
Theorem C16_cubic_second_deriv_rows : forall p0 p1 p2 p3 x h : Qc, h <> 0 ->
  (c2 NumQc * h * dP p1 p2 p3 x + h * dP p1 p2 p3 (x + h) =
   c3 NumQc * (P p0 p1 p2 p3 (x + h) - P p0 p1 p2 p3 x) - d2P p2 p3 x * pow NumQc h (c2 NumQc) / c2 NumQc) /\
  (h * dP p1 p2 p3 (x - h) + c2 NumQc * h * dP p1 p2 p3 x =
   c3 NumQc * (P p0 p1 p2 p3 x - P p0 p1 p2 p3 (x - h)) + d2P p2 p3 x * pow NumQc h (c2 NumQc) / c2 NumQc).
Proof. intros. split; [apply cubic_left_second_row|apply cubic_right_second_row]; assumption. Qed.
Print Assumptions C16_cubic_second_deriv_rows.
Theorem C16_cubic_left_nak_row : forall p0 p1 p2 p3 x h0 h1 : Qc, h0 <> 0 -> h1 <> 0 -> h0 + h1 <> 0 ->
  let d := h0 + h1 in
  let tmp1 := (h0 + c2 NumQc * d) * h1 in
  h1 * dP p1 p2 p3 x + d * dP p1 p2 p3 (x + h0) =
  (tmp1 * (P p0 p1 p2 p3 (x + h0) - P p0 p1 p2 p3 x) / h0 +
   pow NumQc h0 (c2 NumQc) * (P p0 p1 p2 p3 (x + h0 + h1) - P p0 p1 p2 p3 (x + h0)) / h1) / d.
Proof. exact cubic_left_nak_row. Qed.
Print Assumptions C16_cubic_left_nak_row.
Theorem C16_cubic_right_nak_row : forall p0 p1 p2 p3 x hl hr : Qc, hl <> 0 -> hr <> 0 -> hl + hr <> 0 ->
  let d := hl + hr in
  let tmp1 := (c2 NumQc * d + hr) * hl in
  d * dP p1 p2 p3 (x - hr) + hl * dP p1 p2 p3 x =
  (pow NumQc hr (c2 NumQc) * (P p0 p1 p2 p3 (x - hr) - P p0 p1 p2 p3 (x - hr - hl)) / hl +
   tmp1 * (P p0 p1 p2 p3 x - P p0 p1 p2 p3 (x - hr)) / hr) / d.
Proof. exact cubic_right_nak_row. Qed.
Print Assumptions C16_cubic_right_nak_row.
Theorem C16_quadratic_parabola_rows : forall p0 p1 p2 x h0 h1 : Qc, h0 <> 0 -> h1 <> 0 ->
  let Pq := P p0 p1 p2 0 in let dq := dP p1 p2 0 in
  let s0 := (Pq (x + h0) - Pq x) / h0 in
  let s1 := (Pq (x + h0 + h1) - Pq (x + h0)) / h1 in
  c1 NumQc * dq x + c1 NumQc * dq (x + h0) = s0 * c2 NumQc /\
  h1 * dq x + c2 NumQc * (h0 + h1) * dq (x + h0) + h0 * dq (x + h0 + h1) = (s1 * h0 + s0 * h1) * c3 NumQc /\
  c1 NumQc * dq (x + h0) + c1 NumQc * dq (x + h0 + h1) = s1 * c2 NumQc.
Proof. exact quadratic_parabola_rows. Qed.
Print Assumptions C16_quadratic_parabola_rows.

(* ... and with these slopes every piece IS the cubic, inside and outside its interval; by the
   uniqueness theorem of C03 these are the slopes the solver returns *)
Theorem C16_cubic_piece_reproduces : forall p0 p1 p2 p3 x h u : Qc, h <> 0 ->
  piece (P p0 p1 p2 p3 x) (dP p1 p2 p3 x)
        (ca (dP p1 p2 p3 x) h (P p0 p1 p2 p3 (x + h) - P p0 p1 p2 p3 x))
        (cb (dP p1 p2 p3 (x + h)) h (P p0 p1 p2 p3 (x + h) - P p0 p1 p2 p3 x)) h u = P p0 p1 p2 p3 (x + u).
Proof. exact cubic_piece_reproduces. Qed.
Print Assumptions C16_cubic_piece_reproduces.
(* Partial: assembling these row identities into [sat (sys_rows ..) (map dP xs)] for a whole
   axis (index bookkeeping) is not done in Coq; the end-to-end statement is checked exactly on
   the implementation and the model by the correspondence. *)
