(* C14 -- *_into calls fill exactly the caller's buffer or reject a wrongly shaped one.
   The strategy is an arbitrary function F from a query to the lane vector it writes (or an
   error / panic) insisting on the target shape [trail]; the buffer is an arbitrary view
   (offset, shape, strides -- negative, permuted, with gaps) into the caller's memory.     *)
From Coq Require Import List Bool Arith ZArith.
From NI Require Import Num Base Entry EntryProofs Refuted.
Import ListNotations.

(* every cell of the buffer is overwritten with the value of the allocating variant: the cell at
   logical index (query index ++ lane index) holds what F computed for that query element *)
Theorem C14_into_fill :
  forall (T : Type) (F : T -> outcome (list T)) (trail qshape : list nat) (qs : list T)
         (buffer : view) (m m' : @mem T),
    length (v_shape buffer) = length (v_strides buffer) -> injective_view buffer ->
    length qs = length (indices qshape) ->
    interp_array_into F trail qshape qs buffer m = Ok m' ->
    forall c, In c (batch_cells F trail (combine (indices qshape) qs)) -> m' (addr buffer (fst c)) = snd c.
Proof. exact @interp_array_into_fill. Qed.
Print Assumptions C14_into_fill.

(* memory outside the buffer view is untouched *)
Theorem C14_into_frame :
  forall (T : Type) (F : T -> outcome (list T)) (trail qshape : list nat) (qs : list T)
         (buffer : view) (m m' : @mem T),
    length (v_shape buffer) = length (v_strides buffer) ->
    interp_array_into F trail qshape qs buffer m = Ok m' ->
    forall a, ~ in_image buffer a -> m' a = m a.
Proof. exact @interp_array_into_frame. Qed.
Print Assumptions C14_into_frame.

(* a buffer whose shape differs in any way (an axis +-1, a permutation with the same element
   count, another rank, also when the query is empty) is never accepted: the call panics *)
Theorem C14_into_reject_wrong_shape :
  forall (T : Type) (F : T -> outcome (list T)) (trail qshape : list nat) (qs : list T)
         (buffer : view) (m : @mem T),
    v_shape buffer <> qshape ++ trail -> interp_array_into F trail qshape qs buffer m = Panic.
Proof. exact @interp_array_into_reject_wrong_shape. Qed.
Print Assumptions C14_into_reject_wrong_shape.

Theorem C14_interp_into_reject_wrong_shape :
  forall (T : Type) (F : T -> outcome (list T)) (trail : list nat) (x : T) (buffer : view) (m : @mem T) vals,
    F x = Ok vals -> v_shape buffer <> trail -> interp_into F trail x buffer m = Panic.
Proof. exact @interp_into_reject_wrong_shape. Qed.
Print Assumptions C14_interp_into_reject_wrong_shape.

(* The 2-D precondition xs.shape() == ys.shape() (an assert! before anything else) is observed on
   the implementation (panic) on every run; the 2-D entry points are the same loop with a pair
   of coordinates as the query type T. *)

(* the finding F3, kept as a machine-checked witness: the PINNED general path had no shape check up front;
   for lanes [2], query shape [2] and a buffer of shape [3; 2] it returned Ok and left two cells unwritten,
   where the repaired entry point (fix: commit 6104f0d) panics before any write *)
Theorem C14_pinned_code_refuted :
  let F := fun x : Z => Ok [x; (x + 100)%Z] in
  let buffer := mkView 0%Z [3; 2] [2%Z; 1%Z] in
  (exists m', interp_array_into_old F [2] [2] [7%Z; 9%Z] buffer (fun _ => (-1)%Z) = Ok m' /\
              m' 4%Z = (-1)%Z /\ m' 5%Z = (-1)%Z) /\
  interp_array_into F [2] [2] [7%Z; 9%Z] buffer (fun _ => (-1)%Z) = Panic.
Proof. exact F3_old_accepts_oversized_buffer. Qed.
Print Assumptions C14_pinned_code_refuted.

Example C14_ex :   (* a reversed, strided window into a larger allocation *)
  let F := fun x : Z => Ok [x; (x + 1)%Z] in
  match interp_array_into F [2] [2] [10%Z; 20%Z] (mkView 9%Z [2; 2] [(-4)%Z; 2%Z]) (fun _ => 0%Z) with
  | Ok m => map m [5; 7; 9; 11; 6]%Z
  | _ => []
  end = [20; 21; 10; 11; 0]%Z.
Proof. vm_compute. reflexivity. Qed.
