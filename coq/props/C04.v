(* C04 -- Bilinear 2-D interpolation returns the exact bilinear blend of the cell. *)
From Coq Require Import List Bool Arith ZArith QArith Qcanon.
From NI Require Import Num Base Lookup Linear LookupProofs LinearProofs LinearExact.
Import ListNotations.
Local Open Scope nat_scope.

(* any element type: the four corners of ONE cell, x first then y, the same for every lane *)
Theorem C04_bilinear_reads_four_corners :
  forall (T : Type) (N : Num T) (d : T) ext xax yax (data : list (list (list T))) x y ix iy,
    range_guard N ext xax x = Ok tt -> range_guard N ext yax y = Ok tt ->
    lower_index N xax x = Ok ix -> lower_index N yax y = Ok iy ->
    ix + 1 < length xax -> iy + 1 < length yax -> length data = length xax ->
    (forall i, i < length data -> length (nth i data []) = length yax) ->
    bilinear_interp N ext xax yax data x y =
    Ok (map4 (bilinear_lane N (nth ix xax d) (nth (ix + 1) xax d) (nth iy yax d) (nth (iy + 1) yax d) x y)
             (cell data ix iy) (cell data ix (iy + 1)) (cell data (ix + 1) iy)
             (cell data (ix + 1) (iy + 1))).
Proof. exact @bilinear_reads_four_corners. Qed.
Print Assumptions C04_bilinear_reads_four_corners.

Theorem C04_bilinear_is_blend :
  forall (xax yax : list Qc) (data : list (list (list Qc))) (x y : Qc),
  StrictIncQc xax -> StrictIncQc yax -> 2 <= length xax -> 2 <= length yax ->
  (Z.of_nat (length xax) <= two64)%Z -> (Z.of_nat (length yax) <= two64)%Z ->
  length data = length xax ->
  (forall i, i < length data -> length (nth i data []) = length yax) ->
  (nth 0 xax 0 <= x)%Qc -> (x <= nth (length xax - 1) xax 0)%Qc ->
  (nth 0 yax 0 <= y)%Qc -> (y <= nth (length yax - 1) yax 0)%Qc ->
  exists i j, i + 1 < length xax /\ j + 1 < length yax /\
    (nth i xax 0 <= x)%Qc /\ (x <= nth (i + 1) xax 0)%Qc /\
    (nth j yax 0 <= y)%Qc /\ (y <= nth (j + 1) yax 0)%Qc /\
    bilinear_interp NumQc false xax yax data x y =
    Ok (map4 (fun z11 z12 z21 z22 =>
                let u := ((x - nth i xax 0) / (nth (i + 1) xax 0 - nth i xax 0))%Qc in
                let v := ((y - nth j yax 0) / (nth (j + 1) yax 0 - nth j yax 0))%Qc in
                ((1 - u) * (1 - v) * z11 + (1 - u) * v * z12 + u * (1 - v) * z21 + u * v * z22)%Qc)
             (cell data i j) (cell data i (j + 1)) (cell data (i + 1) j) (cell data (i + 1) (j + 1))).
Proof. exact bilinear_is_blend. Qed.
Print Assumptions C04_bilinear_is_blend.

Theorem C04_bilinear_nodes :
  forall x1 x2 y1 y2 z11 z12 z21 z22 : Qc, (x2 - x1 <> 0 -> y2 - y1 <> 0 ->
    bilinear_lane NumQc x1 x2 y1 y2 x1 y1 z11 z12 z21 z22 = z11 /\
    bilinear_lane NumQc x1 x2 y1 y2 x1 y2 z11 z12 z21 z22 = z12 /\
    bilinear_lane NumQc x1 x2 y1 y2 x2 y1 z11 z12 z21 z22 = z21 /\
    bilinear_lane NumQc x1 x2 y1 y2 x2 y2 z11 z12 z21 z22 = z22)%Qc.
Proof.
  intros. repeat split;
    [apply bilinear_lane_node11|apply bilinear_lane_node12|apply bilinear_lane_node21|apply bilinear_lane_node22]; assumption.
Qed.
Print Assumptions C04_bilinear_nodes.

Theorem C04_bilinear_gridline :
  forall x1 x2 y1 y2 x y z11 z12 z21 z22 : Qc,
    bilinear_lane NumQc x1 x2 y1 y2 x y1 z11 z12 z21 z22 = calc_frac NumQc (x1, z11) (x2, z21) x /\
    bilinear_lane NumQc x1 x2 y1 y2 x1 y z11 z12 z21 z22 = calc_frac NumQc (y1, z11) (y2, z12) y.
Proof. intros. split; [apply bilinear_lane_gridline_y1|apply bilinear_lane_gridline_x1]. Qed.
Print Assumptions C04_bilinear_gridline.

Theorem C04_bilinear_transpose :
  forall x1 x2 y1 y2 x y z11 z12 z21 z22 : Qc, (x2 - x1 <> 0 -> y2 - y1 <> 0 ->
    bilinear_lane NumQc x1 x2 y1 y2 x y z11 z12 z21 z22 =
    bilinear_lane NumQc y1 y2 x1 x2 y x z11 z21 z12 z22)%Qc.
Proof. exact bilinear_lane_transpose. Qed.
Print Assumptions C04_bilinear_transpose.

Example C04_ex :
  bilinear_interp NumQc false [qc 0 1; qc 2 1] [qc 0 1; qc 1 1]
    [[[qc 0 1]; [qc 4 1]]; [[qc 8 1]; [qc 16 1]]] (qc 1 1) (qc 1 2) = Ok [qc 7 1].
Proof. vm_compute. reflexivity. Qed.
