(* C04 -- Bilinear 2-D interpolation returns the exact bilinear blend of the cell. *)
From Coq Require Import List Bool Arith ZArith QArith Qcanon.
From Coq Require Import Reals.
From Flocq Require Import Core.
From NI Require Import Num Base Lookup Linear LookupProofs LinearProofs LinearExact FloatRound FloatLinear.
Import ListNotations.
Local Open Scope nat_scope.

(* any element type: the four corners of ONE cell, x first then y, the same for every lane *)
Theorem C04_bilinear_reads_four_corners :
  forall (T : Type) (N : Num T) (d : T) ext xax yax (data : list (list (list T))) x y ix iy,
    range_guard N ext xax x = Ok tt -> range_guard N ext yax y = Ok tt ->
    lower_index N xax x = Ok ix -> lower_index N yax y = Ok iy ->
    ix + 1 < length xax -> iy + 1 < length yax -> length data = length xax ->
    (forall i, i < length data -> length (nth i data []) = length yax) ->
    bilinear_interp N ext xax yax data x y =
    Ok (map4 (bilinear_lane N (nth ix xax d) (nth (ix + 1) xax d) (nth iy yax d) (nth (iy + 1) yax d) x y)
             (cell data ix iy) (cell data ix (iy + 1)) (cell data (ix + 1) iy)
             (cell data (ix + 1) (iy + 1))).
Proof. exact @bilinear_reads_four_corners. Qed.
Print Assumptions C04_bilinear_reads_four_corners.

Theorem C04_bilinear_is_blend :
  forall (xax yax : list Qc) (data : list (list (list Qc))) (x y : Qc),
  StrictIncQc xax -> StrictIncQc yax -> 2 <= length xax -> 2 <= length yax ->
  (Z.of_nat (length xax) <= two64)%Z -> (Z.of_nat (length yax) <= two64)%Z ->
  length data = length xax ->
  (forall i, i < length data -> length (nth i data []) = length yax) ->
  (nth 0 xax 0 <= x)%Qc -> (x <= nth (length xax - 1) xax 0)%Qc ->
  (nth 0 yax 0 <= y)%Qc -> (y <= nth (length yax - 1) yax 0)%Qc ->
  exists i j, i + 1 < length xax /\ j + 1 < length yax /\
    (nth i xax 0 <= x)%Qc /\ (x <= nth (i + 1) xax 0)%Qc /\
    (nth j yax 0 <= y)%Qc /\ (y <= nth (j + 1) yax 0)%Qc /\
    bilinear_interp NumQc false xax yax data x y =
    Ok (map4 (fun z11 z12 z21 z22 =>
                let u := ((x - nth i xax 0) / (nth (i + 1) xax 0 - nth i xax 0))%Qc in
                let v := ((y - nth j yax 0) / (nth (j + 1) yax 0 - nth j yax 0))%Qc in
                ((1 - u) * (1 - v) * z11 + (1 - u) * v * z12 + u * (1 - v) * z21 + u * v * z22)%Qc)
             (cell data i j) (cell data i (j + 1)) (cell data (i + 1) j) (cell data (i + 1) (j + 1))).
Proof. exact bilinear_is_blend. Qed.
Print Assumptions C04_bilinear_is_blend.

Theorem C04_bilinear_nodes :
  forall x1 x2 y1 y2 z11 z12 z21 z22 : Qc, (x2 - x1 <> 0 -> y2 - y1 <> 0 ->
    bilinear_lane NumQc x1 x2 y1 y2 x1 y1 z11 z12 z21 z22 = z11 /\
    bilinear_lane NumQc x1 x2 y1 y2 x1 y2 z11 z12 z21 z22 = z12 /\
    bilinear_lane NumQc x1 x2 y1 y2 x2 y1 z11 z12 z21 z22 = z21 /\
    bilinear_lane NumQc x1 x2 y1 y2 x2 y2 z11 z12 z21 z22 = z22)%Qc.
Proof.
  intros. repeat split;
    [apply bilinear_lane_node11|apply bilinear_lane_node12|apply bilinear_lane_node21|apply bilinear_lane_node22]; assumption.
Qed.
Print Assumptions C04_bilinear_nodes.

Theorem C04_bilinear_gridline :
  forall x1 x2 y1 y2 x y z11 z12 z21 z22 : Qc,
    bilinear_lane NumQc x1 x2 y1 y2 x y1 z11 z12 z21 z22 = calc_frac NumQc (x1, z11) (x2, z21) x /\
    bilinear_lane NumQc x1 x2 y1 y2 x1 y z11 z12 z21 z22 = calc_frac NumQc (y1, z11) (y2, z12) y.
Proof. intros. split; [apply bilinear_lane_gridline_y1|apply bilinear_lane_gridline_x1]. Qed.
Print Assumptions C04_bilinear_gridline.

Theorem C04_bilinear_transpose :
  forall x1 x2 y1 y2 x y z11 z12 z21 z22 : Qc, (x2 - x1 <> 0 -> y2 - y1 <> 0 ->
    bilinear_lane NumQc x1 x2 y1 y2 x y z11 z12 z21 z22 =
    bilinear_lane NumQc y1 y2 x1 x2 y x z11 z21 z12 z22)%Qc.
Proof. exact bilinear_lane_transpose. Qed.
Print Assumptions C04_bilinear_transpose.

(* "up to rounding": the three nested calc_frac of Bilinear in the standard model of floating-point
   arithmetic, any u <= 2^-10: inside the cell the result is within 31 u (15.5 machine epsilons) of the
   exact blend times the largest corner value (the harness compares with 16 machine epsilons) *)
Theorem C04_float_bilinear_standard_model :
  forall (u a1 a2 a3 a4 a5 a6 b1 b2 b3 b4 b5 b6 c1 c2 c3 c4 c5 c6 x1 x2 y1 y2 x y z11 z12 z21 z22 M : R),
  (0 <= u -> u <= / 1024 -> x1 < x2 -> x1 <= x <= x2 -> y1 < y2 -> y1 <= y <= y2 ->
  Rabs z11 <= M -> Rabs z12 <= M -> Rabs z21 <= M -> Rabs z22 <= M ->
  Rabs a1 <= u -> Rabs a2 <= u -> Rabs a3 <= u -> Rabs a4 <= u -> Rabs a5 <= u -> Rabs a6 <= u ->
  Rabs b1 <= u -> Rabs b2 <= u -> Rabs b3 <= u -> Rabs b4 <= u -> Rabs b5 <= u -> Rabs b6 <= u ->
  Rabs c1 <= u -> Rabs c2 <= u -> Rabs c3 <= u -> Rabs c4 <= u -> Rabs c5 <= u -> Rabs c6 <= u ->
  let w1 := cf_pert a1 a2 a3 a4 a5 a6 z11 z21 x1 x2 x in
  let w2 := cf_pert b1 b2 b3 b4 b5 b6 z12 z22 x1 x2 x in
  Rabs (cf_pert c1 c2 c3 c4 c5 c6 w1 w2 y1 y2 y - bl_exact x1 x2 y1 y2 x y z11 z12 z21 z22) <= 31 * u * M)%R.
Proof. exact bilinear_error_in_cell. Qed.
Print Assumptions C04_float_bilinear_standard_model.

(* the same with Flocq's correctly rounded operations (18 roundings), when none of them underflows *)
Theorem C04_float_bilinear_flocq :
  forall (prec emin : Z) (prec_gt_0_ : FLX.Prec_gt_0 prec), (11 <= prec)%Z ->
  forall (x1 x2 y1 y2 x y z11 z12 z21 z22 M : R),
    (x1 < x2 -> x1 <= x <= x2 -> y1 < y2 -> y1 <= y <= y2 ->
    Rabs z11 <= M -> Rabs z12 <= M -> Rabs z21 <= M -> Rabs z22 <= M ->
    cf_no_underflow prec emin z11 z21 x1 x2 x -> cf_no_underflow prec emin z12 z22 x1 x2 x ->
    cf_no_underflow prec emin (cf_fl prec emin z11 z21 x1 x2 x) (cf_fl prec emin z12 z22 x1 x2 x) y1 y2 y ->
    Rabs (cf_fl prec emin (cf_fl prec emin z11 z21 x1 x2 x) (cf_fl prec emin z12 z22 x1 x2 x) y1 y2 y
          - bl_exact x1 x2 y1 y2 x y z11 z12 z21 z22) <= 31 * uu prec * M)%R.
Proof. exact bilinear_fl_error_in_cell. Qed.
Print Assumptions C04_float_bilinear_flocq.

Theorem C04_float_model_tie :
  forall (prec emin : Z) ltbR lebR eqbR of_natR to_idxR remR powR (x1 x2 y1 y2 x y z11 z12 z21 z22 : R),
    bilinear_lane (NumFl prec emin ltbR lebR eqbR of_natR to_idxR remR powR) x1 x2 y1 y2 x y z11 z12 z21 z22 =
    cf_fl prec emin (cf_fl prec emin z11 z21 x1 x2 x) (cf_fl prec emin z12 z22 x1 x2 x) y1 y2 y.
Proof. exact bilinear_lane_NumFl. Qed.
Print Assumptions C04_float_model_tie.

Example C04_ex :
  bilinear_interp NumQc false [qc 0 1; qc 2 1] [qc 0 1; qc 1 1]
    [[[qc 0 1]; [qc 4 1]]; [[qc 8 1]; [qc 16 1]]] (qc 1 1) (qc 1 2) = Ok [qc 7 1].
Proof. vm_compute. reflexivity. Qed.
