(* C06 -- Extrapolation continues the end polynomial and never rejects a finite query. *)
From Coq Require Import List Bool Arith ZArith QArith Qcanon.
From NI Require Import Num Base Lookup Linear Interp Spline LookupProofs LinearProofs LinearExact
  Tri TriProofs SplineAlgebra SplineProofs SplineStruct SplineIndividual Units UnitsList BilinearList.
Import ListNotations.
Local Open Scope nat_scope.

(* never OutOfBounds (any element type) *)
Theorem C06_ext_never_err_linear :
  forall (T : Type) (N : Num T) ax data x, linear_interp N true ax data x <> ErrOOB.
Proof. exact @linear_ext_never_oob. Qed.
Print Assumptions C06_ext_never_err_linear.
Theorem C06_ext_never_err_bilinear :
  forall (T : Type) (N : Num T) xax yax data x y, bilinear_interp N true xax yax data x y <> ErrOOB.
Proof. exact @bilinear_ext_never_oob. Qed.
Print Assumptions C06_ext_never_err_bilinear.
Theorem C06_ext_never_err_spline :
  forall (T : Type) (N : Num T) (d : T) s xs data x,
    1 <= length xs -> sp_ext s <> ExtNo -> spline_interp N s xs data x <> ErrOOB.
Proof. exact @spline_ext_never_oob. Qed.
Print Assumptions C06_ext_never_err_spline.

(* inside the range the result is the SAME TERM with extrapolation on or off => bit-identical *)
Theorem C06_ext_in_range_same_term_linear :
  forall (T : Type) (N : Num T) (d : T) ax data x, 1 <= length ax ->
    in_closed_range N d ax x = true ->
    linear_interp N true ax data x = linear_interp N false ax data x.
Proof. exact @linear_ext_same_in_range. Qed.
Print Assumptions C06_ext_in_range_same_term_linear.
Theorem C06_ext_in_range_same_term_bilinear :
  forall (T : Type) (N : Num T) (d : T) xax yax data x y, 1 <= length xax -> 1 <= length yax ->
    in_closed_range N d xax x = true -> in_closed_range N d yax y = true ->
    bilinear_interp N true xax yax data x y = bilinear_interp N false xax yax data x y.
Proof. exact @bilinear_ext_same_in_range. Qed.
Print Assumptions C06_ext_in_range_same_term_bilinear.
Theorem C06_ext_in_range_same_term_spline :
  forall (T : Type) (N : Num T) (d : T) a b e1 e2 xs data x, 1 <= length xs ->
    in_closed_range N d xs x = true ->
    spline_interp N (mkSpline a b e1) xs data x = spline_interp N (mkSpline a b e2) xs data x.
Proof. exact @spline_ext_same_in_range. Qed.
Print Assumptions C06_ext_in_range_same_term_spline.

(* outside the range the lookup returns the first / last interval (C11), so the value is the
   end piece evaluated at the query: the same expression, with the parameter outside [0,1] *)
Theorem C06_ext_index_is_end_interval :
  forall (ax : list Qc) (x : Qc),
    StrictIncQc ax -> 2 <= length ax -> (Z.of_nat (length ax) <= two64)%Z ->
    exists i, lower_index NumQc ax x = Ok i /\ i + 2 <= length ax /\
      ((this x <= this (nth 0 ax 0%Qc))%Q -> i = 0) /\
      ((this (nth 0 ax 0%Qc) < this x)%Q -> (this (nth (length ax - 1) ax 0%Qc) <= this x)%Q ->
         i = length ax - 2) /\
      ((this (nth 0 ax 0%Qc) < this x)%Q -> (this x < this (nth (length ax - 1) ax 0%Qc))%Q ->
         (this (nth i ax 0%Qc) <= this x)%Q /\ (this x < this (nth (i + 1) ax 0%Qc))%Q).
Proof. exact lower_index_Qc. Qed.
Print Assumptions C06_ext_index_is_end_interval.

Theorem C06_ext_value_is_end_piece_linear :   (* the line through rows i, i+1 *)
  forall (T : Type) (N : Num T) (d : T) ax (data : list (list T)) x i,
    lower_index N ax x = Ok i -> i + 1 < length ax -> length data = length ax ->
    linear_interp N true ax data x =
    Ok (map2 (fun v1 v2 => calc_frac N (nth i ax d, v1) (nth (i + 1) ax d, v2) x)
             (nth i data []) (nth (i + 1) data [])).
Proof. intros T N d ax data x i. apply (linear_reads_bracket N d true ax data x i). reflexivity. Qed.
Print Assumptions C06_ext_value_is_end_piece_linear.

Theorem C06_ext_value_is_end_piece_spline :   (* the cubic of the interval the lookup chose *)
  forall (xs : list Qc) (data : list (list Qc)) (L : nat),
    (forall i, i < length data -> length (nth i data []) = L) ->
    StrictIncQc xs -> length xs = length data -> 3 <= length data ->
    (Z.of_nat (length data) <= two64)%Z -> 0 < L ->
    forall (b : bc Qc) (l r : single Qc) (trail : list nat) (sp : spline_strat) (j : nat),
      whole_lr b = Some (l, r) -> j < L ->
      spline_build NumQc b true xs data trail = Ok sp ->
      exists kq : list Qc,
        (forall k, sat 0%Qc (sys_rows xs data j l r) k <-> k = kq) /\
        forall x, exists i v, lower_index NumQc xs x = Ok i /\ i + 1 < length data /\
            spline_interp NumQc sp xs data x = Ok v /\ length v = L /\
            nth j v 0%Qc =
              piece (yq data j i) (kk kq i) (aq xs data j kq i) (bq xs data j kq i) (hq xs i)
                    (x - nth i xs 0)%Qc.
Proof.
  intros xs data L Hw HS Hl Hn H64 HL b l r trail sp j Hb Hj Hsp.
  destruct (spline_whole_correct xs data L Hw HS Hl Hn H64 HL b l r true trail sp j Hb Hj Hsp) as (kq & A & B).
  exists kq. split; [exact A|]. intros x. apply B. discriminate.
Qed.
Print Assumptions C06_ext_value_is_end_piece_spline.

(* the same for per-lane (Individual) boundaries *)
Theorem C06_ext_value_is_end_piece_spline_individual :
  forall (xs : list Qc) (data : list (list Qc)) (L : nat),
    (forall i, i < length data -> length (nth i data []) = L) ->
    StrictIncQc xs -> length xs = length data -> 3 <= length data ->
    (Z.of_nat (length data) <= two64)%Z -> 0 < L ->
    forall (per_lane : list (rowbc Qc)) (shape : list nat) (trail : list nat) (sp : spline_strat) (j : nat) (rb : rowbc Qc),
      j < L -> nth_error per_lane j = Some rb ->
      spline_build NumQc (BIndividual per_lane shape) true xs data trail = Ok sp ->
      exists kq : list Qc,
        (forall k, sat 0%Qc (sys_rows xs data j (fst (lane_lr rb)) (snd (lane_lr rb))) k <-> k = kq) /\
        forall x, exists i v, lower_index NumQc xs x = Ok i /\ i + 1 < length data /\
            spline_interp NumQc sp xs data x = Ok v /\ length v = L /\
            nth j v 0%Qc =
              piece (yq data j i) (kk kq i) (aq xs data j kq i) (bq xs data j kq i) (hq xs i)
                    (x - nth i xs 0)%Qc.
Proof.
  intros xs data L Hw HS Hl Hn H64 HL per_lane shape trail sp j rb Hj Hrb Hsp.
  destruct (spline_individual_correct xs data L Hw HS Hl Hn H64 HL per_lane shape true trail sp j rb Hj Hrb Hsp) as (kq & A & B).
  exists kq. split; [exact A|]. intros x. apply B. discriminate.
Qed.
Print Assumptions C06_ext_value_is_end_piece_spline_individual.

(* Bilinear: with extrapolation every query is answered by the bilinear form of the cell the two lookups
   select, which is the border cell (index 0 / n-2 per axis) for a coordinate outside the grid *)
Theorem C06_ext_value_is_border_cell_bilinear :
  forall (xax yax : list Qc) (data : list (list (list Qc))),
    StrictIncQc xax -> StrictIncQc yax -> 2 <= length xax -> 2 <= length yax ->
    (Z.of_nat (length xax) <= two64)%Z -> (Z.of_nat (length yax) <= two64)%Z ->
    length data = length xax -> (forall i, i < length data -> length (nth i data []) = length yax) ->
    forall x y : Qc, exists ix iy,
      lower_index NumQc xax x = Ok ix /\ lower_index NumQc yax y = Ok iy /\
      ix + 2 <= length xax /\ iy + 2 <= length yax /\
      ((this x <= this (nth 0 xax 0%Qc))%Q -> ix = 0) /\
      ((this (nth 0 xax 0%Qc) < this x)%Q -> (this (nth (length xax - 1) xax 0%Qc) <= this x)%Q -> ix = length xax - 2) /\
      ((this y <= this (nth 0 yax 0%Qc))%Q -> iy = 0) /\
      ((this (nth 0 yax 0%Qc) < this y)%Q -> (this (nth (length yax - 1) yax 0%Qc) <= this y)%Q -> iy = length yax - 2) /\
      bilinear_interp NumQc true xax yax data x y =
      Ok (map4 (fun z11 z12 z21 z22 =>
                  let u := ((x - nth ix xax 0) / (nth (ix + 1) xax 0 - nth ix xax 0))%Qc in
                  let v := ((y - nth iy yax 0) / (nth (iy + 1) yax 0 - nth iy yax 0))%Qc in
                  ((1 - u) * (1 - v) * z11 + (1 - u) * v * z12 + u * (1 - v) * z21 + u * v * z22)%Qc)
               (cell data ix iy) (cell data ix (iy + 1)) (cell data (ix + 1) iy) (cell data (ix + 1) (iy + 1))).
Proof. exact bilinear_ext_border_cell. Qed.
Print Assumptions C06_ext_value_is_border_cell_bilinear.

(* continuity across the range ends: the end piece takes the end data value at the end knot *)
Theorem C06_ext_continuous_at_ends :
  forall (x1 y1 x2 y2 : Qc), (x2 - x1 <> 0)%Qc ->
    calc_frac NumQc (x1, y1) (x2, y2) x1 = y1 /\ calc_frac NumQc (x1, y1) (x2, y2) x2 = y2.
Proof. intros. split; [apply calc_frac_left|apply calc_frac_right; assumption]. Qed.
Print Assumptions C06_ext_continuous_at_ends.

Example C06_ex :
  linear_interp NumQc true [qc 0 1; qc 1 1; qc 3 1] [[qc 0 1]; [qc 2 1]; [qc 3 1]] (qc 5 1) = Ok [qc 4 1].
Proof. vm_compute. reflexivity. Qed.
