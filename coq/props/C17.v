(* C17 -- An interpolator is immutable: answers do not depend on history or concurrency.
   The state record is the struct field list, re-read from the source on every run by
   extract/state.py (which also audits for interior mutability); query operations are pure
   functions of (state, operation).                                                        *)
From Coq Require Import List Bool Arith.
From NI Require Import Base History Interleave.
Import ListNotations.

Theorem C17_history_state_invariant :
  forall (S Op Ans : Type) (answer : S -> Op -> Ans) (s : S) (ops : list Op),
    fst (run_history answer s ops) = s.
Proof. exact @history_state_invariant. Qed.
Print Assumptions C17_history_state_invariant.

Theorem C17_answers_depend_on_query_only :
  forall (S Op Ans : Type) (answer : S -> Op -> Ans) (s : S) (ops : list Op) (i : nat) (o : Op),
    nth_error ops i = Some o -> nth_error (snd (run_history answer s ops)) i = Some (answer s o).
Proof. exact @answers_depend_on_query_only. Qed.
Print Assumptions C17_answers_depend_on_query_only.

Theorem C17_permutation_invariant :
  forall (S Op Ans : Type) (answer : S -> Op -> Ans) (s : S) (ops ops' : list Op),
    Permutation.Permutation ops ops' ->
    Permutation.Permutation (combine ops (snd (run_history answer s ops)))
                            (combine ops' (snd (run_history answer s ops'))).
Proof. exact @permutation_invariant. Qed.
Print Assumptions C17_permutation_invariant.

(* any interleaving of the operation sequences of several threads (sequential consistency): every thread
   sees exactly the answers it would see alone, and the interpolator is unchanged *)
Theorem C17_interleaving_invisible :
  forall (S Op Ans : Type) (answer : S -> Op -> Ans) (s : S) (schedule : list (nat * Op)) (t : nat),
    fst (run_history (ans_tagged answer) s schedule) = s /\
    thread_view t schedule (snd (run_history (ans_tagged answer) s schedule))
    = combine (thread_ops t schedule) (snd (run_history answer s (thread_ops t schedule))).
Proof. exact @interleaving_invisible. Qed.
Print Assumptions C17_interleaving_invisible.

(* Partial: executions that are not sequentially consistent, data races and the Send / Sync auto traits cannot be exhibited
   by a Gallina model.  What the check adds on every run: (a) the extractor's audit that no
   struct field, static or thread_local introduces shared mutable state and that every query
   method takes &self; (b) random histories replayed in permuted order and split over 2..16
   threads sharing one interpolator, answers compared bitwise; (c) compile-time Send + Sync
   assertions for owned / Arc / view storage. *)
